/-
  Tie proofs for sumdb/tlog/tile.go, part 6: `ReadTileData`.
-/
import ModVerif.Proofs.TieFnTile
import ModVerif.Proofs.TieFnTileHash
set_option linter.unusedSimpArgs false
namespace ModVerif.TieFnTile
open ModVerif ModVerif.GoRt ModVerif.GoRtTile ModVerif.TieFnTlogInt

/-- `StoredHashIndex(level, ·)` is monotone -/
theorem storedHashIndex_mono (l a b : Nat) (h : a ≤ b) : Tlog.storedHashIndex l a ≤ Tlog.storedHashIndex l b := by
  rw [Tlog.storedHashIndex_eq, Tlog.storedHashIndex_eq]
  have h1 : (a + 1) * 2 ^ l ≤ (b + 1) * 2 ^ l := Nat.mul_le_mul_right _ (by omega)
  have := TlogStore.S_mono ((b + 1) * 2 ^ l - 1) ((a + 1) * 2 ^ l - 1) (by omega)
  omega

theorem le_storedHashIndex (l k : Nat) : k + l ≤ Tlog.storedHashIndex l k := by
  rw [Tlog.storedHashIndex_eq]
  have h1 := TlogStore.le_S ((k + 1) * 2 ^ l - 1)
  have h2 : (k + 1) * 1 ≤ (k + 1) * 2 ^ l := Nat.mul_le_mul_left _ (Nat.two_pow_pos l)
  omega

/-- the stored-hash indexes of the hashes of a tile (the model's list) -/
def rtdIndexes (t : Tile.Tile) : List Nat :=
  (List.range (if t.w == 0 then 2 ^ t.h else t.w)).map fun i => Tlog.storedHashIndex (t.h * t.l) (t.n <<< t.h + i)

section
variable {H : Type} [DecidableEq H] [Inhabited H] (toBytes : H → Bytes)

/-- `for i := 0; i < size; i++ { indexes[i] = StoredHashIndex(t.H*t.L, start+int64(i)) }` -/
theorem ReadTileData_loop1_eq (t : Tile.Tile) (hd : t.data = false) (size start : Nat)
    (hlv : t.h * t.l < 2 ^ 63) (hsz : size < 2 ^ 63)
    (hr : ∀ i, i < size → Tlog.storedHashIndex (t.h * t.l) (start + i) < 2 ^ 63) :
    ∀ (d i fuel : Nat) (pre : List Int), i + d = size → pre.length = i → d + 64 ≤ fuel →
    Generated.Tile.ReadTileData_loop1 (H := H) toBytes (toGen t) (size : Int) (start : Int) fuel
        (pre ++ List.replicate d (0 : Int)) (i : Int) =
      .ok (pre ++ (List.range' i d).map (fun j => ((Tlog.storedHashIndex (t.h * t.l) (start + j) : Nat) : Int)), (size : Int)) := by
  intro d
  induction d with
  | zero =>
    intro i fuel pre hi hp hf
    obtain ⟨g, rfl⟩ : ∃ g, fuel = g + 1 := ⟨fuel - 1, by omega⟩
    have e : i = size := by omega
    subst e
    have : ¬ ((i : Int) < (i : Int)) := by omega
    rw [Generated.Tile.ReadTileData_loop1]
    simp only [this, decide_false, Bool.false_eq_true, ↓reduceIte, mpure, List.replicate_zero, List.append_nil,
      List.range'_zero, List.map_nil]
  | succ d ih =>
    intro i fuel pre hi hp hf
    obtain ⟨g, rfl⟩ : ∃ g, fuel = g + 1 := ⟨fuel - 1, by omega⟩
    have hlt : ((i : Int) < (size : Int)) := by omega
    have hri := hr i (by omega)
    have hle := le_storedHashIndex (t.h * t.l) (start + i)
    have e1 : (t.h : Int) * (t.l : Int) = ((t.h * t.l : Nat) : Int) := by simp
    have e2 : (start : Int) + (i : Int) = ((start + i : Nat) : Int) := by omega
    have e3 : (i : Int) + 1 = ((i + 1 : Nat) : Int) := by omega
    have hset : setIdxL (pre ++ List.replicate (d + 1) (0 : Int)) (i : Int)
        ((Tlog.storedHashIndex (t.h * t.l) (start + i) : Nat) : Int) =
        .ok ((pre ++ [((Tlog.storedHashIndex (t.h * t.l) (start + i) : Nat) : Int)]) ++ List.replicate d (0 : Int)) := by
      rw [setIdxL_natCast (by simp; omega)]
      congr 1
      rw [List.set_append_right _ _ (by omega), hp, Nat.sub_self, List.replicate_succ, List.set_cons_zero]
      simp
    rw [Generated.Tile.ReadTileData_loop1]
    simp only [hlt, decide_true, ↓reduceIte, toGen, hd, Bool.false_eq_true, e1, chk64_natCast hlv, mbind_ok, e2,
      chk64_natCast (show start + i < 2 ^ 63 by omega), StoredHashIndex_eq g _ _ hri (by omega), hset, e3,
      chk64_natCast (show i + 1 < 2 ^ 63 by omega)]
    have := ih (i + 1) g (pre ++ [((Tlog.storedHashIndex (t.h * t.l) (start + i) : Nat) : Int)]) (by omega) (by simp; omega)
      (by omega)
    simp only [toGen, hd, Bool.false_eq_true, ↓reduceIte] at this
    rw [this, List.range'_succ]
    simp

/-- `for i := 0; i < size; i++ { copy(tile[i*HashSize:], hashes[i][:]) }` for 32-byte hashes -/
theorem ReadTileData_loop2_eq (hb : ∀ x : H, (toBytes x).length = 32) (hashes : List H) (size : Nat)
    (hs : hashes.length = size) (hsz : 32 * size < 2 ^ 63) :
    ∀ (d i fuel : Nat) (pre : Bytes), i + d = size → pre.length = 32 * i → d < fuel →
    Generated.Tile.ReadTileData_loop2 toBytes (size : Int) hashes fuel (pre ++ List.replicate (32 * d) (0 : UInt8)) (i : Int) =
      .ok (pre ++ ((hashes.drop i).map toBytes).flatten, (size : Int)) := by
  intro d
  induction d with
  | zero =>
    intro i fuel pre hi hp hf
    obtain ⟨g, rfl⟩ : ∃ g, fuel = g + 1 := ⟨fuel - 1, by omega⟩
    have e : i = size := by omega
    subst e
    have : ¬ ((i : Int) < (i : Int)) := by omega
    rw [Generated.Tile.ReadTileData_loop2]
    simp only [this, decide_false, Bool.false_eq_true, ↓reduceIte, mpure, Nat.mul_zero, List.replicate_zero, List.append_nil]
    rw [List.drop_of_length_le (by omega)]
    simp
  | succ d ih =>
    intro i fuel pre hi hp hf
    obtain ⟨g, rfl⟩ : ∃ g, fuel = g + 1 := ⟨fuel - 1, by omega⟩
    have hlt : ((i : Int) < (size : Int)) := by omega
    have hil : i < hashes.length := by omega
    have e1 : (i : Int) * 32 = ((32 * i : Nat) : Int) := by omega
    have e3 : (i : Int) + 1 = ((i + 1 : Nat) : Int) := by omega
    have hcopy : copyAt (pre ++ List.replicate (32 * (d + 1)) (0 : UInt8)) ((32 * i : Nat) : Int) (toBytes hashes[i]) =
        .ok ((pre ++ toBytes hashes[i]) ++ List.replicate (32 * d) (0 : UInt8)) := by
      have hlen : (pre ++ List.replicate (32 * (d + 1)) (0 : UInt8)).length = 32 * i + 32 * (d + 1) := by simp [hp]
      have hc : ¬ (((32 * i : Nat) : Int) < 0 ∨ ((32 * i : Nat) : Int) > len (pre ++ List.replicate (32 * (d + 1)) (0 : UInt8))) := by
        simp only [len, hlen, Int.ofNat_eq_natCast]; omega
      have hmin : min (32 * i + 32 * (d + 1) - 32 * i) 32 = 32 := by omega
      simp only [copyAt, hc, ↓reduceIte, Int.toNat_natCast, hlen, hb, hmin]
      show Except.ok _ = Except.ok _
      congr 1
      rw [← hp, List.take_left' rfl, List.take_of_length_le (by rw [hb]; exact Nat.le_refl _), List.drop_append,
        List.drop_replicate]
      rw [List.drop_of_length_le (by omega), List.nil_append]
      congr 2
      omega
    rw [Generated.Tile.ReadTileData_loop2]
    simp only [hlt, decide_true, ↓reduceIte, idxL_natCast' hil, mbind_ok, e1, chk64_natCast (show 32 * i < 2 ^ 63 by omega),
      hcopy, e3, chk64_natCast (show i + 1 < 2 ^ 63 by omega)]
    rw [ih (i + 1) g (pre ++ toBytes hashes[i]) (by omega) (by simp [hp, hb]; omega) (by omega)]
    rw [List.drop_eq_getElem_cons hil, List.map_cons, List.flatten_cons, List.append_assoc]

/-- the model's answer in the result type of the generated `ReadTileData` (tile data as flat bytes); the error is the
    reader's own error or the "wrong number of hashes" message (`readErrOf`) -/
def rtdOut (r : List Int → List H × Option String) (t : Tile.Tile) : Except Tlog.Err (List H) → Bytes × Option String
  | .ok hs => ((hs.map toBytes).flatten, none)
  | .error _ => ([], readErrOf r (rtdIndexes t))

/-- `ReadTileData(t, r)` for an ordinary (non-data) tile, 32-byte hashes (`toBytes`), `H ≤ 62`, `size*HashSize` an
    int64, every stored-hash index of the tile an int64 (`hr`: the last one suffices, they increase) -/
theorem ReadTileData_eq (hb : ∀ x : H, (toBytes x).length = 32) (fuel : Nat) (t : Tile.Tile)
    (r : List Int → List H × Option String) (hd : t.data = false) (hh : t.h ≤ 62)
    (hsz : 32 * (if t.w == 0 then 2 ^ t.h else t.w) < 2 ^ 63)
    (hr : Tlog.storedHashIndex (t.h * t.l) (t.n <<< t.h + (if t.w == 0 then 2 ^ t.h else t.w) - 1) < 2 ^ 63)
    (hf : (if t.w == 0 then 2 ^ t.h else t.w) + 65 ≤ fuel) :
    Generated.Tile.ReadTileData toBytes fuel (toGen t) r =
      .ok (rtdOut toBytes r t (Tile.readTileData t (readerOf r))) := by
  have hp : 2 ^ t.h < 2 ^ 63 := Nat.pow_lt_pow_right (by omega) (by omega)
  have hpos : 0 < 2 ^ t.h := Nat.two_pow_pos _
  -- the size
  generalize hsize : (if t.w == 0 then 2 ^ t.h else t.w) = size at hsz hr hf
  have hsize_pos : 0 < size := by
    rw [← hsize]; split
    · exact hpos
    · rename_i h; simp at h; omega
  generalize hstart : t.n <<< t.h = start at hr
  have hlast := le_storedHashIndex (t.h * t.l) (start + size - 1)
  have hri : ∀ i, i < size → Tlog.storedHashIndex (t.h * t.l) (start + i) < 2 ^ 63 := by
    intro i hi
    exact Nat.lt_of_le_of_lt (storedHashIndex_mono _ _ _ (by omega)) hr
  have hidx : rtdIndexes t = (List.range size).map fun i => Tlog.storedHashIndex (t.h * t.l) (start + i) := by
    simp only [rtdIndexes, hsize, hstart]
  have hN : (toGen t).N = (t.n : Int) := rfl
  have hH : (toGen t).H = (t.h : Int) := rfl
  have hW : (toGen t).W = (t.w : Int) := rfl
  have hst : t.n * 2 ^ t.h = start := by rw [← hstart, Nat.shiftLeft_eq]
  have hl1 := ReadTileData_loop1_eq (H := H) toBytes t hd size start
    (by have := le_storedHashIndex (t.h * t.l) (start + size - 1); omega) (by omega) hri size 0 fuel [] (by omega) rfl (by omega)
  simp only [List.nil_append, Int.natCast_zero] at hl1
  have hmapidx : (List.range' 0 size).map (fun j => ((Tlog.storedHashIndex (t.h * t.l) (start + j) : Nat) : Int)) =
      (rtdIndexes t).map Int.ofNat := by
    rw [hidx, List.map_map, List.range_eq_range']
    rfl
  rw [hmapidx] at hl1
  have hmodel : Tile.readTileData t (readerOf r) = Tlog.readChecked (readerOf r) (rtdIndexes t) := rfl
  have hlenidx : (rtdIndexes t).length = size := by rw [hidx]; simp
  have e32 : (size : Int) * 32 = ((32 * size : Nat) : Int) := by omega
  have hsz63 : size < 2 ^ 63 := by omega
  rw [hmodel]
  unfold Generated.Tile.ReadTileData
  simp only [hW]
  -- the two branches of `if size == 0 { size = 1 << uint(t.H) }` lead to the same continuation
  by_cases hw0 : t.w = 0
  all_goals first
    | (have hs2 : size = 2 ^ t.h := by rw [← hsize]; simp [hw0]
       have hwz : ((t.w : Int) = 0) := by omega
       simp only [hwz, decide_true, ↓reduceIte, hH, toU64_natCast (show t.h < 2 ^ 64 by omega), shl_one_natCast, ← hs2,
         chk64_natCast hsz63, mbind_ok])
    | (have hs2 : size = t.w := by rw [← hsize]; simp [hw0]
       have hwz : ¬ ((t.w : Int) = 0) := by omega
       have hwz' : ¬ ((size : Int) = 0) := by omega
       simp only [hwz, hwz', decide_false, Bool.false_eq_true, ↓reduceIte, hH, toU64_natCast (show t.h < 2 ^ 64 by omega), ← hs2])
  all_goals
    simp only [hN, shl_natCast, hst, chk64_natCast (show start < 2 ^ 63 by omega), mbind_ok, makeList_natCast, hl1]
    unfold Tlog.readChecked readerOf
    generalize hrr : r ((rtdIndexes t).map Int.ofNat) = res
    obtain ⟨hashes, err⟩ := res
    cases err with
    | some e => simp [rtdOut, readErrOf, hrr, mpure]
    | none =>
      simp only [Option.isNone_none, Bool.not_true, Bool.false_eq_true, ↓reduceIte]
      by_cases hl : hashes.length = size
      · have hl' : (len hashes = len ((rtdIndexes t).map Int.ofNat)) := by
          simp only [len, List.length_map, hlenidx, hl]
        have hne : (hashes.length != (rtdIndexes t).length) = false := by simp [hlenidx, hl]
        have hl2 := ReadTileData_loop2_eq toBytes hb hashes size hl hsz size 0 fuel [] (by omega) rfl (by omega)
        simp only [List.nil_append, Int.natCast_zero, List.drop_zero] at hl2
        simp only [hl', decide_true, Bool.not_true, Bool.false_eq_true, ↓reduceIte, e32, chk64_natCast hsz, mbind_ok,
          makeList_natCast, hl2, mpure, hne, rtdOut]
      · have hl' : ¬ (len hashes = len ((rtdIndexes t).map Int.ofNat)) := by
          simp only [len, List.length_map, hlenidx, Int.ofNat_eq_natCast]; omega
        have hne : (hashes.length != (rtdIndexes t).length) = true := by simp [hlenidx, hl]
        simp only [hl', decide_false, Bool.not_false, ↓reduceIte, mpure, hne, rtdOut, readErrOf, hrr]

end
end ModVerif.TieFnTile
