/-
  Helper lemmas for Tie/FnEditSet.lean, `File.SetRequireSeparateIndirect`, part 3: the closures `insertBlock` and
  `ensureBlock` on a represented file: `insertAt stmts i emptyRequireBlock` and the model's `ensureBlock`.
-/
import ModVerif.Proofs.TieFnEditSetE
set_option linter.unusedSimpArgs false
set_option linter.unusedVariables false
namespace ModVerif.Tie.FnEditSetF
open ModVerif ModVerif.GoRt ModVerif.Generated.Edit ModVerif.Tie.FnEditRep ModVerif.Tie.FnEditTreeA ModVerif.Tie.FnEditSetA
  ModVerif.Tie.FnEditSetB ModVerif.Tie.FnEditSetD ModVerif.Tie.FnEditSetE
open ModVerif.Modfile.Edit (EFile insertAt emptyRequireBlock treeIds)

/-! ### `append; copy; store` = insertion -/

theorem ins_slice {α : Type} (a b : List α) (z : α) : sliceFrom (a ++ b ++ [z]) (a.length : Int) = .ok (b ++ [z]) := by
  rw [sliceFrom_natCast (by simp)]; simp

theorem ins_copy {α : Type} (a b : List α) (z : α) :
    copyAtL (a ++ b ++ [z]) ((a.length : Int) + 1) (b ++ [z]) = .ok (a ++ (b ++ [z]).take 1 ++ b) := by
  unfold copyAtL
  have hc : ¬ ((a.length : Int) + 1 < 0 ∨ (a.length : Int) + 1 > ((a ++ b ++ [z]).length : Int)) := by
    simp only [List.length_append, List.length_singleton]; omega
  simp only [hc, if_false, pure, Except.pure]
  have hk : ((a.length : Int) + 1).toNat = a.length + 1 := by omega
  rw [hk]
  have hn : min ((a ++ b ++ [z]).length - (a.length + 1)) (b ++ [z]).length = b.length := by
    simp only [List.length_append, List.length_singleton]; omega
  rw [hn]
  have e1 : List.take (a.length + 1) (a ++ b ++ [z]) = a ++ List.take 1 (b ++ [z]) := by
    rw [List.append_assoc, List.take_append]; simp [List.take_of_length_le]
  have e2 : List.take b.length (b ++ [z]) = b := by simp
  have e3 : List.drop (a.length + 1 + b.length) (a ++ b ++ [z]) = [] := by
    apply List.drop_of_length_le; simp; omega
  rw [e1, e2, e3]; simp

theorem ins_set {α : Type} (a b : List α) (z x : α) :
    setIdxL (a ++ (b ++ [z]).take 1 ++ b) (a.length : Int) x = .ok (a ++ x :: b) := by
  cases hb : b ++ [z] with
  | nil => simp at hb
  | cons c t =>
    have hr : 0 ≤ (a.length : Int) ∧ (a.length : Int) < len (a ++ List.take 1 (c :: t) ++ b) := by
      simp [len_eq]; omega
    simp only [setIdxL, hr, and_self, if_true, pure, Except.pure]
    simp

theorem setIdxL_mid {α : Type} (a : List α) (y : α) (b : List α) (x : α) :
    setIdxL (a ++ y :: b) (a.length : Int) x = .ok (a ++ x :: b) := by
  have hr : 0 ≤ (a.length : Int) ∧ (a.length : Int) < len (a ++ y :: b) := by simp [len_eq]; omega
  simp only [setIdxL, hr, and_self, if_true, pure, Except.pure]
  simp

/-! ### splitting the statement relation -/

theorem RStmts_append_inv {h : Heap} : ∀ {a b : List Expr} {ss : List Modfile.Expr}, RStmts h (a ++ b) ss →
    ∃ sa sb, ss = sa ++ sb ∧ sa.length = a.length ∧ RStmts h a sa ∧ RStmts h b sb
  | [], b, ss, r => ⟨[], ss, rfl, rfl, trivial, r⟩
  | e :: a, b, [], r => r.elim
  | e :: a, b, s :: ss, r => by
    obtain ⟨sa, sb, h1, h2, h3, h4⟩ := RStmts_append_inv (a := a) (b := b) r.2
    exact ⟨s :: sa, sb, by simp [h1], by simp [h2], ⟨r.1, h3⟩, h4⟩

theorem blockPtrs_append : ∀ (a b : List Expr), blockPtrs (a ++ b) = blockPtrs a ++ blockPtrs b
  | [], b => rfl
  | .LineBlock p :: a, b => by simp [blockPtrs, blockPtrs_append a b]
  | .CommentBlock _ :: a, b => by simp [blockPtrs, blockPtrs_append a b]
  | .Line _ :: a, b => by simp [blockPtrs, blockPtrs_append a b]
  | .LParen _ :: a, b => by simp [blockPtrs, blockPtrs_append a b]
  | .RParen _ :: a, b => by simp [blockPtrs, blockPtrs_append a b]
  | .FileSyntax _ :: a, b => by simp [blockPtrs, blockPtrs_append a b]
  | .nil :: a, b => by simp [blockPtrs, blockPtrs_append a b]

/-- the block pointers of a represented statement list are allocated -/
theorem RStmts_blockPtrs_le {h : Heap} : ∀ {es : List Expr} {ss : List Modfile.Expr}, RStmts h es ss →
    ∀ p ∈ blockPtrs es, 0 < p ∧ p.toNat ≤ h.blocks.length
  | [], [], _, p, hp => by simp [blockPtrs] at hp
  | e :: es, s :: ss, r, p, hp => by
    have r1 := r.1
    cases e <;> cases s <;> simp only [RExpr] at r1 <;> try exact r1.elim
    · exact RStmts_blockPtrs_le r.2 p (by simpa [blockPtrs] using hp)
    · exact RStmts_blockPtrs_le r.2 p (by simpa [blockPtrs] using hp)
    · simp only [blockPtrs, List.mem_cons] at hp
      rcases hp with rfl | hp
      · obtain ⟨ps, hg, _⟩ := r1
        exact ⟨heapGet_pos hg, heapGet_le_length hg⟩
      · exact RStmts_blockPtrs_le r.2 p hp
  | [], _ :: _, r, _, _ => r.elim
  | _ :: _, [], r, _, _ => r.elim

/-! ### rebuilding the file representation after a change of the graph -/

/-- the typed object lists other than `requires` are untouched -/
structure TypedEq (h h' : Heap) : Prop where
  modules : h'.modules = h.modules
  gos : h'.gos = h.gos
  toolchains : h'.toolchains = h.toolchains
  godebugs : h'.godebugs = h.godebugs
  excludes : h'.excludes = h.excludes
  replaces : h'.replaces = h.replaces
  retracts : h'.retracts = h.retracts
  tools : h'.tools = h.tools

theorem TypedEq.refl (h : Heap) : TypedEq h h := ⟨rfl, rfl, rfl, rfl, rfl, rfl, rfl, rfl⟩
theorem TypedEq.trans {a b c : Heap} (x : TypedEq a b) (y : TypedEq b c) : TypedEq a c :=
  ⟨y.modules.trans x.modules, y.gos.trans x.gos, y.toolchains.trans x.toolchains, y.godebugs.trans x.godebugs,
   y.excludes.trans x.excludes, y.replaces.trans x.replaces, y.retracts.trans x.retracts, y.tools.trans x.tools⟩

theorem RepFAt_rebuild {h h' : Heap} {o : File} {e : EFile} (R : RepFAt h o e) {fs' : Modfile.FileSyntax} {n' : Nat}
    {rq' : List Modfile.Require} (hsyn : RepSyn h' o.Syntax fs') (htok : BlockTokOK fs'.stmts) (hG : LinesG h')
    (hnext : n' = h'.lines.length + 1) (hle : h.lines.length ≤ h'.lines.length)
    (hreq : REnts h'.requires requireG (·.lineId) h'.lines.length o.Require rq') (hT : TypedEq h h') :
    RepFAt h' o { f := { e.f with syn := fs', require := rq' }, next := n' } where
  syn := hsyn
  tok := htok
  linesG := hG
  next := hnext
  module := by have := R.module.mono (objs' := h'.modules) (by rw [hT.modules]; exact fun _ _ x => x) hle; exact this
  go := by have := R.go.mono (objs' := h'.gos) (by rw [hT.gos]; exact fun _ _ x => x) hle; exact this
  toolchain := by have := R.toolchain.mono (objs' := h'.toolchains) (by rw [hT.toolchains]; exact fun _ _ x => x) hle; exact this
  godebug := by have := R.godebug.mono (objs' := h'.godebugs) (by rw [hT.godebugs]; exact fun _ _ x => x) hle; exact this
  require := hreq
  exclude := by have := R.exclude.mono (objs' := h'.excludes) (by rw [hT.excludes]; exact fun _ _ x => x) hle; exact this
  replace := by have := R.replace.mono (objs' := h'.replaces) (by rw [hT.replaces]; exact fun _ _ x => x) hle; exact this
  retract := by have := R.retract.mono (objs' := h'.retracts) (by rw [hT.retracts]; exact fun _ _ x => x) hle; exact this
  tool := by have := R.tool.mono (objs' := h'.tools) (by rw [hT.tools]; exact fun _ _ x => x) hle; exact this

/-- the model file with a new statement list -/
def withStmts (e : EFile) (stmts : List Modfile.Expr) : EFile :=
  { e with f := { e.f with syn := { e.f.syn with stmts := stmts } } }

@[simp] theorem withStmts_stmts (e : EFile) (s : List Modfile.Expr) : (withStmts e s).f.syn.stmts = s := rfl
@[simp] theorem withStmts_require (e : EFile) (s : List Modfile.Expr) : (withStmts e s).f.require = e.f.require := rfl
@[simp] theorem withStmts_next (e : EFile) (s : List Modfile.Expr) : (withStmts e s).next = e.next := rfl
@[simp] theorem withStmts_withStmts (e : EFile) (s t : List Modfile.Expr) : withStmts (withStmts e s) t = withStmts e t := rfl
theorem withStmts_self (e : EFile) : withStmts e e.f.syn.stmts = e := rfl

/-! ### insertBlock -/

/-- the new block object `&LineBlock{Token: []string{"require"}}` -/
def newBlock : LineBlock := { (default : LineBlock) with Token := [([114, 101, 113, 117, 105, 114, 101] : Bytes)] }

theorem newBlock_eq : newBlock = blockG { token := [B "require"] } [] := by
  rw [B_require]; rfl

/-- the heap after `insertBlock(i)` -/
def insHeap (h : Heap) (x : Int) (fo : FileSyntax) (es' : List Expr) : Heap :=
  { h with blocks := h.blocks ++ [newBlock], files := h.files.set (x.toNat - 1) { fo with Stmt := es' } }

theorem insertBlock_eq (isPrint : Int → Bool) (quote : Bytes → Bytes) (fuel : Nat) {h : Heap} {f : Int} {o : File} {fo : FileSyntax}
    (hm : heapGet h.mods f = .ok o) (hfile : heapGet h.files o.Syntax = .ok fo) (a b : List Expr) (hab : fo.Stmt = a ++ b) :
    File_SetRequireSeparateIndirect_insertBlock isPrint quote fuel f (a.length : Int) h =
      .ok (((h.blocks.length + 1 : Nat) : Int),
           insHeap h o.Syntax fo (a ++ Expr.LineBlock ((h.blocks.length + 1 : Nat) : Int) :: b)) := by
  unfold File_SetRequireSeparateIndirect_insertBlock
  simp only [heapAlloc, bind, Except.bind, pure, Except.pure, hm, hfile, heapSet_of_get _ hfile,
    fun X => heapGet_listSet_same X hfile, fun X Y => heapSet_listSet_same hfile X Y, hab, ins_slice, ins_copy, ins_set]
  rfl

theorem treeIds_empty : treeIds [emptyRequireBlock] = [] := by
  simp [emptyRequireBlock, Modfile.Edit.treeIds_block]

theorem treeIds_insert (sa sb : List Modfile.Expr) : treeIds (sa ++ emptyRequireBlock :: sb) = treeIds (sa ++ sb) := by
  rw [Modfile.Edit.treeIds_append, Modfile.Edit.treeIds_cons, treeIds_empty, Modfile.Edit.treeIds_append]; simp

theorem BlockTokOK_insert {sa sb : List Modfile.Expr} (hb : BlockTokOK (sa ++ sb)) : BlockTokOK (sa ++ emptyRequireBlock :: sb) := by
  intro b hbm
  simp only [List.mem_append, List.mem_cons] at hbm
  rcases hbm with h1 | h1 | h1
  · exact hb b (List.mem_append_left _ h1)
  · simp only [emptyRequireBlock, Modfile.Expr.lineBlock.injEq] at h1
    subst h1; simp
  · exact hb b (List.mem_append_right _ h1)

theorem RepSynAt_insert {h : Heap} {x : Int} {fs : Modfile.FileSyntax} {a b : List Expr} (r : RepSynAt h x fs (a ++ b))
    {sa sb : List Modfile.Expr} (hs : fs.stmts = sa ++ sb) (hl : sa.length = a.length) :
    RepSynAt (insHeap h x (fileG fs (a ++ b)) (a ++ Expr.LineBlock ((h.blocks.length + 1 : Nat) : Int) :: b)) x
      { fs with stmts := sa ++ emptyRequireBlock :: sb } (a ++ Expr.LineBlock ((h.blocks.length + 1 : Nat) : Int) :: b) := by
  have hmono : ∀ {es ss}, RStmts h es ss →
      RStmts (insHeap h x (fileG fs (a ++ b)) (a ++ Expr.LineBlock ((h.blocks.length + 1 : Nat) : Int) :: b)) es ss :=
    fun r => RStmts.mono (h := h)
      (h' := insHeap h x (fileG fs (a ++ b)) (a ++ Expr.LineBlock ((h.blocks.length + 1 : Nat) : Int) :: b))
      (fun _ _ x => x) (fun q w (x : heapGet h.blocks q = .ok w) => heapGet_alloc_old newBlock x) (fun _ _ x => x) r
  obtain ⟨sa', sb', h1, h2, h3, h4⟩ := RStmts_append_inv r.stmts
  have hsa : sa' = sa := by
    have := congrArg (List.take a.length) (h1.symm.trans hs)
    rw [← h2, List.take_left, h2, ← hl, List.take_left] at this
    exact this
  have hsb : sb' = sb := by
    rw [hsa] at h1
    exact List.append_cancel_left (h1.symm.trans hs)
  subst hsa hsb
  refine ⟨?_, ?_, ?_, ?_⟩
  · exact heapGet_listSet_same _ r.file
  · show RStmts _ _ (sa' ++ emptyRequireBlock :: sb')
    refine RStmts.append (hmono h3) ⟨?_, hmono h4⟩
    refine ⟨[], ?_, trivial⟩
    show heapGet (h.blocks ++ [newBlock]) _ = _
    rw [newBlock_eq]
    exact heapGet_alloc_new _ _
  · rw [blockPtrs_append]
    have hnb := r.nodupB
    rw [blockPtrs_append] at hnb
    simp only [blockPtrs]
    have hfresh : ∀ p ∈ blockPtrs (a ++ b), p ≠ ((h.blocks.length + 1 : Nat) : Int) := by
      intro p hp
      have := (RStmts_blockPtrs_le r.stmts p hp).2
      omega
    rw [blockPtrs_append] at hfresh
    apply nodup_insert_fresh hnb
    · intro hm; exact hfresh _ (List.mem_append_left _ hm) rfl
    · intro hm; exact hfresh _ (List.mem_append_right _ hm) rfl
  · show (treeIds (sa' ++ emptyRequireBlock :: sb')).Nodup
    rw [treeIds_insert, ← hs]; exact r.nodupL
where
  nodup_insert_fresh {a b : List Int} {n : Int} (h : (a ++ b).Nodup) (ha : n ∉ a) (hb : n ∉ b) : (a ++ n :: b).Nodup := by
    rw [List.nodup_append] at h ⊢
    refine ⟨h.1, List.nodup_cons.2 ⟨hb, h.2.1⟩, ?_⟩
    intro x hx y hy
    rcases List.mem_cons.1 hy with rfl | hy
    · intro e; subst e; exact ha hx
    · exact h.2.2 x hx y hy

/-- **`insertBlock(i)` on a represented file**: the model statement list gets `emptyRequireBlock` at `i`; the result is the
    pointer of the new block, which now stands at index `i`; nothing else changes -/
theorem insertBlock_sim (isPrint : Int → Bool) (quote : Bytes → Bytes) (fuel : Nat) {h : Heap} {f : Int} {o : File} {e : EFile}
    (hm : heapGet h.mods f = .ok o) (R : RepFAt h o e) (i : Nat) (hi : i ≤ e.f.syn.stmts.length) :
    ∃ h' fo es, File_SetRequireSeparateIndirect_insertBlock isPrint quote fuel f (i : Int) h =
        .ok (((h.blocks.length + 1 : Nat) : Int), h') ∧
      RepFAt h' o (withStmts e (insertAt e.f.syn.stmts i emptyRequireBlock)) ∧
      heapGet h.files o.Syntax = .ok fo ∧ fo.Stmt = es ∧
      heapGet h'.files o.Syntax = .ok { fo with Stmt := insertAt es i (Expr.LineBlock ((h.blocks.length + 1 : Nat) : Int)) } ∧
      h'.mods = h.mods ∧ h'.requires = h.requires ∧ h'.lines = h.lines ∧ h'.blocks = h.blocks ++ [newBlock] ∧
      RStmts h es e.f.syn.stmts := by
  obtain ⟨es, r⟩ := R.syn
  have hlen := r.stmts.length
  have hab : (fileG e.f.syn es).Stmt = es.take i ++ es.drop i := by simp
  have hrun := insertBlock_eq isPrint quote fuel hm r.file (es.take i) (es.drop i) hab
  have hil : (es.take i).length = i := by simp; omega
  rw [hil] at hrun
  have r' : RepSynAt h o.Syntax e.f.syn (es.take i ++ es.drop i) := by simpa using r
  have r2 := RepSynAt_insert r' (sa := e.f.syn.stmts.take i) (sb := e.f.syn.stmts.drop i) (by simp) (by simp; omega)
  simp only [List.take_append_drop] at r2
  refine ⟨_, fileG e.f.syn es, es, hrun, ?_, r.file, rfl, ?_, rfl, rfl, rfl, rfl, r.stmts⟩
  · have hT : TypedEq h (insHeap h o.Syntax (fileG e.f.syn es)
        (es.take i ++ Expr.LineBlock ((h.blocks.length + 1 : Nat) : Int) :: es.drop i)) := ⟨rfl, rfl, rfl, rfl, rfl, rfl, rfl, rfl⟩
    have := RepFAt_rebuild R (h' := insHeap h o.Syntax (fileG e.f.syn es)
        (es.take i ++ Expr.LineBlock ((h.blocks.length + 1 : Nat) : Int) :: es.drop i))
      (fs' := { e.f.syn with stmts := e.f.syn.stmts.take i ++ emptyRequireBlock :: e.f.syn.stmts.drop i }) (n' := e.next)
      (rq' := e.f.require) ⟨_, r2⟩ ?_ R.linesG R.next (Nat.le_refl _) R.require hT
    · exact this
    · apply BlockTokOK_insert; simpa using R.tok
  · exact heapGet_listSet_same _ r.file

end ModVerif.Tie.FnEditSetF
