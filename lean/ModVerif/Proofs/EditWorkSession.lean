/-
  EditWork, part 4 — go.mod sessions: a static form of C08 `untouched_lines_survive` (`untouched_lines_survive_static`: no
  operation names the line's tokens, and the line is not an `exclude` / `replace` / `tool` line — the only verbs whose lines
  SortBlocks de-duplicates), and **C16 `comments_survive` composed along a session** (`comments_survive_session`): operations
  that spare the requirement line, a bulk requirement setter, Cleanup, operations that spare the rewritten line.
-/
import ModVerif.Proofs.EditMoreKeepF
import ModVerif.Proofs.EditMoreComD
import ModVerif.Proofs.EditMoreNoPanic
import ModVerif.Proofs.EditWorkSorted
set_option linter.unusedSimpArgs false
namespace ModVerif.Modfile.Edit
open ModVerif ModVerif.Modfile

/-- the line is not of a kind that SortBlocks de-duplicates (exclude, replace, tool) -/
def NotDedupVerb (toks : List Bytes) : Prop :=
  toks.head? ≠ some (B "exclude") ∧ toks.head? ≠ some (B "replace") ∧ toks.head? ≠ some (B "tool")

instance (toks : List Bytes) : Decidable (NotDedupVerb toks) := by unfold NotDedupVerb; infer_instance

/-- with the invariant, SortBlocks' de-duplication only ever removes `exclude`, `replace` and `tool` lines -/
theorem Inv.not_killed_of_verb {e : EFile} (hi : Inv e) {x : XLine} (hx : x ∈ viewX e.f.syn.stmts) (hv : NotDedupVerb x.toks) :
    x.id ∉ kill3 e.f := by
  intro hk
  have hpos : x.id ≠ 0 := hi.tree.pos _ (viewX_id_mem hx)
  rcases kill3_src e.f _ hk with ⟨z, hz, hzid⟩ | ⟨z, hz, hzid⟩ | ⟨z, hz, hzid⟩
  · have hzl : liveX z = true := by
      cases hzl : liveX z with
      | true => rfl
      | false => exact absurd ((hi.tinv.wfX z hz).2 hzl) (by show ¬ z.lineId = 0; rw [hzid]; exact hpos)
    have hacc := hi.acc_of_id hx (mem_entries_exclude hz hzl) (by show z.lineId = x.id; exact hzid)
    simp only [entX] at hacc
    exact hv.1 (by rw [hacc]; rfl)
  · have hzl : liveRp z = true := by
      cases hzl : liveRp z with
      | true => rfl
      | false => exact absurd ((hi.tinv.wfR z hz).2 hzl) (by show ¬ z.lineId = 0; rw [hzid]; exact hpos)
    have hacc := hi.acc_of_id hx (mem_entries_replace hz hzl) (by show z.lineId = x.id; exact hzid)
    simp only [entRp] at hacc
    exact hv.2.1 (by rw [hacc]; simp [replaceToks])
  · have hzl : liveT z = true := by
      cases hzl : liveT z with
      | true => rfl
      | false => exact absurd ((hi.tinv.wfT z hz).2 hzl) (by show ¬ z.lineId = 0; rw [hzid]; exact hpos)
    have hacc := hi.acc_of_id hx (mem_entries_tool hz hzl) (by show z.lineId = x.id; exact hzid)
    simp only [entT] at hacc
    rcases hacc with ⟨y, h1, _⟩
    exact hv.2.2 (by rw [h1]; rfl)

/-- the run-following condition `Spared` follows from a static one: no operation names the tokens, and the line is not of
    a de-duplicated kind -/
theorem runOps_untouched_static (ops : List Op) : ∀ (e : EFile) (res0 : List Bool) (i : Nat) (e' : EFile) (res : List Bool),
    RunValid e ops → Inv e → runOps applyMod e ops res0 i = .done e' res →
    ∀ x ∈ viewX e.f.syn.stmts, (∀ op ∈ ops, ¬Targets op x.toks) → NotDedupVerb x.toks → ∃ x' ∈ viewX e'.f.syn.stmts, x.le x' := by
  induction ops with
  | nil =>
    intro e res0 i e' res _ _ h x hx _ _
    simp only [runOps, SessionResult.done.injEq] at h
    rw [← h.1]; exact ⟨x, hx, x.le_refl⟩
  | cons op ops ih =>
    intro e res0 i e' res hv hi h x hx hnt hnd
    unfold runOps at h
    cases ha : applyMod e op with
    | none => simp [ha] at h
    | some r =>
      cases r with
      | ok e1 =>
        simp only [ha] at h
        rcases applyMod_untouched e e1 op hv.1 hi ha x hx (hnt op List.mem_cons_self)
          (fun _ => hi.not_killed_of_verb hx hnd) with ⟨y, hy, hxy⟩
        rcases ih e1 _ _ e' res (hv.2.1 e1 ha) (applyMod_inv_all e e1 op hv.1 hi ha) h y hy
          (by rw [hxy.2.1]; exact fun o ho => hnt o (List.mem_cons_of_mem _ ho)) (by rw [hxy.2.1]; exact hnd) with ⟨z, hz, hyz⟩
        exact ⟨z, hz, XLine.le_trans hxy hyz⟩
      | error err =>
        simp only [ha] at h
        by_cases hr : err.isReturned = true
        · simp only [hr, if_true] at h
          exact ih e _ _ e' res (hv.2.2 err ha hr) hi h x hx (fun o ho => hnt o (List.mem_cons_of_mem _ ho)) hnd
        · simp only [Bool.not_eq_true] at hr
          simp [hr] at h

/-- **C08 `untouched_lines_survive`, static form.**  In a go.mod session with valid arguments from a state satisfying the
    invariant, a line whose tokens no operation of the session names (`Targets` depends on the operation and the tokens
    only, not on the state) and that is not an `exclude` / `replace` / `tool` line is still in the tree after the final
    Cleanup, with its id, its tokens and its comments. -/
theorem untouched_lines_survive_static (e e' : EFile) (ops : List Op) (res : List Bool) (hi : Inv e) (hv : RunValid e ops)
    (h : runOps applyMod e ops [] 0 = .done e' res) (x : XLine) (hx : x ∈ viewX e.f.syn.stmts)
    (hnt : ∀ op ∈ ops, ¬Targets op x.toks) (hnd : NotDedupVerb x.toks) :
    ∃ x' ∈ viewX (cleanup e').f.syn.stmts, x'.id = x.id ∧ x'.toks = x.toks ∧ x.before.Sublist x'.before ∧
      x.suffix.Sublist x'.suffix := by
  rcases runOps_untouched_static ops e [] 0 e' res hv hi h x hx hnt hnd with ⟨y, hy, hxy⟩
  rcases keeps_cleanupStmts e'.f.syn.stmts y hy (by simp) with ⟨z, hz, hyz⟩
  exact ⟨z, hz, XLine.le_trans hxy hyz⟩

/-! ### `RunValid` along a split session -/

theorem RunValid.left (a b : List Op) : ∀ e : EFile, RunValid e (a ++ b) → RunValid e a := by
  induction a with
  | nil => intro e _; trivial
  | cons op ops ih =>
    intro e h
    exact ⟨h.1, fun e' ha => ih e' (h.2.1 e' ha), fun err ha hr => ih e (h.2.2 err ha hr)⟩

theorem RunValid.right (a b : List Op) : ∀ (e : EFile) (res0 : List Bool) (i : Nat) (e1 : EFile) (r1 : List Bool),
    RunValid e (a ++ b) → runOps applyMod e a res0 i = .done e1 r1 → RunValid e1 b := by
  induction a with
  | nil =>
    intro e res0 i e1 r1 hv h
    simp only [runOps, SessionResult.done.injEq] at h
    rw [← h.1]; exact hv
  | cons op ops ih =>
    intro e res0 i e1 r1 hv h
    unfold runOps at h
    cases ha : applyMod e op with
    | none => simp [ha] at h
    | some r =>
      cases r with
      | ok e2 =>
        simp only [ha] at h
        exact ih e2 _ _ e1 r1 (hv.2.1 e2 ha) h
      | error err =>
        simp only [ha] at h
        by_cases hr : err.isReturned = true
        · simp only [hr, if_true] at h
          exact ih e _ _ e1 r1 (hv.2.2 err ha hr) h
        · simp only [Bool.not_eq_true] at hr
          simp [hr] at h

/-! ### comments along a session -/

/-- one of the two bulk requirement setters -/
def bulkOp (sep : Bool) (want : List Want) (rev : Bool) : Op :=
  if sep then .setRequireSeparateIndirect want rev else .setRequire want rev

theorem BeforeKept.of_sublist {a b c : List Comment} (h1 : a.Sublist b) (h2 : BeforeKept b c) : BeforeKept a c :=
  (List.Sublist.filter _ h1).trans h2

/-- **C16 `comments_survive` along a session.**  Session `ops1 ++ [bulk setter, Cleanup] ++ ops2` from a state satisfying the
    invariant, every operation with valid arguments in the state in which it runs.  Let `x0` be a line of the starting tree
    that `ops1` spares (`Spared`), and let it be, in the state `e1` in which the setter runs, the line of the FIRST
    requirement `r` of a requested path (`w ∈ want`, `w.path = r.mod.path`).  If no operation of `ops2` names the rewritten
    line `require <path> <requested version>`, then the tree after the final Cleanup has a line with exactly these tokens
    that carries every non-blank `Before` comment of `x0`, and the end-of-line comments the line had when the setter ran
    (`x1.suffix`, which contain those of `x0`) as `setIndirect` rewrites them (`sfxAfter`: only the indirect marker changes). -/
theorem comments_survive_session (e e1 e' : EFile) (ops1 ops2 : List Op) (sep rev : Bool) (want : List Want)
    (res res1 : List Bool) (hi : Inv e) (hv : RunValid e (ops1 ++ bulkOp sep want rev :: .cleanup :: ops2))
    (h : runOps applyMod e (ops1 ++ bulkOp sep want rev :: .cleanup :: ops2) [] 0 = .done e' res)
    (h1 : runOps applyMod e ops1 [] 0 = .done e1 res1)
    (d : List Require) (r : Require) (t : List Require) (hsplit : e1.f.require = d ++ r :: t)
    (hfirst : ∀ r' ∈ d, r'.mod.path ≠ r.mod.path) (w : Want) (hw : w ∈ want) (hwp : w.path = r.mod.path)
    (x0 : XLine) (hx0 : x0 ∈ viewX e.f.syn.stmts) (hid0 : x0.id = r.lineId) (hsp1 : Spared x0.toks x0.id e ops1)
    (hsp2 : ∀ op ∈ ops2, ¬Targets op [B "require", autoQuote r.mod.path, w.vers]) :
    ∃ x1 ∈ viewX e1.f.syn.stmts, x0.le x1 ∧
      ∃ x' ∈ viewX (cleanup e').f.syn.stmts, x'.toks = [B "require", autoQuote r.mod.path, w.vers] ∧
        BeforeKept x0.before x'.before ∧ (sfxAfter w.indirect x1.suffix).Sublist x'.suffix := by
  rcases runOps_append applyMod ops1 _ e [] 0 e' res h with ⟨e1', r1', h1', h2⟩
  rw [h1] at h1'
  simp only [SessionResult.done.injEq] at h1'
  obtain ⟨rfl, rfl⟩ := h1'
  have hv1 := RunValid.left ops1 _ e hv
  have hv2 := RunValid.right ops1 _ e [] 0 e1 res1 hv h1
  have hi1 : Inv e1 := runOps_inv_all ops1 e [] 0 e1 res1 hv1 hi h1
  rcases runOps_untouched ops1 e [] 0 e1 res1 hv1 hi h1 x0 hx0 hsp1 with ⟨x1, hx1, h01⟩
  refine ⟨x1, hx1, h01, ?_⟩
  have hid1 : x1.id = r.lineId := h01.1.trans hid0
  -- the setter succeeds and keeps the comments of `x1`
  have hbulk : ∃ e2, applyMod e1 (bulkOp sep want rev) = some (.ok e2) ∧
      ∃ x2 ∈ viewX (cleanup e2).f.syn.stmts, x2.toks = [B "require", autoQuote r.mod.path, w.vers] ∧
        BeforeKept x1.before x2.before ∧ (sfxAfter w.indirect x1.suffix).Sublist x2.suffix := by
    have hva := hv2.1
    cases sep with
    | false =>
      simp only [bulkOp, Bool.false_eq_true, if_false] at hva ⊢
      rcases setRequire_total e1 want (permOf rev) hva.1 hi1 hva.2.1 with ⟨e2, he2⟩
      exact ⟨e2, by simp [applyMod, he2],
        setRequire_comments e1 e2 want (permOf rev) (permOf_perm rev) hva.1 hi1 hva.2.1 hva.2.2 he2 d r t hsplit hfirst w hw hwp
          x1 hx1 hid1⟩
    | true =>
      simp only [bulkOp, if_true] at hva ⊢
      rcases setRequireSeparateIndirect_total e1 want (permOf rev) hva.1 hi1 hva.2.1 with ⟨e2, he2⟩
      exact ⟨e2, by simp [applyMod, he2],
        setRequireSeparateIndirect_comments e1 e2 want (permOf rev) hva.1 hi1 hva.2.1 hva.2.2 he2 d r t hsplit hfirst w hw hwp
          x1 hx1 hid1⟩
  rcases hbulk with ⟨e2, ha, x2, hx2, ht2, hb2, hs2⟩
  have hi2 : Inv e2 := applyMod_inv_all e1 e2 _ hv2.1 hi1 ha
  have hv3 : RunValid e2 (.cleanup :: ops2) := hv2.2.1 e2 ha
  have hv4 : RunValid (cleanup e2) ops2 := hv3.2.1 (cleanup e2) rfl
  have h3 : ∃ res0 i, runOps applyMod (cleanup e2) ops2 res0 i = .done e' res := by
    unfold runOps at h2
    simp only [ha] at h2
    unfold runOps at h2
    simp only [applyMod] at h2
    exact ⟨_, _, h2⟩
  rcases h3 with ⟨res0, i, h3⟩
  have hne : B "require" ≠ B "exclude" ∧ B "require" ≠ B "replace" ∧ B "require" ≠ B "tool" := by decide +kernel
  have hnd : NotDedupVerb x2.toks := by
    rw [ht2]
    refine ⟨?_, ?_, ?_⟩ <;> simp only [List.head?_cons, ne_eq, Option.some.injEq]
    · exact hne.1
    · exact hne.2.1
    · exact hne.2.2
  rcases runOps_untouched_static ops2 (cleanup e2) res0 i e' res hv4 (cleanup_inv e2 hi2) h3 x2 hx2
    (by rw [ht2]; exact hsp2) hnd with ⟨x3, hx3, h23⟩
  rcases keeps_cleanupStmts e'.f.syn.stmts x3 hx3 (by simp) with ⟨x4, hx4, h34⟩
  have h24 := XLine.le_trans h23 h34
  exact ⟨x4, hx4, by rw [h24.2.1, ht2], (BeforeKept.of_sublist h01.2.2.1 hb2).trans_sub h24.2.2.1, hs2.trans h24.2.2.2⟩

end ModVerif.Modfile.Edit
