import ModVerif.Spec.ZipSpec
namespace ModVerif.Proofs.Zip
open ModVerif ModVerif.PathClean ModVerif.Zip ModVerif.ZipSpec

/-- what one entry adds: nothing, `mkdirAll (Dir dst)`, or that and `createExcl dst`; no error exactly
    in the last form with the complete content of the declared size. -/
theorem unzipEntry_cases (dir pfx : Bytes) (fx : List Effect) (zf : Entry) :
    ∃ new, (unzipEntry dir pfx fx zf).1 = fx ++ new ∧
      (∀ e ∈ new, e = .mkdirAll (pathDir (dstOf dir pfx zf)) ∨ ∃ c, e = .createExcl (dstOf dir pfx zf) c) ∧
      ((unzipEntry dir pfx fx zf).2 = none →
        zf.content.length = zf.declSize ∧ Effect.createExcl (dstOf dir pfx zf) (some zf.content) ∈ new) := by
  unfold unzipEntry
  split
  · refine ⟨[], by simp, ?_, ?_⟩
    · intro e he; cases he
    · intro h; cases h
  split
  · refine ⟨[_], rfl, ?_, ?_⟩
    · intro e he; exact Or.inl (List.mem_singleton.mp he)
    · intro h; cases h
  split
  · refine ⟨[_, _], rfl, ?_, ?_⟩
    rotate_left
    · intro h; cases h
    intro e he
    simp only [List.mem_cons, List.not_mem_nil, or_false] at he
    rcases he with rfl | rfl
    · exact Or.inl rfl
    · exact Or.inr ⟨_, rfl⟩
  · rename_i _ _ h3
    refine ⟨[_, _], rfl, ?_, fun _ => ⟨by simpa using h3, by simp⟩⟩
    intro e he
    simp only [List.mem_cons, List.not_mem_nil, or_false] at he
    rcases he with rfl | rfl
    · exact Or.inl rfl
    · exact Or.inr ⟨_, rfl⟩

/-- the effects of the extraction loop: the given ones, then only `mkdirAll (Dir dst)` and
    `createExcl dst` for destinations `dst = Join(dir, name)` of entries that are not skipped. -/
theorem unzipLoop_effects (dir pfx : Bytes) : ∀ (es : List Entry) (fx : List Effect),
    ∃ new, (unzipLoop dir pfx fx es).1 = fx ++ new ∧
      ∀ e ∈ new, ∃ zf ∈ es, skipEntry pfx zf = false ∧
        (e = .mkdirAll (pathDir (dstOf dir pfx zf)) ∨ ∃ c, e = .createExcl (dstOf dir pfx zf) c) := by
  intro es
  induction es with
  | nil => intro fx; exact ⟨[], by simp [unzipLoop], fun e he => by cases he⟩
  | cons zf t ih =>
    intro fx
    unfold unzipLoop
    by_cases h0 : skipEntry pfx zf = true
    · rw [if_pos h0]
      obtain ⟨new, h1, h2⟩ := ih fx
      exact ⟨new, h1, fun e he => by
        obtain ⟨z, hz, hr⟩ := h2 e he; exact ⟨z, List.mem_cons_of_mem _ hz, hr⟩⟩
    · rw [if_neg h0]
      have h0' : skipEntry pfx zf = false := by simpa using h0
      obtain ⟨new1, hn1, hk1, _⟩ := unzipEntry_cases dir pfx fx zf
      have hmem1 : ∀ e ∈ new1, ∃ z ∈ zf :: t, skipEntry pfx z = false ∧
          (e = .mkdirAll (pathDir (dstOf dir pfx z)) ∨ ∃ c, e = .createExcl (dstOf dir pfx z) c) :=
        fun e he => ⟨zf, List.mem_cons_self, h0', hk1 e he⟩
      rcases hr : unzipEntry dir pfx fx zf with ⟨fx', err⟩
      rw [hr] at hn1
      cases err with
      | some e => exact ⟨new1, hn1, hmem1⟩
      | none =>
        obtain ⟨new, h1, h2⟩ := ih fx'
        refine ⟨new1 ++ new, ?_, ?_⟩
        · show (unzipLoop dir pfx fx' t).1 = _
          rw [h1]; simp only at hn1; rw [hn1]; simp
        · intro e he
          rcases List.mem_append.mp he with he | he
          · exact hmem1 e he
          · obtain ⟨z, hz, hr'⟩ := h2 e he; exact ⟨z, List.mem_cons_of_mem _ hz, hr'⟩

/-- a successful loop wrote every entry that is not skipped completely, and every such content had
    its declared size. -/
theorem unzipLoop_ok (dir pfx : Bytes) : ∀ (es : List Entry) (fx : List Effect),
    (unzipLoop dir pfx fx es).2 = none →
    ∀ zf ∈ es, skipEntry pfx zf = false →
      zf.content.length = zf.declSize ∧
      Effect.createExcl (dstOf dir pfx zf) (some zf.content) ∈ (unzipLoop dir pfx fx es).1 := by
  intro es
  induction es with
  | nil => intro fx _ zf hz; cases hz
  | cons z t ih =>
    intro fx hok zf hz hfe
    unfold unzipLoop at hok ⊢
    by_cases h0 : skipEntry pfx z = true
    · rw [if_pos h0] at hok ⊢
      rcases List.mem_cons.mp hz with rfl | hz
      · rw [hfe] at h0; cases h0
      · exact ih fx hok zf hz hfe
    · rw [if_neg h0] at hok ⊢
      obtain ⟨new1, hn1, _, hk2⟩ := unzipEntry_cases dir pfx fx z
      rcases hr : unzipEntry dir pfx fx z with ⟨fx', err⟩
      rw [hr] at hok hn1 hk2
      cases err with
      | some e => cases hok
      | none =>
        have hk := hk2 rfl
        simp only at hok hn1 ⊢
        rcases List.mem_cons.mp hz with rfl | hz
        · obtain ⟨hsz, hmem⟩ := hk
          refine ⟨hsz, ?_⟩
          obtain ⟨new, hn, _⟩ := unzipLoop_effects dir pfx t fx'
          rw [hn, hn1]; simp [hmem]
        · exact ih fx' hok zf hz hfe

/-- `Unzip` as a case split on what happened before the loop. -/
theorem unzip_cases (E : Env) (dir : Bytes) (t : Target) (mpath mvers : Bytes) (zs : Nat) (es : List Entry) :
    ((unzip E dir t mpath mvers zs es).effects = [] ∧ (unzip E dir t mpath mvers zs es).err ≠ none) ∨
    (t ≠ .nonEmptyDir ∧ t ≠ .notDir ∧ ∃ cf, checkZip E mpath mvers zs es = .ok cf ∧ cf.err = none ∧
      (unzip E dir t mpath mvers zs es).effects = (unzipLoop dir (zipPrefix mpath mvers) [.mkdirAll dir] es).1 ∧
      (unzip E dir t mpath mvers zs es).err = (unzipLoop dir (zipPrefix mpath mvers) [.mkdirAll dir] es).2) := by
  unfold unzip
  by_cases h1 : (t == Target.nonEmptyDir) = true
  · left; simp [h1]
  · rw [if_neg h1]
    cases hc : checkZip E mpath mvers zs es with
    | error e => left; simp
    | ok cf =>
      cases he : cf.err with
      | some k => left; cases k <;> simp [he]
      | none =>
        by_cases h2 : (t == Target.notDir) = true
        · left; simp [he, h2]
        · right
          refine ⟨by simpa using h1, by simpa using h2, cf, rfl, he, ?_, ?_⟩ <;> simp [he, h2]

end ModVerif.Proofs.Zip
