/-
  C02, end-of-line comments, final stage: `format_parse_syntax` and `format_idempotent` for every accepted
  input whose tree satisfies `EolOK` (no node carries more than one end-of-line comment, …), and the reading of
  the conclusion as "same statements, same tokens, same comment texts in the same order".
-/
import ModVerif.Proofs.ModfileEolFirst
import ModVerif.Proofs.ModfileFmtConserve
namespace ModVerif.Proofs.ModfileEol
open ModVerif ModVerif.Modfile
open ModVerif.Proofs.ModfileFmtLex ModVerif.Proofs.ModfileFmtTree ModVerif.Proofs.ModfileFmtMain
open ModVerif.Proofs.ModfileFmtConserve

/-! ### `EolOK` of well-shaped trees; `NoEol` is a special case -/

theorem eolStmt_of_ewf (s : Expr) (hwf : EWFStmt s) (hnl : NlOK s) : EolStmt s := by
  cases s with
  | commentBlock x => exact hwf.2.2.1
  | line l => exact ⟨(show EWFLine l from hwf).suffix.1, hnl⟩
  | lineBlock b =>
    have hwf : EWFBlock b := hwf
    have hnl : ∀ l ∈ b.lines, NlLine l := hnl
    have hl : ∀ (ls : List Line) (allow : Bool), EWFBlkLines allow ls → ∀ l ∈ ls, l.comments.suffix.length ≤ 1 := by
      intro ls
      induction ls with
      | nil => intro _ _ l hl; cases hl
      | cons l0 ls ih =>
        intro allow hw l hl
        rcases List.mem_cons.1 hl with rfl | hl
        · exact hw.1.suffix.1
        · exact ih true hw.2 l hl
    exact ⟨hwf.lsuffix.1, fun l h => ⟨hl _ _ hwf.lines l h, hnl l h⟩, hwf.rsuffix.1⟩
  | lparen x => trivial
  | rparen x => trivial

/-- a tree without end-of-line comments satisfies `EolOK` -/
theorem eolOK_of_noEol {t : FileSyntax} (h : NoEol t) : EolOK t := by
  refine ⟨h.1, fun s hs => ?_⟩
  have := h.2 s hs
  cases s with
  | commentBlock x => exact this
  | line l =>
    have hl : l.comments.suffix = [] := this
    exact ⟨by simp [hl], fun hne => absurd hl hne⟩
  | lineBlock b =>
    obtain ⟨h1, h2, h3, h4⟩ := this
    refine ⟨by simp [h2], fun l hl => ⟨by simp [h3 l hl], fun hne => absurd (h3 l hl) hne⟩, by simp [h1, h4]⟩
  | lparen x => trivial
  | rparen x => trivial

/-! ### the main theorems -/

/-- ★ `format_parse_syntax` for every accepted input whose tree satisfies `EolOK`: the formatted output parses
    again, the new tree is the old one in normal form (positions and line identities erased, comment texts
    trimmed, the comment of a one-line block on its `)`), and satisfies `EolOK` again. -/
theorem format_parse_syntax_eol (name x : Bytes) (t : FileSyntax) (h : parse name x = .ok t) (hok : EolOK t) :
    ∃ t', parse name (format t) = .ok t' ∧ eraseFile t' = normFileE t ∧ EolOK t' := by
  obtain ⟨hwf, hnl, hc, hn⟩ := parse_ewf h hok
  obtain ⟨t', h1, h2⟩ := reparse_ewf name t hwf hnl (by rw [hc])
  obtain ⟨hwf', hnl', hc'⟩ := reparse_shape t t' hwf hnl name h2
  refine ⟨t', h1, ?_, ⟨by rw [hc'], fun s hs => eolStmt_of_ewf s (hwf' s hs) (hnl' s hs)⟩⟩
  rw [h2]
  simp [normFileE, hc, hn, normCs]

/-- ★ `format_idempotent` for every accepted input whose tree satisfies `EolOK`. -/
theorem format_idempotent_eol (name x : Bytes) (t t' : FileSyntax) (h : parse name x = .ok t) (hok : EolOK t)
    (h' : parse name (format t) = .ok t') : format t' = format t := by
  obtain ⟨hwf, hnl, hc, _⟩ := parse_ewf h hok
  exact format_idem_ewf name t hwf hnl (by rw [hc]) t' h'

/-! ### reading the conclusion: statements, tokens, comment texts in order -/

/-- kind and tokens of a statement: 0 comment block, 1 line, 2 block (header tokens, tokens of each line) -/
def tokShape : Expr → Nat × List Bytes × List (List Bytes)
  | .commentBlock _ => (0, [], [])
  | .line l => (1, l.token, [])
  | .lineBlock b => (2, b.token, b.lines.map (·.token))
  | _ => (3, [], [])

def csTexts (cs : Comments) : List Bytes := (cs.before ++ cs.suffix ++ cs.after).map (·.token)

/-- the comment texts of a statement in the order in which `Format` prints them -/
def exprTexts : Expr → List Bytes
  | .commentBlock x => csTexts x.comments
  | .line l => csTexts l.comments
  | .lineBlock b => b.comments.before.map (·.token) ++ csTexts b.lparen.comments ++
      b.lines.flatMap (fun l => csTexts l.comments) ++
      (b.rparen.comments.before ++ (b.rparen.comments.suffix ++ b.comments.suffix) ++
        b.rparen.comments.after ++ b.comments.after).map (·.token)
  | .lparen x => csTexts x.comments
  | .rparen x => csTexts x.comments

def fileTexts (t : FileSyntax) : List Bytes := csTexts t.comments ++ t.stmts.flatMap exprTexts

theorem tokShape_erase (s : Expr) : tokShape (eraseExpr s) = tokShape s := by
  cases s <;> simp [tokShape, eraseExpr, eraseLine, eraseBlock, Function.comp_def]

theorem tokShape_normE (s : Expr) : tokShape (normExprE s) = tokShape s := by
  cases s <;> simp [tokShape, normExprE, normExpr, normLine, normBlockE, Function.comp_def]

theorem csTexts_erase (cs : Comments) : csTexts (eraseCs cs) = csTexts cs := by
  simp [csTexts, eraseCs, eraseC, Function.comp_def]

theorem csTexts_norm (cs : Comments) : csTexts (normCs cs) = (csTexts cs).map GoStrings.trimSpace := by
  simp [csTexts, normCs, normC, Function.comp_def]

theorem exprTexts_erase (s : Expr) : exprTexts (eraseExpr s) = exprTexts s := by
  cases s with
  | lineBlock b =>
    simp only [exprTexts, eraseExpr, eraseBlock, csTexts_erase]
    simp [eraseCs, eraseC, eraseLine, csTexts, Function.comp_def, List.flatMap_map]
  | commentBlock x => simp [exprTexts, eraseExpr, csTexts_erase]
  | line l => simp [exprTexts, eraseExpr, eraseLine, csTexts_erase]
  | lparen x => simp [exprTexts, eraseExpr, csTexts_erase]
  | rparen x => simp [exprTexts, eraseExpr, csTexts_erase]

theorem exprTexts_normE (s : Expr) : exprTexts (normExprE s) = (exprTexts s).map GoStrings.trimSpace := by
  cases s with
  | lineBlock b =>
    simp only [exprTexts, normExprE, normBlockE, csTexts_norm]
    simp [normCs, normC, normLine, csTexts, Function.comp_def, List.flatMap_map, List.map_flatMap]
  | commentBlock x => simp [exprTexts, normExprE, normExpr, csTexts_norm]
  | line l => simp [exprTexts, normExprE, normExpr, normLine, csTexts_norm]
  | lparen x => simp [exprTexts, normExprE, normExpr, csTexts_norm]
  | rparen x => simp [exprTexts, normExprE, normExpr, csTexts_norm]

/-- ★ What `eraseFile t' = normFileE t` says in the words of the property: the two trees have the same
    statements (kinds, in order) with the same tokens, and the same comment texts modulo `TrimSpace` in the same
    (printing) order — the side on which a comment is attached may differ (block vs. its `)`). -/
theorem same_syntax_of_normal_form {t t' : FileSyntax} (h : eraseFile t' = normFileE t) :
    t'.name = t.name ∧ t'.stmts.map tokShape = t.stmts.map tokShape ∧
      fileTexts t' = (fileTexts t).map GoStrings.trimSpace := by
  have hn : t'.name = t.name := by
    have := congrArg FileSyntax.name h; simpa [eraseFile, normFileE] using this
  have hs : t'.stmts.map eraseExpr = t.stmts.map normExprE := by
    have := congrArg FileSyntax.stmts h; simpa [eraseFile, normFileE] using this
  have hc : eraseCs t'.comments = normCs t.comments := by
    have := congrArg FileSyntax.comments h; simpa [eraseFile, normFileE] using this
  refine ⟨hn, ?_, ?_⟩
  · have := congrArg (List.map tokShape) hs
    simpa [List.map_map, Function.comp_def, tokShape_erase, tokShape_normE] using this
  · have h1 := congrArg (List.flatMap exprTexts) hs
    simp only [List.flatMap_map, exprTexts_erase, exprTexts_normE] at h1
    have h2 := congrArg csTexts hc
    rw [csTexts_erase, csTexts_norm] at h2
    simp only [fileTexts, List.map_append, List.map_flatMap, h2]
    congr 1

/-! ### a decidable form of `EolOK` (for concrete instances) -/

def eolLineB (l : Line) : Bool :=
  decide (l.comments.suffix.length ≤ 1) && (l.comments.suffix.isEmpty || l.token.all fun t => !t.contains 10)

def eolStmtB : Expr → Bool
  | .commentBlock x => x.comments.suffix.isEmpty
  | .line l => eolLineB l
  | .lineBlock b => decide (b.lparen.comments.suffix.length ≤ 1) && b.lines.all eolLineB &&
      decide ((b.rparen.comments.suffix ++ b.comments.suffix).length ≤ 1)
  | _ => true

def eolOKb (t : FileSyntax) : Bool := t.comments.before.isEmpty && t.stmts.all eolStmtB

theorem eolLineB_sound {l : Line} (h : eolLineB l = true) : EolLine l := by
  simp only [eolLineB, Bool.and_eq_true, decide_eq_true_eq, Bool.or_eq_true, List.all_eq_true,
    Bool.not_eq_true'] at h
  refine ⟨h.1, fun hne t ht => ?_⟩
  rcases h.2 with he | ha
  · exact absurd (by simpa using he) hne
  · have := ha t ht
    intro hm
    simp [List.contains_iff_mem, hm] at this

theorem eolOKb_sound {t : FileSyntax} (h : eolOKb t = true) : EolOK t := by
  simp only [eolOKb, Bool.and_eq_true, List.all_eq_true] at h
  refine ⟨by simpa using h.1, fun s hs => ?_⟩
  have := h.2 s hs
  cases s with
  | commentBlock x =>
    show x.comments.suffix = []
    simpa [eolStmtB] using this
  | line l => exact eolLineB_sound this
  | lineBlock b =>
    simp only [eolStmtB, Bool.and_eq_true, decide_eq_true_eq, List.all_eq_true] at this
    exact ⟨this.1.1, fun l hl => eolLineB_sound (this.1.2 l hl), this.2⟩
  | lparen x => trivial
  | rparen x => trivial

end ModVerif.Proofs.ModfileEol
