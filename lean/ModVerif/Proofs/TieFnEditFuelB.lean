/-
  Closed fuel of the FnEdit session ties, part B (agent edit-fuel): the POTENTIAL `W e` of a model state, the SIZE of an
  operation, and for every go.mod operation other than the two bulk requirement setters:
    * `stepFuel_le`: the fuel demand of the operation's tie is at most `3 * (W e + G op)`, `G op = 4 * opSize op + 32`;
    * `applyMod_W`: the operation increases the potential by at most `G op` (line ids pairwise different).

  `W e = treeW statements + the six typed-list lengths + |go version| + |module path|`.
  `opSize op` sums, over the byte-string arguments, `|s|` — and `|s| + |AutoQuote s|` (`qsz`) for the arguments the operation
  writes through `AutoQuote` (the quoted form is what lands in the tree; `|AutoQuote s| ≤ 4·|s| + 2` is Go's `strconv.Quote`
  bound, not proved here, so the quoted length is part of the size).
-/
import ModVerif.Proofs.TieFnEditFuelA
set_option linter.unusedSimpArgs false
set_option linter.unusedVariables false
namespace ModVerif.Tie.FnEditFuelB
open ModVerif ModVerif.Modfile ModVerif.Tie.FnEditFuelA ModVerif.Tie.FnEditSessionA ModVerif.Tie.FnEditSessionB
open ModVerif.TieFnEditAddLine (nodeCount)
open ModVerif.Tie.FnEditSortB (nodes)
open ModVerif.Tie.FnEditSortC (dupsSize)
open ModVerif.Tie.FnEditSortE (sortSize sortFuel goLen)
open ModVerif.Tie.FnEditSortG (cleanSize)
open ModVerif.Tie.FnEditReqE (modPath)
open ModVerif.Modfile.Edit (EFile EditErr applyMod treeIds firstRest clearAll)

/-! ### the potential -/

/-- the six typed-list lengths -/
def listsW (e : EFile) : Nat :=
  e.f.godebug.length + e.f.require.length + e.f.exclude.length + e.f.replace.length + e.f.retract.length + e.f.tool.length

/-- **the potential of a model state** -/
def W (e : EFile) : Nat := treeW e.f.syn.stmts + listsW e + goLen e + (modPath e).length

/-! ### the size of an operation -/

/-- size of an argument that is written through `AutoQuote` -/
def qsz (p : Bytes) : Nat := p.length + (autoQuote p).length

def reqSize (r : EditSpec.Req) : Nat := qsz r.path + r.vers.length + 16

def opSize : EditSpec.Op → Nat
  | .addModule p => qsz p
  | .addGo v => v.length
  | .dropGo => 0
  | .addToolchain n => n.length
  | .dropToolchain => 0
  | .addGodebug k v => k.length + v.length
  | .dropGodebug k => k.length
  | .addRequire p v => qsz p + v.length
  | .addNewRequire p v _ => qsz p + v.length
  | .dropRequire p => p.length
  | .setRequire l => (l.map reqSize).sum
  | .setRequireSeparateIndirect l => (l.map reqSize).sum
  | .addExclude p v => qsz p + v.length
  | .dropExclude p v => p.length + v.length
  | .addReplace a b c d => qsz a + b.length + qsz c + d.length
  | .dropReplace a b => a.length + b.length
  | .addRetract lo hi why => qsz lo + qsz hi + why.length
  | .dropRetract lo hi => lo.length + hi.length
  | .addTool p => p.length
  | .dropTool p => p.length
  | .sortBlocks => 0
  | .cleanup => 0
  | .addUse d m => d.length + m.length
  | .addNewUse d m => d.length + m.length
  | .dropUse d => d.length
  | .setUse w => (w.map fun x => x.1.length + x.2.length + 1).sum

/-- the growth allowance of one operation -/
def G (op : EditSpec.Op) : Nat := 4 * opSize op + 32

/-- the operation is not one of the two bulk requirement setters -/
def NotBulk : EditSpec.Op → Prop
  | .setRequire _ => False
  | .setRequireSeparateIndirect _ => False
  | _ => True

/-! ### measures below the potential -/

theorem nodeCount_le_W (e : EFile) : nodeCount e.f.syn.stmts ≤ W e := by
  have := nodeCount_le_treeW e.f.syn.stmts; unfold W; omega

theorem sortFuel_le (e : EFile) : sortFuel e ≤ 3 * W e + 12 := by
  have h1 := nodes_le_treeW e.f.syn.stmts
  have h2 := sortSize_le_treeW e.f.syn.stmts
  unfold sortFuel dupsSize W listsW
  omega

theorem cleanupFuel_le (e : EFile) : stepFuel e .cleanup ≤ W e + 1 := by
  have h1 := nodes_le_treeW e.f.syn.stmts
  simp only [stepFuel, cleanSize]
  unfold W listsW
  omega

theorem tokW2 (a b : Bytes) : tokW [a, b] = 2 * a.length + 2 * b.length + 2 := by simp; omega
theorem tokW3 (a b c : Bytes) : tokW [a, b, c] = 2 * a.length + 2 * b.length + 2 * c.length + 3 := by simp; omega

theorem len_module : (B "module").length = 6 := by decide +kernel
theorem len_go : (B "go").length = 2 := by decide +kernel
theorem len_toolchain : (B "toolchain").length = 9 := by decide +kernel
theorem len_godebug : (B "godebug").length = 7 := by decide +kernel
theorem len_require : (B "require").length = 7 := by decide +kernel
theorem len_exclude : (B "exclude").length = 7 := by decide +kernel
theorem len_replace : (B "replace").length = 7 := by decide +kernel
theorem len_retract : (B "retract").length = 7 := by decide +kernel
theorem len_tool : (B "tool").length = 4 := by decide +kernel
theorem len_arrow : (B "=>").length = 2 := by decide +kernel

/-! ### the shared loops keep the list lengths -/

theorem firstRest_length {α : Type} (m : α → Bool) (id : α → Nat) (upd : α → α) (cleared : α) :
    ∀ (l : List α) (need : Bool) (l' : List α) (first : Option Nat) (dead : List Nat),
      firstRest m id upd cleared l need = .ok (l', first, dead) → l'.length = l.length
  | [], need, l', first, dead, h => by
    simp only [firstRest, Except.ok.injEq, Prod.mk.injEq] at h
    rw [← h.1]
  | x :: xs, need, l', first, dead, h => by
    unfold firstRest at h
    split at h
    · cases hd : Edit.deref (id x) with
      | error err => simp [hd, bind, Except.bind] at h
      | ok i =>
        cases hr : firstRest m id upd cleared xs false with
        | error err => simp [hd, hr, bind, Except.bind] at h
        | ok r =>
          obtain ⟨rest, f1, d1⟩ := r
          have ih := firstRest_length m id upd cleared xs false rest f1 d1 hr
          simp only [hd, hr, bind, Except.bind] at h
          split at h <;> (simp only [pure, Except.pure, Except.ok.injEq, Prod.mk.injEq] at h; rw [← h.1]; simp [ih])
    · cases hr : firstRest m id upd cleared xs need with
      | error err => simp [hr, bind, Except.bind] at h
      | ok r =>
        obtain ⟨rest, f1, d1⟩ := r
        have ih := firstRest_length m id upd cleared xs need rest f1 d1 hr
        simp only [hr, bind, Except.bind, pure, Except.pure, Except.ok.injEq, Prod.mk.injEq] at h
        rw [← h.1]; simp [ih]

theorem clearAll_length {α : Type} (m : α → Bool) (id : α → Nat) (cleared : α) :
    ∀ (l l' : List α) (dead : List Nat), clearAll m id cleared l = .ok (l', dead) → l'.length = l.length
  | [], l', dead, h => by
    simp only [clearAll, Except.ok.injEq, Prod.mk.injEq] at h
    rw [← h.1]
  | x :: xs, l', dead, h => by
    unfold clearAll at h
    split at h
    · cases hd : Edit.deref (id x) with
      | error err => simp [hd, bind, Except.bind] at h
      | ok i =>
        cases hr : clearAll m id cleared xs with
        | error err => simp [hd, hr, bind, Except.bind] at h
        | ok r =>
          obtain ⟨rest, d1⟩ := r
          have ih := clearAll_length m id cleared xs rest d1 hr
          simp only [hd, hr, bind, Except.bind, pure, Except.pure, Except.ok.injEq, Prod.mk.injEq] at h
          rw [← h.1]; simp [ih]
    · cases hr : clearAll m id cleared xs with
      | error err => simp [hr, bind, Except.bind] at h
      | ok r =>
        obtain ⟨rest, d1⟩ := r
        have ih := clearAll_length m id cleared xs rest d1 hr
        simp only [hr, bind, Except.bind, pure, Except.pure, Except.ok.injEq, Prod.mk.injEq] at h
        rw [← h.1]; simp [ih]

end ModVerif.Tie.FnEditFuelB
