/-
  C02, clause 3 with a version fixer and retract directives — the comment SKELETON of the accepted tree.

  `fixRetract` changes the tree only through `FileSyntax.updateLine` with a function that replaces the token list of a
  line; `addStmts` rewrites tokens only (`addStmts_noTok`).  Hence the tree `f.syn` of an accepted strict parse has the
  same token-erased statements (`noTok`) and the same header as the tree `parse` returned — for ANY fixer, with or
  without retract directives.  Consequences: `EolCount f.syn` (no `f.retract = []` side condition), no header comment,
  and the printable shape `EWFStmts f.syn.stmts` reduces to conditions on the TOKENS of `f.syn` alone (`TokShape`).
-/
import ModVerif.Proofs.ModfileFmtRet3b
import ModVerif.Proofs.ModfileStrictTokDir
import ModVerif.Proofs.ModfileSrcDir
namespace ModVerif.Proofs.ModfileFmtRet
open ModVerif ModVerif.Modfile ModVerif.Proofs.ModfileC20
open ModVerif.Proofs.ModfileFmtDir ModVerif.Proofs.ModfileEol ModVerif.Proofs.ModfileFmtTree

/-! ### `updateLine` with a token-only function keeps the skeleton -/

theorem updateLineIn_noTokL (id : Nat) (g : Line → Line) (hg : ∀ l, noTokL (g l) = noTokL l) :
    ∀ ls : List Line, (updateLineIn id g ls).map noTokL = ls.map noTokL := by
  intro ls
  induction ls with
  | nil => rfl
  | cons l ls ih =>
    simp only [updateLineIn]
    split
    · simp [hg]
    · simp [ih]

/-- ★ `updateLine_preserves_shape`, skeleton part: a function that only replaces tokens leaves every token-erased
    statement (comments, parentheses, block headers, identities, positions, `inBlock`) and the header unchanged -/
theorem updateLine_noTok (fs : FileSyntax) (id : Nat) (g : Line → Line) (hg : ∀ l, noTokL (g l) = noTokL l) :
    (fs.updateLine id g).stmts.map noTok = fs.stmts.map noTok ∧ (fs.updateLine id g).comments = fs.comments ∧
    (fs.updateLine id g).name = fs.name := by
  refine ⟨?_, rfl, rfl⟩
  simp only [FileSyntax.updateLine, List.map_map]
  apply List.map_congr_left
  intro s _
  cases s with
  | line l =>
    simp only [Function.comp]
    split <;> simp [noTok, hg]
  | lineBlock b =>
    simp only [Function.comp, noTok, updateLineIn_noTokL id g hg]
  | commentBlock c => rfl
  | lparen p => rfl
  | rparen p => rfl

theorem frStep_noTok (path : Bytes) (fx : Fixer) (fs : FileSyntax) (r : Retract) (l : Line) (e : List RuleErr) :
    (frStep path fx fs r l e).2.1.stmts.map noTok = fs.stmts.map noTok ∧
    (frStep path fx fs r l e).2.1.comments = fs.comments ∧ (frStep path fx fs r l e).2.1.name = fs.name :=
  updateLine_noTok fs r.lineId _ (fun _ => rfl)

theorem fixRetractLoop_noTok (path : Bytes) (fx : Fixer) :
    ∀ (rs : List Retract) (fs : FileSyntax) (e : List RuleErr),
    (fixRetractLoop path fx rs fs e).2.1.stmts.map noTok = fs.stmts.map noTok ∧
    (fixRetractLoop path fx rs fs e).2.1.comments = fs.comments ∧
    (fixRetractLoop path fx rs fs e).2.1.name = fs.name := by
  intro rs
  induction rs with
  | nil => intro fs e; exact ⟨rfl, rfl, rfl⟩
  | cons r rest ih =>
    intro fs e
    rw [fixRetractLoop_cons]
    cases hfind : fs.findLine r.lineId with
    | none => exact ih fs e
    | some l =>
      simp only
      obtain ⟨a1, a2, a3⟩ := ih (frStep path fx fs r l e).2.1 (frStep path fx fs r l e).2.2
      obtain ⟨b1, b2, b3⟩ := frStep_noTok path fx fs r l e
      exact ⟨a1.trans b1, a2.trans b2, a3.trans b3⟩

theorem fixRetract_noTok (st : AddState) (fix : Option Fixer) :
    (fixRetract st fix).file.syn.stmts.map noTok = st.file.syn.stmts.map noTok ∧
    (fixRetract st fix).file.syn.comments = st.file.syn.comments ∧
    (fixRetract st fix).file.syn.name = st.file.syn.name := by
  cases fix with
  | none => exact ⟨rfl, rfl, rfl⟩
  | some fx =>
    rw [fixRetract_eq]
    cases hret : st.file.retract with
    | nil => exact ⟨rfl, rfl, rfl⟩
    | cons r0 rs0 =>
      simp only
      cases hemp : (modPath st.file).isEmpty with
      | true => exact ⟨rfl, rfl, rfl⟩
      | false =>
        simp only [Bool.false_eq_true, if_false]
        exact fixRetractLoop_noTok (modPath st.file) fx (r0 :: rs0) st.file.syn st.errsRev

/-- ★ `fsyn_skeleton`: the tree of an accepted parse (any fixer, strict or lax) is the tree `parse` returned up to
    the tokens of its lines -/
theorem fsyn_skeleton (name x : Bytes) (fix : Option Fixer) (strict : Bool) (f : Modfile.File)
    (h : parseToFile name x fix strict = .ok f) :
    ∃ fs, parse name x = .ok fs ∧ f.syn.stmts.map noTok = fs.stmts.map noTok ∧ f.syn.comments = fs.comments ∧
      f.syn.name = fs.name := by
  unfold parseToFile at h
  cases hp : parse name x with
  | error e => simp [hp] at h
  | ok fs =>
    simp only [hp] at h
    cases ha : addStmts fix strict { file := { syn := fs } } fs.stmts with
    | mk st stmts =>
      simp only [ha] at h
      generalize hst2 : ({ st with file := { st.file with syn := { fs with stmts := stmts } } } : AddState) = st2 at h
      obtain ⟨c1, c2, c3⟩ := fixRetract_noTok st2 fix
      split at h
      · simp only [Except.ok.injEq] at h
        refine ⟨fs, rfl, ?_, ?_, ?_⟩
        · rw [← h, c1, ← hst2]
          have := addStmts_noTok fix strict fs.stmts { file := { syn := fs } }
          rw [ha] at this
          exact this
        · rw [← h, c2, ← hst2]
        · rw [← h, c3, ← hst2]
      · cases h

/-- ★ `eolCount_syn_fix`: the tree of a STRICTLY accepted go.mod satisfies the counting condition — any fixer, no
    condition on the source text, no `f.retract = []` side condition -/
theorem eolCount_syn_fix (name x : Bytes) (fix : Option Fixer) (f : Modfile.File)
    (h : parseToFile name x fix true = .ok f) : EolCount f.syn := by
  obtain ⟨fs, hp, h1, h2, _⟩ := fsyn_skeleton name x fix true f h
  have hcfs : EolCount fs :=
    ModfileSrc.eolCount_of_single_line_tokens hp (ModfileStrictTok.strict_noMultiLineToken h)
  refine ⟨by rw [h2]; exact hcfs.header, ?_⟩
  exact count_of_noTok h1.symm hcfs.stmts

/-- ★ `fsyn_header_fix`: no comment is left over for the file header -/
theorem fsyn_header_fix (name x : Bytes) (fix : Option Fixer) (f : Modfile.File)
    (h : parseToFile name x fix true = .ok f) : f.syn.comments.before = [] :=
  (eolCount_syn_fix name x fix f h).header

/-! ### the printable shape from the skeleton and the tokens -/

/-- the conditions `EWFStmts` puts on the TOKENS of lines (block headers are never rewritten) -/
def TokShape : Expr → Prop
  | .line l => l.token ≠ [] ∧ (∀ t ∈ l.token, ModfileFmtLine.TokText t) ∧ lineTailOK l.token.tail = true
  | .lineBlock b => ∀ l ∈ b.lines, l.token ≠ [] ∧ (∀ t ∈ l.token, ModfileFmtLine.TokText t) ∧
      l.token.head? ≠ some [41]
  | _ => True

theorem ewfBlkLines_of_noTokL : ∀ (ls ls0 : List Line) (allow : Bool), ls.map noTokL = ls0.map noTokL →
    EWFBlkLines allow ls0 →
    (∀ l ∈ ls, l.token ≠ [] ∧ (∀ t ∈ l.token, ModfileFmtLine.TokText t) ∧ l.token.head? ≠ some [41]) →
    EWFBlkLines allow ls := by
  intro ls
  induction ls with
  | nil => intro ls0 allow _ _ _; trivial
  | cons l ls ih =>
    intro ls0 allow hm hw ht
    cases ls0 with
    | nil => simp at hm
    | cons l0 ls0 =>
      simp only [List.map_cons, List.cons.injEq] at hm
      obtain ⟨hm1, hm2⟩ := hm
      obtain ⟨hw1, hw2⟩ := hw
      obtain ⟨t1, t2, t3⟩ := ht l (by simp)
      have hc : l.comments = l0.comments := by have h9 := congrArg Line.comments hm1; exact h9
      have hb : l.inBlock = l0.inBlock := by have h9 := congrArg Line.inBlock hm1; exact h9
      refine ⟨⟨t1, t2, t3, ?_, ?_, ?_, ?_⟩, ih ls0 true hm2 hw2 (fun l' hl' => ht l' (by simp [hl']))⟩
      · rw [hc]; exact hw1.before
      · rw [hc]; exact hw1.suffix
      · rw [hc]; exact hw1.after
      · rw [hb]; exact hw1.inBlock

theorem ewfStmt_of_noTok {s s0 : Expr} (hm : noTok s = noTok s0) (hw : EWFStmt s0) (ht : TokShape s) : EWFStmt s := by
  cases s with
  | line l =>
    cases s0 with
    | line l0 =>
      simp only [noTok, Expr.line.injEq] at hm
      have hc : l.comments = l0.comments := by have h9 := congrArg Line.comments hm; exact h9
      have hb : l.inBlock = l0.inBlock := by have h9 := congrArg Line.inBlock hm; exact h9
      have hw : EWFLine l0 := hw
      obtain ⟨t1, t2, t3⟩ := ht
      exact ⟨t1, t2, t3, by rw [hc]; exact hw.before, by rw [hc]; exact hw.suffix, by rw [hc]; exact hw.after,
        by rw [hb]; exact hw.inBlock⟩
    | _ => simp [noTok] at hm
  | lineBlock b =>
    cases s0 with
    | lineBlock b0 =>
      simp only [noTok, Expr.lineBlock.injEq] at hm
      have hw : EWFBlock b0 := hw
      have e1 : b.token = b0.token := by have h9 := congrArg LineBlock.token hm; exact h9
      have e2 : b.comments = b0.comments := by have h9 := congrArg LineBlock.comments hm; exact h9
      have e3 : b.lparen = b0.lparen := by have h9 := congrArg LineBlock.lparen hm; exact h9
      have e4 : b.rparen = b0.rparen := by have h9 := congrArg LineBlock.rparen hm; exact h9
      have e5 : b.lines.map noTokL = b0.lines.map noTokL := by have h9 := congrArg LineBlock.lines hm; exact h9
      have e6 : b.lines.isEmpty = b0.lines.isEmpty := by
        have := congrArg List.length e5
        simp only [List.length_map] at this
        cases hb : b.lines <;> cases hb0 : b0.lines <;> simp_all
      exact ⟨by rw [e1]; exact hw.ne, by rw [e1]; exact hw.tok, by rw [e2]; exact hw.before,
        by rw [e2]; exact hw.after, by rw [e3]; exact hw.lbefore, by rw [e3]; exact hw.lsuffix,
        by rw [e3]; exact hw.lafter, ewfBlkLines_of_noTokL _ _ _ e5 hw.lines ht,
        by rw [e4, e6]; exact hw.rbefore, by rw [e4, e2]; exact hw.rsuffix, by rw [e4]; exact hw.rafter⟩
    | _ => simp [noTok] at hm
  | commentBlock c =>
    cases s0 with
    | commentBlock c0 =>
      simp only [noTok, Expr.commentBlock.injEq] at hm
      subst hm
      exact hw
    | _ => simp [noTok] at hm
  | lparen p =>
    cases s0 with
    | lparen p0 => exact hw.elim
    | _ => simp [noTok] at hm
  | rparen p =>
    cases s0 with
    | rparen p0 => exact hw.elim
    | _ => simp [noTok] at hm

theorem ewfStmts_of_noTok {ss ss0 : List Expr} (hm : ss.map noTok = ss0.map noTok) (hw : EWFStmts ss0)
    (ht : ∀ s ∈ ss, TokShape s) : EWFStmts ss := by
  intro s hs
  have : noTok s ∈ ss0.map noTok := by rw [← hm]; exact List.mem_map_of_mem hs
  obtain ⟨s0, hs0, heq⟩ := List.mem_map.1 this
  exact ewfStmt_of_noTok heq.symm (hw s0 hs0) (ht s hs)

/-- ★ `fsyn_printable_shape_fix`: for the tree of a strictly accepted go.mod (any fixer, with or without retract
    directives) the printable shape `EWFStmts` holds as soon as the TOKENS of its lines are line tokens (`TokShape`);
    everything `EWFStmts` says about comments, parentheses, block headers and `inBlock` follows from the parse -/
theorem fsyn_printable_shape_fix (name x : Bytes) (fix : Option Fixer) (f : Modfile.File)
    (h : parseToFile name x fix true = .ok f) (ht : ∀ s ∈ f.syn.stmts, TokShape s) :
    EWFStmts f.syn.stmts ∧ f.syn.comments.before = [] := by
  obtain ⟨fs, hp, h1, h2, _⟩ := fsyn_skeleton name x fix true f h
  have hcfs : EolCount fs :=
    ModfileSrc.eolCount_of_single_line_tokens hp (ModfileStrictTok.strict_noMultiLineToken h)
  obtain ⟨hwfs, _, _, _⟩ := parse_ewf hp (eolOK_of_count hp hcfs)
  exact ⟨ewfStmts_of_noTok h1 hwfs ht, fsyn_header_fix name x fix f h⟩

/-! ### executable checkers (for the non-vacuity examples) -/

/-- a sufficient test for "is a line token": `AutoQuote` leaves the text alone -/
def tokTextB (t : Bytes) : Bool := autoQuote t == t

theorem tokTextB_sound {t : Bytes} (h : tokTextB t = true) : ModfileFmtLine.TokText t := by
  obtain ⟨k, hk⟩ := ModfileFmtQuote.autoQuote_single_token t
  have e : autoQuote t = t := by simpa [tokTextB] using h
  rw [e] at hk
  exact ModfileFmtLine.tokOK_tokText hk

def tokShapeB : Expr → Bool
  | .line l => !l.token.isEmpty && l.token.all tokTextB && lineTailOK l.token.tail
  | .lineBlock b => b.lines.all fun l => !l.token.isEmpty && l.token.all tokTextB && !(l.token.head? == some [41])
  | _ => true

theorem tokShapeB_sound {s : Expr} (h : tokShapeB s = true) : TokShape s := by
  cases s with
  | line l =>
    simp only [tokShapeB, Bool.and_eq_true, Bool.not_eq_true', List.all_eq_true] at h
    obtain ⟨⟨h1, h2⟩, h3⟩ := h
    exact ⟨by intro e; simp [e] at h1, fun t ht => tokTextB_sound (h2 t ht), h3⟩
  | lineBlock b =>
    simp only [tokShapeB, List.all_eq_true, Bool.and_eq_true, Bool.not_eq_true'] at h
    intro l hl
    obtain ⟨⟨h1, h2⟩, h3⟩ := h l hl
    exact ⟨by intro e; simp [e] at h1, fun t ht => tokTextB_sound (h2 t ht), by intro e; simp [e] at h3⟩
  | commentBlock c => trivial
  | lparen p => trivial
  | rparen p => trivial

def nlLineB (l : Line) : Bool := l.comments.suffix.isEmpty || l.token.all fun t => !t.contains 10

theorem nlLineB_sound {l : Line} (h : nlLineB l = true) : NlLine l := by
  intro hs t ht
  simp only [nlLineB, Bool.or_eq_true, List.all_eq_true] at h
  rcases h with h | h
  · exact absurd (by simpa using h) hs
  · have := h t ht
    simpa using this

def nlOKB : Expr → Bool
  | .line l => nlLineB l
  | .lineBlock b => b.lines.all nlLineB
  | _ => true

theorem nlOKB_sound {s : Expr} (h : nlOKB s = true) : NlOK s := by
  cases s with
  | line l => exact nlLineB_sound h
  | lineBlock b =>
    intro l hl
    simp only [nlOKB, List.all_eq_true] at h
    exact nlLineB_sound (h l hl)
  | commentBlock c => trivial
  | lparen p => trivial
  | rparen p => trivial

/-- ★ clause 3 with a fixer and retract directives for the accepted file itself, the comment part of the tree
    hypotheses discharged: what is assumed about the tree are conditions on its TOKENS only -/
theorem reparse_of_parse_fix3 (name x : Bytes) (fx : Fixer) (f : Modfile.File) (st1 : AddState)
    (h : parseToFile name x (some fx) true = .ok f) (hwf : WellFormed f)
    (hfix : ModfileFmtDir.FixOK (some fx)) (hne : FixNE (some fx))
    (ht : ∀ s ∈ f.syn.stmts, TokShape s) (hnl : ∀ s ∈ f.syn.stmts, NlOK s)
    (ha : addStmts (some fx) true { file := { syn := f.syn } } f.syn.stmts = (st1, f.syn.stmts))
    (he : st1.errsRev = []) (hv : values st1.file = values f) :
    ∃ f', parseToFile name (format f.syn) (some fx) true = .ok f' ∧ values f' = values f := by
  obtain ⟨hw, hc⟩ := fsyn_printable_shape_fix name x (some fx) f h ht
  exact reparse_of_parse_fix name x fx f st1 h hwf hfix hne hw hnl hc ha he hv

end ModVerif.Proofs.ModfileFmtRet
