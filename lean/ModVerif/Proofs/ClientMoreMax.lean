/-
  ClientMore, part 5 — the C14 theorems about an honest server: `honest_all_succeed` and `latest_ends_at_max`
  (statements about every state / every terminal state of every honest run), and the honest two-log instance.
-/
import ModVerif.Proofs.ClientMoreFinish
namespace ModVerif.ClientLatest
variable {M T : Type}

/-- `x` is a greatest element of the set `S` for the preorder `le` -/
def IsMax (le : T → T → Prop) (S : T → Prop) (x : T) : Prop := S x ∧ ∀ y, S y → le y x

variable [DecidableEq M] [DecidableEq T]

/-- the stored head never goes below the initial one -/
theorem config_ge_c0 (P : Params M T) (le : T → T → Prop) (hS : Sound P le) (cl : Nat → Nat) (presented : Nat → Option M)
    (priv : Nat → Bool) (c0 : Option M) (s : St M T) (h : Reachable P cl presented priv c0 s) :
    le (cfgTree P c0) (cfgTree P s.config) := by
  induction h with
  | init => exact hS.refl _
  | step t r hr hs ih =>
    rcases step_config P le hS cl presented priv _ _ t r (inv_reachable P le hS cl presented priv c0 _ hr) hs with
      ⟨e, _⟩ | ⟨_, _, _, hle⟩
    · rw [e]; exact ih
    · exact hS.trans _ _ _ ih hle

/-- the stored value is the initial one or it was some client's in-memory head (which has only grown since) -/
theorem config_from (P : Params M T) (le : T → T → Prop) (Ch : T → Prop) (cl : Nat → Nat)
    (presented : Nat → Option M) (priv : Nat → Bool) (c0 : Option M) (hH : Honest P le Ch presented c0)
    (s : St M T) (h : HReachable P cl presented priv c0 s) :
    s.config = c0 ∨ ∃ c, le (cfgTree P s.config) (s.latest c) := by
  induction h with
  | init => exact Or.inl rfl
  | @step s s' t r hr hok hs ih =>
    have hI := inv_reachable P le hH.sound cl presented priv c0 _ hr.reachable
    have hF := flush_reachable P le Ch cl presented priv c0 hH _ hr
    have hmono := step_latest_mono P le hH.sound cl presented priv s s' t r hI hs
    have hlm := hF.lm_below t
    have htr := hH.sound.trans
    by_cases hc : s'.config = s.config
    · rw [hc]
      rcases ih with h1 | ⟨c, h1⟩
      · exact Or.inl h1
      · exact Or.inr ⟨c, htr _ _ _ h1 (hmono c)⟩
    · right
      refine ⟨cl t, ?_⟩
      have hm := hmono (cl t)
      clear ih hmono
      have h := hs
      step_cases
      all_goals (first | exact absurd rfl hc | exact absurd trivial hc | skip)
      all_goals grind

/-- **With an honest server no goroutine ends in an error state, whatever the interleaving**: in every state of every
honest run (any number of clients and goroutines, `latestMu` retries and `ErrWriteConflict` retries included) no
goroutine has returned an error or the security error, `SecurityError` was never called, a goroutine that has
returned has returned success — or `ErrGONOSUMDB` exactly when its path is private. -/
theorem honest_all_succeed_inv (P : Params M T) (le : T → T → Prop) (Ch : T → Prop) (cl : Nat → Nat)
    (presented : Nat → Option M) (priv : Nat → Bool) (c0 : Option M) (hH : Honest P le Ch presented c0)
    (s : St M T) (h : HReachable P cl presented priv c0 s) :
    (∀ t, (s.th t).pc ≠ .done .err ∧ (s.th t).pc ≠ .done .security) ∧ s.sec = [] ∧
    (∀ t x, (s.th t).pc = .done x → (priv t = false → x = .ok) ∧ (priv t = true → x = .gonosumdb)) := by
  have hN := (honest_invs P le Ch cl presented priv c0 hH s h).2
  have hI := inv_reachable P le hH.sound cl presented priv c0 s h.reachable
  refine ⟨fun t => ⟨hN.no_err t, hN.no_sec t⟩, hN.sec_nil, fun t x hx => ⟨fun hp => ?_, fun hp => ?_⟩⟩
  · have h1 := hN.no_err t; have h2 := hN.no_sec t; have h3 := hI.public_pc t hp
    cases x <;> simp_all
  · rcases (hI.private_idle t hp).1 with h1 | h1
    · rw [hx] at h1; cases h1
    · rw [hx] at h1; cases h1; rfl

/-- **The latest tree head ends at the largest tree seen.**  In every terminal state (every goroutine has returned or
was never started) of every honest run:
 * every goroutine that ran returned success (`ErrGONOSUMDB` for private paths);
 * each client's in-memory head is a greatest element of what that client saw — the empty tree, the trees presented to
   its goroutines, the configuration contents its goroutines read;
 * the stored head is a greatest element of everything the system saw — the empty tree, the initial configuration, every
   tree presented to any goroutine of any client;
 * the stored head is above every client's in-memory head, and it is the initial content or (equivalent to) the
   in-memory head of one of the clients. -/
theorem latest_ends_at_max_inv (P : Params M T) (le : T → T → Prop) (Ch : T → Prop) (cl : Nat → Nat)
    (presented : Nat → Option M) (priv : Nat → Bool) (c0 : Option M) (hH : Honest P le Ch presented c0)
    (s : St M T) (h : HReachable P cl presented priv c0 s) (hq : Quiescent s) :
    (∀ t, (s.th t).pc = .entry ∨ (s.th t).pc = .done .ok ∨ (priv t = true ∧ (s.th t).pc = .done .gonosumdb)) ∧
    (∀ c, IsMax le (ClientSaw P cl presented priv s c) (s.latest c)) ∧
    IsMax le (Seen P presented priv c0 s) (cfgTree P s.config) ∧
    (∀ c, le (s.latest c) (cfgTree P s.config)) ∧
    (s.config = c0 ∨ ∃ c, le (cfgTree P s.config) (s.latest c) ∧ le (s.latest c) (cfgTree P s.config)) := by
  have hS := hH.sound
  have hI := inv_reachable P le hS cl presented priv c0 s h.reachable
  have hF := flush_reachable P le Ch cl presented priv c0 hH s h
  have hV := seen_reachable P le hS cl presented priv c0 s h.reachable
  obtain ⟨_, _, hres⟩ := honest_all_succeed_inv P le Ch cl presented priv c0 hH s h
  -- a started goroutine has returned success
  have hdone : ∀ t, Started priv s t → (s.th t).pc = .done .ok := by
    intro t ⟨hp, hne⟩
    rcases hq t with h1 | ⟨x, h1⟩
    · exact absurd h1 hne
    · rw [h1, (hres t x h1).1 hp]
  -- nobody is responsible any more, so every in-memory head has been flushed
  have hflush : ∀ c, le (s.latest c) (cfgTree P s.config) := by
    intro c
    rcases hF.flush c with h1 | ⟨t, _, hr⟩
    · exact h1
    · exfalso
      rcases hq t with h1 | ⟨x, h1⟩ <;> simp [Resp, h1] at hr
  refine ⟨fun t => ?_, fun c => ⟨hV.saw c, ?_⟩, ⟨hV.config_seen, ?_⟩, hflush, ?_⟩
  · rcases hq t with h1 | ⟨x, h1⟩
    · exact Or.inl h1
    · cases hp : priv t with
      | false => right; left; rw [h1, (hres t x h1).1 hp]
      | true => right; right; exact ⟨rfl, by rw [h1, (hres t x h1).2 hp]⟩
  · rintro y (hy | ⟨t, m, hc, hst, hm, hp⟩ | ⟨t, hc, hpc, hy⟩)
    · rw [hy]; exact hS.zero_le _
    · rw [← hc]
      exact hI.accepted t m y hm hp (by simp [PastFirst, hdone t hst])
    · rw [hy, ← hc]; exact hF.cfg_merged t (Or.inl hpc)
  · rintro y (hy | hy | ⟨t, m, hst, hm, hp⟩)
    · rw [hy]; exact hS.zero_le _
    · rw [hy]; exact config_ge_c0 P le hS cl presented priv c0 s h.reachable
    · exact hS.trans _ _ _ (hI.accepted t m y hm hp (by simp [PastFirst, hdone t hst])) (hflush (cl t))
  · rcases config_from P le Ch cl presented priv c0 hH s h with h1 | ⟨c, h1⟩
    · exact Or.inl h1
    · exact Or.inr ⟨c, h1, hflush c⟩

/-! ## Concrete runs: helpers for non-vacuity examples -/

/-- a schedule whose answers are all `ok` is an honest continuation -/
theorem hreachable_run_ok (P : Params M T) (cl : Nat → Nat) (presented : Nat → Option M) (priv : Nat → Bool) (c0 : Option M) :
    ∀ (sched : List (Nat × Res)) (s s' : St M T), (∀ x ∈ sched, x.2 = Res.ok) → HReachable P cl presented priv c0 s →
      run P cl presented priv s sched = some s' → HReachable P cl presented priv c0 s' := by
  intro sched
  induction sched with
  | nil => intro s s' _ h hr; simp [run] at hr; subst hr; exact h
  | cons x rest ih =>
    intro s s' hok h hr
    obtain ⟨t, r⟩ := x
    have hr0 : r = Res.ok := hok (t, r) (by simp)
    subst hr0
    simp only [run] at hr
    cases hs : step P cl presented priv s t .ok with
    | none => simp [hs] at hr
    | some s1 =>
      simp only [hs] at hr
      exact ih s1 s' (fun x hx => hok x (by simp [hx])) (HReachable.step t .ok h (cfgOk_ok s t) hs) hr

theorem run_th_frame (P : Params M T) (cl : Nat → Nat) (presented : Nat → Option M) (priv : Nat → Bool) :
    ∀ (sched : List (Nat × Res)) (s s' : St M T) (t : Nat), (∀ x ∈ sched, x.1 ≠ t) →
      run P cl presented priv s sched = some s' → s'.th t = s.th t := by
  intro sched
  induction sched with
  | nil => intro s s' t _ hr; simp [run] at hr; subst hr; rfl
  | cons x rest ih =>
    intro s s' t hne hr
    obtain ⟨t1, r⟩ := x
    simp only [run] at hr
    cases hs : step P cl presented priv s t1 r with
    | none => simp [hs] at hr
    | some s1 =>
      simp only [hs] at hr
      rw [ih s1 s' t (fun x hx => hne x (by simp [hx])) hr]
      exact step_th_frame P cl presented priv s s1 t1 r hs t (fun e => hne (t1, r) (by simp) e.symm)

/-- a run from the initial state in which every scheduled goroutine has returned ends in a terminal state -/
theorem quiescent_of_run (P : Params M T) (cl : Nat → Nat) (presented : Nat → Option M) (priv : Nat → Bool) (c0 : Option M)
    (sched : List (Nat × Res)) (s' : St M T) (hr : run P cl presented priv (init P c0) sched = some s')
    (hd : ∀ x ∈ sched, ∃ y, (s'.th x.1).pc = .done y) : Quiescent s' := by
  intro t
  by_cases ht : ∃ x ∈ sched, x.1 = t
  · obtain ⟨x, hx, rfl⟩ := ht
    exact Or.inr (hd x hx)
  · left
    rw [run_th_frame P cl presented priv sched _ s' t (fun x hx e => ht ⟨x, hx, e⟩) hr]
    rfl

/-- a goroutine that does not occur in the schedule is still at `entry` -/
theorem entry_of_run (P : Params M T) (cl : Nat → Nat) (presented : Nat → Option M) (priv : Nat → Bool) (c0 : Option M)
    (sched : List (Nat × Res)) (s' : St M T) (hr : run P cl presented priv (init P c0) sched = some s')
    (t : Nat) (ht : ∀ x ∈ sched, x.1 ≠ t) : (s'.th t).pc = .entry := by
  rw [run_th_frame P cl presented priv sched _ s' t ht hr]; rfl

/-! ## The honest two-log instance: log A of `forkParams p false` -/

/-- `forkLe p` is sound for `forkParams p hostile`, for every fork point `p` -/
theorem forkParams_sound' (p : Nat) (hostile : Bool) : Sound (forkParams p hostile) (fun a b => forkLe p a b = true) := by
  constructor
  · intro a; simp [forkLe]
  · intro a b c; simp only [forkLe, Bool.and_eq_true, Bool.or_eq_true, decide_eq_true_eq, beq_iff_eq]; omega
  · intro a; simp [forkLe, forkParams]
  · intro a b; cases hostile <;> simp only [forkParams] <;> by_cases h : forkLe p a b = true <;> simp [h]

/-- The server that only ever signs heads of log A (branch 0) and serves its tiles is `Honest`: whatever sizes are
presented to the goroutines and whatever head of A the configuration starts with. -/
theorem forkParams_honest (p : Nat) (sizes : Nat → Option Nat) (n0 : Option Nat) :
    Honest (forkParams p false) (fun a b => forkLe p a b = true) (fun x => x.1 = 0)
      (fun t => (sizes t).map fun n => (0, n)) (n0.map fun n => (0, n)) := by
  refine ⟨forkParams_sound' p false, rfl, ?_, ?_, ?_, ?_⟩
  · intro t
    cases sizes t with
    | none => trivial
    | some n => refine ⟨(0, n), ?_, rfl⟩; simp [forkParams]
  · cases n0 with
    | none => trivial
    | some n => refine ⟨(0, n), ?_, rfl⟩; simp [forkParams]
  · intro a b ha hb hsz
    simp only [forkParams] at hsz
    simp [forkLe, ha, hb, hsz]
  · intro a b ha hb hsz
    simp only [forkParams] at hsz
    simp [forkParams, forkLe, ha, hb, hsz]

end ModVerif.ClientLatest
