/-
  ClientRefine, part 1c — the simulation theorems between the sequential `mergeLatest` (Model/Client.lean) and ONE
  goroutine of the latest-head machine (Model/ClientLatest.lean): every lock-step run keeps the coupling
  (`corun_coupled`), the lock-step run exists and returns within 10 machine steps (`corun_exists`), and the two
  directions of the refinement (`head_refinement`).  Helper for Props/C14.lean.
-/
import ModVerif.Proofs.ClientRefineStep
namespace ModVerif.ClientRefine
open ModVerif ModVerif.Client ModVerif.Tile

set_option linter.unusedSectionVars false

section
variable {σ H : Type} [DecidableEq H]
variable {P : Params H} {E : Env σ} {MP : MParams H} {cl : Nat → Nat} {presented : Nat → Option Bytes}
  {priv : Nat → Bool} {name : Bytes} {cfg : σ → Bytes} {vs : List Note.Verifier} {t : Nat} {msg0 : Bytes}
  {target : Except Err Unit × World σ H} {tr0 : List Effect} {bw : List (Option Bytes × Option Bytes)}
  {bs : List (Nat × Option Bytes × Option Bytes)}

/-- **One step of the lock-step product keeps the coupling**: if the machine's choice at a choice point is the answer
of the sequential environment, the machine state after the step is coupled with the sequential world after the piece
of sequential code the step abstracts. -/
theorem coupled_step (hA : Abs P E vs MP) (hE : CfgCell E name cfg) (hret : 1 ≤ P.retries)
    (hpres : presented t = optB msg0) (hpriv : priv t = false) {w : World σ H} {s s' : MSt H} {r : ClientLatest.Res}
    (hC : Coupled P E cl name cfg vs t msg0 target tr0 bw bs w s)
    (hr : IsChoice (s.th t).pc → r = answer P E w (s.th t))
    (h : ClientLatest.step MP cl presented priv s t r = some s') :
    Coupled P E cl name cfg vs t msg0 target tr0 bw bs (wstep P E w (s.th t)) s' := by
  cases hpc : (s.th t).pc with
  | entry => simp only [wstep, hpc]; exact step_entry hpriv hC hpc h
  | start => simp only [wstep, hpc]; exact step_start hpres hC hpc h
  | memRead o => simp only [wstep, hpc]; exact step_memRead hA o hC hpc h
  | memCheck o => exact step_memCheck hA hE o hC hpc (hr (by simp [hpc, IsChoice])) h
  | memInstall o => exact step_memInstall o hC hpc h
  | readConfig => exact step_readConfig hE hret hC hpc (hr (by simp [hpc, IsChoice])) h
  | readLatestMsg => simp only [wstep, hpc]; exact step_readLatestMsg hC hpc h
  | writeConfig => exact step_writeConfig hE hC hpc (hr (by simp [hpc, IsChoice])) h
  | done x => unfold ClientLatest.step at h; simp [hpc] at h

/-- **Every lock-step run keeps the coupling.** -/
theorem corun_coupled (hA : Abs P E vs MP) (hE : CfgCell E name cfg) (hret : 1 ≤ P.retries)
    (hpres : presented t = optB msg0) (hpriv : priv t = false) :
    ∀ (rs : List ClientLatest.Res) (w w' : World σ H) (s s' : MSt H),
      Coupled P E cl name cfg vs t msg0 target tr0 bw bs w s →
      corun P E MP cl presented priv t w s rs = some (w', s') →
      Coupled P E cl name cfg vs t msg0 target tr0 bw bs w' s' := by
  intro rs
  induction rs with
  | nil => intro w w' s s' hC h; simp [corun] at h; obtain ⟨rfl, rfl⟩ := h; exact hC
  | cons r rs ih =>
    intro w w' s s' hC h
    simp only [corun] at h
    split at h
    · cases h
    · rename_i hc
      cases hs : ClientLatest.step MP cl presented priv s t r with
      | none => simp [hs] at h
      | some s1 =>
        simp only [hs] at h
        refine ih _ _ _ _ (coupled_step hA hE hret hpres hpriv hC ?_ hs) h
        intro hch
        by_cases hreq : r = answer P E w (s.th t)
        · exact hreq
        · exact absurd ⟨hch, hreq⟩ hc

/-- progress: in a coupled state the machine can take the step the sequential environment dictates -/
theorem coupled_progress (hA : Abs P E vs MP) {w : World σ H} {s : MSt H}
    (hnd : ∀ x, (s.th t).pc ≠ .done x) :
    ∃ s', ClientLatest.step MP cl presented priv s t (answer P E w (s.th t)) = some s' := by
  cases hpc : (s.th t).pc with
  | done x => exact absurd hpc (hnd x)
  | memCheck o =>
    have hans : answer P E w (s.th t) = absChk (seqCheck P E w (s.th t)).1 := by simp only [answer, hpc]
    unfold ClientLatest.step
    simp only [hpc, hA.size]
    by_cases hsz : (s.th t).tree.n ≤ (s.th t).latest.n
    · simp only [hsz, if_true]
      have hm : answer P E w (s.th t) ∈ MP.chk (s.th t).tree (s.th t).latest := by
        rw [hans, seqCheck, if_pos hsz]; exact hA.chk _ _ _ _ _ hsz
      rw [if_pos hm]
      cases answer P E w (s.th t) <;> exact ⟨_, rfl⟩
    · simp only [hsz, if_false]
      have hm : answer P E w (s.th t) ∈ MP.chk (s.th t).latest (s.th t).tree := by
        rw [hans, seqCheck, if_neg hsz]; exact hA.chk _ _ _ _ _ (by omega)
      rw [if_pos hm]
      cases answer P E w (s.th t) <;> exact ⟨_, rfl⟩
  | memRead o =>
    unfold ClientLatest.step
    simp only [hpc]
    split
    · exact ⟨_, rfl⟩
    · split <;> exact ⟨_, rfl⟩
  | memInstall o => unfold ClientLatest.step; simp only [hpc]; split <;> exact ⟨_, rfl⟩
  | readConfig => unfold ClientLatest.step; simp only [hpc]; split <;> exact ⟨_, rfl⟩
  | writeConfig =>
    unfold ClientLatest.step
    simp only [hpc]
    split
    · exact ⟨_, rfl⟩
    · split <;> exact ⟨_, rfl⟩
  | entry => unfold ClientLatest.step; simp only [hpc]; exact ⟨_, rfl⟩
  | start => unfold ClientLatest.step; simp only [hpc]; exact ⟨_, rfl⟩
  | readLatestMsg => unfold ClientLatest.step; simp only [hpc]; exact ⟨_, rfl⟩

/-- **The lock-step run exists and the goroutine returns within `rank ≤ 10` steps** (sequentially neither retry loop
goes around). -/
theorem corun_exists (hA : Abs P E vs MP) :
    ∀ (n : Nat) (w : World σ H) (s : MSt H), ClientLatest.rank cl s t ≤ n →
      ∃ rs w' s', rs.length ≤ n ∧ corun P E MP cl presented priv t w s rs = some (w', s') ∧
        ∃ x, (s'.th t).pc = .done x := by
  intro n
  induction n with
  | zero =>
    intro w s hn
    exact ⟨[], w, s, Nat.le_refl _, rfl, ClientLatest.rank_zero cl s t (by omega)⟩
  | succ n ih =>
    intro w s hn
    by_cases hd : ∃ x, (s.th t).pc = .done x
    · exact ⟨[], w, s, by simp, rfl, hd⟩
    · have hnd : ∀ x, (s.th t).pc ≠ .done x := fun x hx => hd ⟨x, hx⟩
      obtain ⟨s1, hs1⟩ := coupled_progress (P := P) (E := E) (cl := cl) (presented := presented) (priv := priv) hA
        (w := w) hnd
      have hlt := ClientLatest.rank_step MP cl presented priv s s1 t _ hs1
      obtain ⟨rs, w', s', hlen, hrun, hdone⟩ := ih (wstep P E w (s.th t)) s1 (by omega)
      refine ⟨answer P E w (s.th t) :: rs, w', s', by simp; omega, ?_, hdone⟩
      simp only [corun, ne_eq, not_true_eq_false, and_false, if_false, hs1]
      exact hrun

/-- the initial coupling: goroutine `t` is about to run `Lookup`'s entry test and then `mergeLatest(msg0)` -/
theorem coupled_init {w : World σ H} {s : MSt H} (hR : RelG cl name cfg vs t w s)
    (hpc : (s.th t).pc = .entry ∨ (s.th t).pc = .start) :
    Coupled P E cl name cfg vs t msg0 (mergeLatest P E w msg0) w.tr s.writes s.sec w s := by
  refine ⟨hR, ?_, [], by simp, by simp [trWrites], [], by simp, by simpa [trSecs] using SecRel.nil⟩
  rcases hpc with hpc | hpc <;> simp only [LocOK, hpc]

/-- **Refinement between the sequential `mergeLatest` and one goroutine of the latest-head machine.**
Hypotheses: `Abs` (the machine parameters abstract the client's verification layer), `CfgCell` (the configuration file
is one compare-and-swap cell that nobody else writes: ONE client), at least one round of the `ErrWriteConflict` loop
(`retries` is the model's fuel), goroutine `t` is public and is presented the message `msg0`, the states agree
(`RelG`) and `t` has not started.  Then
 (a) the lock-step run exists: within 10 steps of goroutine `t` alone the machine reaches a state in which `t` has
     returned, the sequential world next to it is the world after `mergeLatest`, and `t`'s result is the abstraction
     of `mergeLatest`'s;
 (b) EVERY lock-step run (every run of goroutine `t` alone whose choices are the environment's answers), of whatever
     length, ends in a state that agrees with the sequential world reached by the corresponding sequential code — same
     in-memory head and message, same configuration content (`RelG`), same successful configuration writes and same
     security reports (`Obs`) — and if `t` has returned, that world and `t`'s result are those of `mergeLatest`. -/
theorem head_refinement (hA : Abs P E vs MP) (hE : CfgCell E name cfg) (hret : 1 ≤ P.retries)
    (hpres : presented t = optB msg0) (hpriv : priv t = false) (w : World σ H) (s : MSt H)
    (hR : RelG cl name cfg vs t w s) (hpc : (s.th t).pc = .entry) :
    (∃ rs s', rs.length ≤ 10 ∧
      corun P E MP cl presented priv t w s rs = some ((mergeLatest P E w msg0).2, s') ∧
      (s'.th t).pc = .done (absRes (mergeLatest P E w msg0).1)) ∧
    (∀ rs w' s', corun P E MP cl presented priv t w s rs = some (w', s') →
      ClientLatest.run MP cl presented priv s (rs.map fun r => (t, r)) = some s' ∧
      RelG cl name cfg vs t w' s' ∧ Obs P t w.tr s.writes s.sec w' s' ∧
      ∀ x, (s'.th t).pc = .done x → w' = (mergeLatest P E w msg0).2 ∧ x = absRes (mergeLatest P E w msg0).1) := by
  have hC0 : Coupled P E cl name cfg vs t msg0 (mergeLatest P E w msg0) w.tr s.writes s.sec w s :=
    coupled_init hR (Or.inl hpc)
  have hb : ∀ rs w' s', corun P E MP cl presented priv t w s rs = some (w', s') →
      ClientLatest.run MP cl presented priv s (rs.map fun r => (t, r)) = some s' ∧
      RelG cl name cfg vs t w' s' ∧ Obs P t w.tr s.writes s.sec w' s' ∧
      ∀ x, (s'.th t).pc = .done x → w' = (mergeLatest P E w msg0).2 ∧ x = absRes (mergeLatest P E w msg0).1 := by
    intro rs w' s' hrun
    have hC := corun_coupled hA hE hret hpres hpriv rs w w' s s' hC0 hrun
    refine ⟨corun_run P E MP cl presented priv t rs w w' s s' hrun, hC.rel, hC.obs, fun x hx => ?_⟩
    have hl := hC.loc
    simp only [LocOK, hx] at hl
    exact ⟨hl.2.symm, hl.1.symm⟩
  refine ⟨?_, hb⟩
  obtain ⟨rs, w', s', hlen, hrun, x, hx⟩ := corun_exists (P := P) (E := E) (presented := presented) (priv := priv) hA
    10 w s (ClientLatest.rank_le cl s t)
  obtain ⟨_, _, _, hfin⟩ := hb rs w' s' hrun
  obtain ⟨e1, e2⟩ := hfin x hx
  subst e1
  exact ⟨rs, s', hlen, hrun, by rw [hx, e2]⟩

end
end ModVerif.ClientRefine
