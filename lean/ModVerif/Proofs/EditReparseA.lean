/-
  EditReparse, part A — the print/parse round trip for a tree that was NOT produced by the parser (C15 `typed_eq_reparse`).

  C02's clause 3 (`format_preserves_directives_eol`) is stated for the tree of a strict parse.  Its second half only needs
  * the shape of the tree (`EWFStmts`, `NlOK`, no header comment), and
  * a FIRST run of the directive layer over that tree that reports no error, rewrites nothing and yields a
    well-formed typed file.
  This file extracts that half: from such a first run, `Format` of the tree is accepted by the strict parser with the
  same directive values.
-/
import ModVerif.Proofs.ModfileEolDir4
namespace ModVerif.Proofs.EditReparse
open ModVerif ModVerif.Modfile ModVerif.Proofs.ModfileFmtDir ModVerif.Proofs.ModfileEol
open ModVerif.Proofs.ModfileFmtTree

theorem fixNE_none : FixNE none := by
  intro fx h; cases h

/-- **Round trip from a first run.**  `T`: any syntax tree of the shape `Format` prints faithfully (`EWFStmts`, `NlOK`, no
    header comment).  If the directive layer, run over `T` from the empty file, reports no error, leaves every token as it
    is and yields a well-formed typed file `st1.file`, then the strict parser accepts `Format T` and reads the same
    directive values. -/
theorem reparse_of_first_run (name : Bytes) (T : FileSyntax) (st1 : AddState)
    (hwf : EWFStmts T.stmts) (hnl : ∀ s ∈ T.stmts, NlOK s) (hc : T.comments.before = [])
    (ha : addStmts none true { file := { syn := T } } T.stmts = (st1, T.stmts))
    (he : st1.errsRev = []) (hw : WellFormed st1.file) :
    ∃ f', parseToFile name (format T) none true = .ok f' ∧ values f' = values st1.file := by
  obtain ⟨_, _, _, _, hrep⟩ := addStmts_replayE none (Or.inl rfl) fixNE_none T.stmts _ st1 T.stmts ha he hw hwf hnl
  obtain ⟨t', hp', het'⟩ := reparse_ewf name T hwf hnl hc
  have hrel : t'.stmts.map eraseExpr = T.stmts.map normExprE := by
    have := congrArg FileSyntax.stmts het'
    simpa [eraseFile] using this
  have hsim0 : Sim ({ file := { syn := T } } : AddState) ({ file := { syn := t' } } : AddState) := ⟨rfl, rfl, rfl⟩
  obtain ⟨st1', ha', hsim'⟩ := hrep _ t'.stmts hsim0 hrel
  refine ⟨{ st1'.file with syn := { t' with stmts := t'.stmts } }, ?_, ?_⟩
  · unfold parseToFile
    simp only [hp', ha', fixRetract]
    simp [hsim'.errs']
  · rw [values_syn, ← hsim'.vals]

end ModVerif.Proofs.EditReparse
