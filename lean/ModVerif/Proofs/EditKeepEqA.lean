/-
  EditKeepEq, part A — `Keeps` with EQUALITY of the end-of-line comments (`KeepsS`): every line whose id is not in `S` is
  still there, same id, same tokens, at least the same whole-line comments and EXACTLY the same end-of-line comments.
  The primitives of Proofs/EditMoreKeep{A,B}.lean restated: updateLine, markRemoved, Cleanup, removeDups, the sort,
  addLine's hinted walk, insertAt, appendToBlock, moveExisting, ensureBlock.  The only primitive under which an
  end-of-line comment list can GROW is Cleanup collapsing a one-line block that carries its own end-of-line comment
  (`keepsS_cleanupStmts_needs_noBlockSuffix`: concrete tree); `TreeWF.noBlockSuffix` excludes it.  `Before` comments still
  only satisfy the sublist relation: the collapse prepends the block's whole-line comments to those of the line.
-/
import ModVerif.Proofs.EditMoreComD
set_option linter.unusedSimpArgs false
namespace ModVerif.Modfile.Edit
open ModVerif ModVerif.Modfile

/-- `x'` is the line `x`: same id, same tokens, possibly more whole-line comments, the SAME end-of-line comments -/
def XLine.leS (x x' : XLine) : Prop :=
  x'.id = x.id ∧ x'.toks = x.toks ∧ x.before.Sublist x'.before ∧ x'.suffix = x.suffix

theorem XLine.leS_refl (x : XLine) : x.leS x := ⟨rfl, rfl, List.Sublist.refl _, rfl⟩

theorem XLine.leS_trans {x y z : XLine} (h1 : x.leS y) (h2 : y.leS z) : x.leS z :=
  ⟨h2.1.trans h1.1, h2.2.1.trans h1.2.1, h1.2.2.1.trans h2.2.2.1, h2.2.2.2.trans h1.2.2.2⟩

theorem XLine.leS.le {x x' : XLine} (h : x.leS x') : x.le x' :=
  ⟨h.1, h.2.1, h.2.2.1, by rw [h.2.2.2]; exact List.Sublist.refl _⟩

/-- every live line whose id is not in `S` is still there, with the same tokens, at least the same whole-line comments and
    exactly the same end-of-line comments -/
def KeepsS (S : List Nat) (a b : List Expr) : Prop := ∀ x ∈ viewX a, x.id ∉ S → ∃ x' ∈ viewX b, x.leS x'

theorem KeepsS.toKeeps {S : List Nat} {a b : List Expr} (h : KeepsS S a b) : Keeps S a b := by
  intro x hx hs
  rcases h x hx hs with ⟨y, hy, r⟩
  exact ⟨y, hy, r.le⟩

theorem KeepsEq.toKeepsS {S : List Nat} {a b : List Expr} (h : KeepsEq S a b) : KeepsS S a b :=
  fun x hx hs => ⟨x, h x hx hs, x.leS_refl⟩

theorem KeepsS.refl (S : List Nat) (a : List Expr) : KeepsS S a a := fun x hx _ => ⟨x, hx, x.leS_refl⟩

theorem KeepsS.of_eq {S : List Nat} {a b : List Expr} (h : viewX b = viewX a) : KeepsS S a b :=
  fun x hx _ => ⟨x, by rw [h]; exact hx, x.leS_refl⟩

theorem KeepsS.trans {S1 S2 : List Nat} {a b c : List Expr} (h1 : KeepsS S1 a b) (h2 : KeepsS S2 b c) : KeepsS (S1 ++ S2) a c := by
  intro x hx hs
  simp only [List.mem_append, not_or] at hs
  rcases h1 x hx hs.1 with ⟨y, hy, hxy⟩
  rcases h2 y hy (by rw [hxy.1]; exact hs.2) with ⟨z, hz, hyz⟩
  exact ⟨z, hz, XLine.leS_trans hxy hyz⟩

theorem KeepsS.mono {S S' : List Nat} {a b : List Expr} (h : KeepsS S a b) (hs : ∀ i ∈ S, i ∈ S') : KeepsS S' a b :=
  fun x hx hn => h x hx (fun hi => hn (hs _ hi))

theorem KeepsS.append {S : List Nat} {a b c d : List Expr} (h1 : KeepsS S a b) (h2 : KeepsS S c d) : KeepsS S (a ++ c) (b ++ d) := by
  intro x hx hs
  rw [viewX_append] at hx
  rcases List.mem_append.1 hx with hx | hx
  · rcases h1 x hx hs with ⟨y, hy, r⟩
    exact ⟨y, by rw [viewX_append]; exact List.mem_append_left _ hy, r⟩
  · rcases h2 x hx hs with ⟨y, hy, r⟩
    exact ⟨y, by rw [viewX_append]; exact List.mem_append_right _ hy, r⟩

theorem KeepsS.cons {S : List Nat} {x y : Expr} {xs ys : List Expr} (h1 : KeepsS S [x] [y]) (h2 : KeepsS S xs ys) :
    KeepsS S (x :: xs) (y :: ys) := by
  have := KeepsS.append h1 h2
  simpa using this

/-- a statement all of whose live lines are in `S` may disappear -/
theorem KeepsS.drop_head {S : List Nat} {x : Expr} {xs ys : List Expr} (h1 : ∀ v ∈ viewX [x], v.id ∈ S) (h2 : KeepsS S xs ys) :
    KeepsS S (x :: xs) ys := by
  intro v hv hs
  rw [viewX_cons] at hv
  rcases List.mem_append.1 hv with hv | hv
  · exact absurd (h1 v hv) hs
  · exact h2 v hv hs

/-- a new statement may appear -/
theorem KeepsS.add_head {S : List Nat} {y : Expr} {xs ys : List Expr} (h2 : KeepsS S xs ys) : KeepsS S xs (y :: ys) := by
  intro v hv hs
  rcases h2 v hv hs with ⟨w, hw, r⟩
  exact ⟨w, by rw [viewX_cons]; exact List.mem_append_right _ hw, r⟩

/-- `FileSyntax.updateLine id g` changes at most lines with that id -/
theorem keepsS_updateLine (fs : FileSyntax) (id : Nat) (g : Line → Line) : KeepsS [id] fs.stmts (fs.updateLine id g).stmts := by
  unfold FileSyntax.updateLine
  simp only
  generalize fs.stmts = stmts
  induction stmts with
  | nil => exact KeepsS.refl _ _
  | cons x xs ih =>
    simp only [List.map_cons]
    refine KeepsS.cons ?_ ih
    cases x with
    | line l =>
      simp only
      split
      · rename_i hl
        intro v hv hs
        rw [viewX_line] at hv
        split at hv
        · cases hv
        · simp only [List.mem_singleton] at hv
          subst hv
          exact absurd (List.mem_singleton.2 (eq_of_beq hl)) hs
      · exact KeepsS.refl _ _
    | lineBlock b =>
      simp only
      intro v hv hs
      rw [viewX_block] at hv ⊢
      rcases List.mem_map.1 hv with ⟨l, hl, rfl⟩
      rcases List.mem_filter.1 hl with ⟨hl1, hl2⟩
      simp only [List.mem_singleton] at hs
      exact ⟨_, List.mem_map.2 ⟨l, List.mem_filter.2 ⟨keeps_updateLineIn id g b.lines l hl1 hs, hl2⟩, rfl⟩, XLine.leS_refl _⟩
    | commentBlock c => exact KeepsS.refl _ _
    | lparen c => exact KeepsS.refl _ _
    | rparen c => exact KeepsS.refl _ _

theorem keepsS_markRemoved (fs : FileSyntax) (id : Nat) : KeepsS [id] fs.stmts (markRemoved fs id).stmts :=
  keepsS_updateLine fs id _

theorem keepsS_updateTokens (fs : FileSyntax) (id : Nat) (toks : List Bytes) : KeepsS [id] fs.stmts (Edit.updateLine fs id toks).stmts :=
  keepsS_updateLine fs id _

theorem keepsS_markAll (ids : List Nat) : ∀ fs : FileSyntax, KeepsS ids fs.stmts (markAll fs ids).stmts := by
  induction ids with
  | nil => intro fs; exact KeepsS.refl _ _
  | cons i is ih =>
    intro fs
    have h1 := keepsS_markRemoved fs i
    have h2 := ih (markRemoved fs i)
    have := h1.trans h2
    simpa [markAll] using this

theorem keepsS_subset_block {S : List Nat} (b : LineBlock) (ls : List Line)
    (h : ∀ l ∈ b.lines, l.token ≠ [] → l.id ∉ S → l ∈ ls) : KeepsS S [Expr.lineBlock b] [Expr.lineBlock { b with lines := ls }] := by
  intro v hv hs
  rw [viewX_block] at hv ⊢
  rcases List.mem_map.1 hv with ⟨l, hl, rfl⟩
  rcases List.mem_filter.1 hl with ⟨hl1, hl2⟩
  have hne : l.token ≠ [] := by intro e; simp [e] at hl2
  exact ⟨_, List.mem_map.2 ⟨l, List.mem_filter.2 ⟨h l hl1 hne hs, hl2⟩, rfl⟩, XLine.leS_refl _⟩

/-- **`FileSyntax.Cleanup`** keeps every live line; a line of a collapsed block gains the block's whole-line comments, and —
    no block carrying an end-of-line comment of its own (`TreeWF.noBlockSuffix`) — keeps exactly its end-of-line comments -/
theorem keepsS_cleanupStmts : ∀ (stmts : List Expr), (∀ b, Expr.lineBlock b ∈ stmts → b.comments.suffix = []) →
    KeepsS [] stmts (cleanupStmts stmts) := by
  intro stmts
  induction stmts with
  | nil => intro _; exact KeepsS.refl _ _
  | cons x xs ih' =>
    intro hnb
    have ih := ih' (fun b hb => hnb b (List.mem_cons_of_mem _ hb))
    cases x with
    | line l =>
      unfold cleanupStmts
      split
      · rename_i hl
        refine KeepsS.drop_head ?_ ih
        intro v hv; rw [viewX_line, if_pos hl] at hv; cases hv
      · exact KeepsS.cons (KeepsS.refl _ _) ih
    | lineBlock b =>
      unfold cleanupStmts
      have hfl : ∀ l ∈ b.lines, l.token ≠ [] → l.id ∉ ([] : List Nat) → l ∈ b.lines.filter (fun l => !l.token.isEmpty) := by
        intro l hl hne _
        refine List.mem_filter.2 ⟨hl, ?_⟩
        cases hlt : l.token with
        | nil => exact absurd hlt hne
        | cons _ _ => rfl
      cases hlive : b.lines.filter (fun l => !l.token.isEmpty) with
      | nil =>
        simp only [hlive]
        refine KeepsS.drop_head ?_ ih
        intro v hv; rw [viewX_block, hlive] at hv; cases hv
      | cons l ls =>
        cases ls with
        | nil =>
          simp only [hlive]
          split
          · refine KeepsS.cons ?_ ih
            intro v hv _
            rw [viewX_block, hlive] at hv
            simp only [List.map_cons, List.map_nil, List.mem_singleton] at hv
            subst hv
            have hllive : l.token ≠ [] := by
              have : l ∈ b.lines.filter (fun l => !l.token.isEmpty) := by rw [hlive]; exact List.mem_singleton.2 rfl
              have := (List.mem_filter.1 this).2
              intro e; simp [e] at this
            have hne : (b.token ++ l.token).isEmpty = false := by
              cases hlt : l.token with
              | nil => exact absurd hlt hllive
              | cons _ _ => simp
            refine ⟨⟨l.id, b.token ++ l.token, b.comments.before ++ l.comments.before, l.comments.suffix ++ b.comments.suffix⟩, ?_,
              rfl, rfl, List.sublist_append_right _ _, by simp [hnb b List.mem_cons_self]⟩
            rw [viewX_line]
            simp [hne]
          · refine KeepsS.cons ?_ ih
            rw [← hlive]; exact keepsS_subset_block b _ hfl
        | cons l2 ls2 =>
          simp only [hlive]
          refine KeepsS.cons ?_ ih
          rw [← hlive]; exact keepsS_subset_block b _ hfl
    | commentBlock c => unfold cleanupStmts; exact KeepsS.cons (KeepsS.refl _ _) ih
    | lparen c => unfold cleanupStmts; exact KeepsS.cons (KeepsS.refl _ _) ih
    | rparen c => unfold cleanupStmts; exact KeepsS.cons (KeepsS.refl _ _) ih

/-- **`removeDups`' tree half** drops only lines of the kill list -/
theorem keepsS_dropKilled (kill : List Nat) : ∀ (stmts : List Expr), KeepsS kill stmts (dropKilled kill stmts) := by
  intro stmts
  induction stmts with
  | nil => exact KeepsS.refl _ _
  | cons x xs ih =>
    cases x with
    | line l =>
      unfold dropKilled
      split
      · rename_i hk
        refine KeepsS.drop_head ?_ ih
        intro v hv
        rw [viewX_line] at hv
        split at hv
        · cases hv
        · simp only [List.mem_singleton] at hv; subst hv
          simpa using hk
      · exact KeepsS.cons (KeepsS.refl _ _) ih
    | lineBlock b =>
      unfold dropKilled
      dsimp only
      have hfl : ∀ l ∈ b.lines, l.token ≠ [] → l.id ∉ kill → l ∈ b.lines.filter (fun l => !kill.contains l.id) := by
        intro l hl _ hk
        refine List.mem_filter.2 ⟨hl, ?_⟩
        simpa using hk
      split
      · rename_i he
        refine KeepsS.drop_head ?_ ih
        intro v hv
        rw [viewX_block] at hv
        rcases List.mem_map.1 hv with ⟨l, hl, rfl⟩
        rcases List.mem_filter.1 hl with ⟨hl1, hl2⟩
        apply Classical.byContradiction
        intro hk
        have hne : l.token ≠ [] := by intro e; simp [e] at hl2
        have := hfl l hl1 hne hk
        rw [List.isEmpty_iff.1 he] at this
        cases this
      · exact KeepsS.cons (keepsS_subset_block b _ hfl) ih
    | commentBlock c => unfold dropKilled; exact KeepsS.cons (KeepsS.refl _ _) ih
    | lparen c => unfold dropKilled; exact KeepsS.cons (KeepsS.refl _ _) ih
    | rparen c => unfold dropKilled; exact KeepsS.cons (KeepsS.refl _ _) ih

/-- **the sort of SortBlocks** keeps every line -/
theorem keepsS_sortStmts (sem work : Bool) : ∀ (stmts : List Expr), KeepsS [] stmts (sortStmts sem work stmts) := by
  intro stmts
  induction stmts with
  | nil => exact KeepsS.refl _ _
  | cons x xs ih =>
    have hcons : sortStmts sem work (x :: xs) = (sortStmts sem work [x]) ++ sortStmts sem work xs := by
      simp [sortStmts]
    rw [hcons]
    cases x with
    | lineBlock b =>
      simp only [sortStmts, List.map_cons, List.map_nil, List.singleton_append]
      refine KeepsS.cons ?_ ih
      exact keepsS_subset_block b _ (fun l hl _ _ => (stableSort_perm _ b.lines).symm.subset hl)
    | line l => simp only [sortStmts, List.map_cons, List.map_nil, List.singleton_append]; exact KeepsS.cons (KeepsS.refl _ _) ih
    | commentBlock c => simp only [sortStmts, List.map_cons, List.map_nil, List.singleton_append]; exact KeepsS.cons (KeepsS.refl _ _) ih
    | lparen c => simp only [sortStmts, List.map_cons, List.map_nil, List.singleton_append]; exact KeepsS.cons (KeepsS.refl _ _) ih
    | rparen c => simp only [sortStmts, List.map_cons, List.map_nil, List.singleton_append]; exact KeepsS.cons (KeepsS.refl _ _) ih

/-- inserting a statement keeps every line -/
theorem keepsS_insertAt (stmts : List Expr) (i : Nat) (y : Expr) : KeepsS [] stmts (insertAt stmts i y) := by
  unfold insertAt
  intro v hv _
  refine ⟨v, ?_, XLine.leS_refl _⟩
  rw [viewX_append, viewX_cons]
  rw [← List.take_append_drop i stmts, viewX_append] at hv
  rcases List.mem_append.1 hv with h | h
  · exact List.mem_append_left _ h
  · exact List.mem_append_right _ (List.mem_append_right _ h)

theorem keepsS_append_stmt (stmts : List Expr) (y : Expr) : KeepsS [] stmts (stmts ++ [y]) := by
  intro v hv _
  exact ⟨v, by rw [viewX_append]; exact List.mem_append_left _ hv, XLine.leS_refl _⟩

/-- appending a line to the block at an index keeps every line -/
theorem keepsS_appendToBlock (stmts : List Expr) (idx : Nat) (l : Line) : KeepsS [] stmts (appendToBlock stmts idx l) := by
  unfold appendToBlock
  cases hx : stmts[idx]? with
  | none => exact KeepsS.refl _ _
  | some x =>
    cases x with
    | lineBlock b =>
      simp only
      rw [set_split _ hx]
      conv => lhs; rw [(split_at hx).1]
      refine KeepsS.append (KeepsS.refl _ _) (KeepsS.cons ?_ (KeepsS.refl _ _))
      exact keepsS_subset_block b _ (fun l' hl' _ _ => List.mem_append_left _ hl')
    | line _ => exact KeepsS.refl _ _
    | commentBlock _ => exact KeepsS.refl _ _
    | lparen _ => exact KeepsS.refl _ _
    | rparen _ => exact KeepsS.refl _ _

/-- **moveExisting** changes only the moved line -/
theorem keepsS_moveExisting (syn : FileSyntax) (i idx next : Nat) : KeepsS [i] syn.stmts (moveExisting syn i idx next).stmts := by
  unfold moveExisting
  cases syn.findLine i with
  | none => exact KeepsS.refl _ _
  | some old =>
    simp only
    have h1 := keepsS_updateLine syn i (fun l => { l with token := [] })
    have h2 := keepsS_appendToBlock (syn.updateLine i fun l => { l with token := [] }).stmts idx
      { old with id := next, token := (if (!old.inBlock && !old.token.isEmpty && headIs old.token (B "require")) = true then old.token.drop 1 else old.token), inBlock := true }
    have := h1.trans h2
    simpa using this

/-- the hinted walk of `addLine` keeps every line (a line converted into a block keeps its comments) -/
theorem keepsS_addLineWalk (hint : Hint) (tokens : List Bytes) (new : Nat) :
    ∀ (stmts : List Expr) (i : Nat) (stmts' : List Expr), View2 stmts →
      addLineWalk hint tokens new stmts i = some stmts' → KeepsS [] stmts stmts' := by
  intro stmts
  induction stmts with
  | nil => intro i stmts' _ h; simp [addLineWalk] at h
  | cons x xs ih =>
    intro i stmts' h2 h
    have hafter : KeepsS [] (x :: xs) (x :: Expr.line (mkLine new tokens false) :: xs) :=
      KeepsS.cons (KeepsS.refl _ _) (KeepsS.add_head (KeepsS.refl _ _))
    have hrest : ∀ r, (addLineWalk hint tokens new xs (i + 1)).map (x :: ·) = some r → KeepsS [] (x :: xs) r := by
      intro r hr
      cases hw : addLineWalk hint tokens new xs (i + 1) with
      | none => simp [hw] at hr
      | some r' =>
        simp only [hw, Option.map_some, Option.some.injEq] at hr; subst hr
        exact KeepsS.cons (KeepsS.refl _ _) (ih (i + 1) r' h2.tail hw)
    unfold addLineWalk at h
    dsimp only at h
    cases x with
    | line l =>
      simp only at h
      by_cases hh : (hint == Hint.line l.id || hint == Hint.stmt i) = true
      · rw [if_pos hh] at h
        by_cases hc : (l.token.isEmpty || !headIs l.token (tokens.head?.getD [])) = true
        · rw [if_pos hc] at h
          simp only [Option.some.injEq] at h; subst h; exact hafter
        · rw [if_neg hc] at h
          simp only [Bool.or_eq_true, Bool.not_eq_true', not_or, Bool.not_eq_true, Bool.not_eq_false] at hc
          simp only [Option.some.injEq] at h; subst h
          refine KeepsS.cons ?_ (KeepsS.refl _ _)
          have hlive : l.token ≠ [] := by intro e; simp [e] at hc
          have hlen : 2 ≤ l.token.length := by
            have := h2.head ⟨l.id, l.token, l.comments.suffix⟩ (by
              cases hlt : l.token with
              | nil => exact absurd hlt hlive
              | cons a as => simp [view, loc, locStmt, liveLoc, mkV, hlt])
            simpa using this
          intro v hv _
          rw [viewX_line] at hv
          rcases hlt : l.token with _ | ⟨a, _ | ⟨a2, as⟩⟩
          · exact absurd hlt hlive
          · rw [hlt] at hlen; simp at hlen
          · rw [hlt] at hv
            simp only [List.isEmpty_cons, Bool.false_eq_true, if_false, List.mem_singleton] at hv
            subst hv
            refine ⟨⟨l.id, a :: a2 :: as, l.comments.before, l.comments.suffix⟩, ?_, XLine.leS_refl _⟩
            rw [viewX_block]
            simp [hlt, mkLine]
      · rw [if_neg hh] at h; exact hrest _ h
    | lineBlock b =>
      simp only at h
      by_cases hh : (hint == Hint.stmt i) = true
      · rw [if_pos hh] at h
        by_cases hv : (!headIs b.token (tokens.head?.getD [])) = true
        · rw [if_pos hv] at h
          simp only [Option.some.injEq] at h; subst h; exact hafter
        · rw [if_neg hv] at h
          simp only [Option.some.injEq] at h; subst h
          exact KeepsS.cons (keepsS_subset_block b _ (fun l hl _ _ => List.mem_append_left _ hl)) (KeepsS.refl _ _)
      · rw [if_neg hh] at h
        cases hint with
        | line hid =>
          simp only at h
          by_cases ha : (b.lines.any fun x => x.id == hid) = true
          · rw [if_pos ha] at h
            by_cases hv : (!headIs b.token (tokens.head?.getD [])) = true
            · rw [if_pos hv] at h
              simp only [Option.some.injEq] at h; subst h; exact hafter
            · rw [if_neg hv] at h
              cases hins : insertAfterId hid (mkLine new (tokens.drop 1) true) b.lines with
              | none => simp only [hins] at h; exact hrest _ h
              | some ls =>
                simp only [hins, Option.some.injEq] at h; subst h
                exact KeepsS.cons (keepsS_subset_block b _ (fun l hl _ _ => insertAfterId_mem _ _ _ _ hins l hl)) (KeepsS.refl _ _)
          · rw [if_neg ha] at h; exact hrest _ h
        | none => simp only at h; exact hrest _ h
        | stmt k => simp only at h; exact hrest _ h
    | commentBlock c => exact hrest _ h
    | lparen c => exact hrest _ h
    | rparen c => exact hrest _ h

/-- **`FileSyntax.addLine`** keeps every line with its comments -/
theorem keepsS_addLine (fs : FileSyntax) (hint : Option Nat) (tokens : List Bytes) (new : Nat) (h2 : View2 fs.stmts) :
    KeepsS [] fs.stmts (addLine fs hint tokens new).stmts := by
  rcases addLine_cases fs hint tokens new with h | ⟨h, stmts', hw, he⟩
  · rw [h]; exact keepsS_append_stmt _ _
  · rw [he]; exact keepsS_addLineWalk h tokens new fs.stmts 0 stmts' h2 hw

theorem keepsS_addLinePtr (fs : FileSyntax) (hint : Option Nat) (tokens : List Bytes) (new : Nat) (h2 : View2 fs.stmts) :
    KeepsS [] fs.stmts (addLinePtr fs hint tokens new).stmts := by
  unfold addLinePtr
  cases hint with
  | none => exact keepsS_append_stmt _ _
  | some id =>
    dsimp only
    split
    · exact keepsS_append_stmt _ _
    · exact keepsS_addLine fs (some id) tokens new h2

/-- `ensureBlock` on a `require` statement keeps every line with its comments -/
theorem keepsS_ensureBlock (stmts : List Expr) (d : Nat) (h2 : View2 stmts) (hr : ReqAt stmts d) (s : List Expr)
    (h : ensureBlock stmts d = .ok s) : KeepsS [] stmts s := by
  rcases hr with ⟨x, hx, hreq⟩
  unfold ensureBlock at h
  cases x with
  | lineBlock b =>
    simp only [hx, Except.ok.injEq] at h
    subst h; exact KeepsS.refl _ _
  | line l =>
    simp only [hx, Except.ok.injEq] at h
    subst h
    simp only [ReqStmt] at hreq
    have hsp := (split_at hx).1
    have hvl : ⟨l.id, l.token, l.comments.suffix⟩ ∈ view stmts := by
      rw [hsp, view_append, view_cons]
      refine List.mem_append_right _ (List.mem_append_left _ ?_)
      cases hlt : l.token with
      | nil => exact absurd hlt hreq.1
      | cons a as => simp [view, loc, locStmt, liveLoc, mkV, hlt]
    have hlen := h2 _ hvl
    simp only at hlen
    rw [set_split _ hx]
    conv => lhs; rw [hsp]
    refine KeepsS.append (KeepsS.refl _ _) (KeepsS.cons ?_ (KeepsS.refl _ _))
    intro v hv _
    rw [viewX_line] at hv
    rcases hlt : l.token with _ | ⟨a, _ | ⟨a2, as⟩⟩
    · exact absurd hlt hreq.1
    · rw [hlt] at hlen; simp at hlen
    · have ha : a = B "require" := by have := hreq.2; rw [hlt] at this; exact headIs_cons this
      subst ha
      rw [hlt] at hv
      simp only [List.isEmpty_cons, Bool.false_eq_true, if_false, List.mem_singleton] at hv
      subst hv
      refine ⟨⟨l.id, B "require" :: a2 :: as, l.comments.before, l.comments.suffix⟩, ?_, XLine.leS_refl _⟩
      rw [viewX_block]
      simp [hlt]
  | commentBlock _ => exact hreq.elim
  | lparen _ => exact hreq.elim
  | rparen _ => exact hreq.elim

/-- the hypothesis of `keepsS_cleanupStmts` is needed: the tree `require ( // c` + one line `a v1 // s` + `)`, i.e. a block that
    carries an end-of-line comment of its own, is collapsed by Cleanup into the line `require a v1 // s // c` — the line's
    end-of-line comments grow.  (A strictly parsed file never attaches a comment to a block that way except for
    `verb () // c`: finding `C15_violated_empty_block_suffix_comment`; the invariant `TreeWF.noBlockSuffix` excludes it.) -/
def growTree : List Expr :=
  [.lineBlock { token := [B "require"], comments := { suffix := [{ token := B "// c", suffix := true }] },
                lines := [{ id := 1, token := [B "a", B "v1"], inBlock := true,
                            comments := { suffix := [{ token := B "// s", suffix := true }] } }] }]

theorem keepsS_cleanupStmts_needs_noBlockSuffix : ¬ KeepsS [] growTree (cleanupStmts growTree) := by
  intro h
  have hx : (⟨1, [B "require", B "a", B "v1"], [], [{ token := B "// s", suffix := true }]⟩ : XLine) ∈ viewX growTree := by
    simp [growTree, viewX, loc, locStmt, liveLoc, mkX]
  rcases h _ hx (by simp) with ⟨x', hx', _, _, _, hs⟩
  have hv : viewX (cleanupStmts growTree) =
      [⟨1, [B "require", B "a", B "v1"], [], [{ token := B "// s", suffix := true }, { token := B "// c", suffix := true }]⟩] := by
    simp [growTree, cleanupStmts, viewX, loc, locStmt, liveLoc, mkX]
  rw [hv, List.mem_singleton] at hx'
  subst hx'
  simp at hs

end ModVerif.Modfile.Edit
