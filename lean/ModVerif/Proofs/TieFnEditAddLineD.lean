import ModVerif.Proofs.TieFnEditAddLineC
set_option linter.unusedSimpArgs false
set_option linter.unusedVariables false
namespace ModVerif.TieFnEditAddLine
open ModVerif ModVerif.GoRt
open ModVerif.Generated.Edit
open ModVerif.Tie.FnEditRep
open ModVerif.Modfile.Edit (treeIds addLineWalk Hint mkLine headIs insertAfterId lastStmtWith)

/-! ### the hint is a block found by the no-hint search -/

theorem mem_blockPtrs_of_mem {p : Int} : ∀ {es : List Expr}, Expr.LineBlock p ∈ es → p ∈ blockPtrs es
  | e :: es, hm => by
    rcases List.mem_cons.1 hm with rfl | hm
    · simp [blockPtrs]
    · have := mem_blockPtrs_of_mem hm
      cases e <;> simp [blockPtrs, this]

theorem walkBlock_sim (x : Int) (fo : FileSyntax) (p : Int) (i : Nat) (t0 : Bytes) (trest : List Bytes) :
    ∀ (suf : List Expr) (ssuf : List Modfile.Expr) (pre : List Expr) (spre : List Modfile.Expr) (h : Heap) (fuel : Nat),
      heapGet h.files x = .ok fo → fo.Stmt = pre ++ suf → RStmts h pre spre → RStmts h suf ssuf → BlockTokOK ssuf →
      (blockPtrs (pre ++ suf)).Nodup → nodeCount ssuf + 2 ≤ fuel →
      pre.length ≤ i → (pre ++ suf)[i]? = some (Expr.LineBlock p) →
      WalkRes x fo (Expr.LineBlock p) (t0 :: trest) pre spre fuel h
        (addLineWalk (.stmt i) (t0 :: trest) (h.lines.length + 1) ssuf pre.length)
  | [], [], pre, spre, h, fuel, hf, hs, rpre, _, _, _, hfu, _, _ => by
    obtain ⟨f, rfl⟩ : ∃ f, fuel = f + 1 := ⟨fuel - 1, by omega⟩
    have hs' : fo.Stmt = pre := by simpa using hs
    show FileSyntax_addLine_loop1 fo.Stmt x _ _ (f + 1) (pre.length : Int) h = _
    rw [hs']; exact loop1_end pre x _ _ f h
  | [], _ :: _, _, _, _, _, _, _, _, r, _, _, _, _, _ => r.elim
  | _ :: _, [], _, _, _, _, _, _, _, r, _, _, _, _, _ => r.elim
  | e :: xs, s :: sxs, pre, spre, h, fuel, hf, hs, rpre, rsuf, htok, nb, hfu, hi, hget => by
    obtain ⟨f, rfl⟩ : ∃ f, fuel = f + 1 := ⟨fuel - 1, by omega⟩
    have hl := rpre.length
    have re := rsuf.1
    have rxs := rsuf.2
    have hlen1 : (pre ++ [e]).length = pre.length + 1 := by simp
    have ih := fun (hfu' : nodeCount sxs + 2 ≤ f) (hi' : pre.length + 1 ≤ i) =>
      walkBlock_sim x fo p i t0 trest xs sxs (pre ++ [e]) (spre ++ [s]) h f hf (by simp [hs])
        (RStmts.append rpre (show RStmts h [e] [s] from ⟨re, trivial⟩)) rxs (BlockTokOK_cons htok)
        (by simpa using nb) hfu' (by rw [hlen1]; exact hi') (by simpa using hget)
    rw [hlen1] at ih
    -- the statement at the index `pre.length`
    have hk : (pre ++ e :: xs)[pre.length]? = some e := by simp
    cases s with
    | lparen c => cases e <;> exact re.elim
    | rparen c => cases e <;> exact re.elim
    | commentBlock c =>
      cases e <;> simp only [RExpr] at re <;> try exact re.elim
      have hne : i ≠ pre.length := by
        intro e; rw [e, hk] at hget; cases hget
      rw [walk_cb]
      refine WalkRes_skip hl ?_ (ih (by simp only [nodeCount] at hfu; omega) (by omega))
      rw [hs]; exact loop1_skip_other pre _ xs x _ _ f h (by intro p; simp) (by intro p; simp)
    | line l =>
      cases e <;> simp only [RExpr] at re <;> try exact re.elim
      rename_i q
      have hne : i ≠ pre.length := by
        intro e; rw [e, hk] at hget; cases hget
      rw [walk_line]
      have hcond : ((Hint.stmt i == Hint.line l.id) || (Hint.stmt i == Hint.stmt pre.length)) = false := by simp [hne]
      rw [hcond]
      simp only [Bool.false_eq_true, if_false]
      refine WalkRes_skip hl ?_ (ih (by simp only [nodeCount] at hfu; omega) (by omega))
      rw [hs]
      exact loop1_skip_line pre _ xs x _ _ f h (by simp)
    | lineBlock b =>
      cases e <;> simp only [RExpr] at re <;> try exact re.elim
      rename_i p'
      obtain ⟨ps, hb, rps⟩ := re
      have btok := BlockTokOK_head htok
      have hnc : b.lines.length + nodeCount sxs + 2 ≤ f := by simp only [nodeCount] at hfu; omega
      rw [walk_block]
      by_cases hik : i = pre.length
      · -- the hint
        have hpp : p' = p := by
          rw [hik, hk] at hget
          injection hget with hget; injection hget
        subst hpp
        have hcond : (Hint.stmt i == Hint.stmt pre.length) = true := by simp [hik]
        rw [hcond]
        simp only [if_true]
        obtain ⟨bt0, btr, hbt⟩ := List.exists_cons_of_ne_nil btok
        have hh : headIs b.token t0 = decide (bt0 = t0) := by rw [hbt, headIs_cons_eq]
        by_cases hu : bt0 = t0
        · subst hu
          simp only [hh, List.head?_cons, Option.getD_some, decide_true, Bool.not_true, Bool.false_eq_true,
            if_false, List.drop_succ_cons, List.drop_zero]
          obtain ⟨a1, a2, a3, a4⟩ := block_insert_sim hf hs rpre rxs nb hb (l1 := b.lines) (l2 := []) (a := ps) (c := [])
            (by simp) rps trivial trest
          refine ⟨_, _, ?_, a1, a2, a3, a4⟩
          rw [hs]
          exact loop1_block_self_eq pre p' xs x bt0 trest f h _ hb btr (by simp [hbt])
        · simp only [hh, List.head?_cons, Option.getD_some, hu, decide_false, Bool.not_false, if_true]
          refine WalkRes_after hf hs rpre (show RExpr h (Expr.LineBlock p') (.lineBlock b) from ⟨ps, hb, rps⟩)
            rxs nb _ _ _ ?_
          rw [hs]
          exact loop1_block_self_ne pre p' xs x t0 trest f h _ hb bt0 btr (by simp [hbt]) hu
      · have hcond : (Hint.stmt i == Hint.stmt pre.length) = false := by simp [hik]
        rw [hcond]
        simp only [Bool.false_eq_true, if_false]
        have hpp : p' ≠ p := by
          intro e
          subst e
          -- `p'` occurs again in `xs`
          have hgt : pre.length + 1 ≤ i := by omega
          have : xs[i - (pre.length + 1)]? = some (Expr.LineBlock p') := by
            rw [List.getElem?_append_right (by omega)] at hget
            have e2 : i - pre.length = (i - (pre.length + 1)) + 1 := by omega
            rw [e2, List.getElem?_cons_succ] at hget
            exact hget
          have hm := mem_blockPtrs_of_mem (List.mem_of_getElem? this)
          rw [blockPtrs_append] at nb
          simp only [blockPtrs] at nb
          exact (List.nodup_cons.1 (List.nodup_append.1 nb).2.1).1 hm
        refine WalkRes_skip hl ?_ (ih (by omega) (by omega))
        rw [hs]
        refine loop1_skip_block pre p' xs x _ _ f h (by intro e; injection e with e; exact hpp e) _ hb (by simp) ?_
        simp only [blockG_Line]; rw [rps.length]; omega


/-! ### the hint is a top-level line found by the no-hint search: the walk is the one hinted by its id -/

theorem mem_stmtIds_of_line {l : Modfile.Line} : ∀ {ss : List Modfile.Expr}, Modfile.Expr.line l ∈ ss → l.id ∈ stmtIds ss
  | s :: ss, hm => by
    rcases List.mem_cons.1 hm with rfl | hm
    · simp [stmtIds]
    · have := mem_stmtIds_of_line hm
      cases s <;> simp [stmtIds, this]

theorem walk_stmt_line (tokens : List Bytes) (new : Nat) (l : Modfile.Line) :
    ∀ (ss : List Modfile.Expr) (k i : Nat), k ≤ i → ss[i - k]? = some (.line l) → (stmtIds ss).Nodup →
      addLineWalk (.stmt i) tokens new ss k = addLineWalk (.line l.id) tokens new ss k
  | [], k, i, _, hg, _ => by simp at hg
  | s :: ss, k, i, hk, hg, nd => by
    by_cases hik : i = k
    · subst hik
      simp only [Nat.sub_self, List.getElem?_cons_zero, Option.some.injEq] at hg
      subst hg
      rw [walk_line, walk_line]
      simp
    · have hg' : ss[i - (k + 1)]? = some (.line l) := by
        have e2 : i - k = (i - (k + 1)) + 1 := by omega
        rw [e2, List.getElem?_cons_succ] at hg
        exact hg
      have hmem : l.id ∈ stmtIds ss := mem_stmtIds_of_line (List.mem_of_getElem? hg')
      cases s with
      | commentBlock c =>
        rw [walk_cb, walk_cb, walk_stmt_line tokens new l ss (k + 1) i (by omega) hg' (by simpa [stmtIds] using nd)]
      | lparen c =>
        have nd' : (stmtIds ss).Nodup := by simpa [stmtIds] using nd
        show (addLineWalk _ _ _ ss (k + 1)).map _ = (addLineWalk _ _ _ ss (k + 1)).map _
        rw [walk_stmt_line tokens new l ss (k + 1) i (by omega) hg' nd']
      | rparen c =>
        have nd' : (stmtIds ss).Nodup := by simpa [stmtIds] using nd
        show (addLineWalk _ _ _ ss (k + 1)).map _ = (addLineWalk _ _ _ ss (k + 1)).map _
        rw [walk_stmt_line tokens new l ss (k + 1) i (by omega) hg' nd']
      | line l' =>
        simp only [stmtIds, List.nodup_cons] at nd
        have hne : l.id ≠ l'.id := fun e => nd.1 (e ▸ hmem)
        rw [walk_line, walk_line]
        have c1 : ((Hint.stmt i == Hint.line l'.id) || (Hint.stmt i == Hint.stmt k)) = false := by simp [hik]
        have c2 : ((Hint.line l.id == Hint.line l'.id) || (Hint.line l.id == Hint.stmt k)) = false := by simp [hne]
        rw [c1, c2]
        simp only [Bool.false_eq_true, if_false]
        rw [walk_stmt_line tokens new l ss (k + 1) i (by omega) hg' nd.2]
      | lineBlock b =>
        simp only [stmtIds] at nd
        have nd' := List.nodup_append.1 nd
        rw [walk_block, walk_block]
        have c1 : (Hint.stmt i == Hint.stmt k) = false := by simp [hik]
        have c2 : (Hint.line l.id == Hint.stmt k) = false := by simp
        have c3 : b.lines.any (·.id == l.id) = false := by
          cases hc : b.lines.any (·.id == l.id) with
          | false => rfl
          | true =>
            obtain ⟨l', hl', he⟩ := List.any_eq_true.1 hc
            simp only [beq_iff_eq] at he
            exact absurd he (nd'.2.2 l'.id (by simp only [lineIds]; exact List.mem_map.2 ⟨l', hl', rfl⟩) l.id hmem)
        rw [c1, c2]
        simp only [Bool.false_eq_true, if_false, c3]
        rw [walk_stmt_line tokens new l ss (k + 1) i (by omega) hg' nd'.2.1]


/-! ### the no-hint search: loop 3 against `lastStmtWith` -/

def stmtMatch (verb : Bytes) : Modfile.Expr → Bool
  | .line l => !l.token.isEmpty && headIs l.token verb
  | .lineBlock b => headIs b.token verb
  | _ => false

theorem lastStmtWith_snoc (verb : Bytes) (s : Modfile.Expr) : ∀ (xs : List Modfile.Expr) (i : Nat) (acc : Option Nat),
    lastStmtWith verb (xs ++ [s]) i acc =
      if stmtMatch verb s then some (i + xs.length) else lastStmtWith verb xs i acc
  | [], i, acc => by
    cases s <;> simp only [List.nil_append, lastStmtWith, stmtMatch, List.length_nil, Nat.add_zero, Bool.false_eq_true,
      if_false, Bool.and_eq_true, Bool.not_eq_true'] <;> first | rfl | (split <;> rfl) | skip
  | x :: xs, i, acc => by
    have e : i + (x :: xs).length = (i + 1) + xs.length := by simp; omega
    cases x <;> simp only [List.cons_append, lastStmtWith, lastStmtWith_snoc verb s xs, e]

theorem loop3_sim (x : Int) (fo : FileSyntax) (h : Heap) (hf : heapGet h.files x = .ok fo) (t0 : Bytes) (trest : List Bytes)
    (ss : List Modfile.Expr) (rs : RStmts h fo.Stmt ss) (htok : BlockTokOK ss) :
    ∀ (k : Nat) (fuel : Nat) (i2 : Int), k ≤ fo.Stmt.length → k + 1 ≤ fuel → i2 = (k : Int) - 1 →
      match lastStmtWith t0 (ss.take k) 0 none with
      | none => ∃ j, FileSyntax_addLine_loop3 x (t0 :: trest) h fuel Expr.nil i2 = .ok (Expr.nil, j)
      | some i => ∃ j e, fo.Stmt[i]? = some e ∧ ss[i]? ≠ none ∧ stmtMatch t0 (ss[i]?.getD default) = true ∧
          FileSyntax_addLine_loop3 x (t0 :: trest) h fuel Expr.nil i2 = .ok (e, j)
  | 0, fuel, i2, _, hfu, hi => by
    obtain ⟨f, rfl⟩ : ∃ f, fuel = f + 1 := ⟨fuel - 1, by omega⟩
    subst hi
    simp only [List.take_zero, lastStmtWith]
    refine ⟨((0 : Nat) : Int) - 1, ?_⟩
    unfold FileSyntax_addLine_loop3
    have : ¬ (((0 : Nat) : Int) - 1 ≥ 0) := by omega
    simp only [this, decide_false, Bool.false_eq_true, if_false, pure_eq_ok]
  | k + 1, fuel, i2, hk, hfu, hi => by
    obtain ⟨f, rfl⟩ : ∃ f, fuel = f + 1 := ⟨fuel - 1, by omega⟩
    have hi' : i2 = (k : Int) := by omega
    subst hi'
    have hlen := rs.length
    have hke : k < fo.Stmt.length := by omega
    have hks : k < ss.length := by omega
    have he : fo.Stmt[k]? = some fo.Stmt[k] := List.getElem?_eq_getElem hke
    have hsk : ss[k]? = some ss[k] := List.getElem?_eq_getElem hks
    have re := rs.get k _ _ he hsk
    have htake : ss.take (k + 1) = ss.take k ++ [ss[k]] := by
      rw [List.take_add_one, hsk]; rfl
    rw [htake, lastStmtWith_snoc]
    simp only [List.length_take, Nat.zero_add, Nat.min_eq_left (Nat.le_of_lt hks)]
    have ih := loop3_sim x fo h hf t0 trest ss rs htok k f ((k : Int) - 1) (by omega) (by omega) rfl
    have hge : ((k : Nat) : Int) ≥ 0 := by omega
    have hidx : idxL fo.Stmt (k : Int) = .ok fo.Stmt[k] := idxL_natCast hke
    have hmem : ss[k] ∈ ss := List.getElem_mem hks
    -- one iteration
    generalize hE : fo.Stmt[k] = e at re hidx he
    generalize hS : ss[k] = s at re hmem hsk
    cases s with
    | lparen c => cases e <;> exact re.elim
    | rparen c => cases e <;> exact re.elim
    | commentBlock c =>
      cases e <;> simp only [RExpr] at re <;> try exact re.elim
      simp only [stmtMatch, Bool.false_eq_true, if_false]
      have hstep : FileSyntax_addLine_loop3 x (t0 :: trest) h (f + 1) Expr.nil (k : Int) =
          FileSyntax_addLine_loop3 x (t0 :: trest) h f Expr.nil ((k : Int) - 1) := by
        conv => lhs; unfold FileSyntax_addLine_loop3
        simp only [hge, decide_true, if_true, hf, bind_ok, hidx]
      rw [hstep]; exact ih
    | line l =>
      cases e <;> simp only [RExpr] at re <;> try exact re.elim
      rename_i p
      cases hc : l.token with
      | nil =>
        simp only [stmtMatch, hc, List.isEmpty_nil, Bool.not_true, Bool.false_and, Bool.false_eq_true, if_false]
        have hstep : FileSyntax_addLine_loop3 x (t0 :: trest) h (f + 1) Expr.nil (k : Int) =
            FileSyntax_addLine_loop3 x (t0 :: trest) h f Expr.nil ((k : Int) - 1) := by
          conv => lhs; unfold FileSyntax_addLine_loop3
          simp only [hge, decide_true, if_true, hf, bind_ok, hidx, re.1, lineG_Token, hc, Bool.not_true,
            Bool.false_eq_true, if_false, pure_eq_ok]
        rw [hstep]; exact ih
      | cons u us =>
        by_cases hu : u = t0
        · subst hu
          simp only [stmtMatch, hc, List.isEmpty_cons, Bool.not_false, Bool.true_and, headIs_cons_eq, decide_true, if_true]
          refine ⟨(k : Int), Expr.Line p, he, by simp [hsk], by simp [hsk, stmtMatch, hc, headIs_cons_eq], ?_⟩
          unfold FileSyntax_addLine_loop3
          simp only [hge, decide_true, if_true, hf, bind_ok, hidx, re.1, lineG_Token, hc, reduceCtorEq, decide_false,
            Bool.not_false, idx0, pure_eq_ok]
        · simp only [stmtMatch, hc, List.isEmpty_cons, Bool.not_false, Bool.true_and, headIs_cons_eq, hu, decide_false,
            Bool.false_eq_true, if_false]
          have hstep : FileSyntax_addLine_loop3 x (t0 :: trest) h (f + 1) Expr.nil (k : Int) =
              FileSyntax_addLine_loop3 x (t0 :: trest) h f Expr.nil ((k : Int) - 1) := by
            conv => lhs; unfold FileSyntax_addLine_loop3
            simp only [hge, decide_true, if_true, hf, bind_ok, hidx, re.1, lineG_Token, hc, reduceCtorEq, decide_false,
              Bool.not_false, idx0, pure_eq_ok, hu, Bool.false_eq_true, if_false]
          rw [hstep]; exact ih
    | lineBlock b =>
      cases e <;> simp only [RExpr] at re <;> try exact re.elim
      rename_i p
      obtain ⟨ps, hb, rps⟩ := re
      obtain ⟨bt0, btr, hbt⟩ := List.exists_cons_of_ne_nil (htok b hmem)
      by_cases hu : bt0 = t0
      · subst hu
        simp only [stmtMatch, hbt, headIs_cons_eq, decide_true, if_true]
        refine ⟨(k : Int), Expr.LineBlock p, he, by simp [hsk], by simp [hsk, stmtMatch, hbt, headIs_cons_eq], ?_⟩
        unfold FileSyntax_addLine_loop3
        simp only [hge, decide_true, if_true, hf, bind_ok, hidx, hb, blockG_Token, hbt, idx0, pure_eq_ok]
      · simp only [stmtMatch, hbt, headIs_cons_eq, hu, decide_false, Bool.false_eq_true, if_false]
        have hstep : FileSyntax_addLine_loop3 x (t0 :: trest) h (f + 1) Expr.nil (k : Int) =
            FileSyntax_addLine_loop3 x (t0 :: trest) h f Expr.nil ((k : Int) - 1) := by
          conv => lhs; unfold FileSyntax_addLine_loop3
          simp only [hge, decide_true, if_true, hf, bind_ok, hidx, hb, blockG_Token, hbt, idx0, pure_eq_ok, hu,
            decide_false, Bool.false_eq_true, if_false]
        rw [hstep]; exact ih


/-! ### the model walk: ids and block verbs of the result -/

theorem stmtIds_cons (s : Modfile.Expr) (xs : List Modfile.Expr) : stmtIds (s :: xs) = stmtIds [s] ++ stmtIds xs :=
  stmtIds_append [s] xs

theorem BlockTokOK_cons_iff {s : Modfile.Expr} {xs : List Modfile.Expr} :
    BlockTokOK (s :: xs) ↔ BlockTokOK [s] ∧ BlockTokOK xs := by
  constructor
  · intro h
    exact ⟨fun b hb => h b (by rw [List.mem_singleton.1 hb]; exact List.mem_cons_self), BlockTokOK_cons h⟩
  · intro h b hb
    rcases List.mem_cons.1 hb with e | hb
    · exact h.1 b (by rw [e]; exact List.mem_singleton.2 rfl)
    · exact h.2 b hb

theorem BlockTokOK_line (l : Modfile.Line) : BlockTokOK [.line l] := fun b hb => by simp at hb
theorem BlockTokOK_nil : BlockTokOK [] := fun b hb => by simp at hb

theorem walk_ids (hint : Hint) (t0 : Bytes) (trest : List Bytes) (new : Nat) :
    ∀ (ss : List Modfile.Expr) (i : Nat) (ss' : List Modfile.Expr), addLineWalk hint (t0 :: trest) new ss i = some ss' →
      BlockTokOK ss → (stmtIds ss').Perm (new :: stmtIds ss) ∧ BlockTokOK ss'
  | [], i, ss', hw, _ => by simp [addLineWalk] at hw
  | s :: xs, i, ss', hw, hb => by
    have hb1 := (BlockTokOK_cons_iff.1 hb).1
    have hb2 := (BlockTokOK_cons_iff.1 hb).2
    -- the three shapes of the result
    have after : ss' = s :: .line (mkLine new (t0 :: trest) false) :: xs →
        (stmtIds ss').Perm (new :: stmtIds (s :: xs)) ∧ BlockTokOK ss' := by
      intro e; subst e
      refine ⟨?_, BlockTokOK_cons_iff.2 ⟨hb1, BlockTokOK_cons_iff.2 ⟨BlockTokOK_line _, hb2⟩⟩⟩
      rw [stmtIds_cons s, stmtIds_cons s xs]
      simp only [stmtIds, mkLine]
      exact List.perm_middle
    have miss : (addLineWalk hint (t0 :: trest) new xs (i + 1)).map (s :: ·) = some ss' →
        (stmtIds ss').Perm (new :: stmtIds (s :: xs)) ∧ BlockTokOK ss' := by
      intro e
      cases hx : addLineWalk hint (t0 :: trest) new xs (i + 1) with
      | none => rw [hx] at e; cases e
      | some xs' =>
        rw [hx] at e
        simp only [Option.map_some, Option.some.injEq] at e
        subst e
        obtain ⟨p1, p2⟩ := walk_ids hint t0 trest new xs (i + 1) xs' hx hb2
        refine ⟨?_, BlockTokOK_cons_iff.2 ⟨hb1, p2⟩⟩
        rw [stmtIds_cons s, stmtIds_cons s xs]
        exact (List.Perm.append_left _ p1).trans List.perm_middle
    cases s with
    | commentBlock c => rw [walk_cb] at hw; exact miss hw
    | lparen c => exact miss hw
    | rparen c => exact miss hw
    | line l =>
      rw [walk_line] at hw
      split at hw
      · split at hw
        · exact after (Option.some.inj hw).symm
        · rename_i hne
          have e := (Option.some.inj hw).symm
          subst e
          refine ⟨?_, BlockTokOK_cons_iff.2 ⟨?_, hb2⟩⟩
          · simp only [stmtIds, lineIds, List.map_cons, List.map_nil, mkLine, List.cons_append, List.nil_append]
            exact List.Perm.swap _ _ _
          · intro b hm
            simp only [List.mem_singleton, Modfile.Expr.lineBlock.injEq] at hm
            subst hm
            simp only [Bool.or_eq_true, not_or, Bool.not_eq_true, List.isEmpty_eq_false_iff] at hne
            intro e
            have := hne.1
            cases hl : l.token with
            | nil => exact this hl
            | cons u us => rw [hl] at e; simp at e
      · exact miss hw
    | lineBlock b =>
      have btok : b.token ≠ [] := hb1 b (List.mem_singleton.2 rfl)
      have modified : ∀ (l1 l2 : List Modfile.Line), b.lines = l1 ++ l2 →
          ss' = .lineBlock { b with lines := l1 ++ mkLine new trest true :: l2 } :: xs →
          (stmtIds ss').Perm (new :: stmtIds (.lineBlock b :: xs)) ∧ BlockTokOK ss' := by
        intro l1 l2 h1 e
        subst e
        refine ⟨?_, BlockTokOK_cons_iff.2 ⟨?_, hb2⟩⟩
        · simp only [stmtIds, lineIds, h1, List.map_append, List.map_cons, mkLine, List.append_assoc, List.cons_append]
          exact List.perm_middle
        · intro b' hm
          simp only [List.mem_singleton, Modfile.Expr.lineBlock.injEq] at hm
          subst hm
          exact btok
      rw [walk_block] at hw
      split at hw
      · split at hw
        · exact after (Option.some.inj hw).symm
        · refine modified b.lines [] (by simp) ?_
          simpa using (Option.some.inj hw).symm
      · split at hw
        · split at hw
          · split at hw
            · exact after (Option.some.inj hw).symm
            · split at hw
              · rename_i ls hins
                obtain ⟨l1, l2, e1, e2⟩ := Modfile.Edit.insertAfterId_spec _ _ _ _ hins
                refine modified l1 l2 e1 ?_
                have e2' : ls = l1 ++ mkLine new trest true :: l2 := e2
                rw [← e2']
                exact (Option.some.inj hw).symm
              · exact miss hw
          · exact miss hw
        · exact miss hw

end ModVerif.TieFnEditAddLine
