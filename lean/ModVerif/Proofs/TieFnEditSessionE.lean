/-
  Composition of the FnEdit ties, part E (agent edit-session): sound Boolean tests of the hypotheses of the session ties
  (`RunOK`, `FinalFuel`, `NoBlockSuffix`, `IsModOp`), and the harness of the non-vacuity examples — the whole regenerated
  session (load, operations, final Cleanup, read-back) and the whole model session as values that the kernel compares.
-/
import ModVerif.Proofs.TieFnEditSessionC
import ModVerif.Proofs.TieFnEditSessionD
import ModVerif.Proofs.EditRefineRun
set_option linter.unusedSimpArgs false
set_option linter.unusedVariables false
namespace ModVerif.Tie.FnEditSessionE
open ModVerif ModVerif.GoRt ModVerif.Generated.Edit ModVerif.Tie.FnEditRep
open ModVerif.Tie.FnEditSessionA ModVerif.Tie.FnEditSessionB ModVerif.Tie.FnEditSessionC
open ModVerif.Modfile.Edit (EFile EditErr applyMod SessionResult)
open ModVerif.Tie.FnEditSetQ (InTree)
open ModVerif.Tie.FnEditStmtEx (zeroIds optOK optOK_sound)

/-! ### Boolean tests -/

def scalarsLiveB (e : EFile) : Bool :=
  optOK (·.lineId) e.f.module && optOK (·.lineId) e.f.go && optOK (·.lineId) e.f.toolchain

theorem scalarsLiveB_sound {e : EFile} (h : scalarsLiveB e = true) : ScalarsLive e := by
  simp only [scalarsLiveB, Bool.and_eq_true] at h
  exact ⟨optOK_sound h.1.1, optOK_sound h.1.2, optOK_sound h.2⟩

def isSepB : EditSpec.Op → Bool
  | .setRequireSeparateIndirect _ => true
  | _ => false

def stepOKB (fuel : Nat) (e : EFile) (op : EditSpec.Op) : Bool :=
  decide (stepFuel e op ≤ fuel) && scalarsLiveB e && (!isSepB op || decide (InTree e))

theorem stepOKB_sound {fuel : Nat} {e : EFile} {op : EditSpec.Op} (h : stepOKB fuel e op = true) : StepOK fuel e op := by
  simp only [stepOKB, Bool.and_eq_true, decide_eq_true_eq, Bool.or_eq_true, Bool.not_eq_true'] at h
  refine ⟨h.1.1, scalarsLiveB_sound h.1.2, fun w hw => ?_⟩
  subst hw
  rcases h.2 with h2 | h2
  · cases h2
  · exact h2

/-- a Boolean test of `RunOK` (it follows the model run) -/
def runOKB (fuel : Nat) : EFile → List EditSpec.Op → Bool
  | _, [] => true
  | e, op :: ops =>
    stepOKB fuel e op &&
      (match applyMod e (opM op) with
       | some (.ok e') => runOKB fuel e' ops
       | some (.error err) => if err.isReturned then runOKB fuel e ops else true
       | none => true)

theorem runOKB_sound (fuel : Nat) : ∀ (ops : List EditSpec.Op) (e : EFile), runOKB fuel e ops = true → RunOK fuel e ops
  | [], _, _ => trivial
  | op :: ops, e, h => by
    simp only [runOKB, Bool.and_eq_true] at h
    refine ⟨stepOKB_sound h.1, ?_, ?_⟩
    · intro e' hx
      have h2 := h.2
      rw [hx] at h2
      exact runOKB_sound fuel ops e' h2
    · intro err hx hr
      have h2 := h.2
      rw [hx] at h2
      simp only [hr, if_true] at h2
      exact runOKB_sound fuel ops e h2

/-- the fuel covers the final Cleanup in the state the model run ends in -/
def FinalFuel (fuel : Nat) (e : EFile) (ops : List EditSpec.Op) : Prop :=
  ∀ e' res, Modfile.Edit.runOps applyMod e (ops.map opM) [] 0 = .done e' res → stepFuel e' .cleanup ≤ fuel

def finalFuelB (fuel : Nat) (e : EFile) (ops : List EditSpec.Op) : Bool :=
  match Modfile.Edit.runOps applyMod e (ops.map opM) [] 0 with
  | .done e' _ => decide (stepFuel e' .cleanup ≤ fuel)
  | _ => true

theorem finalFuelB_sound {fuel : Nat} {e : EFile} {ops : List EditSpec.Op} (h : finalFuelB fuel e ops = true) :
    FinalFuel fuel e ops := by
  intro e' res hx
  simp only [finalFuelB, hx, decide_eq_true_eq] at h
  exact h

def noBlockSuffixB (fs : Modfile.FileSyntax) : Bool :=
  fs.stmts.all fun x => match x with
    | .lineBlock b => b.comments.suffix.isEmpty
    | _ => true

theorem noBlockSuffixB_sound {fs : Modfile.FileSyntax} (h : noBlockSuffixB fs = true) : Modfile.Edit.NoBlockSuffix fs := by
  intro b hb
  simp only [noBlockSuffixB, List.all_eq_true] at h
  have := h _ hb
  simpa using this

def isModOpB : Modfile.Edit.Op → Bool
  | .addUse _ _ => false
  | .addNewUse _ _ => false
  | .dropUse _ => false
  | .setUse _ _ => false
  | _ => true

theorem isModOpB_sound {ops : List Modfile.Edit.Op} (h : ops.all isModOpB = true) : ∀ op ∈ ops, Modfile.Edit.IsModOp op := by
  intro op hop
  have := List.all_eq_true.1 h op hop
  cases op <;> first | trivial | cases this

/-- a property of the parsed file from a Boolean test evaluated on the parse result -/
theorem of_parsed {P : Modfile.File → Prop} (file : Bytes) (b : Modfile.File → Bool) (hb : ∀ f, b f = true → P f)
    (h : (match Modfile.parseStrict (B "go.mod") file none with
      | .ok f => b f
      | .error _ => true) = true) : ∀ f, Modfile.parseStrict (B "go.mod") file none = .ok f → P f := by
  intro f hp
  rw [hp] at h
  exact hb f h

/-! ### the two sessions as values -/

/-- the regenerated session: `none` = parse error / panic / bad operation / bad heap -/
def genSession (fuel : Nat) (file : Bytes) (ops : List EditSpec.Op) : Option (List Bool × Modfile.File) :=
  match Modfile.parseStrict (B "go.mod") file none with
  | .error _ => none
  | .ok f =>
    match Drv.GenEdit.runOps fuel (Drv.GenEdit.load f).2 (Drv.GenEdit.load f).1 ops [] with
    | .done h res =>
      match File_Cleanup fuel (Drv.GenEdit.load f).2 h with
      | .ok (_, h') => (Drv.GenEdit.fileM h' (Drv.GenEdit.load f).2).map fun g => (res, g)
      | .error _ => none
    | _ => none

/-- the model session (typed `lineId`s zeroed, as `fileM` reads them back) -/
def modelSession (file : Bytes) (ops : List EditSpec.Op) : Option (List Bool × Modfile.File) :=
  match Modfile.parseStrict (B "go.mod") file none with
  | .error _ => none
  | .ok f =>
    match Modfile.Edit.runOps applyMod (Modfile.Edit.load f) (ops.map opM) [] 0 with
    | .done e res => some (res, zeroIds (Modfile.Edit.cleanup e).f)
    | _ => none

/-- where a run panics: the name of the operation -/
def genPanic (fuel : Nat) (file : Bytes) (ops : List EditSpec.Op) : Option String :=
  match Modfile.parseStrict (B "go.mod") file none with
  | .error _ => none
  | .ok f =>
    match Drv.GenEdit.runOps fuel (Drv.GenEdit.load f).2 (Drv.GenEdit.load f).1 ops [] with
    | .panic n => some n
    | _ => none

def modelPanic (file : Bytes) (ops : List EditSpec.Op) : Option Nat :=
  match Modfile.parseStrict (B "go.mod") file none with
  | .error _ => none
  | .ok f =>
    match Modfile.Edit.runOps applyMod (Modfile.Edit.load f) (ops.map opM) [] 0 with
    | .panic j => some j
    | _ => none

end ModVerif.Tie.FnEditSessionE
