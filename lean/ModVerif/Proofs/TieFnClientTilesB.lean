/-
  Tie proofs for the regenerated sumdb client, tiles part B: `tileReader_ReadTiles` (its two loops) = the model's
  `readTiles` (`readTilesAll` + `firstError`).
-/
import ModVerif.Proofs.TieFnClientTilesA
set_option linter.unusedSectionVars false
set_option linter.unusedVariables false
namespace ModVerif.TieFnClientTiles
open ModVerif ModVerif.GoRt ModVerif.GoRtTile ModVerif.Generated.SumdbClient ModVerif.TieFnClientRep
open ModVerif.TieFnTile (toGen ofGen GTile)

/-! ### slices at the end of a prefix -/

theorem idxL_mid {α : Type} (l1 : List α) (x : α) (l2 : List α) : idxL (l1 ++ x :: l2) (l1.length : Int) = .ok x := by
  rw [idxL_natCast' (by simp)]
  simp

theorem setIdxL_mid {α : Type} (l1 : List α) (x y : α) (l2 : List α) :
    setIdxL (l1 ++ x :: l2) (l1.length : Int) y = .ok (l1 ++ y :: l2) := by
  rw [setIdxL_natCast (by simp)]
  simp

theorem lt_len_mid {α : Type} (l1 : List α) (x : α) (l2 : List α) :
    decide (((l1.length : Nat) : Int) < len (l1 ++ x :: l2)) = true := by
  simp [len]; omega

theorem not_lt_len_end {α : Type} (l1 : List α) : decide (((l1.length : Nat) : Int) < len l1) = false := by
  simp [len]

/-! ### results of the goroutines -/

/-- the `data` and `errs` slices of `ReadTiles` against the model's list of results -/
inductive RepL : List Bytes → List (Option String) → List (Except Client.Err Bytes) → Prop
  | nil : RepL [] [] []
  | cons {d e r ds es rs} : RepRes (d, e) r → RepL ds es rs → RepL (d :: ds) (e :: es) (r :: rs)

theorem RepL.length_d {ds es rs} (h : RepL ds es rs) : ds.length = rs.length := by
  induction h with
  | nil => rfl
  | cons _ _ ih => simp [ih]

theorem RepL.length_e {ds es rs} (h : RepL ds es rs) : es.length = rs.length := by
  induction h with
  | nil => rfl
  | cons _ _ ih => simp [ih]

/-- the first error in list order on both sides -/
theorem RepL.first {ds es rs} (h : RepL ds es rs) :
    match Client.firstError rs with
    | .ok ds' => ds' = ds ∧ es.find? (fun e => !e.isNone) = none
    | .error e => ∃ e', es.find? (fun e => !e.isNone) = some e' ∧ RepErr e' e := by
  induction h with
  | nil => exact ⟨rfl, rfl⟩
  | @cons d e r ds es rs hr _ ih =>
    cases r with
    | error x =>
      obtain ⟨s, hs, hx⟩ := hr
      simp only at hs
      subst hs
      exact ⟨some s, by simp [List.find?], s, rfl, hx⟩
    | ok d' =>
      obtain ⟨h1, h2⟩ := hr
      simp only at h1 h2
      subst h1 h2
      simp only [Client.firstError]
      cases hf : Client.firstError rs with
      | error x =>
        rw [hf] at ih
        obtain ⟨e', h1, h2⟩ := ih
        exact ⟨e', by simp only [List.find?_cons, Option.isNone_none, Bool.not_true]; exact h1, h2⟩
      | ok ds' =>
        rw [hf] at ih
        obtain ⟨h1, h2⟩ := ih
        subst h1
        exact ⟨rfl, by simp only [List.find?_cons, Option.isNone_none, Bool.not_true]; exact h2⟩

section
variable {σ H : Type} [DecidableEq H] [Inhabited H] {P : Client.Params H} {E : Client.Env σ}

/-! ### loop 1: the goroutines, in list order -/

theorem readTilesAll_length (E : Client.Env σ) : ∀ (tiles : List Tile.Tile) (w : Client.World σ H),
    (Client.readTilesAll E w tiles).1.length = tiles.length := by
  intro tiles
  induction tiles with
  | nil => intro w; rfl
  | cons t ts ih => intro w; simp [Client.readTilesAll, ih]

theorem readTiles_loop1 : ∀ (rest pre : List Tile.Tile) (dpre : List Bytes) (epre : List (Option String))
    (w : Client.World σ H) (cw : GW σ H) (fuel : Nat),
    (∀ t ∈ rest, TRange t) → dpre.length = pre.length → epre.length = pre.length → RepCore P E w cw →
    rest.length + 9 ≤ fuel →
    ∃ ds es cw', tileReader_ReadTiles_loop1 (envOf P E) ((pre ++ rest).map toGen) () fuel ((pre.length : Nat) : Int)
          (dpre ++ List.replicate rest.length []) (epre ++ List.replicate rest.length none) cw =
        .ok ((((pre.length + rest.length : Nat)) : Int), dpre ++ ds, epre ++ es, cw') ∧
      RepL ds es (Client.readTilesAll E w rest).1 ∧ RepCore P E (Client.readTilesAll E w rest).2 cw' ∧
      FrameG cw cw' ∧ FrameM w (Client.readTilesAll E w rest).2 := by
  intro rest
  induction rest with
  | nil =>
    intro pre dpre epre w cw fuel _ hd he hc hf
    obtain ⟨f, rfl⟩ : ∃ f, fuel = f + 1 := ⟨fuel - 1, by omega⟩
    refine ⟨[], [], cw, ?_, RepL.nil, hc, FrameG.refl _, FrameM.refl _⟩
    rw [tileReader_ReadTiles_loop1]
    have : decide (((pre.length : Nat) : Int) < len (List.map toGen (pre ++ []))) = false := by
      simp [len]
    rw [this]
    simp
  | cons t rest ih =>
    intro pre dpre epre w cw fuel hr hd he hc hf
    obtain ⟨f, rfl⟩ : ∃ f, fuel = f + 1 := ⟨fuel - 1, by simp at hf; omega⟩
    have hf' : rest.length + 9 ≤ f := by simp at hf; omega
    have ht : TRange t := hr t (by simp)
    rw [tileReader_ReadTiles_loop1]
    have hmap : (pre ++ t :: rest).map toGen = pre.map toGen ++ toGen t :: rest.map toGen := by simp
    have hlt : decide (((pre.length : Nat) : Int) < len (List.map toGen (pre ++ t :: rest))) = true := by
      rw [hmap]; have := lt_len_mid (pre.map toGen) (toGen t) (rest.map toGen); simpa using this
    rw [hlt, if_pos rfl]
    have hidx : idxL (List.map toGen (pre ++ t :: rest)) ((pre.length : Nat) : Int) = .ok (toGen t) := by
      rw [hmap]; have := idxL_mid (pre.map toGen) (toGen t) (rest.map toGen); simpa using this
    rw [hidx, mbind_ok]
    obtain ⟨p, cw1, h1, h2, h3, h4, h5⟩ := readTile_eq hc t ht f (by omega)
    simp only []
    rw [h1, mbind_ok]
    obtain ⟨a7, a8⟩ := p
    simp only []
    have hdata : setIdxL (dpre ++ List.replicate (t :: rest).length []) ((pre.length : Nat) : Int) a7 =
        .ok ((dpre ++ [a7]) ++ List.replicate rest.length []) := by
      rw [← hd]
      have := setIdxL_mid dpre ([] : Bytes) a7 (List.replicate rest.length [])
      simpa [List.replicate_succ] using this
    have herrs : setIdxL (epre ++ List.replicate (t :: rest).length none) ((pre.length : Nat) : Int) a8 =
        .ok ((epre ++ [a8]) ++ List.replicate rest.length none) := by
      rw [← he]
      have := setIdxL_mid epre (none : Option String) a8 (List.replicate rest.length none)
      simpa [List.replicate_succ] using this
    rw [hdata, mbind_ok, herrs, mbind_ok]
    have hidx1 : ((pre.length : Nat) : Int) + 1 = (((pre ++ [t]).length : Nat) : Int) := by simp
    have htl : pre ++ t :: rest = (pre ++ [t]) ++ rest := by simp
    rw [hidx1, htl]
    obtain ⟨ds, es, cw2, g1, g2, g3, g4, g5⟩ := ih (pre ++ [t]) (dpre ++ [a7]) (epre ++ [a8]) (Client.readTile E w t).2 cw1 f
      (fun u hu => hr u (by simp [hu])) (by simp [hd]) (by simp [he]) h2 hf'
    refine ⟨a7 :: ds, a8 :: es, cw2, ?_, ?_, g3, h4.trans g4, h5.trans g5⟩
    · rw [g1]
      simp [Nat.add_assoc, Nat.add_comm 1]
    · exact RepL.cons h3 g2

/-! ### loop 2: the first error -/

theorem readTiles_loop2 (cw : GW σ H) : ∀ (es epre : List (Option String)) (fuel : Nat), es.length + 1 ≤ fuel →
    tileReader_ReadTiles_loop2 (envOf P E) (epre ++ es) cw fuel ((epre.length : Nat) : Int) =
      .ok (match es.find? (fun e => !e.isNone) with
        | some e => Ctl.ret ((([] : List Bytes), e), cw)
        | none => Ctl.next (((epre.length + es.length : Nat)) : Int)) := by
  intro es
  induction es with
  | nil =>
    intro epre fuel hf
    obtain ⟨f, rfl⟩ : ∃ f, fuel = f + 1 := ⟨fuel - 1, by omega⟩
    rw [tileReader_ReadTiles_loop2]
    have : decide (((epre.length : Nat) : Int) < len (epre ++ [])) = false := by simp [len]
    rw [this]
    simp
  | cons e es ih =>
    intro epre fuel hf
    obtain ⟨f, rfl⟩ : ∃ f, fuel = f + 1 := ⟨fuel - 1, by simp at hf; omega⟩
    rw [tileReader_ReadTiles_loop2, lt_len_mid, if_pos rfl, idxL_mid, mbind_ok]
    cases e with
    | some s =>
      simp [List.find?]
    | none =>
      have h1 : ((epre.length : Nat) : Int) + 1 = (((epre ++ [none]).length : Nat) : Int) := by simp
      have h2 : epre ++ none :: es = (epre ++ [none]) ++ es := by simp
      simp only [Option.isNone_none, Bool.not_true, Bool.false_eq_true, if_false]
      rw [h1, h2, ih (epre ++ [none]) f (by simp at hf; omega)]
      simp [List.find?, Nat.add_assoc, Nat.add_comm 1]

/-! ### ReadTiles -/

/-- `tileReader_ReadTiles` = `readTiles` -/
theorem ReadTiles_eq {w : Client.World σ H} {cw : GW σ H} (hc : RepCore P E w cw) (tiles : List Tile.Tile)
    (hr : ∀ t ∈ tiles, TRange t) (fuel : Nat) (hf : tiles.length + 9 ≤ fuel) :
    ∃ p cw', tileReader_ReadTiles (envOf P E) fuel (tiles.map toGen) cw = .ok (p, cw') ∧
      RepCore P E (Client.readTiles E w tiles).2 cw' ∧ RepRes p (Client.readTiles E w tiles).1 ∧
      FrameG cw cw' ∧ FrameM w (Client.readTiles E w tiles).2 := by
  unfold tileReader_ReadTiles Client.readTiles
  have hlen : len (List.map toGen tiles) = ((tiles.length : Nat) : Int) := by simp [len]
  rw [hlen, makeList_natCast, mbind_ok, makeList_natCast, mbind_ok]
  obtain ⟨ds, es, cw', h1, h2, h3, h4, h5⟩ := readTiles_loop1 (P := P) (E := E) tiles [] [] [] w cw fuel hr rfl rfl hc hf
  simp only [List.nil_append, List.length_nil, Nat.zero_add] at h1
  have h0 : (0 : Int) = ((0 : Nat) : Int) := rfl
  simp only []
  rw [h0, h1, mbind_ok]
  simp only []
  have hl2 := readTiles_loop2 (P := P) (E := E) cw' es [] fuel (by rw [h2.length_e, readTilesAll_length]; omega)
  simp only [List.nil_append, List.length_nil, Nat.zero_add] at hl2
  rw [hl2, mbind_ok]
  have hfirst := h2.first
  cases hfe : Client.firstError (Client.readTilesAll E w tiles).1 with
  | ok ds' =>
    rw [hfe] at hfirst
    obtain ⟨e1, e2⟩ := hfirst
    subst e1
    rw [e2]
    exact ⟨_, _, rfl, h3, ⟨rfl, rfl⟩, h4, h5⟩
  | error e =>
    rw [hfe] at hfirst
    obtain ⟨e', e1, e2⟩ := hfirst
    rw [e1]
    exact ⟨_, _, rfl, h3, e2, h4, h5⟩

end
end ModVerif.TieFnClientTiles
