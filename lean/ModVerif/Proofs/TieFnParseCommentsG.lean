/-
  Helper lemmas for Tie/FnParseComments.lean, part G: the node lists of `input.order` (pointer side, part B) are the
  node lists of the model tree (part D); a well-formed graph has no node twice.
-/
import ModVerif.Proofs.TieFnParseCommentsF
set_option linter.unusedSimpArgs false
set_option linter.unusedVariables false
namespace ModVerif.TieFnParseComments
open ModVerif ModVerif.GoRt ModVerif.Generated ModVerif.Generated.Parse ModVerif.Tie.FnParseHeap

theorem blockLines_eq {h : Heap} {p : Int} {b : Modfile.LineBlock} {ps : List Int}
    (hb : heapGet h.blocks p = .ok (blockG b ps)) : blockLines h p = ps := by
  simp [blockLines, hb, blockG]

theorem preStmtPtrs_eq {h : Heap} {e : Expr} {s : Modfile.Expr} (hr : RExpr h e s) :
    preStmtPtrs h e = stmtNodes .pre e s := by
  cases e <;> cases s <;> simp only [RExpr] at hr <;> try rfl
  obtain ⟨ps, hb, hl⟩ := hr
  simp only [preStmtPtrs, stmtNodes, blockLines_eq hb, RLines_lineNodes hl]

theorem postStmtPtrs_eq {h : Heap} {e : Expr} {s : Modfile.Expr} (hr : RExpr h e s) :
    postStmtPtrs h e = stmtNodes .post e s := by
  cases e <;> cases s <;> simp only [RExpr] at hr <;> try rfl
  obtain ⟨ps, hb, hl⟩ := hr
  simp only [postStmtPtrs, stmtNodes, blockLines_eq hb, RLines_lineNodes hl]

theorem flatMap_pre_eq {h : Heap} : ∀ {es : List Expr} {ss : List Modfile.Expr}, RStmts h es ss →
    es.flatMap (preStmtPtrs h) = stmtsNodes .pre es ss
  | [], [], _ => rfl
  | e :: es, s :: ss, hr => by
    simp only [RStmts_cons] at hr
    simp only [List.flatMap_cons, stmtsNodes, preStmtPtrs_eq hr.1, flatMap_pre_eq hr.2]
  | [], _ :: _, hr => by simp at hr
  | _ :: _, [], hr => by simp at hr

theorem flatMap_post_eq {h : Heap} : ∀ {es : List Expr} {ss : List Modfile.Expr}, RStmts h es ss →
    es.flatMap (postStmtPtrs h) = stmtsNodes .post es ss
  | [], [], _ => rfl
  | e :: es, s :: ss, hr => by
    simp only [RStmts_cons] at hr
    simp only [List.flatMap_cons, stmtsNodes, postStmtPtrs_eq hr.1, flatMap_post_eq hr.2]
  | [], _ :: _, hr => by simp at hr
  | _ :: _, [], hr => by simp at hr

theorem stmtNodes_post_reverse (e : Expr) (s : Modfile.Expr) : (stmtNodes .post e s).reverse = stmtNodes .rpost e s := by
  cases e <;> cases s <;> try rfl
  simp [stmtNodes, lineNodes_reverse]

theorem stmtsNodes_post_reverse : ∀ (es : List Expr) (ss : List Modfile.Expr), es.length = ss.length →
    (stmtsNodes .post es ss).reverse = stmtsNodes .rpost es.reverse ss.reverse
  | [], [], _ => rfl
  | e :: es, s :: ss, hl => by
    simp only [stmtsNodes, List.reverse_append, List.reverse_cons]
    rw [stmtsNodes_append _ _ _ _ _ (by simpa using hl), stmtsNodes_single,
      stmtsNodes_post_reverse es ss (by simpa using hl), stmtNodes_post_reverse]
  | [], _ :: _, hl => by simp at hl
  | _ :: _, [], hl => by simp at hl

theorem stmtsNodes_trav (o' o : Ord) (F : NodeF) : ∀ (es : List Expr) (ss : List Modfile.Expr) (st : List Modfile.Comment),
    stmtsNodes o' es (travStmts o F ss st).1 = stmtsNodes o' es ss
  | [], _, _ => by simp [stmtsNodes]
  | _ :: _, [], _ => by simp [stmtsNodes, travStmts]
  | e :: es, s :: ss, st => by
    simp only [travStmts, stmtsNodes, stmtNodes_travStmt, stmtsNodes_trav o' o F es ss]

theorem stmtsNodes_length (o : Ord) : ∀ (es : List Expr) (ss : List Modfile.Expr),
    (stmtsNodes o es ss).length = (stmtsNodes .pre es ss).length
  | [], _ => by simp [stmtsNodes]
  | _ :: _, [] => by simp [stmtsNodes]
  | e :: es, s :: ss => by
    simp only [stmtsNodes, List.length_append, stmtsNodes_length o es ss]
    congr 1
    cases e <;> cases s <;> try rfl
    cases o <;> simp [stmtNodes, lineNodes]

theorem stmtsNodes_length_le {h : Heap} : ∀ {es : List Expr} {ss : List Modfile.Expr}, RStmts h es ss →
    (stmtsNodes .pre es ss).length = nodeCount ss
  | [], [], _ => rfl
  | e :: es, s :: ss, hr => by
    simp only [RStmts_cons] at hr
    obtain ⟨hr1, hr2⟩ := hr
    have ih := stmtsNodes_length_le hr2
    cases e <;> cases s <;> simp only [RExpr] at hr1 <;>
      simp [stmtsNodes, stmtNodes, nodeCount, ih, lineNodes] <;> omega
  | [], _ :: _, hr => by simp at hr
  | _ :: _, [], hr => by simp at hr

/-! ### no node twice -/

/-- where the nodes of a statement list come from -/
theorem mem_stmtsNodes_pre {h : Heap} : ∀ {es : List Expr} {ss : List Modfile.Expr}, RStmts h es ss →
    ∀ x, x ∈ stmtsNodes .pre es ss →
      (∃ q, x = .Line q ∧ q ∈ linePtrs h es) ∨
      (∃ q, (x = .LineBlock q ∨ x = .LParen q ∨ x = .RParen q) ∧ q ∈ blockPtrs es) ∨
      (∃ q, x = .CommentBlock q ∧ q ∈ cbPtrs es)
  | [], [], _, x, hx => by simp [stmtsNodes] at hx
  | [], _ :: _, hr, _, _ => by simp at hr
  | _ :: _, [], hr, _, _ => by simp at hr
  | e :: es, s :: ss, hr, x, hx => by
    simp only [RStmts_cons] at hr
    obtain ⟨hr, hrest⟩ := hr
    simp only [stmtsNodes, List.mem_append] at hx
    have ih := mem_stmtsNodes_pre hrest x
    cases e <;> cases s <;> simp only [RExpr] at hr
    · rename_i p c
      simp only [stmtNodes, List.mem_singleton] at hx
      rcases hx with rfl | hx
      · exact Or.inr (Or.inr ⟨p, rfl, by simp [cbPtrs]⟩)
      · rcases ih hx with ⟨q, h1, h2⟩ | ⟨q, h1, h2⟩ | ⟨q, h1, h2⟩
        · exact Or.inl ⟨q, h1, by simpa [linePtrs] using h2⟩
        · exact Or.inr (Or.inl ⟨q, h1, by simpa [blockPtrs] using h2⟩)
        · exact Or.inr (Or.inr ⟨q, h1, by simp [cbPtrs, h2]⟩)
    · rename_i p l
      simp only [stmtNodes, List.mem_singleton] at hx
      rcases hx with rfl | hx
      · exact Or.inl ⟨p, rfl, by simp [linePtrs]⟩
      · rcases ih hx with ⟨q, h1, h2⟩ | ⟨q, h1, h2⟩ | ⟨q, h1, h2⟩
        · exact Or.inl ⟨q, h1, by simp [linePtrs, h2]⟩
        · exact Or.inr (Or.inl ⟨q, h1, by simpa [blockPtrs] using h2⟩)
        · exact Or.inr (Or.inr ⟨q, h1, by simpa [cbPtrs] using h2⟩)
    · rename_i p b
      obtain ⟨ps, hb, hl⟩ := hr
      simp only [stmtNodes, RLines_lineNodes hl, List.mem_cons, List.mem_append, List.mem_map, List.mem_nil_iff,
        or_false] at hx
      rcases hx with (rfl | rfl | ⟨q, hq, rfl⟩ | rfl) | hx
      · exact Or.inr (Or.inl ⟨p, Or.inl rfl, by simp [blockPtrs]⟩)
      · exact Or.inr (Or.inl ⟨p, Or.inr (Or.inl rfl), by simp [blockPtrs]⟩)
      · exact Or.inl ⟨q, rfl, by simp [linePtrs, blockLines_eq hb, hq]⟩
      · exact Or.inr (Or.inl ⟨p, Or.inr (Or.inr rfl), by simp [blockPtrs]⟩)
      · rcases ih hx with ⟨q, h1, h2⟩ | ⟨q, h1, h2⟩ | ⟨q, h1, h2⟩
        · exact Or.inl ⟨q, h1, by simp [linePtrs, h2]⟩
        · exact Or.inr (Or.inl ⟨q, h1, by simp [blockPtrs, h2]⟩)
        · exact Or.inr (Or.inr ⟨q, h1, by simpa [cbPtrs] using h2⟩)

theorem nodup_map_Line {ps : List Int} (h : ps.Nodup) : (ps.map Expr.Line).Nodup := by
  unfold List.Nodup at *
  rw [List.pairwise_map]
  exact h.imp (fun hab e => hab (by injection e))

theorem nodup_blockNodes (p : Int) {ps : List Int} (hps : ps.Nodup) :
    (Expr.LineBlock p :: Expr.LParen p :: (ps.map Expr.Line ++ [Expr.RParen p])).Nodup := by
  have := nodup_map_Line hps
  simp [List.nodup_append, this]

/-- distinct pointers ⇒ distinct nodes -/
theorem nodup_stmtsNodes {h : Heap} : ∀ {es : List Expr} {ss : List Modfile.Expr}, RStmts h es ss →
    (linePtrs h es).Nodup → (blockPtrs es).Nodup → (cbPtrs es).Nodup → (stmtsNodes .pre es ss).Nodup
  | [], [], _, _, _, _ => by simp [stmtsNodes]
  | [], _ :: _, hr, _, _, _ => by simp at hr
  | _ :: _, [], hr, _, _, _ => by simp at hr
  | e :: es, s :: ss, hr, h1, h2, h3 => by
    simp only [RStmts_cons] at hr
    obtain ⟨hr, hrest⟩ := hr
    have hm := mem_stmtsNodes_pre hrest
    simp only [stmtsNodes]
    cases e <;> cases s <;> simp only [RExpr] at hr
    · rename_i p c
      simp only [cbPtrs, List.nodup_cons] at h3
      simp only [linePtrs] at h1
      simp only [blockPtrs] at h2
      have ih := nodup_stmtsNodes hrest h1 h2 h3.2
      simp only [stmtNodes, List.singleton_append, List.nodup_cons]
      refine ⟨?_, ih⟩
      intro hx
      rcases hm _ hx with ⟨q, e1, _⟩ | ⟨q, e1, _⟩ | ⟨q, e1, hq⟩
      · cases e1
      · rcases e1 with e1 | e1 | e1 <;> cases e1
      · cases e1; exact h3.1 hq
    · rename_i p l
      simp only [linePtrs, List.nodup_cons] at h1
      simp only [blockPtrs] at h2
      simp only [cbPtrs] at h3
      have ih := nodup_stmtsNodes hrest h1.2 h2 h3
      simp only [stmtNodes, List.singleton_append, List.nodup_cons]
      refine ⟨?_, ih⟩
      intro hx
      rcases hm _ hx with ⟨q, e1, hq⟩ | ⟨q, e1, _⟩ | ⟨q, e1, _⟩
      · cases e1; exact h1.1 hq
      · rcases e1 with e1 | e1 | e1 <;> cases e1
      · cases e1
    · rename_i p b
      obtain ⟨ps, hb, hl⟩ := hr
      simp only [linePtrs, blockLines_eq hb] at h1
      simp only [blockPtrs, List.nodup_cons] at h2
      simp only [cbPtrs] at h3
      obtain ⟨hps, hrestl, hdis⟩ := List.nodup_append.1 h1
      have ih := nodup_stmtsNodes hrest hrestl h2.2 h3
      refine List.nodup_append.2 ⟨?_, ih, ?_⟩
      · simp only [stmtNodes, RLines_lineNodes hl]
        exact nodup_blockNodes p hps
      · intro a ha b' hb' e
        subst e
        simp only [stmtNodes, RLines_lineNodes hl, List.mem_cons, List.mem_append, List.mem_map, List.mem_nil_iff,
          or_false] at ha
        rcases hm _ hb' with ⟨q, e1, hq⟩ | ⟨q, e1, hq⟩ | ⟨q, e1, hq⟩
        · subst e1
          rcases ha with ha | ha | ⟨q', hq', ha⟩ | ha
          · cases ha
          · cases ha
          · cases ha; exact hdis q hq' q hq rfl
          · cases ha
        · rcases ha with ha | ha | ⟨q', hq', ha⟩ | ha
          · subst ha; rcases e1 with e1 | e1 | e1 <;> cases e1; exact h2.1 hq
          · subst ha; rcases e1 with e1 | e1 | e1 <;> cases e1; exact h2.1 hq
          · subst ha; rcases e1 with e1 | e1 | e1 <;> cases e1
          · subst ha; rcases e1 with e1 | e1 | e1 <;> cases e1; exact h2.1 hq
        · subst e1
          rcases ha with ha | ha | ⟨q', hq', ha⟩ | ha <;> cases ha


/-! ### the node lists depend on the tree only through the block / line structure -/

/-- what `stmtNodes` looks at -/
def shp : Modfile.Expr → Option (List Expr)
  | .lineBlock b => some (lineNodes b.lines)
  | _ => none

theorem stmtNodes_congr (o : Ord) (e : Expr) {s s' : Modfile.Expr} (hs : shp s = shp s') :
    stmtNodes o e s = stmtNodes o e s' := by
  cases s <;> cases s' <;> simp only [shp, Option.some.injEq] at hs <;> try (cases e <;> rfl)
  · cases hs
  · cases hs
  · cases hs
  · cases hs
  · cases e <;> try rfl
    cases o <;> simp only [stmtNodes, lineNodes_reverse, hs]
  all_goals cases hs

theorem stmtsNodes_congr (o : Ord) : ∀ (es : List Expr) {ss ss' : List Modfile.Expr}, ss.map shp = ss'.map shp →
    stmtsNodes o es ss = stmtsNodes o es ss'
  | [], _, _, _ => by simp [stmtsNodes]
  | e :: es, [], [], _ => rfl
  | e :: es, [], _ :: _, h => by simp at h
  | e :: es, _ :: _, [], h => by simp at h
  | e :: es, s :: ss, s' :: ss', h => by
    simp only [List.map_cons, List.cons.injEq] at h
    simp only [stmtsNodes, stmtNodes_congr o e h.1, stmtsNodes_congr o es h.2]

theorem shp_travStmt (o : Ord) (F : NodeF) (s : Modfile.Expr) (st : List Modfile.Comment) :
    shp (travStmt o F s st).1 = shp s := by
  cases s <;> try rfl
  cases o <;> simp only [travStmt, shp, lineNodes_travLines]
  rw [lineNodes_reverse, lineNodes_travLines, lineNodes_reverse, List.reverse_reverse]

theorem map_shp_travStmts (o : Ord) (F : NodeF) : ∀ (ss : List Modfile.Expr) (st : List Modfile.Comment),
    (travStmts o F ss st).1.map shp = ss.map shp
  | [], _ => rfl
  | s :: ss, st => by
    simp only [travStmts, List.map_cons, shp_travStmt, map_shp_travStmts o F ss]

theorem map_shp_rev3 (ss : List Modfile.Expr) : (ss.map rev3).map shp = ss.map shp := by
  induction ss with
  | nil => rfl
  | cons s ss ih =>
    simp only [List.map_cons, ih]
    congr 1
    cases s <;> try rfl
    simp [rev3, shp, lineNodes, rev3Line, linePtr]

end ModVerif.TieFnParseComments
