import ModVerif.Spec.ZipSpec
namespace ModVerif.Proofs.Zip
open ModVerif ModVerif.PathClean ModVerif.Zip ModVerif.ZipSpec

/-- two states agree on the lists that matter for the report -/
structure SameLists (a b : St) : Prop where
  valid : a.cf.valid = b.cf.valid
  omitted : a.cf.omitted = b.cf.omitted
  invalid : a.cf.invalid = b.cf.invalid
  errPaths : a.errPaths = b.errPaths
  validFiles : a.validFiles = b.validFiles

theorem SameLists.rfl' (s : St) : SameLists s s := ⟨rfl, rfl, rfl, rfl, rfl⟩

theorem sameLists_account (s : St) (n : Int) : SameLists (s.account n) s := by
  unfold St.account; split <;> exact ⟨rfl, rfl, rfl, rfl, rfl⟩

theorem sameLists_setCC (s : St) (cc : CC) : SameLists (s.setCC cc) s := ⟨rfl, rfl, rfl, rfl, rfl⟩

/-- shape of one step of the second loop: a (de-duplicated) error report for the file's path, or the
    file is regular and becomes valid. -/
inductive StepShape (s : St) (f : FileInfo) : St → Prop
  | err (s0 : St) (h : SameLists s0 s) (om : Bool) (r : Reason) : StepShape s f (s0.addError f.path om r)
  | valid (s0 : St) (h : SameLists s0 s) (hreg : f.mode = .regular) : StepShape s f (s0.pushValid f)

theorem stepSized_shape (s s1 : St) (h : SameLists s s1) (f : FileInfo) (hreg : f.mode = .regular) :
    StepShape s1 f (stepSized s f) := by
  have h' : SameLists (s.account f.size) s1 := by
    have := sameLists_account s f.size
    exact ⟨this.1.trans h.1, this.2.trans h.2, this.3.trans h.3, this.4.trans h.4, this.5.trans h.5⟩
  unfold stepSized
  split
  · exact .err _ h' _ _
  split
  · exact .err _ h' _ _
  · exact .valid _ h' hreg

theorem stepMode_shape (s s1 : St) (h : SameLists s s1) (f : FileInfo) :
    StepShape s1 f (stepMode s f) := by
  unfold stepMode
  split
  · exact .err _ h _ _
  split
  · exact .err _ h _ _
  · rename_i _ hnr
    exact stepSized_shape s s1 h f (by simpa using hnr)

theorem stepStat_shape (E : Env) (s : St) (f : FileInfo) : StepShape s f (stepStat E s f) := by
  unfold stepStat
  split
  · exact .err _ (SameLists.rfl' s) _ _
  split
  · exact .err _ (sameLists_setCC s _) _ _
  · exact stepMode_shape _ s (sameLists_setCC s _) f

theorem stepFile_shape (E : Env) (ge124 : Bool) (h : List Bytes) (s : St) (f : FileInfo) :
    StepShape s f (stepFile E ge124 h s f) := by
  unfold stepFile
  repeat' split
  all_goals first
    | exact .err _ (SameLists.rfl' s) _ _
    | exact stepStat_shape E s f

end ModVerif.Proofs.Zip
