/-
  Pure pieces of the tie of `Client.Lookup` (Generated/FnClient.lean) against the hand model (Model/Client.lean):
  the prefix filter over the response lines (`Client_Lookup_loop2` = `filterLines`), the `/go.mod` trimming, the byte
  literals of the generated code as the model's `B "…"` strings.  No world, no environment.
-/
import ModVerif.Generated.FnClient
import ModVerif.Model.Client
import ModVerif.Proofs.GoRtLemmas
import ModVerif.Proofs.GoRtLemmasTile
namespace ModVerif.TieFnClientLookup
open ModVerif ModVerif.GoRt ModVerif.GoRtTile ModVerif.Generated.SumdbClient

/-! ### byte literals -/

theorem lit_key : ([107, 101, 121] : Bytes) = B "key" := by decide +kernel
theorem lit_latest : ([47, 108, 97, 116, 101, 115, 116] : Bytes) = B "/latest" := by decide +kernel
theorem lit_lookup : ([47, 108, 111, 111, 107, 117, 112, 47] : Bytes) = B "/lookup/" := by decide +kernel
theorem lit_gomod : ([47, 103, 111, 46, 109, 111, 100] : Bytes) = B "/go.mod" := by decide +kernel

/-- `strings.TrimSuffix(vers, "/go.mod")` -/
theorem trimSuffix_gomod (vers : Bytes) :
    trimSuffix vers ([47, 103, 111, 46, 109, 111, 100] : Bytes) = Client.trimGoMod vers := by
  rw [lit_gomod]; rfl

/-- `name + "/latest"` -/
theorem latestFile_eq (name : Bytes) :
    name ++ ([47, 108, 97, 116, 101, 115, 116] : Bytes) = Client.latestFile name := by
  rw [lit_latest]; rfl

/-- the remote path of a lookup, in the model's bracketing -/
theorem remotePath_eq (epath evers : Bytes) :
    ((([47, 108, 111, 111, 107, 117, 112, 47] : Bytes) ++ epath) ++ ([64] : Bytes)) ++ evers =
      B "/lookup/" ++ epath ++ [64] ++ evers := by
  rw [lit_lookup]

/-- the line prefix `path + " " + vers + " "`, in the model's bracketing -/
theorem prefix_eq (path vers : Bytes) :
    ((path ++ ([32] : Bytes)) ++ vers) ++ ([32] : Bytes) = path ++ [32] ++ vers ++ [32] := rfl

/-! ### the filter loop -/

theorem splitOn_length_le (sep : UInt8) : ∀ p : Bytes, (splitOn sep p).length ≤ p.length + 1
  | [] => by simp [splitOn]
  | c :: rest => by
    have ih := splitOn_length_le sep rest
    unfold splitOn
    split
    · simp; omega
    · split
      · simp
      · rename_i s ss h
        rw [h] at ih
        simp at ih ⊢; omega

section
variable {σ H : Type} [DecidableEq H] [Inhabited H]

/-- loop 2 of `Lookup`: from position `k` with accumulator `acc`, the loop appends the remaining lines that have the
    prefix -/
theorem loop2_spec (E : ClientEnv σ H) (rx : List Bytes) (result : Cached) (pre : Bytes) (world : CW σ H) :
    ∀ (fuel k : Nat) (acc : List Bytes), k ≤ rx.length → rx.length - k < fuel →
      Client_Lookup_loop2 E rx result pre world fuel (k : Int) acc =
        .ok (len rx, acc ++ (rx.drop k).filter (fun line => isPrefixOfB pre line)) := by
  intro fuel
  induction fuel with
  | zero => intro k acc _ hf; omega
  | succ f ih =>
    intro k acc hk hf
    unfold Client_Lookup_loop2
    by_cases hlt : k < rx.length
    · have hc : decide ((k : Int) < len rx) = true := by simp [len_eq]; omega
      rw [hc]
      simp only [if_true]
      rw [GoRt.idxL_natCast (h := hlt)]
      simp only [bind, Except.bind]
      have hd : rx.drop k = rx[k] :: rx.drop (k + 1) := (List.drop_eq_getElem_cons hlt)
      have hcast : ((k : Int) + 1) = ((k + 1 : Nat) : Int) := by omega
      by_cases hp : hasPrefix rx[k] pre = true
      · rw [if_pos hp, hcast, ih (k + 1) _ (by omega) (by omega), hd]
        have hp' : isPrefixOfB pre rx[k] = true := hp
        rw [List.filter_cons, if_pos hp']; simp
      · rw [if_neg hp, hcast, ih (k + 1) _ (by omega) (by omega), hd]
        have hp' : ¬ isPrefixOfB pre rx[k] = true := hp
        rw [List.filter_cons, if_neg hp']
    · have hc : decide ((k : Int) < len rx) = false := by simp [len_eq]; omega
      rw [hc]
      have hke : k = rx.length := by omega
      subst hke
      simp [pure, Except.pure, len_eq]

/-- the whole filter: `strings.Split(data, "\n")` then the loop = the model's `filterLines` -/
theorem loop2_filterLines (E : ClientEnv σ H) (result : Cached) (pre data : Bytes) (world : CW σ H) (fuel : Nat)
    (hf : data.length + 2 ≤ fuel) :
    Client_Lookup_loop2 E (split data ([10] : Bytes)) result pre world fuel (0 : Int) ([] : List Bytes) =
      .ok (len (split data ([10] : Bytes)), Client.filterLines pre data) := by
  have hlen : (split data ([10] : Bytes)).length ≤ data.length + 1 := by
    rw [split_single]
    exact splitOn_length_le 10 data
  have := loop2_spec E (split data ([10] : Bytes)) result pre world fuel 0 [] (by omega) (by omega)
  simp only [Int.natCast_zero, List.drop_zero, List.nil_append] at this
  rw [this]
  simp only [split_single]
  rfl
end

end ModVerif.TieFnClientLookup
