import ModVerif.Proofs.TieFnModuleChar
namespace ModVerif.TieFnModule
open ModVerif ModVerif.GoRt ModVerif.GoRtStr

theorem drop_length_nil {α : Type} (s : List α) : s.drop s.length = [] := by simp

theorem checkElem_loop1_spec (ef : Bytes → Bytes → Bool) (il : Int → Bool) (elem : Bytes) (kind : Module.Kind) :
    ∀ (fuel k : Nat), k ≤ elem.length → elem.length - k < fuel →
    Generated.Module.checkElem_loop1 ef il elem (kindInt kind) fuel (k : Int) =
      .ok (if (Utf8.runes (elem.drop k)).all (Module.charOK (natLetter il) kind) = true
           then Ctl.next (len elem) else Ctl.ret (some "invalid char %q")) := by
  intro fuel
  induction fuel with
  | zero => intro k _ h; omega
  | succ f ih =>
    intro k hk hf
    unfold Generated.Module.checkElem_loop1
    by_cases hlt : k < elem.length
    · obtain ⟨r, w, hdec, hw1, hw2, hrunes, _⟩ := range_step elem k hlt
      have hlt' : (k : Int) < len elem := by simp [len_eq]; omega
      have hrec := ih (k + w) hw2 (by omega)
      simp only [hlt', decide_true, if_true, hdec, hrunes, List.all_cons]
      have hkw : (k : Int) + (w : Int) = ((k + w : Nat) : Int) := by simp
      cases kind
      · simp only [kindInt] at hrec ⊢
        simp only [modPathOK_nat, Module.charOK, hkw, hrec] at hrec ⊢
        by_cases hp : Module.modPathOK r = true <;> simp [hp]
      · simp only [kindInt] at hrec ⊢
        simp only [importPathOK_nat, Module.charOK, hkw, hrec] at hrec ⊢
        by_cases hp : Module.importPathOK r = true <;> simp [hp]
      · simp only [kindInt] at hrec ⊢
        simp only [fileNameOK_nat, Module.charOK, hkw, hrec] at hrec ⊢
        by_cases hp : Module.fileNameOK (natLetter il) r = true <;> simp [hp]
    · have hk' : k = elem.length := by omega
      have hlt' : ¬ ((k : Int) < len elem) := by simp [len_eq]; omega
      subst hk'
      simp [Utf8.runes, Utf8.runesAux, len_eq]


theorem checkElem_loop2_spec (ef : Bytes → Bytes → Bool) (il : Int → Bool) (short : Bytes) :
    ∀ (fuel k : Nat), k ≤ Generated.module_badWindowsNames.length →
      Generated.module_badWindowsNames.length - k < fuel →
    Generated.Module.checkElem_loop2 ef il short fuel (k : Int) =
      .ok (if (Generated.module_badWindowsNames.drop k).any (ef · short) = true
           then Ctl.ret (some "%q disallowed as path element component on Windows")
           else Ctl.next (len Generated.module_badWindowsNames)) := by
  intro fuel
  induction fuel with
  | zero => intro k _ h; omega
  | succ f ih =>
    intro k hk hf
    unfold Generated.Module.checkElem_loop2
    by_cases hlt : k < Generated.module_badWindowsNames.length
    · have hlt' : (k : Int) < len Generated.module_badWindowsNames := by simp only [len_eq]; omega
      have hrec := ih (k + 1) hlt (by omega)
      have hkw : (k : Int) + 1 = ((k + 1 : Nat) : Int) := by simp
      rw [List.drop_eq_getElem_cons hlt]
      simp only [hlt', decide_true, if_true, idxL_natCast hlt, bind_ok, hkw, hrec, List.any_cons]
      by_cases hp : ef Generated.module_badWindowsNames[k] short = true <;> simp [hp]
    · have hk' : k = Generated.module_badWindowsNames.length := by omega
      have hlt' : ¬ ((k : Int) < len Generated.module_badWindowsNames) := by simp only [len_eq]; omega
      subst hk'
      simp [len_eq]

def isDigitRune (r : Nat) : Bool := 48 ≤ r && r ≤ 57

theorem checkElem_loop3_spec (ef : Bytes → Bytes → Bool) (il : Int → Bool) (suffix : Bytes) (flag : Bool) :
    ∀ (fuel k : Nat), k ≤ suffix.length → suffix.length - k < fuel →
    ∃ j : Int, Generated.Module.checkElem_loop3 ef il suffix fuel (k : Int) flag =
      .ok (j, flag && (Utf8.runes (suffix.drop k)).all isDigitRune) := by
  intro fuel
  induction fuel with
  | zero => intro k _ h; omega
  | succ f ih =>
    intro k hk hf
    unfold Generated.Module.checkElem_loop3
    by_cases hlt : k < suffix.length
    · obtain ⟨r, w, hdec, hw1, hw2, hrunes, _⟩ := range_step suffix k hlt
      have hlt' : (k : Int) < len suffix := by simp [len_eq]; omega
      obtain ⟨j, hrec⟩ := ih (k + w) hw2 (by omega)
      have hkw : (k : Int) + (w : Int) = ((k + w : Nat) : Int) := by simp
      simp only [hlt', decide_true, if_true, hdec, hrunes, List.all_cons, hkw, hrec]
      by_cases hp : isDigitRune r = true
      · have h1 : ¬ ((r : Int) < 48) := by simp [isDigitRune] at hp; omega
        have h2 : ¬ ((r : Int) > 57) := by simp [isDigitRune] at hp; omega
        exact ⟨j, by simp [h1, h2, hp]⟩
      · have h1 : ((r : Int) < 48) ∨ ((r : Int) > 57) := by simp [isDigitRune] at hp; omega
        refine ⟨(k : Int), ?_⟩
        have hp' : isDigitRune r = false := by simpa using hp
        rcases h1 with h1 | h1 <;> simp [h1, hp']
    · have hk' : k = suffix.length := by omega
      have hlt' : ¬ ((k : Int) < len suffix) := by simp [len_eq]; omega
      subst hk'
      exact ⟨(suffix.length : Int), by simp [len_eq, Utf8.runes, Utf8.runesAux]⟩

end ModVerif.TieFnModule
