/-
  Tie proofs for the regenerated module.go functions, part 2: checkElem (its three loops and the function).
  `for _, r := range elem` is a fuel loop over byte offsets; `GoRtStr.range_step` links it to `Utf8.runes`.
-/
import ModVerif.Proofs.TieFnModuleChar
import ModVerif.Proofs.ModuleUtf8
import ModVerif.Tie.Module
namespace ModVerif.TieFnModule
open ModVerif ModVerif.GoRt ModVerif.GoRtStr

theorem drop_length_nil {α : Type} (s : List α) : s.drop s.length = [] := by simp

theorem checkElem_loop1_spec (ef : Bytes → Bytes → Bool) (il : Int → Bool) (elem : Bytes) (kind : Module.Kind) :
    ∀ (fuel k : Nat), k ≤ elem.length → elem.length - k < fuel →
    Generated.Module.checkElem_loop1 ef il elem (kindInt kind) fuel (k : Int) =
      .ok (if (Utf8.runes (elem.drop k)).all (Module.charOK (natLetter il) kind) = true
           then Ctl.next (len elem) else Ctl.ret (some "invalid char %q")) := by
  intro fuel
  induction fuel with
  | zero => intro k _ h; omega
  | succ f ih =>
    intro k hk hf
    unfold Generated.Module.checkElem_loop1
    by_cases hlt : k < elem.length
    · obtain ⟨r, w, hdec, hw1, hw2, hrunes, _⟩ := range_step elem k hlt
      have hlt' : (k : Int) < len elem := by simp [len_eq]; omega
      have hrec := ih (k + w) hw2 (by omega)
      simp only [hlt', decide_true, if_true, hdec, hrunes, List.all_cons]
      have hkw : (k : Int) + (w : Int) = ((k + w : Nat) : Int) := by simp
      cases kind
      · simp only [kindInt] at hrec ⊢
        simp only [modPathOK_nat, Module.charOK, hkw, hrec] at hrec ⊢
        by_cases hp : Module.modPathOK r = true <;> simp [hp]
      · simp only [kindInt] at hrec ⊢
        simp only [importPathOK_nat, Module.charOK, hkw, hrec] at hrec ⊢
        by_cases hp : Module.importPathOK r = true <;> simp [hp]
      · simp only [kindInt] at hrec ⊢
        simp only [fileNameOK_nat, Module.charOK, hkw, hrec] at hrec ⊢
        by_cases hp : Module.fileNameOK (natLetter il) r = true <;> simp [hp]
    · have hk' : k = elem.length := by omega
      have hlt' : ¬ ((k : Int) < len elem) := by simp [len_eq]; omega
      subst hk'
      simp [Utf8.runes, Utf8.runesAux, len_eq]


theorem checkElem_loop2_spec (ef : Bytes → Bytes → Bool) (il : Int → Bool) (short : Bytes) :
    ∀ (fuel k : Nat), k ≤ Generated.module_badWindowsNames.length →
      Generated.module_badWindowsNames.length - k < fuel →
    Generated.Module.checkElem_loop2 ef il short fuel (k : Int) =
      .ok (if (Generated.module_badWindowsNames.drop k).any (ef · short) = true
           then Ctl.ret (some "%q disallowed as path element component on Windows")
           else Ctl.next (len Generated.module_badWindowsNames)) := by
  intro fuel
  induction fuel with
  | zero => intro k _ h; omega
  | succ f ih =>
    intro k hk hf
    unfold Generated.Module.checkElem_loop2
    by_cases hlt : k < Generated.module_badWindowsNames.length
    · have hlt' : (k : Int) < len Generated.module_badWindowsNames := by simp only [len_eq]; omega
      have hrec := ih (k + 1) hlt (by omega)
      have hkw : (k : Int) + 1 = ((k + 1 : Nat) : Int) := by simp
      rw [List.drop_eq_getElem_cons hlt]
      simp only [hlt', decide_true, if_true, idxL_natCast hlt, bind_ok, hkw, hrec, List.any_cons]
      by_cases hp : ef Generated.module_badWindowsNames[k] short = true <;> simp [hp]
    · have hk' : k = Generated.module_badWindowsNames.length := by omega
      have hlt' : ¬ ((k : Int) < len Generated.module_badWindowsNames) := by simp only [len_eq]; omega
      subst hk'
      simp [len_eq]

def isDigitRune (r : Nat) : Bool := 48 ≤ r && r ≤ 57

theorem checkElem_loop3_spec (ef : Bytes → Bytes → Bool) (il : Int → Bool) (suffix : Bytes) (flag : Bool) :
    ∀ (fuel k : Nat), k ≤ suffix.length → suffix.length - k < fuel →
    ∃ j : Int, Generated.Module.checkElem_loop3 ef il suffix fuel (k : Int) flag =
      .ok (j, flag && (Utf8.runes (suffix.drop k)).all isDigitRune) := by
  intro fuel
  induction fuel with
  | zero => intro k _ h; omega
  | succ f ih =>
    intro k hk hf
    unfold Generated.Module.checkElem_loop3
    by_cases hlt : k < suffix.length
    · obtain ⟨r, w, hdec, hw1, hw2, hrunes, _⟩ := range_step suffix k hlt
      have hlt' : (k : Int) < len suffix := by simp [len_eq]; omega
      obtain ⟨j, hrec⟩ := ih (k + w) hw2 (by omega)
      have hkw : (k : Int) + (w : Int) = ((k + w : Nat) : Int) := by simp
      simp only [hlt', decide_true, if_true, hdec, hrunes, List.all_cons, hkw, hrec]
      by_cases hp : isDigitRune r = true
      · have h1 : ¬ ((r : Int) < 48) := by simp [isDigitRune] at hp; omega
        have h2 : ¬ ((r : Int) > 57) := by simp [isDigitRune] at hp; omega
        exact ⟨j, by simp [h1, h2, hp]⟩
      · have h1 : ((r : Int) < 48) ∨ ((r : Int) > 57) := by simp [isDigitRune] at hp; omega
        refine ⟨(k : Int), ?_⟩
        have hp' : isDigitRune r = false := by simpa using hp
        rcases h1 with h1 | h1 <;> simp [h1, hp']
    · have hk' : k = suffix.length := by omega
      have hlt' : ¬ ((k : Int) < len suffix) := by simp [len_eq]; omega
      subst hk'
      exact ⟨(suffix.length : Int), by simp [len_eq, Utf8.runes, Utf8.runesAux]⟩


theorem badNames_any (ef : Bytes → Bytes → Bool) (short : Bytes)
    (hfold : ∀ bad ∈ Module.badWindowsNames, ∀ s, ef bad s = Module.equalFoldAscii bad s) :
    Generated.module_badWindowsNames.any (ef · short) = Module.badWindowsNames.any (Module.equalFoldAscii · short) := by
  rw [Tie.module_badWindowsNames_tie]
  generalize Module.badWindowsNames = l at hfold
  induction l with
  | nil => rfl
  | cons b l ih =>
    simp only [List.any_cons, hfold b (by simp) short, ih (fun x hx => hfold x (by simp [hx]))]

theorem looksLikeShortName_not_mem (s : Bytes) (h : (126 : UInt8) ∉ s) : Module.looksLikeShortName s = false := by
  simp [Module.looksLikeShortName, Module.afterLastTilde, h]

theorem looksLikeShortName_split (pre suf : Bytes) (h : (126 : UInt8) ∉ suf) :
    Module.looksLikeShortName (pre ++ 126 :: suf) = (!suf.isEmpty && suf.all Module.isDigit) := by
  have hc : (pre ++ 126 :: suf).contains 126 = true := by simp
  simp only [Module.looksLikeShortName, Module.afterLastTilde, hc, if_true, reverse_takeWhile_split pre suf 126 h]

theorem digits_runes (s : Bytes) : (Utf8.runes s).all isDigitRune = s.all Module.isDigit := by
  rw [Utf8.runes_all_of_ascii_pred isDigitRune (by intro r h; simp [isDigitRune] at h; omega)]
  apply List.all_congr rfl
  simp only [isDigitRune, Module.isDigit, UInt8.le_iff_toNat_le]
  intro a; rfl

theorem short_cut {β : Type} (elem : Bytes) (K : Bytes → M β) :
    (if decide (index elem [46] ≥ 0) = true then (sliceTo elem (index elem [46]) >>= fun t17 => K t17) else K elem)
      = K (Module.shortOf elem) := by
  by_cases h : (46 : UInt8) ∈ elem
  · have : index elem [46] ≥ 0 := (index_single_nonneg elem 46).mpr h
    simp only [this, decide_true, if_true, take_index_single elem 46 h, bind_ok, Module.shortOf]
  · have : ¬ index elem [46] ≥ 0 := fun e => h ((index_single_nonneg elem 46).mp e)
    simp only [this, decide_false, Bool.false_eq_true, if_false, Module.shortOf, takeWhile_ne_of_not_mem h]

theorem checkElem_spec (ef : Bytes → Bytes → Bool) (il : Int → Bool) (kind : Module.Kind) (elem : Bytes) (fuel : Nat)
    (hfold : ∀ bad ∈ Module.badWindowsNames, ∀ s, ef bad s = Module.equalFoldAscii bad s)
    (hf : elem.length + 23 ≤ fuel) :
    Generated.Module.checkElem ef il fuel elem (kindInt kind) =
      .ok (errOf (Module.checkElem (natLetter il) kind elem)) := by
  unfold Generated.Module.checkElem Module.checkElem
  by_cases h0 : elem = []
  · subst h0; simp [errOf, msg]
  have h0' : elem.isEmpty = false := by cases elem <;> simp at h0 ⊢
  simp only [h0, decide_false, Bool.false_eq_true, if_false, h0']
  rw [count_single_eq_len]
  by_cases h1 : elem.all (· == 46) = true
  · simp [h1, errOf, msg]
  simp only [h1, Bool.false_eq_true, if_false]
  rw [idx_zero_eq_head elem h0, bind_ok]
  have hk0 : decide (kindInt kind = 0) = (kind == Module.Kind.module) := by cases kind <;> rfl
  have hk2 : decide (kindInt kind = 2) = (kind == Module.Kind.file) := by cases kind <;> rfl
  rw [first_byte_test elem h0 (n := 46) 46 rfl, hk0]
  by_cases h2 : (elem.head? == some 46 && kind == Module.Kind.module) = true
  · simp [h2, errOf, msg]
  simp only [h2, Bool.false_eq_true, if_false]
  rw [idx_last elem h0, bind_ok, last_byte_test elem h0 (n := 46) 46 rfl]
  by_cases h3 : (elem.getLast? == some 46) = true
  · simp [h3, errOf, msg]
  simp only [h3, Bool.false_eq_true, if_false]
  have hl1 := checkElem_loop1_spec ef il elem kind fuel 0 (by omega) (by omega)
  simp only [Int.natCast_zero, List.drop_zero] at hl1
  rw [hl1, bind_ok]
  cases h4 : (Utf8.runes elem).all (Module.charOK (natLetter il) kind)
  · simp [errOf, msg]
  simp only [if_true, Bool.not_true, Bool.false_eq_true, if_false]
  rw [short_cut]
  have hsl : (Module.shortOf elem).length ≤ elem.length := length_takeWhile_le _ _
  generalize Module.shortOf elem = short at hsl ⊢
  have hn : Generated.module_badWindowsNames.length = 22 := by decide
  have hl2 := checkElem_loop2_spec ef il short fuel 0 (by omega) (by omega)
  simp only [Int.natCast_zero, List.drop_zero, badNames_any ef short hfold] at hl2
  rw [hl2, bind_ok, hk2]
  by_cases h5 : Module.badWindowsNames.any (Module.equalFoldAscii · short) = true
  · simp [h5, errOf, msg]
  simp only [h5, Bool.false_eq_true, if_false]
  by_cases h6 : (kind == Module.Kind.file) = true
  · simp [h6, errOf]
  simp only [h6, Bool.false_eq_true, if_false]
  by_cases h7 : (126 : UInt8) ∈ short
  · obtain ⟨pre, suf, rfl, hsuf⟩ := exists_last_split 126 short h7
    rw [lastIndexByte_split pre suf (n := 126) 126 rfl hsuf, looksLikeShortName_split pre suf hsuf]
    cases suf with
    | nil => simp [len_eq, errOf]
    | cons c suf =>
      have hlt : (pre.length : Int) < len (pre ++ 126 :: c :: suf) - 1 := by simp [len_eq]; omega
      have hge : (pre.length : Int) ≥ 0 := by omega
      have hsf : sliceFrom (pre ++ 126 :: c :: suf) ((pre.length : Int) + 1) = .ok (c :: suf) := by
        have := sliceFrom_natCast (v := pre ++ 126 :: c :: suf) (k := pre.length + 1) (by simp)
        simpa using this
      obtain ⟨j, hl3⟩ := checkElem_loop3_spec ef il (c :: suf) true fuel 0 (by omega)
        (by simp at hsl ⊢; omega)
      simp only [Int.natCast_zero, List.drop_zero, Bool.true_and, digits_runes] at hl3
      simp only [hlt, hge, decide_true, Bool.and_self, if_true, hsf, bind_ok, hl3, List.isEmpty_cons, Bool.not_false,
        Bool.true_and]
      by_cases h8 : (c :: suf).all Module.isDigit = true
      · simp [h8, errOf, msg]
      · simp [h8, errOf]
  · simp [lastIndexByte_not_mem short (n := 126) 126 rfl h7, looksLikeShortName_not_mem short h7, errOf]

end ModVerif.TieFnModule
