import ModVerif.Proofs.TieFnEditAddLineA
set_option linter.unusedSimpArgs false
set_option linter.unusedVariables false
namespace ModVerif.TieFnEditAddLine
open ModVerif ModVerif.GoRt
open ModVerif.Generated.Edit
open ModVerif.Tie.FnEditRep
open ModVerif.Modfile.Edit (treeIds)

/-- the file object after a store: get what was set -/
theorem files_set_get {l : List FileSyntax} {x : Int} {fo : FileSyntax} (hf : heapGet l x = .ok fo) (v : FileSyntax) :
    heapGet (l.set (x.toNat - 1) v) x = .ok v := heapGet_listSet_same v hf

theorem newLineAfter_eq {h : Heap} {x : Int} {fo : FileSyntax} (hf : heapGet h.files x = .ok fo)
    (a : List Expr) (s : Expr) (b : List Expr) (hs : fo.Stmt = a ++ s :: b) (tokens : List Bytes) (fuel : Nat)
    {i : Int} (hi : i = (a.length : Int)) :
    FileSyntax_addLine_newLineAfter fuel x tokens i h =
      .ok (((h.lines.length + 1 : Nat) : Int),
           { h with lines := h.lines ++ [({ (default : Line) with Token := tokens } : Line)],
                    files := h.files.set (x.toNat - 1)
                      { fo with Stmt := a ++ s :: Expr.Line ((h.lines.length + 1 : Nat) : Int) :: b } }) := by
  unfold FileSyntax_addLine_newLineAfter
  have hne : ¬ (i = len fo.Stmt) := by rw [hs, len_eq, hi]; simp; omega
  simp only [heapAlloc, hf, bind_ok, hne, decide_false, Bool.false_eq_true, if_false]
  rw [heapSet_of_get _ hf]
  simp only [bind_ok]
  rw [files_set_get hf]
  simp only [bind_ok, hs]
  obtain ⟨src, d, h1, h2, h3⟩ := insert_via_copy_steps a s b Expr.nil (Expr.Line ((h.lines.length + 1 : Nat) : Int)) hi
  simp only [h1, h2, bind_ok]
  have hf2 : heapGet (h.files.set (x.toNat - 1) { Name := fo.Name, Comments := fo.Comments, Stmt := a ++ s :: b ++ [Expr.nil] }) x = .ok { Name := fo.Name, Comments := fo.Comments, Stmt := a ++ s :: b ++ [Expr.nil] } := files_set_get hf _
  rw [heapSet_of_get _ hf2]
  simp only [bind_ok, List.set_set]
  rw [files_set_get hf]
  simp only [bind_ok, h3]
  have hf3 : heapGet (h.files.set (x.toNat - 1) { Name := fo.Name, Comments := fo.Comments, Stmt := d }) x = .ok { Name := fo.Name, Comments := fo.Comments, Stmt := d } := files_set_get hf _
  rw [heapSet_of_get _ hf3]
  simp only [bind_ok, List.set_set, pure_eq_ok]

theorem heapSet_set {α : Type} {l : List α} {p : Int} {w : α} (hf : heapGet l p = .ok w) (v v' : α) :
    heapSet (l.set (p.toNat - 1) v) p v' = .ok (l.set (p.toNat - 1) v') := by
  rw [heapSet_of_get v' (heapGet_listSet_same v hf), List.set_set]

theorem idxL_append_mid {α : Type} (a : List α) (e : α) (c : List α) {i : Int} (hi : i = (a.length : Int)) :
    idxL (a ++ e :: c) i = .ok e := by
  subst hi
  rw [idxL_natCast (by simp)]
  simp

theorem loop2_skip (rx : List Int) (x : Int) (hint : Expr) (tokens : List Bytes) (i1 stmt2 : Int) (rest : List Int) :
    ∀ (a : List Int) (j : Nat) (fuel : Nat) (h : Heap), rx.drop j = a ++ rest → (∀ q ∈ a, Expr.Line q ≠ hint) →
      FileSyntax_addLine_loop2 rx x hint tokens i1 stmt2 (fuel + a.length) (j : Int) h =
        FileSyntax_addLine_loop2 rx x hint tokens i1 stmt2 fuel ((j + a.length : Nat) : Int) h
  | [], j, fuel, h, _, _ => by simp
  | q :: a, j, fuel, h, hd, hq => by
    have hj : j < rx.length := by
      rcases Nat.lt_or_ge j rx.length with hj | hj
      · exact hj
      · rw [List.drop_eq_nil_of_le hj] at hd
        simp at hd
    have hget : rx[j] = q := by
      have := congrArg (fun l => l[0]?) hd
      simp only [List.getElem?_drop, Nat.add_zero, List.cons_append, List.getElem?_cons_zero] at this
      rw [List.getElem?_eq_getElem hj] at this
      exact Option.some.inj this
    have hlt : ((j : Nat) : Int) < len rx := by rw [len_eq]; omega
    have hne : ¬ (Expr.Line q = hint) := hq q (by simp)
    have : fuel + (q :: a).length = (fuel + a.length) + 1 := by simp; omega
    rw [this]
    conv => lhs; unfold FileSyntax_addLine_loop2
    simp only [hlt, decide_true, if_true, idxL_natCast hj, hget, bind_ok, hne, decide_false, Bool.false_eq_true, if_false]
    have e : ((j : Nat) : Int) + 1 = ((j + 1 : Nat) : Int) := by omega
    rw [e, loop2_skip rx x hint tokens i1 stmt2 rest a (j + 1) fuel h (by
      rw [← List.drop_drop, hd]; rfl) (fun q' hq' => hq q' (by simp [hq']))]
    congr 2
    simp; omega

theorem loop2_miss (rx : List Int) (x : Int) (hint : Expr) (tokens : List Bytes) (i1 stmt2 : Int) (fuel : Nat) (h : Heap)
    (hfu : rx.length + 1 ≤ fuel) (hq : ∀ q ∈ rx, Expr.Line q ≠ hint) :
    FileSyntax_addLine_loop2 rx x hint tokens i1 stmt2 fuel 0 h = .ok (.next (len rx, h)) := by
  obtain ⟨f, rfl⟩ : ∃ f, fuel = (f + 1) + rx.length := ⟨fuel - 1 - rx.length, by omega⟩
  have := loop2_skip rx x hint tokens i1 stmt2 [] rx 0 (f + 1) h (by simp) hq
  simp only [Nat.zero_add] at this
  rw [show ((0 : Nat) : Int) = 0 from rfl] at this
  rw [this]
  unfold FileSyntax_addLine_loop2
  simp only [len_eq, Int.lt_irrefl, decide_false, Bool.false_eq_true, if_false, pure_eq_ok]


theorem newLineAfter_fuel (f1 f2 : Nat) (x : Int) (tokens : List Bytes) (i : Int) (h : Heap) :
    FileSyntax_addLine_newLineAfter f1 x tokens i h = FileSyntax_addLine_newLineAfter f2 x tokens i h := rfl

/-- loop 2 arrives at the hint `q` (first occurrence) inside the block `p` -/
theorem loop2_at_hit (a : List Int) (q : Int) (c : List Int) (x : Int) (tokens : List Bytes) (i1 p : Int) (fuel : Nat)
    (h : Heap) (hq : ∀ q' ∈ a, q' ≠ q) (hfu : a.length + 2 ≤ fuel) :
    ∃ f, FileSyntax_addLine_loop2 (a ++ q :: c) x (Expr.Line q) tokens i1 p fuel 0 h =
      FileSyntax_addLine_loop2 (a ++ q :: c) x (Expr.Line q) tokens i1 p (f + 1) (a.length : Int) h := by
  obtain ⟨f, rfl⟩ : ∃ f, fuel = (f + 1) + a.length := ⟨fuel - 1 - a.length, by omega⟩
  refine ⟨f, ?_⟩
  have := loop2_skip (a ++ q :: c) x (Expr.Line q) tokens i1 p (q :: c) a 0 (f + 1) h (by simp)
    (fun q' hq' e => hq q' hq' (by injection e))
  simp only [Nat.zero_add] at this
  exact this

theorem loop2_hit_ne (a : List Int) (q : Int) (c : List Int) (x : Int) (tokens : List Bytes) (i1 p : Int) (fuel : Nat)
    (h : Heap) (hq : ∀ q' ∈ a, q' ≠ q) (hfu : a.length + 2 ≤ fuel)
    (blk : LineBlock) (hb : heapGet h.blocks p = .ok blk) (bt0 t0 : Bytes) (btr trest : List Bytes)
    (hbt : blk.Token = bt0 :: btr) (htok : tokens = t0 :: trest) (hne : bt0 ≠ t0) :
    FileSyntax_addLine_loop2 (a ++ q :: c) x (Expr.Line q) tokens i1 p fuel 0 h =
      (do let t ← FileSyntax_addLine_newLineAfter 0 x tokens i1 h; pure (Ctl.ret (t.1, t.2))) := by
  obtain ⟨f, hf⟩ := loop2_at_hit a q c x tokens i1 p fuel h hq hfu
  rw [hf]
  unfold FileSyntax_addLine_loop2
  have hlt : ((a.length : Nat) : Int) < len (a ++ q :: c) := by rw [len_eq]; simp; omega
  simp only [hlt, decide_true, if_true, idxL_append_mid a q c rfl, bind_ok, hb, hbt, htok]
  have i0 : ∀ (u : Bytes) (us : List Bytes), idxL (u :: us) 0 = .ok u := fun u us => rfl
  simp only [i0, bind_ok, hne, decide_false, Bool.not_false, if_true]
  rw [newLineAfter_fuel f 0]

theorem loop2_hit_eq (a : List Int) (q : Int) (c : List Int) (x : Int) (tokens : List Bytes) (i1 p : Int) (fuel : Nat)
    (h : Heap) (hq : ∀ q' ∈ a, q' ≠ q) (hfu : a.length + 2 ≤ fuel)
    (blk : LineBlock) (hb : heapGet h.blocks p = .ok blk) (hl : blk.Line = a ++ q :: c) (t0 : Bytes) (btr trest : List Bytes)
    (hbt : blk.Token = t0 :: btr) (htok : tokens = t0 :: trest) :
    FileSyntax_addLine_loop2 (a ++ q :: c) x (Expr.Line q) tokens i1 p fuel 0 h =
      .ok (Ctl.ret (((h.lines.length + 1 : Nat) : Int),
        { h with blocks := h.blocks.set (p.toNat - 1) { blk with Line := a ++ q :: ((h.lines.length + 1 : Nat) : Int) :: c },
                 lines := h.lines ++ [({ (default : Line) with Token := trest, InBlock := true } : Line)] })) := by
  obtain ⟨f, hf⟩ := loop2_at_hit a q c x tokens i1 p fuel h hq hfu
  rw [hf]
  unfold FileSyntax_addLine_loop2
  have hlt : ((a.length : Nat) : Int) < len (a ++ q :: c) := by rw [len_eq]; simp; omega
  simp only [hlt, decide_true, if_true, idxL_append_mid a q c rfl, bind_ok, hb, hbt, htok]
  have i0 : ∀ (u : Bytes) (us : List Bytes), idxL (u :: us) 0 = .ok u := fun u us => rfl
  obtain ⟨src, d, h1, h2, h3⟩ := insert_via_copy_steps a q c (0 : Int) ((h.lines.length + 1 : Nat) : Int) (i := (a.length : Int)) rfl
  simp only [i0, bind_ok, decide_true, Bool.not_true, Bool.false_eq_true, if_false, heapSet_of_get _ hb,
    heapGet_listSet_same _ hb, heapSet_set hb, hl, h1, h2, h3, sliceFrom_one_cons, heapAlloc, pure_eq_ok]


/-! ### loop 1, one statement -/

theorem idx0 (u : Bytes) (us : List Bytes) : idxL (u :: us) 0 = .ok u := rfl

theorem succ_cast (k : Nat) : ((k : Nat) : Int) + 1 = ((k + 1 : Nat) : Int) := by omega

theorem loop1_skip_line (pre : List Expr) (p : Int) (xs : List Expr) (x : Int) (hint : Expr) (tokens : List Bytes)
    (fuel : Nat) (h : Heap) (hne : Expr.Line p ≠ hint) :
    FileSyntax_addLine_loop1 (pre ++ Expr.Line p :: xs) x hint tokens (fuel + 1) (pre.length : Int) h =
      FileSyntax_addLine_loop1 (pre ++ Expr.Line p :: xs) x hint tokens fuel ((pre.length + 1 : Nat) : Int) h := by
  conv => lhs; unfold FileSyntax_addLine_loop1
  have hlt : ((pre.length : Nat) : Int) < len (pre ++ Expr.Line p :: xs) := by rw [len_eq]; simp; omega
  simp only [hlt, decide_true, if_true, idxL_append_mid pre _ xs rfl, bind_ok, hne, decide_false, Bool.false_eq_true,
    if_false, succ_cast]

theorem loop1_skip_other (pre : List Expr) (e : Expr) (xs : List Expr) (x : Int) (hint : Expr) (tokens : List Bytes)
    (fuel : Nat) (h : Heap) (h1 : ∀ p, e ≠ Expr.Line p) (h2 : ∀ p, e ≠ Expr.LineBlock p) :
    FileSyntax_addLine_loop1 (pre ++ e :: xs) x hint tokens (fuel + 1) (pre.length : Int) h =
      FileSyntax_addLine_loop1 (pre ++ e :: xs) x hint tokens fuel ((pre.length + 1 : Nat) : Int) h := by
  conv => lhs; unfold FileSyntax_addLine_loop1
  have hlt : ((pre.length : Nat) : Int) < len (pre ++ e :: xs) := by rw [len_eq]; simp; omega
  simp only [hlt, decide_true, if_true, idxL_append_mid pre _ xs rfl, bind_ok]
  cases e with
  | Line p => exact absurd rfl (h1 p)
  | LineBlock p => exact absurd rfl (h2 p)
  | _ => simp only [succ_cast]

theorem loop1_skip_block (pre : List Expr) (p : Int) (xs : List Expr) (x : Int) (hint : Expr) (tokens : List Bytes)
    (fuel : Nat) (h : Heap) (hne : Expr.LineBlock p ≠ hint) (blk : LineBlock) (hb : heapGet h.blocks p = .ok blk)
    (hq : ∀ q ∈ blk.Line, Expr.Line q ≠ hint) (hfu : blk.Line.length + 1 ≤ fuel) :
    FileSyntax_addLine_loop1 (pre ++ Expr.LineBlock p :: xs) x hint tokens (fuel + 1) (pre.length : Int) h =
      FileSyntax_addLine_loop1 (pre ++ Expr.LineBlock p :: xs) x hint tokens fuel ((pre.length + 1 : Nat) : Int) h := by
  conv => lhs; unfold FileSyntax_addLine_loop1
  have hlt : ((pre.length : Nat) : Int) < len (pre ++ Expr.LineBlock p :: xs) := by rw [len_eq]; simp; omega
  simp only [hlt, decide_true, if_true, idxL_append_mid pre _ xs rfl, bind_ok, hne, decide_false, Bool.false_eq_true,
    if_false, hb, loop2_miss blk.Line x hint tokens (pre.length : Int) p fuel h hfu hq, succ_cast]

/-- the hint is the top-level line `p`, dead or of another verb: a new line after it -/
theorem loop1_line_after (pre : List Expr) (p : Int) (xs : List Expr) (x : Int) (t0 : Bytes) (trest : List Bytes)
    (fuel : Nat) (h : Heap) (ln : Line) (hl : heapGet h.lines p = .ok ln)
    (hc : ln.Token = [] ∨ ∃ u us, ln.Token = u :: us ∧ u ≠ t0) :
    FileSyntax_addLine_loop1 (pre ++ Expr.Line p :: xs) x (Expr.Line p) (t0 :: trest) (fuel + 1) (pre.length : Int) h =
      (do let t ← FileSyntax_addLine_newLineAfter 0 x (t0 :: trest) (pre.length : Int) h; pure (Ctl.ret (t.1, t.2))) := by
  conv => lhs; unfold FileSyntax_addLine_loop1
  have hlt : ((pre.length : Nat) : Int) < len (pre ++ Expr.Line p :: xs) := by rw [len_eq]; simp; omega
  simp only [hlt, decide_true, if_true, idxL_append_mid pre _ xs rfl, bind_ok, hl]
  rcases hc with hc | ⟨u, us, hc, hne⟩
  · simp only [hc, decide_true, if_true, pure_eq_ok, bind_ok]
    rw [newLineAfter_fuel fuel 0]
  · simp only [hc, idx0, bind_ok, hne, decide_false, Bool.not_false, pure_eq_ok, if_true, Bool.false_eq_true, if_false,
      reduceCtorEq]
    rw [newLineAfter_fuel fuel 0]

/-- the hint is the top-level line `p` of the same verb: the line becomes a block of two lines -/
theorem loop1_line_convert (pre : List Expr) (p : Int) (xs : List Expr) (x : Int) (t0 : Bytes) (trest : List Bytes)
    (fuel : Nat) (h : Heap) (ln : Line) (hl : heapGet h.lines p = .ok ln) (us : List Bytes) (hc : ln.Token = t0 :: us)
    (fo : FileSyntax) (hf : heapGet h.files x = .ok fo) (hs : fo.Stmt = pre ++ Expr.Line p :: xs) :
    FileSyntax_addLine_loop1 (pre ++ Expr.Line p :: xs) x (Expr.Line p) (t0 :: trest) (fuel + 1) (pre.length : Int) h =
      .ok (Ctl.ret (((h.lines.length + 1 : Nat) : Int),
        { h with
          lines := h.lines.set (p.toNat - 1) { ln with InBlock := true, Token := us } ++
            [({ (default : Line) with Token := trest, InBlock := true } : Line)],
          blocks := h.blocks ++ [({ (default : LineBlock) with
            Token := [t0], Line := [p, ((h.lines.length + 1 : Nat) : Int)] } : LineBlock)],
          files := h.files.set (x.toNat - 1)
            { fo with Stmt := pre ++ Expr.LineBlock ((h.blocks.length + 1 : Nat) : Int) :: xs } })) := by
  conv => lhs; unfold FileSyntax_addLine_loop1
  have hlt : ((pre.length : Nat) : Int) < len (pre ++ Expr.Line p :: xs) := by rw [len_eq]; simp; omega
  simp only [hlt, decide_true, if_true, idxL_append_mid pre _ xs rfl, bind_ok, hl, hc, idx0, reduceCtorEq, decide_false,
    Bool.false_eq_true, if_false, Bool.not_true, pure_eq_ok, heapSet_of_get _ hl, heapGet_listSet_same _ hl,
    heapSet_set hl, heapAlloc, hf, hs]
  have e1 : sliceTo (t0 :: us) 1 = .ok [t0] := by
    have := sliceTo_natCast (v := t0 :: us) (k := 1) (by simp)
    simpa using this
  have e2 : setIdxL (pre ++ Expr.Line p :: xs) (pre.length : Int) (Expr.LineBlock ((h.blocks.length + 1 : Nat) : Int)) =
      .ok (pre ++ Expr.LineBlock ((h.blocks.length + 1 : Nat) : Int) :: xs) := by
    unfold setIdxL
    have : (0 : Int) ≤ (pre.length : Int) ∧ (pre.length : Int) < len (pre ++ Expr.Line p :: xs) := ⟨by omega, hlt⟩
    simp only [this, and_self, if_true, Int.toNat_natCast, pure_eq_ok]
    simp
  simp only [e1, e2, sliceFrom_one_cons, bind_ok, heapSet_of_get _ hf, heapGet_alloc_new,
    heapSet_of_get _ (heapGet_alloc_new _ _), List.length_set, Int.toNat_natCast, Nat.add_sub_cancel,
    List.set_append_right _ _ (Nat.le_refl _), Nat.sub_self, List.set_cons_zero, List.cons_append, List.nil_append]


/-- the hint is the block `p` itself (found by the no-hint search), another verb -/
theorem loop1_block_self_ne (pre : List Expr) (p : Int) (xs : List Expr) (x : Int) (t0 : Bytes) (trest : List Bytes)
    (fuel : Nat) (h : Heap) (blk : LineBlock) (hb : heapGet h.blocks p = .ok blk) (bt0 : Bytes) (btr : List Bytes)
    (hbt : blk.Token = bt0 :: btr) (hne : bt0 ≠ t0) :
    FileSyntax_addLine_loop1 (pre ++ Expr.LineBlock p :: xs) x (Expr.LineBlock p) (t0 :: trest) (fuel + 1) (pre.length : Int) h =
      (do let t ← FileSyntax_addLine_newLineAfter 0 x (t0 :: trest) (pre.length : Int) h; pure (Ctl.ret (t.1, t.2))) := by
  conv => lhs; unfold FileSyntax_addLine_loop1
  have hlt : ((pre.length : Nat) : Int) < len (pre ++ Expr.LineBlock p :: xs) := by rw [len_eq]; simp; omega
  simp only [hlt, decide_true, if_true, idxL_append_mid pre _ xs rfl, bind_ok, hb, hbt, idx0, hne, decide_false,
    Bool.not_false]
  rw [newLineAfter_fuel fuel 0]

/-- the hint is the block `p` itself, same verb: the new line is appended to the block -/
theorem loop1_block_self_eq (pre : List Expr) (p : Int) (xs : List Expr) (x : Int) (t0 : Bytes) (trest : List Bytes)
    (fuel : Nat) (h : Heap) (blk : LineBlock) (hb : heapGet h.blocks p = .ok blk) (btr : List Bytes)
    (hbt : blk.Token = t0 :: btr) :
    FileSyntax_addLine_loop1 (pre ++ Expr.LineBlock p :: xs) x (Expr.LineBlock p) (t0 :: trest) (fuel + 1) (pre.length : Int) h =
      .ok (Ctl.ret (((h.lines.length + 1 : Nat) : Int),
        { h with blocks := h.blocks.set (p.toNat - 1) { blk with Line := blk.Line ++ [((h.lines.length + 1 : Nat) : Int)] },
                 lines := h.lines ++ [({ (default : Line) with Token := trest, InBlock := true } : Line)] })) := by
  conv => lhs; unfold FileSyntax_addLine_loop1
  have hlt : ((pre.length : Nat) : Int) < len (pre ++ Expr.LineBlock p :: xs) := by rw [len_eq]; simp; omega
  simp only [hlt, decide_true, if_true, idxL_append_mid pre _ xs rfl, bind_ok, hb, hbt, idx0, decide_true,
    Bool.not_true, Bool.false_eq_true, if_false, sliceFrom_one_cons, heapAlloc, heapSet_of_get _ hb, pure_eq_ok]

/-- the hint is a line of the block `p` -/
theorem loop1_block_line (pre : List Expr) (p : Int) (xs : List Expr) (x : Int) (q : Int) (tokens : List Bytes)
    (fuel : Nat) (h : Heap) (blk : LineBlock) (hb : heapGet h.blocks p = .ok blk)
    (r : Int × Heap)
    (h2 : FileSyntax_addLine_loop2 blk.Line x (Expr.Line q) tokens (pre.length : Int) p fuel 0 h = .ok (Ctl.ret r)) :
    FileSyntax_addLine_loop1 (pre ++ Expr.LineBlock p :: xs) x (Expr.Line q) tokens (fuel + 1) (pre.length : Int) h =
      .ok (Ctl.ret r) := by
  conv => lhs; unfold FileSyntax_addLine_loop1
  have hlt : ((pre.length : Nat) : Int) < len (pre ++ Expr.LineBlock p :: xs) := by rw [len_eq]; simp; omega
  simp only [hlt, decide_true, if_true, idxL_append_mid pre _ xs rfl, bind_ok, reduceCtorEq, decide_false,
    Bool.false_eq_true, if_false, hb, h2, pure_eq_ok]

/-- the end of the list -/
theorem loop1_end (es : List Expr) (x : Int) (hint : Expr) (tokens : List Bytes) (fuel : Nat) (h : Heap) :
    FileSyntax_addLine_loop1 es x hint tokens (fuel + 1) (es.length : Int) h = .ok (Ctl.next (len es, h)) := by
  unfold FileSyntax_addLine_loop1
  simp only [len_eq, Int.lt_irrefl, decide_false, Bool.false_eq_true, if_false, pure_eq_ok]

end ModVerif.TieFnEditAddLine
