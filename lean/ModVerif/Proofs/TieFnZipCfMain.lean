/-
  Tie proof, zip/zip.go `checkFiles`: one iteration of the main loop (`checkFiles_loop3`) is one `Zip.stepFile` of the
  model's `mainPass`, and the loop is the fold.
-/
import ModVerif.Proofs.TieFnZipCfBase
import ModVerif.Proofs.TieFnZipCfSub
import ModVerif.Proofs.TieFnZipCfPre
import ModVerif.Proofs.TieFnZipVendor
namespace ModVerif.TieFnZipCf
open ModVerif ModVerif.GoRt ModVerif.GoRtZip ModVerif.TieFnZip
open ModVerif.Generated.Zip (pathInfo File FileError CheckedFiles)
open ModVerif.Drv.GenZip (toGFile modeBits)

/-- `module.CheckFilePath` as the driver instantiates it from the model's predicate -/
def cfpOf (E : Zip.Env) : Bytes → Option String := fun p => if E.cfp p then none else some "filepath"

/-! ### the collision check on the paths that reach it -/

theorem ccStep_reason (tf : Bytes → Bytes) (cc : Zip.CC) (p : Bytes) (d : Bool) (e : Zip.Reason)
    (h : (Zip.ccStep tf cc p d).2 = some e) : errText e = reasonText e := by
  unfold Zip.ccStep at h
  split at h
  · split at h
    · cases h; rfl
    · split at h
      · cases h; rfl
      · split at h
        · cases h; rfl
        · cases h
  · cases h

theorem ccCheck_reason (tf : Bytes → Bytes) : ∀ (n : Nat) (cc : Zip.CC) (p : Bytes) (d : Bool) (e : Zip.Reason),
    (Zip.ccCheck tf n cc p d).2 = some e → e ≠ .panic → errText e = reasonText e := by
  intro n
  induction n with
  | zero => intro cc p d e h hne; cases h; exact absurd rfl hne
  | succ n ih =>
    intro cc p d e h hne
    unfold Zip.ccCheck at h
    cases hs : Zip.ccStep tf cc p d with
    | mk cc' o =>
      rw [hs] at h
      cases o with
      | some e' =>
        simp only at h
        cases h
        exact ccStep_reason tf cc p d e (by rw [hs])
      | none =>
        simp only at h
        split at h
        · exact ih _ _ _ e h hne
        · cases h

/-- the collision check of `checkFiles` on a clean relative path: the model's `ccCheckTop`, errors as `reasonText` -/
theorem check_cleanRel (sf : Int → Int) (K : Nat) (hsf : FoldsTo sf K) (fuel : Nat) (cc : Zip.CC) (p : Bytes)
    (d : Bool) (hp : Proofs.ZipA.CleanRel p) (hf : 3 * p.length + K + 5 ≤ fuel) :
    Generated.Zip.collisionChecker_check sf fuel (ofCC cc) p d =
      .ok ((Zip.ccCheckTop Zip.strToFold cc p d).2.map reasonText, ofCC (Zip.ccCheckTop Zip.strToFold cc p d).1) := by
  have hne : p ≠ [] := by
    intro h; have := hp.clean; rw [h] at this; exact absurd this (by decide)
  have hl : 1 ≤ p.length := by cases p with | nil => exact absurd rfl hne | cons _ _ => simp
  have hok := Proofs.ZipA.fuelOK_cleanRel (p.length + 1) p hp (by omega)
  have hnp := ccCheck_ne_panic Zip.strToFold (p.length + 1) cc p d hok
  have := check_eq sf K hsf (p.length + 1) fuel (ofCC cc) p d (by rw [toCC_ofCC]; exact hnp) (by omega)
  rw [this, toCC_ofCC]
  unfold ccOut Zip.ccCheckTop
  congr 2
  cases hr : (Zip.ccCheck Zip.strToFold (p.length + 1) cc p d).2 with
  | none => rfl
  | some e =>
    simp only [Option.map_some]
    congr 1
    exact ccCheck_reason Zip.strToFold _ cc p d e hr (by intro he; rw [he] at hr; exact hnp hr)

/-! ### one iteration of the main loop -/

section
variable (cfp : Bytes → Option String) (ef : Bytes → Bytes → Bool) (pgv : Bytes → Bytes → Bytes) (sf : Int → Int)
  (tl : Bytes → Bytes) (vc : Bytes → Bytes → Int) (vl : Bytes → Bytes)

/-- the carried variables of loop 3 as a function of the model's state -/
def run3 {X : Type}
    (L : List (Bytes × Unit) → CheckedFiles → List (Bytes × pathInfo) → Int → List File → List Int → M X)
    (s : Zip.St) : M X :=
  L (epOf s.errPaths) (embCF s.cf) (ofCC s.cc) s.maxSize (s.validFiles.map toGFile) (s.validFiles.map (·.size))

/-- a call of `addError` followed by the next iteration -/
theorem ae_run {X : Type} (txt : String) (r : Zip.Reason) (h : reasonText r = txt) (s : Zip.St) (path : Bytes)
    (omitted : Bool) (fuel : Nat) (vf : List File) (vs : List Int)
    (L : List (Bytes × Unit) → CheckedFiles → List (Bytes × pathInfo) → Int → List File → List Int → M X) :
    (Generated.Zip.checkFiles_addError cfp ef pgv sf tl vc vl fuel vf vs path omitted (some txt)
        (epOf s.errPaths) (embCF s.cf) >>= fun t =>
      L t.2.1 t.2.2 (ofCC s.cc) s.maxSize (s.validFiles.map toGFile) (s.validFiles.map (·.size))) =
      run3 L (s.addError path omitted r) := by
  subst h
  rw [addError_eq]
  simp only [bind_ok, run3, addError_cc, addError_maxSize, addError_validFiles]


theorem toGFile_ok (f : Zip.FileInfo) (h : (f.mode == Zip.Mode.lstatErr) = false) :
    toGFile f = { Path := f.path,
                  Lstat := ({ Mode := modeBits f.mode, IsDir := f.mode == Zip.Mode.dir, Size := f.size }, none),
                  Open := (f.content, none) } := by
  simp [toGFile, h]

theorem maxGoMod_cast : ((Zip.MaxGoMod : Nat) : Int) = 16777216 := by decide
theorem maxLICENSE_cast : ((Zip.MaxLICENSE : Nat) : Int) = 16777216 := by decide

/-- the end of the loop body (the two per-file size limits, then the file is valid) from the state `s2` after the size
    accounting -/
theorem sized_tail {X : Type} (s2 : Zip.St) (f : Zip.FileInfo) (gf : File) (hgf : toGFile f = gf) (fuel : Nat)
    (vf : List File) (vs : List Int)
    (L : List (Bytes × Unit) → CheckedFiles → List (Bytes × pathInfo) → Int → List File → List Int → M X) :
    (if (decide (f.path = ([103, 111, 46, 109, 111, 100] : Bytes)) && decide (f.size > (16777216 : Int))) = true then
        (Generated.Zip.checkFiles_addError cfp ef pgv sf tl vc vl fuel vf vs f.path false (some "errGoModSize")
          (epOf s2.errPaths) (embCF s2.cf) >>= fun t =>
        L t.2.1 t.2.2 (ofCC s2.cc) s2.maxSize (s2.validFiles.map toGFile) (s2.validFiles.map (·.size)))
      else if (decide (f.path = ([76, 73, 67, 69, 78, 83, 69] : Bytes)) && decide (f.size > (16777216 : Int))) = true then
        (Generated.Zip.checkFiles_addError cfp ef pgv sf tl vc vl fuel vf vs f.path false (some "errLICENSESize")
          (epOf s2.errPaths) (embCF s2.cf) >>= fun t =>
        L t.2.1 t.2.2 (ofCC s2.cc) s2.maxSize (s2.validFiles.map toGFile) (s2.validFiles.map (·.size)))
      else
        L (epOf s2.errPaths)
          { Valid := (embCF s2.cf).Valid ++ [f.path], Omitted := (embCF s2.cf).Omitted,
            Invalid := (embCF s2.cf).Invalid, SizeError := (embCF s2.cf).SizeError }
          (ofCC s2.cc) s2.maxSize (s2.validFiles.map toGFile ++ [gf]) (s2.validFiles.map (·.size) ++ [f.size])) =
      run3 L (if f.path == Zip.goModName && f.size > Zip.MaxGoMod then s2.addError f.path false .goModSize
        else if f.path == Zip.licenseName && f.size > Zip.MaxLICENSE then s2.addError f.path false .licenseSize
        else s2.pushValid f) := by
  subst hgf
  have bA : (decide (f.path = ([103, 111, 46, 109, 111, 100] : Bytes)) && decide (f.size > (16777216 : Int))) =
      (f.path == Zip.goModName && decide (f.size > (Zip.MaxGoMod : Int))) := by
    rw [maxGoMod_cast, Bool.beq_eq_decide_eq]; rfl
  have bB : (decide (f.path = ([76, 73, 67, 69, 78, 83, 69] : Bytes)) && decide (f.size > (16777216 : Int))) =
      (f.path == Zip.licenseName && decide (f.size > (Zip.MaxLICENSE : Int))) := by
    rw [maxLICENSE_cast, Bool.beq_eq_decide_eq]; rfl
  rw [bA, bB]
  by_cases hA : (f.path == Zip.goModName && decide (f.size > (Zip.MaxGoMod : Int))) = true
  · rw [if_pos hA, if_pos hA]
    exact ae_run cfp ef pgv sf tl vc vl _ .goModSize rfl s2 _ _ _ _ _ _
  rw [if_neg hA, if_neg hA]
  by_cases hB : (f.path == Zip.licenseName && decide (f.size > (Zip.MaxLICENSE : Int))) = true
  · rw [if_pos hB, if_pos hB]
    exact ae_run cfp ef pgv sf tl vc vl _ .licenseSize rfl s2 _ _ _ _ _ _
  rw [if_neg hB, if_neg hB]
  simp only [run3, Zip.St.pushValid, List.map_append, List.map_cons, List.map_nil]
  rfl

end

section
variable (ef : Bytes → Bytes → Bool) (pgv : Bytes → Bytes → Bytes) (sf : Int → Int)
  (tl : Bytes → Bytes) (vc : Bytes → Bytes → Int) (vl : Bytes → Bytes)

theorem loop3_step (E : Zip.Env) (K : Nat) (hsf : FoldsTo sf K) (hE : E.toFold = Zip.strToFold)
    (htl : ∀ s, decide (tl s = Zip.goModName) = Zip.toLowerIsGoMod s)
    (vers : Bytes) (ge : Bool) (hge : ge = decide (0 ≤ vc vers go124)) (hgm : List Bytes)
    (done : List Zip.FileInfo) (f : Zip.FileInfo) (rest : List Zip.FileInfo) (fuel : Nat) (s : Zip.St)
    (hfuel : 3 * f.path.length + K + 5 ≤ fuel) :
    run3 (Generated.Zip.checkFiles_loop3 (cfpOf E) ef pgv sf tl vc vl ((done ++ f :: rest).map toGFile) (hgOf hgm) vers
        (fuel + 1) (done.length : Int)) s =
      run3 (Generated.Zip.checkFiles_loop3 (cfpOf E) ef pgv sf tl vc vl ((done ++ f :: rest).map toGFile) (hgOf hgm) vers
        fuel ((done.length + 1 : Nat) : Int)) (Zip.stepFile E ge hgm s f) := by
  unfold run3
  rw [Generated.Zip.checkFiles_loop3]
  have hi : ((done.length + 1 : Nat) : Int) = (done.length : Int) + 1 := by omega
  have hv := isVendoredPackage_eq vc f.path vers ge hge
  have hsub := inSubmodule_eq (cfpOf E) ef pgv sf tl vc vl hgm fuel f.path (by omega)
  simp only [lt_len_map_toGFile, if_true, idxL_map_toGFile, bind_ok]
  rw [toGFile_Path]
  simp only [hi, hv, hsub, bind_ok]
  generalize (done ++ f :: rest).map toGFile = G
  generalize hS : Zip.stepFile E ge hgm s f = S
  have b1 : (!decide (f.path = GoRt.pathClean f.path)) = (f.path != PathClean.pathClean f.path) := by
    show _ = !(f.path == _)
    rw [Bool.beq_eq_decide_eq]; rfl
  have b2 : GoRt.pathIsAbs f.path = PathClean.isAbs f.path := rfl
  have b5 : decide (f.path = ([46, 104, 103, 95, 97, 114, 99, 104, 105, 118, 97, 108, 46, 116, 120, 116] : Bytes)) =
      (f.path == Zip.hgArchivalName) := by
    rw [Bool.beq_eq_decide_eq]; rfl
  have b6 : (!(cfpOf E f.path).isNone) = !E.cfp f.path := by
    unfold cfpOf; cases E.cfp f.path <;> rfl
  have b7 : (decide (tl f.path = ([103, 111, 46, 109, 111, 100] : Bytes)) &&
      !decide (f.path = ([103, 111, 46, 109, 111, 100] : Bytes))) =
      (Zip.toLowerIsGoMod f.path && f.path != Zip.goModName) := by
    have := htl f.path
    unfold Zip.goModName at this
    rw [this]
    congr 1
    show _ = !(f.path == _)
    rw [Bool.beq_eq_decide_eq]; rfl
  simp only [b1, b2, b5, b6, b7]
  by_cases h1 : (f.path != PathClean.pathClean f.path) = true
  · have : S = s.addError f.path false .notClean := by rw [← hS, Zip.stepFile, if_pos h1]
    subst this
    rw [if_pos h1]
    exact ae_run (cfpOf E) ef pgv sf tl vc vl _ .notClean rfl s _ _ _ _ _ _
  rw [if_neg h1]
  by_cases h2 : PathClean.isAbs f.path = true
  · have : S = s.addError f.path false .notRelative := by rw [← hS, Zip.stepFile, if_neg h1, if_pos h2]
    subst this
    rw [if_pos h2]
    exact ae_run (cfpOf E) ef pgv sf tl vc vl _ .notRelative rfl s _ _ _ _ _ _
  rw [if_neg h2]
  by_cases h3 : Zip.isVendoredPackage f.path ge = true
  · have : S = s.addError f.path true .vendored := by rw [← hS, Zip.stepFile, if_neg h1, if_neg h2, if_pos h3]
    subst this
    rw [if_pos h3]
    exact ae_run (cfpOf E) ef pgv sf tl vc vl _ .vendored rfl s _ _ _ _ _ _
  rw [if_neg h3]
  by_cases h4 : Zip.inSubmodule hgm f.path = true
  · have : S = s.addError f.path true .submoduleFile := by
      rw [← hS, Zip.stepFile, if_neg h1, if_neg h2, if_neg h3, if_pos h4]
    subst this
    rw [if_pos h4]
    exact ae_run (cfpOf E) ef pgv sf tl vc vl _ .submoduleFile rfl s _ _ _ _ _ _
  rw [if_neg h4]
  by_cases h5 : (f.path == Zip.hgArchivalName) = true
  · have : S = s.addError f.path true .hgArchival := by
      rw [← hS, Zip.stepFile, if_neg h1, if_neg h2, if_neg h3, if_neg h4, if_pos h5]
    subst this
    rw [if_pos h5]
    exact ae_run (cfpOf E) ef pgv sf tl vc vl _ .hgArchival rfl s _ _ _ _ _ _
  rw [if_neg h5]
  by_cases h6 : (!E.cfp f.path) = true
  · have : S = s.addError f.path false .filePath := by
      rw [← hS, Zip.stepFile, if_neg h1, if_neg h2, if_neg h3, if_neg h4, if_neg h5, if_pos h6]
    subst this
    have hc : cfpOf E f.path = some "filepath" := by
      unfold cfpOf
      cases hcf : E.cfp f.path with
      | true => rw [hcf] at h6; cases h6
      | false => rfl
    rw [if_pos h6, hc]
    exact ae_run (cfpOf E) ef pgv sf tl vc vl _ .filePath rfl s _ _ _ _ _ _
  rw [if_neg h6]
  by_cases h7 : (Zip.toLowerIsGoMod f.path && f.path != Zip.goModName) = true
  · have : S = s.addError f.path false .goModCase := by
      rw [← hS, Zip.stepFile, if_neg h1, if_neg h2, if_neg h3, if_neg h4, if_neg h5, if_neg h6, if_pos h7]
    subst this
    rw [if_pos h7]
    exact ae_run (cfpOf E) ef pgv sf tl vc vl _ .goModCase rfl s _ _ _ _ _ _
  rw [if_neg h7]
  have hS' : S = Zip.stepStat E s f := by
    rw [← hS, Zip.stepFile, if_neg h1, if_neg h2, if_neg h3, if_neg h4, if_neg h5, if_neg h6, if_neg h7]
  clear hS b1 b2 b5 b6 b7 hv hsub
  subst hS'
  have hcr : Proofs.ZipA.CleanRel f.path := by
    constructor
    · have : ¬ (f.path ≠ PathClean.pathClean f.path) := by simpa using h1
      exact (Classical.not_not.mp this).symm
    · simpa using h2
  have hcc := fun d => check_cleanRel sf K hsf fuel s.cc f.path d hcr hfuel
  simp only [toGFile]
  unfold Zip.stepStat
  rw [hE]
  by_cases hm : (f.mode == Zip.Mode.lstatErr) = true
  · simp only [hm, if_true, Option.isNone_some, Bool.not_false]
    exact ae_run (cfpOf E) ef pgv sf tl vc vl _ .lstat rfl s _ _ _ _ _ _
  simp only [hm, Bool.false_eq_true, if_false, Option.isNone_none, Bool.not_true, hcc, bind_ok]
  have hm' : (f.mode == Zip.Mode.lstatErr) = false := by simpa using hm
  have hmne : f.mode ≠ .lstatErr := by simpa using hm
  generalize Zip.ccCheckTop Zip.strToFold s.cc f.path (f.mode == Zip.Mode.dir) = r
  obtain ⟨cc', o⟩ := r
  cases o with
  | some e =>
    simp only [Option.map_some, Option.isNone_some, Bool.not_false, if_true]
    exact ae_run (cfpOf E) ef pgv sf tl vc vl _ e rfl (s.setCC cc') _ _ _ _ _ _
  | none =>
    simp only [Option.map_none, Option.isNone_none, Bool.not_true, Bool.false_eq_true, if_false]
    have b8 := isSymlink_modeBits f.mode hmne
    have b9 : (!modeIsRegular (modeBits f.mode)) = (f.mode != .regular) := by
      rw [modeIsRegular_modeBits _ hmne]; rfl
    rw [b8, b9]
    generalize hS : Zip.stepMode (s.setCC cc') f = S
    by_cases h8 : (f.mode == Zip.Mode.symlink) = true
    · have : S = (s.setCC cc').addError f.path true .symlink := by rw [← hS, Zip.stepMode, if_pos h8]
      subst this
      rw [if_pos h8]
      exact ae_run (cfpOf E) ef pgv sf tl vc vl _ .symlink rfl (s.setCC cc') _ _ _ _ _ _
    rw [if_neg h8]
    by_cases h9 : (f.mode != Zip.Mode.regular) = true
    · have : S = (s.setCC cc').addError f.path true .notRegular := by
        rw [← hS, Zip.stepMode, if_neg h8, if_pos h9]
      subst this
      rw [if_pos h9]
      exact ae_run (cfpOf E) ef pgv sf tl vc vl _ .notRegular rfl (s.setCC cc') _ _ _ _ _ _
    rw [if_neg h9]
    have hS' : S = Zip.stepSized (s.setCC cc') f := by rw [← hS, Zip.stepMode, if_neg h8, if_neg h9]
    subst hS'
    clear hS
    have hgf := toGFile_ok f hm'
    have key := fun s2 => sized_tail (cfpOf E) ef pgv sf tl vc vl s2 f _ hgf fuel
      (List.map toGFile s.validFiles) (List.map (fun x => x.size) s.validFiles)
      (Generated.Zip.checkFiles_loop3 (cfpOf E) ef pgv sf tl vc vl G (hgOf hgm) vers fuel ((done.length : Int) + 1))
    have hstep : Zip.stepSized (s.setCC cc') f =
        (if f.path == Zip.goModName && f.size > Zip.MaxGoMod then
            ((s.setCC cc').account f.size).addError f.path false .goModSize
          else if f.path == Zip.licenseName && f.size > Zip.MaxLICENSE then
            ((s.setCC cc').account f.size).addError f.path false .licenseSize
          else ((s.setCC cc').account f.size).pushValid f) := rfl
    by_cases hA : (decide (f.size ≥ 0) && decide (f.size ≤ s.maxSize)) = true
    · rw [if_pos hA]
      have hacc : (s.setCC cc').account f.size = { s.setCC cc' with maxSize := s.maxSize - f.size } := by
        unfold Zip.St.account
        have hA' : 0 ≤ f.size ∧ f.size ≤ s.maxSize := by simpa using hA
        rw [if_pos (show 0 ≤ f.size ∧ f.size ≤ (s.setCC cc').maxSize from hA')]
        rfl
      have := key ((s.setCC cc').account f.size)
      rw [← hstep, hacc] at this
      exact this
    rw [if_neg hA]
    have hnacc : ¬ (0 ≤ f.size ∧ f.size ≤ (s.setCC cc').maxSize) := by
      intro h
      have h' : 0 ≤ f.size ∧ f.size ≤ s.maxSize := h
      apply hA; simpa using h'
    by_cases hB : s.cf.sizeError = true
    · have hnone : ((embCF s.cf).SizeError.isNone) = false := by simp [embCF, hB]
      simp only [hnone, Bool.false_eq_true, if_false]
      have hacc : (s.setCC cc').account f.size = s.setCC cc' := by
        unfold Zip.St.account
        rw [if_neg hnacc]
        obtain ⟨⟨v, om, iv, se⟩, ep, vfs, cc, ms⟩ := s
        simp only at hB
        subst hB
        rfl
      have := key ((s.setCC cc').account f.size)
      rw [← hstep, hacc] at this
      exact this
    · have hB' : s.cf.sizeError = false := by simpa using hB
      have hnone : ((embCF s.cf).SizeError.isNone) = true := by simp [embCF, hB']
      simp only [hnone, if_true]
      have hacc : (s.setCC cc').account f.size =
          { s.setCC cc' with cf := { s.cf with sizeError := true } } := by
        unfold Zip.St.account
        rw [if_neg hnacc]
        rfl
      have := key ((s.setCC cc').account f.size)
      rw [← hstep, hacc] at this
      exact this

/-- loop 3 from position `done.length` on: the fold of `stepFile` -/
theorem loop3_from (E : Zip.Env) (K : Nat) (hsf : FoldsTo sf K) (hE : E.toFold = Zip.strToFold)
    (htl : ∀ s, decide (tl s = Zip.goModName) = Zip.toLowerIsGoMod s)
    (vers : Bytes) (ge : Bool) (hge : ge = decide (0 ≤ vc vers go124)) (hgm : List Bytes) (B : Nat) :
    ∀ (rest done : List Zip.FileInfo) (fuel : Nat) (s : Zip.St),
    (∀ f ∈ rest, 3 * f.path.length + K + 5 ≤ B) → rest.length + 1 + B ≤ fuel →
    run3 (Generated.Zip.checkFiles_loop3 (cfpOf E) ef pgv sf tl vc vl ((done ++ rest).map toGFile) (hgOf hgm) vers
        fuel (done.length : Int)) s =
      .ok (((done ++ rest).length : Int), epOf (rest.foldl (Zip.stepFile E ge hgm) s).errPaths,
        embCF (rest.foldl (Zip.stepFile E ge hgm) s).cf, ofCC (rest.foldl (Zip.stepFile E ge hgm) s).cc,
        (rest.foldl (Zip.stepFile E ge hgm) s).maxSize, (rest.foldl (Zip.stepFile E ge hgm) s).validFiles.map toGFile,
        (rest.foldl (Zip.stepFile E ge hgm) s).validFiles.map (·.size)) := by
  intro rest
  induction rest with
  | nil =>
    intro done fuel s _ hf
    obtain ⟨fuel, rfl⟩ : ∃ k, fuel = k + 1 := ⟨fuel - 1, by omega⟩
    unfold run3
    rw [Generated.Zip.checkFiles_loop3]
    simp only [List.append_nil, not_lt_len_map_toGFile, Bool.false_eq_true, if_false, List.foldl_nil]
    rfl
  | cons f rest ih =>
    intro done fuel s hB hf
    obtain ⟨fuel, rfl⟩ : ∃ k, fuel = k + 1 := ⟨fuel - 1, by omega⟩
    have hfB := hB f List.mem_cons_self
    simp only [List.length_cons] at hf
    rw [loop3_step ef pgv sf tl vc vl E K hsf hE htl vers ge hge hgm done f rest fuel s (by omega)]
    have e : done ++ f :: rest = (done ++ [f]) ++ rest := by simp
    have hl : ((done.length + 1 : Nat) : Int) = ((done ++ [f]).length : Int) := by simp
    rw [e, hl, ih (done ++ [f]) fuel (Zip.stepFile E ge hgm s f)
      (fun g hg => hB g (List.mem_cons_of_mem _ hg)) (by omega)]
    rfl

end

end ModVerif.TieFnZipCf
