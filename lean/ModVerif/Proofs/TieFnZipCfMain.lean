/-
  Tie proof, zip/zip.go `checkFiles`: one iteration of the main loop (`checkFiles_loop3`) is one `Zip.stepFile` of the
  model's `mainPass`, and the loop is the fold.
-/
import ModVerif.Proofs.TieFnZipCfBase
import ModVerif.Proofs.TieFnZipCfSub
import ModVerif.Proofs.TieFnZipCfPre
import ModVerif.Proofs.TieFnZipVendor
namespace ModVerif.TieFnZipCf
open ModVerif ModVerif.GoRt ModVerif.GoRtZip ModVerif.TieFnZip
open ModVerif.Generated.Zip (pathInfo File FileError CheckedFiles)
open ModVerif.Drv.GenZip (toGFile modeBits)

/-- `module.CheckFilePath` as the driver instantiates it from the model's predicate -/
def cfpOf (E : Zip.Env) : Bytes → Option String := fun p => if E.cfp p then none else some "filepath"

/-! ### the collision check on the paths that reach it -/

theorem ccStep_reason (tf : Bytes → Bytes) (cc : Zip.CC) (p : Bytes) (d : Bool) (e : Zip.Reason)
    (h : (Zip.ccStep tf cc p d).2 = some e) : errText e = reasonText e := by
  unfold Zip.ccStep at h
  split at h
  · split at h
    · cases h; rfl
    · split at h
      · cases h; rfl
      · split at h
        · cases h; rfl
        · cases h
  · cases h

theorem ccCheck_reason (tf : Bytes → Bytes) : ∀ (n : Nat) (cc : Zip.CC) (p : Bytes) (d : Bool) (e : Zip.Reason),
    (Zip.ccCheck tf n cc p d).2 = some e → e ≠ .panic → errText e = reasonText e := by
  intro n
  induction n with
  | zero => intro cc p d e h hne; cases h; exact absurd rfl hne
  | succ n ih =>
    intro cc p d e h hne
    unfold Zip.ccCheck at h
    cases hs : Zip.ccStep tf cc p d with
    | mk cc' o =>
      rw [hs] at h
      cases o with
      | some e' =>
        simp only at h
        cases h
        exact ccStep_reason tf cc p d e (by rw [hs])
      | none =>
        simp only at h
        split at h
        · exact ih _ _ _ e h hne
        · cases h

/-- the collision check of `checkFiles` on a clean relative path: the model's `ccCheckTop`, errors as `reasonText` -/
theorem check_cleanRel (sf : Int → Int) (K : Nat) (hsf : FoldsTo sf K) (fuel : Nat) (cc : Zip.CC) (p : Bytes)
    (d : Bool) (hp : Proofs.ZipA.CleanRel p) (hf : 3 * p.length + K + 5 ≤ fuel) :
    Generated.Zip.collisionChecker_check sf fuel (ofCC cc) p d =
      .ok ((Zip.ccCheckTop Zip.strToFold cc p d).2.map reasonText, ofCC (Zip.ccCheckTop Zip.strToFold cc p d).1) := by
  have hne : p ≠ [] := by
    intro h; have := hp.clean; rw [h] at this; exact absurd this (by decide)
  have hl : 1 ≤ p.length := by cases p with | nil => exact absurd rfl hne | cons _ _ => simp
  have hok := Proofs.ZipA.fuelOK_cleanRel (p.length + 1) p hp (by omega)
  have hnp := ccCheck_ne_panic Zip.strToFold (p.length + 1) cc p d hok
  have := check_eq sf K hsf (p.length + 1) fuel (ofCC cc) p d (by rw [toCC_ofCC]; exact hnp) (by omega)
  rw [this, toCC_ofCC]
  unfold ccOut Zip.ccCheckTop
  congr 2
  cases hr : (Zip.ccCheck Zip.strToFold (p.length + 1) cc p d).2 with
  | none => rfl
  | some e =>
    simp only [Option.map_some]
    congr 1
    exact ccCheck_reason Zip.strToFold _ cc p d e hr (by intro he; rw [he] at hr; exact hnp hr)

/-! ### one iteration of the main loop -/

section
variable (ef : Bytes → Bytes → Bool) (pgv : Bytes → Bytes → Bytes) (sf : Int → Int)
  (tl : Bytes → Bytes) (vc : Bytes → Bytes → Int) (vl : Bytes → Bytes)

theorem loop3_step (E : Zip.Env) (K : Nat) (hsf : FoldsTo sf K) (hE : E.toFold = Zip.strToFold)
    (htl : ∀ s, decide (tl s = Zip.goModName) = Zip.toLowerIsGoMod s)
    (vers : Bytes) (ge : Bool) (hge : ge = decide (0 ≤ vc vers go124)) (hgm : List Bytes)
    (done : List Zip.FileInfo) (f : Zip.FileInfo) (rest : List Zip.FileInfo) (fuel : Nat) (s : Zip.St)
    (hfuel : 3 * f.path.length + K + 5 ≤ fuel) :
    Generated.Zip.checkFiles_loop3 (cfpOf E) ef pgv sf tl vc vl ((done ++ f :: rest).map toGFile) (hgOf hgm) vers
        (fuel + 1) (done.length : Int) (epOf s.errPaths) (embCF s.cf) (ofCC s.cc) s.maxSize
        (s.validFiles.map toGFile) (s.validFiles.map (·.size)) =
      Generated.Zip.checkFiles_loop3 (cfpOf E) ef pgv sf tl vc vl ((done ++ f :: rest).map toGFile) (hgOf hgm) vers
        fuel ((done.length + 1 : Nat) : Int) (epOf (Zip.stepFile E ge hgm s f).errPaths)
        (embCF (Zip.stepFile E ge hgm s f).cf) (ofCC (Zip.stepFile E ge hgm s f).cc)
        (Zip.stepFile E ge hgm s f).maxSize ((Zip.stepFile E ge hgm s f).validFiles.map toGFile)
        ((Zip.stepFile E ge hgm s f).validFiles.map (·.size)) := by
  rw [Generated.Zip.checkFiles_loop3]
  have hi : ((done.length + 1 : Nat) : Int) = (done.length : Int) + 1 := by omega
  have hv := isVendoredPackage_eq vc f.path vers ge hge
  have hsub := inSubmodule_eq (cfpOf E) ef pgv sf tl vc vl hgm fuel f.path (by omega)
  simp only [lt_len_map_toGFile, if_true, idxL_map_toGFile, bind_ok, toGFile_Path, hi, hv, hsub]
  generalize (done ++ f :: rest).map toGFile = G
  trace_state
  sorry
end

end ModVerif.TieFnZipCf
