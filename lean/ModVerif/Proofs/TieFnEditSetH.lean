/-
  Helper lemmas for Tie/FnEditSet.lean, `File.SetRequireSeparateIndirect`, part 5: the closure `moveReq` as equations on
  the heap (an existing requirement: copy of its line under a new pointer, the old line's tokens cleared; a new requirement:
  a fresh line), and the graph lemma for appending a new line to the block at a statement index (`appendToBlock`).
-/
import ModVerif.Proofs.TieFnEditSetG
set_option linter.unusedSimpArgs false
set_option linter.unusedVariables false
namespace ModVerif.Tie.FnEditSetH
open ModVerif ModVerif.GoRt ModVerif.Generated.Edit ModVerif.Tie.FnEditRep ModVerif.Tie.FnEditTreeA ModVerif.Tie.FnEditSetA
  ModVerif.Tie.FnEditSetB ModVerif.Tie.FnEditSetD ModVerif.Tie.FnEditSetE ModVerif.Tie.FnEditSetF ModVerif.Tie.FnEditSetG
open ModVerif.Modfile.Edit (EFile treeIds appendToBlock headIs mkLine setIndirectLine)

/-! ### allocate, then read / write the fresh and the old objects -/

theorem heapSet_alloc_new {α : Type} (l : List α) (v v' : α) :
    heapSet (l ++ [v]) ((l.length + 1 : Nat) : Int) v' = .ok (l ++ [v']) := by
  rw [heapSet_of_get v' (heapGet_alloc_new l v)]
  have : ((l.length + 1 : Nat) : Int).toNat - 1 = l.length := by omega
  rw [this, set_alloc_last]

theorem heapSet_alloc_old {α : Type} {l : List α} {p : Int} {w : α} (v w' : α) (h : heapGet l p = .ok w) :
    heapSet (l ++ [v]) p w' = .ok (l.set (p.toNat - 1) w' ++ [v]) := by
  rw [heapSet_of_get w' (heapGet_alloc_old v h)]
  have := heapGet_le_length h
  have hp := heapGet_pos h
  rw [List.set_append_left _ _ (by omega)]

theorem heapGet_setalloc_new {α : Type} (l : List α) (k : Nat) (w' v : α) :
    heapGet (l.set k w' ++ [v]) ((l.length + 1 : Nat) : Int) = .ok v := by
  have := heapGet_alloc_new (l.set k w') v
  simpa using this

theorem heapSet_setalloc_new {α : Type} (l : List α) (k : Nat) (w' v v' : α) :
    heapSet (l.set k w' ++ [v]) ((l.length + 1 : Nat) : Int) v' = .ok (l.set k w' ++ [v']) := by
  have := heapSet_alloc_new (l.set k w') v v'
  simpa using this

theorem heapGet_alloc_new' {α : Type} (l : List α) (v : α) : heapGet (l ++ [v]) ((l.length : Int) + 1) = .ok v := by
  have := heapGet_alloc_new l v
  simpa using this

theorem heapSet_alloc_new' {α : Type} (l : List α) (v v' : α) : heapSet (l ++ [v]) ((l.length : Int) + 1) v' = .ok (l ++ [v']) := by
  have := heapSet_alloc_new l v v'
  simpa using this

/-! ### moveReq, existing requirement -/

/-- the token list of the moved copy -/
def moveTok (l : Modfile.Line) : List Bytes :=
  if !l.inBlock && !l.token.isEmpty && headIs l.token (B "require") then l.token.drop 1 else l.token

/-- the heap after `moveReq(r, block)` for a requirement with a syntax line -/
def moveHeap (h : Heap) (r : Int) (rq : Modfile.Require) (l : Modfile.Line) (bp : Int) (blk : LineBlock) : Heap :=
  { h with
    lines := h.lines.set (rq.lineId - 1) (lineG { l with token := [] }) ++
      [lineG { l with id := h.lines.length + 1, token := moveTok l, inBlock := true }],
    requires := h.requires.set (r.toNat - 1) (requireG { rq with lineId := h.lines.length + 1 }),
    blocks := h.blocks.set (bp.toNat - 1) { blk with Line := blk.Line ++ [((h.lines.length + 1 : Nat) : Int)] } }

theorem moveReq_existing_eq (isPrint : Int → Bool) (quote : Bytes → Bytes) (fuel : Nat) {h : Heap} {r : Int} {rq : Modfile.Require}
    {l : Modfile.Line} {bp : Int} {blk : LineBlock} (hr : heapGet h.requires r = .ok (requireG rq)) (h0 : rq.lineId ≠ 0)
    (hl : heapGet h.lines (rq.lineId : Int) = .ok (lineG l)) (hb : heapGet h.blocks bp = .ok blk) :
    File_SetRequireSeparateIndirect_moveReq isPrint quote fuel r bp h = .ok ((), moveHeap h r rq l bp blk) := by
  have hne : ¬ ((rq.lineId : Int) = 0) := by omega
  have hnp : ((h.lines.length + 1 : Nat) : Int) ≠ (rq.lineId : Int) := by
    have := heapGet_le_length hl; omega
  have htn : ((rq.lineId : Nat) : Int).toNat - 1 = rq.lineId - 1 := by omega
  unfold File_SetRequireSeparateIndirect_moveReq
  simp only [bind, Except.bind, pure, Except.pure, hr, requireG_Syntax, hne, decide_false, Bool.false_eq_true, if_false, heapAlloc,
    heapGet_alloc_old _ hl, heapGet_alloc_new, heapSet_alloc_new, lineG_InBlock, lineG_Token]
  rcases l with ⟨id, coms, st, tok, ib, en⟩
  cases ib with
  | true =>
    simp only [Bool.not_true, Bool.false_eq_true, if_false, heapGet_alloc_old _ hl, heapSet_alloc_old _ _ hl, htn,
      heapSet_of_get _ hr, fun X => heapGet_listSet_same X hr, fun X Y => heapSet_listSet_same hr X Y, heapGet_setalloc_new,
      heapSet_setalloc_new, hb, heapSet_of_get _ hb]
    simp [moveHeap, moveTok, lineG, requireG]
  | false =>
    cases tok with
    | nil =>
      simp only [Bool.not_false, if_true, len_nil, gt_iff_lt, Int.lt_irrefl, decide_false, Bool.false_eq_true, if_false,
        heapGet_alloc_old _ hl, heapSet_alloc_old _ _ hl, htn,
        heapSet_of_get _ hr, fun X => heapGet_listSet_same X hr, fun X Y => heapSet_listSet_same hr X Y, heapGet_setalloc_new,
        heapSet_setalloc_new, hb, heapSet_of_get _ hb, heapGet_alloc_new]
      try simp [moveHeap, moveTok, lineG, requireG]
    | cons t0 ts =>
      have hpos' : 0 < len ts + 1 := by have := len_nonneg ts; omega
      have hpos : len (t0 :: ts) > 0 := by rw [len_cons]; omega
      by_cases e : t0 = [114, 101, 113, 117, 105, 114, 101]
      · simp only [Bool.not_false, if_true, hpos, decide_true, idxL_zero_cons, e, heapGet_alloc_new, sliceFrom_one_cons,
          heapSet_alloc_new,
          heapGet_alloc_old _ hl, heapSet_alloc_old _ _ hl, htn,
          heapSet_of_get _ hr, fun X => heapGet_listSet_same X hr, fun X Y => heapSet_listSet_same hr X Y, heapGet_setalloc_new,
          heapSet_setalloc_new, hb, heapSet_of_get _ hb]
        simp [moveHeap, moveTok, lineG, requireG, headIs, B_require, hpos']
      · simp only [Bool.not_false, if_true, hpos, decide_true, idxL_zero_cons, e, decide_false, Bool.false_eq_true, if_false,
          heapGet_alloc_new, heapSet_alloc_new,
          heapGet_alloc_old _ hl, heapSet_alloc_old _ _ hl, htn,
          heapSet_of_get _ hr, fun X => heapGet_listSet_same X hr, fun X Y => heapSet_listSet_same hr X Y, heapGet_setalloc_new,
          heapSet_setalloc_new, hb, heapSet_of_get _ hb]
        simp [moveHeap, moveTok, lineG, requireG, headIs, B_require, e, hpos']

/-! ### moveReq, new requirement (`r.Syntax == nil`) -/

/-- `AutoQuote` of this unit computes the model's `autoQuote` (Tie/FnModfile.AutoQuote_tie through FnEditTreeB.AutoQuote_eq) -/
def AutoQuoteSpec (isPrint : Int → Bool) (quote : Bytes → Bytes) : Prop :=
  ∀ (s : Bytes) (fuel : Nat), s.length + 1 ≤ fuel → AutoQuote isPrint quote fuel s = .ok (Modfile.autoQuote s)

/-- the line of a new requirement as the model's `addSepNew` builds it -/
def sepNewLine (id : Nat) (toks : List Bytes) (ind : Bool) : Modfile.Line :=
  if ind then setIndirectLine true (mkLine id toks true) else mkLine id toks true

theorem setIndirect_mkLine (id : Nat) (toks : List Bytes) :
    ({ lineG (setIndirectLine true (mkLine id toks false)) with InBlock := true } : Line) =
      lineG (setIndirectLine true (mkLine id toks true)) := by
  simp [setIndirectLine, Modfile.isIndirect, mkLine, lineG]

/-- the heap after `moveReq(r, block)` for a fresh requirement -/
def newHeap (h : Heap) (r : Int) (rq : Modfile.Require) (bp : Int) (blk : LineBlock) : Heap :=
  { h with
    lines := h.lines ++ [lineG (sepNewLine (h.lines.length + 1) [Modfile.autoQuote rq.mod.path, rq.mod.version] rq.indirect)],
    requires := h.requires.set (r.toNat - 1) (requireG { rq with lineId := h.lines.length + 1 }),
    blocks := h.blocks.set (bp.toNat - 1) { blk with Line := blk.Line ++ [((h.lines.length + 1 : Nat) : Int)] } }

/-- the fresh line before `setIndirect` / `InBlock = true` -/
def line0 (h : Heap) (rq : Modfile.Require) : Modfile.Line :=
  mkLine (h.lines.length + 1) [Modfile.autoQuote rq.mod.path, rq.mod.version] false

/-- the intermediate heap of `moveReq` after `r.Syntax = line` -/
def midHeap (h : Heap) (r : Int) (rq : Modfile.Require) : Heap :=
  { h with lines := h.lines ++ [lineG (line0 h rq)],
           requires := h.requires.set (r.toNat - 1) (requireG { rq with lineId := h.lines.length + 1 }) }

theorem moveReq_new_eq {isPrint : Int → Bool} {quote : Bytes → Bytes} (hAQ : AutoQuoteSpec isPrint quote) {fuel : Nat} {h : Heap} {r : Int}
    {rq : Modfile.Require} {bp : Int} {blk : LineBlock} (hr : heapGet h.requires r = .ok (requireG rq)) (h0 : rq.lineId = 0)
    (hb : heapGet h.blocks bp = .ok blk) (hf : rq.mod.path.length + 1 ≤ fuel) :
    File_SetRequireSeparateIndirect_moveReq isPrint quote fuel r bp h = .ok ((), newHeap h r rq bp blk) := by
  have hz : ((rq.lineId : Nat) : Int) = 0 := by simp [h0]
  unfold File_SetRequireSeparateIndirect_moveReq
  simp only [bind, Except.bind, pure, Except.pure, hr, requireG_Syntax, hz, decide_true, if_true, requireG_Mod,
    mvG_Path, mvG_Version, hAQ _ _ hf, heapAlloc, heapSet_of_get _ hr, fun X => heapGet_listSet_same X hr, requireG_Indirect]
  have hv0 : ({ (default : Line) with Token := [Modfile.autoQuote rq.mod.path, rq.mod.version] } : Line) = lineG (line0 h rq) := rfl
  rw [hv0]
  cases hind : rq.indirect with
  | false =>
    simp only [Bool.false_eq_true, if_false, heapGet_alloc_new, heapSet_alloc_new, hb, heapSet_of_get _ hb]
    simp [newHeap, sepNewLine, hind, lineG, mkLine, requireG, line0]
  | true =>
    simp only [if_true]
    have hr1 : heapGet (midHeap h r rq).requires r = .ok (requireG { rq with lineId := h.lines.length + 1 }) :=
      heapGet_listSet_same _ hr
    have hg1 : heapGet (midHeap h r rq).lines ((({ rq with lineId := h.lines.length + 1 } : Modfile.Require).lineId : Nat) : Int) =
        .ok (lineG (line0 h rq)) := heapGet_alloc_new _ _
    have hrun := Require_setIndirect_eq true hr1 hg1 (fun hb' => by cases hb')
    have hmid : midHeap h r rq =
        { h with
          lines := h.lines ++ [lineG (line0 h rq)],
          requires := h.requires.set (r.toNat - 1)
            { Mod := mvG rq.mod, Indirect := true, Syntax := ((h.lines.length + 1 : Nat) : Int) } } := by
      simp [midHeap, requireG, hind]
    rw [hmid] at hrun
    rw [hrun]
    have hset : (h.lines ++ [lineG (line0 h rq)]).set (((h.lines.length + 1 : Nat) : Int).toNat - 1)
        (lineG (setIndirectLine true (line0 h rq))) = h.lines ++ [lineG (setIndirectLine true (line0 h rq))] := by
      have : ((h.lines.length + 1 : Nat) : Int).toNat - 1 = h.lines.length := by omega
      rw [this, set_alloc_last]
    simp only [setLineH, hset, heapGet_alloc_new, heapSet_alloc_new, hb, heapSet_of_get _ hb, line0, setIndirect_mkLine, List.set_set]
    simp [newHeap, sepNewLine, hind, requireG, heapGet_alloc_new', heapSet_alloc_new', setIndirect_mkLine]
    exact setIndirect_mkLine _ _

end ModVerif.Tie.FnEditSetH
