/-
  Buffer-level lemmas about the printer model (Model/Modfile/Print.lean): the final trimming of
  `Format` and `trim`.
-/
import ModVerif.Model.Modfile.Print
namespace ModVerif.Proofs.ModfilePrint
open ModVerif ModVerif.Modfile

/-- a reversed buffer that ends in a blank line: it is "\n" or ends with "\n\n" -/
def EndsBlankRev : Bytes → Prop
  | [10] => True
  | 10 :: 10 :: _ => True
  | _ => False

theorem trimTrailingBlank_not_blank : ∀ b : Bytes, ¬ EndsBlankRev (trimTrailingBlank b) := by
  intro b
  induction b with
  | nil => simp [trimTrailingBlank, EndsBlankRev]
  | cons c rest ih =>
    unfold trimTrailingBlank
    split
    · rename_i r heq
      simp only [List.cons.injEq] at heq
      obtain ⟨rfl, rfl⟩ := heq
      split
      · simp [EndsBlankRev]
      · exact ih
      · rename_i h1 h2
        cases rest with
        | nil => exact absurd rfl h1
        | cons d t =>
          unfold EndsBlankRev
          split
          · rename_i heq; simp at heq
          · rename_i heq
            simp only [List.cons.injEq, true_and] at heq
            exact fun _ => h2 t (by rw [heq.1])
          · trivial
    · rename_i h
      cases hc : c == 10 with
      | true =>
        have : c = 10 := by simpa using hc
        exact absurd (by rw [this]) (h rest)
      | false =>
        have hne : c ≠ 10 := by simpa using hc
        unfold EndsBlankRev
        split
        · rename_i heq; simp only [List.cons.injEq] at heq; exact fun _ => hne heq.1
        · rename_i heq; simp only [List.cons.injEq] at heq; exact fun _ => hne heq.1
        · exact fun h => h

theorem trimTrailingBlank_of_not_blank : ∀ b : Bytes, ¬ EndsBlankRev b → trimTrailingBlank b = b := by
  intro b h
  unfold trimTrailingBlank
  split
  · rename_i rest
    split
    · exact absurd (by simp [EndsBlankRev]) h
    · rename_i r
      exact absurd (by simp [EndsBlankRev]) h
    · rfl
  · rfl

theorem trimTrailingBlank_idem (b : Bytes) : trimTrailingBlank (trimTrailingBlank b) = trimTrailingBlank b :=
  trimTrailingBlank_of_not_blank _ (trimTrailingBlank_not_blank b)

theorem trim_idem (p : Printer) : p.trim.trim = p.trim := by
  unfold Printer.trim
  simp only
  congr 1
  generalize p.bufRev = l
  induction l with
  | nil => rfl
  | cons c t ih =>
    simp only [List.dropWhile]
    split
    · exact ih
    · rename_i h
      simp only [List.dropWhile, h]

end ModVerif.Proofs.ModfilePrint
