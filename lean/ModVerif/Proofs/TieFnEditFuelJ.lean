/-
  Closed fuel of the FnEdit session ties, part J (agent edit-fuel3): the statement loops of `parseToFile` over the growth
  of one `File.add` step (part I), the invariance of the tree weight under `Edit.load` (`shiftSyntax` renumbers ids only),
  and the conclusion `W (Edit.load f) ≤ 408 · |file| + 102` for a strictly parsed file.

  Potential of the directive layer: `treeW` of the rewritten statements + `fileP` (typed-list lengths, `|go version|`,
  `|module path|`) of the typed file; every statement `x` adds at most `102 · exprW x` (`stmtStep_growth`): a line
  `verb :: args` becomes `verb :: args'` with `tokW args' ≤ 16 · tokW args + 80` and adds `≤ 4 · tokW args + 1` to `fileP`.
-/
import ModVerif.Proofs.TieFnEditFuelI
set_option linter.unusedSimpArgs false
set_option linter.unusedVariables false
namespace ModVerif.Tie.FnEditFuelJ
open ModVerif ModVerif.Modfile ModVerif.Tie.FnEditFuelA ModVerif.Tie.FnEditFuelB ModVerif.Tie.FnEditFuelI
open ModVerif.Proofs.ModfileC20
open ModVerif.Tie.FnEditSortE (goLen)
open ModVerif.Tie.FnEditReqE (modPath)

/-! ### the loops of `parseToFile` -/

theorem addBlockLines_growth (block : Comments) (verb : Bytes) {fix : Option Fixer} (hfix : PlainFix fix) :
    ∀ (ls : List Line) (st : AddState),
      linesW (addBlockLines block verb fix true st ls).2 + fileP (addBlockLines block verb fix true st ls).1.file ≤
        fileP st.file + 102 * linesW ls
  | [], st => by simp [addBlockLines]
  | l :: ls, st => by
    have h1 := add_growth st (some block) l verb l.token hfix
    have h2 := addBlockLines_growth block verb hfix ls (File.add st (some block) l verb l.token fix true).1
    simp only [addBlockLines, linesW_cons, lineW] at h2 ⊢
    omega

theorem stmtStep_growth {fix : Option Fixer} (hfix : PlainFix fix) (st : AddState) (x : Expr) :
    exprW (stmtStep fix true st x).2 + fileP (stmtStep fix true st x).1.file ≤ fileP st.file + 102 * exprW x := by
  unfold stmtStep
  split
  · rename_i l
    split
    · rename_i verb args ht
      have h1 := add_growth st none l verb args hfix
      simp only [exprW, lineW, ht, tokW_cons] at h1 ⊢
      omega
    · simp only; omega
  · rename_i b
    split
    · rename_i verb ht
      split
      · have h := addBlockLines_growth b.comments verb hfix b.lines st
        simp only [exprW] at h ⊢
        omega
      · simp only [if_true, AddState.err]; omega
    · simp only [if_true, AddState.err]; omega
  · simp only; omega

theorem addStmts_growth {fix : Option Fixer} (hfix : PlainFix fix) :
    ∀ (xs : List Expr) (st : AddState),
      treeW (addStmts fix true st xs).2 + fileP (addStmts fix true st xs).1.file ≤ fileP st.file + 102 * treeW xs
  | [], st => by simp [addStmts]
  | x :: xs, st => by
    have h1 := stmtStep_growth hfix st x
    have h2 := addStmts_growth hfix xs (stmtStep fix true st x).1
    rw [addStmts_cons]
    simp only [treeW_cons] at h2 ⊢
    omega

/-- **the typed file of a strict parse weighs at most 102 times the parsed tree** -/
theorem parseStrict_growth {name data : Bytes} {f : File} (h : parseStrict name data none = .ok f) :
    ∃ fs, parse name data = .ok fs ∧ treeW f.syn.stmts + fileP f ≤ 102 * treeW fs.stmts := by
  unfold parseStrict parseToFile at h
  cases hp : parse name data with
  | error e => simp [hp] at h
  | ok fs =>
    refine ⟨fs, rfl, ?_⟩
    have hg := addStmts_growth (Or.inl rfl : PlainFix none) fs.stmts { file := { syn := fs } }
    simp only [hp] at h
    generalize addStmts none true { file := { syn := fs } } fs.stmts = r at h hg
    obtain ⟨st, stmts⟩ := r
    have hfr : ∀ s : AddState, fixRetract s none = s := fun _ => rfl
    simp only [hfr] at h
    cases hE : st.errsRev.isEmpty with
    | false => simp [hE] at h
    | true =>
      simp only [hE, if_true, Except.ok.injEq] at h
      subst h
      simp only [fileP, List.length_nil] at hg ⊢
      omega

/-! ### `Edit.load` -/

theorem shiftLines_linesW : ∀ ls : List Line, linesW (ls.map Edit.shiftLine) = linesW ls
  | [] => rfl
  | l :: ls => by simp [shiftLines_linesW ls, lineW, Edit.shiftLine]

/-- **`shiftSyntax` renumbers ids only: the tree weight is the same** -/
theorem shiftSyntax_treeW (fs : FileSyntax) : treeW (Edit.shiftSyntax fs).stmts = treeW fs.stmts := by
  unfold Edit.shiftSyntax
  simp only
  induction fs.stmts with
  | nil => rfl
  | cons x xs ih =>
    simp only [List.map_cons, treeW_cons, ih]
    cases x <;> simp [exprW, lineW, Edit.shiftLine, shiftLines_linesW]

/-- the potential of the loaded file is the tree weight plus the typed part -/
theorem W_load (f : File) : W (Edit.load f) = treeW f.syn.stmts + fileP f := by
  unfold W listsW goLen modPath Edit.load fileP
  simp only [shiftSyntax_treeW, List.length_map]
  cases f.go <;> cases f.module <;> simp <;> omega

/-- **the potential of the loaded file is linear in the length of the file text** -/
theorem W_load_le {name file : Bytes} {f : File} (h : parseStrict name file none = .ok f) :
    W (Edit.load f) ≤ 408 * file.length + 102 := by
  obtain ⟨fs, hp, hg⟩ := parseStrict_growth h
  have := FnEditFuelH.treeW_parse_le hp
  rw [W_load]; omega

end ModVerif.Tie.FnEditFuelJ
