/-
  Helper lemmas for Tie/FnEditTree.lean: the leaf and simple tree functions of the regenerated edit operations
  (Generated/FnEdit.lean) as equations on the heap: `commentsAdd`, `stringsAdd`, `Line_markRemoved`,
  `FileSyntax_updateLine`, `isIndirect`, `Require_markRemoved`, `Require_setVersion`, `Require_setIndirect`.
  The line object the function works on is `lineG l` for a model line `l` (every line object of a represented heap is one,
  `FnEditRep.LinesG`); the result heap is `setLineH h p (g l)` with `g` the model's line function.
-/
import ModVerif.Proofs.TieFnEditRep
import ModVerif.Proofs.GoRtLemmasModfile
set_option linter.unusedSimpArgs false
set_option linter.unusedVariables false
namespace ModVerif.Tie.FnEditTreeA
open ModVerif ModVerif.GoRt ModVerif.Generated.Edit ModVerif.Tie.FnEditRep

theorem B_indirect : B "indirect" = [105, 110, 100, 105, 114, 101, 99, 116] := by decide +kernel
theorem B_indirectSemi : B "indirect;" = [105, 110, 100, 105, 114, 101, 99, 116, 59] := by decide +kernel
theorem B_indirectTok : Modfile.Edit.indirectTok = [47, 47, 32, 105, 110, 100, 105, 114, 101, 99, 116] := by decide +kernel
theorem B_indirectLong : B "// indirect; " = [47, 47, 32, 105, 110, 100, 105, 114, 101, 99, 116, 59, 32] := by decide +kernel

/-! ### commentsAdd, stringsAdd -/

theorem commentsAdd_eq (x y : List Comment) : commentsAdd x y = .ok (x ++ y) := by
  simp [commentsAdd, bind, Except.bind, pure, Except.pure]

theorem stringsAdd_eq (x y : List Bytes) : stringsAdd x y = .ok (x ++ y) := by
  simp [stringsAdd, bind, Except.bind, pure, Except.pure]

/-! ### Line.markRemoved -/

/-- the model's line function of `markRemoved` -/
def markRemovedLine (l : Modfile.Line) : Modfile.Line := { l with token := [], comments := { l.comments with suffix := [] } }

theorem markRemoved_eq (fs : Modfile.FileSyntax) (id : Nat) : Modfile.Edit.markRemoved fs id = fs.updateLine id markRemovedLine := rfl

theorem Line_markRemoved_eq {h : Heap} {p : Int} {l : Modfile.Line} (hg : heapGet h.lines p = .ok (lineG l)) :
    Line_markRemoved p h = .ok ((), setLineH h p (markRemovedLine l)) := by
  have h1 := heapSet_of_get ({ (lineG l) with Token := [] } : Line) hg
  have h2 := heapGet_listSet_same ({ (lineG l) with Token := [] } : Line) hg
  simp only [Line_markRemoved, hg, h1, bind, Except.bind, pure, Except.pure, h2]
  rw [heapSet_of_get _ h2]
  simp [setLineH, lineG, Drv.GenEdit.comsG, markRemovedLine]

theorem Line_markRemoved_nil {h : Heap} {p : Int} (hp : p ≤ 0) : Line_markRemoved p h = .error .panic := by
  simp only [Line_markRemoved, heapGet_nil _ hp, bind, Except.bind]

/-! ### FileSyntax.updateLine -/

/-- the model's line function of `updateLine` -/
def updateTokLine (tokens : List Bytes) (l : Modfile.Line) : Modfile.Line :=
  { l with token := if l.inBlock then tokens.drop 1 else tokens }

theorem updateLine_eq (fs : Modfile.FileSyntax) (id : Nat) (tokens : List Bytes) :
    Modfile.Edit.updateLine fs id tokens = fs.updateLine id (updateTokLine tokens) := rfl

theorem FileSyntax_updateLine_eq {h : Heap} {x p : Int} {l : Modfile.Line} {tokens : List Bytes}
    (hg : heapGet h.lines p = .ok (lineG l)) (ht : l.inBlock = true → tokens ≠ []) :
    FileSyntax_updateLine x p tokens h = .ok ((), setLineH h p (updateTokLine tokens l)) := by
  unfold FileSyntax_updateLine
  simp only [hg, bind, Except.bind, pure, Except.pure, lineG_InBlock]
  cases hb : l.inBlock with
  | false =>
    simp only [Bool.false_eq_true, if_false]
    rw [heapSet_of_get _ hg]; simp [setLineH, updateTokLine, hb, lineG]
  | true =>
    obtain ⟨t0, ts, rfl⟩ := List.exists_cons_of_ne_nil (ht hb)
    simp only [if_true, sliceFrom_one_cons]
    rw [heapSet_of_get _ hg]; simp [setLineH, updateTokLine, hb, lineG]

/-- Go's `tokens[1:]` on an empty token list for a line inside a block -/
theorem FileSyntax_updateLine_panic {h : Heap} {x p : Int} {l : Modfile.Line}
    (hg : heapGet h.lines p = .ok (lineG l)) (hb : l.inBlock = true) :
    FileSyntax_updateLine x p [] h = .error .panic := by
  unfold FileSyntax_updateLine
  simp only [hg, bind, Except.bind, pure, Except.pure, lineG_InBlock, hb, if_true]
  rfl

theorem FileSyntax_updateLine_nil {h : Heap} {x p : Int} (tokens : List Bytes) (hp : p ≤ 0) :
    FileSyntax_updateLine x p tokens h = .error .panic := by
  simp only [FileSyntax_updateLine, heapGet_nil _ hp, bind, Except.bind]

/-! ### isIndirect -/

theorem isIndirect_eq {h : Heap} {p : Int} {l : Modfile.Line} (hg : heapGet h.lines p = .ok (lineG l)) :
    isIndirect p h = .ok (Modfile.isIndirect l, h) := by
  unfold isIndirect Modfile.isIndirect
  simp only [hg, bind, Except.bind, pure, Except.pure, lineG_Comments, comsG_Suffix]
  rcases l with ⟨id, ⟨bef, suf, aft⟩, st, tok, ib, en⟩
  cases suf with
  | nil => simp
  | cons c rest =>
    have h0 : idxL (List.map comG (c :: rest)) 0 = .ok (comG c) := rfl
    have hl : ¬ (len (List.map comG (c :: rest)) = 0) := by simp [len_eq, -len_cons]; omega
    simp only [h0, hl, decide_false, Bool.false_eq_true, if_false]
    have e : GoStrings.fields (GoStrings.trimPrefix c.token [47, 47]) = GoRt.fields (GoRt.trimPrefix (comG c).Token [47, 47]) := rfl
    rw [e]
    generalize GoRt.fields (GoRt.trimPrefix (comG c).Token [47, 47]) = F
    rcases F with _ | ⟨a, _ | ⟨b, t⟩⟩
    · simp [len_eq]
    · by_cases ha : a = [105, 110, 100, 105, 114, 101, 99, 116] <;> simp [len_eq, idxL_zero_cons, B_indirect, ha]
    · have h2 : ¬ ((t.length : Int) + 1 + 1 = 1) := by omega
      have h3 : ((t.length : Int) + 1 + 1 > 1) := by omega
      by_cases ha : a = [105, 110, 100, 105, 114, 101, 99, 116, 59] <;> simp [len_eq, idxL_zero_cons, B_indirectSemi, h2, h3, ha]

theorem isIndirect_nil {h : Heap} {p : Int} (hp : p ≤ 0) : isIndirect p h = .error .panic := by
  simp only [isIndirect, heapGet_nil _ hp, bind, Except.bind]

/-! ### Require.markRemoved -/

theorem Require_markRemoved_eq {h : Heap} {r : Int} {rq : Modfile.Require} {l : Modfile.Line}
    (hr : heapGet h.requires r = .ok (requireG rq)) (hg : heapGet h.lines (rq.lineId : Int) = .ok (lineG l)) :
    Require_markRemoved r h =
      .ok ((), { setLineH h (rq.lineId : Int) (markRemovedLine l) with
                   requires := h.requires.set (r.toNat - 1) (requireG Modfile.Edit.clearedRequire) }) := by
  unfold Require_markRemoved
  simp only [hr, bind, Except.bind, pure, Except.pure, requireG_Syntax, Line_markRemoved_eq hg, setLineH_requires,
    heapSet_of_get _ hr]
  rfl

/-- a cleared entry (`Syntax == nil`): nil dereference -/
theorem Require_markRemoved_nil {h : Heap} {r : Int} {rq : Modfile.Require}
    (hr : heapGet h.requires r = .ok (requireG rq)) (h0 : rq.lineId = 0) : Require_markRemoved r h = .error .panic := by
  unfold Require_markRemoved
  simp only [hr, bind, Except.bind, pure, Except.pure, requireG_Syntax, h0]
  rw [Line_markRemoved_nil (by simp)]

/-! ### Require.setVersion -/

theorem Require_setVersion_eq {h : Heap} {r : Int} {rq : Modfile.Require} {l : Modfile.Line} (v : Bytes)
    (hr : heapGet h.requires r = .ok (requireG rq)) (hg : heapGet h.lines (rq.lineId : Int) = .ok (lineG l)) :
    Require_setVersion r v h =
      .ok ((), { setLineH h (rq.lineId : Int) (Modfile.Edit.setVersionLine v l) with
                   requires := h.requires.set (r.toNat - 1) (requireG { rq with mod := { rq.mod with version := v } }) }) := by
  unfold Require_setVersion
  simp only [hr, heapSet_of_get _ hr, heapGet_listSet_same _ hr, bind, Except.bind, pure, Except.pure, requireG_Syntax, hg]
  rcases l with ⟨id, ⟨bef, suf, aft⟩, st, tok, ib, en⟩
  rcases tok with _ | ⟨a, _ | ⟨b, _ | ⟨c, t⟩⟩⟩ <;> cases ib <;> rcases bef with _ | ⟨c1, _ | ⟨c2, bt⟩⟩ <;>
    (try rcases c1 with ⟨cs, _ | ⟨x, xs⟩, cf⟩) <;>
    simp [-len_cons, setLineH, lineG, Drv.GenEdit.comsG, Drv.GenEdit.comG, len_gt_zero_iff, len_ge_two_iff, len_ge_three_iff,
      len_eq_one_iff, len_eq_zero_iff, idxL_zero_cons, sliceTo_zero, fun X => heapSet_of_get_nat X hg,
      fun X => heapGet_listSet_same_nat X hg, fun X Y => heapSet_listSet_same_nat hg X Y,
      Modfile.Edit.setVersionLine, requireG, Drv.GenEdit.mvG, setIdxL_one_cons, setIdxL_two_cons] <;>
    (try exact (set_self_of_get_nat (by simpa [lineG, Drv.GenEdit.comsG, Drv.GenEdit.comG] using hg)).symm)

theorem Require_setVersion_nil {h : Heap} {r : Int} {rq : Modfile.Require} (v : Bytes)
    (hr : heapGet h.requires r = .ok (requireG rq)) (h0 : rq.lineId = 0) : Require_setVersion r v h = .error .panic := by
  unfold Require_setVersion
  simp only [hr, heapSet_of_get _ hr, heapGet_listSet_same _ hr, bind, Except.bind, pure, Except.pure, requireG_Syntax, h0]
  rw [show ((0 : Nat) : Int) = 0 from rfl, heapGet_zero]

theorem gs_indexAux_add_le (sub : Bytes) : ∀ (s : Bytes) (k i : Nat),
    GoStrings.indexAux sub s k = some i → i + sub.length ≤ k + s.length
  | [], k, i, h => by
    simp only [GoStrings.indexAux] at h
    split at h
    · cases h; rename_i he; simp [List.isEmpty_iff.1 he]
    · cases h
  | c :: rest, k, i, h => by
    simp only [GoStrings.indexAux] at h
    split at h
    · cases h
      rename_i hp
      have := GoRtModfile.isPrefixOfB_length _ _ hp
      omega
    · have := gs_indexAux_add_le sub rest (k + 1) i h
      simp only [List.length_cons]; omega

theorem gs_index_add_le {s sub : Bytes} {i : Nat} (h : GoStrings.index s sub = some i) : i + sub.length ≤ s.length := by
  have := gs_indexAux_add_le sub s 0 i h
  omega

/-! ### Require.setIndirect -/

theorem Require_setIndirect_eq {h : Heap} {r : Int} {rq : Modfile.Require} {l : Modfile.Line} (ind : Bool)
    (hr : heapGet h.requires r = .ok (requireG rq)) (hg : heapGet h.lines (rq.lineId : Int) = .ok (lineG l))
    (hidx : ind = false → Modfile.isIndirect l = true → ∀ com rest, l.comments.suffix = com :: rest →
      GoStrings.trimSpace (GoStrings.trimPrefix com.token [47, 47]) ≠ B "indirect" →
      (GoStrings.index com.token (B "indirect;")).isSome) :
    Require_setIndirect r ind h =
      .ok ((), { setLineH h (rq.lineId : Int) (Modfile.Edit.setIndirectLine ind l) with
                   requires := h.requires.set (r.toNat - 1) (requireG { rq with indirect := ind }) }) := by
  unfold Require_setIndirect
  have hI := isIndirect_eq (h := { h with requires := h.requires.set (r.toNat - 1) { Mod := (requireG rq).Mod, Indirect := ind, Syntax := (rq.lineId : Int) } }) (p := (rq.lineId : Int)) (l := l) hg
  simp only [hr, heapSet_of_get _ hr, heapGet_listSet_same _ hr, bind, Except.bind, pure, Except.pure, requireG_Syntax, hI]
  by_cases hq : (Modfile.isIndirect l == ind) = true
  · simp only [hq, if_true]
    have : Modfile.Edit.setIndirectLine ind l = l := by simp [Modfile.Edit.setIndirectLine, hq]
    rw [this, setLineH_self hg]
    rfl
  · simp only [hq, Bool.false_eq_true, if_false, hg]
    rcases l with ⟨id, ⟨bef, suf, aft⟩, st, tok, ib, en⟩
    cases ind with
    | true =>
      simp only [if_true]
      cases suf with
      | nil =>
        simp [-len_cons, setLineH, lineG, Drv.GenEdit.comsG, Drv.GenEdit.comG, fun X => heapSet_of_get_nat X hg,
          Modfile.Edit.setIndirectLine, hq, B_indirectTok, requireG]
        rfl
      | cons c rest =>
        by_cases ht : GoStrings.trimSpace (GoStrings.trimPrefix c.token [47, 47]) = [] <;>
        simp [-len_cons, setLineH, lineG, Drv.GenEdit.comsG, Drv.GenEdit.comG, fun X => heapSet_of_get_nat X hg,
          Modfile.Edit.setIndirectLine, hq, B_indirectTok, B_indirectLong, requireG, len_eq_zero_iff, idxL_zero_cons, setIdxL_zero_cons,
          trimSpace_eq, trimPrefix_eq, ht, Modfile.Edit.slashSlash]
    | false =>
      simp only [Bool.false_eq_true, if_false]
      cases suf with
      | nil => simp [Modfile.isIndirect] at hq
      | cons c rest =>
        have hq' : Modfile.isIndirect { id := id, comments := { before := bef, suffix := c :: rest, after := aft }, start := st, token := tok, inBlock := ib, «end» := en } = true := by
          simpa using hq
        by_cases ht : GoStrings.trimSpace (GoStrings.trimPrefix c.token [47, 47]) = [105, 110, 100, 105, 114, 101, 99, 116]
        · simp [-len_cons, setLineH, lineG, Drv.GenEdit.comsG, Drv.GenEdit.comG, fun X => heapSet_of_get_nat X hg,
            Modfile.Edit.setIndirectLine, hq, B_indirect, requireG, idxL_zero_cons,
            trimSpace_eq, trimPrefix_eq, ht, Modfile.Edit.slashSlash]
        · have hsome := hidx rfl hq' c rest rfl (by rw [B_indirect]; exact ht)
          obtain ⟨i, hi⟩ := Option.isSome_iff_exists.1 hsome
          have hle := gs_index_add_le hi
          have hidx2 : GoRt.index c.token [105, 110, 100, 105, 114, 101, 99, 116, 59] = (i : Int) := by
            rw [GoRtModfile.index_eq, ← B_indirectSemi, hi]
          have hlen : (B "indirect;").length = 9 := by decide +kernel
          have hsl : sliceFrom c.token ((i : Int) + 9) = .ok (c.token.drop (i + 9)) := by
            have := sliceFrom_natCast (v := c.token) (k := i + 9) (by omega)
            simpa using this
          simp [-len_cons, setLineH, lineG, Drv.GenEdit.comsG, Drv.GenEdit.comG, fun X => heapSet_of_get_nat X hg,
            Modfile.Edit.setIndirectLine, hq, B_indirect, requireG, idxL_zero_cons, setIdxL_zero_cons,
            trimSpace_eq, trimPrefix_eq, ht, Modfile.Edit.slashSlash, hidx2, hsl, hi, hlen]

theorem Require_setIndirect_nil {h : Heap} {r : Int} {rq : Modfile.Require} (ind : Bool)
    (hr : heapGet h.requires r = .ok (requireG rq)) (h0 : rq.lineId = 0) : Require_setIndirect r ind h = .error .panic := by
  unfold Require_setIndirect
  simp only [hr, heapSet_of_get _ hr, heapGet_listSet_same _ hr, bind, Except.bind, pure, Except.pure, requireG_Syntax, h0]
  rw [isIndirect_nil (by simp)]

end ModVerif.Tie.FnEditTreeA
