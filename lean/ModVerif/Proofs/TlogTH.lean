/-
  The term-algebra instance of the tlog / tile models used by the concrete witness theorems and the
  non-vacuity examples: hashes are the free terms over `leaf` / `node`, so distinct constructions never collide.
-/
import ModVerif.Model.Tlog
import ModVerif.Model.Tile
import ModVerif.Spec.RFC6962
namespace ModVerif.TlogTH
open ModVerif ModVerif.Tlog ModVerif.Tile

/-- record `i` of the example logs: the one-byte string `i` -/
def recs (n : Nat) : List Bytes := (List.range n).map fun i => [UInt8.ofNat i]

/-- the dense store of the example log of `n` records (empty list if the model failed) -/
def store (n : Nat) : List TH :=
  match buildStore TH.leaf TH.node (recs n) with
  | .ok s => s
  | .error _ => []

def reader (n : Nat) : HashReader TH := storeReader (store n)

/-- the RFC 6962 tree hash of the first `m` example records -/
def root (m : Nat) : TH := RFC6962.mth TH.node TH.empty ((recs m).map TH.leaf)

def isOk {α : Type} [DecidableEq α] (r : Except Err α) (a : α) : Bool :=
  match r with
  | .ok b => b = a
  | .error _ => false

def isErr {α : Type} (r : Except Err α) (e : Err) : Bool :=
  match r with
  | .ok _ => false
  | .error e' => e' = e

/-- a tile server that replaces the first hash of tile (L0, N0) by a forged value and is honest otherwise -/
def evil (n : Nat) (t : Tile) : Option (List TH) :=
  if t.l == 0 && t.n == 0 then (trueTile (store n) t).map fun d => TH.junk 0 :: d.drop 1
  else trueTile (store n) t

end ModVerif.TlogTH
