/-
  General facts about the Go-to-Lean run-time vocabulary (`Basic/GoRt.lean`, `GoRtUtf8.lean`, `GoRtNote.lean`) used by the
  tie proofs of sumdb/tlog/note.go and sumdb/note/note.go (Proofs/TieFnTlogNote*.lean, Proofs/TieFnNote*.lean):
  `%d` of any integer, `strconv.ParseInt(s, 10, 64)`, `strings.IndexByte`, `utf8.DecodeRune` on a non-empty string,
  `strings.IndexFunc` as a statement about the rune list, prefix tests.

  Namespace `ModVerif.GoRtNote` (own namespace: importable together with the other `GoRtLemmas*.lean` files).
-/
import ModVerif.Basic.GoRt
import ModVerif.Basic.GoRtUtf8
import ModVerif.Basic.GoRtNote
import ModVerif.Basic.Decimal
import ModVerif.Proofs.GoRtLemmas
import ModVerif.Proofs.GoRtLemmasStr
import ModVerif.Proofs.GoRtLemmasTile
namespace ModVerif.GoRtNote
open ModVerif ModVerif.GoRt

/-- decidable equality of results of generated code, so that concrete instances close by kernel evaluation -/
instance instDecidableEqM {α : Type} [DecidableEq α] : DecidableEq (M α)
  | .ok a, .ok b => if h : a = b then isTrue (by rw [h]) else isFalse (by intro e; cases e; exact h rfl)
  | .error a, .error b => if h : a = b then isTrue (by rw [h]) else isFalse (by intro e; cases e; exact h rfl)
  | .ok _, .error _ => isFalse (by intro e; cases e)
  | .error _, .ok _ => isFalse (by intro e; cases e)

/-! ### decimal text -/

/-- `strconv.Itoa` / `%d` / `strconv.FormatInt(·, 10)` of any integer -/
theorem itoa_eq (x : Int) : itoa x = Decimal.formatInt x := by
  cases x with
  | ofNat n => exact GoRtTile.itoa_natCast n
  | negSucc n =>
    have h : Int.negSucc n < 0 := Int.negSucc_lt_zero n
    have e : (-Int.negSucc n).toNat = n + 1 := by omega
    simp only [itoa, h, ↓reduceIte, e, GoRtTile.natDigits_eq, Decimal.formatInt]

theorem formatInt_ten (x : Int) : formatInt x 10 = Decimal.formatInt x := by
  simp only [formatInt, ↓reduceIte, itoa_eq]

theorem parseInt_ten (s : Bytes) : parseInt s 10 64 = atoi s := by
  simp [parseInt]

theorem parseInt_some (s : Bytes) (v : Int) (h : Decimal.parseInt64 s = some v) : parseInt s 10 64 = (v, none) := by
  rw [parseInt_ten]; exact GoRtTile.atoi_some s v h

theorem parseInt_none (s : Bytes) (h : Decimal.parseInt64 s = none) : (parseInt s 10 64).2.isNone = false := by
  rw [parseInt_ten]; exact GoRtTile.atoi_none s h

/-! ### strings.IndexByte -/

theorem indexByteAux_eq (c : UInt8) : ∀ (s : Bytes) (k : Nat),
    indexByteAux c s k = if c ∈ s then ((k + (s.takeWhile (· != c)).length : Nat) : Int) else -1
  | [], k => by simp [indexByteAux]
  | x :: xs, k => by
    rw [indexByteAux]
    by_cases h : x = c
    · subst h; simp
    · have h' : (x != c) = true := by simpa using h
      have hne : (x == c) = false := by simpa using h
      have hm : (c = x) = False := by simp; exact fun e => h e.symm
      simp only [hne, Bool.false_eq_true, if_false, indexByteAux_eq c xs (k + 1), List.mem_cons, hm, false_or,
        List.takeWhile_cons, h', if_true, List.length_cons]
      split <;> simp <;> omega

/-- `strings.IndexByte(s, c)` with the byte given as the integer literal the generated code passes -/
theorem indexByte_eq (s : Bytes) (n : Int) (c : UInt8) (hn : mkByte n = c) :
    indexByte s n = if c ∈ s then (((s.takeWhile (· != c)).length : Nat) : Int) else -1 := by
  simp [indexByte, hn, indexByteAux_eq]

theorem mem_of_dropWhile_cons {c x : UInt8} {s rest : Bytes} (h : s.dropWhile (· != c) = x :: rest) : x = c ∧ c ∈ s := by
  induction s with
  | nil => simp at h
  | cons a t ih =>
    by_cases ha : a = c
    · subst ha; simp at h; exact ⟨h.1.symm, by simp⟩
    · have : (a != c) = true := by simpa using ha
      simp only [List.dropWhile_cons, this, if_true] at h
      obtain ⟨h1, h2⟩ := ih h
      exact ⟨h1, by simp [h2]⟩

theorem dropWhile_nil_not_mem {c : UInt8} {s : Bytes} (h : s.dropWhile (· != c) = []) : c ∉ s := by
  induction s with
  | nil => simp
  | cons a t ih =>
    by_cases ha : a = c
    · subst ha; simp at h
    · have : (a != c) = true := by simpa using ha
      simp only [List.dropWhile_cons, this, if_true] at h
      have := ih h
      simp only [List.mem_cons, not_or]; exact ⟨fun e => ha e.symm, this⟩

/-! ### List.span -/

theorem span_loop_eq {α : Type} (p : α → Bool) : ∀ (l acc : List α),
    List.span.loop p l acc = (acc.reverse ++ l.takeWhile p, l.dropWhile p)
  | [], acc => by simp [List.span.loop]
  | a :: l, acc => by
    by_cases h : p a = true
    · simp [List.span.loop, h, span_loop_eq p l (a :: acc)]
    · simp [List.span.loop, h]

theorem span_eq {α : Type} (p : α → Bool) (l : List α) : l.span p = (l.takeWhile p, l.dropWhile p) := by
  simp [List.span, span_loop_eq]

/-! ### prefixes -/

theorem isPrefixOfB_length : ∀ (p s : Bytes), isPrefixOfB p s = true → p.length ≤ s.length
  | [], _, _ => Nat.zero_le _
  | _ :: _, [], h => by simp [isPrefixOfB] at h
  | a :: p, b :: s, h => by
    simp only [isPrefixOfB, Bool.and_eq_true] at h
    have := isPrefixOfB_length p s h.2
    simp only [List.length_cons]; omega

theorem isPrefixOfB_nil_right (p : Bytes) : isPrefixOfB p [] = p.isEmpty := by
  cases p <;> rfl

/-! ### utf8.DecodeRune on a non-empty string -/

theorem decodeRune_cons (b : UInt8) (rest : Bytes) :
    decodeRune (b :: rest) =
      (((Utf8.decodeRune (b :: rest)).1 : Int), ((Utf8.decodeRune (b :: rest)).2 : Int)) := by
  simp [decodeRune]

theorem decodeRune_of_ne_nil (s : Bytes) (hs : s ≠ []) :
    decodeRune s = (((Utf8.decodeRune s).1 : Int), ((Utf8.decodeRune s).2 : Int)) := by
  cases s with
  | nil => exact absurd rfl hs
  | cons b rest => exact decodeRune_cons b rest

/-- a one-byte sequence is ASCII -/
theorem decode_width_one {s : Bytes} {r : Nat} (h : Utf8.decode s = some (r, 1)) : r < 0x80 := by
  unfold Utf8.decode at h
  split at h
  · simp at h
  · rename_i b0 rest
    simp only at h
    repeat' split at h
    all_goals (first | (simp at h; done) | (simp only [Option.some.injEq, Prod.mk.injEq] at h; omega))

end ModVerif.GoRtNote
