/- `parse` accepts exactly the documented grammar (Spec/SemverSpec.lean). -/
import ModVerif.Spec.SemverSpec
import ModVerif.Proofs.ListLemmas
namespace ModVerif.Semver
open ModVerif ModVerif.SemverSpec

theorem isDigit_eq : Semver.isDigit = SemverSpec.isDigit := rfl
theorem isIdentChar_eq : Semver.isIdentChar = SemverSpec.isIdentChar := rfl

theorem parseInt_some {v t r : Bytes} (h : parseInt v = some (t, r)) :
    Num t ∧ v = t ++ r ∧ NoHead Semver.isDigit r := by
  unfold parseInt at h
  cases v with
  | nil => simp at h
  | cons c rest =>
    simp only at h
    by_cases hc : Semver.isDigit c = true
    · simp only [hc, Bool.not_true] at h
      by_cases hz : (c == 48 && !(rest.takeWhile Semver.isDigit).isEmpty) = true
      · simp [hz] at h
      · simp only [hz] at h
        simp at h
        obtain ⟨rfl, rfl⟩ := h
        refine ⟨⟨by simp, ?_, ?_⟩, ?_, ?_⟩
        · simp only [List.all_cons, ← isDigit_eq, hc, all_takeWhile, Bool.and_self]
        · intro hh
          simp at hh
          subst hh
          simp at hz
          simp [hz]
        · simp [List.takeWhile_append_dropWhile]
        · intro c' r' hr; exact dropWhile_head _ _ _ _ hr
    · simp [hc] at h

theorem parseInt_append {t r : Bytes} (ht : Num t) (hr : NoHead Semver.isDigit r) :
    parseInt (t ++ r) = some (t, r) := by
  obtain ⟨hne, hall, hz⟩ := ht
  cases t with
  | nil => exact absurd rfl hne
  | cons c ds =>
    rw [← isDigit_eq] at hall
    simp only [List.all_cons, Bool.and_eq_true] at hall
    unfold parseInt
    simp only [List.cons_append, hall.1, Bool.not_true]
    rw [takeWhile_append_all _ ds r hall.2 hr, dropWhile_append_all _ ds r hall.2 hr]
    by_cases hc : c = 48
    · have := hz (by simp [hc])
      simp at this
      simp [this]
    · simp [hc]


theorem joinDots_eq : ∀ ids : List Bytes, joinDots ids = joinSep 46 ids
  | [] => rfl
  | [_] => rfl
  | x :: y :: rest => by simp [joinDots, joinSep, joinDots_eq (y :: rest)]

theorem mem_joinSep (sep : UInt8) : ∀ (ids : List Bytes) (c : UInt8), c ∈ joinSep sep ids →
    c = sep ∨ ∃ i ∈ ids, c ∈ i
  | [], c, h => by simp [joinSep] at h
  | [x], c, h => by simp [joinSep] at h; exact Or.inr ⟨x, List.mem_cons_self, h⟩
  | x :: y :: rest, c, h => by
    simp only [joinSep, List.mem_append, List.mem_cons] at h
    rcases h with h | h | h
    · exact Or.inr ⟨x, List.mem_cons_self, h⟩
    · exact Or.inl h
    · rcases mem_joinSep sep (y :: rest) c h with h | ⟨i, hi, hc⟩
      · exact Or.inl h
      · exact Or.inr ⟨i, List.mem_cons_of_mem _ hi, hc⟩

theorem identChar_ne_dot {c : UInt8} (h : Semver.isIdentChar c = true) : c ≠ 46 := by
  intro e; subst e; revert h; decide
theorem identChar_ne_plus {c : UInt8} (h : Semver.isIdentChar c = true) : c ≠ 43 := by
  intro e; subst e; revert h; decide

theorem isBadNum_iff (s : Bytes) :
    isBadNum s = true ↔ (s.all SemverSpec.isDigit = true ∧ s.length > 1 ∧ s.head? = some 48) := by
  unfold isBadNum; rw [isDigit_eq]; simp [Bool.and_eq_true, and_assoc]

theorem parsePrerelease_some {v t r : Bytes} (h : parsePrerelease v = some (t, r)) :
    (∃ ids : List Bytes, ids ≠ [] ∧ (∀ i ∈ ids, PreIdent i) ∧ t = 45 :: joinDots ids) ∧
    v = t ++ r ∧ NoHead (· != 43) r := by
  unfold parsePrerelease at h
  split at h
  · rename_i rest
    split at h
    · rename_i hc
      simp only [Bool.and_eq_true] at hc
      simp at h
      obtain ⟨rfl, rfl⟩ := h
      refine ⟨⟨splitOn 46 (rest.takeWhile (· != 43)), splitOn_ne_nil _ _, ?_, ?_⟩, ?_, ?_⟩
      · intro i hi
        have hpiece := List.all_eq_true.1 hc.2 i hi
        simp only [Bool.and_eq_true, Bool.not_eq_true'] at hpiece
        refine ⟨⟨?_, ?_⟩, ?_⟩
        · intro e; subst e; simp at hpiece
        · rw [← isIdentChar_eq]
          apply List.all_eq_true.2
          intro c hcmem
          have := mem_splitOn 46 _ i hi c hcmem
          have hcc := List.all_eq_true.1 hc.1 c this.1
          simp only [Bool.or_eq_true, beq_iff_eq] at hcc
          rcases hcc with hcc | hcc
          · exact hcc
          · exact absurd hcc this.2
        · intro hbad
          have := (isBadNum_iff i).2 hbad
          rw [this] at hpiece; simp at hpiece
      · rw [joinDots_eq, joinSep_splitOn]
      · simp [List.takeWhile_append_dropWhile]
      · intro c r' hr; exact dropWhile_head (fun x => x != 43) rest c r' hr
    · simp at h
  · simp at h

theorem preIdent_chars {i : Bytes} (hi : PreIdent i) : ∀ c ∈ i, Semver.isIdentChar c = true := by
  intro c hc
  have := hi.1.2
  rw [← isIdentChar_eq] at this
  exact List.all_eq_true.1 this c hc

theorem parsePrerelease_append {ids : List Bytes} {r : Bytes} (hne : ids ≠ [])
    (hids : ∀ i ∈ ids, PreIdent i) (hr : NoHead (· != 43) r) :
    parsePrerelease (45 :: joinDots ids ++ r) = some (45 :: joinDots ids, r) := by
  have hchars : ∀ c ∈ joinDots ids, Semver.isIdentChar c = true ∨ c = 46 := by
    intro c hc
    rw [joinDots_eq] at hc
    rcases mem_joinSep 46 ids c hc with h | ⟨i, hi, hci⟩
    · exact Or.inr h
    · exact Or.inl (preIdent_chars (hids i hi) c hci)
  have hall43 : (joinDots ids).all (· != 43) = true := by
    apply List.all_eq_true.2
    intro c hc
    rcases hchars c hc with h | h
    · simp; exact identChar_ne_plus h
    · subst h; decide
  have hsplit : splitOn 46 (joinDots ids) = ids := by
    rw [joinDots_eq]
    apply splitOn_joinSep 46 ids hne
    intro i hi h46
    exact identChar_ne_dot (preIdent_chars (hids i hi) 46 h46) rfl
  unfold parsePrerelease
  simp only [List.cons_append]
  rw [takeWhile_append_all _ _ r hall43 hr, dropWhile_append_all _ _ r hall43 hr, hsplit]
  have c1 : (joinDots ids).all (fun c => Semver.isIdentChar c || c == 46) = true := by
    apply List.all_eq_true.2
    intro c hc
    rcases hchars c hc with h | h
    · simp [h]
    · subst h; simp
  have c2 : ids.all (fun s => !s.isEmpty && !isBadNum s) = true := by
    apply List.all_eq_true.2
    intro i hi
    have hp := hids i hi
    have h1 : i.isEmpty = false := by
      cases i with
      | nil => exact absurd rfl hp.1.1
      | cons _ _ => rfl
    have h2 : isBadNum i = false := by
      cases hb : isBadNum i
      · rfl
      · exact absurd ((isBadNum_iff i).1 hb) hp.2
    simp [h1, h2]
  simp [c1, c2]

theorem parseBuild_some {v t r : Bytes} (h : parseBuild v = some (t, r)) :
    (∃ ids : List Bytes, ids ≠ [] ∧ (∀ i ∈ ids, Ident i) ∧ t = 43 :: joinDots ids) ∧ v = t ∧ r = [] := by
  unfold parseBuild at h
  split at h
  · rename_i rest
    split at h
    · rename_i hc
      simp only [Bool.and_eq_true] at hc
      simp at h
      obtain ⟨rfl, rfl⟩ := h
      refine ⟨⟨splitOn 46 rest, splitOn_ne_nil _ _, ?_, ?_⟩, rfl, rfl⟩
      · intro i hi
        have hpiece := List.all_eq_true.1 hc.2 i hi
        refine ⟨?_, ?_⟩
        · intro e; subst e; simp at hpiece
        · rw [← isIdentChar_eq]
          apply List.all_eq_true.2
          intro c hcmem
          have := mem_splitOn 46 _ i hi c hcmem
          have hcc := List.all_eq_true.1 hc.1 c this.1
          simp only [Bool.or_eq_true, beq_iff_eq] at hcc
          rcases hcc with hcc | hcc
          · exact hcc
          · exact absurd hcc this.2
      · rw [joinDots_eq, joinSep_splitOn]
    · simp at h
  · simp at h

theorem parseBuild_join {ids : List Bytes} (hne : ids ≠ []) (hids : ∀ i ∈ ids, Ident i) :
    parseBuild (43 :: joinDots ids) = some (43 :: joinDots ids, []) := by
  have hid : ∀ i ∈ ids, ∀ c ∈ i, Semver.isIdentChar c = true := by
    intro i hi c hc
    have := (hids i hi).2
    rw [← isIdentChar_eq] at this
    exact List.all_eq_true.1 this c hc
  have hchars : ∀ c ∈ joinDots ids, Semver.isIdentChar c = true ∨ c = 46 := by
    intro c hc
    rw [joinDots_eq] at hc
    rcases mem_joinSep 46 ids c hc with h | ⟨i, hi, hci⟩
    · exact Or.inr h
    · exact Or.inl (hid i hi c hci)
  have hsplit : splitOn 46 (joinDots ids) = ids := by
    rw [joinDots_eq]
    apply splitOn_joinSep 46 ids hne
    intro i hi h46
    exact identChar_ne_dot (hid i hi 46 h46) rfl
  unfold parseBuild
  simp only
  rw [hsplit]
  have c1 : (joinDots ids).all (fun c => Semver.isIdentChar c || c == 46) = true := by
    apply List.all_eq_true.2
    intro c hc
    rcases hchars c hc with h | h
    · simp [h]
    · subst h; simp
  have c2 : ids.all (fun s => !s.isEmpty) = true := by
    apply List.all_eq_true.2
    intro i hi
    cases i with
    | nil => exact absurd rfl (hids [] hi).1
    | cons _ _ => rfl
  simp [c1, c2]


/-- `Decomp v p`: `v` is one of the three documented forms and `p` holds its parts. -/
inductive Decomp : Bytes → Parsed → Prop
  | short1 (maj : Bytes) : Num maj →
      Decomp (118 :: maj) { major := maj, minor := [48], patch := [48], short := B ".0.0" }
  | short2 (maj min : Bytes) : Num maj → Num min →
      Decomp (118 :: maj ++ 46 :: min) { major := maj, minor := min, patch := [48], short := B ".0" }
  | full (maj min pat pre bld : Bytes) : Num maj → Num min → Num pat → PreOpt pre → BuildOpt bld →
      Decomp (118 :: maj ++ 46 :: min ++ 46 :: pat ++ pre ++ bld)
        { major := maj, minor := min, patch := pat, prerelease := pre, build := bld }

theorem noHead_digit_cons {c : UInt8} {r : Bytes} (h : Semver.isDigit c = false) :
    NoHead Semver.isDigit (c :: r) := by
  intro c' r' e; simp at e; rw [← e.1]; exact h

theorem noHead_nil {α} (p : α → Bool) : NoHead p ([] : List α) := by
  intro c r e; simp at e

theorem parseTail_some {p q : Parsed} {v : Bytes} (hp : p.prerelease = []) (hb : p.build = [])
    (h : parseTail p v = some q) :
    ∃ pre bld, PreOpt pre ∧ BuildOpt bld ∧ v = pre ++ bld ∧ q = { p with prerelease := pre, build := bld } := by
  unfold parseTail at h
  split at h
  · simp at h
  · rename_i p1 v1 h1
    split at h
    · simp at h
    · rename_i p2 v2 h2
      split at h
      · rename_i hv2
        simp at h hv2
        subst hv2 h
        -- first stage
        have s1 : ∃ pre, PreOpt pre ∧ v = pre ++ v1 ∧ p1 = { p with prerelease := pre } ∧
            (pre = [] → ∀ r, v1 ≠ 45 :: r) ∧ (pre ≠ [] → NoHead (· != 43) v1) := by
          unfold parsePreOpt at h1
          split at h1
          · split at h1
            · rename_i t r hpp
              simp at h1
              obtain ⟨⟨ids, hne, hids, ht⟩, hv, hr⟩ := parsePrerelease_some hpp
              refine ⟨t, Or.inr ⟨ids, hne, hids, ht⟩, ?_, h1.1.symm, ?_, ?_⟩
              · rw [hv, h1.2]
              · intro e; rw [ht] at e; simp at e
              · intro _; rw [← h1.2]; exact hr
            · simp at h1
          · rename_i hno
            simp at h1
            refine ⟨[], Or.inl rfl, by simp [h1.2], ?_, ?_, fun h => absurd rfl h⟩
            · rw [← h1.1]; cases p; simp_all
            · intro _ r e; rw [← h1.2] at e; exact hno r e
        obtain ⟨pre, hpre, hv, hp1, hno45, hno43⟩ := s1
        -- second stage
        unfold parseBuildOpt at h2
        split at h2
        · split at h2
          · rename_i t r hpb
            simp at h2
            obtain ⟨⟨ids, hne, hids, ht⟩, hv1, hr⟩ := parseBuild_some hpb
            refine ⟨pre, t, hpre, Or.inr ⟨ids, hne, hids, ht⟩, ?_, ?_⟩
            · rw [hv, hv1]
            · rw [← h2.1, hp1]
          · simp at h2
        · simp at h2
          refine ⟨pre, [], hpre, Or.inl rfl, ?_, ?_⟩
          · rw [hv, h2.2]
          · rw [← h2.1, hp1, hb]
      · simp at h

theorem parse_decomp {v : Bytes} {p : Parsed} (h : parse v = some p) : Decomp v p := by
  unfold parse at h
  split at h
  · rename_i v1
    cases hmaj : parseInt v1 with
    | none => simp [hmaj] at h
    | some tr =>
      obtain ⟨maj, v2⟩ := tr
      simp only [hmaj] at h
      obtain ⟨nmaj, e1, _⟩ := parseInt_some hmaj
      cases v2 with
      | nil =>
        simp at h; subst h
        simp at e1; subst e1
        exact Decomp.short1 _ nmaj
      | cons c2 v3 =>
        by_cases hc2 : c2 = 46
        · subst hc2
          simp only at h
          cases hmin : parseInt v3 with
          | none => simp [hmin] at h
          | some tr2 =>
            obtain ⟨mn, v4⟩ := tr2
            simp only [hmin] at h
            obtain ⟨nmin, e2, _⟩ := parseInt_some hmin
            cases v4 with
            | nil =>
              simp at h; subst h
              simp at e2; subst e2 e1
              exact Decomp.short2 _ _ nmaj nmin
            | cons c4 v5 =>
              by_cases hc4 : c4 = 46
              · subst hc4
                simp only at h
                cases hpat : parseInt v5 with
                | none => simp [hpat] at h
                | some tr3 =>
                  obtain ⟨pat, v6⟩ := tr3
                  simp only [hpat] at h
                  obtain ⟨npat, e3, _⟩ := parseInt_some hpat
                  obtain ⟨pre, bld, hpre, hbld, hv6, hq⟩ := parseTail_some rfl rfl h
                  subst hq hv6 e3 e2 e1
                  have := Decomp.full _ _ _ pre bld nmaj nmin npat hpre hbld
                  simpa [List.append_assoc] using this
              · simp [hc4] at h
        · simp [hc2] at h
  · simp at h

theorem preOpt_noDigitHead {pre bld : Bytes} (hpre : PreOpt pre) (hbld : BuildOpt bld) :
    NoHead Semver.isDigit (pre ++ bld) := by
  rcases hpre with rfl | ⟨ids, _, _, rfl⟩
  · rcases hbld with rfl | ⟨ids, _, _, rfl⟩
    · exact noHead_nil _
    · exact noHead_digit_cons (by decide)
  · exact noHead_digit_cons (by decide)

theorem parseTail_decomp {p : Parsed} {pre bld : Bytes} (hp0 : p.prerelease = []) (hb0 : p.build = [])
    (hpre : PreOpt pre) (hbld : BuildOpt bld) :
    parseTail p (pre ++ bld) = some { p with prerelease := pre, build := bld } := by
  have hb43 : NoHead (· != 43) bld := by
    rcases hbld with rfl | ⟨ids, _, _, rfl⟩
    · exact noHead_nil _
    · intro c r e; simp at e; rw [← e.1]; decide
  have stage2 : ∀ p1 : Parsed, p1.build = [] → (match parseBuildOpt p1 bld with
      | none => none
      | some (p2, v2) => if v2.isEmpty then some p2 else none) = some { p1 with build := bld } := by
    intro p1 hp1
    rcases hbld with rfl | ⟨ids, hne, hids, rfl⟩
    · simp [parseBuildOpt]; cases p1; simp_all
    · simp [parseBuildOpt, parseBuild_join hne hids]
  show (match parsePreOpt p (pre ++ bld) with
    | none => none
    | some (p1, v1) =>
      match parseBuildOpt p1 v1 with
      | none => none
      | some (p2, v2) => if v2.isEmpty then some p2 else none) = _
  rcases hpre with rfl | ⟨ids, hne, hids, rfl⟩
  · have : parsePreOpt p ([] ++ bld) = some (p, bld) := by
      rcases hbld with rfl | ⟨ids, _, _, rfl⟩
      · simp [parsePreOpt]
      · simp [parsePreOpt]
    rw [this]
    have e : ({ p with prerelease := [], build := bld } : Parsed) = { p with build := bld } := by
      cases p; simp_all
    rw [e]
    exact stage2 p hb0
  · have : parsePreOpt p (45 :: joinDots ids ++ bld) = some ({ p with prerelease := 45 :: joinDots ids }, bld) := by
      simp only [parsePreOpt, List.cons_append]
      have := parsePrerelease_append (r := bld) hne hids hb43
      simp only [List.cons_append] at this
      rw [this]
    rw [this]
    exact stage2 _ hb0

theorem decomp_parse {v : Bytes} {p : Parsed} (h : Decomp v p) : parse v = some p := by
  cases h with
  | short1 maj nmaj =>
    unfold parse
    have := parseInt_append (r := []) nmaj (noHead_nil _)
    simp at this
    simp [this]
  | short2 maj min nmaj nmin =>
    unfold parse
    have h1 := parseInt_append (r := 46 :: min) nmaj (noHead_digit_cons (by decide))
    have h2 := parseInt_append (r := []) nmin (noHead_nil _)
    simp at h2
    simp [h1, h2]
  | full maj min pat pre bld nmaj nmin npat hpre hbld =>
    unfold parse
    have h1 := parseInt_append (r := 46 :: min ++ 46 :: pat ++ pre ++ bld) nmaj (noHead_digit_cons (by decide))
    have h2 := parseInt_append (r := 46 :: pat ++ pre ++ bld) nmin (noHead_digit_cons (by decide))
    have h3 := parseInt_append (r := pre ++ bld) npat (preOpt_noDigitHead hpre hbld)
    simp only [List.append_assoc, List.cons_append] at h1 h2 h3 ⊢
    simp only [h1, h2, h3]
    have := parseTail_decomp (p := { major := maj, minor := min, patch := pat }) rfl rfl hpre hbld
    simpa using this

/-- `parse` succeeds with parts `p` exactly on the documented decompositions. -/
theorem parse_iff_decomp (v : Bytes) (p : Parsed) : parse v = some p ↔ Decomp v p :=
  ⟨parse_decomp, decomp_parse⟩

theorem valid_iff_decomp (v : Bytes) : Valid v ↔ ∃ p, Decomp v p := by
  constructor
  · rintro ⟨maj, nmaj, h | ⟨min, nmin, h | ⟨pat, pre, bld, npat, hpre, hbld, h⟩⟩⟩
    · subst h; exact ⟨_, Decomp.short1 maj nmaj⟩
    · subst h; exact ⟨_, Decomp.short2 maj min nmaj nmin⟩
    · subst h; exact ⟨_, Decomp.full maj min pat pre bld nmaj nmin npat hpre hbld⟩
  · rintro ⟨p, h⟩
    cases h with
    | short1 maj nmaj => exact ⟨maj, nmaj, Or.inl rfl⟩
    | short2 maj min nmaj nmin => exact ⟨maj, nmaj, Or.inr ⟨min, nmin, Or.inl rfl⟩⟩
    | full maj min pat pre bld nmaj nmin npat hpre hbld =>
      exact ⟨maj, nmaj, Or.inr ⟨min, nmin, Or.inr ⟨pat, pre, bld, npat, hpre, hbld, rfl⟩⟩⟩

end ModVerif.Semver
