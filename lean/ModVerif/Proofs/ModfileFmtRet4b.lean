/-
  C02, clause 3 with a version fixer and retract directives — FRAME: `File.add` never reads `file.retract`.

  For every verb other than `retract`, one `File.add` step commutes with replacing the list of retractions of the
  state (`withRet`): same rewritten arguments, same new state up to that list.  This is the per-step ingredient of
  the two-run simulation of lean/PENDING.md (C02, item (2), step (i)): two runs of the directive layer over statement
  lists that differ only in the argument tokens of retract lines stay equal up to `file.retract`.
-/
import ModVerif.Proofs.ModfileFmtRet4
namespace ModVerif.Proofs.ModfileFmtRet
open ModVerif ModVerif.Modfile ModVerif.Proofs.ModfileC20
open ModVerif.Proofs.ModfileFmtDir ModVerif.Proofs.ModfileEol ModVerif.Proofs.ModfileFmtTree

/-- the state with its list of retractions replaced -/
def withRet (R : List Retract) (st : AddState) : AddState := { st with file := { st.file with retract := R } }

macro "ret_frame" : tactic =>
  `(tactic| ((repeat' (first | split | (dsimp only))) <;>
      (first | rfl | (simp_all; done) | (rename_i hf; cases hf; done))))

theorem addGo_withRet (R : List Retract) (st : AddState) (l : Line) (args : List Bytes) (strict : Bool) :
    addGo (withRet R st) l args strict = (withRet R (addGo st l args strict).1, (addGo st l args strict).2) := by
  unfold addGo withRet AddState.err; ret_frame

theorem addToolchain_withRet (R : List Retract) (st : AddState) (l : Line) (args : List Bytes) :
    addToolchain (withRet R st) l args = (withRet R (addToolchain st l args).1, (addToolchain st l args).2) := by
  unfold addToolchain withRet AddState.err; ret_frame

theorem addModule_withRet (R : List Retract) (st : AddState) (block : Option Comments) (l : Line) (args : List Bytes) :
    addModule (withRet R st) block l args =
      (withRet R (addModule st block l args).1, (addModule st block l args).2) := by
  unfold addModule withRet AddState.err; ret_frame

theorem addGodebugV_withRet (R : List Retract) (st : AddState) (l : Line) (args : List Bytes) :
    addGodebugV (withRet R st) l args = (withRet R (addGodebugV st l args).1, (addGodebugV st l args).2) := by
  unfold addGodebugV withRet AddState.err; ret_frame

theorem addReqExc_withRet (R : List Retract) (st : AddState) (l : Line) (verb : Bytes) (args : List Bytes)
    (fix : Option Fixer) :
    addReqExc (withRet R st) l verb args fix =
      (withRet R (addReqExc st l verb args fix).1, (addReqExc st l verb args fix).2) := by
  unfold addReqExc withRet AddState.err; ret_frame

theorem addReplaceV_withRet (R : List Retract) (st : AddState) (l : Line) (args : List Bytes) (fix : Option Fixer) :
    addReplaceV (withRet R st) l args fix =
      (withRet R (addReplaceV st l args fix).1, (addReplaceV st l args fix).2) := by
  unfold addReplaceV withRet AddState.err; ret_frame

theorem addToolV_withRet (R : List Retract) (st : AddState) (l : Line) (args : List Bytes) :
    addToolV (withRet R st) l args = (withRet R (addToolV st l args).1, (addToolV st l args).2) := by
  unfold addToolV withRet AddState.err; ret_frame

/-- ★ `add_withRet`: one `File.add` step on a verb other than `retract` does not read the list of retractions -/
theorem add_withRet (R : List Retract) (st : AddState) (block : Option Comments) (l : Line) (verb : Bytes)
    (args : List Bytes) (fix : Option Fixer) (strict : Bool) (hv : (verb == B "retract") = false) :
    File.add (withRet R st) block l verb args fix strict =
      (withRet R (File.add st block l verb args fix strict).1, (File.add st block l verb args fix strict).2) := by
  rw [add_eq, add_eq]
  simp only [hv, Bool.false_eq_true, if_false]
  split
  · rfl
  split
  · exact addGo_withRet ..
  split
  · exact addToolchain_withRet ..
  split
  · exact addModule_withRet ..
  split
  · exact addGodebugV_withRet ..
  split
  · exact addReqExc_withRet ..
  split
  · exact addReplaceV_withRet ..
  split
  · exact addToolV_withRet ..
  · rfl

/-- the `retract` step appends to whatever list is there: same rewritten arguments, same error decision -/
theorem addRetractV_withRet (R : List Retract) (st : AddState) (block : Option Comments) (l : Line) (args : List Bytes)
    (strict : Bool) :
    (addRetractV (withRet R st) block l args strict).2 = (addRetractV st block l args strict).2 ∧
    (addRetractV (withRet R st) block l args strict).1.errsRev = (addRetractV st block l args strict).1.errsRev ∧
    withRet [] (addRetractV (withRet R st) block l args strict).1 = withRet [] (addRetractV st block l args strict).1 ∧
    (addRetractV (withRet R st) block l args strict).1.file.retract =
      R ++ (addRetractV st block l args strict).1.file.retract.drop st.file.retract.length := by
  unfold addRetractV withRet AddState.err
  (repeat' (first | split | (dsimp only))) <;> simp_all

end ModVerif.Proofs.ModfileFmtRet
