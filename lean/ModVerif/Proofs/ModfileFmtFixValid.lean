/-
  C02 clause 3, leaf fixpoints, part 1: a valid semantic version is a plain identifier token.
  Its bytes are digits, ASCII letters, `-`, `.`, `+`; hence `MustQuote` is false, `AutoQuote` leaves it
  alone, it lexes as ONE identifier and `parseString` returns it unchanged.
-/
import ModVerif.Proofs.ModfileFmtQuoteUnquote
import ModVerif.Proofs.SemverCanonical
import ModVerif.Proofs.ModuleUtf8
namespace ModVerif.Proofs.ModfileFmtFix
open ModVerif ModVerif.Modfile ModVerif.SemverSpec
open ModVerif.Proofs.ModfileFmtQuote ModVerif.Proofs.ModfileFmtLex

/-- the bytes that can occur in a valid version -/
def vchar (b : UInt8) : Bool := Semver.isIdentChar b || b == 46 || b == 43

theorem vchar_of_digit {b : UInt8} (h : SemverSpec.isDigit b = true) : vchar b = true := by
  simp only [SemverSpec.isDigit, Bool.and_eq_true, decide_eq_true_eq] at h
  simp only [vchar, Semver.isIdentChar, Bool.or_eq_true, Bool.and_eq_true, decide_eq_true_eq]
  exact Or.inl (Or.inl (Or.inl (Or.inr h)))

example : SemverSpec.isDigit 48 = true := by decide

theorem vchar_of_ident {b : UInt8} (h : SemverSpec.isIdentChar b = true) : vchar b = true := by
  rw [← Semver.isIdentChar_eq] at h
  simp [vchar, h]

example : SemverSpec.isIdentChar 97 = true := by decide

theorem num_vchar {x : Bytes} (h : Num x) : ∀ b ∈ x, vchar b = true := by
  intro b hb
  exact vchar_of_digit (List.all_eq_true.1 h.2.1 b hb)

example : Num [49, 48] := ⟨by simp, by decide, by simp⟩

theorem joinDots_vchar {ids : List Bytes} (h : ∀ i ∈ ids, Ident i) : ∀ b ∈ joinDots ids, vchar b = true := by
  intro b hb
  rw [Semver.joinDots_eq] at hb
  rcases Semver.mem_joinSep 46 ids b hb with rfl | ⟨i, hi, hbi⟩
  · decide
  · exact vchar_of_ident (List.all_eq_true.1 (h i hi).2 b hbi)

example : ∀ i ∈ [[97], [98, 45]], Ident i := by
  intro i hi
  simp only [List.mem_cons, List.not_mem_nil, or_false] at hi
  rcases hi with rfl | rfl <;> exact ⟨by simp, by decide⟩

theorem preOpt_vchar {pre : Bytes} (h : PreOpt pre) : ∀ b ∈ pre, vchar b = true := by
  rcases h with rfl | ⟨ids, _, hids, rfl⟩
  · intro b hb; simp at hb
  · intro b hb
    rcases List.mem_cons.1 hb with rfl | hb
    · decide
    · exact joinDots_vchar (fun i hi => (hids i hi).1) b hb

example : PreOpt [45, 97, 46, 49] :=
  Or.inr ⟨[[97], [49]], by simp, by
    intro i hi
    simp only [List.mem_cons, List.not_mem_nil, or_false] at hi
    rcases hi with rfl | rfl <;> exact ⟨⟨by simp, by decide⟩, by decide⟩, rfl⟩

theorem buildOpt_vchar {bld : Bytes} (h : BuildOpt bld) : ∀ b ∈ bld, vchar b = true := by
  rcases h with rfl | ⟨ids, _, hids, rfl⟩
  · intro b hb; simp at hb
  · intro b hb
    rcases List.mem_cons.1 hb with rfl | hb
    · decide
    · exact joinDots_vchar hids b hb

example : BuildOpt [43, 97] :=
  Or.inr ⟨[[97]], by simp, by
    intro i hi
    simp only [List.mem_cons, List.not_mem_nil, or_false] at hi
    subst hi; exact ⟨by simp, by decide⟩, rfl⟩

theorem decomp_vchar {v : Bytes} {p : Semver.Parsed} (h : Semver.Decomp v p) : ∀ b ∈ v, vchar b = true := by
  have h118 : vchar 118 = true := by decide
  have h46 : vchar 46 = true := by decide
  cases h with
  | short1 maj nmaj =>
    intro b hb
    rcases List.mem_cons.1 hb with rfl | hb
    · exact h118
    · exact num_vchar nmaj b hb
  | short2 maj min nmaj nmin =>
    intro b hb
    simp only [List.cons_append, List.mem_cons, List.mem_append] at hb
    rcases hb with rfl | hb | rfl | hb
    · exact h118
    · exact num_vchar nmaj b hb
    · exact h46
    · exact num_vchar nmin b hb
  | full maj min pat pre bld nmaj nmin npat hpre hbld =>
    intro b hb
    simp only [List.cons_append, List.mem_cons, List.mem_append, List.append_assoc] at hb
    rcases hb with rfl | hb | rfl | hb | rfl | hb | hb | hb
    · exact h118
    · exact num_vchar nmaj b hb
    · exact h46
    · exact num_vchar nmin b hb
    · exact h46
    · exact num_vchar npat b hb
    · exact preOpt_vchar hpre b hb
    · exact buildOpt_vchar hbld b hb

example : Semver.Decomp (118 :: [49]) { major := [49], minor := [48], patch := [48], short := B ".0.0" } :=
  Semver.Decomp.short1 [49] ⟨by simp, by decide, by simp⟩

theorem valid_decomp {v : Bytes} (h : Semver.isValid v = true) : ∃ p, Semver.parse v = some p := by
  unfold Semver.isValid at h
  cases hp : Semver.parse v with
  | none => rw [hp] at h; cases h
  | some p => exact ⟨p, rfl⟩

example : Semver.isValid (B "v1.2.3") = true := by decide +kernel

theorem valid_vchar {v : Bytes} (h : Semver.isValid v = true) : ∀ b ∈ v, vchar b = true := by
  obtain ⟨p, hp⟩ := valid_decomp h
  exact decomp_vchar (Semver.parse_decomp hp)

example : Semver.isValid (B "v1.2.3-pre.1+meta") = true := by decide +kernel

theorem vchar_cases : ∀ b : UInt8, vchar b = true →
    (48 ≤ b ∧ b ≤ 57) ∨ (65 ≤ b ∧ b ≤ 90) ∨ (97 ≤ b ∧ b ≤ 122) ∨ b = 45 ∨ b = 46 ∨ b = 43 := by
  intro b h
  simp only [vchar, Semver.isIdentChar, Bool.or_eq_true, Bool.and_eq_true, decide_eq_true_eq, beq_iff_eq] at h
  rcases h with ((((h | h) | h) | h) | h) | h
  · exact Or.inr (Or.inl h)
  · exact Or.inr (Or.inr (Or.inl h))
  · exact Or.inl h
  · exact Or.inr (Or.inr (Or.inr (Or.inl h)))
  · exact Or.inr (Or.inr (Or.inr (Or.inr (Or.inl h))))
  · exact Or.inr (Or.inr (Or.inr (Or.inr (Or.inr h))))

example : vchar 43 = true := by decide

/-- ★ the bytes of a valid version: digits, ASCII letters, `-`, `.`, `+` -/
theorem valid_bytes {v : Bytes} (h : Semver.isValid v = true) : ∀ b ∈ v,
    (48 ≤ b ∧ b ≤ 57) ∨ (65 ≤ b ∧ b ≤ 90) ∨ (97 ≤ b ∧ b ≤ 122) ∨ b = 45 ∨ b = 46 ∨ b = 43 :=
  fun b hb => vchar_cases b (valid_vchar h b hb)

example : Semver.isValid (B "v1.2.3+incompatible") = true := by decide +kernel

/-- a valid version starts with `v` followed by a digit -/
theorem valid_head {v : Bytes} (h : Semver.isValid v = true) : ∃ d t, v = 118 :: d :: t ∧ SemverSpec.isDigit d = true := by
  obtain ⟨p, hp⟩ := valid_decomp h
  have numHead : ∀ {x : Bytes}, Num x → ∃ d t, x = d :: t ∧ SemverSpec.isDigit d = true := by
    intro x hx
    cases x with
    | nil => exact absurd rfl hx.1
    | cons d t =>
      have := hx.2.1
      simp only [List.all_cons, Bool.and_eq_true] at this
      exact ⟨d, t, rfl, this.1⟩
  cases Semver.parse_decomp hp with
  | short1 maj nmaj =>
    obtain ⟨d, t, rfl, hd⟩ := numHead nmaj
    exact ⟨d, t, rfl, hd⟩
  | short2 maj min nmaj nmin =>
    obtain ⟨d, t, rfl, hd⟩ := numHead nmaj
    exact ⟨d, _, rfl, hd⟩
  | full maj min pat pre bld nmaj nmin npat hpre hbld =>
    obtain ⟨d, t, rfl, hd⟩ := numHead nmaj
    exact ⟨d, _, rfl, hd⟩

example : Semver.isValid (B "v0") = true := by decide +kernel

theorem valid_ne_nil {v : Bytes} (h : Semver.isValid v = true) : v ≠ [] := by
  obtain ⟨d, t, rfl, _⟩ := valid_head h
  simp

example : Semver.isValid (B "v1.2") = true := by decide +kernel

/-! ### `MustQuote` on such strings -/

/-- what `MustQuote` needs to know about a version byte, checked on all 256 bytes -/
theorem vchar_plain_fin : ∀ n : Fin 256, vchar (UInt8.ofNat n.val) = true →
    n.val < 128 ∧ mustQuoteAlways.contains n.val = false ∧ mustQuoteIfLong.contains n.val = false ∧
    UnicodePrint.isPrint n.val = true ∧ n.val ≠ 47 ∧ n.val ≠ 34 := by decide +kernel

theorem vchar_plain {b : UInt8} (h : vchar b = true) :
    b.toNat < 128 ∧ mustQuoteAlways.contains b.toNat = false ∧ mustQuoteIfLong.contains b.toNat = false ∧
    UnicodePrint.isPrint b.toNat = true ∧ b.toNat ≠ 47 ∧ b.toNat ≠ 34 := by
  have := vchar_plain_fin ⟨b.toNat, b.toNat_lt⟩
  simp only [UInt8.ofNat_toNat] at this
  exact this h

example : vchar 118 = true := by decide

theorem mustQuoteRunes_plain (len : Nat) : ∀ rs : List Nat,
    (∀ r ∈ rs, mustQuoteAlways.contains r = false ∧ mustQuoteIfLong.contains r = false ∧ UnicodePrint.isPrint r = true) →
    mustQuoteRunes len rs = false := by
  intro rs
  induction rs with
  | nil => intro _; rfl
  | cons r rest ih =>
    intro h
    obtain ⟨h1, h2, h3⟩ := h r (by simp)
    unfold mustQuoteRunes
    rw [if_neg (by rw [h1]; simp), if_neg (by rw [h2]; simp), if_neg (by simp [h3])]
    exact ih (fun r' hr' => h r' (by simp [hr']))

example : ∀ r ∈ [118, 49], mustQuoteAlways.contains r = false ∧ mustQuoteIfLong.contains r = false ∧
    UnicodePrint.isPrint r = true := by decide

/-- `strings.Contains(s, sub)` is false when the first byte of `sub` does not occur in `s` -/
theorem contains_of_head_absent {s : Bytes} {c : UInt8} {sub : Bytes} (h : c ∉ s) :
    GoStrings.contains s (c :: sub) = false := by
  have aux : ∀ (s : Bytes) (i : Nat), c ∉ s → GoStrings.indexAux (c :: sub) s i = none := by
    intro s
    induction s with
    | nil => intro i _; simp [GoStrings.indexAux]
    | cons a rest ih =>
      intro i hc
      have hne : c ≠ a := fun e => hc (by simp [e])
      have hrest : c ∉ rest := fun e => hc (by simp [e])
      have hb : (c == a) = false := by simpa using hne
      simp only [GoStrings.indexAux, isPrefixOfB, hb, Bool.false_and]
      simpa using ih (i + 1) hrest
  simp [GoStrings.contains, GoStrings.index, aux s 0 h]

example : (47 : UInt8) ∉ ([118, 49] : Bytes) := by decide

/-- a non-empty string of version bytes needs no quotes -/
theorem mustQuote_of_vchar {s : Bytes} (hne : s ≠ []) (h : ∀ b ∈ s, vchar b = true) : mustQuote s = false := by
  have hascii : ∀ b ∈ s, b.toNat < 128 := fun b hb => (vchar_plain (h b hb)).1
  have h47 : (47 : UInt8) ∉ s := by
    intro hm
    exact (vchar_plain (h 47 hm)).2.2.2.2.1 rfl
  have hr : mustQuoteRunes s.length (Utf8.runes s) = false := by
    rw [Utf8.runes_ascii s hascii]
    apply mustQuoteRunes_plain
    intro r hr
    obtain ⟨b, hb, rfl⟩ := List.mem_map.1 hr
    obtain ⟨_, h1, h2, h3, _⟩ := vchar_plain (h b hb)
    exact ⟨h1, h2, h3⟩
  have he : s.isEmpty = false := by
    cases s with
    | nil => exact absurd rfl hne
    | cons _ _ => rfl
  simp [mustQuote, hr, he, contains_of_head_absent h47]

example : ([118, 49] : Bytes) ≠ [] ∧ ∀ b ∈ ([118, 49] : Bytes), vchar b = true := by decide

/-- ★ a valid version needs no quotes -/
theorem valid_mustQuote {v : Bytes} (h : Semver.isValid v = true) : mustQuote v = false :=
  mustQuote_of_vchar (valid_ne_nil h) (valid_vchar h)

example : Semver.isValid (B "v1.2.3-0.20200101000000-abcdef012345") = true := by decide +kernel

/-- ★ `AutoQuote` leaves a valid version alone -/
theorem valid_autoQuote {v : Bytes} (h : Semver.isValid v = true) : autoQuote v = v := by
  simp [autoQuote, valid_mustQuote h]

example : Semver.isValid (B "v2.0.0+incompatible") = true := by decide +kernel

/-- ★ a valid version is ONE identifier token -/
theorem valid_tokOK {v : Bytes} (h : Semver.isValid v = true) : TokOK .ident v := by
  apply autoQuote_unquoted_ident (valid_mustQuote h)
  intro c hc hv
  obtain ⟨d, t, hvv, _⟩ := valid_head h
  rw [hvv] at hv
  simp at hv

example : Semver.isValid (B "v1") = true := by decide +kernel

/-- ★ `parseString` returns a valid version unchanged, as value and as token -/
theorem valid_parseString {v : Bytes} (h : Semver.isValid v = true) : parseString v = some (v, v) := by
  have := parseString_unquoted (valid_mustQuote h)
  rwa [valid_autoQuote h] at this

example : Semver.isValid (B "v1.0.0-rc.1") = true := by decide +kernel

end ModVerif.Proofs.ModfileFmtFix
