/-
  Strict weak orders presented by Int-valued comparators, stable insertion sort, and the three block
  comparators of modfile (lineLess, lineExcludeLess, lineRetractLess) as strict weak orders.
-/
import ModVerif.Spec.EditSpec
import ModVerif.Proofs.Cmp
import ModVerif.Proofs.CmpList
import ModVerif.Proofs.BytesOrder
import ModVerif.Props.C04
namespace ModVerif.EditSpec
open ModVerif

/-- a total preorder presented as a three-way comparator -/
structure PreCmp {α : Type} (c : α → α → Int) : Prop where
  range : ∀ x y, c x y = -1 ∨ c x y = 0 ∨ c x y = 1
  antisymm : ∀ x y, c x y = - c y x
  le_trans : ∀ x y z, c x y ≤ 0 → c y z ≤ 0 → c x z ≤ 0

/-- a strict weak order presented as a Boolean `less` -/
structure StrictWeak {α : Type} (less : α → α → Bool) : Prop where
  irrefl : ∀ a, less a a = false
  asymm : ∀ a b, less a b = true → less b a = false
  trans : ∀ a b c, less a b = true → less b c = true → less a c = true
  negTrans : ∀ a b c, less a b = false → less b c = false → less a c = false

theorem PreCmp.of_strict {α : Type} {c : α → α → Int} (h : StrictCmp c) : PreCmp c :=
  ⟨h.range, h.antisymm, fun _ _ _ h1 h2 => h.le_trans h1 h2⟩

theorem PreCmp.comap {α β : Type} {c : β → β → Int} (h : PreCmp c) (f : α → β) : PreCmp (fun x y => c (f x) (f y)) :=
  ⟨fun _ _ => h.range _ _, fun _ _ => h.antisymm _ _, fun _ _ _ => h.le_trans _ _ _⟩

theorem PreCmp.swap {α : Type} {c : α → α → Int} (h : PreCmp c) : PreCmp (fun x y => c y x) where
  range := fun x y => h.range y x
  antisymm := fun x y => h.antisymm y x
  le_trans := fun x y z h1 h2 => h.le_trans z y x h2 h1

/-- lexicographic product of two total preorders -/
theorem PreCmp.lex {α β : Type} {c : α → α → Int} {d : β → β → Int} (hc : PreCmp c) (hd : PreCmp d) :
    PreCmp (StrictCmp.lex c d) where
  range := by
    intro p q; unfold StrictCmp.lex; split
    · exact hc.range _ _
    · exact hd.range _ _
  antisymm := by
    intro p q; unfold StrictCmp.lex
    have a1 := hc.antisymm p.1 q.1
    have a2 := hd.antisymm p.2 q.2
    by_cases h : c p.1 q.1 = 0
    · have h' : c q.1 p.1 = 0 := by omega
      simp [h, h', a2]
    · have h' : c q.1 p.1 ≠ 0 := by omega
      simp [h', a1]
  le_trans := by
    intro p q r; unfold StrictCmp.lex
    have r1 := hc.range p.1 q.1; have r2 := hc.range q.1 r.1; have r3 := hc.range p.1 r.1
    have a1 := hc.antisymm p.1 q.1; have a2 := hc.antisymm q.1 r.1; have a3 := hc.antisymm p.1 r.1
    have t1 := hc.le_trans p.1 q.1 r.1; have t2 := hc.le_trans r.1 q.1 p.1
    have t3 := hc.le_trans q.1 p.1 r.1; have t4 := hc.le_trans p.1 r.1 q.1
    have t5 := hc.le_trans q.1 r.1 p.1; have t6 := hc.le_trans r.1 p.1 q.1
    have u := hd.le_trans p.2 q.2 r.2
    intro h1 h2
    split at h1 <;> split at h2 <;> split <;> omega

/-- the strict part of a total preorder is a strict weak order -/
theorem PreCmp.strictWeak {α : Type} {c : α → α → Int} (h : PreCmp c) :
    StrictWeak (fun a b => decide (c a b = -1)) where
  irrefl := by intro a; have := h.antisymm a a; simp; omega
  asymm := by intro a b; have := h.antisymm a b; simp; omega
  trans := by
    intro a b d
    have := h.le_trans a b d; have := h.le_trans d a b
    have := h.antisymm a b; have := h.antisymm b d; have := h.antisymm a d
    have := h.range a d
    simp; omega
  negTrans := by
    intro a b d
    have := h.le_trans d b a
    have := h.antisymm a b; have := h.antisymm b d; have := h.antisymm a d
    have := h.range a b; have := h.range b d; have := h.range a d
    simp; omega

/-! ### stable insertion sort -/

section sort
variable {α : Type} {less : α → α → Bool}

/-- `le a b` : `b` is not less than `a` -/
def Sorted (less : α → α → Bool) (l : List α) : Prop := l.Pairwise (fun a b => less b a = false)

theorem insertBy_perm (less : α → α → Bool) (x : α) (l : List α) : (insertBy less x l).Perm (x :: l) := by
  induction l with
  | nil => exact List.Perm.refl _
  | cons y ys ih =>
    unfold insertBy
    split
    · exact (List.Perm.cons y ih).trans (List.Perm.swap x y ys)
    · exact List.Perm.refl _

theorem sortBy_perm (less : α → α → Bool) (l : List α) : (sortBy less l).Perm l := by
  induction l with
  | nil => exact List.Perm.refl _
  | cons x xs ih =>
    show (insertBy less x (sortBy less xs)).Perm (x :: xs)
    exact (insertBy_perm less x _).trans (List.Perm.cons x ih)

theorem insertBy_sorted (h : StrictWeak less) (x : α) (l : List α) (hl : Sorted less l) :
    Sorted less (insertBy less x l) := by
  induction l with
  | nil => exact List.pairwise_singleton _ _
  | cons y ys ih =>
    rcases List.pairwise_cons.1 hl with ⟨h1, h2⟩
    unfold insertBy
    by_cases hyx : less y x = true
    · simp only [hyx, if_true]
      refine List.Pairwise.cons ?_ (ih h2)
      intro z hz
      have hz' := (List.Perm.mem_iff (insertBy_perm less x ys)).1 hz
      rw [List.mem_cons] at hz'
      rcases hz' with rfl | hz'
      · exact h.asymm _ _ hyx
      · exact h1 z hz'
    · simp only [Bool.not_eq_true] at hyx
      simp only [hyx]
      refine List.Pairwise.cons ?_ hl
      intro z hz
      rw [List.mem_cons] at hz
      rcases hz with rfl | hz
      · exact hyx
      · -- z ≥ y ≥ x
        exact h.negTrans z y x (h1 z hz) hyx

theorem sortBy_sorted (h : StrictWeak less) (l : List α) : Sorted less (sortBy less l) := by
  induction l with
  | nil => exact List.Pairwise.nil
  | cons x xs ih => exact insertBy_sorted h x _ ih

/-- a sorted list is a fixed point: sorting is idempotent -/
theorem sortBy_of_sorted (l : List α) (hl : Sorted less l) : sortBy less l = l := by
  induction l with
  | nil => rfl
  | cons x xs ih =>
    rcases List.pairwise_cons.1 hl with ⟨h1, h2⟩
    show insertBy less x (sortBy less xs) = x :: xs
    rw [ih h2]
    cases xs with
    | nil => rfl
    | cons y ys => simp [insertBy, h1 y (List.mem_cons_self)]

theorem sortBy_idem (h : StrictWeak less) (l : List α) : sortBy less (sortBy less l) = sortBy less l :=
  sortBy_of_sorted _ (sortBy_sorted h l)

/-- the adjacent-pairs test decides sortedness (for a strict weak order) -/
theorem sortedBy_iff (h : StrictWeak less) (l : List α) : sortedBy less l = true ↔ Sorted less l := by
  induction l with
  | nil => simp [sortedBy, Sorted]
  | cons x xs ih =>
    cases xs with
    | nil => simp [sortedBy, Sorted]
    | cons y ys =>
      simp only [sortedBy, Bool.and_eq_true, Bool.not_eq_true']
      constructor
      · rintro ⟨hxy, hr⟩
        have hs := ih.1 hr
        refine List.Pairwise.cons ?_ hs
        intro z hz
        rw [List.mem_cons] at hz
        rcases hz with rfl | hz
        · exact hxy
        · exact h.negTrans z y x ((List.pairwise_cons.1 hs).1 z hz) hxy
      · intro hs
        rcases List.pairwise_cons.1 hs with ⟨h1, h2⟩
        exact ⟨h1 y List.mem_cons_self, ih.2 h2⟩

/-- For a strict TOTAL order (distinct elements are comparable) a sorted list is determined by its
    multiset: the sort result does not depend on the order in which the input was presented. -/
theorem sorted_perm_unique (htot : ∀ a b, less a b = false → less b a = false → a = b)
    (l1 l2 : List α) (h1 : Sorted less l1) (h2 : Sorted less l2) (hp : l1.Perm l2) : l1 = l2 := by
  induction l1 generalizing l2 with
  | nil => exact (List.Perm.nil_eq hp)
  | cons a t1 ih =>
    cases l2 with
    | nil => exact absurd hp.symm (List.Perm.nil_eq · |> fun e => by cases e)
    | cons b t2 =>
      rcases List.pairwise_cons.1 h1 with ⟨ha, ht1⟩
      rcases List.pairwise_cons.1 h2 with ⟨hb, ht2⟩
      have hab : a = b := by
        have m1 : a ∈ b :: t2 := (List.Perm.mem_iff hp).1 List.mem_cons_self
        have m2 : b ∈ a :: t1 := (List.Perm.mem_iff hp).2 List.mem_cons_self
        rw [List.mem_cons] at m1 m2
        rcases m1 with e | m1
        · exact e
        rcases m2 with e | m2
        · exact e.symm
        exact htot a b (hb a m1) (ha b m2) |> fun e => e
      subst hab
      rw [ih t2 ht1 ht2 (List.Perm.cons_inv hp)]

theorem sortBy_perm_invariant (h : StrictWeak less) (htot : ∀ a b, less a b = false → less b a = false → a = b)
    (l1 l2 : List α) (hp : l1.Perm l2) : sortBy less l1 = sortBy less l2 :=
  sorted_perm_unique htot _ _ (sortBy_sorted h l1) (sortBy_sorted h l2)
    (((sortBy_perm less l1).trans hp).trans (sortBy_perm less l2).symm)

end sort
end ModVerif.EditSpec
