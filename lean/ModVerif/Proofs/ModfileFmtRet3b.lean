/-
  C02 clause 3 with a version fixer and `retract` directives, part d: the accepted strict parse.
  `fixRetract_tokens` (what the deferred pass left in the tree), `retract_bounds_fixpoints` (with idempotence on the
  image: every retract bound is a fixpoint of the fixer at the non-empty module path), and the second-half theorem with
  the two fixer hypotheses discharged (`reparse_of_parse_fix`).
-/
import ModVerif.Proofs.ModfileFmtRet3
namespace ModVerif.Proofs.ModfileFmtRet
open ModVerif ModVerif.Modfile ModVerif.Proofs.ModfileC20
open ModVerif.Proofs.ModfileFmtDir ModVerif.Proofs.ModfileEol ModVerif.Proofs.ModfileFmtTree

/-- the module path `fixRetract` passes to the fixer -/
def modPath (f : Modfile.File) : Bytes :=
  match f.module with
  | some m => m.mod.path
  | none => []

theorem modPath_values (f : Modfile.File) : (values f).module.getD [] = modPath f := by
  unfold modPath values
  cases f.module <;> rfl

theorem nodupIds_of_keys {xs ys : List Expr} (h : (linesOf xs).map lineKey = (linesOf ys).map lineKey)
    (hn : NodupIds ys) : NodupIds xs := by
  unfold NodupIds at hn ⊢
  have e : ∀ zs : List Expr, (linesOf zs).map (·.id) = ((linesOf zs).map lineKey).map (·.1) := by
    intro zs; rw [List.map_map]; rfl
  rw [e, h, ← e]
  exact hn

theorem fixRetract_eq (st2 : AddState) (fx : Fixer) : fixRetract st2 (some fx) =
    match st2.file.retract with
    | [] => st2
    | r :: _ =>
      if (modPath st2.file).isEmpty then
        st2.err (((st2.file.syn.findLine r.lineId).map (·.start)).getD {}) .retractNoModule
      else
        { file := { st2.file with
            retract := (fixRetractLoop (modPath st2.file) fx st2.file.retract st2.file.syn st2.errsRev).1,
            syn := (fixRetractLoop (modPath st2.file) fx st2.file.retract st2.file.syn st2.errsRev).2.1 },
          errsRev := (fixRetractLoop (modPath st2.file) fx st2.file.retract st2.file.syn st2.errsRev).2.2 } := by
  unfold fixRetract modPath
  rfl

/-- the deferred pass on a state whose tree has distinct identities and whose retract entries carry distinct
    identities of lines of the tree, when it ends without an error -/
theorem fixRetract_ok_tokens (st2 : AddState) (fx : Fixer) (hn : NodupIds st2.file.syn.stmts)
    (hnd : (st2.file.retract.map (·.lineId)).Nodup)
    (hall : ∀ r ∈ st2.file.retract, ∃ l ∈ linesOf st2.file.syn.stmts, l.id = r.lineId)
    (he : (fixRetract st2 (some fx)).errsRev = []) :
    NodupIds (fixRetract st2 (some fx)).file.syn.stmts ∧
    ((fixRetract st2 (some fx)).file.retract ≠ [] → modPath (fixRetract st2 (some fx)).file ≠ []) ∧
    ∀ r ∈ (fixRetract st2 (some fx)).file.retract,
      RetFixed (modPath (fixRetract st2 (some fx)).file) fx (fixRetract st2 (some fx)).file.syn r := by
  rw [fixRetract_eq] at he ⊢
  cases hret : st2.file.retract with
  | nil =>
    simp only
    refine ⟨hn, fun hne => absurd hret hne, ?_⟩
    intro r hr
    rw [hret] at hr
    cases hr
  | cons r0 rs0 =>
    simp only [hret] at he ⊢
    cases hemp : (modPath st2.file).isEmpty with
    | true =>
      simp only [hemp, if_true, AddState.err] at he
      cases he
    | false =>
      simp only [hemp, Bool.false_eq_true, if_false] at he ⊢
      rw [hret] at hnd hall
      obtain ⟨_, i2, _, i4, _⟩ := fixRetractLoop_tokens (modPath st2.file) fx (r0 :: rs0) st2.file.syn st2.errsRev
        hn hnd hall he
      refine ⟨i2, ?_, i4⟩
      intro _ hc
      have hc' : modPath st2.file = [] := hc
      rw [hc'] at hemp
      cases hemp

/-- ★ `fixRetract_tokens`: after an accepted strict parse with the fixer `fx`, line identities of the tree are pairwise
    distinct, a file with retractions has a non-empty module path, and every typed retract entry has its line in the
    tree whose tokens are `keep ++ args'` (`keep` empty inside a block, else the verb), `args'` exactly the fixed
    bounds of the typed interval (`[v]` or `[ v , w ]`), both bounds being results of `fx` at the module path. -/
theorem fixRetract_tokens (name x : Bytes) (fx : Fixer) (f : Modfile.File)
    (h : parseToFile name x (some fx) true = .ok f) :
    NodupIds f.syn.stmts ∧ (f.retract ≠ [] → modPath f ≠ []) ∧
    ∀ r ∈ f.retract, RetFixed (modPath f) fx f.syn r := by
  unfold parseToFile at h
  cases hp : parse name x with
  | error e => simp [hp] at h
  | ok fs =>
    simp only [hp] at h
    have hkeys := addStmts_keys (some fx) true fs.stmts { file := { syn := fs } }
    have hretr := addStmts_retr (some fx) true fs.stmts { file := { syn := fs } }
    have hsub := addStmts_retrSub (some fx) true fs.stmts { file := { syn := fs } }
    cases ha : addStmts (some fx) true { file := { syn := fs } } fs.stmts with
    | mk st stmts =>
      rw [ha] at hkeys hretr hsub
      simp only [ha] at h
      simp only at hkeys hretr hsub
      have hn0 : NodupIds fs.stmts := parse_ids_nodup hp
      have hn : NodupIds stmts := nodupIds_of_keys hkeys hn0
      generalize hst2 : ({ st with file := { st.file with syn := { fs with stmts := stmts } } } : AddState) = st2 at h
      have hsyn : st2.file.syn.stmts = stmts := by rw [← hst2]
      have hretq : st2.file.retract = st.file.retract := by rw [← hst2]
      split at h
      · rename_i herr
        simp only [Except.ok.injEq] at h
        subst h
        apply fixRetract_ok_tokens st2 fx
        · rw [hsyn]; exact hn
        · obtain ⟨ids, e1, e2⟩ := hsub
          rw [hretq, e1]
          simp only [List.map_nil, List.nil_append]
          exact List.Nodup.sublist e2 hn0
        · intro r hr
          rw [hretq] at hr
          rw [hsyn]
          rcases hretr r hr with h0 | ⟨l, hl, hid⟩
          · cases h0
          · obtain ⟨l', hl', hid', _⟩ := mem_of_keys hkeys hl
            exact ⟨l', hl', hid'.trans hid⟩
        · simpa using herr
      · cases h

/-- the fixer is idempotent on its image -/
def FixIdem (fx : Fixer) : Prop := ∀ p v w, fx p v = .ok w → fx p w = .ok w

theorem fixIdem_of_fixOK {fx : Fixer} (h : ModfileFmtDir.FixOK (some fx)) : FixIdem fx := by
  rcases h with h | ⟨fx', e, h⟩
  · cases h
  · cases e; exact h

/-- ★ `retract_bounds_fixpoints`: with a fixer that is idempotent on its image, every retract bound of an accepted file
    is a fixpoint of the fixer at the module path, which is not empty when there is a retraction. -/
theorem retract_bounds_fixpoints (name x : Bytes) (fx : Fixer) (f : Modfile.File)
    (h : parseToFile name x (some fx) true = .ok f) (hfix : ModfileFmtDir.FixOK (some fx)) :
    (f.retract ≠ [] → modPath f ≠ []) ∧
    ∀ r ∈ f.retract, fx (modPath f) r.interval.low = .ok r.interval.low ∧
      fx (modPath f) r.interval.high = .ok r.interval.high := by
  obtain ⟨_, h2, h3⟩ := fixRetract_tokens name x fx f h
  refine ⟨h2, ?_⟩
  intro r hr
  obtain ⟨_, _, _, _, _, _, _, _, ⟨s1, f1⟩, ⟨s2, f2⟩, _⟩ := h3 r hr
  exact ⟨fixIdem_of_fixOK hfix _ _ _ f1, fixIdem_of_fixOK hfix _ _ _ f2⟩

/-- the retract lines of the accepted tree are fixpoints of the placeholder parse `File.add` makes, reading the typed
    interval (the form `addStmts_rettok` records) -/
theorem retract_lines_dontFix (name x : Bytes) (fx : Fixer) (f : Modfile.File)
    (h : parseToFile name x (some fx) true = .ok f) (hwf : WellFormed f) :
    ∀ r ∈ f.retract, ∃ l ∈ linesOf f.syn.stmts, l.id = r.lineId ∧ ∃ keep args rest, l.token = keep ++ args ∧
      (keep = [] ∨ keep = [B "retract"]) ∧
      parseVersionInterval [] args (some dontFixRetract) = (args, .ok (r.interval, rest)) := by
  obtain ⟨_, _, h3⟩ := fixRetract_tokens name x fx f h
  intro r hr
  obtain ⟨l, hl, hid, keep, args, rest, htok, hk, hfa⟩ := h3 r hr
  exact ⟨l, hl, hid, keep, args, rest, htok, hk, pvi_dont_of_fixed hfa (hwf.retract r hr).1 (hwf.retract r hr).2⟩

/-- ★ the second half with the two fixer hypotheses discharged: for an accepted well-formed file `f`, if a second run of
    the directive layer over `f.syn` reports no error, rewrites no token and reads the values of `f`, the strict parser
    with the same fixer accepts `format f.syn` with the values of `f`. -/
theorem reparse_of_parse_fix (name x : Bytes) (fx : Fixer) (f : Modfile.File) (st1 : AddState)
    (h : parseToFile name x (some fx) true = .ok f) (hwf : WellFormed f)
    (hfix : ModfileFmtDir.FixOK (some fx)) (hne : FixNE (some fx))
    (hw : EWFStmts f.syn.stmts) (hnl : ∀ s ∈ f.syn.stmts, NlOK s) (hc : f.syn.comments.before = [])
    (ha : addStmts (some fx) true { file := { syn := f.syn } } f.syn.stmts = (st1, f.syn.stmts))
    (he : st1.errsRev = []) (hv : values st1.file = values f) :
    ∃ f', parseToFile name (format f.syn) (some fx) true = .ok f' ∧ values f' = values f := by
  obtain ⟨hmod, himg⟩ := retract_bounds_fixpoints name x fx f h hfix
  have hw1 : WellFormed st1.file := wellFormed_of_values hv.symm hwf
  obtain ⟨f', hp', hv'⟩ := reparse_of_first_run_fix name f.syn fx st1 hfix hne hw hnl hc ha he hw1
    (by
      rw [hv, modPath_values]
      intro hr
      apply hmod
      intro hc'
      apply hr
      simp [values, hc'])
    (by
      rw [hv, modPath_values]
      intro vi hvi
      simp only [values, List.mem_map] at hvi
      obtain ⟨r, hr, rfl⟩ := hvi
      exact himg r hr)
  exact ⟨f', hp', hv'.trans hv⟩

end ModVerif.Proofs.ModfileFmtRet
