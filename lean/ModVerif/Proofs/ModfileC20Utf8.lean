import ModVerif.Basic.GoStrings
import ModVerif.Proofs.ModfileLex
namespace ModVerif.Proofs.ModfileC20Utf8
open ModVerif ModVerif.Proofs.ModfileLex

theorem isCont_ge {b : UInt8} (h : Utf8.isCont b = true) : 0x80 ≤ b.toNat := by
  simp [Utf8.isCont] at h; omega

theorem inRange_ge {lo hi : Nat} {b : UInt8} (h : Utf8.inRange lo hi b = true) : lo ≤ b.toNat := by
  simp [Utf8.inRange] at h; omega

theorem ite_some_inv {α : Type} (c : Bool) (v x : α) (h : (if c = true then some v else none) = some x) :
    c = true ∧ v = x := by
  cases c <;> simp at h ⊢; exact h

theorem decode_nonascii {b0 : UInt8} {rest : Bytes} {r w : Nat} (h0 : 0x80 ≤ b0.toNat)
    (h : Utf8.decode (b0 :: rest) = some (r, w)) :
    0x80 ≤ r ∧ ∀ b ∈ (b0 :: rest).take w, 0x80 ≤ b.toNat := by
  unfold Utf8.decode at h
  simp only at h
  have h1 : ¬ b0.toNat < 0x80 := by omega
  simp only [h1, if_false] at h
  split at h
  · cases h
  · split at h
    · split at h
      · rename_i b1 tl
        split at h
        · rename_i hc
          simp only [Option.some.injEq, Prod.mk.injEq] at h
          obtain ⟨rfl, rfl⟩ := h
          have := isCont_ge hc
          refine ⟨by omega, ?_⟩
          intro b hb
          simp at hb
          rcases hb with rfl | rfl <;> omega
        · cases h
      · cases h
    · split at h
      · split at h
        · rename_i b1 b2 tl
          obtain ⟨hc, hv⟩ := ite_some_inv _ _ _ h
          simp only [Bool.and_eq_true] at hc
          simp only [Prod.mk.injEq] at hv
          obtain ⟨rfl, rfl⟩ := hv
          have h2 := isCont_ge hc.2
          have h1 : 0x80 ≤ b1.toNat ∧ (b0.toNat = 0xE0 → 0xA0 ≤ b1.toNat) := by
            have := hc.1
            split at this
            · have := inRange_ge this; omega
            · rename_i hne
              have hne : b0.toNat ≠ 0xE0 := by simpa using hne
              split at this <;> have := inRange_ge this <;> omega
          refine ⟨by omega, ?_⟩
          intro b hb
          simp at hb
          rcases hb with rfl | rfl | rfl <;> omega
        · cases h
      · split at h
        · split at h
          · rename_i b1 b2 b3 tl
            obtain ⟨hc, hv⟩ := ite_some_inv _ _ _ h
            simp only [Bool.and_eq_true] at hc
            simp only [Prod.mk.injEq] at hv
            obtain ⟨rfl, rfl⟩ := hv
            have h2 := isCont_ge hc.1.2
            have h3 := isCont_ge hc.2
            have h1 : 0x80 ≤ b1.toNat ∧ (b0.toNat = 0xF0 → 0x90 ≤ b1.toNat) := by
              have := hc.1.1
              split at this
              · have := inRange_ge this; omega
              · rename_i hne
                have hne : b0.toNat ≠ 0xF0 := by simpa using hne
                split at this <;> have := inRange_ge this <;> omega
            refine ⟨by omega, ?_⟩
            intro b hb
            simp at hb
            rcases hb with rfl | rfl | rfl | rfl <;> omega
          · cases h
        · cases h

theorem take_eq_cons2 {t : Bytes} {a b : UInt8} {l : Bytes} (h : t.take 2 = (a :: b :: l).take 2) :
    ∃ t', t = a :: b :: t' := by
  match t, h with
  | x :: y :: t', h => simp at h; exact ⟨t', by rw [h.1, h.2]⟩
  | [x], h => simp at h
  | [], h => simp at h

theorem take_eq_cons3 {t : Bytes} {a b c : UInt8} {l : Bytes} (h : t.take 3 = (a :: b :: c :: l).take 3) :
    ∃ t', t = a :: b :: c :: t' := by
  match t, h with
  | x :: y :: z :: t', h => simp at h; exact ⟨t', by rw [h.1, h.2.1, h.2.2]⟩
  | [x, y], h => simp at h
  | [x], h => simp at h
  | [], h => simp at h

theorem take_eq_cons4 {t : Bytes} {a b c d : UInt8} {l : Bytes} (h : t.take 4 = (a :: b :: c :: d :: l).take 4) :
    ∃ t', t = a :: b :: c :: d :: t' := by
  match t, h with
  | x :: y :: z :: u :: t', h => simp at h; exact ⟨t', by rw [h.1, h.2.1, h.2.2.1, h.2.2.2]⟩
  | [x, y, z], h => simp at h
  | [x, y], h => simp at h
  | [x], h => simp at h
  | [], h => simp at h

/-- `decode` looks only at the bytes of the rune it returns. -/
theorem decode_congr {s t : Bytes} {r w : Nat} (h : Utf8.decode s = some (r, w)) (ht : t.take w = s.take w) :
    Utf8.decode t = some (r, w) := by
  unfold Utf8.decode at h
  split at h
  · cases h
  · rename_i b0 rest
    simp only at h
    split at h
    · rename_i hlt
      simp only [Option.some.injEq, Prod.mk.injEq] at h
      obtain ⟨rfl, rfl⟩ := h
      match t, ht with
      | x :: t', ht =>
        simp at ht; subst ht
        unfold Utf8.decode; simp [hlt]
      | [], ht => simp at ht
    · split at h
      · cases h
      · split at h
        · split at h
          · rename_i b1 tl
            obtain ⟨hc, hv⟩ := ite_some_inv _ _ _ h
            simp only [Prod.mk.injEq] at hv
            obtain ⟨rfl, rfl⟩ := hv
            obtain ⟨t', rfl⟩ := take_eq_cons2 ht
            unfold Utf8.decode; simp [*]
          · cases h
        · split at h
          · split at h
            · rename_i b1 b2 tl
              obtain ⟨hc, hv⟩ := ite_some_inv _ _ _ h
              simp only [Prod.mk.injEq] at hv
              obtain ⟨rfl, rfl⟩ := hv
              obtain ⟨t', rfl⟩ := take_eq_cons3 ht
              unfold Utf8.decode; simp only [*, if_false, if_true]
            · cases h
          · split at h
            · split at h
              · rename_i b1 b2 b3 tl
                obtain ⟨hc, hv⟩ := ite_some_inv _ _ _ h
                simp only [Prod.mk.injEq] at hv
                obtain ⟨rfl, rfl⟩ := hv
                obtain ⟨t', rfl⟩ := take_eq_cons4 ht
                unfold Utf8.decode; simp only [*, if_false, if_true]
              · cases h
            · cases h


/-- Prefix stability of `decodeRune`: cutting the input anywhere at or after the end of the first rune
    does not change what is decoded. -/
theorem decodeRune_prefix {p x : Bytes} (hw : (Utf8.decodeRune (p ++ x)).2 ≤ p.length) :
    Utf8.decodeRune p = Utf8.decodeRune (p ++ x) := by
  unfold Utf8.decodeRune at hw ⊢
  cases h : Utf8.decode (p ++ x) with
  | some rw =>
    obtain ⟨r, w⟩ := rw
    rw [h] at hw
    simp only at hw
    have : Utf8.decode p = some (r, w) := decode_congr h (by rw [List.take_append_of_le_length hw])
    rw [this]
  | none =>
    cases h2 : Utf8.decode p with
    | none => rfl
    | some rw =>
      obtain ⟨r, w⟩ := rw
      have hwid := (decode_width h2).2
      have : Utf8.decode (p ++ x) = some (r, w) := decode_congr h2 (by rw [List.take_append_of_le_length hwid])
      rw [this] at h; cases h

/-- shape of one decoding step: an ASCII byte is its own rune of width 1; anything else yields a rune
    ≥ 0x80 (possibly RuneError) and consumes only bytes ≥ 0x80. -/
theorem decodeRune_cases (b0 : UInt8) (rest : Bytes) :
    (b0.toNat < 0x80 ∧ Utf8.decodeRune (b0 :: rest) = (b0.toNat, 1)) ∨
    (0x80 ≤ b0.toNat ∧ 0x80 ≤ (Utf8.decodeRune (b0 :: rest)).1 ∧
      ∀ b ∈ (b0 :: rest).take (Utf8.decodeRune (b0 :: rest)).2, 0x80 ≤ b.toNat) := by
  by_cases h : b0.toNat < 0x80
  · exact Or.inl ⟨h, decodeRune_ascii b0 rest h⟩
  · refine Or.inr ⟨by omega, ?_⟩
    unfold Utf8.decodeRune
    cases hd : Utf8.decode (b0 :: rest) with
    | some rw =>
      obtain ⟨r, w⟩ := rw
      exact decode_nonascii (by omega) hd
    | none =>
      refine ⟨by simp [Utf8.runeError], ?_⟩
      intro b hb
      simp at hb
      subst hb; omega

/-- `decodeRune_newline`: the bytes of one decoded rune contain a newline byte exactly when the rune is
    the newline, and then they are that single byte. -/
theorem decodeRune_newline (s : Bytes) (hs : s ≠ []) :
    (s.take (Utf8.decodeRune s).2).count 10 = if (Utf8.decodeRune s).1 = 10 then 1 else 0 := by
  match s, hs with
  | b0 :: rest, _ =>
    rcases decodeRune_cases b0 rest with ⟨hlt, heq⟩ | ⟨hge, hr, hall⟩
    · rw [heq]
      simp only [List.take_succ_cons, List.take_zero, List.count_cons, List.count_nil, Nat.zero_add]
      by_cases hb : b0 = 10
      · subst hb; decide
      · have : b0.toNat ≠ 10 := by
          intro h; apply hb; exact UInt8.toNat_inj.mp h
        simp [hb, this]
    · have h1 : (Utf8.decodeRune (b0 :: rest)).1 ≠ 10 := by omega
      simp only [h1, if_false]
      apply List.count_eq_zero.mpr
      intro hmem
      have := hall 10 hmem
      simp at this

theorem decodeRune_eq_newline {s : Bytes} (hs : s ≠ []) (h : (Utf8.decodeRune s).1 = 10) :
    s.take (Utf8.decodeRune s).2 = [10] := by
  match s, hs with
  | b0 :: rest, _ =>
    rcases decodeRune_cases b0 rest with ⟨hlt, heq⟩ | ⟨hge, hr, hall⟩
    · rw [heq] at h ⊢
      simp only at h
      have : b0 = 10 := UInt8.toNat_inj.mp h
      subst this; rfl
    · omega

theorem decodeRune_ne_newline {s : Bytes} (hs : s ≠ []) (h : (Utf8.decodeRune s).1 ≠ 10) :
    ∀ b ∈ s.take (Utf8.decodeRune s).2, b ≠ 10 := by
  intro b hb hb10
  subst hb10
  have := decodeRune_newline s hs
  simp only [h, if_false] at this
  exact (List.count_eq_zero.mp this) hb


/-! ### runeCount -/

theorem runeCountAux_acc : ∀ (fuel : Nat) (s : Bytes) (n : Nat),
    GoStrings.runeCountAux fuel s n = n + GoStrings.runeCountAux fuel s 0 := by
  intro fuel
  induction fuel with
  | zero => intro s n; simp [GoStrings.runeCountAux]
  | succ k ih =>
    intro s n
    cases s with
    | nil => simp [GoStrings.runeCountAux]
    | cons a t =>
      simp only [GoStrings.runeCountAux]
      rw [ih _ (n + 1), ih _ (0 + 1)]
      omega

theorem runeCountAux_fuel : ∀ (fuel : Nat) (s : Bytes), s.length ≤ fuel →
    GoStrings.runeCountAux fuel s 0 = GoStrings.runeCountAux s.length s 0 := by
  intro fuel
  induction fuel using Nat.strongRecOn with
  | _ fuel ih =>
    intro s hle
    cases s with
    | nil => cases fuel <;> simp [GoStrings.runeCountAux]
    | cons a t =>
      cases fuel with
      | zero => simp at hle
      | succ k =>
        have hw := decodeRune_width (a :: t) (by simp)
        simp only [GoStrings.runeCountAux, List.length_cons]
        rw [runeCountAux_acc k, runeCountAux_acc t.length]
        have hlen : ((a :: t).drop (Utf8.decodeRune (a :: t)).2).length ≤ t.length := by
          simp only [List.length_drop, List.length_cons]; omega
        simp only [List.length_cons] at hle
        rw [ih k (by omega) _ (by omega), ih t.length (by omega) _ hlen]

theorem runeCount_nil : GoStrings.runeCount [] = 0 := rfl

theorem runeCount_step {s : Bytes} (hs : s ≠ []) :
    GoStrings.runeCount s = 1 + GoStrings.runeCount (s.drop (Utf8.decodeRune s).2) := by
  match s, hs with
  | a :: t, _ =>
    have hw := decodeRune_width (a :: t) (by simp)
    unfold GoStrings.runeCount
    simp only [List.length_cons, GoStrings.runeCountAux]
    rw [runeCountAux_acc]
    have hlen : ((a :: t).drop (Utf8.decodeRune (a :: t)).2).length ≤ t.length := by
      simp only [List.length_drop, List.length_cons]; omega
    rw [runeCountAux_fuel t.length _ hlen]

/-- `Aligned s k n`: decoding `s` rune by rune reaches byte offset `k` after exactly `n` runes. -/
inductive Aligned : Bytes → Nat → Nat → Prop
  | zero (s : Bytes) : Aligned s 0 0
  | step {s : Bytes} {k n : Nat} : s ≠ [] → Aligned (s.drop (Utf8.decodeRune s).2) k n →
      Aligned s ((Utf8.decodeRune s).2 + k) (n + 1)

theorem Aligned.le {s : Bytes} {k n : Nat} (h : Aligned s k n) : k ≤ s.length := by
  induction h with
  | zero s => omega
  | @step s k n hs _ ih =>
    have := decodeRune_width s hs
    simp only [List.length_drop] at ih
    omega

/-- one more rune at the end -/
theorem Aligned.snoc {s : Bytes} {k n : Nat} (h : Aligned s k n) (hk : s.drop k ≠ []) :
    Aligned s (k + (Utf8.decodeRune (s.drop k)).2) (n + 1) := by
  induction h with
  | zero s =>
    have : s ≠ [] := by simpa using hk
    simpa using Aligned.step this (Aligned.zero _)
  | @step s k n hs _ ih =>
    rw [← List.drop_drop] at hk ⊢
    have := Aligned.step hs (ih hk)
    rw [Nat.add_assoc]
    exact this

/-- the number of runes of an aligned prefix -/
theorem Aligned.runeCount {s : Bytes} {k n : Nat} (h : Aligned s k n) : GoStrings.runeCount (s.take k) = n := by
  induction h with
  | zero s => simp [runeCount_nil]
  | @step s k n hs hrest ih =>
    have hw := decodeRune_width s hs
    have hk := hrest.le
    simp only [List.length_drop] at hk
    have hne : s.take ((Utf8.decodeRune s).2 + k) ≠ [] := by
      intro h0
      have := congrArg List.length h0
      simp only [List.length_take, List.length_nil] at this
      have : 0 < s.length := List.length_pos_iff.mpr hs
      omega
    have hsplit : s = s.take ((Utf8.decodeRune s).2 + k) ++ s.drop ((Utf8.decodeRune s).2 + k) :=
      (List.take_append_drop _ _).symm
    have hpre : Utf8.decodeRune (s.take ((Utf8.decodeRune s).2 + k)) = Utf8.decodeRune s := by
      have := @decodeRune_prefix (s.take ((Utf8.decodeRune s).2 + k)) (s.drop ((Utf8.decodeRune s).2 + k))
        (by rw [← hsplit, List.length_take]; omega)
      rw [← hsplit] at this
      exact this
    rw [runeCount_step hne, hpre, List.drop_take, Nat.add_sub_cancel_left, ih]
    omega

end ModVerif.Proofs.ModfileC20Utf8
