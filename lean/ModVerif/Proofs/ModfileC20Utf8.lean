import ModVerif.Basic.GoStrings
import ModVerif.Proofs.ModfileLex
namespace ModVerif.Proofs.ModfileC20Utf8
open ModVerif ModVerif.Proofs.ModfileLex

theorem isCont_ge {b : UInt8} (h : Utf8.isCont b = true) : 0x80 ≤ b.toNat := by
  simp [Utf8.isCont] at h; omega

theorem inRange_ge {lo hi : Nat} {b : UInt8} (h : Utf8.inRange lo hi b = true) : lo ≤ b.toNat := by
  simp [Utf8.inRange] at h; omega

theorem ite_some_inv {α : Type} (c : Bool) (v x : α) (h : (if c = true then some v else none) = some x) :
    c = true ∧ v = x := by
  cases c <;> simp at h ⊢; exact h

theorem decode_nonascii {b0 : UInt8} {rest : Bytes} {r w : Nat} (h0 : 0x80 ≤ b0.toNat)
    (h : Utf8.decode (b0 :: rest) = some (r, w)) :
    0x80 ≤ r ∧ ∀ b ∈ (b0 :: rest).take w, 0x80 ≤ b.toNat := by
  unfold Utf8.decode at h
  simp only at h
  have h1 : ¬ b0.toNat < 0x80 := by omega
  simp only [h1, if_false] at h
  split at h
  · cases h
  · split at h
    · split at h
      · rename_i b1 tl
        split at h
        · rename_i hc
          simp only [Option.some.injEq, Prod.mk.injEq] at h
          obtain ⟨rfl, rfl⟩ := h
          have := isCont_ge hc
          refine ⟨by omega, ?_⟩
          intro b hb
          simp at hb
          rcases hb with rfl | rfl <;> omega
        · cases h
      · cases h
    · split at h
      · split at h
        · rename_i b1 b2 tl
          obtain ⟨hc, hv⟩ := ite_some_inv _ _ _ h
          simp only [Bool.and_eq_true] at hc
          simp only [Prod.mk.injEq] at hv
          obtain ⟨rfl, rfl⟩ := hv
          have h2 := isCont_ge hc.2
          have h1 : 0x80 ≤ b1.toNat ∧ (b0.toNat = 0xE0 → 0xA0 ≤ b1.toNat) := by
            have := hc.1
            split at this
            · have := inRange_ge this; omega
            · rename_i hne
              have hne : b0.toNat ≠ 0xE0 := by simpa using hne
              split at this <;> have := inRange_ge this <;> omega
          refine ⟨by omega, ?_⟩
          intro b hb
          simp at hb
          rcases hb with rfl | rfl | rfl <;> omega
        · cases h
      · split at h
        · split at h
          · rename_i b1 b2 b3 tl
            obtain ⟨hc, hv⟩ := ite_some_inv _ _ _ h
            simp only [Bool.and_eq_true] at hc
            simp only [Prod.mk.injEq] at hv
            obtain ⟨rfl, rfl⟩ := hv
            have h2 := isCont_ge hc.1.2
            have h3 := isCont_ge hc.2
            have h1 : 0x80 ≤ b1.toNat ∧ (b0.toNat = 0xF0 → 0x90 ≤ b1.toNat) := by
              have := hc.1.1
              split at this
              · have := inRange_ge this; omega
              · rename_i hne
                have hne : b0.toNat ≠ 0xF0 := by simpa using hne
                split at this <;> have := inRange_ge this <;> omega
            refine ⟨by omega, ?_⟩
            intro b hb
            simp at hb
            rcases hb with rfl | rfl | rfl | rfl <;> omega
          · cases h
        · cases h
end ModVerif.Proofs.ModfileC20Utf8
