/-
  EditWork, part 5 — the list-level half of C16 `perm_independent` (full): the stable sort is characterised by its
  equivalence classes (`sortBy_stable`, `sorted_stable_unique`), so two inputs `old ++ new1` and `old ++ new2` that differ
  only in the order of appended elements no two of which are equivalent have the same sorted result
  (`sortBy_append_perm_invariant`) — no totality on the elements needed, only on the sort key.  For the lines of a block
  (`stableSort_block_perm_invariant`): the comparator looks at the tokens only, the appended lines have pairwise different
  tokens; and the sort commutes with any relabelling of the line ids (`stableSort_map_token`), so the statement holds
  modulo the fresh ids handed out in map-iteration order (`stableSort_block_perm_invariant_modIds`).
-/
import ModVerif.Proofs.EditModel
import ModVerif.Proofs.EditSpecCmp
set_option linter.unusedSimpArgs false
namespace ModVerif.EditSpec
open ModVerif

section stable
variable {α : Type} {less : α → α → Bool}

/-- equivalent for the order: neither is less than the other -/
def eqv (less : α → α → Bool) (a b : α) : Bool := !less a b && !less b a

theorem eqv_symm (a b : α) : eqv less a b = eqv less b a := by simp [eqv, Bool.and_comm]

theorem eqv_trans (h : StrictWeak less) {a b c : α} (h1 : eqv less a b = true) (h2 : eqv less b c = true) :
    eqv less a c = true := by
  simp only [eqv, Bool.and_eq_true, Bool.not_eq_true'] at h1 h2 ⊢
  exact ⟨h.negTrans _ _ _ h1.1 h2.1, h.negTrans _ _ _ h2.2 h1.2⟩

/-- insertion keeps, for every equivalence class, the order "new element first, then the old ones" -/
theorem insertBy_filter (h : StrictWeak less) (z x : α) (l : List α) :
    (insertBy less x l).filter (eqv less z) = (x :: l).filter (eqv less z) := by
  induction l with
  | nil => rfl
  | cons y ys ih =>
    unfold insertBy
    by_cases hyx : less y x = true
    · simp only [hyx, if_true]
      rw [List.filter_cons, ih]
      -- `y` and `x` are not both equivalent to `z`
      by_cases hzy : eqv less z y = true
      · have hzx : eqv less z x = false := by
          cases hzx : eqv less z x with
          | false => rfl
          | true =>
            have : eqv less y x = true := eqv_trans h (by rw [eqv_symm]; exact hzy) hzx
            simp [eqv, hyx] at this
        simp [List.filter_cons, hzy, hzx]
      · simp only [Bool.not_eq_true] at hzy
        simp [List.filter_cons, hzy]
    · simp only [Bool.not_eq_true] at hyx
      simp only [hyx, Bool.false_eq_true, if_false]

/-- **the insertion sort is stable**: every equivalence class keeps its order -/
theorem sortBy_stable (h : StrictWeak less) (z : α) (l : List α) :
    (sortBy less l).filter (eqv less z) = l.filter (eqv less z) := by
  induction l with
  | nil => rfl
  | cons x xs ih =>
    show (insertBy less x (sortBy less xs)).filter (eqv less z) = _
    rw [insertBy_filter h, List.filter_cons, ih, ← List.filter_cons]

/-- a sorted list is determined by its multiset together with the order inside every equivalence class -/
theorem sorted_stable_unique (h : StrictWeak less) (l1 l2 : List α) (h1 : Sorted less l1) (h2 : Sorted less l2)
    (hp : l1.Perm l2) (hc : ∀ z, l1.filter (eqv less z) = l2.filter (eqv less z)) : l1 = l2 := by
  induction l1 generalizing l2 with
  | nil => exact (List.Perm.nil_eq hp)
  | cons a t1 ih =>
    cases l2 with
    | nil => exact absurd hp.symm (List.Perm.nil_eq · |> fun e => by cases e)
    | cons b t2 =>
      rcases List.pairwise_cons.1 h1 with ⟨ha, ht1⟩
      rcases List.pairwise_cons.1 h2 with ⟨hb, ht2⟩
      have haa : eqv less a a = true := by simp [eqv, h.irrefl]
      have hab : eqv less a b = true := by
        have m1 : a ∈ b :: t2 := (List.Perm.mem_iff hp).1 List.mem_cons_self
        have m2 : b ∈ a :: t1 := (List.Perm.mem_iff hp).2 List.mem_cons_self
        rw [List.mem_cons] at m1 m2
        rcases m1 with e | m1
        · rw [← e]; exact haa
        rcases m2 with e | m2
        · rw [e]; exact haa
        simp only [eqv, Bool.and_eq_true, Bool.not_eq_true']
        exact ⟨hb a m1, ha b m2⟩
      have heq : a = b := by
        have := hc a
        simp only [List.filter_cons, haa, hab, if_true, List.cons.injEq] at this
        exact this.1
      subst heq
      congr 1
      refine ih t2 ht1 ht2 (List.Perm.cons_inv hp) ?_
      intro z
      have := hc z
      simp only [List.filter_cons] at this
      split at this
      · exact (List.cons.inj this).2
      · exact this

/-- two inputs with the same multiset and the same order inside every equivalence class sort to the same list -/
theorem sortBy_eq_of_classes (h : StrictWeak less) (l1 l2 : List α) (hp : l1.Perm l2)
    (hc : ∀ z, l1.filter (eqv less z) = l2.filter (eqv less z)) : sortBy less l1 = sortBy less l2 :=
  sorted_stable_unique h _ _ (sortBy_sorted h l1) (sortBy_sorted h l2)
    (((sortBy_perm less l1).trans hp).trans (sortBy_perm less l2).symm)
    (fun z => by rw [sortBy_stable h, sortBy_stable h, hc z])

theorem perm_short_eq {β : Type} : ∀ (l1 l2 : List β), l1.Perm l2 → l1.length ≤ 1 → l1 = l2
  | [], l2, hp, _ => (List.Perm.nil_eq hp)
  | [a], l2, hp, _ => (List.perm_singleton.1 hp.symm).symm
  | _ :: _ :: _, _, _, hl => by simp at hl

theorem filter_class_short (h : StrictWeak less) (z : α) : ∀ (l : List α), l.Pairwise (fun a b => eqv less a b = false) →
    (l.filter (eqv less z)).length ≤ 1 := by
  intro l hl
  induction l with
  | nil => simp
  | cons a t ih =>
    rcases List.pairwise_cons.1 hl with ⟨ha, ht⟩
    rw [List.filter_cons]
    split
    · rename_i hza
      have : t.filter (eqv less z) = [] := by
        apply List.filter_eq_nil_iff.2
        intro b hb hzb
        have := eqv_trans h (by rw [eqv_symm]; exact hza) hzb
        rw [ha b hb] at this
        cases this
      simp [this]
    · exact ih ht

/-- **the order in which pairwise inequivalent elements are appended does not matter** -/
theorem sortBy_append_perm_invariant (h : StrictWeak less) (old new1 new2 : List α) (hp : new1.Perm new2)
    (hd : new1.Pairwise (fun a b => eqv less a b = false)) : sortBy less (old ++ new1) = sortBy less (old ++ new2) := by
  refine sortBy_eq_of_classes h _ _ (List.Perm.append_left _ hp) ?_
  intro z
  rw [List.filter_append, List.filter_append]
  congr 1
  exact perm_short_eq _ _ (hp.filter _) (filter_class_short h z new1 hd)

end stable
end ModVerif.EditSpec

namespace ModVerif.Modfile.Edit
open ModVerif ModVerif.Modfile ModVerif.EditSpec

/-- **a block to which lines with pairwise different tokens were appended** sorts to the same list whatever the order in
    which they were appended (the comparator is total on tokens: `lineLess`) -/
theorem stableSort_block_perm_invariant (less : List Bytes → List Bytes → Bool) (hsw : StrictWeak less)
    (htot : ∀ a b, less a b = false → less b a = false → a = b) (old new1 new2 : List Line) (hp : new1.Perm new2)
    (hd : new1.Pairwise (fun a b => a.token ≠ b.token)) :
    stableSort less (old ++ new1) = stableSort less (old ++ new2) := by
  rw [stableSort_eq, stableSort_eq]
  refine sortBy_append_perm_invariant (onToken_strictWeak hsw) old new1 new2 hp ?_
  refine hd.imp ?_
  intro a b hab
  cases hq : eqv (onToken less) a b with
  | false => rfl
  | true =>
    simp only [eqv, onToken, Bool.and_eq_true, Bool.not_eq_true'] at hq
    exact absurd (htot _ _ hq.1 hq.2) hab

theorem insertLine_map (less : List Bytes → List Bytes → Bool) (f : Line → Line) (hf : ∀ l, (f l).token = l.token) (x : Line) :
    ∀ l : List Line, insertLine less (f x) (l.map f) = (insertLine less x l).map f
  | [] => rfl
  | y :: ys => by
    simp only [List.map_cons, insertLine, hf]
    split
    · simp only [List.map_cons, insertLine_map less f hf x ys]
    · rfl

/-- the sort looks at the tokens only: it commutes with every relabelling of the lines that keeps the tokens -/
theorem stableSort_map_token (less : List Bytes → List Bytes → Bool) (f : Line → Line) (hf : ∀ l, (f l).token = l.token) :
    ∀ l : List Line, stableSort less (l.map f) = (stableSort less l).map f
  | [] => rfl
  | x :: xs => by
    show insertLine less (f x) (stableSort less (xs.map f)) = (insertLine less x (stableSort less xs)).map f
    rw [stableSort_map_token less f hf xs, insertLine_map less f hf]

/-- … and therefore modulo line ids: if the appended lines of the two runs are the same up to a relabelling `f` of the
    lines that keeps the tokens (e.g. erasing the fresh ids, which are handed out in map-iteration order), the two sorted
    blocks are the same up to `f` -/
theorem stableSort_block_perm_invariant_modIds (less : List Bytes → List Bytes → Bool) (hsw : StrictWeak less)
    (htot : ∀ a b, less a b = false → less b a = false → a = b) (f : Line → Line) (hf : ∀ l, (f l).token = l.token)
    (old new1 new2 : List Line) (hp : (new1.map f).Perm (new2.map f)) (hd : new1.Pairwise (fun a b => a.token ≠ b.token)) :
    (stableSort less (old ++ new1)).map f = (stableSort less (old ++ new2)).map f := by
  rw [← stableSort_map_token less f hf, ← stableSort_map_token less f hf, List.map_append, List.map_append]
  refine stableSort_block_perm_invariant less hsw htot _ _ _ hp ?_
  rw [List.pairwise_map]
  exact hd.imp (fun {a b} hab => by rw [hf, hf]; exact hab)

/-- the instance for every block but exclude-from-go-1.21 and retract (`lessFor … = lineLess`; `require`, `use` blocks) -/
theorem stableSort_lineLess_perm_invariant_modIds (f : Line → Line) (hf : ∀ l, (f l).token = l.token)
    (old new1 new2 : List Line) (hp : (new1.map f).Perm (new2.map f)) (hd : new1.Pairwise (fun a b => a.token ≠ b.token)) :
    (stableSort lineLess (old ++ new1)).map f = (stableSort lineLess (old ++ new2)).map f := by
  refine stableSort_block_perm_invariant_modIds lineLess lineLess_strictWeak ?_ f hf old new1 new2 hp hd
  intro a b h1 h2
  rw [lineLess_eq_spec] at h1 h2
  exact EditSpec.lineLess_total a b h1 h2

end ModVerif.Modfile.Edit
