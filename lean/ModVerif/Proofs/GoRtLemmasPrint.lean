/-
  General lemmas about the GoRt run-time vocabulary used by the tie proofs of the go.mod printer (Tie/FnPrint.lean):
  reads and truncations at the END of a byte buffer that is given by its reversed bytes (the hand model of print.go keeps
  the output buffer reversed: `bufRev.head?` is the last byte written).

  Core Lean only.  Namespace `ModVerif.GoRtPrint`.
-/
import ModVerif.Basic.GoRt
import ModVerif.Proofs.GoRtLemmas
namespace ModVerif.GoRtPrint
open ModVerif ModVerif.GoRt

/-- `b[n-1]` where `b` is the reverse of `P ++ c :: S` and `n = len(S)+1`: the byte `c` -/
theorem idx_reverse_split (P S : Bytes) (c : UInt8) :
    idx ((P ++ c :: S).reverse) (S.length : Int) = .ok ((c.toNat : Nat) : Int) := by
  have e : (P ++ c :: S).reverse = S.reverse ++ c :: P.reverse := by simp
  rw [e]
  have := idx_append_length S.reverse c P.reverse
  simpa using this

/-- the last byte of a non-empty buffer: `b[len(b)-1]` -/
theorem idx_last (c : UInt8) (R : Bytes) :
    idx ((c :: R).reverse) (len ((c :: R).reverse) - 1) = .ok ((c.toNat : Nat) : Int) := by
  have h : len ((c :: R).reverse) - 1 = (R.length : Int) := by simp [len_eq]
  rw [h]
  exact idx_reverse_split [] R c

/-- the last but one byte: `b[len(b)-2]` -/
theorem idx_last2 (c d : UInt8) (R : Bytes) :
    idx ((c :: d :: R).reverse) (len ((c :: d :: R).reverse) - 2) = .ok ((d.toNat : Nat) : Int) := by
  have h : len ((c :: d :: R).reverse) - 2 = (R.length : Int) := by simp [len_eq]
  rw [h]
  exact idx_reverse_split [c] R d

/-- `b[:n]` where `b` is the reverse of `P ++ S` and `n = len(S)`: truncation drops the last `len(P)` bytes -/
theorem sliceTo_reverse_split (P S : Bytes) :
    sliceTo ((P ++ S).reverse) (S.length : Int) = .ok S.reverse := by
  rw [sliceTo_natCast (by simp)]
  simp [List.reverse_append]

theorem sliceTo_reverse_dropWhile (p : UInt8 → Bool) (R : Bytes) :
    sliceTo R.reverse (((R.dropWhile p).length : Nat) : Int) = .ok (R.dropWhile p).reverse := by
  have := sliceTo_reverse_split (R.takeWhile p) (R.dropWhile p)
  rwa [List.takeWhile_append_dropWhile] at this

/-- `b[:len(b)-1]` -/
theorem sliceTo_drop_last (c : UInt8) (R : Bytes) :
    sliceTo ((c :: R).reverse) (len ((c :: R).reverse) - 1) = .ok R.reverse := by
  have h : len ((c :: R).reverse) - 1 = (R.length : Int) := by simp [len_eq]
  rw [h]
  exact sliceTo_reverse_split [c] R

theorem len_reverse {α : Type} (s : List α) : len s.reverse = len s := by simp [len_eq]

theorem len_pos_cons {α : Type} (a : α) (s : List α) : (len (a :: s) > 0) := by
  simp [len_eq]

/-- comparison of a byte read from a buffer with a literal -/
theorem decide_byte_eq (c : UInt8) (k : Nat) (hk : k < 256) :
    decide (((c.toNat : Nat) : Int) = ((k : Nat) : Int)) = (c == UInt8.ofNat k) := by
  rw [Bool.eq_iff_iff]
  simp only [decide_eq_true_eq, beq_iff_eq]
  constructor
  · intro h
    apply UInt8.toNat_inj.mp
    have : c.toNat = k := by omega
    rw [this]; simp [Nat.mod_eq_of_lt hk]
  · intro h; subst h; simp [Nat.mod_eq_of_lt hk]

/-- the element at the split point of a slice: the invariant of every `for _, x := range l` loop -/
theorem idxL_append_length {α : Type} (pre : List α) (c : α) (suf : List α) :
    idxL (pre ++ c :: suf) (pre.length : Int) = .ok c := by
  have h : pre.length < (pre ++ c :: suf).length := by simp
  rw [idxL_natCast h]; simp

theorem range_cond_true {α : Type} (pre : List α) (c : α) (suf : List α) :
    decide ((pre.length : Int) < len (pre ++ c :: suf)) = true := by
  simp [len_eq]; omega

theorem range_cond_false {α : Type} (pre : List α) :
    decide ((pre.length : Int) < len (pre ++ ([] : List α))) = false := by
  simp [len_eq]

theorem range_next {α : Type} (pre : List α) (c : α) :
    (pre.length : Int) + 1 = ((pre ++ [c]).length : Int) := by
  simp

theorem length_dropWhile_le {α : Type} (p : α → Bool) : ∀ l : List α, (l.dropWhile p).length ≤ l.length
  | [] => Nat.le_refl _
  | a :: l => by
    by_cases h : p a = true
    · simp only [List.dropWhile_cons, h, if_true, List.length_cons]
      exact Nat.le_succ_of_le (length_dropWhile_le p l)
    · simp [h]

end ModVerif.GoRtPrint
