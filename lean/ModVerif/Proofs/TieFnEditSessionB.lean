/-
  Composition of the FnEdit ties, part B (agent edit-session): ONE operation of the driver (`Drv.GenEdit.applyOp`) against
  ONE operation of the model (`Edit.applyMod`), by plumbing the operation ties of Tie/FnEdit{Stmt,Req,Set,Sort}.lean.

  * `newReqs` (the request objects the driver allocates for the bulk setters) is edit-set's `allocReqs`;
  * `stepFuel e op`: the fuel demand of one operation in the model state `e` (the maximum of the bounds of its tie);
  * `Out`: the correspondence of results — model `some (.ok e')` ↔ `.ok (some true, h')` with `RepF h' fp e'`; a returned
    error ↔ `.ok (some false, h)` with the heap unchanged; a panic error ↔ `.error .panic`; `none` ↔ `.ok (none, h)`;
  * `applyOp_out`: the correspondence for every operation.
-/
import ModVerif.Proofs.TieFnEditSessionA
import ModVerif.Drv.GenEdit
import ModVerif.Tie.FnEditStmt
import ModVerif.Tie.FnEditReq
import ModVerif.Tie.FnEditSet
import ModVerif.Tie.FnEditSort
set_option linter.unusedSimpArgs false
set_option linter.unusedVariables false
namespace ModVerif.Tie.FnEditSessionB
open ModVerif ModVerif.GoRt ModVerif.Generated.Edit ModVerif.Tie.FnEditRep ModVerif.Tie.FnEditSessionA
open ModVerif.Modfile.Edit (EFile EditErr Want)
open ModVerif.Drv.GenEdit (isPrintI quoteI applyOp)
open ModVerif.TieFnEditAddLine (nodeCount)
open ModVerif.Tie.FnEditSortB (nodes)
open ModVerif.Tie.FnEditSortE (sortFuel)
open ModVerif.Tie.FnEditSortG (cleanSize)
open ModVerif.Tie.FnEditSetC (fuelSetRequire)
open ModVerif.Tie.FnEditSetP (fuelSep)
open ModVerif.Tie.FnEditSet (addNewFuel)
open ModVerif.Tie.FnEditSetQ (allocReqs InTree)
open ModVerif.Tie.FnEditSetD (wantReq)
open ModVerif.Tie.FnEditReqE (modPath)

/-! ### the request objects of the bulk setters -/

/-- `newReqs` of `Drv.GenEdit.applyOp` -/
def newReqs (l : List EditSpec.Req) (h : Heap) : List Int × Heap :=
  l.foldl (fun (acc : List Int × Heap) r =>
    let (p, rl) := heapAlloc acc.2.requires ({ Mod := { Path := r.path, Version := r.vers }, Indirect := r.indirect, Syntax := 0 } : Require)
    (acc.1 ++ [p], { acc.2 with requires := rl })) ([], h)

theorem newReqs_aux : ∀ (l : List EditSpec.Req) (acc : List Int) (h : Heap),
    l.foldl (fun (acc : List Int × Heap) r =>
      let (p, rl) := heapAlloc acc.2.requires ({ Mod := { Path := r.path, Version := r.vers }, Indirect := r.indirect, Syntax := 0 } : Require)
      (acc.1 ++ [p], { acc.2 with requires := rl })) (acc, h) =
    (acc ++ (allocReqs (l.map toWant) h).1, (allocReqs (l.map toWant) h).2)
  | [], acc, h => by simp [allocReqs]
  | r :: rs, acc, h => by
    rw [List.foldl_cons]
    refine (newReqs_aux rs (acc ++ [((h.requires.length + 1 : Nat) : Int)])
      { h with requires := h.requires ++ [({ Mod := { Path := r.path, Version := r.vers }, Indirect := r.indirect, Syntax := 0 } : Require)] }).trans ?_
    simp only [List.map_cons, allocReqs, List.append_assoc, List.singleton_append]
    rfl

/-- the driver's `newReqs` is edit-set's `allocReqs` -/
theorem newReqs_eq (l : List EditSpec.Req) (h : Heap) : newReqs l h = allocReqs (l.map toWant) h := by
  unfold newReqs
  rw [newReqs_aux]
  simp

/-! ### fuel of one operation -/

/-- the model state `File.AddTool` hands to `SortBlocks` -/
def addToolPre (e : EFile) (path : Bytes) : EFile :=
  { f := { e.f with tool := e.f.tool ++ [{ path := path, lineId := e.next }],
                    syn := Modfile.Edit.addLine e.f.syn none [B "tool", path] e.next }, next := e.next + 1 }

/-- fuel demand of one go.mod operation in the model state `e`: the maximum of the explicit lower bounds of its tie -/
def stepFuel (e : EFile) : EditSpec.Op → Nat
  | .addModule p => max (nodeCount e.f.syn.stmts + 3) (p.length + 1)
  | .addGo _ => nodeCount e.f.syn.stmts + 3
  | .dropGo => 0
  | .addToolchain _ => nodeCount e.f.syn.stmts + 3
  | .dropToolchain => 0
  | .addGodebug _ _ => max (e.f.godebug.length + 1) (nodeCount e.f.syn.stmts + 3)
  | .dropGodebug _ => e.f.godebug.length + 1
  | .addRequire p _ => max (e.f.require.length + p.length + 2) (nodeCount e.f.syn.stmts + 3)
  | .addNewRequire p _ _ => max (nodeCount e.f.syn.stmts + 3) (p.length + 1)
  | .dropRequire _ => e.f.require.length + 1
  | .setRequire l => fuelSetRequire addNewFuel sortFuel e (l.map toWant)
  | .setRequireSeparateIndirect l => fuelSep sortFuel e (l.map toWant)
  | .addExclude p v => max (max (p.length + 1) (2 * v.length)) (max (e.f.exclude.length + 1) (nodeCount e.f.syn.stmts + 3))
  | .dropExclude _ _ => e.f.exclude.length + 1
  | .addReplace a _ c _ => max (max (a.length + 1) (c.length + 1)) (max (e.f.replace.length + 1) (nodeCount e.f.syn.stmts + 3))
  | .dropReplace _ _ => e.f.replace.length + 1
  | .addRetract lo hi why => max (max ((modPath e).length + 1) (max (2 * hi.length + 1) (2 * lo.length + 1)))
      (max (nodeCount e.f.syn.stmts + 3) (why.length + 5))
  | .dropRetract _ _ => e.f.retract.length + 1
  | .addTool p => if e.f.tool.any (·.path == p) then e.f.tool.length + 1
      else max (max (e.f.tool.length + 1) (nodeCount e.f.syn.stmts + 3)) (sortFuel (addToolPre e p))
  | .dropTool _ => e.f.tool.length + 1
  | .sortBlocks => sortFuel e
  | .cleanup => max (cleanSize e + 1) (nodes e.f.syn.stmts + 1)
  | _ => 0

/-! ### the correspondence of results -/

/-- the wrappers of `Drv.GenEdit.applyOp` -/
def resW (r : M ((Option String) × Heap)) : M (Option Bool × Heap) := do let (e, h) ← r; pure (some e.isNone, h)
def unitW (r : M (Unit × Heap)) : M (Option Bool × Heap) := do let (_, h) ← r; pure (some true, h)

/-- model result `x` of one operation ↔ driver result `a` (from the heap `h` at `fp`) -/
def Out (x : Option (Except EditErr EFile)) (a : M (Option Bool × Heap)) (h : Heap) (fp : Int) : Prop :=
  match x with
  | none => a = .ok (none, h)
  | some (.ok e') => ∃ h', a = .ok (some true, h') ∧ RepF h' fp e'
  | some (.error err) => (err.isReturned = true ∧ a = .ok (some false, h)) ∨ (err.isReturned = false ∧ a = .error .panic)

theorem out_res_ok {r : M ((Option String) × Heap)} {h : Heap} {fp : Int} {e' : EFile}
    (T : ∃ h', r = .ok (none, h') ∧ RepF h' fp e') : Out (some (.ok e')) (resW r) h fp := by
  obtain ⟨h', h1, h2⟩ := T
  exact ⟨h', by rw [h1]; rfl, h2⟩

theorem out_unit_ok {r : M (Unit × Heap)} {h : Heap} {fp : Int} {e' : EFile}
    (T : ∃ h', r = .ok ((), h') ∧ RepF h' fp e') : Out (some (.ok e')) (unitW r) h fp := by
  obtain ⟨h', h1, h2⟩ := T
  exact ⟨h', by rw [h1]; rfl, h2⟩

/-- a tie of the shape "model error ↦ panic" and a model operation whose errors are panics -/
theorem out_res_panic {r : M ((Option String) × Heap)} {h : Heap} {fp : Int} {x : Except EditErr EFile}
    (T : match x with
      | .ok e' => ∃ h', r = .ok (none, h') ∧ RepF h' fp e'
      | .error _ => r = .error .panic) (hx : NR x) : Out (some x) (resW r) h fp := by
  cases x with
  | ok e' => exact out_res_ok T
  | error err => exact Or.inr ⟨hx err rfl, by rw [show r = .error .panic from T]; rfl⟩

theorem out_unit_panic {r : M (Unit × Heap)} {h : Heap} {fp : Int} {x : Except EditErr EFile}
    (T : match x with
      | .ok e' => ∃ h', r = .ok ((), h') ∧ RepF h' fp e'
      | .error _ => r = .error .panic) (hx : NR x) : Out (some x) (unitW r) h fp := by
  cases x with
  | ok e' => exact out_unit_ok T
  | error err => exact Or.inr ⟨hx err rfl, by rw [show r = .error .panic from T]; rfl⟩

/-- a tie of the shape "model error ↦ returned error, heap unchanged" -/
theorem out_res_ret {r : M ((Option String) × Heap)} {h : Heap} {fp : Int} {x : Except EditErr EFile}
    (T : match x with
      | .ok e' => ∃ h', r = .ok (none, h') ∧ RepF h' fp e'
      | .error err => err.isReturned = true ∧ ∃ s, r = .ok (some s, h)) : Out (some x) (resW r) h fp := by
  cases x with
  | ok e' => exact out_res_ok T
  | error err =>
    obtain ⟨h1, s, h2⟩ := T
    exact Or.inl ⟨h1, by rw [h2]; rfl⟩

/-! ### one operation -/

/-- **one operation of the driver against one operation of the model**, for every `EditSpec.Op` -/
theorem applyOp_out {h : Heap} {fp : Int} {e : EFile} (R : RepF h fp e) (op : EditSpec.Op) (hs : ScalarsLive e)
    (hT : ∀ w, op = .setRequireSeparateIndirect w → InTree e) (fuel : Nat) (hf : stepFuel e op ≤ fuel) :
    Out (Modfile.Edit.applyMod e (opM op)) (applyOp fuel fp h op) h fp := by
  cases op with
  | addModule p =>
    simp only [stepFuel] at hf
    exact out_res_ok (FnEditStmt.File_AddModuleStmt_tie R hs.module p fuel (by omega) (by omega))
  | addGo v =>
    simp only [stepFuel] at hf
    refine out_res_ret (x := Modfile.Edit.addGoStmt e v) ?_
    have T := FnEditStmt.File_AddGoStmt_tie R hs.go hs.module v fuel hf
    cases hx : Modfile.Edit.addGoStmt e v with
    | ok e' => rw [hx] at T; exact T
    | error err => rw [hx] at T; exact ⟨by rw [T.1]; rfl, _, T.2⟩
  | dropGo => exact out_unit_ok (FnEditStmt.File_DropGoStmt_tie R hs.go)
  | addToolchain n =>
    simp only [stepFuel] at hf
    refine out_res_ret (x := Modfile.Edit.addToolchainStmt e n) ?_
    have T := FnEditStmt.File_AddToolchainStmt_tie R hs.toolchain hs.go hs.module n fuel hf
    cases hx : Modfile.Edit.addToolchainStmt e n with
    | ok e' => rw [hx] at T; exact T
    | error err => rw [hx] at T; exact ⟨by rw [T.1]; rfl, _, T.2⟩
  | dropToolchain => exact out_unit_ok (FnEditStmt.File_DropToolchainStmt_tie R hs.toolchain)
  | addGodebug k v =>
    simp only [stepFuel] at hf
    exact out_res_panic (FnEditStmt.File_AddGodebug_tie R k v fuel (by omega) (by omega)) (NR_addGodebug e k v)
  | dropGodebug k =>
    simp only [stepFuel] at hf
    exact out_res_panic (FnEditStmt.File_DropGodebug_tie R k fuel hf) (NR_dropGodebug e k)
  | addRequire p v =>
    simp only [stepFuel] at hf
    exact out_res_panic (FnEditReq.File_AddRequire_tie R p v fuel (by omega) (by omega)) (NR_addRequire e p v)
  | addNewRequire p v i =>
    simp only [stepFuel] at hf
    exact out_unit_ok (FnEditReq.File_AddNewRequire_tie R p v i fuel (by omega) (by omega))
  | dropRequire p =>
    simp only [stepFuel] at hf
    exact out_res_panic (FnEditReq.File_DropRequire_tie R p fuel hf) (NR_dropRequire e p)
  | setRequire l =>
    simp only [stepFuel] at hf
    have T := FnEditSet.File_SetRequire_alloc_tie (h := h) (l.map toWant) R hf
    rw [← newReqs_eq] at T
    exact out_unit_panic T (NR_setRequire e _ _)
  | setRequireSeparateIndirect l =>
    simp only [stepFuel] at hf
    have T := FnEditSet.File_SetRequireSeparateIndirect_alloc_tie (h := h) (l.map toWant) R (hT l rfl) hf
    rw [← newReqs_eq] at T
    exact out_unit_panic T (NR_setRequireSeparateIndirect e _ _)
  | addExclude p v =>
    simp only [stepFuel] at hf
    refine out_res_ret (x := Modfile.Edit.addExclude e p v) ?_
    have T := FnEditReq.File_AddExclude_tie R p v fuel (by omega) (by omega) (by omega) (by omega)
    cases hx : Modfile.Edit.addExclude e p v with
    | ok e' => rw [hx] at T; exact T
    | error err => rw [hx] at T; exact ⟨by rw [T.1]; rfl, T.2⟩
  | dropExclude p v =>
    simp only [stepFuel] at hf
    exact out_res_panic (FnEditReq.File_DropExclude_tie R p v fuel hf) (NR_dropExclude e p v)
  | addReplace a b c d =>
    simp only [stepFuel] at hf
    exact out_res_panic (FnEditReq.File_AddReplace_tie R a b c d fuel (by omega) (by omega) (by omega) (by omega)) (NR_addReplace e a b c d)
  | dropReplace a b =>
    simp only [stepFuel] at hf
    exact out_res_panic (FnEditReq.File_DropReplace_tie R a b fuel hf) (NR_dropReplace e a b)
  | addRetract lo hi why =>
    simp only [stepFuel] at hf
    refine out_res_ret (x := Modfile.Edit.addRetract e { low := lo, high := hi } why) ?_
    have T := FnEditReq.File_AddRetract_tie R { low := lo, high := hi } why fuel (by omega) (by simp only []; omega)
      (by simp only []; omega) (by omega) (by omega)
    cases hx : Modfile.Edit.addRetract e { low := lo, high := hi } why with
    | ok e' => rw [hx] at T; exact T
    | error err => rw [hx] at T; exact ⟨by rw [T.1]; rfl, T.2⟩
  | dropRetract lo hi =>
    simp only [stepFuel] at hf
    exact out_res_panic (FnEditReq.File_DropRetract_tie R { low := lo, high := hi } fuel hf) (NR_dropRetract e { low := lo, high := hi })
  | addTool p =>
    simp only [stepFuel] at hf
    cases hp : e.f.tool.any (·.path == p) with
    | true =>
      simp only [hp, if_true] at hf
      obtain ⟨h1, h2⟩ := FnEditStmt.File_AddTool_present_tie R p fuel hf hp
      refine out_res_ok (e' := Modfile.Edit.addTool e p) ⟨h, h1, ?_⟩
      rw [h2]; exact R
    | false =>
      simp only [hp, if_false, Bool.false_eq_true] at hf
      exact out_res_ok (FnEditStmt.File_AddTool_tie R p fuel (by omega) (by omega) (by unfold addToolPre at hf; omega))
  | dropTool p =>
    simp only [stepFuel] at hf
    exact out_res_panic (FnEditStmt.File_DropTool_tie R p fuel hf) (NR_dropTool e p)
  | sortBlocks =>
    simp only [stepFuel] at hf
    exact out_unit_ok (FnEditSort.File_SortBlocks_tie R fuel hf)
  | cleanup =>
    simp only [stepFuel] at hf
    exact out_unit_ok (FnEditSort.File_Cleanup_tie R fuel (by omega) (by omega))
  | addUse d m => exact (rfl : applyOp fuel fp h (.addUse d m) = .ok (none, h))
  | addNewUse d m => exact (rfl : applyOp fuel fp h (.addNewUse d m) = .ok (none, h))
  | dropUse d => exact (rfl : applyOp fuel fp h (.dropUse d) = .ok (none, h))
  | setUse w => exact (rfl : applyOp fuel fp h (.setUse w) = .ok (none, h))

end ModVerif.Tie.FnEditSessionB
