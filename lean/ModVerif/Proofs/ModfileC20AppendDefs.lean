/-
  C20, `lax_ignores_unknown` at the level of input bytes — definitions shared by the
  `ModfileC20Append*` files: the SHIFT of a syntax tree (what happens to the statements of a file `b`
  when complete source lines `a` are put in front of it: every position moves by the number of lines /
  bytes of `a`, every line identity by the number of lines parsed from `a`; the rune-in-line column does
  not move because `a` ends with a newline), and the comment-free restriction on input bytes.
-/
import ModVerif.Model.Modfile.Comments
namespace ModVerif.Proofs.ModfileC20Append
open ModVerif ModVerif.Modfile

/-- a shift: `dl` lines, `db` bytes, `dn` line identities -/
structure Sh where
  dl : Nat := 0
  db : Nat := 0
  dn : Nat := 0
  deriving Repr, DecidableEq

def shP (s : Sh) (p : Position) : Position :=
  { line := p.line + s.dl, lineRune := p.lineRune, byte := p.byte + s.db }

/-- comments are NOT touched: in a comment-free file the only `Comment` values of the tree are the
    blank-line placeholders `{}` inside blocks, whose position is the zero position in every file -/
def shLine (s : Sh) (l : Line) : Line :=
  { l with id := l.id + s.dn, start := shP s l.start, «end» := shP s l.«end» }

def shBlock (s : Sh) (b : LineBlock) : LineBlock :=
  { b with start := shP s b.start, lparen := { b.lparen with pos := shP s b.lparen.pos },
           lines := b.lines.map (shLine s), rparen := { b.rparen with pos := shP s b.rparen.pos } }

def shE (s : Sh) : Expr → Expr
  | .line l => .line (shLine s l)
  | .lineBlock b => .lineBlock (shBlock s b)
  | e => e

/-- the comment-free restriction on input bytes: the two bytes `//` occur nowhere (not even inside a
    quoted string) -/
def NoSS (x : Bytes) : Prop := ¬ ([47, 47] : Bytes) <:+: x

instance (x : Bytes) : Decidable (NoSS x) := by unfold NoSS; infer_instance

/-- `a` is a sequence of complete source lines -/
def EndsNL (a : Bytes) : Prop := a = [] ∨ a.getLast? = some 10

instance (a : Bytes) : Decidable (EndsNL a) := by unfold EndsNL; infer_instance

end ModVerif.Proofs.ModfileC20Append
