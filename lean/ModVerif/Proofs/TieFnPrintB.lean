/-
  Helper lemmas for Tie/FnPrint.lean, part B: the fuel accounting and the simulation of `printer.newline`.

  Fuel.  The generated functions hand their fuel down unchanged to the functions they call, every loop iteration and
  every recursive call of `expr` costs one unit, and the leaf loops of trim / indent need more fuel than the buffer is
  long.  So what has to be bounded is "buffer length + loop iterations so far".  The bound is a potential:
  `pot M p` = buffer length + the cost of flushing the pending end-of-line comments of `p` (at a margin of at most `M`
  tabs), and every operation `op` has a static cost `c(op)` (bytes it can write + iterations it can take) with
    `pot M p + c(op) ≤ fuel  →  generated op succeeds and equals the model`, and `pot M (op p) ≤ pot M p + c(op)`.
-/
import ModVerif.Proofs.TieFnPrintA
set_option linter.unusedSimpArgs false
set_option linter.unusedVariables false
namespace ModVerif.TieFnPrint
open ModVerif ModVerif.GoRt ModVerif.GoRtPrint ModVerif.Modfile
open ModVerif.Generated.Print
open ModVerif.Drv.GenPrint (G.pos G.com G.coms G.line G.lparen G.rparen G.expr G.file)

/-! ### costs -/

/-- flushing one pending end-of-line comment: its text, a newline, at most `M` tabs, one loop iteration -/
def cCom (M : Nat) (c : Modfile.Comment) : Nat := (GoStrings.trimSpace c.token).length + M + 2

def cComs (M : Nat) : List Modfile.Comment → Nat
  | [] => 0
  | c :: cs => cCom M c + cComs M cs

theorem cComs_append (M : Nat) (a b : List Modfile.Comment) : cComs M (a ++ b) = cComs M a + cComs M b := by
  induction a with
  | nil => simp [cComs]
  | cons c a ih => simp [cComs, ih]; omega

/-- the potential of a printer state -/
def pot (M : Nat) (mp : Printer) : Nat := mp.bufRev.length + cComs M mp.comment

/-- `newline` beyond the pending comments: the blank, the newline, at most `M` tabs, the exit of the comment loop -/
def cNewline (M : Nat) : Nat := M + 4

/-! ### the model's state components under the primitive operations -/

@[simp] theorem write_margin (mp : Printer) (s : Bytes) : (mp.write s).margin = mp.margin := rfl
@[simp] theorem write_comment (mp : Printer) (s : Bytes) : (mp.write s).comment = mp.comment := rfl
@[simp] theorem write_length (mp : Printer) (s : Bytes) :
    (mp.write s).bufRev.length = mp.bufRev.length + s.length := by simp [Printer.write]; omega
@[simp] theorem writeByte_margin (mp : Printer) (c : UInt8) : (mp.writeByte c).margin = mp.margin := rfl
@[simp] theorem writeByte_comment (mp : Printer) (c : UInt8) : (mp.writeByte c).comment = mp.comment := rfl
@[simp] theorem writeByte_length (mp : Printer) (c : UInt8) :
    (mp.writeByte c).bufRev.length = mp.bufRev.length + 1 := by simp [Printer.writeByte]
@[simp] theorem tabs_margin (mp : Printer) : mp.tabs.margin = mp.margin := rfl
@[simp] theorem tabs_comment (mp : Printer) : mp.tabs.comment = mp.comment := rfl
@[simp] theorem tabs_length (mp : Printer) : mp.tabs.bufRev.length = mp.bufRev.length + mp.margin := by
  simp [Printer.tabs]; omega
@[simp] theorem trim_margin (mp : Printer) : mp.trim.margin = mp.margin := rfl
@[simp] theorem trim_comment (mp : Printer) : mp.trim.comment = mp.comment := rfl
theorem trim_length (mp : Printer) : mp.trim.bufRev.length ≤ mp.bufRev.length := by
  simp only [Printer.trim]; exact length_dropWhile_le _ _

@[simp] theorem flush_margin (cs : List Modfile.Comment) : ∀ (mp : Printer) (first : Bool),
    (mp.flushComments cs first).margin = mp.margin := by
  induction cs with
  | nil => intro mp first; rfl
  | cons c cs ih => intro mp first; cases first <;> simp [Printer.flushComments, ih]

@[simp] theorem flush_comment (cs : List Modfile.Comment) : ∀ (mp : Printer) (first : Bool),
    (mp.flushComments cs first).comment = mp.comment := by
  induction cs with
  | nil => intro mp first; rfl
  | cons c cs ih => intro mp first; cases first <;> simp [Printer.flushComments, ih]

theorem flush_length (M : Nat) (cs : List Modfile.Comment) : ∀ (mp : Printer) (first : Bool), mp.margin ≤ M →
    (mp.flushComments cs first).bufRev.length + cs.length ≤ mp.bufRev.length + cComs M cs := by
  induction cs with
  | nil => intro mp first hm; simp [Printer.flushComments, cComs]
  | cons c cs ih =>
    intro mp first hm
    have ht := trim_length mp
    cases first
    · have := ih ((((mp.trim.writeByte 10).tabs)).write (GoStrings.trimSpace c.token)) false (by simpa using hm)
      simp only [write_length, tabs_length, writeByte_length, writeByte_margin, trim_margin] at this
      simp only [Printer.flushComments, cComs, cCom, List.length_cons, Bool.false_eq_true, if_false]
      omega
    · have := ih (mp.write (GoStrings.trimSpace c.token)) false (by simpa using hm)
      simp only [write_length] at this
      simp only [Printer.flushComments, cComs, cCom, List.length_cons, if_true]
      omega

/-! ### the pending-comment loop of newline -/

theorem sliceTo_zero {α : Type} (v : List α) : sliceTo v 0 = .ok [] := by
  have := sliceTo_natCast (v := v) (k := 0) (Nat.zero_le _)
  simpa using this

theorem trimSpace_eq (s : Bytes) : GoRt.trimSpace s = GoStrings.trimSpace s := rfl

theorem com_Token (c : Modfile.Comment) : (G.com c).Token = c.token := rfl

theorem flush_loop (M : Nat) (rest : List Modfile.Comment) : ∀ (pre : List Modfile.Comment) (fuel : Nat) (mp : Printer),
    mp.margin ≤ M → mp.bufRev.length + cComs M rest + M + 3 ≤ fuel →
    ∃ r, printer_newline_loop2 ((pre ++ rest).map G.com) fuel (pre.length : Int) (emb mp)
      = .ok (r, emb (mp.flushComments rest (decide (pre = [])))) := by
  induction rest with
  | nil =>
    intro pre fuel mp hm hf
    obtain ⟨f, rfl⟩ : ∃ f, fuel = f + 1 := ⟨fuel - 1, by omega⟩
    rw [printer_newline_loop2]
    have hc : decide ((pre.length : Int) < len ((pre ++ []).map G.com)) = false := by simp [len_eq]
    simp only [hc, Bool.false_eq_true, if_false, pure_eq_ok, Printer.flushComments]
    exact ⟨_, rfl⟩
  | cons c rest ih =>
    intro pre fuel mp hm hf
    obtain ⟨f, rfl⟩ : ∃ f, fuel = f + 1 := ⟨fuel - 1, by omega⟩
    simp only [cComs, cCom] at hf
    rw [printer_newline_loop2]
    have hc : decide ((pre.length : Int) < len ((pre ++ c :: rest).map G.com)) = true := by simp [len_eq]; omega
    have hi : idxL ((pre ++ c :: rest).map G.com) (pre.length : Int) = .ok (G.com c) := by
      have := idxL_append_length (pre.map G.com) (G.com c) (rest.map G.com)
      simpa using this
    have hpre : pre ++ c :: rest = (pre ++ [c]) ++ rest := by simp
    have hne : decide (pre ++ [c] = []) = false := by simp
    simp only [hc, if_true, hi, bind_ok, com_Token, trimSpace_eq]
    rw [hpre, range_next pre c]
    have ht := trim_length mp
    cases pre with
    | nil =>
      have h0 : decide ((([] : List Modfile.Comment).length : Int) > 0) = false := by simp
      simp only [h0, Bool.false_eq_true, if_false, emb, emb_write]
      have := ih ([] ++ [c]) f (mp.write (GoStrings.trimSpace c.token)) (by simpa using hm)
        (by simp only [write_length]; omega)
      rw [hne] at this
      simpa [Printer.flushComments, emb] using this
    | cons a pre =>
      have h0 : decide ((((a :: pre) : List Modfile.Comment).length : Int) > 0) = true := by simp
      have h1 : decide ((a :: pre) = []) = false := by simp
      simp only [h0, if_true, h1]
      rw [trim_sim mp f (by omega)]
      simp only [bind_ok]
      have e1 : ({ Buffer := (emb mp.trim).Buffer ++ [10], comment := (emb mp.trim).comment,
                   margin := (emb mp.trim).margin } : printer) = emb (mp.trim.writeByte 10) := by
        simp [emb, Printer.writeByte]
      rw [e1, newline_loop3_sim _ f (by simp; omega)]
      simp only [bind_ok]
      have e2 : ({ Buffer := (emb (mp.trim.writeByte 10).tabs).Buffer ++ GoStrings.trimSpace c.token,
                   comment := (emb (mp.trim.writeByte 10).tabs).comment,
                   margin := (emb (mp.trim.writeByte 10).tabs).margin } : printer)
            = emb (((mp.trim.writeByte 10).tabs).write (GoStrings.trimSpace c.token)) := by
        simp [emb, Printer.write, GoRt.trimSpace]
      rw [e2]
      have := ih ((a :: pre) ++ [c]) f (((mp.trim.writeByte 10).tabs).write (GoStrings.trimSpace c.token))
        (by simpa using hm) (by simp only [write_length, tabs_length, writeByte_length, writeByte_margin, trim_margin]; omega)
      rw [hne] at this
      simpa [Printer.flushComments] using this

/-! ### newline -/

/-- the part of `newline` after the pending comments -/
def nlTail (mp : Printer) : Printer :=
  let p := mp.trim
  let p := match p.bufRev with
    | [] => p
    | 10 :: 10 :: _ => p
    | _ => p.writeByte 10
  p.tabs

theorem newline_eq (mp : Printer) : mp.newline = nlTail (if mp.comment.isEmpty then mp else
    { (Printer.flushComments (mp.writeByte 32) mp.comment true) with comment := [] }) := rfl

theorem newline_nocomment_sim (mp : Printer) (fuel : Nat) (hc : mp.comment = [])
    (hf : mp.bufRev.length + 1 ≤ fuel) (hm : mp.margin + 1 ≤ fuel) :
    printer_newline fuel (emb mp) = .ok ((), emb (nlTail mp)) := by
  unfold printer_newline
  have h0 : decide (len (emb mp).comment > 0) = false := by simp [hc]
  simp only [h0, Bool.false_eq_true, if_false]
  rw [trim_sim mp fuel hf]
  simp only [bind_ok, nlTail]
  have hm' : mp.trim.margin + 1 ≤ fuel := hm
  generalize mp.trim = q at hm'
  rcases hb : q.bufRev with _ | ⟨c, _ | ⟨d, R⟩⟩
  · simp only [emb_Buffer, hb]
    simp [newline_loop1_sim q fuel hm']
  · have hl0 : decide (len [c].reverse = 0) = false := by simp [len_eq]
    have hl2 : decide (len [c].reverse ≥ 2) = false := by simp [len_eq]
    simp only [emb_Buffer, hb, hl0, hl2, Bool.false_eq_true, if_false, pure_eq_ok, bind_ok]
    have e1 : ({ Buffer := [c].reverse ++ [10], comment := (emb q).comment, margin := (emb q).margin } : printer)
        = emb (q.writeByte 10) := by
      simp [emb, Printer.writeByte, hb]
    rw [e1, newline_loop1_sim _ fuel (by simpa using hm')]
    simp
  · have hl0 : decide (len (c :: d :: R).reverse = 0) = false := by simp [len_eq]; omega
    have hl2 : decide (len (c :: d :: R).reverse ≥ 2) = true := by simp [len_eq]; omega
    simp only [emb_Buffer, hb, hl0, hl2, Bool.false_eq_true, if_false, if_true, pure_eq_ok, bind_ok, idx_last, idx_last2]
    have e10c : decide (((c.toNat : Nat) : Int) = 10) = (c == 10) := decide_byte_eq c 10 (by omega)
    have e10d : decide (((d.toNat : Nat) : Int) = 10) = (d == 10) := decide_byte_eq d 10 (by omega)
    have e1 : ({ Buffer := (c :: d :: R).reverse ++ [10], comment := (emb q).comment, margin := (emb q).margin } : printer)
        = emb (q.writeByte 10) := by
      simp [emb, Printer.writeByte, hb]
    rw [e10c, e1]
    by_cases hc10 : c = 10
    · subst hc10
      simp only [beq_self_eq_true, if_true, idx_last2, bind_ok, e10d, pure_eq_ok]
      by_cases hd10 : d = 10
      · subst hd10
        simp [newline_loop1_sim q fuel hm']
      · have : (d == 10) = false := by simp [hd10]
        simp only [this, Bool.false_eq_true, if_false]
        rw [newline_loop1_sim _ fuel (by simpa using hm')]
        simp [hd10]
    · have : (c == 10) = false := by simp [hc10]
      simp only [this, Bool.false_eq_true, if_false, pure_eq_ok, bind_ok]
      rw [newline_loop1_sim _ fuel (by simpa using hm')]
      simp [hc10]

theorem newline_unfold (fuel : Nat) (p : printer) (h : p.comment ≠ []) :
    printer_newline fuel p = (do
      let r ← printer_newline_loop2 p.comment fuel 0 { p with Buffer := p.Buffer ++ [32] }
      printer_newline fuel { r.2 with comment := [] }) := by
  have h0 : decide (len p.comment > 0) = true := by
    cases hp : p.comment with
    | nil => exact absurd hp h
    | cons a l => simp [len_eq]
  have h1 : decide (len ([] : List Generated.Print.Comment) > 0) = false := by simp
  unfold printer_newline
  simp only [h0, if_true, h1, Bool.false_eq_true, if_false, sliceTo_zero, bind_ok]

@[simp] theorem nlTail_margin (mp : Printer) : (nlTail mp).margin = mp.margin := by
  unfold nlTail; simp only []; split <;> rfl

@[simp] theorem nlTail_comment (mp : Printer) : (nlTail mp).comment = mp.comment := by
  unfold nlTail; simp only []; split <;> rfl

theorem nlTail_length (mp : Printer) : (nlTail mp).bufRev.length ≤ mp.bufRev.length + 1 + mp.margin := by
  have := trim_length mp
  unfold nlTail; simp only []
  split <;> simp only [tabs_length, writeByte_length, tabs_margin, writeByte_margin, trim_margin] <;> omega

@[simp] theorem newline_margin (mp : Printer) : mp.newline.margin = mp.margin := by
  rw [newline_eq]; split <;> simp

@[simp] theorem newline_comment (mp : Printer) : mp.newline.comment = [] := by
  rw [newline_eq]; split
  · rename_i h; simpa using h
  · simp

theorem newline_pot (M : Nat) (mp : Printer) (hm : mp.margin ≤ M) :
    pot M mp.newline + 2 ≤ pot M mp + cNewline M := by
  unfold pot cNewline
  rw [newline_comment]
  rw [newline_eq]
  split
  · have := nlTail_length mp
    simp only [cComs]; omega
  · have h1 := nlTail_length { (Printer.flushComments (mp.writeByte 32) mp.comment true) with comment := [] }
    have h2 := flush_length M mp.comment (mp.writeByte 32) true (by simpa using hm)
    simp only [flush_margin, writeByte_margin, writeByte_length] at h1 h2
    simp only [cComs, flush_margin, writeByte_margin]; omega

theorem newline_sim (M : Nat) (mp : Printer) (fuel : Nat) (hm : mp.margin ≤ M) (hf : pot M mp + cNewline M ≤ fuel) :
    printer_newline fuel (emb mp) = .ok ((), emb mp.newline) := by
  unfold pot cNewline at hf
  rw [newline_eq]
  cases hc : mp.comment with
  | nil =>
    simp only [List.isEmpty_nil, if_true]
    exact newline_nocomment_sim mp fuel hc (by omega) (by omega)
  | cons c cs =>
    have hne : (emb mp).comment ≠ [] := by simp [hc]
    rw [newline_unfold fuel (emb mp) hne]
    have e1 : ({ Buffer := (emb mp).Buffer ++ [32], comment := (emb mp).comment, margin := (emb mp).margin } : printer)
        = emb (mp.writeByte 32) := by
      simp [emb, Printer.writeByte]
    obtain ⟨r, hr⟩ := flush_loop M (c :: cs) [] fuel (mp.writeByte 32) (by simpa using hm)
      (by rw [hc] at hf; simp only [writeByte_length]; omega)
    simp only [List.nil_append, List.length_nil, decide_true] at hr
    have z : ((0 : Nat) : Int) = (0 : Int) := rfl
    rw [z] at hr
    rw [e1]
    simp only [emb_comment]
    rw [← hc] at hr
    rw [hr]
    simp only [bind_ok]
    have h2 := flush_length M mp.comment (mp.writeByte 32) true (by simpa using hm)
    simp only [writeByte_length] at h2
    have e2 : ({ Buffer := (emb ((mp.writeByte 32).flushComments mp.comment true)).Buffer, comment := [],
                 margin := (emb ((mp.writeByte 32).flushComments mp.comment true)).margin } : printer)
        = emb { ((mp.writeByte 32).flushComments mp.comment true) with comment := [] } := rfl
    rw [e2, newline_nocomment_sim _ fuel rfl (by simp only []; omega) (by simp; omega)]
    simp [hc]

end ModVerif.TieFnPrint
