/-
  Fuel of the regenerated directive layer from the INPUT LENGTH, part D: `TreeFuel` (Proofs/TieFnRuleAddO.lean) holds for
  the tree `parse name data` with `F ≥ 32·|data| + 2·B + 64` and `fuel ≥ F + |data| + 16`, `B` a bound on the outputs of
  the version fixer (`FixBound`: output ≤ `B` + its two arguments; vacuous without a fixer) — `treeFuel_of_length`.  From part C (`parse_w`): the tokens
  of a line are at most `|data|` bytes together, statements + block lines + comments at most `|data| + 1`; a version the
  directive layer computes WITHOUT a fixer is `module.CanonicalVersion` of an unquoted token (≤ 4·|token| + 17 bytes).
  Owner: rule-fuel.
-/
import ModVerif.Proofs.TieFnRuleAddP
import ModVerif.Proofs.TieFnRuleFuelC
import ModVerif.Proofs.TieFnSemverCmp
import ModVerif.Proofs.TieFnModfileQuote
set_option linter.unusedSimpArgs false
set_option linter.unusedVariables false
namespace ModVerif.Tie.FnRuleFuelD
open ModVerif ModVerif.Modfile ModVerif.Tie.FnRuleFuelA ModVerif.Tie.FnRuleFuelB ModVerif.Tie.FnRuleFuelC
open ModVerif.Tie.FnRuleAddH ModVerif.Tie.FnRuleAddM ModVerif.Tie.FnRuleAddO
open ModVerif.Tie.FnRuleLeafA (comLen)
open ModVerif.Tie.FnRuleLeafB (tokSum)
open ModVerif.Proofs.ModfileC20 (linesOf)

/-- every version the fixer returns is at most `B` bytes longer than its two arguments together (nothing to bound when
    there is no fixer); a fixer with outputs of at most `B` bytes is the special case `fixBound_const` -/
def FixBound (B : Nat) (fx : Option Fixer) : Prop :=
  ∀ f, fx = some f → ∀ p v r, f p v = .ok r → r.length ≤ B + p.length + v.length

theorem fixBound_none (B : Nat) : FixBound B none := by intro f h; cases h

theorem fixBound_some {B : Nat} {f : Fixer} (h : ∀ p v r, f p v = .ok r → r.length ≤ B + p.length + v.length) :
    FixBound B (some f) := by
  intro g hg; cases hg; exact h

theorem fixBound_const {B : Nat} {f : Fixer} (h : ∀ p v r, f p v = .ok r → r.length ≤ B) : FixBound B (some f) := by
  intro g hg; cases hg; intro p v r hr; have := h p v r hr; omega

theorem tsum_eq (ts : List Bytes) : tsum ts = tokSum ts := rfl
theorem cl_eq (c : Comments) : cl c = comLen c := rfl

theorem mem_le_tokSum {a : Bytes} : ∀ {ts : List Bytes}, a ∈ ts → a.length ≤ tokSum ts := by
  intro ts
  induction ts with
  | nil => intro h; cases h
  | cons t ts ih =>
    intro h
    rcases List.mem_cons.1 h with rfl | h
    · simp
    · have := ih h; simp; omega

/-! ### the versions of a line -/

theorem parseString_len {tok t tok1 : Bytes} (h : parseString tok = some (t, tok1)) : t.length ≤ 4 * tok.length := by
  unfold parseString at h
  split at h
  · cases hu : Quote.unquote tok with
    | none => simp [hu] at h
    | some u =>
      simp only [hu, Option.some.injEq, Prod.mk.injEq] at h
      obtain ⟨rfl, _⟩ := h
      exact TieFnModfile.unquote_length hu
  · split at h
    · cases h
    · simp only [Option.some.injEq, Prod.mk.injEq] at h
      obtain ⟨rfl, _⟩ := h
      omega

theorem canonicalVersion_len (v : Bytes) : (Semver.canonicalVersion v).length ≤ v.length + 17 := by
  have := TieFnSemver.canonical_len v
  unfold Semver.canonicalVersion
  simp only
  split
  · simp only [List.length_append]
    have : (B "+incompatible").length = 13 := by decide +kernel
    omega
  · omega

theorem parseVersion_len {Bd : Nat} {fx : Option Fixer} (hB : FixBound Bd fx) {s a1 a1' v : Bytes}
    (h : parseVersion s a1 fx = (a1', .ok v)) : v.length ≤ 4 * a1.length + 17 + Bd + s.length := by
  unfold parseVersion at h
  cases hp : parseString a1 with
  | none => simp [hp] at h
  | some r =>
    obtain ⟨t, tok1⟩ := r
    have ht := parseString_len hp
    simp only [hp] at h
    cases fx with
    | some f =>
      simp only at h
      cases hf : f s t with
      | error e => cases e <;> simp [hf] at h
      | ok fixed =>
        simp only [hf, Prod.mk.injEq, Except.ok.injEq] at h
        obtain ⟨_, rfl⟩ := h
        have := hB f rfl s t _ hf
        omega
    | none =>
      simp only at h
      split at h
      · simp at h
      · simp only [Prod.mk.injEq, Except.ok.injEq] at h
        obtain ⟨_, rfl⟩ := h
        have := canonicalVersion_len t
        omega

/-- **the fuel of one line** from three numbers: the bytes of its tokens, its comments (with those of the block), the
    bound of the fixer -/
theorem lineFuel_of {Bd : Nat} {fx : Option Fixer} (hB : FixBound Bd fx) {n F : Nat} (hF : 32 * n + 2 * Bd + 64 ≤ F)
    {bc : Option Comments} {l : Line} {args : List Bytes} (ht : tokSum l.token ≤ n)
    (hc : comLen l.comments + (bc.map comLen).getD 0 ≤ n + 1) (ha : tokSum args ≤ tokSum l.token) : LineFuel F bc fx l args := by
  refine ⟨by omega, by omega, ?_⟩
  intro a0 a1 rest s a0' a1' v e1 e2 e3
  rw [e1] at ha
  simp only [FnRuleLeafB.tokSum_cons] at ha
  have h2 := parseString_len e2
  have h3 := parseVersion_len hB e3
  omega

/-! ### the sizes of a tree -/

theorem NE_pos (s : Expr) : 1 ≤ NE s := by cases s <;> simp only [NE] <;> omega

theorem NE_le_NEs {s : Expr} : ∀ {ss : List Expr}, s ∈ ss → NE s ≤ NEs ss := by
  intro ss
  induction ss with
  | nil => intro h; cases h
  | cons t ts ih =>
    intro h
    rcases List.mem_cons.1 h with rfl | h
    · simp
    · have := ih h; simp; omega

theorem NL_le_NLs {l : Line} : ∀ {ls : List Line}, l ∈ ls → NL l ≤ NLs ls := by
  intro ls
  induction ls with
  | nil => intro h; cases h
  | cons t ts ih =>
    intro h
    rcases List.mem_cons.1 h with rfl | h
    · simp
    · have := ih h; simp; omega

theorem length_le_NLs (ls : List Line) : ls.length ≤ NLs ls := by
  induction ls with
  | nil => simp
  | cons t ts ih => simp [NL]; omega

theorem maxBlock_le (ss : List Expr) : maxBlock ss + ss.length ≤ NEs ss := by
  induction ss with
  | nil => simp [maxBlock]
  | cons s ss ih =>
    have := NE_pos s
    cases s with
    | lineBlock b =>
      have := length_le_NLs b.lines
      simp only [maxBlock, NEs_cons, NE, List.length_cons]
      omega
    | commentBlock x => simp only [maxBlock, NEs_cons, List.length_cons]; omega
    | line x => simp only [maxBlock, NEs_cons, List.length_cons]; omega
    | lparen x => simp only [maxBlock, NEs_cons, List.length_cons]; omega
    | rparen x => simp only [maxBlock, NEs_cons, List.length_cons]; omega

theorem linesOf_le (ss : List Expr) : (linesOf ss).length ≤ NEs ss := by
  induction ss with
  | nil => simp
  | cons s ss ih =>
    cases s with
    | lineBlock b =>
      have := length_le_NLs b.lines
      simp only [Proofs.ModfileC20.linesOf_block, NEs_cons, NE, List.length_append]
      omega
    | commentBlock x => simp only [Proofs.ModfileC20.linesOf_commentBlock, NEs_cons]; omega
    | line x => simp only [Proofs.ModfileC20.linesOf_line, NEs_cons, NE, List.length_cons]; omega
    | lparen x =>
      have : linesOf (Expr.lparen x :: ss) = linesOf ss := by simp [linesOf, FileSyntax.allLines, List.flatMap_cons]
      rw [this]; simp only [NEs_cons]; omega
    | rparen x =>
      have : linesOf (Expr.rparen x :: ss) = linesOf ss := by simp [linesOf, FileSyntax.allLines, List.flatMap_cons]
      rw [this]; simp only [NEs_cons]; omega

theorem mem_linesOf {l : Line} : ∀ {ss : List Expr}, l ∈ linesOf ss →
    Expr.line l ∈ ss ∨ ∃ b, Expr.lineBlock b ∈ ss ∧ l ∈ b.lines := by
  intro ss
  induction ss with
  | nil => intro h; simp at h
  | cons s ss ih =>
    intro h
    have lift : (Expr.line l ∈ ss ∨ ∃ b, Expr.lineBlock b ∈ ss ∧ l ∈ b.lines) →
        (Expr.line l ∈ s :: ss ∨ ∃ b, Expr.lineBlock b ∈ s :: ss ∧ l ∈ b.lines) := by
      rintro (h | ⟨b, hb, hl⟩)
      · exact Or.inl (List.mem_cons_of_mem _ h)
      · exact Or.inr ⟨b, List.mem_cons_of_mem _ hb, hl⟩
    cases s with
    | lineBlock b =>
      rw [Proofs.ModfileC20.linesOf_block] at h
      rcases List.mem_append.1 h with h | h
      · exact Or.inr ⟨b, by simp, h⟩
      · exact lift (ih h)
    | commentBlock x => rw [Proofs.ModfileC20.linesOf_commentBlock] at h; exact lift (ih h)
    | line x =>
      rw [Proofs.ModfileC20.linesOf_line] at h
      rcases List.mem_cons.1 h with rfl | h
      · exact Or.inl (by simp)
      · exact lift (ih h)
    | lparen x =>
      have : linesOf (Expr.lparen x :: ss) = linesOf ss := by simp [linesOf, FileSyntax.allLines, List.flatMap_cons]
      rw [this] at h; exact lift (ih h)
    | rparen x =>
      have : linesOf (Expr.rparen x :: ss) = linesOf ss := by simp [linesOf, FileSyntax.allLines, List.flatMap_cons]
      rw [this] at h; exact lift (ih h)

/-- **`TreeFuel` from the sizes of the tree** -/
theorem treeFuel_of_sizes {Bd : Nat} {fx : Option Fixer} (hB : FixBound Bd fx) {n F fuel : Nat} {fs : FileSyntax}
    (hF : 32 * n + 2 * Bd + 64 ≤ F) (hfuel : F + n + 16 ≤ fuel)
    (hN : NEs fs.stmts ≤ n + 1) (hT : ∀ s ∈ fs.stmts, TokLe n s) : TreeFuel F fuel fx fs := by
  have hmb := maxBlock_le fs.stmts
  have hlo := linesOf_le fs.stmts
  have tokL : ∀ l, Expr.line l ∈ fs.stmts → tokSum l.token ≤ n := fun l hl => hT _ hl
  have tokB : ∀ b, Expr.lineBlock b ∈ fs.stmts → ∀ l ∈ b.lines, tokSum l.token ≤ n := fun b hb => hT _ hb
  refine ⟨by omega, by omega, by omega, ?_, ?_, ?_⟩
  · intro l hl
    rcases mem_linesOf hl with h | ⟨b, hb, hlb⟩
    · have := tokL l h; omega
    · have := tokB b hb l hlb; omega
  · intro l hl verb args htok
    have h1 := NE_le_NEs hl
    simp only [NE] at h1
    refine lineFuel_of hB hF (tokL l hl) ?_ (by rw [htok]; simp)
    simp only [Option.map_none, Option.getD_none]
    rw [← cl_eq]; omega
  · intro b hb l hl
    have h1 := NE_le_NEs hb
    have h2 := NL_le_NLs hl
    simp only [NE, NL] at h1 h2
    refine lineFuel_of hB hF (tokB b hb l hl) ?_ (Nat.le_refl _)
    simp only [Option.map_some, Option.getD_some]
    rw [← cl_eq, ← cl_eq]; omega

/-- **the fuel hypothesis of `parseToFile_tie` / `ParseWork_tie` from the input length** -/
theorem treeFuel_of_length (name data : Bytes) (fx : Option Fixer) (Bd : Nat) (hB : FixBound Bd fx) (F fuel : Nat)
    (hF : 32 * data.length + 2 * Bd + 64 ≤ F) (hfuel : F + data.length + 16 ≤ fuel) :
    ∀ fs, parse name data = .ok fs → TreeFuel F fuel fx fs := by
  intro fs hp
  obtain ⟨h1, h2⟩ := parse_w hp
  exact treeFuel_of_sizes hB hF hfuel h1 h2

/-! ### a fixer for the non-vacuity examples -/

/-- a fixer that is bounded in the linear sense but not by a constant: `latest ↦ v1.0.0`, everything else canonicalised -/
def exFix : Fixer := fun _ v => if v == B "latest" then .ok (B "v1.0.0") else .ok (Semver.canonicalVersion v)

theorem exFix_bound : FixBound 17 (some exFix) := by
  apply fixBound_some
  intro p v r h
  unfold exFix at h
  split at h
  · simp only [Except.ok.injEq] at h
    subst h
    have : (B "v1.0.0").length = 6 := by decide +kernel
    omega
  · simp only [Except.ok.injEq] at h
    subst h
    have := canonicalVersion_len v
    omega

end ModVerif.Tie.FnRuleFuelD
