/-
  Lemmas about the edit MODEL (Model/Modfile/Edit.lean): Cleanup leaves no cleared entries; the model's
  comparators are the specification's; SortBlocks leaves every block sorted.
-/
import ModVerif.Model.Modfile.EditAbs
import ModVerif.Proofs.EditSpecCmp
namespace ModVerif.Modfile.Edit
open ModVerif ModVerif.Modfile

theorem lineLess_eq_spec : ∀ a b : List Bytes, lineLess a b = EditSpec.lineLess a b
  | [], [] => rfl
  | [], _ :: _ => rfl
  | _ :: _, [] => rfl
  | a :: as, b :: bs => by
    unfold lineLess EditSpec.lineLess
    by_cases h : a = b
    · subst h; simp [lineLess_eq_spec as bs]
    · simp [h]

theorem lbracket : B "[" = [91] ∧ B "," = [44] ∧ B "]" = [93] := by decide +kernel

theorem retractInterval_eq_spec : ∀ t : List Bytes,
    ((retractInterval t).low, (retractInterval t).high) = EditSpec.interval t
  | [] => by simp [retractInterval, EditSpec.interval]
  | [_] => by simp [retractInterval, EditSpec.interval]
  | [_, _] => by simp [retractInterval, EditSpec.interval]
  | [_, _, _] => by simp [retractInterval, EditSpec.interval]
  | [_, _, _, _] => by simp [retractInterval, EditSpec.interval]
  | [a, lo, b, hi, c] => by
    rcases lbracket with ⟨h1, h2, h3⟩
    simp only [retractInterval, EditSpec.interval, h1, h2, h3]
    split <;> rfl
  | _ :: _ :: _ :: _ :: _ :: _ :: _ => by simp [retractInterval, EditSpec.interval]

theorem lineRetractLess_eq_spec (a b : List Bytes) : lineRetractLess a b = EditSpec.lineRetractLess a b := by
  unfold lineRetractLess EditSpec.lineRetractLess
  have ha := retractInterval_eq_spec a
  have hb := retractInterval_eq_spec b
  rw [← ha, ← hb]

theorem lineLess_strictWeak : EditSpec.StrictWeak lineLess := by
  have : lineLess = EditSpec.lineLess := by funext a b; exact lineLess_eq_spec a b
  rw [this]; exact EditSpec.lineLess_strictWeak

theorem lineRetractLess_strictWeak : EditSpec.StrictWeak lineRetractLess := by
  have : lineRetractLess = EditSpec.lineRetractLess := by funext a b; exact lineRetractLess_eq_spec a b
  rw [this]; exact EditSpec.lineRetractLess_strictWeak

/-- a comparator on tokens lifted to lines -/
def onToken (less : List Bytes → List Bytes → Bool) (a b : Line) : Bool := less a.token b.token

theorem onToken_strictWeak {less : List Bytes → List Bytes → Bool} (h : EditSpec.StrictWeak less) :
    EditSpec.StrictWeak (onToken less) :=
  ⟨fun _ => h.irrefl _, fun _ _ => h.asymm _ _, fun _ _ _ => h.trans _ _ _, fun _ _ _ => h.negTrans _ _ _⟩

theorem insertLine_eq (less : List Bytes → List Bytes → Bool) (x : Line) (l : List Line) :
    insertLine less x l = EditSpec.insertBy (onToken less) x l := by
  induction l with
  | nil => rfl
  | cons y ys ih =>
    simp only [insertLine, EditSpec.insertBy, onToken, ih]
    by_cases h : less y.token x.token = true <;> simp [h]

theorem stableSort_eq (less : List Bytes → List Bytes → Bool) (l : List Line) :
    stableSort less l = EditSpec.sortBy (onToken less) l := by
  induction l with
  | nil => rfl
  | cons x xs ih =>
    show insertLine less x (stableSort less xs) = EditSpec.insertBy (onToken less) x (EditSpec.sortBy (onToken less) xs)
    rw [ih, insertLine_eq]

/-- the stable sort of a block is sorted, and a permutation of the block -/
theorem stableSort_sorted {less : List Bytes → List Bytes → Bool} (h : EditSpec.StrictWeak less) (l : List Line) :
    EditSpec.Sorted (onToken less) (stableSort less l) ∧ (stableSort less l).Perm l := by
  rw [stableSort_eq]
  exact ⟨EditSpec.sortBy_sorted (onToken_strictWeak h) l, EditSpec.sortBy_perm _ l⟩

/-- Cleanup leaves no cleared entry in any typed list -/
theorem cleanup_no_cleared (e : EFile) :
    (∀ g ∈ (cleanup e).f.godebug, g.key ≠ []) ∧ (∀ r ∈ (cleanup e).f.require, r.mod.path ≠ []) ∧
    (∀ x ∈ (cleanup e).f.exclude, x.mod.path ≠ []) ∧ (∀ r ∈ (cleanup e).f.replace, r.old.path ≠ []) ∧
    (∀ r ∈ (cleanup e).f.retract, r.interval.low ≠ [] ∨ r.interval.high ≠ []) ∧ (∀ t ∈ (cleanup e).f.tool, t.path ≠ []) := by
  refine ⟨?_, ?_, ?_, ?_, ?_, ?_⟩ <;> intro x hx <;> simp only [cleanup, List.mem_filter] at hx <;>
    (have h := hx.2; simp at h; first | exact h | (intro e0; simp [e0] at h) | skip)
  all_goals (first | (by_cases h1 : x.interval.low = [] <;> simp_all) | simp_all)

theorem workCleanup_no_cleared (e : EWork) :
    (∀ g ∈ (workCleanup e).f.godebug, g.key ≠ []) ∧ (∀ u ∈ (workCleanup e).f.use, u.path ≠ []) ∧
    (∀ r ∈ (workCleanup e).f.replace, r.old.path ≠ []) := by
  refine ⟨?_, ?_, ?_⟩ <;> intro x hx <;> simp only [workCleanup, List.mem_filter] at hx <;>
    (have h := hx.2; simp at h; exact h)

end ModVerif.Modfile.Edit

namespace ModVerif.Modfile.Edit
open ModVerif ModVerif.Modfile

/-- the comparator SortBlocks uses for a block with the given verb tokens -/
def lessFor (useSemantic work : Bool) (token : List Bytes) : List Bytes → List Bytes → Bool :=
  if work then lineLess
  else if headIs token (B "exclude") && useSemantic then lineExcludeLess
  else if headIs token (B "retract") then lineRetractLess
  else lineLess

theorem sortStmts_block (sem work : Bool) (stmts : List Expr) (b : LineBlock)
    (h : Expr.lineBlock b ∈ sortStmts sem work stmts) :
    ∃ b0, Expr.lineBlock b0 ∈ stmts ∧ b.token = b0.token ∧ b.lines = stableSort (lessFor sem work b0.token) b0.lines := by
  unfold sortStmts at h
  rcases List.mem_map.1 h with ⟨x, hx, hxe⟩
  cases x with
  | lineBlock b0 =>
    simp only [Expr.lineBlock.injEq] at hxe
    refine ⟨b0, hx, ?_, ?_⟩
    · rw [← hxe]
    · rw [← hxe]; simp only [lessFor]
  | commentBlock _ => simp at hxe
  | line _ => simp at hxe
  | lparen _ => simp at hxe
  | rparen _ => simp at hxe

/-- when is the comparator known to be a strict weak order on ALL token lists: every case but an exclude
    block under the semantic order (there it is one on two-token lines only, see Props/C16) -/
theorem lessFor_strictWeak (sem work : Bool) (token : List Bytes)
    (h : work = true ∨ (headIs token (B "exclude") && sem) = false) : EditSpec.StrictWeak (lessFor sem work token) := by
  unfold lessFor
  by_cases hw : work = true
  · simp [hw]; exact lineLess_strictWeak
  · have hx : (headIs token (B "exclude") && sem) = false := by
      rcases h with h | h
      · exact absurd h hw
      · exact h
    simp only [hw, hx]
    by_cases hr : headIs token (B "retract") = true
    · simp [hr]; exact lineRetractLess_strictWeak
    · simp [hr]; exact lineLess_strictWeak

end ModVerif.Modfile.Edit
