/-
  Helper lemmas for Tie/FnRuleAdd.lean, part K: LOADING.  The driver's `parseSynI` (Drv/GenRule.lean: the hand model's
  parser, its tree loaded into the heap, the map from line pointers to line ids recorded on the way) produces a heap
  whose syntax graph represents the parsed tree under `ι = idOf (idsOf name data)`, with `ι` injective on the line
  pointers (`parseSynI_rep`).
  Owner: rule-add.
-/
import ModVerif.Proofs.TieFnRuleRep
import ModVerif.Proofs.TieFnRuleAddJ
import ModVerif.Proofs.ModfileC20Ids
import ModVerif.Proofs.ModfileC20Stmts
set_option linter.unusedSimpArgs false
set_option linter.unusedVariables false
namespace ModVerif.Tie.FnRuleAddK
open ModVerif ModVerif.GoRt ModVerif.Generated ModVerif.Tie.FnRuleRep ModVerif.Tie.FnRuleAddJ
open ModVerif.Drv.GenRule (Ld idOf idsOf parseSynI)
open ModVerif.Modfile.Edit (treeIds)
open ModVerif.Proofs.ModfileC20 (linesOf)

/-! ### association lists with pairwise different keys / values -/

theorem lookup_of_mem {α β : Type} [BEq α] [LawfulBEq α] : ∀ {l : List (α × β)} {a : α} {b : β},
    (l.map (·.1)).Nodup → (a, b) ∈ l → l.lookup a = some b
  | [], _, _, _, h => by cases h
  | (a', b') :: l, a, b, hn, h => by
    simp only [List.map_cons, List.nodup_cons] at hn
    rcases List.mem_cons.1 h with e | h'
    · cases e; simp [List.lookup]
    · have hne : a ≠ a' := by
        intro e; subst e
        exact hn.1 (List.mem_map.2 ⟨(a, b), h', rfl⟩)
      have : (a == a') = false := by simpa using hne
      simp only [List.lookup, this]
      exact lookup_of_mem hn.2 h'

theorem nodup_reverse' {α : Type} {l : List α} : l.reverse.Nodup ↔ l.Nodup := by
  unfold List.Nodup
  rw [List.pairwise_reverse]
  constructor <;> intro h <;> exact h.imp (fun hab => Ne.symm hab)

theorem key_unique {α β : Type} : ∀ {l : List (α × β)} {a a' : α} {b : β},
    (l.map (·.2)).Nodup → (a, b) ∈ l → (a', b) ∈ l → a = a'
  | [], _, _, _, _, h, _ => by cases h
  | (x, y) :: l, a, a', b, hn, h, h' => by
    simp only [List.map_cons, List.nodup_cons] at hn
    simp only [List.mem_cons, Prod.mk.injEq] at h h'
    rcases h with ⟨rfl, rfl⟩ | h1 <;> rcases h' with ⟨rfl, e2⟩ | h1'
    · rfl
    · exact absurd (List.mem_map.2 ⟨(a', b), h1', rfl⟩) hn.1
    · exact absurd (List.mem_map.2 ⟨(a, y), by rw [← e2]; exact h1, rfl⟩) hn.1
    · exact key_unique hn.2 h1 h1'

/-! ### the loader, one function at a time -/

/-- the line pointers recorded so far are exactly the allocated ones, newest first -/
def KeysOK (s : Ld) : Prop := s.ids.map (·.1) = (List.range s.h.lines.length).reverse.map (fun i => ((i + 1 : Nat) : Int))

theorem Ld_line_eq (s : Ld) (l : Modfile.Line) :
    s.line l = ({ h := { s.h with lines := s.h.lines ++ [lineG l] }, ids := (((s.h.lines.length + 1 : Nat) : Int), l.id) :: s.ids },
      ((s.h.lines.length + 1 : Nat) : Int)) := rfl

/-- `s'` extends `s`: the syntax object lists grow at the end, the other lists are kept -/
structure Grow (s s' : Ld) : Prop where
  lines : s.h.lines <+: s'.h.lines
  blocks : s.h.blocks <+: s'.h.blocks
  cbs : s.h.cbs <+: s'.h.cbs
  files : s'.h.files = s.h.files
  ids : ∃ extra, s'.ids = extra ++ s.ids
  keys : KeysOK s → KeysOK s'

theorem Grow.refl (s : Ld) : Grow s s := ⟨List.prefix_refl _, List.prefix_refl _, List.prefix_refl _, rfl, ⟨[], rfl⟩, id⟩

theorem Grow.trans {a b c : Ld} (h1 : Grow a b) (h2 : Grow b c) : Grow a c :=
  ⟨h1.lines.trans h2.lines, h1.blocks.trans h2.blocks, h1.cbs.trans h2.cbs, h2.files.trans h1.files,
    (by obtain ⟨x, hx⟩ := h1.ids; obtain ⟨y, hy⟩ := h2.ids; exact ⟨y ++ x, by rw [hy, hx, List.append_assoc]⟩),
    fun k => h2.keys (h1.keys k)⟩

theorem Grow.mem_ids {s s' : Ld} (g : Grow s s') {q : Int × Nat} (hq : q ∈ s.ids) : q ∈ s'.ids := by
  obtain ⟨x, hx⟩ := g.ids; rw [hx]; exact List.mem_append_right _ hq

theorem grow_line (s : Ld) (l : Modfile.Line) : Grow s (s.line l).1 := by
  rw [Ld_line_eq]
  refine ⟨List.prefix_append _ _, List.prefix_refl _, List.prefix_refl _, rfl, ⟨[_], rfl⟩, ?_⟩
  intro k
  unfold KeysOK at k ⊢
  simp only [List.map_cons, List.length_append, List.length_singleton, List.range_succ, List.reverse_append, List.reverse_singleton,
    List.singleton_append, k]

/-- what loading a statement list yields, for every later heap `hf` and map `ι` that respects the recorded ids -/
def Later (s' : Ld) (hf : Rule.Heap) (ι : Int → Nat) : Prop :=
  s'.h.lines <+: hf.lines ∧ s'.h.blocks <+: hf.blocks ∧ s'.h.cbs <+: hf.cbs ∧ ∀ q ∈ s'.ids, ι q.1 = q.2

theorem Later.mono {s s' : Ld} (g : Grow s s') {hf : Rule.Heap} {ι : Int → Nat} (l : Later s' hf ι) : Later s hf ι :=
  ⟨g.lines.trans l.1, g.blocks.trans l.2.1, g.cbs.trans l.2.2.1, fun q hq => l.2.2.2 q (g.mem_ids hq)⟩

theorem load_line (s : Ld) (l : Modfile.Line) {hf : Rule.Heap} {ι : Int → Nat} (lt : Later (s.line l).1 hf ι) :
    RLine ι hf (s.line l).2 l := by
  rw [Ld_line_eq] at lt ⊢
  obtain ⟨h1, _, _, h4⟩ := lt
  exact ⟨ModVerif.Tie.FnParseHeap.heapGet_prefix h1 (heapGet_alloc_new _ _), h4 _ List.mem_cons_self⟩

theorem load_lines : ∀ (ls : List Modfile.Line) (s : Ld),
    Grow s (s.lines ls).1 ∧
    (s.lines ls).1.ids.map (·.2) = (ls.map (·.id)).reverse ++ s.ids.map (·.2) ∧
    (s.lines ls).1.h.blocks = s.h.blocks ∧ (s.lines ls).1.h.cbs = s.h.cbs ∧
    ∀ hf ι, Later (s.lines ls).1 hf ι → RLines ι hf (s.lines ls).2 ls
  | [], s => ⟨Grow.refl s, by simp [Ld.lines], rfl, rfl, fun _ _ _ => trivial⟩
  | l :: rest, s => by
    obtain ⟨g2, v2, b2, c2, r2⟩ := load_lines rest (s.line l).1
    have g1 := grow_line s l
    refine ⟨g1.trans g2, ?_, ?_, ?_, ?_⟩
    · show ((s.line l).1.lines rest).1.ids.map (·.2) = _
      rw [v2, Ld_line_eq]; simp
    · show ((s.line l).1.lines rest).1.h.blocks = _
      rw [b2, Ld_line_eq]
    · show ((s.line l).1.lines rest).1.h.cbs = _
      rw [c2, Ld_line_eq]
    · intro hf ι lt
      exact ⟨load_line s l (lt.mono g2), r2 hf ι lt⟩

/-- the block pointers of the loaded statements are fresh -/
def FreshB (n n' : Nat) (es : List Rule.Expr) : Prop :=
  (blockPtrs es).Nodup ∧ ∀ p ∈ blockPtrs es, n < p.toNat ∧ p.toNat ≤ n'

theorem load_stmt (x : Modfile.Expr) (hx : StmtNE x) (s : Ld) :
    Grow s (s.stmt x).1 ∧
    (s.stmt x).1.ids.map (·.2) = ((linesOf [x]).map (·.id)).reverse ++ s.ids.map (·.2) ∧
    FreshB s.h.blocks.length (s.stmt x).1.h.blocks.length [(s.stmt x).2] ∧
    ∀ hf ι, Later (s.stmt x).1 hf ι → RExpr ι hf (s.stmt x).2 x := by
  cases x with
  | commentBlock c =>
    refine ⟨⟨List.prefix_refl _, List.prefix_refl _, List.prefix_append _ _, rfl, ⟨[], rfl⟩, id⟩, by simp [Ld.stmt],
      ⟨by simp [Ld.stmt, blockPtrs], by simp [Ld.stmt, blockPtrs]⟩, ?_⟩
    intro hf ι lt
    exact ModVerif.Tie.FnParseHeap.heapGet_prefix lt.2.2.1 (heapGet_alloc_new _ _)
  | line l =>
    refine ⟨grow_line s l, by simp [Ld.stmt, Ld_line_eq], ⟨by simp [Ld.stmt, blockPtrs], by simp [Ld.stmt, blockPtrs]⟩, ?_⟩
    intro hf ι lt
    exact load_line s l lt
  | lineBlock b =>
    obtain ⟨g, v, hb, hc, r⟩ := load_lines b.lines s
    have hS : (s.stmt (.lineBlock b)) =
        ({ (s.lines b.lines).1 with h := { (s.lines b.lines).1.h with blocks := (s.lines b.lines).1.h.blocks ++ [blockG b (s.lines b.lines).2] } },
          .LineBlock (((s.lines b.lines).1.h.blocks.length + 1 : Nat) : Int)) := rfl
    rw [hS]
    refine ⟨⟨g.lines, g.blocks.trans (List.prefix_append _ _), g.cbs, g.files, g.ids, g.keys⟩, ?_, ⟨by simp [blockPtrs], ?_⟩, ?_⟩
    · show (s.lines b.lines).1.ids.map (·.2) = _
      rw [v]; simp
    · intro p hp
      simp only [blockPtrs, List.mem_singleton] at hp
      subst hp
      simp only [List.length_append, List.length_singleton, hb]
      omega
    · intro hf ι lt
      refine ⟨_, ModVerif.Tie.FnParseHeap.heapGet_prefix lt.2.1 (heapGet_alloc_new _ _), r hf ι ⟨lt.1, ?_, lt.2.2.1, lt.2.2.2⟩⟩
      exact (List.prefix_append _ _).trans lt.2.1
  | lparen c => exact hx.elim
  | rparen c => exact hx.elim

theorem blockPtrs_cons (e : Rule.Expr) (es : List Rule.Expr) : blockPtrs (e :: es) = blockPtrs [e] ++ blockPtrs es := by
  cases e <;> simp [blockPtrs]

theorem load_stmts : ∀ (xs : List Modfile.Expr), (∀ x ∈ xs, StmtNE x) → ∀ (s : Ld),
    Grow s (s.stmts xs).1 ∧
    (s.stmts xs).1.ids.map (·.2) = ((linesOf xs).map (·.id)).reverse ++ s.ids.map (·.2) ∧
    FreshB s.h.blocks.length (s.stmts xs).1.h.blocks.length (s.stmts xs).2 ∧
    ∀ hf ι, Later (s.stmts xs).1 hf ι → RStmts ι hf (s.stmts xs).2 xs
  | [], _, s => ⟨Grow.refl s, by simp [Ld.stmts], ⟨by simp [Ld.stmts, blockPtrs], by simp [Ld.stmts, blockPtrs]⟩, fun _ _ _ => trivial⟩
  | x :: rest, hne, s => by
    obtain ⟨g1, v1, f1, r1⟩ := load_stmt x (hne x List.mem_cons_self) s
    obtain ⟨g2, v2, f2, r2⟩ := load_stmts rest (fun y hy => hne y (List.mem_cons_of_mem _ hy)) (s.stmt x).1
    have hS : s.stmts (x :: rest) = (((s.stmt x).1.stmts rest).1, (s.stmt x).2 :: ((s.stmt x).1.stmts rest).2) := rfl
    rw [hS]
    refine ⟨g1.trans g2, ?_, ?_, ?_⟩
    · show ((s.stmt x).1.stmts rest).1.ids.map (·.2) = _
      rw [v2, v1]
      have : linesOf (x :: rest) = linesOf [x] ++ linesOf rest := by
        cases x <;> simp [linesOf, Modfile.FileSyntax.allLines]
      rw [this]; simp
    · show FreshB s.h.blocks.length ((s.stmt x).1.stmts rest).1.h.blocks.length ((s.stmt x).2 :: ((s.stmt x).1.stmts rest).2)
      have hle1 : s.h.blocks.length ≤ (s.stmt x).1.h.blocks.length := g1.blocks.length_le
      have hle2 : (s.stmt x).1.h.blocks.length ≤ ((s.stmt x).1.stmts rest).1.h.blocks.length := g2.blocks.length_le
      constructor
      · rw [blockPtrs_cons, List.nodup_append]
        refine ⟨f1.1, f2.1, ?_⟩
        intro a ha b hb e
        have := (f1.2 a ha).2
        have := (f2.2 b hb).1
        subst e; omega
      · intro p hp
        rw [blockPtrs_cons, List.mem_append] at hp
        rcases hp with hp | hp
        · have := f1.2 p hp; omega
        · have := f2.2 p hp; omega
    · intro hf ι lt
      exact ⟨r1 hf ι (lt.mono g2), r2 hf ι lt⟩

/-! ### `parseSynI` -/

theorem treeIds_eq_linesOf (xs : List Modfile.Expr) : treeIds xs = (linesOf xs).map (·.id) := by
  unfold treeIds linesOf
  rw [Modfile.Edit.allLines_eq_loc]
  simp [List.map_map, Function.comp_def]

/-- **loading**: on a successful parse `parseSynI` (from the empty heap) returns a pointer to a file object whose graph
    represents the parsed tree under the recorded pointer ↦ id map, which is injective on the line pointers -/
theorem parseSynI_rep {name data : Bytes} {fs : Modfile.FileSyntax} (hp : Modfile.parse name data = .ok fs) :
    ∃ p h0, parseSynI name data default = .ok ((p, none), h0) ∧
      RepSyn (idOf (idsOf name data)) h0 p fs ∧ LineInj (idOf (idsOf name data)) h0 := by
  have hne := parse_ne hp
  obtain ⟨g, v, f, r⟩ := load_stmts fs.stmts hne ({} : Ld)
  have hnodup : (treeIds fs.stmts).Nodup := by rw [treeIds_eq_linesOf]; exact Proofs.ModfileC20.parse_ids_nodup hp
  have hk : KeysOK (({} : Ld).stmts fs.stmts).1 := g.keys (by simp [KeysOK]; rfl)
  have hids : idsOf name data = (({} : Ld).stmts fs.stmts).1.ids := by simp [idsOf, hp]
  have hvals : ((({} : Ld).stmts fs.stmts).1.ids.map (·.2)).Nodup := by
    rw [v]
    have h0 : (({} : Ld).ids.map (·.2)) = [] := rfl
    rw [h0, List.append_nil, nodup_reverse', ← treeIds_eq_linesOf]
    exact hnodup
  have hkeys : ((({} : Ld).stmts fs.stmts).1.ids.map (·.1)).Nodup := by
    rw [hk]
    unfold List.Nodup
    rw [List.pairwise_map]
    have : (List.range (({} : Ld).stmts fs.stmts).1.h.lines.length).reverse.Nodup := nodup_reverse'.2 List.nodup_range
    exact this.imp (fun hab e => hab (by omega))
  have hι : ∀ q ∈ (({} : Ld).stmts fs.stmts).1.ids, idOf (idsOf name data) q.1 = q.2 := by
    intro q hq
    rw [hids]
    unfold idOf
    rw [lookup_of_mem hkeys (show (q.1, q.2) ∈ _ from hq)]
    rfl
  refine ⟨(((({} : Ld).stmts fs.stmts).1.h.files.length + 1 : Nat) : Int),
    { (({} : Ld).stmts fs.stmts).1.h with files := (({} : Ld).stmts fs.stmts).1.h.files ++ [fileG fs (({} : Ld).stmts fs.stmts).2] },
    ?_, ⟨(({} : Ld).stmts fs.stmts).2, ?_, ?_, f.1, hnodup⟩, ?_⟩
  · simp only [parseSynI, hp]
    rfl
  · exact heapGet_alloc_new _ _
  · exact r _ _ ⟨List.prefix_refl _, List.prefix_refl _, List.prefix_refl _, hι⟩
  · -- injectivity: every allocated pointer is a key, the values are pairwise different
    intro a b ha hla hb hlb hab
    have hmem : ∀ c : Int, 0 < c → c.toNat ≤ (({} : Ld).stmts fs.stmts).1.h.lines.length →
        ∃ v, (c, v) ∈ (({} : Ld).stmts fs.stmts).1.ids := by
      intro c hc hlc
      have : c ∈ (({} : Ld).stmts fs.stmts).1.ids.map (·.1) := by
        rw [hk]
        refine List.mem_map.2 ⟨c.toNat - 1, by simp; omega, by omega⟩
      obtain ⟨q, hq, rfl⟩ := List.mem_map.1 this
      exact ⟨q.2, hq⟩
    obtain ⟨va, hva⟩ := hmem a ha hla
    obtain ⟨vb, hvb⟩ := hmem b hb hlb
    have ea := hι _ hva
    have eb := hι _ hvb
    simp only at ea eb
    rw [ea, eb] at hab
    subst hab
    exact key_unique hvals hva hvb

end ModVerif.Tie.FnRuleAddK
