/-
  Tie proofs for sumdb/tlog/tile.go, part 2: `Tile.Path` and `ParseTilePath`.
-/
import ModVerif.Proofs.TieFnTile
import ModVerif.Proofs.Decimal
namespace ModVerif.TieFnTile
open ModVerif ModVerif.GoRt ModVerif.GoRtTile

/-! ### Tile.Path -/

/-- the loop `for n >= pathBase { n /= pathBase; nStr = fmt.Sprintf("x%03d/%s", n%pathBase, nStr) }`;
    `g + 1` units of fuel are enough for `n < 1000^(g+1)`, any model fuel `f ≥ n` -/
theorem Tile_Path_loop1_eq : ∀ (f g n : Nat) (acc : Bytes), n ≤ f → n < 1000 ^ (g + 1) →
    ∃ n' : Int, Generated.Tile.Tile_Path_loop1 (g + 1) (n : Int) acc = .ok (n', Tile.pathN f n acc) := by
  intro f
  induction f with
  | zero =>
    intro g n acc hn _
    have : n = 0 := by omega
    subst this
    exact ⟨0, by simp [Generated.Tile.Tile_Path_loop1, Tile.pathN, mpure]⟩
  | succ f ih =>
    intro g n acc hn hg
    by_cases hge : n ≥ 1000
    · have hge' : ((n : Int) ≥ ((1000 : Nat) : Int)) := by omega
      obtain ⟨g', rfl⟩ : ∃ g', g = g' + 1 := by
        cases g with
        | zero => simp at hg; omega
        | succ g' => exact ⟨g', rfl⟩
      have hdiv : n / 1000 < 1000 ^ (g' + 1) := by
        apply Nat.div_lt_of_lt_mul
        rw [Nat.pow_succ, Nat.mul_comm] at hg
        exact hg
      obtain ⟨n', hn'⟩ := ih g' (n / 1000) ([120] ++ Decimal.pad3 (n / 1000 % 1000) ++ [47] ++ acc) (by omega) hdiv
      refine ⟨n', ?_⟩
      have e1 : ((1000 : Int)) = ((1000 : Nat) : Int) := rfl
      rw [Generated.Tile.Tile_Path_loop1]
      simp only [hge', decide_true, ↓reduceIte, e1, quo_natCast n 1000 (by omega), mbind_ok,
        rem_natCast (n / 1000) 1000 (by omega), padDec3_natCast]
      rw [hn']
      simp only [Tile.pathN, Tile.pathBase, hge, ↓reduceIte]
    · have hge' : ¬ ((n : Int) ≥ 1000) := by omega
      refine ⟨(n : Int), ?_⟩
      rw [Generated.Tile.Tile_Path_loop1]
      simp only [hge', decide_false, Bool.false_eq_true, ↓reduceIte, mpure, Tile.pathN, Tile.pathBase, hge]

theorem B_tile_slash' : ([116, 105, 108, 101, 47] : Bytes) = B "tile/" := by decide +kernel
theorem B_data' : ([100, 97, 116, 97] : Bytes) = B "data" := by decide +kernel
theorem B_dotp_slash' : ([46, 112, 47] : Bytes) = B ".p/" := by decide +kernel

/-- `Tile.Path` of (the image of) a model tile with `H ≤ 62` (`1 << H` is an int64) and `N` an int64 -/
theorem Tile_Path_eq (fuel : Nat) (t : Tile.Tile) (hh : t.h ≤ 62) (hn : t.n < 2 ^ 63) (hf : 8 ≤ fuel) :
    Generated.Tile.Tile_Path fuel (toGen t) = .ok (Tile.tilePath t) := by
  obtain ⟨g, rfl⟩ : ∃ g, fuel = g + 1 := ⟨fuel - 1, by omega⟩
  have hpow : t.n < 1000 ^ (g + 1) := by
    have : (1000 : Nat) ^ 7 ≤ 1000 ^ (g + 1) := Nat.pow_le_pow_right (by omega) (by omega)
    have : (2 : Nat) ^ 63 < 1000 ^ 7 := by decide
    omega
  obtain ⟨n', hloop⟩ := Tile_Path_loop1_eq t.n g t.n (Decimal.pad3 (t.n % 1000)) (Nat.le_refl _) hpow
  have hp : 2 ^ t.h < 2 ^ 63 := Nat.pow_lt_pow_right (by omega) (by omega)
  have e1 : ((1000 : Int)) = ((1000 : Nat) : Int) := rfl
  have hW : (((t.w : Int) = ((2 ^ t.h : Nat) : Int))) ↔ t.w = 2 ^ t.h := by omega
  obtain ⟨th, tl, tn, tw, td⟩ := t
  simp only at hh hn hpow hloop hp hW
  simp only [Generated.Tile.Tile_Path, toGen, e1, rem_natCast tn 1000 (by omega), mbind_ok, padDec3_natCast, hloop,
    toU64_natCast (show th < 2 ^ 64 by omega), shl_one_natCast, chk64_natCast hp, hW, itoa_natCast,
    B_tile_slash', B_data', B_dotp_slash', Tile.tilePath, Tile.pathBase]
  cases td
  · have hne : ¬ ((tl : Int) = -1) := by omega
    by_cases hw : tw = 2 ^ th
    · simp [hw, hne, mpure, itoa_natCast]
    · simp [hw, hne, mpure, itoa_natCast]
  · by_cases hw : tw = 2 ^ th
    · simp [hw, mpure]
    · simp [hw, mpure]

/-! ### ParseTilePath -/

/-- the int64 range condition of the `n = n*pathBase + nn` loop: every intermediate value fits -/
def Fits (segs : List Bytes) (n0 : Nat) : Prop := ∀ j n, Tile.parseN (segs.take j) n0 = some n → n < 2 ^ 63

theorem trimPrefix_x (s : Bytes) : trimPrefix s [120] = Tile.trimX s := by
  cases s with
  | nil => rfl
  | cons c r =>
    by_cases h : c = 120
    · subst h; rfl
    · have h1 : isPrefixOfB [120] (c :: r) = false := by
        simp only [isPrefixOfB, Bool.and_true]
        cases hb : ((120 : UInt8) == c) with
        | false => rfl
        | true => rw [beq_iff_eq] at hb; exact absurd hb.symm h
      have h2 : Tile.trimX (c :: r) = c :: r := by
        unfold Tile.trimX
        split
        · rename_i heq; simp at heq; exact absurd heq.1 h
        · rfl
      simp only [trimPrefix, h1, Bool.false_eq_true, ↓reduceIte, h2]

/-- what the loop returns -/
def loopOut (len : Nat) : Option Nat → Ctl (GTile × Option String) (Int × Int)
  | some m => Ctl.next ((len : Int), (m : Int))
  | none => Ctl.ret ((default : GTile), some "badPathError")

theorem ParseTilePath_loop1_eq (path : Bytes) : ∀ (segs pre : List Bytes) (n fuel : Nat),
    segs.length < fuel → Fits segs n →
    Generated.Tile.ParseTilePath_loop1 path (pre ++ segs) fuel (pre.length : Int) (n : Int) =
      .ok (loopOut (pre ++ segs).length (Tile.parseN segs n)) := by
  intro segs
  induction segs with
  | nil =>
    intro pre n fuel hf _
    obtain ⟨g, rfl⟩ : ∃ g, fuel = g + 1 := ⟨fuel - 1, by omega⟩
    rw [List.append_nil]
    have : ¬ ((pre.length : Int) < len pre) := by simp [len]
    rw [Generated.Tile.ParseTilePath_loop1]
    simp only [this, decide_false, Bool.false_eq_true, ↓reduceIte, Tile.parseN, loopOut, mpure]
  | cons s rest ih =>
    intro pre n fuel hf hfit
    obtain ⟨g, rfl⟩ : ∃ g, fuel = g + 1 := ⟨fuel - 1, by omega⟩
    simp only [List.length_cons] at hf
    have hlt : ((pre.length : Int) < len (pre ++ s :: rest)) := by simp [len]; omega
    have hidx : idxL (pre ++ s :: rest) (pre.length : Int) = .ok s := by
      rw [idxL_natCast' (by simp)]; simp
    rw [Generated.Tile.ParseTilePath_loop1]
    simp only [hlt, decide_true, ↓reduceIte, hidx, mbind_ok, trimPrefix_x]
    cases hp : Decimal.parseInt64 (Tile.trimX s) with
    | none =>
      have := atoi_none _ hp
      simp [this, Tile.parseN, hp, loopOut, mpure]
    | some nn =>
      rw [atoi_some _ _ hp]
      by_cases hbad : nn < 0 ∨ nn ≥ 1000
      · have hb : (decide (nn < 0) || decide (nn ≥ 1000)) = true := by
          rcases hbad with h | h <;> simp [h]
        have hb' : (nn < 0 || nn ≥ 1000) = true := hb
        simp [Tile.parseN, hp, hb, loopOut, mpure]
      · have h0 : ¬ nn < 0 := by omega
        have h1 : ¬ nn ≥ 1000 := by omega
        have hstep : Tile.parseN (s :: rest) n = Tile.parseN rest (n * 1000 + nn.toNat) := by
          simp [Tile.parseN, hp, h0, h1, Tile.pathBase]
        have hfit1 := hfit 1 (n * 1000 + nn.toNat) (by
          simp [Tile.parseN, hp, h0, h1, Tile.pathBase])
        have hn1000 : n * 1000 < 2 ^ 63 := Nat.lt_of_le_of_lt (Nat.le_add_right _ _) hfit1
        have e1 : (n : Int) * 1000 = ((n * 1000 : Nat) : Int) := by omega
        have e2 : ((n * 1000 : Nat) : Int) + nn = ((n * 1000 + nn.toNat : Nat) : Int) := by omega
        have e3 : (pre.length : Int) + 1 = (((pre ++ [s]).length : Nat) : Int) := by simp
        have e4 : pre ++ s :: rest = (pre ++ [s]) ++ rest := by simp
        have hfit' : Fits rest (n * 1000 + nn.toNat) := by
          intro j m hm
          apply hfit (j + 1) m
          simp only [List.take_succ_cons]
          rw [← hm]
          simp [Tile.parseN, hp, h0, h1, Tile.pathBase]
        rw [e4]
        simp only [Option.isNone_none, Bool.not_true, h0, h1, decide_false, Bool.or_self, Bool.false_eq_true, ↓reduceIte,
          e1, chk64_natCast hn1000, mbind_ok, e2, chk64_natCast hfit1, e3]
        rw [hstep, ih (pre ++ [s]) (n * 1000 + nn.toNat) g (by omega) hfit']

end ModVerif.TieFnTile
