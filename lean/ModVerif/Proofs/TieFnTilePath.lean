/-
  Tie proofs for sumdb/tlog/tile.go, part 2: `Tile.Path` and `ParseTilePath`.
-/
import ModVerif.Proofs.TieFnTile
import ModVerif.Proofs.Decimal
namespace ModVerif.TieFnTile
open ModVerif ModVerif.GoRt ModVerif.GoRtTile

/-! ### Tile.Path -/

/-- the loop `for n >= pathBase { n /= pathBase; nStr = fmt.Sprintf("x%03d/%s", n%pathBase, nStr) }`;
    `g + 1` units of fuel are enough for `n < 1000^(g+1)`, any model fuel `f ≥ n` -/
theorem Tile_Path_loop1_eq : ∀ (f g n : Nat) (acc : Bytes), n ≤ f → n < 1000 ^ (g + 1) →
    ∃ n' : Int, Generated.Tile.Tile_Path_loop1 (g + 1) (n : Int) acc = .ok (n', Tile.pathN f n acc) := by
  intro f
  induction f with
  | zero =>
    intro g n acc hn _
    have : n = 0 := by omega
    subst this
    exact ⟨0, by simp [Generated.Tile.Tile_Path_loop1, Tile.pathN, mpure]⟩
  | succ f ih =>
    intro g n acc hn hg
    by_cases hge : n ≥ 1000
    · have hge' : ((n : Int) ≥ ((1000 : Nat) : Int)) := by omega
      obtain ⟨g', rfl⟩ : ∃ g', g = g' + 1 := by
        cases g with
        | zero => simp at hg; omega
        | succ g' => exact ⟨g', rfl⟩
      have hdiv : n / 1000 < 1000 ^ (g' + 1) := by
        apply Nat.div_lt_of_lt_mul
        rw [Nat.pow_succ, Nat.mul_comm] at hg
        exact hg
      obtain ⟨n', hn'⟩ := ih g' (n / 1000) ([120] ++ Decimal.pad3 (n / 1000 % 1000) ++ [47] ++ acc) (by omega) hdiv
      refine ⟨n', ?_⟩
      have e1 : ((1000 : Int)) = ((1000 : Nat) : Int) := rfl
      rw [Generated.Tile.Tile_Path_loop1]
      simp only [hge', decide_true, ↓reduceIte, e1, quo_natCast n 1000 (by omega), mbind_ok,
        rem_natCast (n / 1000) 1000 (by omega), padDec3_natCast]
      rw [hn']
      simp only [Tile.pathN, Tile.pathBase, hge, ↓reduceIte]
    · have hge' : ¬ ((n : Int) ≥ 1000) := by omega
      refine ⟨(n : Int), ?_⟩
      rw [Generated.Tile.Tile_Path_loop1]
      simp only [hge', decide_false, Bool.false_eq_true, ↓reduceIte, mpure, Tile.pathN, Tile.pathBase, hge]

theorem B_tile_slash' : ([116, 105, 108, 101, 47] : Bytes) = B "tile/" := by decide +kernel
theorem B_data' : ([100, 97, 116, 97] : Bytes) = B "data" := by decide +kernel
theorem B_dotp_slash' : ([46, 112, 47] : Bytes) = B ".p/" := by decide +kernel

/-- `Tile.Path` of (the image of) a model tile with `H ≤ 62` (`1 << H` is an int64) and `N` an int64 -/
theorem Tile_Path_eq (fuel : Nat) (t : Tile.Tile) (hh : t.h ≤ 62) (hn : t.n < 2 ^ 63) (hf : 8 ≤ fuel) :
    Generated.Tile.Tile_Path fuel (toGen t) = .ok (Tile.tilePath t) := by
  obtain ⟨g, rfl⟩ : ∃ g, fuel = g + 1 := ⟨fuel - 1, by omega⟩
  have hpow : t.n < 1000 ^ (g + 1) := by
    have : (1000 : Nat) ^ 7 ≤ 1000 ^ (g + 1) := Nat.pow_le_pow_right (by omega) (by omega)
    have : (2 : Nat) ^ 63 < 1000 ^ 7 := by decide
    omega
  obtain ⟨n', hloop⟩ := Tile_Path_loop1_eq t.n g t.n (Decimal.pad3 (t.n % 1000)) (Nat.le_refl _) hpow
  have hp : 2 ^ t.h < 2 ^ 63 := Nat.pow_lt_pow_right (by omega) (by omega)
  have e1 : ((1000 : Int)) = ((1000 : Nat) : Int) := rfl
  have hW : (((t.w : Int) = ((2 ^ t.h : Nat) : Int))) ↔ t.w = 2 ^ t.h := by omega
  obtain ⟨th, tl, tn, tw, td⟩ := t
  simp only at hh hn hpow hloop hp hW
  simp only [Generated.Tile.Tile_Path, toGen, e1, rem_natCast tn 1000 (by omega), mbind_ok, padDec3_natCast, hloop,
    toU64_natCast (show th < 2 ^ 64 by omega), shl_one_natCast, chk64_natCast hp, hW, itoa_natCast,
    B_tile_slash', B_data', B_dotp_slash', Tile.tilePath, Tile.pathBase]
  cases td
  · have hne : ¬ ((tl : Int) = -1) := by omega
    by_cases hw : tw = 2 ^ th
    · simp [hw, hne, mpure, itoa_natCast]
    · simp [hw, hne, mpure, itoa_natCast]
  · by_cases hw : tw = 2 ^ th
    · simp [hw, mpure]
    · simp [hw, mpure]

end ModVerif.TieFnTile
