/-
  Closed fuel of the FnEdit session ties, part I (agent edit-fuel3): what the DIRECTIVE LAYER (`File.add`, `addBlockLines`,
  `addStmts` of the strict parse without a version fixer) does to the weight of the tree and to the typed part of the
  potential `W`.

  Per token the directive layer writes `AutoQuote (unquote tok)` (`parseString`: `≤ 16·|tok| + 2` through `unquote_length`
  and `quote_length`) or `module.CanonicalVersion` of the unquoted token (`≤ 4·|tok| + 17`); at most four tokens of a line
  are rewritten (`replace`).  So one step of `File.add` maps arguments of weight `tokW args` to arguments of weight at most
  `16 · tokW args + 80`, appends at most ONE entry to the typed lists, and a go version / module path it records is at most
  `4 · tokW args` long (`add_growth`).
-/
import ModVerif.Proofs.TieFnEditFuelH
import ModVerif.Proofs.TieFnEditFuelF
import ModVerif.Proofs.TieFnRuleFuelD
import ModVerif.Proofs.ModfileC20Ignore
import ModVerif.Proofs.ModfileC20Rule
set_option linter.unusedSimpArgs false
set_option linter.unusedVariables false
namespace ModVerif.Tie.FnEditFuelI
open ModVerif ModVerif.Modfile ModVerif.Tie.FnEditFuelA ModVerif.Proofs.ModfileC20

/-- the fixers under which the rewritten version token is bounded by the token: none (`Parse(…, nil)`), and the one
    `File.add` itself uses for `retract` -/
def PlainFix (fix : Option Fixer) : Prop := fix = none ∨ fix = some dontFixRetract

/-- the typed part of the potential `W`: the six typed-list lengths, `|go version|`, `|module path|` -/
def fileP (f : File) : Nat :=
  f.godebug.length + f.require.length + f.exclude.length + f.replace.length + f.retract.length + f.tool.length +
    (match f.go with | some g => g.version.length | none => 0) +
    (match f.module with | some m => m.mod.path.length | none => 0)

/-! ### tokens -/

theorem parseString_tok {a s a' : Bytes} (h : parseString a = some (s, a')) :
    a'.length ≤ 16 * a.length + 2 ∧ s.length ≤ 4 * a.length := by
  have h1 := FnRuleFuelD.parseString_len h
  have : a' = autoQuote s := by
    unfold parseString at h
    split at h
    · cases hu : Quote.unquote a with
      | none => simp [hu] at h
      | some u =>
        simp only [hu, Option.some.injEq, Prod.mk.injEq] at h
        obtain ⟨rfl, rfl⟩ := h; rfl
    · split at h
      · cases h
      · simp only [Option.some.injEq, Prod.mk.injEq] at h
        obtain ⟨rfl, rfl⟩ := h; rfl
  subst this
  have := FnEditFuelF.autoQuote_length s
  omega

theorem parseVersion_tok {fix : Option Fixer} (hfix : PlainFix fix) (p tok : Bytes) :
    (parseVersion p tok fix).1.length ≤ 16 * tok.length + 17 := by
  unfold parseVersion
  cases hp : parseString tok with
  | none => simp only; omega
  | some r =>
    obtain ⟨t, tok1⟩ := r
    have ⟨h1, h2⟩ := parseString_tok hp
    have hc := FnRuleFuelD.canonicalVersion_len t
    rcases hfix with rfl | rfl
    · simp only; split <;> simp only <;> omega
    · simp only [dontFixRetract]; omega

theorem parseVersion_tok' {fix : Option Fixer} (hfix : PlainFix fix) {p tok t' : Bytes} {r : Except RuleErrKind Bytes}
    (h : parseVersion p tok fix = (t', r)) : t'.length ≤ 16 * tok.length + 17 := by
  have := parseVersion_tok hfix p tok; rw [h] at this; exact this

/-! ### `File.add`, verb by verb (strict) -/

theorem addGo_growth (st : AddState) (line : Line) (args : List Bytes) :
    tokW (addGo st line args true).2 ≤ 16 * tokW args + 80 ∧
      fileP (addGo st line args true).1.file ≤ fileP st.file + 4 * tokW args + 1 := by
  unfold addGo
  simp only [if_true]
  split
  · simp only [AddState.err]; omega
  · rename_i hg
    have hg' : st.file.go = none := by cases h : st.file.go <;> simp_all
    split
    · split
      · simp only [fileP, hg', tokW_cons, tokW_nil]; omega
      · simp only [AddState.err]; omega
    · simp only [AddState.err]; omega

theorem addToolchain_growth (st : AddState) (line : Line) (args : List Bytes) :
    tokW (addToolchain st line args).2 ≤ 16 * tokW args + 80 ∧
      fileP (addToolchain st line args).1.file ≤ fileP st.file + 4 * tokW args + 1 := by
  unfold addToolchain
  simp only
  split
  · simp only [AddState.err]; omega
  · split
    · split
      · simp only [AddState.err]; omega
      · simp only [fileP]; omega
    · simp only [AddState.err]; omega

theorem addModule_growth (st : AddState) (block : Option Comments) (line : Line) (args : List Bytes) :
    tokW (addModule st block line args).2 ≤ 16 * tokW args + 80 ∧
      fileP (addModule st block line args).1.file ≤ fileP st.file + 4 * tokW args + 1 := by
  unfold addModule
  simp only
  split
  · simp only [AddState.err]; omega
  · rename_i hg
    have hg' : st.file.module = none := by cases h : st.file.module <;> simp_all
    split
    · split
      · simp only [AddState.err, fileP, hg', List.length_nil]; omega
      · rename_i a s a' hp
        have := parseString_tok hp
        simp only [fileP, hg', tokW_cons, tokW_nil]; omega
    · simp only [AddState.err, fileP, hg', List.length_nil]; omega

theorem addGodebugV_growth (st : AddState) (line : Line) (args : List Bytes) :
    tokW (addGodebugV st line args).2 ≤ 16 * tokW args + 80 ∧
      fileP (addGodebugV st line args).1.file ≤ fileP st.file + 4 * tokW args + 1 := by
  unfold addGodebugV
  simp only
  split
  · simp only [AddState.err]; omega
  · simp only [fileP, List.length_append, List.length_singleton]; omega

theorem addToolV_growth (st : AddState) (line : Line) (args : List Bytes) :
    tokW (addToolV st line args).2 ≤ 16 * tokW args + 80 ∧
      fileP (addToolV st line args).1.file ≤ fileP st.file + 4 * tokW args + 1 := by
  unfold addToolV
  simp only
  split
  · split
    · simp only [AddState.err]; omega
    · rename_i a s a' hp
      have := parseString_tok hp
      simp only [fileP, List.length_append, List.length_singleton, tokW_cons, tokW_nil]; omega
  · simp only [AddState.err]; omega

theorem addReqExc_growth (st : AddState) (line : Line) (verb : Bytes) (args : List Bytes) {fix : Option Fixer}
    (hfix : PlainFix fix) :
    tokW (addReqExc st line verb args fix).2 ≤ 16 * tokW args + 80 ∧
      fileP (addReqExc st line verb args fix).1.file ≤ fileP st.file + 4 * tokW args + 1 := by
  unfold addReqExc
  simp only
  split
  · rename_i a0 a1
    split
    · simp only [AddState.err]; omega
    · rename_i s a0' hp
      have h0 := parseString_tok hp
      split
      · rename_i a1' e hv
        have h1 := parseVersion_tok' hfix hv
        simp only [AddState.err, tokW_cons, tokW_nil]; omega
      · rename_i a1' v hv
        have h1 := parseVersion_tok' hfix hv
        split
        · simp only [AddState.err, tokW_cons, tokW_nil]; omega
        · split
          · simp only [AddState.err, tokW_cons, tokW_nil]; omega
          · split
            · simp only [fileP, List.length_append, List.length_singleton, tokW_cons, tokW_nil]; omega
            · simp only [fileP, List.length_append, List.length_singleton, tokW_cons, tokW_nil]; omega
  · simp only [AddState.err]; omega

/-- collect the token bound of every `parseVersion … = (t', r)` hypothesis -/
macro "pv_facts" hfix:term : tactic =>
  `(tactic| repeat (have := parseVersion_tok' $hfix ‹parseVersion _ _ _ = _›; clear ‹parseVersion _ _ _ = _›))

theorem parseVersionInterval_tok {fix : Option Fixer} (hfix : PlainFix fix) (path : Bytes) (toks : List Bytes) :
    tokW (parseVersionInterval path toks fix).1 ≤ 16 * tokW toks + 80 := by
  unfold parseVersionInterval
  repeat' split
  all_goals (pv_facts hfix)
  all_goals (simp only [tokW_cons, tokW_nil]; omega)

theorem addRetractV_growth (st : AddState) (block : Option Comments) (line : Line) (args : List Bytes) :
    tokW (addRetractV st block line args true).2 ≤ 16 * tokW args + 80 ∧
      fileP (addRetractV st block line args true).1.file ≤ fileP st.file + 4 * tokW args + 1 := by
  have h := parseVersionInterval_tok (Or.inr rfl : PlainFix (some dontFixRetract)) [] args
  unfold addRetractV
  simp only [if_true]
  split
  · rename_i args' e he
    rw [he] at h; simp only at h
    simp only [AddState.err]; omega
  · rename_i args' vi rest he
    rw [he] at h; simp only at h
    split
    · simp only [AddState.err]; omega
    · simp only [fileP, List.length_append, List.length_singleton]; omega

/-! ### `replace`: `parseReplace` in three pieces -/

/-- the optional old version of `parseReplace` -/
def replOld (s pathMajor : Bytes) (arrow : Nat) (rest0 : List Bytes) (fix : Option Fixer) :
    List Bytes × Except RuleErrKind Bytes :=
  if arrow == 2 then
    match rest0 with
    | a1 :: rest1 =>
      match parseVersion s a1 fix with
      | (a1', .error e) => (a1' :: rest1, .error e)
      | (a1', .ok v) =>
        if !Module.checkPathMajor v pathMajor then (a1' :: rest1, .error .pathMajorMismatch)
        else (a1' :: rest1, .ok v)
    | [] => (rest0, .error .replaceUsage)
  else (rest0, .ok [])

/-- `parseReplace` after the old version -/
def replTail (lineId : Nat) (args : List Bytes) (arrow : Nat) (s a0' : Bytes) (rest0' : List Bytes) (v : Bytes)
    (fix : Option Fixer) : List Bytes × Except RuleErrKind Replace :=
  let pre := rest0'.take arrow
  match rest0'.drop arrow with
  | [] => (a0' :: rest0', .error .replaceUsage)
  | nsTok :: tail =>
  match parseString nsTok with
  | none => (a0' :: rest0', .error .invalidQuotedString)
  | some (ns, nsTok') =>
  let argsNow := a0' :: (pre ++ nsTok' :: tail)
  if args.length == arrow + 2 && !isDirectoryPath ns then
    if GoStrings.contains ns [64] then (argsNow, .error .replaceAtVersion)
    else (argsNow, .error .replaceNeedsDir)
  else if args.length == arrow + 2 && GoStrings.contains ns [92] then
    (argsNow, .error .replaceWindowsPath)
  else if args.length == arrow + 3 then
    match tail with
    | [] => (argsNow, .error .replaceUsage)
    | nvTok :: tail2 =>
      match parseVersion ns nvTok fix with
      | (nvTok', .error e) => (a0' :: (pre ++ nsTok' :: nvTok' :: tail2), .error e)
      | (nvTok', .ok nv) =>
        let argsNow := a0' :: (pre ++ nsTok' :: nvTok' :: tail2)
        if isDirectoryPath ns then (argsNow, .error .replaceDirWithVersion)
        else (argsNow, .ok { old := { path := s, version := v }, new := { path := ns, version := nv }, lineId := lineId })
  else
    (argsNow, .ok { old := { path := s, version := v }, new := { path := ns, version := [] }, lineId := lineId })

theorem parseReplace_eq (lineId : Nat) (args : List Bytes) (fix : Option Fixer) :
    parseReplace lineId args fix =
      (let arrow := if args.length ≥ 2 && args[1]? == some (B "=>") then 1 else 2
       if args.length < arrow + 2 || args.length > arrow + 3 || args[arrow]? != some (B "=>") then
         (args, .error .replaceUsage)
       else
       match args with
       | [] => (args, .error .replaceUsage)
       | a0 :: rest0 =>
       match parseString a0 with
       | none => (args, .error .invalidQuotedString)
       | some (s, a0') =>
       match modulePathMajor s with
       | none => (a0' :: rest0, .error .invalidModulePath)
       | some pathMajor =>
       match replOld s pathMajor arrow rest0 fix with
       | (rest0', .error e) => (a0' :: rest0', .error e)
       | (rest0', .ok v) => replTail lineId args arrow s a0' rest0' v fix) := by
  rfl

theorem replOld_shape {fix : Option Fixer} (hfix : PlainFix fix) (s pathMajor : Bytes) (arrow : Nat) (rest0 : List Bytes) :
    (replOld s pathMajor arrow rest0 fix).1 = rest0 ∨
      ∃ a1 a1' rest1, rest0 = a1 :: rest1 ∧ (replOld s pathMajor arrow rest0 fix).1 = a1' :: rest1 ∧
        a1'.length ≤ 16 * a1.length + 17 := by
  unfold replOld
  split
  · split
    · rename_i a1 rest1
      right
      split
      · rename_i a1' e hv
        exact ⟨a1, a1', rest1, rfl, rfl, parseVersion_tok' hfix hv⟩
      · rename_i a1' v hv
        refine ⟨a1, a1', rest1, rfl, ?_, parseVersion_tok' hfix hv⟩
        split <;> rfl
    · left; rfl
  · left; rfl

theorem replTail_tok {fix : Option Fixer} (hfix : PlainFix fix) (lineId : Nat) (args : List Bytes) (arrow : Nat)
    (s a0' : Bytes) (rest0' : List Bytes) (v : Bytes) :
    tokW (replTail lineId args arrow s a0' rest0' v fix).1 ≤
      2 * a0'.length + 1 + tokW (rest0'.take arrow) + 16 * tokW (rest0'.drop arrow) + 40 := by
  have htd := tokW_take_drop arrow rest0'
  unfold replTail
  simp only
  split
  · rename_i hd
    rw [hd] at htd ⊢
    simp only [tokW_cons, tokW_nil] at htd ⊢; omega
  · rename_i nsTok tail hd
    rw [hd] at htd ⊢
    split
    · simp only [tokW_cons, tokW_nil] at htd ⊢; omega
    · rename_i ns nsTok' hp
      have hn := parseString_tok hp
      repeat' split
      all_goals (pv_facts hfix)
      all_goals (simp only [tokW_cons, tokW_nil, tokW_append] at htd ⊢; omega)

theorem parseReplace_tok {fix : Option Fixer} (hfix : PlainFix fix) (lineId : Nat) (args : List Bytes) :
    tokW (parseReplace lineId args fix).1 ≤ 16 * tokW args + 80 := by
  rw [parseReplace_eq]
  simp only
  generalize harrow : (if args.length ≥ 2 && args[1]? == some (B "=>") then 1 else 2) = arrow
  have ha : 1 ≤ arrow := by rw [← harrow]; split <;> omega
  clear harrow
  split
  · simp only; omega
  · split
    · simp only [tokW_nil]; omega
    · rename_i a0 rest0 hcond
      split
      · simp only; omega
      · rename_i s a0' hp
        have h0 := parseString_tok hp
        split
        · simp only [tokW_cons]; omega
        · rename_i pathMajor hpm
          have hsh := replOld_shape hfix s pathMajor arrow rest0
          have key : ∀ rest0' : List Bytes, (rest0' = rest0 ∨ ∃ a1 a1' rest1, rest0 = a1 :: rest1 ∧ rest0' = a1' :: rest1 ∧
              a1'.length ≤ 16 * a1.length + 17) →
              2 * a0'.length + 1 + tokW (rest0'.take arrow) + 16 * tokW (rest0'.drop arrow) + 40 ≤
                16 * tokW (a0 :: rest0) + 80 := by
            intro rest0' h
            rcases h with rfl | ⟨a1, a1', rest1, rfl, rfl, hl⟩
            · have := tokW_take_drop arrow rest0'
              simp only [tokW_cons]; omega
            · obtain ⟨n, rfl⟩ : ∃ n, arrow = n + 1 := ⟨arrow - 1, by omega⟩
              have := tokW_take_drop n rest1
              simp only [List.take_succ_cons, List.drop_succ_cons, tokW_cons]; omega
          split
          · rename_i rest0' e he
            rw [he] at hsh
            have := key rest0' hsh
            have := tokW_take_drop arrow rest0'
            simp only [tokW_cons] at *; omega
          · rename_i rest0' v he
            rw [he] at hsh
            have := key rest0' hsh
            have := replTail_tok hfix lineId (a0 :: rest0) arrow s a0' rest0' v
            omega

theorem addReplaceV_growth (st : AddState) (line : Line) (args : List Bytes) {fix : Option Fixer} (hfix : PlainFix fix) :
    tokW (addReplaceV st line args fix).2 ≤ 16 * tokW args + 80 ∧
      fileP (addReplaceV st line args fix).1.file ≤ fileP st.file + 4 * tokW args + 1 := by
  have h := parseReplace_tok hfix line.id args
  unfold addReplaceV
  simp only
  split
  · rename_i args' e he
    rw [he] at h; simp only at h
    simp only [AddState.err]; omega
  · rename_i args' r he
    rw [he] at h; simp only at h
    simp only [fileP, List.length_append, List.length_singleton]; omega

/-- **one step of `File.add`** (strict, no fixer or the identity fixer): the rewritten arguments weigh at most
    `16 · tokW args + 80`, the typed part of the potential grows by at most `4 · tokW args + 1` -/
theorem add_growth (st : AddState) (block : Option Comments) (line : Line) (verb : Bytes) (args : List Bytes)
    {fix : Option Fixer} (hfix : PlainFix fix) :
    tokW (File.add st block line verb args fix true).2 ≤ 16 * tokW args + 80 ∧
      fileP (File.add st block line verb args fix true).1.file ≤ fileP st.file + 4 * tokW args + 1 := by
  rw [add_eq]
  split
  · rename_i h; simp at h
  split
  · exact addGo_growth ..
  split
  · exact addToolchain_growth ..
  split
  · exact addModule_growth ..
  split
  · exact addGodebugV_growth ..
  split
  · exact addReqExc_growth _ _ _ _ hfix
  split
  · exact addReplaceV_growth _ _ _ hfix
  split
  · exact addRetractV_growth ..
  split
  · exact addToolV_growth ..
  · simp only [AddState.err]; omega

end ModVerif.Tie.FnEditFuelI
