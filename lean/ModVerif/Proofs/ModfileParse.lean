/-
  The parser half of `parse_no_internal_error`: with the fuel `parseFile` supplies, no loop of the
  parser model runs out of fuel, `parseLine` is never entered at an end of line and `readRune` is
  never called at EOF.  Measure: bytes remaining, plus one while the pending token is not EOF.
-/
import ModVerif.Model.Modfile.Comments
import ModVerif.Proofs.ModfileLex
namespace ModVerif.Proofs.ModfileParse
open ModVerif ModVerif.Modfile ModVerif.Proofs.ModfileLex

/-- the termination measure of the parser loops -/
def m (i : Input) : Nat := i.remaining.length + (if i.token.kind = .eof then 0 else 1)

@[simp] theorem m_nextId (i : Input) (n : Nat) : m { i with nextId := n } = m i := rfl

/-- outcome of a parser function: a result with the measure bounded by `b` (strictly if `strict`), or a
    non-internal error -/
def Good {α : Type} (r : Except SynErr (α × Input)) (b : Nat) (strict : Bool) : Prop :=
  (∃ a i', r = .ok (a, i') ∧ (if strict then m i' < b else m i' ≤ b)) ∨ (∃ e, r = .error e ∧ NotInternal e)

theorem lex_spec (i : Input) :
    (∃ i', lex i = .ok (i.token, i') ∧ m i' ≤ m i ∧ (i.token.kind ≠ .eof → m i' < m i)) ∨
    (∃ e, lex i = .error e ∧ NotInternal e) := by
  unfold lex
  rcases readToken_spec i with ⟨i', h', hle, hlt, _⟩ | ⟨e, h', hne⟩
  · refine Or.inl ⟨i', by simp [h', bind, Except.bind], ?_, ?_⟩
    · unfold m
      by_cases hk : i'.token.kind = .eof
      · simp only [hk, if_true]; split <;> omega
      · have := hlt hk
        simp only [hk, if_false]; split <;> omega
    · intro hi
      unfold m
      simp only [hi, if_false]
      by_cases hk : i'.token.kind = .eof
      · simp only [hk, if_true]; omega
      · have := hlt hk
        simp only [hk, if_false]; omega
  · exact Or.inr ⟨e, by simp [h', bind, Except.bind], hne⟩

theorem not_eof_of_not_isEOL {k : TokKind} (h : k.isEOL = false) : k ≠ .eof := by
  intro hk; rw [hk] at h; cases h

theorem parseLineLoop_spec : ∀ (fuel : Nat) (i : Input) (s e : Position) (ts : List Bytes), m i < fuel →
    Good (parseLineLoop fuel i s e ts) (m i) false := by
  intro fuel
  induction fuel with
  | zero => intro i _ _ _ h; omega
  | succ n ih =>
    intro i s e ts h
    unfold parseLineLoop
    rcases lex_spec i with ⟨i1, h1, hle, hlt⟩ | ⟨e1, h1, hne⟩
    · simp only [h1, bind, Except.bind]
      cases hk : i.token.kind.isEOL with
      | true => exact Or.inl ⟨_, _, rfl, by simpa using hle⟩
      | false =>
        simp only [Bool.false_eq_true, if_false]
        have hlt' := hlt (not_eof_of_not_isEOL hk)
        rcases ih i1 s i.token.endPos (i.token.text :: ts) (by omega) with ⟨a, i2, h2, hb⟩ | ⟨e2, h2, hne⟩
        · exact Or.inl ⟨a, i2, h2, by simp at hb ⊢; omega⟩
        · exact Or.inr ⟨e2, h2, hne⟩
    · exact Or.inr ⟨e1, by simp [h1, bind, Except.bind], hne⟩

theorem parseLine_spec (fuel : Nat) (i : Input) (h : m i ≤ fuel) (hk : i.token.kind.isEOL = false) :
    Good (parseLine fuel i) (m i) true := by
  unfold parseLine
  rcases lex_spec i with ⟨i1, h1, hle, hlt⟩ | ⟨e1, h1, hne⟩
  · simp only [h1, bind, Except.bind, hk, Bool.false_eq_true, if_false]
    have hlt' := hlt (not_eof_of_not_isEOL hk)
    rcases parseLineLoop_spec fuel i1 i.token.pos i.token.endPos [i.token.text] (by omega) with
      ⟨a, i2, h2, hb⟩ | ⟨e2, h2, hne⟩
    · exact Or.inl ⟨a, i2, h2, by simp at hb ⊢; omega⟩
    · exact Or.inr ⟨e2, h2, hne⟩
  · exact Or.inr ⟨e1, by simp [h1, bind, Except.bind], hne⟩

theorem parseLineBlockLoop_spec : ∀ (fuel : Nat) (i : Input) (x : LineBlock) (ls : List Line) (cs : List Comment),
    m i < fuel → Good (parseLineBlockLoop fuel i x ls cs) (m i) false := by
  intro fuel
  induction fuel with
  | zero => intro i _ _ _ h; omega
  | succ n ih =>
    intro i x ls cs h
    unfold parseLineBlockLoop
    unfold Input.peek
    split
    · rename_i hk
      have hne : i.token.kind ≠ .eof := by rw [hk]; simp
      rcases lex_spec i with ⟨i1, h1, hle, hlt⟩ | ⟨e1, h1, hne1⟩
      · simp only [h1, bind, Except.bind]
        have := hlt hne
        rcases ih i1 x ls cs (by omega) with ⟨a, i2, h2, hb⟩ | ⟨e2, h2, hne2⟩
        · exact Or.inl ⟨a, i2, h2, by simp at hb ⊢; omega⟩
        · exact Or.inr ⟨e2, h2, hne2⟩
      · exact Or.inr ⟨e1, by simp [h1, bind, Except.bind], hne1⟩
    · rename_i hk
      have hne : i.token.kind ≠ .eof := by rw [hk]; simp
      rcases lex_spec i with ⟨i1, h1, hle, hlt⟩ | ⟨e1, h1, hne1⟩
      · simp only [h1, bind, Except.bind]
        have := hlt hne
        rcases ih i1 x ls _ (by omega) with ⟨a, i2, h2, hb⟩ | ⟨e2, h2, hne2⟩
        · exact Or.inl ⟨a, i2, h2, by simp at hb ⊢; omega⟩
        · exact Or.inr ⟨e2, h2, hne2⟩
      · exact Or.inr ⟨e1, by simp [h1, bind, Except.bind], hne1⟩
    · rename_i hk
      have hne : i.token.kind ≠ .eof := by rw [hk]; simp
      rcases lex_spec i with ⟨i1, h1, hle, hlt⟩ | ⟨e1, h1, hne1⟩
      · simp only [h1, bind, Except.bind]
        have := hlt hne
        rcases ih i1 x ls _ (by omega) with ⟨a, i2, h2, hb⟩ | ⟨e2, h2, hne2⟩
        · exact Or.inl ⟨a, i2, h2, by simp at hb ⊢; omega⟩
        · exact Or.inr ⟨e2, h2, hne2⟩
      · exact Or.inr ⟨e1, by simp [h1, bind, Except.bind], hne1⟩
    · exact Or.inr ⟨_, rfl, by intro t; simp [Input.error]⟩
    · rename_i hk
      have hne : i.token.kind ≠ .eof := by rw [hk]; simp
      rcases lex_spec i with ⟨i1, h1, hle, hlt⟩ | ⟨e1, h1, hne1⟩
      · simp only [h1, bind, Except.bind]
        have := hlt hne
        cases hk1 : i1.token.kind.isEOL with
        | false => exact Or.inr ⟨i1.error .afterRParen, by simp, by intro t; simp [Input.error]⟩
        | true =>
          simp only [Bool.not_true, Bool.false_eq_true, if_false]
          rcases lex_spec i1 with ⟨i2, h2, hle2, _⟩ | ⟨e2, h2, hne2⟩
          · simp only [h2]
            exact Or.inl ⟨_, i2, rfl, by simp; omega⟩
          · simp only [h2]
            exact Or.inr ⟨e2, rfl, hne2⟩
      · exact Or.inr ⟨e1, by simp [h1, bind, Except.bind], hne1⟩
    · rename_i h1 h2 h3 h4 h5
      have hk : i.token.kind.isEOL = false := by
        cases hkk : i.token.kind with
        | eof => exact absurd hkk h4
        | eolComment => exact absurd hkk h1
        | punct c =>
          simp only [TokKind.isEOL]
          cases hc : c == 10 with
          | false => rfl
          | true =>
            have : c = 10 := by simpa using hc
            subst this
            exact absurd hkk h2
        | _ => rfl
      rcases parseLine_spec (n + 1) i (by omega) hk with ⟨l, i1, hl, hb⟩ | ⟨e1, hl, hne⟩
      · simp only [hl, bind, Except.bind]
        simp only [if_true] at hb
        rcases ih i1 x (_ :: ls) [] (by omega) with ⟨a, i2, h2, hb2⟩ | ⟨e2, h2, hne⟩
        · exact Or.inl ⟨a, i2, h2, by simp at hb2 ⊢; omega⟩
        · exact Or.inr ⟨e2, h2, hne⟩
      · exact Or.inr ⟨e1, by simp [hl, bind, Except.bind], hne⟩

end ModVerif.Proofs.ModfileParse

namespace ModVerif.Proofs.ModfileParse
open ModVerif ModVerif.Modfile ModVerif.Proofs.ModfileLex

theorem parseStmtLoop_spec : ∀ (fuel : Nat) (i : Input) (s e : Position) (ts : List Bytes), m i < fuel →
    Good (parseStmtLoop fuel i s e ts) (m i) false := by
  intro fuel
  induction fuel with
  | zero => intro i _ _ _ h; omega
  | succ n ih =>
    intro i s e ts h
    unfold parseStmtLoop
    rcases lex_spec i with ⟨i1, h1, hle, hlt⟩ | ⟨e1, h1, hne1⟩
    · simp only [h1, bind, Except.bind]
      cases hk : i.token.kind.isEOL with
      | true => exact Or.inl ⟨_, _, rfl, by simpa using hle⟩
      | false =>
        simp only [Bool.false_eq_true, if_false]
        have hlt1 := hlt (not_eof_of_not_isEOL hk)
        -- the recursive call on a state below `i`
        have recur : ∀ (i2 : Input) (e' : Position) (ts' : List Bytes), m i2 ≤ m i1 →
            Good (parseStmtLoop n i2 s e' ts') (m i) false := by
          intro i2 e' ts' hle2
          rcases ih i2 s e' ts' (by omega) with ⟨a, i3, h3, hb⟩ | ⟨e3, h3, hne3⟩
          · exact Or.inl ⟨a, i3, h3, by simp at hb ⊢; omega⟩
          · exact Or.inr ⟨e3, h3, hne3⟩
        split
        · -- '('
          unfold Input.peek
          split
          · -- start of block
            unfold parseLineBlock
            have sp := parseLineBlockLoop_spec (n + 1) i1 { start := s, lparen := { pos := i.token.pos }, token := ts.reverse } [] [] (by omega)
            split
            · rename_i err heq
              rcases sp with ⟨b, i2, h2, hb⟩ | ⟨e2, h2, hne2⟩
              · exact absurd (heq.symm.trans h2) (by simp)
              · have : err = e2 := by
                  have := heq.symm.trans h2
                  simpa using this
                subst this
                exact Or.inr ⟨err, rfl, hne2⟩
            · rename_i v heq
              rcases sp with ⟨b, i2, h2, hb⟩ | ⟨e2, h2, hne2⟩
              · have : v = (b, i2) := by
                  have := heq.symm.trans h2
                  simpa using this
                subst this
                exact Or.inl ⟨_, i2, rfl, by simp at hb ⊢; omega⟩
              · exact absurd (heq.symm.trans h2) (by simp)
          · split
            · rename_i hnext
              have hne : i1.token.kind ≠ .eof := by
                intro hh; rw [hh] at hnext; simp at hnext
              rcases lex_spec i1 with ⟨i2, h2, hle2, hlt2⟩ | ⟨e2, h2, hne2⟩
              · simp only [h2]
                have := hlt2 hne
                split
                · rcases lex_spec i2 with ⟨i3, h3, hle3, _⟩ | ⟨e3, h3, hne3⟩
                  · simp only [h3]
                    exact Or.inl ⟨_, i3, rfl, by simp; omega⟩
                  · simp only [h3]
                    exact Or.inr ⟨e3, rfl, hne3⟩
                · exact recur i2 _ _ (by omega)
              · simp only [h2]
                exact Or.inr ⟨e2, rfl, hne2⟩
            · exact recur i1 _ _ (Nat.le_refl _)
        · exact recur i1 _ _ (Nat.le_refl _)
    · exact Or.inr ⟨e1, by simp [h1, bind, Except.bind], hne1⟩

theorem parseStmt_spec (fuel : Nat) (i : Input) (h : m i < fuel) (hk : i.token.kind ≠ .eof) :
    Good (parseStmt fuel i) (m i) true := by
  unfold parseStmt
  rcases lex_spec i with ⟨i1, h1, hle, hlt⟩ | ⟨e1, h1, hne1⟩
  · simp only [h1, bind, Except.bind]
    have := hlt hk
    rcases parseStmtLoop_spec fuel i1 i.token.pos i.token.endPos [i.token.text] (by omega) with
      ⟨a, i2, h2, hb⟩ | ⟨e2, h2, hne2⟩
    · exact Or.inl ⟨a, i2, h2, by simp at hb ⊢; omega⟩
    · exact Or.inr ⟨e2, h2, hne2⟩
  · exact Or.inr ⟨e1, by simp [h1, bind, Except.bind], hne1⟩

theorem parseFileLoop_noInternal : ∀ (fuel : Nat) (i : Input) (stmts : List Expr) (cb : Option CommentBlock),
    m i < fuel → NoInternal (parseFileLoop fuel i stmts cb) := by
  intro fuel
  induction fuel with
  | zero => intro i _ _ h; omega
  | succ n ih =>
    intro i stmts cb h
    unfold parseFileLoop
    unfold Input.peek
    split
    · rename_i hk
      have hne : i.token.kind ≠ .eof := by rw [hk]; simp
      rcases lex_spec i with ⟨i1, h1, hle, hlt⟩ | ⟨e1, h1, hne1⟩
      · simp only [h1, bind, Except.bind]
        have := hlt hne
        split <;> exact ih i1 _ _ (by omega)
      · intro e he
        simp only [h1, bind, Except.bind] at he
        cases he; exact hne1
    · rename_i hk
      have hne : i.token.kind ≠ .eof := by rw [hk]; simp
      rcases lex_spec i with ⟨i1, h1, hle, hlt⟩ | ⟨e1, h1, hne1⟩
      · simp only [h1, bind, Except.bind]
        have := hlt hne
        exact ih i1 _ _ (by omega)
      · intro e he
        simp only [h1, bind, Except.bind] at he
        cases he; exact hne1
    · split <;> exact noInternal_ok _
    · rename_i h1 h2 h3
      rcases parseStmt_spec (n + 1) i h h3 with ⟨a, i1, hs, hb⟩ | ⟨e1, hs, hne1⟩
      · simp only [hs, bind, Except.bind]
        simp only [if_true] at hb
        split <;> exact ih i1 _ _ (by omega)
      · intro e he
        simp only [hs, bind, Except.bind] at he
        cases he; exact hne1

theorem parseFile_noInternal (data : Bytes) : NoInternal (parseFile data) := by
  unfold parseFile
  rcases readToken_spec (newInput data) with ⟨i, h, hle, _, _⟩ | ⟨e, h, hne⟩
  · simp only [h, bind, Except.bind]
    apply parseFileLoop_noInternal
    have : (newInput data).remaining = data := rfl
    rw [this] at hle
    unfold m
    split <;> omega
  · intro e' he
    simp only [h, bind, Except.bind] at he
    cases he; exact hne

/-- `parse` never reports an internal error. -/
theorem parse_noInternal (name data : Bytes) : NoInternal (parse name data) := by
  intro e he
  unfold parse at he
  cases hp : parseFile data with
  | error e' =>
    simp only [hp, bind, Except.bind] at he
    have hee : e' = e := by cases he; rfl
    subst hee
    exact parseFile_noInternal data e' hp
  | ok r =>
    simp only [hp, bind, Except.bind] at he
    cases he

end ModVerif.Proofs.ModfileParse
