/-
  ClientRefine, part 1b — the coupling invariant `Coupled` (Proofs/ClientRefineHead.lean) is preserved by every step of
  the lock-step product, one lemma per program counter; progress (the machine can always take the step the sequential
  environment dictates).
-/
import ModVerif.Proofs.ClientRefineHead
namespace ModVerif.ClientRefine
open ModVerif ModVerif.Client ModVerif.Tile

set_option linter.unusedSectionVars false

section
variable {σ H : Type} [DecidableEq H]
variable {P : Params H} {E : Env σ} {MP : MParams H} {cl : Nat → Nat} {presented : Nat → Option Bytes}
  {priv : Nat → Bool} {name : Bytes} {cfg : σ → Bytes} {vs : List Note.Verifier} {t : Nat} {msg0 : Bytes}
  {target : Except Err Unit × World σ H} {tr0 : List Effect} {bw : List (Option Bytes × Option Bytes)}
  {bs : List (Nat × Option Bytes × Option Bytes)}

theorem openTree_err (P : Params H) (vs : List Note.Verifier) (m : Bytes) (e : Err) (h : openTree P vs m = .error e) :
    e = .note := by
  unfold openTree at h
  split at h
  · cases h; rfl
  · split at h
    · cases h; rfl
    · cases h

theorem absRes_error_ne {e : Err} (h : e ≠ .security) : absRes (.error e) = .err := by
  cases e <;> simp_all [absRes]

theorem absChk_ok {x : Except Err Unit} (h : absChk x = .ok) : x = .ok () := by
  cases x with
  | ok u => cases u; rfl
  | error e => cases e <;> simp [absChk] at h

theorem absChk_fork {x : Except Err Unit} (h : absChk x = .fork) : x = .error .security := by
  cases x with
  | ok u => simp [absChk] at h
  | error e => cases e <;> simp [absChk] at h ⊢

theorem absChk_error {x : Except Err Unit} (h : absChk x = .error) : ∃ e, x = .error e ∧ e ≠ .security := by
  cases x with
  | ok u => simp [absChk] at h
  | error e => cases e <;> simp [absChk] at h ⊢

theorem relG_of_fr {w w' : World σ H} {s s' : MSt H} (hR : RelG cl name cfg vs t w s) (hf : Fr cfg w w')
    (h1 : s'.latest (cl t) = s.latest (cl t)) (h2 : s'.latestMsg (cl t) = s.latestMsg (cl t))
    (h3 : s'.config = s.config) : RelG cl name cfg vs t w' s' :=
  ⟨hf.name.trans hR.name, hf.verifiers.trans hR.verifiers, hf.nosec hR.nosec, by rw [h1, hf.latest]; exact hR.latest,
    by rw [h2, hf.latestMsg]; exact hR.latestMsg, by rw [h3, hf.cfg]; exact hR.config⟩

theorem obs_quiet {w w' : World σ H} {s s' : MSt H} (hO : Obs P t tr0 bw bs w s)
    (htr : ∃ es, w'.tr = w.tr ++ es ∧ ∀ e ∈ es, Quiet e) (h1 : s'.writes = s.writes) (h2 : s'.sec = s.sec) :
    Obs P t tr0 bw bs w' s' := by
  obtain ⟨ext, e1, e2, ns, e3, e4⟩ := hO
  obtain ⟨es, f1, f2⟩ := htr
  refine ⟨ext ++ es, by rw [f1, e1, List.append_assoc], ?_, ns, by rw [h2, e3], ?_⟩
  · rw [h1, e2, trWrites_append, trWrites_quiet es f2, List.append_nil]
  · rw [trSecs_append, trSecs_quiet es f2, List.append_nil]; exact e4

theorem obs_same {w : World σ H} {s s' : MSt H} (hO : Obs P t tr0 bw bs w s)
    (h1 : s'.writes = s.writes) (h2 : s'.sec = s.sec) : Obs P t tr0 bw bs w s' :=
  obs_quiet hO ⟨[], by simp, by simp⟩ h1 h2

/-- where the goroutine continues after `mergeLatestMem` returned `when`: the coupling holds there -/
theorem locOK_afterMem (o : ClientLatest.Outer) (when : Client.When) (w' : World σ H) (l' : MLoc H)
    (hpc : l'.pc = ClientLatest.afterMem o (absWhen when)) (hcfg : o = .loop → l'.cfg = optB (cfg w'.s))
    (ht : afterMemSeq P E o (P.retries - 1) (unB l'.cfg) (.ok when, w') = target) :
    LocOK P E vs cfg msg0 target w' l' := by
  cases o <;> cases when <;> simp only [absWhen, ClientLatest.afterMem] at hpc <;> simp only [LocOK, hpc] <;>
    simp [afterMemSeq] at ht ⊢
  all_goals (first | exact ht | (subst ht; exact ⟨rfl, rfl⟩) | skip)
  all_goals (first | exact ⟨hcfg rfl, by simpa [afterMemSeq] using ht⟩ | skip)

theorem step_entry {w : World σ H} {s s' : MSt H} {r : ClientLatest.Res} (hpriv : priv t = false)
    (hC : Coupled P E cl name cfg vs t msg0 target tr0 bw bs w s) (hpc : (s.th t).pc = .entry)
    (h : ClientLatest.step MP cl presented priv s t r = some s') :
    Coupled P E cl name cfg vs t msg0 target tr0 bw bs w s' := by
  obtain ⟨hR, hL, hO⟩ := hC
  simp only [LocOK, hpc] at hL
  unfold ClientLatest.step at h
  simp only [hpc, hpriv] at h
  simp at h; subst h
  refine ⟨⟨hR.name, hR.verifiers, hR.nosec, hR.latest, hR.latestMsg, hR.config⟩, ?_, obs_same hO rfl rfl⟩
  simp only [ClientLatest.upd_same, LocOK]
  exact hL

theorem step_start {w : World σ H} {s s' : MSt H} {r : ClientLatest.Res} (hpres : presented t = optB msg0)
    (hC : Coupled P E cl name cfg vs t msg0 target tr0 bw bs w s) (hpc : (s.th t).pc = .start)
    (h : ClientLatest.step MP cl presented priv s t r = some s') :
    Coupled P E cl name cfg vs t msg0 target tr0 bw bs w s' := by
  obtain ⟨hR, hL, hO⟩ := hC
  simp only [LocOK, hpc] at hL
  unfold ClientLatest.step at h
  simp only [hpc] at h
  simp at h; subst h
  refine ⟨⟨hR.name, hR.verifiers, hR.nosec, hR.latest, hR.latestMsg, hR.config⟩, ?_, obs_same hO rfl rfl⟩
  simp only [ClientLatest.upd_same, LocOK, hpres, unB_optB]
  refine And.intro trivial (And.intro (fun h => ?_) ?_)
  · cases h
  · rw [← mergeLatest_eq]; exact hL

theorem when_zero (n : Nat) : (if n = 0 then ClientLatest.When.now else ClientLatest.When.past) =
    absWhen (if n == 0 then Client.When.now else Client.When.past) := by
  by_cases h : n = 0 <;> simp [h, absWhen]

theorem step_memRead {w : World σ H} {s s' : MSt H} {r : ClientLatest.Res} (hA : Abs P E vs MP)
    (o : ClientLatest.Outer)
    (hC : Coupled P E cl name cfg vs t msg0 target tr0 bw bs w s) (hpc : (s.th t).pc = .memRead o)
    (h : ClientLatest.step MP cl presented priv s t r = some s') :
    Coupled P E cl name cfg vs t msg0 target tr0 bw bs w s' := by
  obtain ⟨hR, hL, hO⟩ := hC
  simp only [LocOK, hpc] at hL
  obtain ⟨hm, hc, ht⟩ := hL
  unfold ClientLatest.step at h
  simp only [hpc] at h
  cases hmsg : (s.th t).msg with
  | none =>
    simp only [hmsg] at h
    simp at h; subst h
    refine ⟨⟨hR.name, hR.verifiers, hR.nosec, hR.latest, hR.latestMsg, hR.config⟩, ?_, obs_same hO rfl rfl⟩
    simp only [ClientLatest.upd_same]
    rw [hmsg] at ht
    simp only [unB, mergeLatestMem_eq, List.isEmpty_nil, if_true] at ht
    refine locOK_afterMem o _ w _ ?_ hc ht
    simp only [hA.size, hR.latest]
    rw [when_zero]
  | some m =>
    simp only [hmsg] at h
    rw [hmsg] at hm ht
    simp only [unB] at hm ht
    obtain ⟨_, hne⟩ := optB_some hm.symm
    rw [mergeLatestMem_eq, hne, hR.verifiers] at ht
    simp only [Bool.false_eq_true, if_false] at ht
    rw [hA.parse] at h
    cases hot : openTree P vs m with
    | error e =>
      simp only [hot] at h ht
      simp at h; subst h
      refine ⟨⟨hR.name, hR.verifiers, hR.nosec, hR.latest, hR.latestMsg, hR.config⟩, ?_, obs_same hO rfl rfl⟩
      simp only [ClientLatest.upd_same, LocOK]
      have he := openTree_err P vs m e hot
      subst he
      cases o <;> simp only [afterMemSeq] at ht <;> subst ht <;> exact ⟨rfl, rfl⟩
    | ok tr =>
      simp only [hot] at h ht
      simp at h; subst h
      refine ⟨⟨hR.name, hR.verifiers, hR.nosec, hR.latest, hR.latestMsg, hR.config⟩, ?_, obs_same hO rfl rfl⟩
      simp only [ClientLatest.upd_same, LocOK, unB]
      exact ⟨hR.latest, hR.latestMsg, hm, hot, hc, ht⟩

theorem afterMemSeq_error (o : ClientLatest.Outer) (f : Nat) (c : Bytes) (e : Err) (w' : World σ H) :
    afterMemSeq P E o f c (.error e, w') = (.error e, w') := by
  cases o <;> rfl

/-- the goroutine returns an ordinary error after a frame step of the world -/
theorem coupled_done_err {w w' : World σ H} {s : MSt H} (l' : MLoc H) (e : Err)
    (hR : RelG cl name cfg vs t w s) (hO : Obs P t tr0 bw bs w s) (hf : Fr cfg w w')
    (hpc' : l'.pc = .done .err) (he : e ≠ .security) (ht : (.error e, w') = target) :
    Coupled P E cl name cfg vs t msg0 target tr0 bw bs w' { s with th := ClientLatest.upd s.th t l' } := by
  refine ⟨relG_of_fr hR hf rfl rfl rfl, ?_, obs_quiet hO hf.trace rfl rfl⟩
  simp only [ClientLatest.upd_same, LocOK, hpc']
  subst ht
  exact ⟨absRes_error_ne he, rfl⟩

/-- the goroutine returns the security error: one `SecurityError` call on top of a frame step of the world -/
theorem coupled_done_fork (hE : CfgCell E name cfg) {w w1 : World σ H} {s : MSt H} (l' : MLoc H)
    (a b : Option Bytes) (h : H) (tail : Bytes)
    (hR : RelG cl name cfg vs t w s) (hO : Obs P t tr0 bw bs w s) (hf : Fr cfg w w1)
    (hpc' : l'.pc = .done .security)
    (ht : (.error .security, securityError E w1 (securityHead P (unB a) (unB b) h ++ tail)) = target) :
    Coupled P E cl name cfg vs t msg0 target tr0 bw bs
      (securityError E w1 (securityHead P (unB a) (unB b) h ++ tail))
      { s with th := ClientLatest.upd s.th t l', sec := (t, a, b) :: s.sec } := by
  have hR1 : RelG cl name cfg vs t w1 s := relG_of_fr hR hf rfl rfl rfl
  refine ⟨⟨hR1.name, hR1.verifiers, hR1.nosec, hR1.latest, hR1.latestMsg, ?_⟩, ?_, ?_⟩
  · show s.config = optB (cfg (E.securityError w1.s _))
    rw [hE.keep.securityError]; exact hR1.config
  · simp only [ClientLatest.upd_same, LocOK, hpc']
    subst ht
    exact ⟨rfl, rfl⟩
  · obtain ⟨ext, e1, e2, ns, e3, e4⟩ := hO
    obtain ⟨es, f1, f2⟩ := hf.trace
    refine ⟨ext ++ es ++ [.securityError (securityHead P (unB a) (unB b) h ++ tail)], ?_, ?_, (t, a, b) :: ns, ?_, ?_⟩
    · show w1.tr ++ _ = _
      rw [f1, e1]; simp
    · show s.writes = _
      rw [e2, trWrites_append, trWrites_append, trWrites_quiet es f2]
      simp [trWrites]
    · show (t, a, b) :: s.sec = _
      rw [e3]; rfl
    · rw [trSecs_append, trSecs_append, trSecs_quiet es f2, List.append_nil]
      exact SecRel.snoc a b h tail e4

theorem when_lt (a b : Nat) : (if a < b then ClientLatest.When.past else ClientLatest.When.now) =
    absWhen (if a < b then Client.When.past else Client.When.now) := by
  by_cases h : a < b <;> simp [h, absWhen]

theorem step_memCheck {w : World σ H} {s s' : MSt H} {r : ClientLatest.Res} (hA : Abs P E vs MP)
    (hE : CfgCell E name cfg) (o : ClientLatest.Outer)
    (hC : Coupled P E cl name cfg vs t msg0 target tr0 bw bs w s) (hpc : (s.th t).pc = .memCheck o)
    (hr : r = answer P E w (s.th t))
    (h : ClientLatest.step MP cl presented priv s t r = some s') :
    Coupled P E cl name cfg vs t msg0 target tr0 bw bs (wstep P E w (s.th t)) s' := by
  obtain ⟨hR, hL, hO⟩ := hC
  simp only [LocOK, hpc] at hL
  obtain ⟨hl, hlm, hm, hot, hc, ht⟩ := hL
  have hans : r = absChk (seqCheck P E w (s.th t)).1 := by rw [hr]; simp only [answer, hpc]
  have hws : wstep P E w (s.th t) = (seqCheck P E w (s.th t)).2 := by simp only [wstep, hpc]
  rw [hws]
  have hulm : unB (s.th t).latestMsg = w.c.latestMsg := by rw [hlm, unB_optB]
  unfold ClientLatest.step at h
  simp only [hpc, hA.size] at h
  by_cases hsz : (s.th t).tree.n ≤ (s.th t).latest.n
  · simp only [hsz, if_true] at h
    have hsc : seqCheck P E w (s.th t) =
        checkTrees P E w (s.th t).tree (unB (s.th t).msg) w.c.latest w.c.latestMsg := by
      rw [seqCheck, if_pos hsz, hulm, hl]
    have hsz' : (s.th t).tree.n ≤ w.c.latest.n := hl ▸ hsz
    simp only [memCheckSeq, hsz', if_true] at ht
    rw [hsc] at hans ⊢
    have hcases := checkTrees_cases hE.keep P w hR.nosec (s.th t).tree (unB (s.th t).msg) w.c.latest w.c.latestMsg
    generalize checkTrees P E w (s.th t).tree (unB (s.th t).msg) w.c.latest w.c.latestMsg = rc at *
    split at h
    · cases r
      · -- ok
        simp at h; subst h
        have hok := absChk_ok hans.symm
        rw [hok] at ht hcases
        simp only at ht
        rcases hcases with ⟨_, hf⟩ | ⟨hbad, _⟩
        · refine ⟨relG_of_fr hR hf rfl rfl rfl, ?_, obs_quiet hO hf.trace rfl rfl⟩
          simp only [ClientLatest.upd_same]
          refine locOK_afterMem o _ rc.2 _ ?_ (fun ho => by rw [hf.cfg]; exact hc ho) ht
          simp only [hl]
          rw [when_lt]
        · cases hbad
      · -- fork
        simp at h; subst h
        have hfk := absChk_fork hans.symm
        rw [hfk, afterMemSeq_error] at ht
        rcases hcases with ⟨hbad, _⟩ | ⟨_, w1, hh, tail, hf, hw1⟩
        · exact absurd hfk hbad
        · rw [hw1] at ht ⊢
          rw [← hulm] at ht ⊢
          exact coupled_done_fork hE _ _ _ hh tail hR hO hf rfl ht
      · -- error
        simp at h; subst h
        obtain ⟨e, he1, he2⟩ := absChk_error hans.symm
        rw [he1, afterMemSeq_error] at ht
        rcases hcases with ⟨_, hf⟩ | ⟨hbad, _⟩
        · exact coupled_done_err _ e hR hO hf rfl he2 ht
        · rw [he1] at hbad; cases hbad; exact absurd rfl he2
    · cases h
  · simp only [hsz, if_false] at h
    have hsc : seqCheck P E w (s.th t) =
        checkTrees P E w w.c.latest w.c.latestMsg (s.th t).tree (unB (s.th t).msg) := by
      rw [seqCheck, if_neg hsz, hulm, hl]
    have hsz' : ¬ (s.th t).tree.n ≤ w.c.latest.n := hl ▸ hsz
    simp only [memCheckSeq, hsz', if_false] at ht
    rw [hsc] at hans ⊢
    have hcases := checkTrees_cases hE.keep P w hR.nosec w.c.latest w.c.latestMsg (s.th t).tree (unB (s.th t).msg)
    generalize checkTrees P E w w.c.latest w.c.latestMsg (s.th t).tree (unB (s.th t).msg) = rc at *
    split at h
    · cases r
      · -- ok
        simp at h; subst h
        have hok := absChk_ok hans.symm
        rw [hok] at ht hcases
        simp only at ht
        rcases hcases with ⟨_, hf⟩ | ⟨hbad, _⟩
        · refine ⟨relG_of_fr hR hf rfl rfl rfl, ?_, obs_quiet hO hf.trace rfl rfl⟩
          simp only [ClientLatest.upd_same, LocOK]
          exact ⟨by rw [hl, hf.latest], hm, fun ho => by rw [hf.cfg]; exact hc ho, ht⟩
        · cases hbad
      · -- fork
        simp at h; subst h
        have hfk := absChk_fork hans.symm
        rw [hfk, afterMemSeq_error] at ht
        rcases hcases with ⟨hbad, _⟩ | ⟨_, w1, hh, tail, hf, hw1⟩
        · exact absurd hfk hbad
        · rw [hw1] at ht ⊢
          rw [← hulm] at ht ⊢
          exact coupled_done_fork hE _ _ _ hh tail hR hO hf rfl ht
      · -- error
        simp at h; subst h
        obtain ⟨e, he1, he2⟩ := absChk_error hans.symm
        rw [he1, afterMemSeq_error] at ht
        rcases hcases with ⟨_, hf⟩ | ⟨hbad, _⟩
        · exact coupled_done_err _ e hR hO hf rfl he2 ht
        · rw [he1] at hbad; cases hbad; exact absurd rfl he2
    · cases h

theorem step_memInstall {w : World σ H} {s s' : MSt H} {r : ClientLatest.Res} (o : ClientLatest.Outer)
    (hC : Coupled P E cl name cfg vs t msg0 target tr0 bw bs w s) (hpc : (s.th t).pc = .memInstall o)
    (h : ClientLatest.step MP cl presented priv s t r = some s') :
    Coupled P E cl name cfg vs t msg0 target tr0 bw bs (wstep P E w (s.th t)) s' := by
  obtain ⟨hR, hL, hO⟩ := hC
  simp only [LocOK, hpc] at hL
  obtain ⟨hl, hm, hc, ht⟩ := hL
  have hws : wstep P E w (s.th t) = installW w (s.th t).tree (unB (s.th t).msg) := by simp only [wstep, hpc, installW]
  rw [hws]
  unfold ClientLatest.step at h
  simp only [hpc] at h
  have heq : s.latest (cl t) = (s.th t).latest := by rw [hR.latest, hl]
  simp only [heq, if_true] at h
  simp at h; subst h
  refine ⟨⟨hR.name, hR.verifiers, hR.nosec, ?_, ?_, hR.config⟩, ?_, ?_⟩
  · simp [installW]
  · simp only [ClientLatest.upd_same, installW]; exact hm
  · simp only [ClientLatest.upd_same]
    exact locOK_afterMem o .future _ _ rfl hc ht
  · obtain ⟨ext, e1, e2, ns, e3, e4⟩ := hO
    exact ⟨ext, e1, e2, ns, e3, e4⟩

theorem step_readConfig {w : World σ H} {s s' : MSt H} {r : ClientLatest.Res} (hE : CfgCell E name cfg)
    (hret : 1 ≤ P.retries)
    (hC : Coupled P E cl name cfg vs t msg0 target tr0 bw bs w s) (hpc : (s.th t).pc = .readConfig)
    (hr : r = answer P E w (s.th t))
    (h : ClientLatest.step MP cl presented priv s t r = some s') :
    Coupled P E cl name cfg vs t msg0 target tr0 bw bs (wstep P E w (s.th t)) s' := by
  obtain ⟨hR, hL, hO⟩ := hC
  simp only [LocOK, hpc] at hL
  have hws : wstep P E w (s.th t) = (readConfig E w (latestFile w.c.name)).2 := by simp only [wstep, hpc]
  rw [hws]
  have hans : r = if (readConfig E w (latestFile w.c.name)).1.isSome then .ok else .error := by
    rw [hr]; simp only [answer, hpc]
  obtain ⟨f, hf⟩ : ∃ f, P.retries = f + 1 := ⟨P.retries - 1, by omega⟩
  have hf' : P.retries - 1 = f := by omega
  rw [hf, mergeLatestLoop_succ] at hL
  -- the frame of ReadConfig
  have hfr : Fr cfg w (readConfig E w (latestFile w.c.name)).2 := by
    refine ⟨rfl, rfl, rfl, rfl, rfl, rfl, ?_, id, _, rfl, by simp [Quiet]⟩
    show cfg (E.readConfig w.s (latestFile w.c.name)).2 = cfg w.s
    rw [hR.name]; exact hE.readConfig_keeps _
  unfold ClientLatest.step at h
  simp only [hpc] at h
  cases hrc : (readConfig E w (latestFile w.c.name)).1 with
  | none =>
    rw [hrc] at hans hL
    simp only [Option.isSome_none, Bool.false_eq_true, if_false] at hans
    subst hans
    simp at h; subst h
    exact coupled_done_err _ .config hR hO hfr rfl (by intro h; cases h) hL
  | some v =>
    rw [hrc] at hans hL
    simp only [Option.isSome_some, if_true] at hans
    subst hans
    simp at h; subst h
    have hv : v = cfg w.s := by
      have := hE.readConfig_val w.s v
      rw [← hR.name] at this
      exact this hrc
    subst hv
    refine ⟨relG_of_fr hR hfr rfl rfl rfl, ?_, obs_quiet hO hfr.trace rfl rfl⟩
    simp only [ClientLatest.upd_same, LocOK, hR.config, unB_optB, hf']
    exact ⟨trivial, fun _ => by rw [hfr.cfg], hL⟩

theorem step_readLatestMsg {w : World σ H} {s s' : MSt H} {r : ClientLatest.Res}
    (hC : Coupled P E cl name cfg vs t msg0 target tr0 bw bs w s) (hpc : (s.th t).pc = .readLatestMsg)
    (h : ClientLatest.step MP cl presented priv s t r = some s') :
    Coupled P E cl name cfg vs t msg0 target tr0 bw bs w s' := by
  obtain ⟨hR, hL, hO⟩ := hC
  simp only [LocOK, hpc] at hL
  unfold ClientLatest.step at h
  simp only [hpc] at h
  simp at h; subst h
  refine ⟨⟨hR.name, hR.verifiers, hR.nosec, hR.latest, hR.latestMsg, hR.config⟩, ?_, obs_same hO rfl rfl⟩
  simp only [ClientLatest.upd_same, LocOK]
  exact ⟨hL.1, hR.latestMsg, hL.2⟩

theorem step_writeConfig {w : World σ H} {s s' : MSt H} {r : ClientLatest.Res} (hE : CfgCell E name cfg)
    (hC : Coupled P E cl name cfg vs t msg0 target tr0 bw bs w s) (hpc : (s.th t).pc = .writeConfig)
    (hr : r = answer P E w (s.th t))
    (h : ClientLatest.step MP cl presented priv s t r = some s') :
    Coupled P E cl name cfg vs t msg0 target tr0 bw bs (wstep P E w (s.th t)) s' := by
  obtain ⟨hR, hL, hO⟩ := hC
  simp only [LocOK, hpc] at hL
  obtain ⟨hc, hlm, ht⟩ := hL
  have hucfg : unB (s.th t).cfg = cfg w.s := by rw [hc, unB_optB]
  have hulm : unB (s.th t).lm = w.c.latestMsg := by rw [hlm, unB_optB]
  have hws : wstep P E w (s.th t) = (writeConfig E w (latestFile w.c.name) (cfg w.s) w.c.latestMsg).2 := by
    simp only [wstep, hpc, hucfg, hulm]
  rw [hws]
  have hans : r = match (writeConfig E w (latestFile w.c.name) (cfg w.s) w.c.latestMsg).1 with
      | .error => .error
      | _ => .ok := by
    rw [hr]; simp only [answer, hpc, hucfg, hulm]
    cases (writeConfig E w (latestFile w.c.name) (cfg w.s) w.c.latestMsg).1 <;> rfl
  simp only [afterMemSeq, bne_self_eq_false, Bool.false_eq_true, if_false, hucfg] at ht
  have hcfgeq : s.config = (s.th t).cfg := by rw [hR.config, hc]
  unfold ClientLatest.step at h
  simp only [hpc] at h
  -- the three answers of WriteConfig
  have hwc : (writeConfig E w (latestFile w.c.name) (cfg w.s) w.c.latestMsg) =
      ((E.writeConfig w.s (latestFile name) (cfg w.s) w.c.latestMsg).1,
        { w with s := (E.writeConfig w.s (latestFile name) (cfg w.s) w.c.latestMsg).2,
                 tr := w.tr ++ [.writeConfig (latestFile name) (cfg w.s) w.c.latestMsg
                   (E.writeConfig w.s (latestFile name) (cfg w.s) w.c.latestMsg).1] }) := by
    simp only [writeConfig, hR.name]
  rw [hwc] at hans ht ⊢
  simp only at hans ht ⊢
  cases hres : (E.writeConfig w.s (latestFile name) (cfg w.s) w.c.latestMsg).1 with
  | conflict => exact absurd rfl (hE.write_conflict _ _ _ hres)
  | error =>
    rw [hres] at hans ht
    simp only at hans ht
    subst hans
    simp at h; subst h
    refine ⟨⟨hR.name, hR.verifiers, hR.nosec, hR.latest, hR.latestMsg, ?_⟩, ?_, ?_⟩
    · show s.config = optB (cfg (E.writeConfig w.s (latestFile name) (cfg w.s) w.c.latestMsg).2)
      rw [hE.write_error _ _ _ hres]; exact hR.config
    · simp only [ClientLatest.upd_same, LocOK]
      subst ht
      exact ⟨rfl, rfl⟩
    · obtain ⟨ext, e1, e2, ns, e3, e4⟩ := hO
      refine ⟨ext ++ [.writeConfig (latestFile name) (cfg w.s) w.c.latestMsg .error], ?_, ?_, ns, e3, ?_⟩
      · show w.tr ++ _ = _
        rw [e1, List.append_assoc]
      · show s.writes = _
        rw [e2, trWrites_append]; simp [trWrites]
      · rw [trSecs_append]; simpa [trSecs] using e4
  | ok =>
    rw [hres] at hans ht
    simp only at hans ht
    subst hans
    simp only [hcfgeq, if_true] at h
    simp at h; subst h
    obtain ⟨_, hnew⟩ := hE.write_ok _ _ _ hres
    refine ⟨⟨hR.name, hR.verifiers, hR.nosec, hR.latest, hR.latestMsg, ?_⟩, ?_, ?_⟩
    · show (s.th t).lm = optB (cfg (E.writeConfig w.s (latestFile name) (cfg w.s) w.c.latestMsg).2)
      rw [hnew]; exact hlm
    · simp only [ClientLatest.upd_same, LocOK]
      subst ht
      exact ⟨rfl, rfl⟩
    · obtain ⟨ext, e1, e2, ns, e3, e4⟩ := hO
      refine ⟨ext ++ [.writeConfig (latestFile name) (cfg w.s) w.c.latestMsg .ok], ?_, ?_, ns, e3, ?_⟩
      · show w.tr ++ _ = _
        rw [e1, List.append_assoc]
      · show ((s.th t).cfg, (s.th t).lm) :: s.writes = _
        rw [e2, trWrites_append, hc, hlm]; simp [trWrites]
      · rw [trSecs_append]; simpa [trSecs] using e4

end
end ModVerif.ClientRefine
