/-
  C20 `lax_ignores_unknown` towards input bytes: from the statement lists of the two parses to the typed
  values returned by ParseLax (no fixer).
-/
import ModVerif.Proofs.ModfileC20AppendVal
import ModVerif.Proofs.ModfileC20AppendLex
namespace ModVerif.Proofs.ModfileC20Append
open ModVerif ModVerif.Modfile ModVerif.Proofs.ModfileC20

theorem parseToFile_insert (name x x' : Bytes) (t t' : FileSyntax) (A B I : List Expr) (s1 s2 : Sh)
    (hx : parse name x = .ok t) (hx' : parse name x' = .ok t')
    (ht : t.stmts = A ++ B.map (shE s1)) (ht' : t'.stmts = A ++ I ++ B.map (shE s2))
    (hI : ∀ y ∈ I, laxIgnored y = true) (f : File) (hf : parseToFile name x none false = .ok f) :
    ∃ f', parseToFile name x' none false = .ok f' ∧ vals f' = vals f := by
  rw [parseToFile_eq, hx] at hf
  rw [parseToFile_eq, hx']
  have hfr : ∀ st : AddState, fixRetract st none = st := fun _ => rfl
  simp only [hfr] at hf ⊢
  have hV := lax_vals_insert none A B I s1 s2 { file := { syn := t } } { file := { syn := t' } } ⟨rfl, rfl⟩ hI
  rw [← ht, ← ht'] at hV
  obtain ⟨hv, he⟩ := hV
  have hemp : (mkSt t' (addStmts none false { file := { syn := t' } } t'.stmts)).errsRev.isEmpty =
      (mkSt t (addStmts none false { file := { syn := t } } t.stmts)).errsRev.isEmpty := by
    simp only [mkSt]
    have := congrArg List.length he
    simp only [List.length_map] at this
    cases h1 : (addStmts none false { file := { syn := t } } t.stmts).1.errsRev <;>
      cases h2 : (addStmts none false { file := { syn := t' } } t'.stmts).1.errsRev <;> simp [h1, h2] at this ⊢
  split at hf
  · rename_i hE
    rw [← hemp] at hE
    rw [if_pos hE]
    cases hf
    exact ⟨_, rfl, by simpa [mkSt, vals] using hv.symm⟩
  · cases hf

end ModVerif.Proofs.ModfileC20Append
