/-
  C20 `pos_consistent_exact`, parser half: `Line.end` is EXACTLY the end of the line's last token.

  `EndsAt` (Proofs/ModfileC20Lex.lean) allows the LF / CRLF that `endToken` strips from a comment token between the
  token text and the end position.  That slack is real only for a WHOLE-LINE comment token (`TokKind.comment`) inside a
  line.  Here: no token of a line is a comment token of either kind, hence `TokFacts.exactEnd` applies to each of them.

  * lexer level (already there, for every input): the classification invariant `ModfileFmtEmits.G` of the C02 proofs
    (`readToken_class` / `readToken_eol`, Proofs/ModfileFmtClass.lean): after a line token the consumed part of the
    source line is "used" and the next token is not a whole-line comment token; after an end-of-line token or a
    whole-line comment the lexer is at the beginning of a line (or of nothing) and the next token is not an end-of-line
    comment.  `reach_G`: every state the parser can be in (`Reach`) satisfies it.  The invariant is stated on the
    consumed bytes of the CURRENT source line, decoded in the context of what follows, so a quoted string holding an
    escaped newline (`"a\` LF `b"`, accepted by `readString`) and ill-formed UTF-8 at the end of an identifier are
    covered (the closing quote, resp. the first rune of the identifier, is what makes the line "used").
  * parser level (this file): `parseLineLoop` / `parseStmtLoop` are entered with a pending token that is not a
    whole-line comment and keep it that way (`next_not_comment`); the first token of a statement is not an end-of-line
    comment because every statement starts after an end-of-line token (`next_not_eolComment`, carried through
    `parseFileLoop` and out of `parseLineBlockLoop`); a `(` in the middle of a line keeps the old `end` exactly as in
    read.go — the next token of that line overwrites it before the line can end (`… ∨ isEOL = false`, as in
    Proofs/ModfileC20Tree.lean).
  * comment assignment does not touch `token` / `end` of any line (`assignComments_endKeys`).
-/
import ModVerif.Proofs.ModfileC20Top
import ModVerif.Proofs.ModfileC20Stmts
import ModVerif.Proofs.ModfileFmtEmits
namespace ModVerif.Proofs.ModfileC20
open ModVerif ModVerif.Modfile ModVerif.Proofs.ModfileLex ModVerif.Proofs.ModfilePos

/-! ### lexer level: the classification invariant holds in every reachable state -/

theorem reach_G {data : Bytes} {i : Input} (h : Reach data i) : ModfileFmtEmits.G i := by
  induction h with
  | start h => exact (ModfileFmtEmits.G.init h).1
  | lex _ h ih => exact (ih.step h).1
  | setId n _ ih => exact ih.setId n

theorem isComment_false_of {k : TokKind} (he : k.isEOL = false) (hc : k ≠ .comment) : k.isComment = false := by
  cases k with
  | comment => exact absurd rfl hc
  | eolComment => cases he
  | _ => rfl

/-- after a token of a line the lexer never delivers a whole-line comment token -/
theorem next_not_comment {data : Bytes} {j i : Input} (hj : Reach data j) (he : j.token.kind.isEOL = false)
    (hc : j.token.kind ≠ .comment) (h : readToken j = .ok i) : i.token.kind ≠ .comment := by
  have hg := reach_G hj
  exact (hg.step h).2.1 ⟨_, ModfileFmtEmits.lexOK_tok hg.lok he hc⟩

/-- after an end-of-line token or a whole-line comment the lexer never delivers an end-of-line comment -/
theorem next_not_eolComment {data : Bytes} {j i : Input} (hj : Reach data j)
    (he : j.token.kind.isEOL = true ∨ j.token.kind = .comment) (h : readToken j = .ok i) :
    i.token.kind ≠ .eolComment := by
  have hg := reach_G hj
  refine (hg.step h).2.2 ?_
  rcases he with he | he
  · exact ModfileFmtEmits.isEOL_eolKind he
  · exact Or.inr (Or.inr (Or.inl he))

theorem first_not_eolComment {data : Bytes} {i : Input} (h : readToken (newInput data) = .ok i) :
    i.token.kind ≠ .eolComment :=
  (ModfileFmtEmits.G.init h).2

/-! ### parser level -/

/-- the input before `Line.end` ends with the line's last token — exactly, no line end in between -/
def LineEndX (data : Bytes) (l : Line) : Prop :=
  ∃ t, l.token.getLast? = some t ∧ t <:+ data.take l.«end».byte

def ExprEndX (data : Bytes) : Expr → Prop
  | .line l => LineEndX data l
  | .lineBlock b => ∀ l ∈ b.lines, LineEndX data l
  | _ => True

theorem lineEndX_setComments {data : Bytes} {l : Line} (c : Comments) (h : LineEndX data l) :
    LineEndX data { l with comments := c } := h

theorem parseLineLoop_endx {data : Bytes} : ∀ (fuel : Nat) (i : Input) (s e : Position) (t : Bytes) (ts : List Bytes)
    (l : Line) (i' : Input), Reach data i → i.token.kind ≠ .comment → t <:+ data.take e.byte →
    parseLineLoop fuel i s e (t :: ts) = .ok (l, i') → LineEndX data l := by
  intro fuel
  induction fuel with
  | zero => intro i s e t ts l i' _ _ _ h; simp [parseLineLoop] at h
  | succ n ih =>
    intro i s e t ts l i' hr hnc hend h
    unfold parseLineLoop at h
    rcases lex_res2 hr with ⟨i1, h1, hr1, hrt1⟩ | ⟨e1, h1⟩
    · simp only [h1, bind, Except.bind] at h
      split at h
      · simp only [Except.ok.injEq, Prod.mk.injEq] at h
        rw [← h.1]
        exact ⟨t, by simp, hend⟩
      · rename_i hne
        have hne : i.token.kind.isEOL = false := by simpa using hne
        exact ih _ _ _ _ _ _ _ hr1 (next_not_comment hr hne hnc hrt1)
          ((reach_facts hr).exactEnd (isComment_false_of hne hnc)) h
    · simp [h1, bind, Except.bind] at h

theorem parseLine_endx {data : Bytes} {fuel : Nat} {i : Input} {l : Line} {i' : Input} (hr : Reach data i)
    (hnc : i.token.kind ≠ .comment) (h : parseLine fuel i = .ok (l, i')) : LineEndX data l := by
  unfold parseLine at h
  rcases lex_res2 hr with ⟨i1, h1, hr1, hrt1⟩ | ⟨e1, h1⟩
  · simp only [h1, bind, Except.bind] at h
    split at h
    · cases h
    · rename_i hne
      have hne : i.token.kind.isEOL = false := by simpa using hne
      exact parseLineLoop_endx _ _ _ _ _ [] _ _ hr1 (next_not_comment hr hne hnc hrt1)
        ((reach_facts hr).exactEnd (isComment_false_of hne hnc)) h
  · simp [h1, bind, Except.bind] at h

/-- the lines of a block; the block ends with an end-of-line token, so no end-of-line comment is pending afterwards -/
theorem parseLineBlockLoop_endx {data : Bytes} : ∀ (fuel : Nat) (i : Input) (x : LineBlock) (ls : List Line)
    (cs : List Comment) (b : LineBlock) (i' : Input), Reach data i → (∀ l ∈ ls, LineEndX data l) →
    parseLineBlockLoop fuel i x ls cs = .ok (b, i') →
    (∀ l ∈ b.lines, LineEndX data l) ∧ Reach data i' ∧ i'.token.kind ≠ .eolComment := by
  intro fuel
  induction fuel with
  | zero => intro i x ls cs b i' _ _ h; simp [parseLineBlockLoop] at h
  | succ n ih =>
    intro i x ls cs b i' hr hls h
    unfold parseLineBlockLoop at h
    split at h
    · rcases lex_res2 hr with ⟨i1, h1, hr1, _⟩ | ⟨e1, h1⟩
      · simp only [h1, bind, Except.bind] at h; exact ih _ _ _ _ _ _ hr1 hls h
      · simp [h1, bind, Except.bind] at h
    · rcases lex_res2 hr with ⟨i1, h1, hr1, _⟩ | ⟨e1, h1⟩
      · simp only [h1, bind, Except.bind] at h; exact ih _ _ _ _ _ _ hr1 hls h
      · simp [h1, bind, Except.bind] at h
    · rcases lex_res2 hr with ⟨i1, h1, hr1, _⟩ | ⟨e1, h1⟩
      · simp only [h1, bind, Except.bind] at h; exact ih _ _ _ _ _ _ hr1 hls h
      · simp [h1, bind, Except.bind] at h
    · cases h
    · rcases lex_res2 hr with ⟨i1, h1, hr1, _⟩ | ⟨e1, h1⟩
      · simp only [h1, bind, Except.bind] at h
        split at h
        · cases h
        · rename_i heol
          rcases lex_res2 hr1 with ⟨i2, h2, hr2, hrt2⟩ | ⟨e2, h2⟩
          · simp only [h2, Except.ok.injEq, Prod.mk.injEq] at h
            rw [← h.1, ← h.2]
            refine ⟨?_, hr2, next_not_eolComment hr1 (Or.inl ?_) hrt2⟩
            · intro l hl
              exact hls l (List.mem_reverse.mp hl)
            · simpa [Input.peek] using heol
          · simp [h2] at h
      · simp [h1, bind, Except.bind] at h
    · rename_i hk1 hk2 hk3 hk4 hk5
      have hnc : i.token.kind ≠ .comment := fun hk => hk3 hk
      cases hp : parseLine (n + 1) i with
      | error e => simp [hp, bind, Except.bind] at h
      | ok v =>
        simp only [hp, bind, Except.bind] at h
        have hpl : parseLine (n + 1) i = .ok (v.1, v.2) := by rw [hp]
        refine ih _ _ _ _ _ _ (parseLine_reach hr hpl) ?_ h
        intro l hl
        simp only [List.mem_cons] at hl
        rcases hl with rfl | hl
        · exact lineEndX_setComments _ (parseLine_endx hr hnc hpl)
        · exact hls l hl

/-- a statement: its line, or the lines of its block; no end-of-line comment is pending afterwards -/
theorem parseStmtLoop_endx {data : Bytes} : ∀ (fuel : Nat) (i : Input) (s e : Position) (t : Bytes) (ts : List Bytes)
    (x : Expr) (i' : Input), Reach data i → i.token.kind ≠ .comment →
    (t <:+ data.take e.byte ∨ i.token.kind.isEOL = false) →
    parseStmtLoop fuel i s e (t :: ts) = .ok (x, i') →
    ExprEndX data x ∧ Reach data i' ∧ i'.token.kind ≠ .eolComment := by
  intro fuel
  induction fuel with
  | zero => intro i s e t ts x i' _ _ _ h; simp [parseStmtLoop] at h
  | succ n ih =>
    intro i s e t ts x i' hr hnc hend h
    unfold parseStmtLoop at h
    rcases lex_res2 hr with ⟨i1, h1, hr1, hrt1⟩ | ⟨e1, h1⟩
    · simp only [h1, bind, Except.bind] at h
      split at h
      · rename_i heol
        simp only [Except.ok.injEq, Prod.mk.injEq] at h
        rw [← h.1, ← h.2]
        have hne1 : i1.token.kind ≠ .eolComment := next_not_eolComment hr (Or.inl heol) hrt1
        refine ⟨?_, Reach.setId _ hr1, hne1⟩
        rcases hend with hend | hne
        · exact ⟨t, by simp, hend⟩
        · rw [hne] at heol; cases heol
      · rename_i hneol
        have hneol : i.token.kind.isEOL = false := by simpa using hneol
        have hnext : i1.token.kind ≠ .comment := next_not_comment hr hneol hnc hrt1
        split at h
        · rename_i hk
          have hk : i.token.kind = .punct 40 := by simpa using hk
          unfold Input.peek at h
          split at h
          · -- start of block
            generalize hpb : parseLineBlock (n + 1) i1 s (t :: ts).reverse i.token = res at h
            cases res with
            | error e => cases h
            | ok v =>
              simp only [Except.ok.injEq, Prod.mk.injEq] at h
              unfold parseLineBlock at hpb
              obtain ⟨hl, hrv, hne⟩ := parseLineBlockLoop_endx _ _ _ _ _ _ _ hr1 (by intro l hl; cases hl)
                (show _ = Except.ok (v.1, v.2) from hpb)
              rw [← h.1, ← h.2]
              exact ⟨hl, hrv, hne⟩
          · split at h
            · rename_i hnext41
              have hnext41 : i1.token.kind = .punct 41 := by simpa using hnext41
              rcases lex_res2 hr1 with ⟨i2, h2, hr2, hrt2⟩ | ⟨e2, h2⟩
              · simp only [h2] at h
                split at h
                · rename_i heol2
                  rcases lex_res2 hr2 with ⟨i3, h3, hr3, hrt3⟩ | ⟨e3, h3⟩
                  · simp only [h3, Except.ok.injEq, Prod.mk.injEq] at h
                    rw [← h.1, ← h.2]
                    refine ⟨?_, hr3, next_not_eolComment hr2 (Or.inl ?_) hrt3⟩
                    · intro l hl; cases hl
                    · simpa [Input.peek] using heol2
                  · simp [h3] at h
                · rename_i hne2
                  refine ih i2 s e _ _ _ _ hr2 ?_ (Or.inr ?_) h
                  · exact next_not_comment hr1 (by rw [hnext41]; rfl) (by rw [hnext41]; intro hh; cases hh) hrt2
                  · simpa [Input.peek] using hne2
              · simp [h2] at h
            · rename_i hne1 _
              exact ih i1 s e _ _ _ _ hr1 hnext (Or.inr (by simpa using hne1)) h
        · exact ih i1 s _ _ _ _ _ hr1 hnext (Or.inl ((reach_facts hr).exactEnd (isComment_false_of hneol hnc))) h
    · simp [h1, bind, Except.bind] at h

theorem parseStmt_endx {data : Bytes} {fuel : Nat} {i : Input} {x : Expr} {i' : Input} (hr : Reach data i)
    (hneol : i.token.kind.isEOL = false) (hnc : i.token.kind ≠ .comment) (h : parseStmt fuel i = .ok (x, i')) :
    ExprEndX data x ∧ Reach data i' ∧ i'.token.kind ≠ .eolComment := by
  unfold parseStmt at h
  rcases lex_res2 hr with ⟨i1, h1, hr1, hrt1⟩ | ⟨e1, h1⟩
  · simp only [h1, bind, Except.bind] at h
    exact parseStmtLoop_endx fuel i1 _ _ _ [] _ _ hr1 (next_not_comment hr hneol hnc hrt1)
      (Or.inl ((reach_facts hr).exactEnd (isComment_false_of hneol hnc))) h
  · simp [h1, bind, Except.bind] at h

theorem exprEndX_setComments {data : Bytes} {x : Expr} (c : Comments) (h : ExprEndX data x) :
    ExprEndX data (x.setComments c) := by
  cases x <;> first | exact h | trivial

theorem parseFileLoop_endx {data : Bytes} : ∀ (fuel : Nat) (i : Input) (stmtsRev : List Expr) (cb : Option CommentBlock)
    (stmts : List Expr) (i' : Input),
    Reach data i → i.token.kind ≠ .eolComment → (∀ x ∈ stmtsRev, ExprEndX data x) →
    parseFileLoop fuel i stmtsRev cb = .ok (stmts, i') → ∀ x ∈ stmts, ExprEndX data x := by
  intro fuel
  induction fuel with
  | zero => intro i _ _ _ _ _ _ _ h; simp [parseFileLoop] at h
  | succ n ih =>
    intro i stmtsRev cb stmts i' hr hne hst h
    have hcons : ∀ (x : Expr), ExprEndX data x → ∀ y ∈ x :: stmtsRev, ExprEndX data y := by
      intro x hx y hy
      simp only [List.mem_cons] at hy
      rcases hy with rfl | hy
      · exact hx
      · exact hst y hy
    unfold parseFileLoop at h
    split at h
    · rename_i hk
      rcases lex_res2 hr with ⟨i1, h1, hr1, hrt1⟩ | ⟨e1, h1⟩
      · simp only [h1, bind, Except.bind] at h
        have hs1 : i1.token.kind ≠ .eolComment := next_not_eolComment hr (Or.inl (by
          have : i.token.kind = .punct 10 := hk
          rw [this]; rfl)) hrt1
        split at h
        · exact ih i1 _ none _ _ hr1 hs1 (hcons (.commentBlock _) trivial) h
        · exact ih i1 _ none _ _ hr1 hs1 hst h
      · simp [h1, bind, Except.bind] at h
    · rename_i hk
      rcases lex_res2 hr with ⟨i1, h1, hr1, hrt1⟩ | ⟨e1, h1⟩
      · simp only [h1, bind, Except.bind] at h
        have hs1 : i1.token.kind ≠ .eolComment := next_not_eolComment hr (Or.inr hk) hrt1
        exact ih i1 _ _ _ _ hr1 hs1 hst h
      · simp [h1, bind, Except.bind] at h
    · split at h
      · simp only [Except.ok.injEq, Prod.mk.injEq] at h
        intro x hx
        rw [← h.1] at hx
        exact hcons (.commentBlock _) trivial x (List.mem_reverse.mp hx)
      · simp only [Except.ok.injEq, Prod.mk.injEq] at h
        intro x hx
        rw [← h.1] at hx
        exact hst x (List.mem_reverse.mp hx)
    · rename_i h1 h2 h3
      have hneol : i.token.kind.isEOL = false := by
        have e1 : i.token.kind ≠ .punct 10 := fun hk => h1 hk
        have e3 : i.token.kind ≠ .eof := fun hk => h3 hk
        cases hk : i.token.kind with
        | eof => exact absurd hk e3
        | eolComment => exact absurd hk hne
        | punct c =>
          cases hc : (TokKind.punct c).isEOL with
          | false => rfl
          | true =>
            have : c = 10 := by simpa [TokKind.isEOL] using hc
            subst this
            exact absurd hk e1
        | _ => rfl
      have hnc : i.token.kind ≠ .comment := fun hk => h2 hk
      cases hps : parseStmt (n + 1) i with
      | error e => simp [hps, bind, Except.bind] at h
      | ok v =>
        have hs := parseStmt_endx hr hneol hnc (show parseStmt (n + 1) i = .ok (v.1, v.2) by rw [hps])
        simp only [hps, bind, Except.bind] at h
        split at h
        · exact ih v.2 _ none _ _ hs.2.1 hs.2.2 (hcons _ (exprEndX_setComments _ hs.1)) h
        · exact ih v.2 _ none _ _ hs.2.1 hs.2.2 (hcons _ hs.1) h

theorem parseFile_endx {data : Bytes} {stmts : List Expr} {i' : Input} (h : parseFile data = .ok (stmts, i')) :
    ∀ x ∈ stmts, ExprEndX data x := by
  unfold parseFile at h
  cases hr : readToken (newInput data) with
  | error e => simp [hr, bind, Except.bind] at h
  | ok i =>
    simp only [hr, bind, Except.bind] at h
    exact parseFileLoop_endx _ i [] none _ _ (Reach.start hr) (first_not_eolComment hr) (by intro x hx; cases hx) h

/-! ### comment assignment keeps `token` and `end` of every line -/

/-- what comment assignment never changes of a line (top-level or in a block) -/
def endKey (l : Line) : List Bytes × Position := (l.token, l.«end»)

theorem preLines_endKeys : ∀ (ls : List Line) (line : List Comment),
    (preLines ls line).1.map endKey = ls.map endKey := by
  intro ls
  induction ls with
  | nil => intro line; rfl
  | cons l rest ih =>
    intro line
    unfold preLines
    simp only [List.map_cons, ih]
    rfl

theorem postLinesRev_endKeys : ∀ (ls : List Line) (suf : List Comment),
    (postLinesRev ls suf).1.map endKey = ls.map endKey := by
  intro ls
  induction ls with
  | nil => intro line; rfl
  | cons l rest ih =>
    intro line
    unfold postLinesRev
    simp only [List.map_cons, ih]
    rfl

theorem preStmt_endKeys (s : Expr) (line : List Comment) :
    (linesOf [(preStmt s line).1]).map endKey = (linesOf [s]).map endKey := by
  cases s with
  | lineBlock b =>
    unfold preStmt
    simp only [linesOf_block, linesOf_nil, List.append_nil, preLines_endKeys]
  | line x => simp [preStmt, Expr.setComments, endKey]
  | commentBlock x => simp [preStmt, Expr.setComments]
  | lparen x => simp [preStmt, Expr.setComments]
  | rparen x => simp [preStmt, Expr.setComments]

theorem postStmt_endKeys (s : Expr) (suf : List Comment) :
    (linesOf [(postStmt s suf).1]).map endKey = (linesOf [s]).map endKey := by
  cases s with
  | lineBlock b =>
    unfold postStmt
    simp only [linesOf_block, linesOf_nil, List.append_nil, List.map_reverse, postLinesRev_endKeys,
      List.reverse_reverse]
  | line x => simp [postStmt, Expr.setComments, endKey]
  | commentBlock x => simp [postStmt, Expr.setComments]
  | lparen x => simp [postStmt, Expr.setComments]
  | rparen x => simp [postStmt, Expr.setComments]

/-- the keys of the lines of each statement -/
def endKeysL (xs : List Expr) : List (List (List Bytes × Position)) := xs.map fun x => (linesOf [x]).map endKey

theorem endKeys_eq_flatten (xs : List Expr) : (linesOf xs).map endKey = (endKeysL xs).flatten := by
  induction xs with
  | nil => rfl
  | cons x rest ih =>
    simp only [endKeysL, List.map_cons, List.flatten_cons] at ih ⊢
    rw [← ih]
    cases x <;> simp

theorem preStmts_endKeysL : ∀ (ss : List Expr) (line : List Comment), endKeysL (preStmts ss line).1 = endKeysL ss := by
  intro ss
  induction ss with
  | nil => intro line; rfl
  | cons s rest ih =>
    intro line
    unfold preStmts
    simp only [endKeysL, List.map_cons] at ih ⊢
    rw [ih, preStmt_endKeys]

theorem postStmtsRev_endKeysL : ∀ (ss : List Expr) (suf : List Comment),
    endKeysL (postStmtsRev ss suf).1 = endKeysL ss := by
  intro ss
  induction ss with
  | nil => intro line; rfl
  | cons s rest ih =>
    intro suf
    unfold postStmtsRev
    simp only [endKeysL, List.map_cons] at ih ⊢
    rw [ih, postStmt_endKeys]

theorem assignComments_endKeys (f : FileSyntax) (cs : List Comment) :
    (linesOf (assignComments f cs).stmts).map endKey = (linesOf f.stmts).map endKey := by
  rw [endKeys_eq_flatten, endKeys_eq_flatten]
  congr 1
  unfold assignComments
  simp only
  have hrev : ∀ xs : List Expr, endKeysL xs.reverse = (endKeysL xs).reverse := fun xs => by simp [endKeysL]
  rw [hrev, postStmtsRev_endKeysL, hrev, List.reverse_reverse, preStmts_endKeysL]

theorem linesOf_endx {data : Bytes} : ∀ (xs : List Expr), (∀ x ∈ xs, ExprEndX data x) →
    ∀ l ∈ linesOf xs, LineEndX data l := by
  intro xs
  induction xs with
  | nil => intro _ l hl; simp at hl
  | cons x rest ih =>
    intro h l hl
    have hx := h x (by simp)
    have hrest := ih (fun y hy => h y (List.mem_cons_of_mem _ hy))
    cases x with
    | line x =>
      simp only [linesOf_line, List.mem_cons] at hl
      rcases hl with rfl | hl
      · exact hx
      · exact hrest l hl
    | lineBlock b =>
      simp only [linesOf_block, List.mem_append] at hl
      rcases hl with hl | hl
      · exact hx l hl
      · exact hrest l hl
    | commentBlock c => simp only [linesOf_commentBlock] at hl; exact hrest l hl
    | lparen c => simp only [linesOf_lparen] at hl; exact hrest l hl
    | rparen c => simp only [linesOf_rparen] at hl; exact hrest l hl

/-- ★ every line of the tree `parse` returns — top-level or inside a block — ends exactly where its last token ends -/
theorem parse_endx {name data : Bytes} {t : FileSyntax} (h : parse name data = .ok t) :
    ∀ l ∈ t.allLines, LineEndX data l := by
  unfold parse at h
  cases hp : parseFile data with
  | error e => simp [hp, bind, Except.bind] at h
  | ok v =>
    simp only [hp, bind, Except.bind, Except.ok.injEq] at h
    subst h
    intro l hl
    rw [allLines_eq] at hl
    have hc := assignComments_endKeys { name := name, stmts := v.1 } v.2.commentsRev.reverse
    have hm : endKey l ∈ (linesOf v.1).map endKey := by
      rw [← hc]; exact List.mem_map_of_mem hl
    obtain ⟨l0, hl0, heq⟩ := List.mem_map.mp hm
    have h0 : LineEndX data l0 :=
      linesOf_endx v.1 (parseFile_endx (show parseFile data = .ok (v.1, v.2) by rw [hp])) l0 hl0
    simp only [endKey, Prod.mk.injEq] at heq
    obtain ⟨tk, htk, hsuf⟩ := h0
    exact ⟨tk, by rw [← heq.1]; exact htk, by rw [← heq.2]; exact hsuf⟩

/-! ### the exact form of `pos_consistent` -/

/-- a consistent position before which the input ends with `text` — exactly -/
def EndsExactly (data : Bytes) (p : Position) (text : Bytes) : Prop :=
  PosOK data p ∧ text <:+ data.take p.byte

theorem EndsExactly.endsAt {data : Bytes} {p : Position} {text : Bytes} (h : EndsExactly data p text) :
    EndsAt data p text :=
  ⟨h.1, text, Or.inl rfl, h.2⟩

theorem fileOK_lines {data : Bytes} : ∀ (xs : List Expr), (∀ x ∈ xs, ExprOK data x) →
    ∀ l ∈ linesOf xs, LineOK data l := by
  intro xs
  induction xs with
  | nil => intro _ l hl; simp at hl
  | cons x rest ih =>
    intro h l hl
    have hx := h x (by simp)
    have hrest := ih (fun y hy => h y (List.mem_cons_of_mem _ hy))
    cases x with
    | line x =>
      simp only [linesOf_line, List.mem_cons] at hl
      rcases hl with rfl | hl
      · exact hx
      · exact hrest l hl
    | lineBlock b =>
      simp only [linesOf_block, List.mem_append] at hl
      rcases hl with hl | hl
      · exact hx.lines l hl
      · exact hrest l hl
    | commentBlock c => simp only [linesOf_commentBlock] at hl; exact hrest l hl
    | lparen c => exact hx.elim
    | rparen c => exact hx.elim

/-- `pos_consistent` with `Line.end` characterised exactly -/
theorem parse_pos_consistent_exact (name data : Bytes) :
    match parse name data with
    | .ok t => FileOK data t ∧
        ∀ l ∈ t.allLines, ∃ tok, l.token.getLast? = some tok ∧ EndsExactly data l.«end» tok
    | .error e => PosOK data e.pos := by
  have h := parse_pos_consistent name data
  cases hp : parse name data with
  | error e => rw [hp] at h; exact h
  | ok t =>
    rw [hp] at h
    refine ⟨h, ?_⟩
    intro l hl
    obtain ⟨tk, htk, hsuf⟩ := parse_endx hp l hl
    have hlo : LineOK data l := fileOK_lines t.stmts h.stmts l (by rw [← allLines_eq]; exact hl)
    obtain ⟨_, _, hend⟩ := hlo.«end»
    exact ⟨tk, htk, hend.1, hsuf⟩

end ModVerif.Proofs.ModfileC20
