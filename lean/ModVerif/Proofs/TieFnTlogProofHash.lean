/-
  Tie helpers (3): `subTreeHash` of the generated code (two loops) computes the model's `Tlog.subTreeHash`
  (`numTreeF` + `foldRight`), including the panic cases ("bad math", too few hashes, empty interval).
-/
import ModVerif.Proofs.TieFnTlogProofMax
namespace ModVerif.Tie.FnTlogProof
open ModVerif ModVerif.GoRt ModVerif.GoRtList

/-- a model result as a result of generated code: every model error (the Go panic sites; the model's own fuel error is
    proved unreachable) is a panic. -/
def toM {α : Type} : Except Tlog.Err α → M α
  | .ok a => .ok a
  | .error _ => .error .panic

@[simp] theorem toM_ok {α : Type} (a : α) : toM (.ok a : Except Tlog.Err α) = .ok a := rfl
@[simp] theorem toM_error {α : Type} (e : Tlog.Err) : toM (.error e : Except Tlog.Err α) = .error .panic := rfl

/-- the number of maximal complete subtrees of `[lo, hi)` is at most `hi - lo` -/
theorem numTreeF_le : ∀ f lo hi c, Tlog.numTreeF f lo hi = .ok c → c ≤ hi - lo := by
  intro f
  induction f with
  | zero =>
    intro lo hi c h
    unfold Tlog.numTreeF at h
    split at h
    · cases h
    · cases h; omega
  | succ f ih =>
    intro lo hi c h
    unfold Tlog.numTreeF at h
    split at h
    · rename_i hlt
      have hkp := Tlog.maxpow2_fst_pos (hi - lo + 1)
      have hk := Tlog.maxpow2_lt (hi - lo + 1) (by omega)
      simp only [] at h
      split at h
      · cases h
      · cases hr : Tlog.numTreeF f (lo + (Tlog.maxpow2 (hi - lo + 1)).1) hi with
        | error e => rw [hr] at h; cases h
        | ok r =>
          rw [hr] at h
          have := ih _ _ _ hr
          simp only [bind, Except.bind, pure, Except.pure] at h
          cases h
          omega
    · cases h; omega

section
variable {H : Type} [DecidableEq H] [Inhabited H] (node : H → H → H)

/-- loop 1 of `subTreeHash` (count the maximal complete subtrees of `[lo, hi)`) -/
theorem subTreeHash_loop1_ok : ∀ (fuel f : Nat) (lo hi acc : Nat),
    hi < 2 ^ 63 → hi - lo + 1 < 2 ^ 63 → acc + (hi - lo) < 2 ^ 63 → hi - lo ≤ f → hi - lo + 1 ≤ fuel →
    Generated.Tlog.subTreeHash_loop1 node (hi : Int) fuel (acc : Int) (lo : Int) =
      match Tlog.numTreeF f lo hi with
      | .ok c => .ok (((acc + c : Nat) : Int), ((if lo < hi then hi else lo : Nat) : Int))
      | .error _ => .error .panic := by
  intro fuel
  induction fuel with
  | zero => intro f lo hi acc _ _ _ _ h; omega
  | succ fuel ih =>
    intro f lo hi acc h1 h2 h3 h4 h5
    unfold Generated.Tlog.subTreeHash_loop1
    by_cases hlt : lo < hi
    · obtain ⟨f, rfl⟩ : ∃ f', f = f' + 1 := ⟨f - 1, by omega⟩
      have e1 : decide ((lo : Int) < (hi : Int)) = true := by simp; omega
      simp only [e1, if_true]
      unfold Tlog.numTreeF
      simp only [hlt, if_true]
      rw [chk64_ok _ (by omega) (by omega)]
      simp only [ok_bind]
      rw [chk64_ok _ (by omega) (by omega)]
      simp only [ok_bind]
      have e : ((hi : Int) - (lo : Int) + 1) = ((hi - lo + 1 : Nat) : Int) := by omega
      rw [e, maxpow2_ok fuel _ (by omega) (Or.inr ⟨by omega, by omega⟩)]
      simp only [ok_bind, Int.toNat_natCast]
      have hk := Tlog.maxpow2_lt (hi - lo + 1) (by omega)
      have hkp := Tlog.maxpow2_fst_pos (hi - lo + 1)
      generalize (Tlog.maxpow2 (hi - lo + 1)).1 = k at *
      rw [chk64_ok _ (by omega) (by omega)]
      simp only [ok_bind]
      have e2 : ((k : Int) - 1) = ((k - 1 : Nat) : Int) := by omega
      rw [e2, band_natCast _ _ (by omega) (by omega)]
      have e3 : decide ((lo : Int) ≥ (hi : Int)) = false := by simp; omega
      have e4 : decide (lo ≥ hi) = false := by simp; omega
      simp only [e3, e4, Bool.or_false]
      by_cases hb : lo &&& (k - 1) = 0
      · have e5 : (!decide (((lo &&& (k - 1) : Nat) : Int) = 0)) = false := by simp; omega
        have e6 : (lo &&& (k - 1) != 0) = false := by simp [hb]
        simp only [e5, e6, Bool.false_eq_true, if_false]
        rw [chk64_ok _ (by omega) (by omega)]
        simp only [ok_bind]
        rw [chk64_ok _ (by omega) (by omega)]
        simp only [ok_bind]
        have := ih f (lo + k) hi (acc + 1) h1 (by omega) (by omega) (by omega) (by omega)
        rw [show ((acc : Int) + 1) = ((acc + 1 : Nat) : Int) by omega,
          show ((lo : Int) + (k : Int)) = ((lo + k : Nat) : Int) by omega, this]
        cases hr : Tlog.numTreeF f (lo + k) hi with
        | error e => rfl
        | ok c =>
          simp only [bind, Except.bind, pure, Except.pure]
          have : (if lo + k < hi then hi else lo + k) = hi := by split <;> omega
          rw [this]
          congr 2
          omega
      · have e5 : (!decide (((lo &&& (k - 1) : Nat) : Int) = 0)) = true := by simp; omega
        have e6 : (lo &&& (k - 1) != 0) = true := by simp [hb]
        simp only [e5, e6, if_true, throw_eq_error]
    · have e1 : decide ((lo : Int) < (hi : Int)) = false := by simp; omega
      have : Tlog.numTreeF f lo hi = .ok 0 := by
        cases f <;> simp [Tlog.numTreeF, hlt]
      simp only [e1, Bool.false_eq_true, if_false, this, pure_eq_ok, hlt, Nat.add_zero]

/-- loop 2 of `subTreeHash`: fold the first `j` hashes from the right onto `h` -/
theorem subTreeHash_loop2_ok (hashes : List H) : ∀ (j fuel : Nat) (h : H), j ≤ hashes.length → j < 2 ^ 63 → j + 1 ≤ fuel →
    Generated.Tlog.subTreeHash_loop2 node hashes fuel h ((j : Int) - 1) =
      .ok ((hashes.take j).reverse.foldl (fun h x => node x h) h, (-1 : Int)) := by
  intro j
  induction j with
  | zero =>
    intro fuel h _ _ hf
    obtain ⟨fuel, rfl⟩ : ∃ f', fuel = f' + 1 := ⟨fuel - 1, by omega⟩
    unfold Generated.Tlog.subTreeHash_loop2
    simp
  | succ j ih =>
    intro fuel h hj hr hf
    obtain ⟨fuel, rfl⟩ : ∃ f', fuel = f' + 1 := ⟨fuel - 1, by omega⟩
    unfold Generated.Tlog.subTreeHash_loop2
    have e1 : decide ((((j + 1 : Nat) : Int) - 1) ≥ 0) = true := decide_eq_true (by omega)
    have e2 : (((j + 1 : Nat) : Int) - 1) = (j : Int) := by omega
    simp only [e1, if_true]
    rw [e2, idxL_natCast _ _ (by omega)]
    simp only [ok_bind]
    rw [chk64_ok _ (by omega) (by omega)]
    simp only [ok_bind]
    rw [ih fuel _ (by omega) (by omega) (by omega)]
    rw [List.take_succ_eq_append_getElem (by omega)]
    simp only [List.reverse_append, List.reverse_cons, List.reverse_nil, List.nil_append, List.singleton_append,
      List.foldl_cons]

/-- `subTreeHash`, every `0 ≤ lo`, `hi < 2^63` with `hi - lo + 1 < 2^63` (the loop computes `hi - lo + 1`), every list
    of hashes; all panic cases included. -/
theorem subTreeHash_ok (fuel : Nat) (lo hi : Nat) (hashes : List H)
    (h1 : hi < 2 ^ 63) (h2 : hi - lo + 1 < 2 ^ 63) (hf : hi - lo + 1 ≤ fuel) :
    Generated.Tlog.subTreeHash node fuel (lo : Int) (hi : Int) hashes =
      toM (Tlog.subTreeHash node lo hi hashes) := by
  unfold Generated.Tlog.subTreeHash Tlog.subTreeHash
  simp only []
  have := subTreeHash_loop1_ok node fuel (hi - lo) lo hi 0 h1 h2 (by omega) (Nat.le_refl _) hf
  simp only [Int.natCast_zero] at this
  rw [this]
  have hne := Tlog.numTreeF_ne_fuel (hi - lo) lo hi (Nat.le_refl _)
  have hbound : ∀ c, Tlog.numTreeF (hi - lo) lo hi = .ok c → c ≤ hi - lo := numTreeF_le _ _ _
  cases hr : Tlog.numTreeF (hi - lo) lo hi with
  | error e => simp only [error_bind]; rfl
  | ok c =>
    have hc := hbound c hr
    simp only [ok_bind, Nat.zero_add]
    by_cases hl : hashes.length < c
    · have e1 : decide (len hashes < (c : Int)) = true := by rw [len_eq]; simp; omega
      simp only [e1, hl, if_true, throw_eq_error, toM_error]
    · have e1 : decide (len hashes < (c : Int)) = false := by rw [len_eq]; simp; omega
      simp only [e1, hl, Bool.false_eq_true, if_false]
      rw [chk64_ok _ (by omega) (by omega)]
      rw [ok_bind]
      cases c with
      | zero =>
        rw [idxL_out _ _ (by omega)]
        simp [Tlog.foldRight]
      | succ c =>
        have e2 : (((c + 1 : Nat) : Int) - 1) = (c : Int) := by omega
        have e3 : (((c + 1 : Nat) : Int) - 2) = (c : Int) - 1 := by omega
        rw [e2, idxL_natCast _ _ (by omega), ok_bind, e3, chk64_ok _ (by omega) (by omega), ok_bind]
        rw [subTreeHash_loop2_ok node hashes c fuel _ (by omega) (by omega) (by omega), ok_bind]
        rw [sliceFrom_natCast _ _ (by omega), ok_bind]
        have ht : (List.take (c + 1) hashes).reverse = hashes[c] :: (List.take c hashes).reverse := by
          rw [List.take_succ_eq_append_getElem (by omega)]; simp
        rw [ht]
        simp only [Tlog.foldRight, toM_ok, pure_eq_ok]

end
end ModVerif.Tie.FnTlogProof
