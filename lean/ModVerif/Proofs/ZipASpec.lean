/-
  C17: the documented classification rules of the file check as a specification (`ZipSpec.classify`),
  independent of the control flow of `checkFiles` (no error-path de-duplication, no two passes, the
  collision check over the list of parent directories instead of a fuel-bounded recursion).
  Definitions only extend the vocabulary of `Spec/ZipSpec.lean` (which is frozen); proofs about them are
  in `ZipAClassify.lean`.
-/
import ModVerif.Spec.ZipSpec
namespace ModVerif.ZipSpec
open ModVerif ModVerif.PathClean ModVerif.Zip

/-- where a file ends up, and why -/
inductive Class where
  | valid
  | omitted (r : Reason)
  | invalid (r : Reason)
  deriving DecidableEq, Repr

/-- a `go.mod` (in any case, in any directory) that cannot be examined: reported first -/
def goModUnreadable (f : FileInfo) : Bool := equalFoldGoMod (pathSplit f.path).2 && f.mode == .lstatErr

instance (files : List FileInfo) (d : Bytes) : Decidable (IsModuleDir files d) := by
  unfold IsModuleDir; infer_instance

/-- the path lies below a module root of the list (a proper directory prefix holds a regular go.mod) -/
def BelowModuleRoot (files : List FileInfo) (p : Bytes) : Prop := ∃ d ∈ dirPrefixes p, IsModuleDir files d

instance (files : List FileInfo) (p : Bytes) : Decidable (BelowModuleRoot files p) := by
  unfold BelowModuleRoot; infer_instance

/-- The rules that look at the file alone (and at the module roots of the whole list), in the documented
    order; `none` = the file goes on to the collision check. -/
def earlyRule (E : Env) (ge124 : Bool) (files : List FileInfo) (f : FileInfo) : Option Class :=
  if goModUnreadable f = true then some (.invalid .lstat)
  else if pathClean f.path ≠ f.path then some (.invalid .notClean)
  else if isAbs f.path = true then some (.invalid .notRelative)
  else if isVendoredPackage f.path ge124 = true then some (.omitted .vendored)
  else if BelowModuleRoot files f.path then some (.omitted .submoduleFile)
  else if f.path = hgArchivalName then some (.omitted .hgArchival)
  else if E.cfp f.path = false then some (.invalid .filePath)
  else if lowerAscii f.path = goModName ∧ f.path ≠ goModName then some (.invalid .goModCase)
  else if f.mode = .lstatErr then some (.invalid .lstat)
  else none

/-- registered paths, oldest first: `(path, isDir)` -/
abbrev Reg := List (Bytes × Bool)

/-- the parent directories of a path, nearest first: its proper prefixes that end before a slash -/
def parents (p : Bytes) : List Bytes := ((dirPrefixes p).map List.dropLast).reverse

/-- the registered path with the same case-folded form, if any -/
def Reg.lookup (toFold : Bytes → Bytes) (reg : Reg) (q : Bytes) : Option (Bytes × Bool) :=
  reg.find? (fun e => toFold e.1 == toFold q)

/-- the clash of `(q, d)` with what is registered: a different path with the same folded form; the
    same path once as a file and once as a directory; the same file twice. -/
def clash (toFold : Bytes → Bytes) (reg : Reg) (q : Bytes) (d : Bool) : Option Reason :=
  match reg.lookup toFold q with
  | none => none
  | some (q', d') =>
    if q ≠ q' then some .caseCollision
    else if d ≠ d' then some .fileAndDir
    else if d = false then some .multiple
    else none

def register (toFold : Bytes → Bytes) (reg : Reg) (q : Bytes) (d : Bool) : Reg :=
  if (reg.lookup toFold q).isSome then reg else reg ++ [(q, d)]

/-- check and register a list of paths in turn; stop at the first clash -/
def regChain (toFold : Bytes → Bytes) : Reg → List (Bytes × Bool) → Reg × Option Reason
  | reg, [] => (reg, none)
  | reg, (q, d) :: rest =>
    match clash toFold reg q d with
    | some r => (reg, some r)
    | none => regChain toFold (register toFold reg q d) rest

/-- the collision rule for one file: the path itself, then each parent directory, nearest first -/
def collide (toFold : Bytes → Bytes) (reg : Reg) (p : Bytes) (isDir : Bool) : Reg × Option Reason :=
  regChain toFold reg ((p, isDir) :: (parents p).map (fun q => (q, true)))

/-- the rules after the collision check -/
def lateRule (f : FileInfo) : Class :=
  if f.mode = .symlink then .omitted .symlink
  else if f.mode ≠ .regular then .omitted .notRegular
  else if f.path = goModName ∧ f.size > MaxGoMod then .invalid .goModSize
  else if f.path = licenseName ∧ f.size > MaxLICENSE then .invalid .licenseSize
  else .valid

/-- one file against the registry of the earlier files: the new registry and the class.  The file being
    checked is the one blamed for a collision, also when the clash is between one of its parent
    directories and an earlier file. -/
def classifyStep (E : Env) (ge124 : Bool) (files : List FileInfo) (reg : Reg) (f : FileInfo) : Reg × Class :=
  match earlyRule E ge124 files f with
  | some c => (reg, c)
  | none =>
    match collide E.toFold reg f.path (f.mode == .dir) with
    | (reg', some r) => (reg', .invalid r)
    | (reg', none) => (reg', lateRule f)

/-- what the files `pre` (a prefix of `files`) have registered -/
def registryAfter (E : Env) (ge124 : Bool) (files : List FileInfo) (pre : List FileInfo) : Reg :=
  pre.foldl (fun reg f => (classifyStep E ge124 files reg f).1) []

/-- The class of `f`, a file of `files` preceded by the files `pre`: a function of its path, mode and
    size, of the go version flag, of the module roots of `files`, and of the paths `pre` registered. -/
def classify (E : Env) (ge124 : Bool) (files pre : List FileInfo) (f : FileInfo) : Class :=
  (classifyStep E ge124 files (registryAfter E ge124 files pre) f).2

/-- all files of `l` with their classes, starting from the registry `reg` -/
def classifyFrom (E : Env) (ge124 : Bool) (files : List FileInfo) : Reg → List FileInfo → List (FileInfo × Class)
  | _, [] => []
  | reg, f :: t =>
    (f, (classifyStep E ge124 files reg f).2) :: classifyFrom E ge124 files (classifyStep E ge124 files reg f).1 t

def classifyAll (E : Env) (ge124 : Bool) (files : List FileInfo) : List (FileInfo × Class) :=
  classifyFrom E ge124 files [] files

/-- the classes of the files that reach the size rules (their size counts towards the total) -/
def Class.sized : Class → Bool
  | .valid => true
  | .invalid .goModSize => true
  | .invalid .licenseSize => true
  | _ => false

/-- sizes of the files that reach the size rules, in order -/
def sizedSizes (cl : List (FileInfo × Class)) : List Int := (cl.filter (fun x => x.2.sized)).map (fun x => x.1.size)

end ModVerif.ZipSpec
