/-
  EditMore, part 14 — for C16 `separate_blocks`: where the lines are after each tree operation of
  SetRequireSeparateIndirect (`InAt`), and the loop under `oneFlat` (`sepLoop_sep`).
-/
import ModVerif.Proofs.EditMoreSepH
set_option linter.unusedSimpArgs false
namespace ModVerif.Modfile.Edit
open ModVerif ModVerif.Modfile

theorem treeIds_mapLinesStmt (f : Line → Line) (hid : ∀ l, (f l).id = l.id) (st : Expr) :
    treeIds [mapLinesStmt f st] = treeIds [st] := by
  have := loc_mapLines f [st]
  simp only [List.map_cons, List.map_nil] at this
  unfold treeIds
  rw [this, List.map_map]
  apply List.map_congr_left
  intro p _; exact hid _

theorem InAt.mapLines {stmts : List Expr} {k x : Nat} (f : Line → Line) (hid : ∀ l, (f l).id = l.id) :
    InAt (stmts.map (mapLinesStmt f)) k x ↔ InAt stmts k x := by
  unfold InAt
  rw [List.getElem?_map]
  constructor
  · rintro ⟨st, hst, hx⟩
    cases hs : stmts[k]? with
    | none => rw [hs] at hst; cases hst
    | some st0 =>
      rw [hs] at hst
      simp only [Option.map_some, Option.some.injEq] at hst
      subst hst
      rw [treeIds_mapLinesStmt f hid] at hx
      exact ⟨st0, rfl, hx⟩
  · rintro ⟨st, hst, hx⟩
    rw [hst]
    exact ⟨_, rfl, by rw [treeIds_mapLinesStmt f hid]; exact hx⟩

theorem InAt.updateLine {fs : FileSyntax} {k x : Nat} (hnd : (treeIds fs.stmts).Nodup) (id : Nat) (g : Line → Line)
    (hg : ∀ l, (g l).id = l.id) : InAt (fs.updateLine id g).stmts k x ↔ InAt fs.stmts k x := by
  rw [updateLine_stmts fs id g hnd]
  apply InAt.mapLines
  intro l; split
  · exact hg l
  · rfl

theorem InAt.markRemoved {fs : FileSyntax} {k x : Nat} (hnd : (treeIds fs.stmts).Nodup) (id : Nat) :
    InAt (Edit.markRemoved fs id).stmts k x ↔ InAt fs.stmts k x := by
  unfold Edit.markRemoved
  exact InAt.updateLine hnd id _ (fun _ => rfl)

theorem InAt.append_block {stmts : List Expr} {idx : Nat} (l : Line) (hb : BlockAt stmts idx) (k x : Nat) :
    InAt (appendToBlock stmts idx l) k x ↔ InAt stmts k x ∨ (k = idx ∧ x = l.id) := by
  rcases hb with ⟨b, hb, _⟩
  unfold appendToBlock InAt
  simp only [hb]
  rw [List.getElem?_set]
  by_cases hk : idx = k
  · subst hk
    rw [if_pos rfl, if_pos (split_at hb).2]
    constructor
    · rintro ⟨st, hst, hx⟩
      simp only [Option.some.injEq] at hst
      subst hst
      rw [treeIds_block] at hx
      simp only [List.map_append, List.map_cons, List.map_nil, List.mem_append, List.mem_singleton] at hx
      rcases hx with hx | hx
      · exact Or.inl ⟨_, hb, by rw [treeIds_block]; exact hx⟩
      · exact Or.inr ⟨rfl, hx⟩
    · rintro (⟨st, hst, hx⟩ | ⟨_, hx⟩)
      · rw [hb] at hst
        simp only [Option.some.injEq] at hst
        subst hst
        refine ⟨_, rfl, ?_⟩
        rw [treeIds_block] at hx ⊢
        simp only [List.map_append, List.mem_append]
        exact Or.inl hx
      · refine ⟨_, rfl, ?_⟩
        rw [treeIds_block]
        simp [hx]
  · rw [if_neg hk]
    constructor
    · exact Or.inl
    · rintro (h | ⟨h, _⟩)
      · exact h
      · exact absurd h.symm hk

/-- where the lines are after `moveExisting` -/
theorem moveExisting_inAt (syn : FileSyntax) (next i idx : Nat) (hw : TreeWF syn.stmts next)
    (v0 : VLine) (hv0 : v0 ∈ view syn.stmts) (hid0 : v0.id = i) (hb : BlockAt syn.stmts idx) (k x : Nat) :
    InAt (moveExisting syn i idx next).stmts k x ↔ InAt syn.stmts k x ∨ (k = idx ∧ x = next) := by
  rcases mem_view.1 hv0 with ⟨p0, hp0, _, rfl⟩
  simp only [mkV] at hid0
  have hfind := findLine_of_loc syn hw.nodup p0 hp0
  rw [hid0] at hfind
  unfold moveExisting
  simp only [hfind]
  rw [InAt.append_block _ (hb.updateLine hw.nodup _ _), InAt.updateLine hw.nodup i (fun l => { l with token := [] }) (fun _ => rfl)]

/-- every live `require` line is the line of a requirement still to be processed, or sits in the direct block without
    the marker, or in the indirect block with it -/
def SepInv (dI iI : Nat) (stmts : List Expr) (rs : List Require) : Prop :=
  ∀ v ∈ view stmts, v.toks.head? = some (B "require") →
    (∃ r ∈ rs, r.lineId = v.id) ∨ (InAt stmts dI v.id ∧ isIndirectS v.suffix = false) ∨
      (InAt stmts iI v.id ∧ isIndirectS v.suffix = true)


theorem SepInv.remove {dI iI : Nat} {stmts stmts2 : List Expr} {r : Require} {rs : List Require}
    (hsep : SepInv dI iI stmts (r :: rs)) (hview : ∀ v ∈ view stmts2, v ∈ view stmts ∧ v.id ≠ r.lineId)
    (hin : ∀ k x, InAt stmts k x → InAt stmts2 k x) : SepInv dI iI stmts2 rs := by
  intro v hv hverb
  rcases hview v hv with ⟨hv0, hne⟩
  rcases hsep v hv0 hverb with ⟨r', hr', hid⟩ | ⟨h1, h2⟩ | ⟨h1, h2⟩
  · rcases List.mem_cons.1 hr' with rfl | hr'
    · exact absurd hid.symm hne
    · exact Or.inl ⟨r', hr', hid⟩
  · exact Or.inr (Or.inl ⟨hin _ _ h1, h2⟩)
  · exact Or.inr (Or.inr ⟨hin _ _ h1, h2⟩)

theorem SepInv.move {dI iI next : Nat} (b : Bool) {stmts stmts2 : List Expr} {r : Require} {rs : List Require}
    (hsep : SepInv dI iI stmts (r :: rs))
    (hview : ∀ v ∈ view stmts2, (v.id ≠ r.lineId ∧ v ∈ view stmts) ∨ (v.id = next ∧ isIndirectS v.suffix = b))
    (hin : ∀ k x, InAt stmts k x → InAt stmts2 k x) (hnew : InAt stmts2 (if b then iI else dI) next) :
    SepInv dI iI stmts2 rs := by
  intro v hv hverb
  rcases hview v hv with ⟨hne, hv0⟩ | ⟨hid, hmark⟩
  · rcases hsep v hv0 hverb with ⟨r', hr', hid⟩ | ⟨h1, h2⟩ | ⟨h1, h2⟩
    · rcases List.mem_cons.1 hr' with rfl | hr'
      · exact absurd hid.symm hne
      · exact Or.inl ⟨r', hr', hid⟩
    · exact Or.inr (Or.inl ⟨hin _ _ h1, h2⟩)
    · exact Or.inr (Or.inr ⟨hin _ _ h1, h2⟩)
  · cases b with
    | false => exact Or.inr (Or.inl ⟨by rw [hid]; exact hnew, hmark⟩)
    | true => exact Or.inr (Or.inr ⟨by rw [hid]; exact hnew, hmark⟩)

/-- **the loop of SetRequireSeparateIndirect when the file's requirements are one uncommented statement** (`oneFlat`):
    every kept requirement is moved, so in the end every live `require` line sits in the direct block without the marker
    or in the indirect block with it -/
theorem sepLoop_sep {A C : List Ent} (ctx : SepCtx) (hof : ctx.oneFlat = true) (need : List Want) (rs : List Require) :
    ∀ (done : List Require) (have_ : List Bytes) (syn : FileSyntax) (next : Nat) (rs' : List Require) (have' : List Bytes)
      (syn' : FileSyntax) (next' : Nat),
      (∀ r ∈ rs, liveRq r = true) → TreeWF syn.stmts next → 0 < next →
      Match (A ++ (entsOf liveRq entRq (done ++ rs) ++ C)) (view syn.stmts) →
      BlockAt syn.stmts ctx.directIdx → BlockAt syn.stmts ctx.indirectIdx →
      (∀ r ∈ rs, ∀ v ∈ view syn.stmts, v.id = r.lineId → MarkerSettable v.suffix) →
      SepInv ctx.directIdx ctx.indirectIdx syn.stmts rs →
      sepLoop ctx need rs have_ syn next = .ok (rs', have', syn', next') →
      SepInv ctx.directIdx ctx.indirectIdx syn'.stmts [] := by
  induction rs with
  | nil =>
    intro done have_ syn next rs' have' syn' next' _ hw _ hm hbd hbi _ hsep h
    simp only [sepLoop, Except.ok.injEq, Prod.mk.injEq] at h
    rcases h with ⟨rfl, _, rfl, rfl⟩
    exact hsep
  | cons r rs ih =>
    intro done have_ syn next rs' have' syn' next' hlive hw hnext hm hbd hbi hset hsep h
    have hlr := hlive r List.mem_cons_self
    have hlive' : ∀ r2 ∈ rs, liveRq r2 = true := fun r2 hr2 => hlive r2 (List.mem_cons_of_mem _ hr2)
    have hndK : (liveIds liveRq (·.lineId) (done ++ r :: rs)).Nodup := by
      rw [← entsOf_ids (·.lineId) liveRq entRq (fun _ => rfl)]; exact seg_nodup hm
    have hne := mid_id_ne liveRq (·.lineId) done rs r hndK hlr
    -- the removal branches
    have remove : ∀ (res : List Require × List Bytes × FileSyntax × Nat),
        sepLoop ctx need rs have_ (markRemoved syn r.lineId) next = .ok res →
        SepInv ctx.directIdx ctx.indirectIdx res.2.2.1.stmts [] := by
      intro res hr
      rcases res with ⟨rs'', h'', syn'', next''⟩
      have hview := mem_view_markRemoved syn r.lineId hw.nodup
      have hm1 : Match (A ++ (entsOf liveRq entRq ((done ++ [clearedRequire]) ++ rs) ++ C)) (view (markRemoved syn r.lineId).stmts) := by
        rw [List.append_assoc]; exact Match.removeStep hw hlr hm
      have hset1 : ∀ r2 ∈ rs, ∀ v ∈ view (markRemoved syn r.lineId).stmts, v.id = r2.lineId → MarkerSettable v.suffix := by
        intro r2 hr2 v hv hvid
        exact hset r2 (List.mem_cons_of_mem _ hr2) v ((hview v).1 hv).1 hvid
      have hsep1 : SepInv ctx.directIdx ctx.indirectIdx (markRemoved syn r.lineId).stmts rs :=
        hsep.remove (fun v hv => (hview v).1 hv) (fun k x hx => (InAt.markRemoved hw.nodup _).2 hx)
      exact ih (done ++ [clearedRequire]) have_ (markRemoved syn r.lineId) next rs'' h'' syn'' next'' hlive' (hw.markRemoved r.lineId)
        hnext hm1 (hbd.updateLine hw.nodup _ _) (hbi.updateLine hw.nodup _ _) hset1 hsep1 hr
    unfold sepLoop at h
    cases hf : need.find? (fun a => a.path == r.mod.path) with
    | some w =>
      simp only [hf] at h
      by_cases hc : have_.contains r.mod.path = true
      · simp only [hc, if_true, bind, Except.bind] at h
        cases hd : deref r.lineId with
        | error err => simp [hd] at h
        | ok i =>
          have hi : i = r.lineId := by unfold deref at hd; split at hd <;> simp at hd; exact hd.symm
          subst hi
          simp only [hd] at h
          cases hr : sepLoop ctx need rs have_ (markRemoved syn r.lineId) next with
          | error err => simp [hr] at h
          | ok res =>
            have := remove res hr
            rcases res with ⟨rs'', h'', syn'', next''⟩
            simp only [hr, pure, Except.pure, Except.ok.injEq, Prod.mk.injEq] at h
            rcases h with ⟨rfl, _, rfl, rfl⟩
            exact this
      · simp only [Bool.not_eq_true] at hc
        simp only [hc, Bool.false_eq_true, if_false, bind, Except.bind] at h
        cases hd : deref r.lineId with
        | error err => simp [hd] at h
        | ok i =>
          have hi : i = r.lineId := by unfold deref at hd; split at hd <;> simp at hd; exact hd.symm
          subst hi
          simp only [hd] at h
          -- the updated line
          rcases Match.setReqStep (A := A) (C := C) w.vers w.indirect hw hlr hm (hset r List.mem_cons_self)
            with ⟨hm1, v0, hv0, hv0id, hview1, hind⟩
          have hw1 := hw.setReq r.lineId w.vers w.indirect
          have hbd1 : BlockAt (syn.updateLine r.lineId fun l => setIndirectLine w.indirect (setVersionLine w.vers l)).stmts ctx.directIdx :=
            hbd.updateLine hw.nodup _ _
          have hbi1 : BlockAt (syn.updateLine r.lineId fun l => setIndirectLine w.indirect (setVersionLine w.vers l)).stmts ctx.indirectIdx :=
            hbi.updateLine hw.nodup _ _
          have hlt1 := hm1.ids_lt hw1
          have hset1 : ∀ r2 ∈ rs, ∀ v ∈ view (syn.updateLine r.lineId fun l => setIndirectLine w.indirect (setVersionLine w.vers l)).stmts,
              v.id = r2.lineId → MarkerSettable v.suffix := by
            intro r2 hr2 v hv hvid
            rcases (hview1 v).1 hv with ⟨_, hvv⟩ | rfl
            · exact hset r2 (List.mem_cons_of_mem _ hr2) v hvv hvid
            · exact absurd hvid.symm (hne r2 (Or.inr hr2) (hlive' r2 hr2))
          have hlr1 : liveRq { r with mod := { r.mod with version := w.vers }, indirect := w.indirect } = true := hlr
          have hg1 : ∀ l : Line, (setIndirectLine w.indirect (setVersionLine w.vers l)).id = l.id := fun l => by
            rw [(setIndirectLine_props w.indirect _).1, (setVersionLine_props w.vers l).1]
          -- with `oneFlat` the requirement is always moved, to the block of its kind
          have hidx : BlockAt (syn.updateLine r.lineId fun l => setIndirectLine w.indirect (setVersionLine w.vers l)).stmts
              (if w.indirect then ctx.indirectIdx else ctx.directIdx) := by
            split
            · exact hbi1
            · exact hbd1
          have ht : (if (w.indirect && (ctx.oneFlat || inBlockOrig ctx r.lineId ctx.directOrig)) = true then
              (({ r with mod := { r.mod with version := w.vers }, indirect := w.indirect, lineId := next } : Require),
                moveExisting (syn.updateLine r.lineId fun l => setIndirectLine w.indirect (setVersionLine w.vers l)) r.lineId ctx.indirectIdx next, next + 1)
            else if (!w.indirect && (ctx.oneFlat || inBlockOrig ctx r.lineId ctx.indirectOrig)) = true then
              (({ r with mod := { r.mod with version := w.vers }, indirect := w.indirect, lineId := next } : Require),
                moveExisting (syn.updateLine r.lineId fun l => setIndirectLine w.indirect (setVersionLine w.vers l)) r.lineId ctx.directIdx next, next + 1)
            else (({ r with mod := { r.mod with version := w.vers }, indirect := w.indirect } : Require),
                syn.updateLine r.lineId fun l => setIndirectLine w.indirect (setVersionLine w.vers l), next)) =
              (({ r with mod := { r.mod with version := w.vers }, indirect := w.indirect, lineId := next } : Require),
                moveExisting (syn.updateLine r.lineId fun l => setIndirectLine w.indirect (setVersionLine w.vers l)) r.lineId
                  (if w.indirect then ctx.indirectIdx else ctx.directIdx) next, next + 1) := by
            cases w.indirect <;> simp [hof]
          rw [ht] at h
          simp only at h
          rcases moveExisting_spec _ next r.lineId (if w.indirect then ctx.indirectIdx else ctx.directIdx) hw1 hnext
            ⟨r.lineId, [B "require", autoQuote r.mod.path, w.vers], sfxAfter w.indirect v0.suffix⟩
            ((hview1 _).2 (Or.inr rfl)) rfl _ _ rfl hidx with ⟨m1, m2, m3⟩
          have hin2 := moveExisting_inAt _ next r.lineId (if w.indirect then ctx.indirectIdx else ctx.directIdx) hw1
            ⟨r.lineId, [B "require", autoQuote r.mod.path, w.vers], sfxAfter w.indirect v0.suffix⟩
            ((hview1 _).2 (Or.inr rfl)) rfl hidx
          have hm2 := Match.moveStep (r := { r with mod := { r.mod with version := w.vers }, indirect := w.indirect })
            (next := next) hlr1 hm1 hlt1 _ ⟨rfl, hind⟩ m2
          have hset2 : ∀ r2 ∈ rs, ∀ v ∈ view (moveExisting (syn.updateLine r.lineId fun l => setIndirectLine w.indirect (setVersionLine w.vers l))
              r.lineId (if w.indirect then ctx.indirectIdx else ctx.directIdx) next).stmts, v.id = r2.lineId → MarkerSettable v.suffix := by
            intro r2 hr2 v hv hvid
            rcases (m2 v).1 hv with ⟨_, hvv⟩ | rfl
            · exact hset1 r2 hr2 v hvv hvid
            · have := hlt1 (entRq r2) (List.mem_append_right _ (List.mem_append_left _
                ((mem_entsOf_mid liveRq entRq done rs _ _).2 (Or.inl ⟨r2, Or.inr hr2, hlive' r2 hr2, rfl⟩))))
              simp only [entRq] at this hvid
              omega
          have hsep2 : SepInv ctx.directIdx ctx.indirectIdx (moveExisting (syn.updateLine r.lineId fun l => setIndirectLine w.indirect (setVersionLine w.vers l))
              r.lineId (if w.indirect then ctx.indirectIdx else ctx.directIdx) next).stmts rs := by
            refine SepInv.move (next := next) w.indirect hsep ?_ ?_ ?_
            · intro v hv
              rcases (m2 v).1 hv with ⟨hvne, hvv⟩ | rfl
              · rcases (hview1 v).1 hvv with ⟨_, hvv0⟩ | rfl
                · exact Or.inl ⟨hvne, hvv0⟩
                · exact absurd rfl hvne
              · exact Or.inr ⟨rfl, hind⟩
            · intro k x hx
              exact (hin2 k x).2 (Or.inl ((InAt.updateLine hw.nodup _ _ hg1).2 hx))
            · exact (hin2 _ _).2 (Or.inr ⟨rfl, rfl⟩)
          cases hr : sepLoop ctx need rs (r.mod.path :: have_)
              (moveExisting (syn.updateLine r.lineId fun l => setIndirectLine w.indirect (setVersionLine w.vers l))
                r.lineId (if w.indirect then ctx.indirectIdx else ctx.directIdx) next) (next + 1) with
          | error err => simp [hr] at h
          | ok res =>
            rcases res with ⟨rs'', h'', syn'', next''⟩
            simp only [hr, pure, Except.pure, Except.ok.injEq, Prod.mk.injEq] at h
            rcases h with ⟨rfl, _, rfl, rfl⟩
            have hm2' : Match (A ++ (entsOf liveRq entRq ((done ++
                [({ r with mod := { r.mod with version := w.vers }, indirect := w.indirect, lineId := next } : Require)]) ++ rs) ++ C))
                (view (moveExisting (syn.updateLine r.lineId fun l => setIndirectLine w.indirect (setVersionLine w.vers l))
                  r.lineId (if w.indirect then ctx.indirectIdx else ctx.directIdx) next).stmts) := by
              rw [List.append_assoc]; exact hm2
            exact ih _ _ _ (next + 1) rs'' h'' syn'' next'' hlive' m1 (Nat.succ_pos _) hm2' (m3 _ hbd1) (m3 _ hbi1) hset2 hsep2 hr
    | none =>
      simp only [hf, bind, Except.bind] at h
      cases hd : deref r.lineId with
      | error err => simp [hd] at h
      | ok i =>
        have hi : i = r.lineId := by unfold deref at hd; split at hd <;> simp at hd; exact hd.symm
        subst hi
        simp only [hd] at h
        cases hr : sepLoop ctx need rs have_ (markRemoved syn r.lineId) next with
        | error err => simp [hr] at h
        | ok res =>
          have := remove res hr
          rcases res with ⟨rs'', h'', syn'', next''⟩
          simp only [hr, pure, Except.pure, Except.ok.injEq, Prod.mk.injEq] at h
          rcases h with ⟨rfl, _, rfl, rfl⟩
          exact this

end ModVerif.Modfile.Edit
