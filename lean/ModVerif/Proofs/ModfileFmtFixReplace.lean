/-
  C02 clause 3, leaf fixpoints, part 4: `parseReplace`.  A successful `parseReplace` is characterised by its
  components (`parseReplace_decomp` / `parseReplace_build`); the tokens it writes back are
  `AutoQuote(old path) [old version] => AutoQuote(new path) [new version]` and parse to the same entry again.

  Where the arrow is looked for depends on the SECOND token only (`args[1] == "=>"`), so an old path that is
  literally `=>` is harmless (`replace => => ./x` is accepted by this lax layer and is a fixpoint); what is needed
  is that a present old version is not the token `=>`, which holds for valid versions (they start with `v`)
  and for the empty string.
-/
import ModVerif.Proofs.ModfileFmtFixInterval
namespace ModVerif.Proofs.ModfileFmtFix
open ModVerif ModVerif.Modfile ModVerif.SemverSpec
open ModVerif.Proofs.ModfileFmtQuote ModVerif.Proofs.ModfileFmtLex

/-- the token `parseString` writes back is `AutoQuote` of the value -/
theorem parseString_tok {tok v tok' : Bytes} (h : parseString tok = some (v, tok')) : tok' = autoQuote v := by
  unfold parseString at h
  split at h
  · split at h
    · cases h
    · simp only [Option.some.injEq, Prod.mk.injEq] at h
      obtain ⟨rfl, rfl⟩ := h; rfl
  · split at h
    · cases h
    · simp only [Option.some.injEq, Prod.mk.injEq] at h
      obtain ⟨rfl, rfl⟩ := h; rfl

example : parseString (B "\"a b\"") = some (B "a b", B "\"a b\"") := by decide +kernel

/-! ### the argument shapes of a successful `parseReplace` -/

theorem parseReplace_args {id : Nat} {args args' : List Bytes} {fix : Option Fixer} {r : Replace}
    (h : parseReplace id args fix = (args', .ok r)) :
    (∃ a0 ns, args = [a0, B "=>", ns]) ∨ (∃ a0 ns nv, args = [a0, B "=>", ns, nv]) ∨
    (∃ a0 a1 ns, a1 ≠ B "=>" ∧ args = [a0, a1, B "=>", ns]) ∨
    (∃ a0 a1 ns nv, a1 ≠ B "=>" ∧ args = [a0, a1, B "=>", ns, nv]) := by
  rcases args with _ | ⟨a0, _ | ⟨a1, _ | ⟨a2, _ | ⟨a3, _ | ⟨a4, _ | ⟨a5, t⟩⟩⟩⟩⟩⟩
  · simp [parseReplace] at h
  · simp [parseReplace] at h
  · simp [parseReplace] at h
    split at h <;> simp at h
  · by_cases e : a1 = B "=>"
    · subst e; exact Or.inl ⟨_, _, rfl⟩
    · simp [parseReplace, e] at h
  · by_cases e : a1 = B "=>"
    · subst e; exact Or.inr (Or.inl ⟨_, _, _, rfl⟩)
    · by_cases e2 : a2 = B "=>"
      · subst e2; exact Or.inr (Or.inr (Or.inl ⟨_, _, _, e, rfl⟩))
      · simp [parseReplace, e, e2] at h
  · by_cases e : a1 = B "=>"
    · subst e
      simp [parseReplace] at h
    · by_cases e2 : a2 = B "=>"
      · subst e2; exact Or.inr (Or.inr (Or.inr ⟨_, _, _, _, e, rfl⟩))
      · simp [parseReplace, e, e2] at h
  · simp [parseReplace] at h
    split at h <;> simp at h

example : parseReplace 0 [B "a.b/c", B "v1", B "=>", B "./x"] none = ([B "a.b/c", B "v1.0.0", B "=>", B "./x"],
    .ok { old := { path := B "a.b/c", version := B "v1.0.0" }, new := { path := B "./x" }, lineId := 0 }) := by
  decide +kernel

/-- the optional old version: absent, or one token other than `=>` that `parseVersion` accepts and that fits
    the major version of the path -/
def OldPart (fix : Option Fixer) (s pm : Bytes) (i o : List Bytes) (ov : Bytes) : Prop :=
  (i = [] ∧ o = [] ∧ ov = []) ∨
  (∃ a1, a1 ≠ B "=>" ∧ i = [a1] ∧ o = [ov] ∧ parseVersion s a1 fix = (ov, .ok ov) ∧ Module.checkPathMajor ov pm = true)

/-- the optional new version: absent (then the new path is a directory path without backslash), or one token
    that `parseVersion` accepts (then the new path is not a directory path) -/
def NewPart (fix : Option Fixer) (ns : Bytes) (i o : List Bytes) (nv : Bytes) : Prop :=
  (i = [] ∧ o = [] ∧ nv = [] ∧ isDirectoryPath ns = true ∧ GoStrings.contains ns [92] = false) ∨
  (∃ t, i = [t] ∧ o = [nv] ∧ parseVersion ns t fix = (nv, .ok nv) ∧ isDirectoryPath ns = false)

/-- the components of a successful `parseReplace` -/
structure ReplaceParts (fix : Option Fixer) (id : Nat) (args args' : List Bytes) (r : Replace) : Prop where
  ex : ∃ a0 s a0' pm nsTok ns nsTok' oldIn oldOut newIn newOut,
    args = a0 :: (oldIn ++ B "=>" :: nsTok :: newIn) ∧ args' = a0' :: (oldOut ++ B "=>" :: nsTok' :: newOut) ∧
    parseString a0 = some (s, a0') ∧ modulePathMajor s = some pm ∧ parseString nsTok = some (ns, nsTok') ∧
    OldPart fix s pm oldIn oldOut r.old.version ∧ NewPart fix ns newIn newOut r.new.version ∧
    r.old.path = s ∧ r.new.path = ns ∧ r.lineId = id

/-- the part of `parseReplace` before the old version -/
theorem head_cases {a0 : Bytes} {α : Type} {e1 : α} {e2 : Bytes → α} {f : Bytes → Bytes → Bytes → α} {y : α}
    (h : (match parseString a0 with
      | none => e1
      | some (s, a0') =>
        match modulePathMajor s with
        | none => e2 a0'
        | some pm => f s a0' pm) = y) :
    (parseString a0 = none ∧ e1 = y) ∨ (∃ s a0', parseString a0 = some (s, a0') ∧ modulePathMajor s = none ∧ e2 a0' = y) ∨
    (∃ s a0' pm, parseString a0 = some (s, a0') ∧ modulePathMajor s = some pm ∧ f s a0' pm = y) := by
  cases h0 : parseString a0 with
  | none => rw [h0] at h; exact Or.inl ⟨rfl, h⟩
  | some sa =>
    obtain ⟨s, a0'⟩ := sa
    rw [h0] at h
    simp only at h
    cases hm : modulePathMajor s with
    | none => rw [hm] at h; exact Or.inr (Or.inl ⟨s, a0', rfl, hm, h⟩)
    | some pm => rw [hm] at h; exact Or.inr (Or.inr ⟨s, a0', pm, rfl, hm, h⟩)

example : (match parseString [97] with
    | none => 0
    | some (s, _) =>
      match modulePathMajor s with
      | none => 1
      | some _ => 2) = 2 := by decide +kernel

theorem parseReplace_decomp {id : Nat} {args args' : List Bytes} {fix : Option Fixer} {r : Replace}
    (h : parseReplace id args fix = (args', .ok r)) : ReplaceParts fix id args args' r := by
  rcases parseReplace_args h with ⟨a0, nsTok, rfl⟩ | ⟨a0, nsTok, nvTok, rfl⟩ | ⟨a0, a1, nsTok, e, rfl⟩ |
      ⟨a0, a1, nsTok, nvTok, e, rfl⟩
  · -- path => dir
    simp [parseReplace] at h
    rcases head_cases h with ⟨_, h⟩ | ⟨_, _, _, _, h⟩ | ⟨s, a0', pm, h0, hm, h⟩
    · simp at h
    · simp at h
    · cases hn : parseString nsTok with
      | none => simp [hn] at h
      | some x =>
        obtain ⟨ns, nsTok'⟩ := x
        simp only [hn] at h
        cases hd : isDirectoryPath ns with
        | false =>
          simp [hd] at h
          split at h <;> simp at h
        | true =>
          cases hb : GoStrings.contains ns [92] with
          | true => simp [hd, hb] at h
          | false =>
            simp [hd, hb] at h
            obtain ⟨h1, h2⟩ := h
            subst h2
            exact ⟨a0, s, a0', pm, nsTok, ns, nsTok', [], [], [], [], rfl, by simpa using h1.symm, h0, hm, hn,
              Or.inl ⟨rfl, rfl, rfl⟩, Or.inl ⟨rfl, rfl, rfl, hd, hb⟩, rfl, rfl, rfl⟩
  · -- path => path version
    simp [parseReplace] at h
    rcases head_cases h with ⟨_, h⟩ | ⟨_, _, _, _, h⟩ | ⟨s, a0', pm, h0, hm, h⟩
    · simp at h
    · simp at h
    · cases hn : parseString nsTok with
      | none => simp [hn] at h
      | some x =>
        obtain ⟨ns, nsTok'⟩ := x
        simp only [hn] at h
        rcases hv : parseVersion ns nvTok fix with ⟨nvTok', er | nv⟩
        · simp [hv] at h
        · have e := parseVersion_ok_tok hv
          subst e
          simp only [hv] at h
          cases hd : isDirectoryPath ns with
          | true => simp [hd] at h
          | false =>
            simp [hd] at h
            obtain ⟨h1, h2⟩ := h
            subst h2
            exact ⟨a0, s, a0', pm, nsTok, ns, nsTok', [], [], [nvTok], [nvTok'], rfl, by simpa using h1.symm, h0, hm, hn,
              Or.inl ⟨rfl, rfl, rfl⟩, Or.inr ⟨nvTok, rfl, rfl, hv, hd⟩, rfl, rfl, rfl⟩
  · -- path version => dir
    simp [parseReplace, e] at h
    rcases head_cases h with ⟨_, h⟩ | ⟨_, _, _, _, h⟩ | ⟨s, a0', pm, h0, hm, h⟩
    · simp at h
    · simp at h
    · rcases hov : parseVersion s a1 fix with ⟨a1', er | ov⟩
      · simp [hov] at h
      · have e1 := parseVersion_ok_tok hov
        subst e1
        simp only [hov] at h
        cases hc : Module.checkPathMajor a1' pm with
        | false => simp [hc] at h
        | true =>
          simp [hc] at h
          cases hn : parseString nsTok with
          | none => simp [hn] at h
          | some x =>
            obtain ⟨ns, nsTok'⟩ := x
            simp only [hn] at h
            cases hd : isDirectoryPath ns with
            | false =>
              simp [hd] at h
              split at h <;> simp at h
            | true =>
              cases hb : GoStrings.contains ns [92] with
              | true => simp [hd, hb] at h
              | false =>
                simp [hd, hb] at h
                obtain ⟨h1, h2⟩ := h
                subst h2
                exact ⟨a0, s, a0', pm, nsTok, ns, nsTok', [a1], [a1'], [], [], rfl, by simpa using h1.symm, h0, hm, hn,
                  Or.inr ⟨a1, e, rfl, rfl, hov, hc⟩, Or.inl ⟨rfl, rfl, rfl, hd, hb⟩, rfl, rfl, rfl⟩
  · -- path version => path version
    simp [parseReplace, e] at h
    rcases head_cases h with ⟨_, h⟩ | ⟨_, _, _, _, h⟩ | ⟨s, a0', pm, h0, hm, h⟩
    · simp at h
    · simp at h
    · rcases hov : parseVersion s a1 fix with ⟨a1', er | ov⟩
      · simp [hov] at h
      · have e1 := parseVersion_ok_tok hov
        subst e1
        simp only [hov] at h
        cases hc : Module.checkPathMajor a1' pm with
        | false => simp [hc] at h
        | true =>
          simp [hc] at h
          cases hn : parseString nsTok with
          | none => simp [hn] at h
          | some x =>
            obtain ⟨ns, nsTok'⟩ := x
            simp only [hn] at h
            rcases hv : parseVersion ns nvTok fix with ⟨nvTok', er | nv⟩
            · simp [hv] at h
            · have e2 := parseVersion_ok_tok hv
              subst e2
              simp only [hv] at h
              cases hd : isDirectoryPath ns with
              | true => simp [hd] at h
              | false =>
                simp [hd] at h
                obtain ⟨h1, h2⟩ := h
                subst h2
                exact ⟨a0, s, a0', pm, nsTok, ns, nsTok', [a1], [a1'], [nvTok], [nvTok'], rfl, by simpa using h1.symm,
                  h0, hm, hn, Or.inr ⟨a1, e, rfl, rfl, hov, hc⟩, Or.inr ⟨nvTok, rfl, rfl, hv, hd⟩, rfl, rfl, rfl⟩

example : parseReplace 0 [B "a.b/c", B "v1", B "=>", B "d.e/f", B "v1.2"] none =
    ([B "a.b/c", B "v1.0.0", B "=>", B "d.e/f", B "v1.2.0"],
     .ok { old := { path := B "a.b/c", version := B "v1.0.0" }, new := { path := B "d.e/f", version := B "v1.2.0" }, lineId := 0 }) := by
  decide +kernel

/-- conversely: the components determine the result -/
theorem parseReplace_build {id : Nat} {args args' : List Bytes} {fix : Option Fixer} {r : Replace}
    (h : ReplaceParts fix id args args' r) : parseReplace id args fix = (args', .ok r) := by
  obtain ⟨a0, s, a0', pm, nsTok, ns, nsTok', oldIn, oldOut, newIn, newOut, rfl, rfl, h0, hm, hn, hold, hnew, e1, e2, e3⟩ := h.ex
  obtain ⟨⟨rp, rv⟩, ⟨np, nv⟩, rid⟩ := r
  simp only at e1 e2 e3 hold hnew
  subst e1 e2 e3
  rcases hold with ⟨rfl, rfl, rfl⟩ | ⟨a1, e, rfl, rfl, hov, hc⟩ <;>
  rcases hnew with ⟨rfl, rfl, rfl, hd, hb⟩ | ⟨t, rfl, rfl, hv, hd⟩
  · simp [parseReplace, h0, hm, hn, hd, hb]
  · simp [parseReplace, h0, hm, hn, hv, hd]
  · simp [parseReplace, e, h0, hm, hov, hc, hn, hd, hb]
  · simp [parseReplace, e, h0, hm, hov, hc, hn, hv, hd]

example : ReplaceParts none 3 [B "a.b/c", B "=>", B "./x"] [B "a.b/c", B "=>", B "./x"]
    { old := { path := B "a.b/c" }, new := { path := B "./x" }, lineId := 3 } :=
  parseReplace_decomp (by decide +kernel)

/-- ★ a successful `parseReplace`, characterised by its components -/
theorem parseReplace_iff (id : Nat) (args args' : List Bytes) (fix : Option Fixer) (r : Replace) :
    parseReplace id args fix = (args', .ok r) ↔ ReplaceParts fix id args args' r :=
  ⟨parseReplace_decomp, parseReplace_build⟩

/-! ### fixpoints -/

theorem B_arrow : B "=>" = [61, 62] := by decide +kernel

theorem parseString_nil : parseString [] = some ([], autoQuote []) := by
  simp [parseString, isPrefixOfB, GoStrings.containsAny]

theorem valid_ne_arrow {v : Bytes} (h : Semver.isValid v = true) : v ≠ B "=>" := by
  obtain ⟨d, t, hd, _⟩ := valid_head h
  rw [hd, B_arrow]; simp

example : Semver.isValid (B "v1.0.0") = true := by decide +kernel

/-- the side condition of the property on the version a fixer produced: valid unless empty -/
def VersionFixOK (fix : Option Fixer) (v : Bytes) : Prop :=
  fix = none ∨ (∃ fx, fix = some fx ∧ (∀ p' v0 w, fx p' v0 = .ok w → fx p' w = .ok w) ∧
    (v ≠ [] → Semver.isValid v = true))

/-- a version token written by `parseVersion` is a fixpoint of `parseVersion` and is not the token `=>` -/
theorem parseVersion_refix {p tok v : Bytes} {fix : Option Fixer} (h : parseVersion p tok fix = (v, .ok v))
    (hfix : VersionFixOK fix v) :
    parseVersion p v fix = (v, .ok v) ∧ v ≠ B "=>" ∧ (fix = none → Semver.isValid v = true) := by
  rcases hfix with rfl | ⟨fx, rfl, hidem, hval⟩
  · obtain ⟨_, hv, hf⟩ := parseVersion_none_fix h
    exact ⟨hf p, valid_ne_arrow hv, fun _ => hv⟩
  · by_cases hnil : v = []
    · subst hnil
      refine ⟨(parseVersion_some_fix_gen h ⟨_, parseString_nil⟩ hidem).2, ?_, fun hh => by cases hh⟩
      rw [B_arrow]; simp
    · have hv := hval hnil
      exact ⟨(parseVersion_some_fix h hv hidem).2, valid_ne_arrow hv, fun hh => by cases hh⟩

example : parseVersion [] (B "v1") none = (B "v1.0.0", .ok (B "v1.0.0")) ∧ VersionFixOK none (B "v1.0.0") :=
  ⟨by decide +kernel, Or.inl rfl⟩

/-- ★ the tokens `parseReplace` writes back parse to the same entry again (with whatever line identity the
    re-parsed line has), and they are `AutoQuote(old path) [old version] => AutoQuote(new path) [new version]`.
    Hypothesis on the fixer as in the property: none, or idempotent on its image with valid (or empty) results. -/
theorem parseReplace_fix {id : Nat} {args args' : List Bytes} {fix : Option Fixer} {r : Replace}
    (h : parseReplace id args fix = (args', .ok r))
    (hfix : fix = none ∨ (∃ fx, fix = some fx ∧ (∀ p' v0 w, fx p' v0 = .ok w → fx p' w = .ok w) ∧
      (r.old.version ≠ [] → Semver.isValid r.old.version = true) ∧
      (r.new.version ≠ [] → Semver.isValid r.new.version = true))) :
    (∀ id', parseReplace id' args' fix = (args', .ok { r with lineId := id' })) ∧
    (∃ oldToks newToks,
      args' = autoQuote r.old.path :: (oldToks ++ B "=>" :: autoQuote r.new.path :: newToks) ∧
      ((oldToks = [] ∧ r.old.version = []) ∨ oldToks = [r.old.version]) ∧
      ((newToks = [] ∧ r.new.version = []) ∨ newToks = [r.new.version])) ∧
    (fix = none → (r.old.version ≠ [] → Semver.isValid r.old.version = true) ∧
      (r.new.version ≠ [] → Semver.isValid r.new.version = true)) := by
  have hfo : VersionFixOK fix r.old.version := by
    rcases hfix with rfl | ⟨fx, rfl, hi, ho, _⟩
    · exact Or.inl rfl
    · exact Or.inr ⟨fx, rfl, hi, ho⟩
  have hfn : VersionFixOK fix r.new.version := by
    rcases hfix with rfl | ⟨fx, rfl, hi, _, hn⟩
    · exact Or.inl rfl
    · exact Or.inr ⟨fx, rfl, hi, hn⟩
  obtain ⟨a0, s, a0', pm, nsTok, ns, nsTok', oldIn, oldOut, newIn, newOut, rfl, rfl, h0, hm, hn, hold, hnew, e1, e2, e3⟩ :=
    (parseReplace_decomp h).ex
  have ea0 := parseString_tok h0
  have ens := parseString_tok hn
  -- the old part again, on its own output
  have hold' : OldPart fix s pm oldOut oldOut r.old.version ∧
      (((oldOut = [] ∧ r.old.version = []) ∨ oldOut = [r.old.version]) ∧
       (fix = none → r.old.version ≠ [] → Semver.isValid r.old.version = true)) := by
    rcases hold with ⟨_, ho, hv⟩ | ⟨a1, _, _, ho, hov, hc⟩
    · exact ⟨Or.inl ⟨ho, ho, hv⟩, Or.inl ⟨ho, hv⟩, fun _ hne => absurd hv hne⟩
    · obtain ⟨hf, hne, hvalid⟩ := parseVersion_refix hov hfo
      exact ⟨Or.inr ⟨r.old.version, hne, ho, ho, hf, hc⟩, Or.inr ho, fun hh _ => hvalid hh⟩
  have hnew' : NewPart fix ns newOut newOut r.new.version ∧
      (((newOut = [] ∧ r.new.version = []) ∨ newOut = [r.new.version]) ∧
       (fix = none → r.new.version ≠ [] → Semver.isValid r.new.version = true)) := by
    rcases hnew with ⟨_, ho, hv, hd, hb⟩ | ⟨t, _, ho, hnv, hd⟩
    · exact ⟨Or.inl ⟨ho, ho, hv, hd, hb⟩, Or.inl ⟨ho, hv⟩, fun _ hne => absurd hv hne⟩
    · obtain ⟨hf, _, hvalid⟩ := parseVersion_refix hnv hfn
      exact ⟨Or.inr ⟨r.new.version, ho, ho, hf, hd⟩, Or.inr ho, fun hh _ => hvalid hh⟩
  refine ⟨?_, ⟨oldOut, newOut, ?_, hold'.2.1, hnew'.2.1⟩, fun hh => ⟨hold'.2.2 hh, hnew'.2.2 hh⟩⟩
  · intro id'
    apply parseReplace_build
    exact ⟨a0', s, a0', pm, nsTok', ns, nsTok', oldOut, oldOut, newOut, newOut, rfl, rfl, parseString_idem h0, hm,
      parseString_idem hn, hold'.1, hnew'.1, e1, e2, rfl⟩
  · rw [e1, e2, ← ea0, ← ens]

example : parseReplace 7 [B "\"a.b/c\"", B "v1", B "=>", B "\"d.e/f\"", B "master"] (some fixStub) =
      ([B "a.b/c", B "v1.0.0", B "=>", B "d.e/f", B "v0.0.0-20200101000000-000000000000"],
       .ok { old := { path := B "a.b/c", version := B "v1.0.0" },
             new := { path := B "d.e/f", version := B "v0.0.0-20200101000000-000000000000" }, lineId := 7 }) ∧
    Semver.isValid (B "v1.0.0") = true ∧ Semver.isValid (B "v0.0.0-20200101000000-000000000000") = true := by
  decide +kernel

/-- the tokens of a `replace` entry, as the property states them -/
def replaceToks (r : Replace) : List Bytes :=
  [autoQuote r.old.path] ++ (if r.old.version = [] then [] else [r.old.version]) ++ [B "=>"] ++
  [autoQuote r.new.path] ++ (if r.new.version = [] then [] else [r.new.version])

theorem parseVersion_some_ok {p tok tok' v : Bytes} {fx : Fixer} (h : parseVersion p tok (some fx) = (tok', .ok v)) :
    ∃ t, fx p t = .ok v := by
  unfold parseVersion at h
  split at h
  · cases h
  · rename_i t tok1 _
    simp only at h
    split at h
    · cases h
    · cases h
    · rename_i fixed hfx
      simp only [Prod.mk.injEq, Except.ok.injEq] at h
      exact ⟨t, by rw [hfx, h.2]⟩

example : parseVersion [] (B "v1") (some dontFixRetract) = (B "v1", .ok (B "v1")) := by decide +kernel

/-- ★ the exact token list, whenever a present version cannot be the empty string: without a fixer always;
    with a fixer when it never returns the empty string.  (A fixer that returns `""` makes `parseReplace`
    write an empty token, which is not of this shape: `parseReplace 0 [a, =>, b, x] (some fun _ _ => .ok [])`
    writes `[a, =>, b, ""]`.) -/
theorem parseReplace_toks {id : Nat} {args args' : List Bytes} {fix : Option Fixer} {r : Replace}
    (h : parseReplace id args fix = (args', .ok r))
    (hne : ∀ fx, fix = some fx → ∀ p' v0, fx p' v0 ≠ .ok []) :
    args' = replaceToks r := by
  have key : ∀ {p tok v : Bytes}, parseVersion p tok fix = (v, .ok v) → v ≠ [] := by
    intro p tok v hv
    cases hf : fix with
    | none =>
      rw [hf] at hv
      exact valid_ne_nil (parseVersion_none_fix hv).2.1
    | some fx =>
      rw [hf] at hv
      obtain ⟨t, ht⟩ := parseVersion_some_ok hv
      intro e
      rw [e] at ht
      exact hne fx hf p t ht
  obtain ⟨a0, s, a0', pm, nsTok, ns, nsTok', oldIn, oldOut, newIn, newOut, rfl, rfl, h0, hm, hn, hold, hnew, e1, e2, e3⟩ :=
    (parseReplace_decomp h).ex
  have ea0 := parseString_tok h0
  have ens := parseString_tok hn
  unfold replaceToks
  rw [e1, e2, ← ea0, ← ens]
  rcases hold with ⟨_, ho, hv⟩ | ⟨a1, _, _, ho, hov, _⟩ <;>
  rcases hnew with ⟨_, hno, hnv, _, _⟩ | ⟨t, _, hno, hnv, _⟩
  · simp [ho, hno, hv, hnv]
  · simp [ho, hno, hv, key hnv]
  · simp [ho, hno, key hov, hnv]
  · simp [ho, hno, key hov, key hnv]

example : parseReplace 0 [B "a.b/c", B "=>", B "./x"] none =
      ([B "a.b/c", B "=>", B "./x"], .ok { old := { path := B "a.b/c" }, new := { path := B "./x" }, lineId := 0 }) ∧
    (∀ fx : Fixer, (none : Option Fixer) = some fx → ∀ p' v0, fx p' v0 ≠ .ok []) :=
  ⟨by decide +kernel, fun _ hf => by cases hf⟩

/-- the counterexample mentioned above -/
example : parseReplace 0 [B "a", B "=>", B "b", B "x"] (some fun _ _ => .ok []) =
    ([B "a", B "=>", B "b", []], .ok { old := { path := B "a" }, new := { path := B "b" }, lineId := 0 }) := by
  decide +kernel

/-- ★ without a fixer: fixpoint, exact tokens, and the present versions are valid -/
theorem parseReplace_fix_none {id : Nat} {args args' : List Bytes} {r : Replace}
    (h : parseReplace id args none = (args', .ok r)) :
    (∀ id', parseReplace id' args' none = (args', .ok { r with lineId := id' })) ∧ args' = replaceToks r ∧
    (r.old.version ≠ [] → Semver.isValid r.old.version = true) ∧
    (r.new.version ≠ [] → Semver.isValid r.new.version = true) := by
  obtain ⟨h1, _, h3⟩ := parseReplace_fix h (Or.inl rfl)
  exact ⟨h1, parseReplace_toks h (fun fx hf => by cases hf), (h3 rfl).1, (h3 rfl).2⟩

example : parseReplace 0 [B "=>", B "=>", B "./x"] none =
    ([B "=>", B "=>", B "./x"], .ok { old := { path := B "=>" }, new := { path := B "./x" }, lineId := 0 }) := by
  decide +kernel

/-- ★ with a fixer that is idempotent on its image and returns valid versions only -/
theorem parseReplace_fix_valid {id : Nat} {args args' : List Bytes} {fx : Fixer} {r : Replace}
    (h : parseReplace id args (some fx) = (args', .ok r))
    (hidem : ∀ p' v0 w, fx p' v0 = .ok w → fx p' w = .ok w)
    (hvalid : ∀ p' v0 w, fx p' v0 = .ok w → Semver.isValid w = true) :
    (∀ id', parseReplace id' args' (some fx) = (args', .ok { r with lineId := id' })) ∧ args' = replaceToks r ∧
    (r.old.version ≠ [] → Semver.isValid r.old.version = true) ∧
    (r.new.version ≠ [] → Semver.isValid r.new.version = true) := by
  obtain ⟨a0, s, a0', pm, nsTok, ns, nsTok', oldIn, oldOut, newIn, newOut, _, _, _, _, _, hold, hnew, _, _, _⟩ :=
    (parseReplace_decomp h).ex
  have ho : r.old.version ≠ [] → Semver.isValid r.old.version = true := by
    intro hne
    rcases hold with ⟨_, _, hv⟩ | ⟨a1, _, _, _, hov, _⟩
    · exact absurd hv hne
    · obtain ⟨t, ht⟩ := parseVersion_some_ok hov
      exact hvalid _ _ _ ht
  have hn : r.new.version ≠ [] → Semver.isValid r.new.version = true := by
    intro hne
    rcases hnew with ⟨_, _, hv, _, _⟩ | ⟨t, _, _, hnv, _⟩
    · exact absurd hv hne
    · obtain ⟨t, ht⟩ := parseVersion_some_ok hnv
      exact hvalid _ _ _ ht
  refine ⟨(parseReplace_fix h (Or.inr ⟨fx, rfl, hidem, ho, hn⟩)).1, parseReplace_toks h ?_, ho, hn⟩
  intro fx' hf p' v0 hh
  cases hf
  have := hvalid p' v0 [] hh
  exact valid_ne_nil this rfl

example : parseReplace 0 [B "a.b/c", B "x", B "=>", B "d.e/f", B "y"] (some fun _ _ => .ok (B "v1.0.0")) =
      ([B "a.b/c", B "v1.0.0", B "=>", B "d.e/f", B "v1.0.0"],
       .ok { old := { path := B "a.b/c", version := B "v1.0.0" }, new := { path := B "d.e/f", version := B "v1.0.0" },
             lineId := 0 }) ∧
    (∀ p' v0 w : Bytes, (fun _ _ => .ok (B "v1.0.0") : Fixer) p' v0 = .ok w → (fun _ _ => .ok (B "v1.0.0") : Fixer) p' w = .ok w) ∧
    (∀ p' v0 w : Bytes, (fun _ _ => .ok (B "v1.0.0") : Fixer) p' v0 = .ok w → Semver.isValid w = true) := by
  refine ⟨by decide +kernel, fun _ _ _ h => h, ?_⟩
  intro _ _ w h
  simp only [Except.ok.injEq] at h
  rw [← h]; decide +kernel

end ModVerif.Proofs.ModfileFmtFix
