/-
  EditReparse, part B — one `File.add` step on a line that RENDERS a typed entry (C15 `typed_eq_reparse`, step (1) of the
  route: "render–reparse for one line").

  `Item`: the value of one typed directive (no line identity, no comment-derived field).  `Rend it toks sfx`: the full
  tokens `toks` (verb in front) and the end-of-line comments `sfx` of a line are what the edit operations write for `it` —
  exactly the `acc` relations of `Edit.entries` (Proofs/EditRefineInv.lean).  `ItemOK it`: the value is one the strict parser
  accepts and reads back unchanged (canonical versions matching the path's major version, `go` / `toolchain` texts matching
  their regular expressions, paths that are neither empty nor a lone bracket / comma, raw tokens that need no quotes).
  Under both, the strict `File.add` appends exactly that entry, reports no error and rewrites no token — for every verb.
-/
import ModVerif.Proofs.EditReparseA
import ModVerif.Proofs.EditRefineInvCheck
set_option linter.unusedSimpArgs false
set_option linter.unusedVariables false
namespace ModVerif.Modfile.Edit
open ModVerif ModVerif.Modfile
open ModVerif.Proofs.ModfileFmtDir (PathOK VerOK verb_ne WellFormed values Values)
open ModVerif.Proofs.ModfileFmtLex (punctBytes TokOK)
open ModVerif.Proofs.ModfileFmtLine (TokText tokOK_tokText)
open ModVerif.Proofs.ModfileFmtFix (valid_parseString valid_autoQuote valid_ne_nil)

/-- the value of one directive -/
inductive Item where
  | module (p : Bytes)
  | go (v : Bytes)
  | toolchain (n : Bytes)
  | godebug (k v : Bytes)
  | require (m : ModVersion) (ind : Bool)
  | exclude (m : ModVersion)
  | replace (o n : ModVersion)
  | retract (vi : VersionInterval)
  | tool (p : Bytes)
  deriving DecidableEq, Repr

/-- every typed entry of a file with the id of its line -/
def items (f : File) : List (Nat × Item) :=
  f.module.toList.map (fun m => (m.lineId, Item.module m.mod.path)) ++
  (f.go.toList.map (fun g => (g.lineId, Item.go g.version)) ++
  (f.toolchain.toList.map (fun t => (t.lineId, Item.toolchain t.name)) ++
  (f.godebug.map (fun g => (g.lineId, Item.godebug g.key g.value)) ++
  (f.require.map (fun r => (r.lineId, Item.require r.mod r.indirect)) ++
  (f.exclude.map (fun x => (x.lineId, Item.exclude x.mod)) ++
  (f.replace.map (fun r => (r.lineId, Item.replace r.old r.new)) ++
  (f.retract.map (fun r => (r.lineId, Item.retract r.interval)) ++
   f.tool.map (fun t => (t.lineId, Item.tool t.path)))))))))

/-- a version the strict parser leaves alone: valid and canonical -/
def CanonV (v : Bytes) : Prop := Semver.isValid v = true ∧ Semver.canonicalVersion v = v

/-- a path / version pair `require` and `exclude` accept: canonical version that fits the major version of the path -/
def ModOK (m : ModVersion) : Prop :=
  PathOK m.path ∧ CanonV m.version ∧ ∃ pm, modulePathMajor m.path = some pm ∧ Module.checkPathMajor m.version pm = true

/-- a token written without `AutoQuote` that is nevertheless one identifier token -/
def RawTok (t : Bytes) : Prop := mustQuote t = false ∧ ∀ c ∈ punctBytes, t ≠ [c]

/-- the tokens of a replacement after the verb (the `isEmpty` form of `ModfileFmtFix.replaceToks`) -/
def replArgs (o n : ModVersion) : List Bytes :=
  [autoQuote o.path] ++ (if o.version.isEmpty then [] else [o.version]) ++
    [B "=>", autoQuote n.path] ++ (if n.version.isEmpty then [] else [n.version])

/-- the value is accepted by the strict parser and read back unchanged -/
def ItemOK : Item → Prop
  | .module p => PathOK p
  | .go v => goVersionRE v = true ∧ RawTok v
  | .toolchain n => toolchainRE n = true ∧ RawTok n
  | .godebug k v => Modfile.addGodebug [k ++ [61] ++ v] = some (k, v) ∧ RawTok (k ++ [61] ++ v)
  | .require m _ => ModOK m
  | .exclude m => ModOK m
  | .replace o n => PathOK o.path ∧ PathOK n.path ∧ (o.version ≠ [] → VerOK o.version) ∧ (n.version ≠ [] → VerOK n.version) ∧
      ∀ id, parseReplace id (replArgs o n) none = (replArgs o n, .ok { old := o, new := n, lineId := id })
  | .retract vi => VerOK vi.low ∧ VerOK vi.high
  | .tool p => PathOK p ∧ mustQuote p = false

/-- the line renders the item: the `acc` relations of `Edit.entries` -/
def Rend : Item → List Bytes → List Comment → Prop
  | .module p, t, _ => t = [B "module", autoQuote p]
  | .go v, t, _ => t = [B "go", v]
  | .toolchain n, t, _ => t = [B "toolchain", n]
  | .godebug k v, t, _ => t = [B "godebug", k ++ [61] ++ v]
  | .require m i, t, s => t = [B "require", autoQuote m.path, m.version] ∧ isIndirectS s = i
  | .exclude m, t, _ => t = [B "exclude", autoQuote m.path, m.version]
  | .replace o n, t, _ => t = B "replace" :: replArgs o n
  | .retract vi, t, _ => (∃ x, t = [B "retract", x] ∧ tokIs x vi.low ∧ vi.low = vi.high) ∨
      (∃ x y, t = [B "retract", [91], x, [44], y, [93]] ∧ tokIs x vi.low ∧ tokIs y vi.high)
  | .tool p, t, _ => ∃ x, t = [B "tool", x] ∧ tokIs x p

/-! ### string facts -/

theorem canonV_parseVersion {v : Bytes} (h : CanonV v) (p : Bytes) : parseVersion p v none = (v, .ok v) := by
  have hemp : v.isEmpty = false := by
    cases hv : v with
    | nil => exact absurd hv (valid_ne_nil h.1)
    | cons _ _ => rfl
  simp only [parseVersion, valid_parseString h.1, h.2, hemp]
  simp

theorem verOK_parseVersion_dontFix {v : Bytes} (h : VerOK v) (p : Bytes) :
    parseVersion p v (some dontFixRetract) = (v, .ok v) := by
  simp only [parseVersion, valid_parseString h, dontFixRetract]

theorem tokIs_valid {x v : Bytes} (h : tokIs x v) (hv : VerOK v) : x = v := by
  rcases h with h | h
  · exact h
  · rw [h, valid_autoQuote hv]

theorem rawTok_autoQuote {t : Bytes} (h : RawTok t) : autoQuote t = t := by
  unfold autoQuote; rw [h.1]; rfl

theorem rawTok_parseString {t : Bytes} (h : RawTok t) : parseString t = some (t, t) := by
  have := Proofs.ModfileFmtQuote.parseString_autoQuote t
  rwa [rawTok_autoQuote h] at this

theorem rawTok_tok {t : Bytes} (h : RawTok t) : TokText t ∧ t ≠ [40] ∧ t ≠ [41] :=
  ⟨tokOK_tokText (Proofs.ModfileFmtQuote.autoQuote_unquoted_ident h.1 h.2), h.2 40 (by decide), h.2 41 (by decide)⟩

theorem rawTok_no_nl {t : Bytes} (h : RawTok t) : (10 : UInt8) ∉ t := by
  have := Proofs.ModfileEol.autoQuote_no_nl t
  rwa [rawTok_autoQuote h] at this

theorem rawTok_verb :
    RawTok (B "module") ∧ RawTok (B "go") ∧ RawTok (B "toolchain") ∧ RawTok (B "godebug") ∧ RawTok (B "require") ∧
    RawTok (B "exclude") ∧ RawTok (B "replace") ∧ RawTok (B "retract") ∧ RawTok (B "tool") ∧ RawTok (B "=>") := by
  refine ⟨⟨?_, ?_⟩, ⟨?_, ?_⟩, ⟨?_, ?_⟩, ⟨?_, ?_⟩, ⟨?_, ?_⟩, ⟨?_, ?_⟩, ⟨?_, ?_⟩, ⟨?_, ?_⟩, ⟨?_, ?_⟩, ⟨?_, ?_⟩⟩ <;> decide +kernel

/-! ### one step, verb by verb -/

section steps
variable (st : AddState) (block : Option Comments) (l : Line)

theorem step_module (p : Bytes) (hm : st.file.module = none) :
    File.add st block l (B "module") [autoQuote p] none true =
      ({ st with file := { st.file with module := some { mod := { path := p }, deprecated := parseDeprecation block l.comments, lineId := l.id } } },
       [autoQuote p]) := by
  unfold File.add
  simp only [Bool.not_true, Bool.false_and, Bool.false_eq_true, if_false, beq_self_eq_true, if_true, verb_ne.2.1,
    verb_ne.2.2.1, hm, Option.isSome_none, Proofs.ModfileFmtQuote.parseString_autoQuote]

theorem step_go (v : Bytes) (hg : st.file.go = none) (hre : goVersionRE v = true) :
    File.add st block l (B "go") [v] none true =
      ({ st with file := { st.file with go := some { version := v, lineId := l.id } } }, [v]) := by
  unfold File.add
  simp only [Bool.not_true, Bool.false_and, Bool.false_eq_true, if_false, beq_self_eq_true, if_true, hg,
    Option.isSome_none, hre]

theorem step_toolchain (n : Bytes) (ht : st.file.toolchain = none) (hre : toolchainRE n = true) :
    File.add st block l (B "toolchain") [n] none true =
      ({ st with file := { st.file with toolchain := some { name := n, lineId := l.id } } }, [n]) := by
  unfold File.add
  simp only [Bool.not_true, Bool.false_and, Bool.false_eq_true, if_false, beq_self_eq_true, if_true, verb_ne.1, ht,
    Option.isSome_none, hre]

theorem step_godebug (k v : Bytes) (hg : Modfile.addGodebug [k ++ [61] ++ v] = some (k, v)) :
    File.add st block l (B "godebug") [k ++ [61] ++ v] none true =
      ({ st with file := { st.file with godebug := st.file.godebug ++ [{ key := k, value := v, lineId := l.id }] } },
       [k ++ [61] ++ v]) := by
  unfold File.add
  simp only [Bool.not_true, Bool.false_and, Bool.false_eq_true, if_false, beq_self_eq_true, if_true, verb_ne.2.2.2.1,
    verb_ne.2.2.2.2.1, verb_ne.2.2.2.2.2.1, hg]

theorem step_require (m : ModVersion) (hm : ModOK m) :
    File.add st block l (B "require") [autoQuote m.path, m.version] none true =
      ({ st with file := { st.file with require := st.file.require ++ [{ mod := m, indirect := isIndirect l, lineId := l.id }] } },
       [autoQuote m.path, m.version]) := by
  obtain ⟨v1, v2, v3, v4, v5, v6, v7, v8, v9, v10, v11, v12, v13, v14, v15, v16, v17, v18, v19, v20, v21, v22, v23,
    v24, v25, v26, v27, v28, v29, v30, v31, v32, v33, v34, v35, v36⟩ := verb_ne
  obtain ⟨_, hcv, pm, hpm, hcm⟩ := hm
  unfold File.add
  simp only [Bool.not_true, Bool.false_and, Bool.false_eq_true, if_false, v7, v8, v9, v10, beq_self_eq_true, Bool.true_or,
    if_true, Proofs.ModfileFmtQuote.parseString_autoQuote, canonV_parseVersion hcv, hpm, hcm]

theorem step_exclude (m : ModVersion) (hm : ModOK m) :
    File.add st block l (B "exclude") [autoQuote m.path, m.version] none true =
      ({ st with file := { st.file with exclude := st.file.exclude ++ [{ mod := m, lineId := l.id }] } },
       [autoQuote m.path, m.version]) := by
  obtain ⟨v1, v2, v3, v4, v5, v6, v7, v8, v9, v10, v11, v12, v13, v14, v15, v16, v17, v18, v19, v20, v21, v22, v23,
    v24, v25, v26, v27, v28, v29, v30, v31, v32, v33, v34, v35, v36⟩ := verb_ne
  obtain ⟨_, hcv, pm, hpm, hcm⟩ := hm
  unfold File.add
  simp only [Bool.not_true, Bool.false_and, Bool.false_eq_true, if_false, v11, v12, v13, v14, v15, beq_self_eq_true,
    Bool.or_true, Bool.false_or, if_true, Proofs.ModfileFmtQuote.parseString_autoQuote, canonV_parseVersion hcv, hpm, hcm]

theorem step_replace (o n : ModVersion) (args : List Bytes)
    (hr : ∀ id, parseReplace id args none = (args, .ok { old := o, new := n, lineId := id })) :
    File.add st block l (B "replace") args none true =
      ({ st with file := { st.file with replace := st.file.replace ++ [{ old := o, new := n, lineId := l.id }] } }, args) := by
  obtain ⟨v1, v2, v3, v4, v5, v6, v7, v8, v9, v10, v11, v12, v13, v14, v15, v16, v17, v18, v19, v20, v21, v22, v23,
    v24, v25, v26, v27, v28, v29, v30, v31, v32, v33, v34, v35, v36⟩ := verb_ne
  unfold File.add
  simp only [Bool.not_true, Bool.false_and, Bool.false_eq_true, if_false, v16, v17, v18, v19, v20, v21,
    Bool.or_self, beq_self_eq_true, if_true, hr l.id]

theorem step_retract (vi : VersionInterval) (args : List Bytes)
    (hp : parseVersionInterval [] args (some dontFixRetract) = (args, .ok (vi, []))) :
    File.add st block l (B "retract") args none true =
      ({ st with file := { st.file with retract := st.file.retract ++
          [{ interval := vi, rationale := parseDirectiveComment block l.comments, lineId := l.id }] } }, args) := by
  obtain ⟨v1, v2, v3, v4, v5, v6, v7, v8, v9, v10, v11, v12, v13, v14, v15, v16, v17, v18, v19, v20, v21, v22, v23,
    v24, v25, v26, v27, v28, v29, v30, v31, v32, v33, v34, v35, v36⟩ := verb_ne
  unfold File.add
  simp only [Bool.not_true, Bool.false_and, Bool.false_eq_true, if_false, v22, v23, v24, v25, v26, v27, v28,
    Bool.or_self, beq_self_eq_true, if_true, Bool.and_true, hp, List.isEmpty_nil]

theorem step_tool (p : Bytes) (x : Bytes) (hx : parseString x = some (p, x)) :
    File.add st block l (B "tool") [x] none true =
      ({ st with file := { st.file with tool := st.file.tool ++ [{ path := p, lineId := l.id }] } }, [x]) := by
  obtain ⟨v1, v2, v3, v4, v5, v6, v7, v8, v9, v10, v11, v12, v13, v14, v15, v16, v17, v18, v19, v20, v21, v22, v23,
    v24, v25, v26, v27, v28, v29, v30, v31, v32, v33, v34, v35, v36⟩ := verb_ne
  unfold File.add
  simp only [Bool.not_true, Bool.false_and, Bool.false_eq_true, if_false, beq_self_eq_true, if_true,
    v29, v30, v31, v32, v33, v34, v35, v36, Bool.or_self, hx]

end steps

/-- the retract tokens of a valid interval are a fixpoint of `parseVersionInterval` -/
theorem retract_args {vi : VersionInterval} {t : List Bytes} {s : List Comment} (hr : Rend (.retract vi) t s)
    (hok : ItemOK (.retract vi)) :
    ∃ args, t = B "retract" :: args ∧ parseVersionInterval [] args (some dontFixRetract) = (args, .ok (vi, [])) ∧
      (args = [vi.low] ∨ args = [[91], vi.low, [44], vi.high, [93]]) := by
  obtain ⟨hlo, hhi⟩ := hok
  rcases hr with ⟨x, rfl, hx, heq⟩ | ⟨x, y, rfl, hx, hy⟩
  · have hxl := tokIs_valid hx hlo
    subst hxl
    obtain ⟨d, tl, hd, _⟩ := Proofs.ModfileFmtFix.valid_head hlo
    refine ⟨[vi.low], rfl, ?_, Or.inl rfl⟩
    have := Proofs.ModfileFmtFix.parseVersionInterval_single (p := []) (rest := []) (fix := some dontFixRetract)
      (by rw [hd]; simp) (by rw [hd]; simp) (verOK_parseVersion_dontFix hlo [])
    rw [this]
    cases vi
    simp only at heq hd ⊢
    subst heq
    rfl
  · have hxl := tokIs_valid hx hlo
    have hyl := tokIs_valid hy hhi
    subst hxl hyl
    refine ⟨_, rfl, ?_, Or.inr rfl⟩
    exact Proofs.ModfileFmtFix.parseVersionInterval_pair (verOK_parseVersion_dontFix hlo []) (verOK_parseVersion_dontFix hhi [])

/-- the tool token reads back as the path -/
theorem tool_arg {p : Bytes} {t : List Bytes} {s : List Comment} (hr : Rend (.tool p) t s) (hok : ItemOK (.tool p)) :
    t = [B "tool", p] ∧ parseString p = some (p, p) := by
  obtain ⟨x, rfl, hx⟩ := hr
  have hraw : RawTok p := ⟨hok.2, hok.1.2⟩
  have : x = p := by
    rcases hx with h | h
    · exact h
    · rw [h, rawTok_autoQuote hraw]
  subst this
  exact ⟨rfl, rawTok_parseString hraw⟩

end ModVerif.Modfile.Edit
