/-
  Tie proofs for the regenerated semver functions, part 4: the accessors (IsValid, Canonical, Major, MajorMinor,
  Prerelease, Build).
-/
import ModVerif.Proofs.TieFnSemverParse
import ModVerif.Proofs.SemverGrammar
namespace ModVerif.TieFnSemver
open ModVerif ModVerif.GoRt
open ModVerif.Generated.Semver (parsed)

/-! ### the accessors -/

theorem parse_lens {v : Bytes} {p : Semver.Parsed} (h : Semver.parse v = some p) :
    1 + p.major.length ≤ v.length ∧ p.build.length ≤ v.length := by
  have hd := Semver.parse_decomp h
  cases hd with
  | short1 maj nmaj => simp; omega
  | short2 maj min nmaj nmin => simp; omega
  | full maj min pat pre bld nmaj nmin npat hpre hbld => simp; omega

theorem IsValid_ok (v : Bytes) (fuel : Nat) (hf : 2 * v.length ≤ fuel) :
    Generated.Semver.IsValid fuel v = .ok (Semver.isValid v) := by
  unfold Generated.Semver.IsValid Semver.isValid
  rw [parse_ok v fuel hf]
  cases Semver.parse v <;> rfl

theorem Prerelease_ok (v : Bytes) (fuel : Nat) (hf : 2 * v.length ≤ fuel) :
    Generated.Semver.Prerelease fuel v = .ok (Semver.prerelease v) := by
  unfold Generated.Semver.Prerelease Semver.prerelease
  rw [parse_ok v fuel hf]
  cases Semver.parse v <;> rfl

theorem Build_ok (v : Bytes) (fuel : Nat) (hf : 2 * v.length ≤ fuel) :
    Generated.Semver.Build fuel v = .ok (Semver.build v) := by
  unfold Generated.Semver.Build Semver.build
  rw [parse_ok v fuel hf]
  cases Semver.parse v <;> rfl

theorem Major_ok (v : Bytes) (fuel : Nat) (hf : 2 * v.length ≤ fuel) :
    Generated.Semver.Major fuel v = .ok (Semver.major v) := by
  unfold Generated.Semver.Major Semver.major
  rw [parse_ok v fuel hf]
  cases h : Semver.parse v with
  | none => rfl
  | some p =>
    have hl := (parse_lens h).1
    have : (1 : Int) + len p.major = ((1 + p.major.length : Nat) : Int) := by simp [len_eq]
    simp only [bind_ok, Bool.not_true, Bool.false_eq_true, if_false, ofParsed, this, sliceTo_natCast hl, pure_eq_ok]

theorem Canonical_ok (v : Bytes) (fuel : Nat) (hf : 2 * v.length ≤ fuel) :
    Generated.Semver.Canonical fuel v = .ok (Semver.canonical v) := by
  unfold Generated.Semver.Canonical Semver.canonical
  rw [parse_ok v fuel hf]
  cases h : Semver.parse v with
  | none => rfl
  | some p =>
    have hl := (parse_lens h).2
    have : len v - len p.build = ((v.length - p.build.length : Nat) : Int) := by simp [len_eq]; omega
    simp only [bind_ok, Bool.not_true, Bool.false_eq_true, if_false, ofParsed, this,
      sliceTo_natCast (Nat.sub_le _ _), pure_eq_ok]
    cases hb : p.build <;> cases hs : p.short <;> simp

theorem MajorMinor_ok (v : Bytes) (fuel : Nat) (hf : 2 * v.length ≤ fuel) :
    Generated.Semver.MajorMinor fuel v = .ok (Semver.majorMinor v) := by
  unfold Generated.Semver.MajorMinor Semver.majorMinor
  rw [parse_ok v fuel hf]
  cases h : Semver.parse v with
  | none => rfl
  | some p =>
    have hl := (parse_lens h).1
    have hi : (1 : Int) + len p.major = ((1 + p.major.length : Nat) : Int) := by simp [len_eq]
    simp only [bind_ok, Bool.not_true, Bool.false_eq_true, if_false, ofParsed, hi]
    generalize p.minor = minor
    generalize 1 + p.major.length = i at *
    have hj : (i : Int) + 1 + len minor = ((i + 1 + minor.length : Nat) : Int) := by simp [len_eq]
    have hi1 : (i : Int) + 1 = ((i + 1 : Nat) : Int) := by simp
    simp only [hj]
    simp only [hi1, sliceTo_natCast hl, pure_eq_ok]
    generalize hJ : i + 1 + minor.length = j at *
    clear hi hj hi1
    by_cases hjl : j ≤ v.length
    · have hjl' : (j : Int) ≤ len v := by simp [len_eq]; omega
      have hil : i < v.length := by omega
      simp only [hjl', decide_true, if_true, idx_natCast hil, bind_ok, byte_eq_int (n := 46) (d := 46) rfl]
      simp only [hjl, decide_true, Bool.true_and, List.getElem?_eq_getElem hil]
      by_cases hdot : v[i] = 46
      · simp only [hdot, decide_true, if_true, slice_natCast (v := v) (a := i + 1) (b := j) (by omega) hjl,
          bind_ok]
        by_cases hm : List.drop (i + 1) (List.take j v) = minor
        · simp [hm, sliceTo_natCast hjl]
        · simp [hm]
      · simp [hdot]
    · have hjl' : ¬ (j : Int) ≤ len v := by simp [len_eq]; omega
      simp [hjl', hjl]

end ModVerif.TieFnSemver
