/-
  C02: algebra of `GoStrings.trimSpace` (= Go's strings.TrimSpace / bytes.TrimSpace), part c: the results.

  For EVERY byte string `s` (well-formed UTF-8 or not):
  * `trimSpace_infix`       `s = p ++ trimSpace s ++ e` where `p` and `e` are concatenations of well-formed
                            encodings of white-space runes (`SpaceSeq`);
  * `trimSpace_first/last`  a non-empty result starts (forward decode) and ends (backward decode) with a
                            rune that is not white space; its last byte is not an ASCII white-space byte;
  * `trimSpace_idem`        `trimSpace (trimSpace s) = trimSpace s`;
  * `trimSpace_eq_nil_iff`  `trimSpace s = [] ↔ SpaceSeq s`; in particular a blank line prefix trims to
                            nothing (`trimSpace_blank`, `trimSpace_tabs`) and a string whose first rune is
                            not white space does not (`trimSpace_ne_nil`);
  * for a comment text (`CommentOK`): `trimSpace_comment`, `trimSpace_comment_last`.
-/
import ModVerif.Proofs.ModfileFmtTrimRight
import ModVerif.Proofs.ModfileFmtLex
namespace ModVerif.Proofs.ModfileFmtTrim
open ModVerif ModVerif.GoStrings ModVerif.Proofs.ModfileLex ModVerif.Proofs.ModfileFmtUtf8
open ModVerif.Proofs.ModfileFmtLex

/-! ### more on `SpaceSeq` -/

theorem SpaceSeq.append {a b : Bytes} (ha : SpaceSeq a) (hb : SpaceSeq b) : SpaceSeq (a ++ b) := by
  induction ha with
  | nil => simpa using hb
  | cons seg t r hd hs _ ih =>
    rw [List.append_assoc]
    exact SpaceSeq.cons seg (t ++ b) r hd hs ih

/-- an ASCII white-space byte (9–13, 32) -/
def AsciiSpace (b : UInt8) : Prop := b.toNat < 0x80 ∧ UnicodePrint.isSpace b.toNat = true

instance (b : UInt8) : Decidable (AsciiSpace b) :=
  inferInstanceAs (Decidable (b.toNat < 0x80 ∧ UnicodePrint.isSpace b.toNat = true))

theorem spaceSeq_of_ascii : ∀ (s : Bytes), (∀ b ∈ s, AsciiSpace b) → SpaceSeq s := by
  intro s
  induction s with
  | nil => intro _; exact SpaceSeq.nil
  | cons b t ih =>
    intro h
    have hb := h b (by simp)
    have := SpaceSeq.cons [b] t b.toNat (by simp [Utf8.decode, hb.1]) hb.2
      (ih (fun c hc => h c (by simp [hc])))
    simpa using this

/-- the left trim removes a concatenation of white-space encodings completely -/
theorem trimLeftAux_spaceSeq {s : Bytes} (h : SpaceSeq s) :
    ∀ fuel, s.length ≤ fuel → trimLeftSpaceAux fuel s = [] := by
  induction h with
  | nil =>
    intro fuel _
    cases fuel <;> simp [trimLeftSpaceAux]
  | cons seg t r hd hs _ ih =>
    intro fuel hl
    rw [List.length_append] at hl
    have hw := (decode_width hd).1
    have hdec := decode_take hd t
    rw [List.take_length] at hdec
    cases fuel with
    | zero => omega
    | succ fuel =>
      cases hst : seg ++ t with
      | nil =>
        have : (seg ++ t).length = 0 := by rw [hst]; rfl
        rw [List.length_append] at this; omega
      | cons b u =>
        unfold trimLeftSpaceAux
        simp only
        rw [← hst]
        have hdr : Utf8.decodeRune (seg ++ t) = (r, seg.length) := by
          unfold Utf8.decodeRune; rw [hdec]
        rw [hdr]
        simp only [hs, if_true]
        rw [List.drop_left]
        exact ih fuel (by omega)

theorem trimLeftSpace_spaceSeq {s : Bytes} (h : SpaceSeq s) : trimLeftSpace s = [] :=
  trimLeftAux_spaceSeq h s.length (Nat.le_refl _)

/-! ### 1. blank strings -/

theorem trimSpace_nil : trimSpace [] = [] := by
  unfold trimSpace
  rw [trimLeftSpace_nil, trimRightSpace_nil]

/-- a concatenation of white-space encodings trims to nothing -/
theorem trimSpace_spaceSeq {s : Bytes} (h : SpaceSeq s) : trimSpace s = [] := by
  unfold trimSpace
  rw [trimLeftSpace_spaceSeq h, trimRightSpace_nil]

/-- a string of ASCII white-space bytes trims to nothing -/
theorem trimSpace_asciiSpace (s : Bytes) (h : ∀ b ∈ s, AsciiSpace b) : trimSpace s = [] :=
  trimSpace_spaceSeq (spaceSeq_of_ascii s h)

example : ∀ b ∈ ([32, 9, 11, 12, 13, 10] : Bytes), AsciiSpace b := by decide

/-- a string of spaces, tabs and carriage returns trims to nothing -/
theorem trimSpace_blank (s : Bytes) (h : ∀ b ∈ s, b = 32 ∨ b = 9 ∨ b = 13) : trimSpace s = [] := by
  apply trimSpace_asciiSpace
  intro b hb
  rcases h b hb with rfl | rfl | rfl <;> decide

example : ∀ b ∈ ([32, 9, 9, 13] : Bytes), b = 32 ∨ b = 9 ∨ b = 13 := by decide

/-- a line prefix of tabs only is blank -/
theorem trimSpace_tabs (n : Nat) : trimSpace (List.replicate n 9) = [] := by
  apply trimSpace_blank
  intro b hb
  exact Or.inr (Or.inl (List.eq_of_mem_replicate hb))

/-! ### 2. what is removed, and how the result starts and ends -/

/-- the right trim of a string that starts with a rune that is not white space is not empty -/
theorem trimRightSpace_ne_nil (s : Bytes) (hne : s ≠ [])
    (hs : UnicodePrint.isSpace (Utf8.decodeRune s).1 = false) : trimRightSpace s ≠ [] := by
  rcases trimRightSpace_cases s with ⟨_, hseq⟩ | ⟨_, h, _⟩
  · have := hseq.first_space hne
    rw [hs] at this
    cases this
  · exact h

example : ([120, 32] : Bytes) ≠ [] ∧ UnicodePrint.isSpace (Utf8.decodeRune [120, 32]).1 = false := by decide

/-- `trimSpace s` is an infix of `s`; what is removed on either side is a concatenation of well-formed
    encodings of white-space runes. -/
theorem trimSpace_infix (s : Bytes) :
    ∃ p e, s = p ++ trimSpace s ++ e ∧ SpaceSeq p ∧ SpaceSeq e := by
  obtain ⟨p, hp, heq, _⟩ := trimLeftSpace_cases s
  unfold trimSpace
  rcases trimRightSpace_cases (trimLeftSpace s) with ⟨h0, hseq⟩ | ⟨sp, _, hsp, heq2, _⟩
  · refine ⟨p, trimLeftSpace s, ?_, hp, hseq⟩
    rw [h0]; simpa using heq
  · refine ⟨p, sp, ?_, hp, hsp⟩
    rw [List.append_assoc, ← heq2]
    exact heq

/-- a non-empty result ends (backward decode, as `DecodeLastRune`) with a rune that is not white space -/
theorem trimSpace_last_rune (s : Bytes) (hne : trimSpace s ≠ []) :
    UnicodePrint.isSpace (decodeLastRuneRev (trimSpace s).reverse).1 = false := by
  unfold trimSpace at hne ⊢
  rcases trimRightSpace_cases (trimLeftSpace s) with ⟨h0, _⟩ | ⟨_, _, _, _, h⟩
  · exact absurd h0 hne
  · exact h

/-- a non-empty result starts (forward decode) with a rune that is not white space -/
theorem trimSpace_first_rune (s : Bytes) (hne : trimSpace s ≠ []) :
    UnicodePrint.isSpace (Utf8.decodeRune (trimSpace s)).1 = false := by
  unfold trimSpace at hne ⊢
  obtain ⟨_, _, _, hl | hl⟩ := trimLeftSpace_cases s
  · rw [hl, trimRightSpace_nil] at hne
    exact absurd rfl hne
  · rcases trimRightSpace_cases (trimLeftSpace s) with ⟨h0, _⟩ | ⟨sp, hne', hsp, heq, _⟩
    · exact absurd h0 hne
    · rw [heq, decodeRune_append_ncs _ sp hne' hsp.noContStart] at hl
      exact hl

example : trimSpace [32, 120, 32] ≠ [] := by decide

/-- the last byte of the result is not an ASCII white-space byte -/
theorem trimSpace_last_byte (s : Bytes) (b : UInt8) (h : (trimSpace s).getLast? = some b) :
    ¬ AsciiSpace b := by
  intro ⟨hb, hsp⟩
  have hne : trimSpace s ≠ [] := by
    intro h0; rw [h0] at h; simp at h
  have hl := trimSpace_last_rune s hne
  have hrev : (trimSpace s).reverse.head? = some b := by
    rw [List.head?_reverse]; exact h
  cases hr : (trimSpace s).reverse with
  | nil => rw [hr] at hrev; simp at hrev
  | cons c rest =>
    rw [hr] at hrev hl
    simp only [List.head?_cons, Option.some.injEq] at hrev
    subst hrev
    rcases decodeLast_cases c rest with ⟨_, hd⟩ | ⟨hge, _⟩ | ⟨hge, _⟩
    · rw [hd, hsp] at hl
      cases hl
    · omega
    · omega

/-- the result does not end in a space, tab, carriage return or newline (or VT, FF) -/
theorem trimSpace_last (s : Bytes) (b : UInt8) (h : (trimSpace s).getLast? = some b) :
    b ≠ 32 ∧ b ≠ 9 ∧ b ≠ 13 ∧ b ≠ 10 ∧ b ≠ 11 ∧ b ≠ 12 := by
  have := trimSpace_last_byte s b h
  refine ⟨?_, ?_, ?_, ?_, ?_, ?_⟩ <;> (rintro rfl; exact this (by decide))

example : (trimSpace [32, 120, 32]).getLast? = some 120 := by decide

/-! ### 3. idempotence -/

/-- fixed points: a string that starts (forward decode) and ends (backward decode) with a rune that is
    not white space is left alone -/
theorem trimSpace_fix (u : Bytes) (hne : u ≠ [])
    (hf : UnicodePrint.isSpace (Utf8.decodeRune u).1 = false)
    (hl : UnicodePrint.isSpace (decodeLastRuneRev u.reverse).1 = false) : trimSpace u = u := by
  unfold trimSpace
  rw [trimLeftSpace_fix u hf, trimRightSpace_fix u hne hl]

example : ([120, 32, 121] : Bytes) ≠ [] ∧
    UnicodePrint.isSpace (Utf8.decodeRune [120, 32, 121]).1 = false ∧
    UnicodePrint.isSpace (decodeLastRuneRev ([120, 32, 121] : Bytes).reverse).1 = false := by decide

/-- `TrimSpace` is idempotent, on every byte string -/
theorem trimSpace_idem (s : Bytes) : trimSpace (trimSpace s) = trimSpace s := by
  by_cases hne : trimSpace s = []
  · rw [hne, trimSpace_nil]
  · exact trimSpace_fix _ hne (trimSpace_first_rune s hne) (trimSpace_last_rune s hne)

/-! ### 4. when the result is empty -/

/-- a string whose first rune is not white space does not trim to nothing -/
theorem trimSpace_ne_nil (s : Bytes) (hne : s ≠ [])
    (hs : UnicodePrint.isSpace (Utf8.decodeRune s).1 = false) : trimSpace s ≠ [] := by
  unfold trimSpace
  rw [trimLeftSpace_fix s hs]
  exact trimRightSpace_ne_nil s hne hs

example : ([120, 32] : Bytes) ≠ [] ∧ UnicodePrint.isSpace (Utf8.decodeRune [120, 32]).1 = false := by decide

/-- then the left trim does nothing: the result is a prefix -/
theorem trimSpace_prefix_of_first (s : Bytes) (hs : UnicodePrint.isSpace (Utf8.decodeRune s).1 = false) :
    ∃ e, s = trimSpace s ++ e ∧ SpaceSeq e := by
  unfold trimSpace
  rw [trimLeftSpace_fix s hs]
  rcases trimRightSpace_cases s with ⟨h0, hseq⟩ | ⟨sp, _, hsp, heq, _⟩
  · exact ⟨s, by rw [h0]; rfl, hseq⟩
  · exact ⟨sp, heq, hsp⟩

/-- exactly the concatenations of white-space encodings trim to nothing -/
theorem trimSpace_eq_nil_iff (s : Bytes) : trimSpace s = [] ↔ SpaceSeq s := by
  constructor
  · intro h
    obtain ⟨p, e, heq, hp, he⟩ := trimSpace_infix s
    rw [h, List.append_nil] at heq
    rw [heq]
    exact hp.append he
  · exact trimSpace_spaceSeq

/-! ### comment texts -/

theorem commentOK_cons {c : Bytes} (h : CommentOK c) : ∃ t, c = 47 :: 47 :: t := by
  obtain ⟨hp, _⟩ := h
  cases c with
  | nil => simp [isPrefixOfB] at hp
  | cons a c1 =>
    cases c1 with
    | nil => simp [isPrefixOfB] at hp
    | cons b t =>
      simp [isPrefixOfB] at hp
      obtain ⟨rfl, rfl⟩ := hp
      exact ⟨t, rfl⟩

/-- Trimming a comment text only removes a suffix (a concatenation of white-space encodings); the result
    still starts with `//` and has no newline. -/
theorem trimSpace_comment_strong {c : Bytes} (h : CommentOK c) :
    ∃ e, c = trimSpace c ++ e ∧ SpaceSeq e ∧ CommentOK (trimSpace c) := by
  obtain ⟨t, rfl⟩ := commentOK_cons h
  have hs : UnicodePrint.isSpace (Utf8.decodeRune (47 :: 47 :: t)).1 = false := by
    rw [decodeRune_ascii 47 _ (by decide)]; decide
  obtain ⟨e, heq, he⟩ := trimSpace_prefix_of_first _ hs
  have hne := trimSpace_ne_nil _ (by simp) hs
  refine ⟨e, heq, he, ?_, ?_⟩
  · -- the result keeps both slashes
    generalize trimSpace (47 :: 47 :: t) = u at heq hne ⊢
    cases u with
    | nil => exact absurd rfl hne
    | cons a u1 =>
      cases u1 with
      | nil =>
        exfalso
        simp only [List.cons_append, List.nil_append, List.cons.injEq] at heq
        obtain ⟨_, heq⟩ := heq
        rw [← heq] at he
        have := he.head_ascii (by decide)
        revert this; decide
      | cons b u2 =>
        simp only [List.cons_append, List.cons.injEq] at heq
        obtain ⟨rfl, rfl, _⟩ := heq
        simp [isPrefixOfB]
  · intro hmem
    apply h.2
    rw [heq]
    exact List.mem_append_left _ hmem

theorem trimSpace_comment {c : Bytes} (h : CommentOK c) :
    ∃ e, c = trimSpace c ++ e ∧ CommentOK (trimSpace c) := by
  obtain ⟨e, h1, _, h2⟩ := trimSpace_comment_strong h
  exact ⟨e, h1, h2⟩

/-- the trimmed comment does not end in an ASCII blank, carriage return or newline -/
theorem trimSpace_comment_last {c : Bytes} (_h : CommentOK c) :
    ∀ b, (trimSpace c).getLast? = some b → b ≠ 32 ∧ b ≠ 9 ∧ b ≠ 13 ∧ b ≠ 10 := by
  intro b hb
  obtain ⟨h1, h2, h3, h4, _⟩ := trimSpace_last c b hb
  exact ⟨h1, h2, h3, h4⟩

/-- a trimmed comment is a fixed point of `trimSpace` -/
theorem trimSpace_comment_idem {c : Bytes} (_h : CommentOK c) :
    trimSpace (trimSpace c) = trimSpace c := trimSpace_idem c

example : CommentOK [47, 47, 32, 120, 32, 9, 13] := ⟨by decide, by decide⟩
example : trimSpace [47, 47, 32, 120, 32, 9, 13] = [47, 47, 32, 120] := by decide
/-- non-ASCII white space (U+00A0, U+3000) and an ill-formed tail byte -/
example : trimSpace [0xC2, 0xA0, 47, 47, 0x80, 0xE3, 0x80, 0x80, 32] = [47, 47, 0x80] := by decide

end ModVerif.Proofs.ModfileFmtTrim
