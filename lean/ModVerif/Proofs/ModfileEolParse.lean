/-
  C02, end-of-line comments, stage (iii), part c: the parser on a stream of token records — token lines
  (`parseLineLoop` / `parseLine`), top-level lines and block headers (`parseStmtLoop`).  Same structure as
  Proofs/ModfileFmtParse.lean, but the stream elements are full `Token` records, a line may end with an
  end-of-line comment token instead of a newline, the start and end positions of the line built are read off
  the records, and the comments the lexer records meanwhile are accounted for (`fut`).
-/
import ModVerif.Proofs.ModfileEolRelex
import ModVerif.Proofs.ModfileFmtParse2
namespace ModVerif.Proofs.ModfileEol
open ModVerif ModVerif.Modfile
open ModVerif.Proofs.ModfileFmtLex ModVerif.Proofs.ModfileFmtLine ModVerif.Proofs.ModfileFmtStream
open ModVerif.Proofs.ModfileFmtTree ModVerif.Proofs.ModfileFmtParse

variable {D : Bytes}

/-! ### line tokens as records -/

/-- a list of line-token records: each text is a line token and the kind is the one the text determines -/
def LT (toks : List Token) : Prop := ∀ tok ∈ toks, TokText tok.text ∧ tok.kind = kindOf tok.text

theorem LT.head {t : Token} {r : List Token} (h : LT (t :: r)) : TokText t.text ∧ t.kind = kindOf t.text := h t (by simp)
theorem LT.tail {t : Token} {r : List Token} (h : LT (t :: r)) : LT r := fun x hx => h x (by simp [hx])

theorem lt_not_eol {t : Token} (h : TokText t.text ∧ t.kind = kindOf t.text) : t.kind.isEOL = false := by
  rw [h.2]; exact tokText_not_eol h.1

theorem lt_ne_eof {t : Token} (h : TokText t.text ∧ t.kind = kindOf t.text) : t.kind ≠ .eof := by
  rw [h.2]; exact tokText_ne_eof h.1

theorem lt_beq_lparen {t : Token} (h : TokText t.text ∧ t.kind = kindOf t.text) :
    (t.kind == TokKind.punct 40) = decide (t.text = [40]) := by
  rw [h.2]; exact tokText_beq_lparen h.1

theorem lt_beq_rparen {t : Token} (h : TokText t.text ∧ t.kind = kindOf t.text) :
    (t.kind == TokKind.punct 41) = decide (t.text = [41]) := by
  rw [h.2]; exact tokText_beq_rparen h.1

/-- the end position of the last token, or `e` if there is none -/
def lastEnd (e : Position) : List Token → Position
  | [] => e
  | t :: r => lastEnd t.endPos r

theorem lastEnd_cons (e e' : Position) (t : Token) (r : List Token) : lastEnd e (t :: r) = lastEnd e' (t :: r) := rfl

theorem tokStrT_LT (ts : List Bytes) (hts : ∀ t ∈ ts, TokText t) (rest : Bytes) : LT (tokStrT D ts rest) := by
  induction ts with
  | nil => intro x hx; simp [tokStrT] at hx
  | cons t ts ih =>
    intro x hx
    simp only [tokStrT, List.mem_cons] at hx
    rcases hx with rfl | hx
    · exact ⟨hts t (by simp), rfl⟩
    · exact ih (fun t' h => hts t' (by simp [h])) x hx

theorem tokStrT_texts (ts : List Bytes) (rest : Bytes) : (tokStrT D ts rest).map (·.text) = ts := by
  induction ts with
  | nil => rfl
  | cons t ts ih => simp [tokStrT, tokT, ih]

theorem tokStrT_lastEnd (ts : List Bytes) (rest : Bytes) (e : Position) (hne : ts ≠ []) :
    lastEnd e (tokStrT D ts rest) = pa D rest := by
  induction ts generalizing e with
  | nil => exact absurd rfl hne
  | cons t ts ih =>
    cases ts with
    | nil => simp [tokStrT, lastEnd, tokT, tokStr]
    | cons t2 r => exact ih (tokT D t (tokStr (t2 :: r) (sepAfter t) ++ rest)).endPos (by simp)

theorem tokStrT_ne (ts : List Bytes) (rest : Bytes) (hne : ts ≠ []) : tokStrT D ts rest ≠ [] := by
  cases ts with
  | nil => exact absurd rfl hne
  | cons t r => simp [tokStrT]

theorem tokStrT_head (t : Bytes) (ts : List Bytes) (rest : Bytes) :
    tokStrT D (t :: ts) rest = tokT D t (tokStr ts (sepAfter t) ++ rest) :: tokStrT D ts rest := rfl

theorem tokStr_cons_nil (t : Bytes) (ts : List Bytes) : tokStr (t :: ts) [] = t ++ tokStr ts (sepAfter t) := by
  simp [tokStr]

/-! ### token lines (inside a block) -/

theorem parseLineLoop_E : ∀ (toks : List Token) (acc : List Bytes) (i : Input) (s e : Position) (fuel : Nat)
    (eol : Token) (T : List Token), LT toks → eol.kind.isEOL = true → eol.kind ≠ .eof →
    EStream D (toks ++ eol :: T) i → toks.length + 1 ≤ fuel →
    ∃ l i', parseLineLoop fuel i s e acc = .ok (l, i') ∧ l.token = acc.reverse ++ toks.map (·.text) ∧
      l.comments = {} ∧ l.inBlock = true ∧ l.start = s ∧ l.«end» = lastEnd e toks ∧
      EStream D T i' ∧ fut T i' = fut (toks ++ eol :: T) i := by
  intro toks
  induction toks with
  | nil =>
    intro acc i s e fuel eol T _ heol hne hS hf
    obtain ⟨n, rfl⟩ : ∃ n, fuel = n + 1 := ⟨fuel - 1, by omega⟩
    simp only [List.nil_append] at hS
    obtain ⟨i1, hl, hn, hS1, hf1⟩ := EStream.lex hS hne
    unfold parseLineLoop
    simp only [hl, bind, Except.bind, heol, if_true]
    exact ⟨_, _, rfl, by simp, rfl, rfl, rfl, rfl, hS1.setId _, hf1⟩
  | cons t toks ih =>
    intro acc i s e fuel eol T hlt heol hne hS hf
    obtain ⟨n, rfl⟩ : ∃ n, fuel = n + 1 := ⟨fuel - 1, by omega⟩
    have ht := hlt.head
    simp only [List.cons_append] at hS
    obtain ⟨i1, hl, hn, hS1, hf1⟩ := EStream.lex hS (lt_ne_eof ht)
    obtain ⟨l, i', hr, htok, hcm, hib, hst, hen, hS', hf'⟩ := ih (t.text :: acc) i1 s t.endPos n eol T
      hlt.tail heol hne hS1 (by simp at hf; omega)
    unfold parseLineLoop
    simp only [hl, bind, Except.bind, lt_not_eol ht, Bool.false_eq_true, if_false]
    exact ⟨l, i', hr, by rw [htok]; simp, hcm, hib, hst, by rw [hen]; rfl, hS', hf'.trans hf1⟩

theorem parseLine_E (t0 : Token) (toks : List Token) (i : Input) (fuel : Nat) (eol : Token) (T : List Token)
    (hlt : LT (t0 :: toks)) (heol : eol.kind.isEOL = true) (hne : eol.kind ≠ .eof)
    (hS : EStream D ((t0 :: toks) ++ eol :: T) i) (hf : toks.length + 1 ≤ fuel) :
    ∃ l i', parseLine fuel i = .ok (l, i') ∧ l.token = (t0 :: toks).map (·.text) ∧ l.comments = {} ∧
      l.inBlock = true ∧ l.start = t0.pos ∧ l.«end» = lastEnd t0.endPos toks ∧
      EStream D T i' ∧ fut T i' = fut ((t0 :: toks) ++ eol :: T) i := by
  have ht := hlt.head
  simp only [List.cons_append] at hS
  obtain ⟨i1, hl, hn, hS1, hf1⟩ := EStream.lex hS (lt_ne_eof ht)
  obtain ⟨l, i', hr, htok, hcm, hib, hst, hen, hS', hf'⟩ := parseLineLoop_E toks [t0.text] i1 t0.pos t0.endPos fuel
    eol T hlt.tail heol hne hS1 hf
  unfold parseLine
  simp only [hl, bind, Except.bind, lt_not_eol ht, Bool.false_eq_true, if_false]
  exact ⟨l, i', hr, by rw [htok]; simp, hcm, hib, hst, hen, hS', hf'.trans hf1⟩

/-! ### top-level lines -/

theorem parseStmtLoop_lineE : ∀ (n : Nat) (toks : List Token), toks.length ≤ n → ∀ (acc : List Bytes) (i : Input)
    (s e : Position) (fuel : Nat) (eol : Token) (T : List Token), LT toks →
    lineTailOK (toks.map (·.text)) = true → eol.kind.isEOL = true → eol.kind ≠ .eof →
    EStream D (toks ++ eol :: T) i → toks.length + 1 ≤ fuel →
    ∃ l i', parseStmtLoop fuel i s e acc = .ok (.line l, i') ∧ l.token = acc.reverse ++ toks.map (·.text) ∧
      l.comments = {} ∧ l.inBlock = false ∧ l.start = s ∧ l.«end» = lastEnd e toks ∧
      EStream D T i' ∧ fut T i' = fut (toks ++ eol :: T) i := by
  intro n
  induction n with
  | zero =>
    intro toks hlen acc i s e fuel eol T _ _ heol hne hS hf
    have : toks = [] := List.eq_nil_of_length_eq_zero (by omega)
    subst this
    obtain ⟨m, rfl⟩ : ∃ m, fuel = m + 1 := ⟨fuel - 1, by omega⟩
    simp only [List.nil_append] at hS
    obtain ⟨i1, hl, hn, hS1, hf1⟩ := EStream.lex hS hne
    unfold parseStmtLoop
    simp only [hl, bind, Except.bind, heol, if_true]
    exact ⟨_, _, rfl, by simp, rfl, rfl, rfl, rfl, hS1.setId _, hf1⟩
  | succ n ih =>
    intro toks hlen acc i s e fuel eol T hlt hok heol hne hS hf
    cases toks with
    | nil =>
      obtain ⟨m, rfl⟩ : ∃ m, fuel = m + 1 := ⟨fuel - 1, by omega⟩
      simp only [List.nil_append] at hS
      obtain ⟨i1, hl, hn, hS1, hf1⟩ := EStream.lex hS hne
      unfold parseStmtLoop
      simp only [hl, bind, Except.bind, heol, if_true]
      exact ⟨_, _, rfl, by simp, rfl, rfl, rfl, rfl, hS1.setId _, hf1⟩
    | cons t r =>
      obtain ⟨m, rfl⟩ : ∃ m, fuel = m + 1 := ⟨fuel - 1, by omega⟩
      have ht := hlt.head
      have hr := hlt.tail
      simp only [List.cons_append] at hS
      obtain ⟨i1, hl, hn, hS1, hf1⟩ := EStream.lex hS (lt_ne_eof ht)
      simp only [List.length_cons] at hlen hf
      simp only [List.map_cons] at hok
      unfold parseStmtLoop
      simp only [hl, bind, Except.bind, lt_not_eol ht, Bool.false_eq_true, if_false, lt_beq_lparen ht]
      by_cases ht40 : t.text = [40]
      · simp only [ht40, decide_true, if_true]
        rw [ht40] at hok
        -- `(`: the tail is not empty
        cases r with
        | nil => simp [lineTailOK] at hok
        | cons t2 r2 =>
          have ht2 := hr.head
          simp only [List.length_cons] at hlen hf
          simp only [List.cons_append] at hS1
          have hk1 : i1.token = t2 := hS1.tok
          simp only [Input.peek, hk1, lt_not_eol ht2, Bool.false_eq_true, if_false, lt_beq_rparen ht2]
          simp only [List.map_cons] at hok
          by_cases ht41 : t2.text = [41]
          · -- `( )` in the middle of the line
            simp only [ht41, decide_true, if_true]
            rw [ht41] at hok
            obtain ⟨i2, hl2, hn2, hS2, hf2⟩ := EStream.lex hS1 (lt_ne_eof ht2)
            have hok' : r2 ≠ [] ∧ lineTailOK (r2.map (·.text)) = true := by
              simp [lineTailOK] at hok
              exact ⟨by intro h; simp [h] at hok, hok.2⟩
            obtain ⟨t3, r3, hr3⟩ : ∃ t3 r3, r2 = t3 :: r3 := by
              cases r2 with
              | nil => exact absurd rfl hok'.1
              | cons a b => exact ⟨a, b, rfl⟩
            have ht3 : TokText t3.text ∧ t3.kind = kindOf t3.text := hr.tail t3 (by simp [hr3])
            have hk2 : i2.token = t3 := by
              rw [hr3] at hS2
              exact hS2.tok
            simp only [hl2, hk2, lt_not_eol ht3, Bool.false_eq_true, if_false]
            obtain ⟨l, i', hres, htok, hcm, hib, hst, hen, hS', hf'⟩ := ih r2 (by omega) ([41] :: [40] :: acc) i2 s e m
              eol T hr.tail hok'.2 heol hne hS2 (by omega)
            refine ⟨l, i', ?_, by rw [htok]; simp [ht40, ht41], hcm, hib, hst, ?_, hS', hf'.trans (hf2.trans hf1)⟩
            · simpa [ht40, ht41] using hres
            · rw [hen, hr3]; rfl
          · -- `(` in the middle of the line
            simp only [ht41, decide_false, Bool.false_eq_true, if_false]
            have hok' : lineTailOK ((t2 :: r2).map (·.text)) = true := by
              simp only [lineTailOK, beq_self_eq_true, if_true] at hok
              have : (t2.text == [41]) = false := by simpa using ht41
              simpa [this] using hok
            obtain ⟨l, i', hres, htok, hcm, hib, hst, hen, hS', hf'⟩ := ih (t2 :: r2) (by simp; omega) ([40] :: acc) i1 s e m
              eol T hr hok' heol hne (by simpa using hS1) (by simp; omega)
            refine ⟨l, i', ?_, by rw [htok]; simp [ht40], hcm, hib, hst, by rw [hen]; rfl, hS', hf'.trans hf1⟩
            simpa [ht40] using hres
      · simp only [ht40, decide_false, Bool.false_eq_true, if_false]
        have hok' : lineTailOK (r.map (·.text)) = true := by
          rw [lineTailOK_cons_ne _ ht40] at hok
          exact hok
        obtain ⟨l, i', hres, htok, hcm, hib, hst, hen, hS', hf'⟩ := ih r (by omega) (t.text :: acc) i1 s t.endPos m
          eol T hr hok' heol hne hS1 (by omega)
        exact ⟨l, i', hres, by rw [htok]; simp, hcm, hib, hst, by rw [hen]; rfl, hS', hf'.trans hf1⟩

/-! ### block headers -/

/-- Scanning a header: every token list followed by `(` and an end of line makes `parseStmtLoop` enter
    `parseLineBlock` with exactly that header and the record of that `(`. -/
theorem parseStmtLoop_hdrE : ∀ (n : Nat) (hs : List Token), hs.length ≤ n → ∀ (acc : List Bytes) (i : Input)
    (s e : Position) (fuel : Nat) (lpT eol : Token) (U : List Token), LT hs →
    lpT.kind = .punct 40 → lpT.text = [40] → eol.kind.isEOL = true →
    EStream D (hs ++ lpT :: eol :: U) i → hs.length + 1 ≤ fuel →
    ∃ i1 fuel1, EStream D (eol :: U) i1 ∧ fut (eol :: U) i1 = fut (hs ++ lpT :: eol :: U) i ∧
      fuel ≤ fuel1 + 1 + hs.length ∧
      ∀ b i', parseLineBlock (fuel1 + 1) i1 s (acc.reverse ++ hs.map (·.text)) lpT = .ok (b, i') →
        parseStmtLoop fuel i s e acc = .ok (.lineBlock b, i') := by
  intro n
  induction n with
  | zero =>
    intro hs hlen acc i s e fuel lpT eol U _ hlk hlt' heol hS hf
    have : hs = [] := List.eq_nil_of_length_eq_zero (by omega)
    subst this
    obtain ⟨m, rfl⟩ : ∃ m, fuel = m + 1 := ⟨fuel - 1, by omega⟩
    simp only [List.nil_append] at hS
    obtain ⟨i1, hl, hn, hS1, hf1⟩ := EStream.lex hS (by rw [hlk]; simp)
    have hk1 : i1.token = eol := hS1.tok
    refine ⟨i1, m, hS1, hf1, by simp, ?_⟩
    intro b i' hb
    unfold parseStmtLoop
    have hlpe : lpT.kind.isEOL = false := by rw [hlk]; rfl
    have hlpb : (lpT.kind == TokKind.punct 40) = true := by rw [hlk]; rfl
    simp only [hl, bind, Except.bind, hlpe, hlpb, Bool.false_eq_true, if_false, if_true,
      Input.peek, hk1, heol]
    simp only [List.map_nil, List.append_nil] at hb
    simp [hb]
  | succ n ih =>
    intro hs hlen acc i s e fuel lpT eol U hlt hlk hlt' heol hS hf
    cases hs with
    | nil =>
      obtain ⟨m, rfl⟩ : ∃ m, fuel = m + 1 := ⟨fuel - 1, by omega⟩
      simp only [List.nil_append] at hS
      obtain ⟨i1, hl, hn, hS1, hf1⟩ := EStream.lex hS (by rw [hlk]; simp)
      have hk1 : i1.token = eol := hS1.tok
      refine ⟨i1, m, hS1, hf1, by simp, ?_⟩
      intro b i' hb
      unfold parseStmtLoop
      have hlpe : lpT.kind.isEOL = false := by rw [hlk]; rfl
      have hlpb : (lpT.kind == TokKind.punct 40) = true := by rw [hlk]; rfl
      simp only [hl, bind, Except.bind, hlpe, hlpb, Bool.false_eq_true, if_false, if_true,
        Input.peek, hk1, heol]
      simp only [List.map_nil, List.append_nil] at hb
      simp [hb]
    | cons t r =>
      obtain ⟨m, rfl⟩ : ∃ m, fuel = m + 1 := ⟨fuel - 1, by omega⟩
      have ht := hlt.head
      have hr := hlt.tail
      simp only [List.cons_append] at hS
      obtain ⟨i1, hl, hn, hS1, hf1⟩ := EStream.lex hS (lt_ne_eof ht)
      simp only [List.length_cons] at hlen hf
      by_cases ht40 : t.text = [40]
      · -- what follows this `(` is a token (of the header, or the final `(`), never an end of line
        cases r with
        | nil =>
          -- followed by the final `(`
          simp only [List.nil_append] at hS1
          have hk1 : i1.token = lpT := hS1.tok
          obtain ⟨i2, fuel1, hS2, hf2, hfu, hres⟩ := ih [] (by simp) ([40] :: acc) i1 s e m lpT eol U
            (by intro x hx; simp at hx) hlk hlt' heol (by simpa using hS1) (by simp; omega)
          refine ⟨i2, fuel1, hS2, hf2.trans hf1, by simp at hfu ⊢; omega, ?_⟩
          intro b i' hb
          unfold parseStmtLoop
          have hlpe : lpT.kind.isEOL = false := by rw [hlk]; rfl
          have hlpb : (lpT.kind == TokKind.punct 41) = false := by rw [hlk]; rfl
          simp only [hl, bind, Except.bind, lt_not_eol ht, Bool.false_eq_true, if_false,
            lt_beq_lparen ht, ht40, decide_true, if_true, Input.peek, hk1, hlpe, hlpb]
          exact hres b i' (by simpa [ht40] using hb)
        | cons t2 r2 =>
          have ht2 := hr.head
          simp only [List.length_cons] at hlen hf
          simp only [List.cons_append] at hS1
          have hk1 : i1.token = t2 := hS1.tok
          by_cases ht41 : t2.text = [41]
          · obtain ⟨i2, hl2, hn2, hS2, hf2⟩ := EStream.lex hS1 (lt_ne_eof ht2)
            -- the token after `( )` is a header token or the final `(`
            have hk2 : i2.token.kind.isEOL = false := by
              cases r2 with
              | nil =>
                simp only [List.nil_append] at hS2
                rw [hS2.tok, hlk]; rfl
              | cons t3 r3 =>
                simp only [List.cons_append] at hS2
                rw [hS2.tok]; exact lt_not_eol (hr.tail.head)
            obtain ⟨i3, fuel1, hS3, hf3, hfu, hres⟩ := ih r2 (by omega) ([41] :: [40] :: acc) i2 s e m lpT eol U
              hr.tail hlk hlt' heol hS2 (by omega)
            refine ⟨i3, fuel1, hS3, hf3.trans (hf2.trans hf1), by simp at hfu ⊢; omega, ?_⟩
            intro b i' hb
            unfold parseStmtLoop
            simp only [hl, bind, Except.bind, lt_not_eol ht, Bool.false_eq_true, if_false,
              lt_beq_lparen ht, ht40, decide_true, if_true, Input.peek, hk1, lt_not_eol ht2,
              lt_beq_rparen ht2, ht41, hl2, hk2]
            exact hres b i' (by simpa [ht40, ht41] using hb)
          · obtain ⟨i3, fuel1, hS3, hf3, hfu, hres⟩ := ih (t2 :: r2) (by simp; omega) ([40] :: acc) i1 s e m lpT eol U
              hr hlk hlt' heol (by simpa using hS1) (by simp; omega)
            refine ⟨i3, fuel1, hS3, hf3.trans hf1, by simp at hfu ⊢; omega, ?_⟩
            intro b i' hb
            unfold parseStmtLoop
            simp only [hl, bind, Except.bind, lt_not_eol ht, Bool.false_eq_true, if_false,
              lt_beq_lparen ht, ht40, decide_true, if_true, Input.peek, hk1, lt_not_eol ht2,
              lt_beq_rparen ht2, ht41, decide_false]
            exact hres b i' (by simpa [ht40] using hb)
      · obtain ⟨i3, fuel1, hS3, hf3, hfu, hres⟩ := ih r (by omega) (t.text :: acc) i1 s t.endPos m lpT eol U
          hr hlk hlt' heol hS1 (by omega)
        refine ⟨i3, fuel1, hS3, hf3.trans hf1, by simp only [List.length_cons]; omega, ?_⟩
        intro b i' hb
        unfold parseStmtLoop
        simp only [hl, bind, Except.bind, lt_not_eol ht, Bool.false_eq_true, if_false,
          lt_beq_lparen ht, ht40, decide_false]
        exact hres b i' (by simpa using hb)

end ModVerif.Proofs.ModfileEol
