/-
  C02, end-of-line comments, stage (vi): the shape of the tree the FIRST parse delivers.

  `parse name x = .ok t` ⇒ `t` is the plain statement list of `parseFile` (well-shaped, `WFStmts`) with
  end-of-line comments filled into `suffix` lists by `assignComments`; every such comment is a `//` text
  recorded by the lexer and flagged as suffix.  Together with the hypothesis `EolOK t` (at most one per node,
  none on a comment block, none left over for the file header) this gives `EWFStmts t.stmts`.
-/
import ModVerif.Proofs.ModfileEolIdem
import ModVerif.Proofs.ModfileFmtEmits2
import ModVerif.Proofs.ModfileC20Tree
namespace ModVerif.Proofs.ModfileEol
open ModVerif ModVerif.Modfile ModVerif.Proofs.ModfileLex
open ModVerif.Proofs.ModfileFmtLex ModVerif.Proofs.ModfileFmtLine ModVerif.Proofs.ModfileFmtStream
open ModVerif.Proofs.ModfileFmtTree ModVerif.Proofs.ModfileFmtParse ModVerif.Proofs.ModfileFmtRender
open ModVerif.Proofs.ModfileFmtMain ModVerif.Proofs.ModfileFmtTrim ModVerif.Proofs.ModfilePos

/-! ### the comments the lexer records are `//` texts -/

theorem readToken_comments_cases (j i : Input) (h : readToken j = .ok i) :
    i.commentsRev = j.commentsRev ∨
      i.commentsRev = ({ start := i.token.pos, token := i.token.text, suffix := true } : Comment) :: j.commentsRev := by
  have hR : ∀ (a : Input) (r : Nat) (a' : Input), a.commentsRev = j.commentsRev → readRune a = .ok (r, a') →
      a'.commentsRev = j.commentsRev := fun a r a' hp hr => by rw [(ModfileC20.readRune_token hr).2.1]; exact hp
  unfold readToken at h
  cases h0 : skipSpaces (j.remaining.length + 1) j with
  | error e => simp [h0, bind, Except.bind] at h
  | ok i0 =>
    have hi0 : i0.commentsRev = j.commentsRev := skipSpaces_pres (P := fun a => a.commentsRev = j.commentsRev) hR _ _ _ rfl h0
    simp only [h0, bind, Except.bind] at h
    split at h
    · rename_i hc
      simp only [Bool.and_eq_true] at hc
      obtain ⟨i'', hr, _, _, _, _, _, hcomm⟩ := readComment_char i0 hc.2
      rw [hr] at h
      have : i'' = i := by cases h; rfl
      subst this
      rw [hcomm, hi0]
      split
      · exact Or.inr rfl
      · exact Or.inl rfl
    · left
      split at h
      · cases h
      · have hs : (startToken i0).commentsRev = j.commentsRev := hi0
        split at h
        · cases h; exact hs
        · split at h
          · cases h1 : readRune (startToken i0) with
            | error e => simp [h1] at h
            | ok v1 =>
              have hv1 := hR _ v1.1 v1.2 hs (by rw [h1])
              simp only [h1] at h
              cases h; exact hv1
          · split at h
            · cases h1 : readRune (startToken i0) with
              | error e => simp [h1] at h
              | ok v1 =>
                have hv1 := hR _ v1.1 v1.2 hs (by rw [h1])
                simp only [h1] at h
                cases h2 : readString (startToken i0).peekRune (v1.2.remaining.length + 1) v1.2 with
                | error e => simp [h2] at h
                | ok v2 =>
                  have hv2 := readString_pres (P := fun a => a.commentsRev = j.commentsRev) hR _ _ _ _ hv1 h2
                  simp only [h2] at h
                  cases h; exact hv2
            · split at h
              · cases h
              · split at h
                · cases h
                · rename_i v2 h2
                  have hv2 := readIdent_pres (P := fun a => a.commentsRev = j.commentsRev) hR _ _ _ hs h2
                  cases h; exact hv2

/-- a recorded comment: a `//` text without newline, flagged as suffix -/
def RecOK (c : Comment) : Prop := CommentOK c.token ∧ c.suffix = true

theorem readToken_recOK (j i : Input) (h : readToken j = .ok i) (hj : ∀ c ∈ j.commentsRev, RecOK c) :
    ∀ c ∈ i.commentsRev, RecOK c := by
  rcases readToken_comments_cases j i h with hc | hc
  · rw [hc]; exact hj
  · rw [hc]
    intro c hcm
    rcases List.mem_cons.1 hcm with rfl | hcm
    · refine ⟨?_, rfl⟩
      -- the token is a comment token: the list grew
      have hlok := lex_emits_LexOK j i h
      have hkind : i.token.kind.isComment = true ∨ i.commentsRev = j.commentsRev := by
        obtain ⟨ws, i0, _, hadv, hem⟩ := readToken_emits j i h
        cases hem with
        | eof _ _ _ _ _ hcm' => right; rw [hcm', hadv.comments]
        | comment _ _ _ hk _ _ _ => left; rw [hk]; split <;> rfl
        | newline _ _ _ _ hcm' => right; rw [hcm', hadv.comments]
        | tok t _ _ _ _ hcm' _ _ => right; rw [hcm', hadv.comments]
      rcases hkind with hk | hsame
      · have hco : ∀ (k : TokKind) (tx : Bytes), LexOK k tx → k.isComment = true → CommentOK tx := by
          intro k tx h hk
          cases h with
          | eof => cases hk
          | newline => cases hk
          | comment t ht => exact ht
          | eolComment t ht => exact ht
          | tok k t ht => cases ht <;> cases hk
        exact hco _ _ hlok hk
      · exfalso
        rw [hsame] at hc
        have := congrArg List.length hc
        simp at this
    · exact hj c hcm

theorem reach_recOK {data : Bytes} {i : Input} (h : Reach data i) : ∀ c ∈ i.commentsRev, RecOK c := by
  induction h with
  | start h => exact readToken_recOK _ _ h (by intro c hc; simp [newInput] at hc)
  | lex _ h ih => exact readToken_recOK _ _ h ih
  | setId n _ ih => exact ih

/-! ### `assignComments` only fills `suffix` lists -/

def clrCs (c : Comments) : Comments := { c with suffix := [] }
def clrL (l : Line) : Line := { l with comments := clrCs l.comments }

def clrE : Expr → Expr
  | .commentBlock x => .commentBlock { x with comments := clrCs x.comments }
  | .line l => .line (clrL l)
  | .lineBlock b => .lineBlock { b with comments := clrCs b.comments,
                                        lparen := { b.lparen with comments := clrCs b.lparen.comments },
                                        lines := b.lines.map clrL,
                                        rparen := { b.rparen with comments := clrCs b.rparen.comments } }
  | .lparen x => .lparen { x with comments := clrCs x.comments }
  | .rparen x => .rparen { x with comments := clrCs x.comments }

theorem assignSuffix_clr (span : Position × Position) (cs : Comments) (suf : List Comment) :
    clrCs (assignSuffix span cs suf).1 = clrCs cs := by
  unfold assignSuffix
  split
  · rfl
  · rfl

theorem postLinesRev_clr : ∀ (ls : List Line) (suf : List Comment), (postLinesRev ls suf).1.map clrL = ls.map clrL := by
  intro ls
  induction ls with
  | nil => intro _; rfl
  | cons l ls ih =>
    intro suf
    simp only [postLinesRev, List.map_cons, ih]
    congr 1
    simp only [clrL, assignSuffix_clr]

theorem postStmt_clr (s : Expr) (suf : List Comment) : clrE (postStmt s suf).1 = clrE s := by
  cases s with
  | lineBlock b =>
    simp only [postStmt, clrE, assignSuffix_clr, List.map_reverse, postLinesRev_clr, List.reverse_reverse]
  | commentBlock x => simp only [postStmt, Expr.setComments, Expr.comments, clrE, assignSuffix_clr]
  | line x => simp only [postStmt, Expr.setComments, Expr.comments, clrE, clrL, assignSuffix_clr]
  | lparen x => simp only [postStmt, Expr.setComments, Expr.comments, clrE, assignSuffix_clr]
  | rparen x => simp only [postStmt, Expr.setComments, Expr.comments, clrE, assignSuffix_clr]

theorem postStmtsRev_clr : ∀ (ss : List Expr) (suf : List Comment), (postStmtsRev ss suf).1.map clrE = ss.map clrE := by
  intro ss
  induction ss with
  | nil => intro _; rfl
  | cons s ss ih =>
    intro suf
    simp only [postStmtsRev, List.map_cons, ih, postStmt_clr]

/-- all comments in the `suffix` lists of a statement satisfy `Q` -/
def sufAll (Q : Comment → Prop) : Expr → Prop
  | .commentBlock x => ∀ c ∈ x.comments.suffix, Q c
  | .line l => ∀ c ∈ l.comments.suffix, Q c
  | .lineBlock b => (∀ c ∈ b.comments.suffix, Q c) ∧ (∀ c ∈ b.lparen.comments.suffix, Q c) ∧
      (∀ l ∈ b.lines, ∀ c ∈ l.comments.suffix, Q c) ∧ (∀ c ∈ b.rparen.comments.suffix, Q c)
  | .lparen x => ∀ c ∈ x.comments.suffix, Q c
  | .rparen x => ∀ c ∈ x.comments.suffix, Q c

theorem assignSuffix_all {Q : Comment → Prop} (span : Position × Position) (cs : Comments) (suf : List Comment)
    (hs : cs.suffix = []) (hq : ∀ c ∈ suf, Q c) :
    (∀ c ∈ (assignSuffix span cs suf).1.suffix, Q c) ∧ (∀ c ∈ (assignSuffix span cs suf).2, Q c) := by
  unfold assignSuffix
  split
  · simp only [hs, List.reverse_nil]
    exact ⟨(by intro c hc; cases hc), hq⟩
  · have hm := ModfileC20.takeSuffix_mem span.2 suf []
    simp only [hs, List.nil_append, List.reverse_reverse]
    refine ⟨fun c hc => ?_, fun c hc => hq c ((hm c).2 hc)⟩
    rcases (hm c).1 hc with h | h
    · cases h
    · exact hq c h

theorem postLinesRev_all {Q : Comment → Prop} : ∀ (ls : List Line) (suf : List Comment),
    (∀ l ∈ ls, l.comments.suffix = []) → (∀ c ∈ suf, Q c) →
    (∀ l ∈ (postLinesRev ls suf).1, ∀ c ∈ l.comments.suffix, Q c) ∧ (∀ c ∈ (postLinesRev ls suf).2, Q c) := by
  intro ls
  induction ls with
  | nil => intro suf _ hq; exact ⟨(by intro l hl; cases hl), hq⟩
  | cons l ls ih =>
    intro suf hs hq
    obtain ⟨h1, h2⟩ := assignSuffix_all (Q := Q) (l.start, l.«end») l.comments suf (hs l (by simp)) hq
    obtain ⟨h3, h4⟩ := ih (assignSuffix (l.start, l.«end») l.comments suf).2 (fun l' h => hs l' (by simp [h])) h2
    simp only [postLinesRev]
    refine ⟨?_, h4⟩
    intro l' hl'
    rcases List.mem_cons.1 hl' with rfl | hl'
    · exact h1
    · exact h3 l' hl'

theorem postStmt_all {Q : Comment → Prop} (s : Expr) (suf : List Comment) (hs : NoSuf s) (hq : ∀ c ∈ suf, Q c) :
    sufAll Q (postStmt s suf).1 ∧ (∀ c ∈ (postStmt s suf).2, Q c) := by
  cases s with
  | lineBlock b =>
    obtain ⟨hb1, hb2, hb3, hb4⟩ := hs
    obtain ⟨h1, h2⟩ := assignSuffix_all (Q := Q) (Expr.lineBlock b).span b.comments suf hb1 hq
    obtain ⟨h3, h4⟩ := assignSuffix_all (Q := Q) (Expr.rparen b.rparen).span b.rparen.comments _ hb4 h2
    obtain ⟨h5, h6⟩ := postLinesRev_all (Q := Q) b.lines.reverse _ (fun l hl => hb3 l (by simpa using hl)) h4
    obtain ⟨h7, h8⟩ := assignSuffix_all (Q := Q) (Expr.lparen b.lparen).span b.lparen.comments _ hb2 h6
    simp only [postStmt]
    exact ⟨⟨h1, h7, fun l hl => h5 l (by simpa using hl), h3⟩, h8⟩
  | commentBlock x =>
    obtain ⟨h1, h2⟩ := assignSuffix_all (Q := Q) (Expr.commentBlock x).span x.comments suf hs hq
    exact ⟨h1, h2⟩
  | line x =>
    obtain ⟨h1, h2⟩ := assignSuffix_all (Q := Q) (Expr.line x).span x.comments suf hs hq
    exact ⟨h1, h2⟩
  | lparen x =>
    obtain ⟨h1, h2⟩ := assignSuffix_all (Q := Q) (Expr.lparen x).span x.comments suf hs hq
    exact ⟨h1, h2⟩
  | rparen x =>
    obtain ⟨h1, h2⟩ := assignSuffix_all (Q := Q) (Expr.rparen x).span x.comments suf hs hq
    exact ⟨h1, h2⟩

theorem postStmtsRev_all {Q : Comment → Prop} : ∀ (ss : List Expr) (suf : List Comment),
    (∀ s ∈ ss, NoSuf s) → (∀ c ∈ suf, Q c) →
    (∀ s ∈ (postStmtsRev ss suf).1, sufAll Q s) ∧ (∀ c ∈ (postStmtsRev ss suf).2, Q c) := by
  intro ss
  induction ss with
  | nil => intro suf _ hq; exact ⟨(by intro s hs; cases hs), hq⟩
  | cons s ss ih =>
    intro suf hs hq
    obtain ⟨h1, h2⟩ := postStmt_all (Q := Q) s suf (hs s (by simp)) hq
    obtain ⟨h3, h4⟩ := ih (postStmt s suf).2 (fun s' h => hs s' (by simp [h])) h2
    simp only [postStmtsRev]
    refine ⟨?_, h4⟩
    intro s' hs'
    rcases List.mem_cons.1 hs' with rfl | hs'
    · exact h1
    · exact h3 s' hs'

/-! ### the hypothesis on the parsed tree -/

/-- a line carries at most one end-of-line comment, and if it carries one, no token of it contains a newline -/
def EolLine (l : Line) : Prop := l.comments.suffix.length ≤ 1 ∧ NlLine l

/-- the per-statement part of `EolOK` -/
def EolStmt : Expr → Prop
  | .commentBlock x => x.comments.suffix = []
  | .line l => EolLine l
  | .lineBlock b => b.lparen.comments.suffix.length ≤ 1 ∧ (∀ l ∈ b.lines, EolLine l) ∧
      (b.rparen.comments.suffix ++ b.comments.suffix).length ≤ 1
  | _ => True

/-- ★ The hypothesis of the end-of-line-comment theorems, a decidable condition on the parsed tree: no node
    carries more than one end-of-line comment (a block and its `)` share one slot), a comment block carries
    none, none is left over for the file header, and a line that carries one has no newline byte inside its
    tokens.  Every clause can fail only if some string token contains an escaped newline
    (`"…\⏎…"`): such a line spans two source lines, `assignComments` skips it, and its comment moves to an
    earlier node, to a comment block, or to the file header. -/
structure EolOK (t : FileSyntax) : Prop where
  header : t.comments.before = []
  stmts : ∀ s ∈ t.stmts, EolStmt s

/-! ### from `WFStmts` of the cleared tree to `EWFStmts` -/

theorem ewfBlkLines_of : ∀ (ls : List Line) (allow : Bool), WFBlkLines allow (ls.map clrL) →
    (∀ l ∈ ls, SufOK l.comments.suffix) → EWFBlkLines allow ls := by
  intro ls
  induction ls with
  | nil => intro _ _ _; trivial
  | cons l ls ih =>
    intro allow h hs
    obtain ⟨hl, hls⟩ := h
    exact ⟨⟨hl.ne, hl.tok, hl.first, hl.before, hs l (by simp), hl.after, hl.inBlock⟩,
      ih true hls (fun l' h' => hs l' (by simp [h']))⟩

theorem ewfStmt_of (s : Expr) (hwf : WFStmt (clrE s)) (hall : sufAll RecOK s) (hok : EolStmt s) : EWFStmt s := by
  cases s with
  | commentBlock x =>
    obtain ⟨h1, h2, _, h4⟩ := hwf
    exact ⟨h1, h2, hok, h4⟩
  | line l =>
    have hwf : WFLine (clrL l) := hwf
    exact (⟨hwf.ne, hwf.tok, hwf.tail, hwf.before, ⟨hok.1, hall⟩, hwf.after, hwf.inBlock⟩ : EWFLine l)
  | lineBlock b =>
    have hwf : WFBlock _ := hwf
    obtain ⟨ha1, ha2, ha3, ha4⟩ := hall
    obtain ⟨hk1, hk2, hk3⟩ := hok
    have hlp := hwf.lparen
    simp only [clrCs] at hlp
    have hlb : b.lparen.comments.before = [] := by
      have := congrArg Comments.before hlp; simpa using this
    have hla : b.lparen.comments.after = [] := by
      have := congrArg Comments.after hlp; simpa using this
    refine (⟨hwf.ne, hwf.tok, hwf.before, hwf.after, hlb, ⟨hk1, ha2⟩, hla,
      ewfBlkLines_of _ _ hwf.lines (fun l hl => ⟨(hk2 l hl).1, ha3 l hl⟩), ?_, ⟨hk3, ?_⟩, hwf.rafter⟩ : EWFBlock b)
    · have := hwf.rbefore
      simpa [clrCs] using this
    · intro c hc
      rcases List.mem_append.1 hc with h | h
      · exact ha4 c h
      · exact ha1 c h
  | lparen x => exact absurd hwf id
  | rparen x => exact absurd hwf id

theorem clrE_of_noSuf {s : Expr} (h : WFStmt s) : clrE s = s := by
  cases s with
  | commentBlock x =>
    obtain ⟨_, _, h3, _⟩ := h
    cases x with
    | mk cs st =>
      cases cs
      simp only at h3
      subst h3
      rfl
  | line l =>
    have h : WFLine l := h
    have := h.suffix
    cases l with
    | mk id cs st tk ib en =>
      cases cs
      simp only at this
      subst this
      rfl
  | lineBlock b =>
    have h : WFBlock b := h
    have hl : b.lines.map clrL = b.lines := by
      have : ∀ (ls : List Line) (allow : Bool), WFBlkLines allow ls → ls.map clrL = ls := by
        intro ls
        induction ls with
        | nil => intro _ _; rfl
        | cons l ls ih =>
          intro allow hw
          have := hw.1.suffix
          simp only [List.map_cons, ih true hw.2]
          congr 1
          cases l with
          | mk id cs st tk ib en =>
            cases cs
            simp only at this
            subst this
            rfl
      exact this _ _ h.lines
    have h1 := h.suffix
    have h2 := h.lparen
    have h3 := h.rsuffix
    cases b with
    | mk cs st lp tk ls rp =>
      cases cs; cases lp with
      | mk lc lpos =>
        cases rp with
        | mk rc rpos =>
          cases rc
          simp only at h1 h2 h3 hl
          subst h1 h2 h3
          simp only [clrE, clrCs, hl]
  | lparen x => exact absurd h id
  | rparen x => exact absurd h id

/-! ### the shape of a parsed tree -/

/-- ★ Every accepted input parses to a tree whose statements, once the `suffix` lists are cleared, are the
    well-shaped statements of `parseFile`; whose `suffix` comments are `//` texts recorded by the lexer; whose
    header holds nothing but the left-over end-of-line comments; and whose name is the given one. -/
theorem parse_shape {name x : Bytes} {t : FileSyntax} (h : parse name x = .ok t) :
    WFStmts (t.stmts.map clrE) ∧ (∀ s ∈ t.stmts, sufAll RecOK s) ∧ t.name = name ∧
      t.comments.suffix = [] ∧ t.comments.after = [] := by
  unfold parse at h
  cases hp : parseFile x with
  | error e => simp [hp, bind, Except.bind] at h
  | ok v =>
    obtain ⟨stmts, i⟩ := v
    simp only [hp, bind, Except.bind, Except.ok.injEq] at h
    obtain ⟨hwf, hsfx⟩ := ModfileFmtEmits.parseFile_wf' x stmts i hp
    have hreach : Reach x i := by
      have := @ModfileC20.parseFile_res x
      rw [hp] at this
      exact this.1
    have hrec := reach_recOK hreach
    -- all recorded comments are end-of-line comments
    have hfl : (i.commentsRev.reverse.filter (fun c => !c.suffix)) = [] := by
      rw [List.filter_eq_nil_iff]
      intro c hc
      simp [hsfx c (by simpa using hc)]
    have hfs : (i.commentsRev.reverse.filter (fun c => c.suffix)) = i.commentsRev.reverse := by
      rw [List.filter_eq_self]
      intro c hc
      exact hsfx c (by simpa using hc)
    unfold assignComments at h
    simp only [hfl, hfs, assignBefore_nil, preStmts_nil] at h
    subst h
    dsimp only
    have hno : ∀ s ∈ stmts.reverse, NoSuf s := fun s hs => wf_noSuf (hwf s (by simpa using hs))
    obtain ⟨hall, _⟩ := postStmtsRev_all (Q := RecOK) stmts.reverse i.commentsRev.reverse.reverse hno
      (by intro c hc; exact hrec c (by simpa using hc))
    refine ⟨?_, ?_, rfl, rfl, rfl⟩
    · rw [List.map_reverse, postStmtsRev_clr, List.map_reverse, List.reverse_reverse]
      intro s hs
      obtain ⟨s0, hs0, rfl⟩ := List.mem_map.1 hs
      rw [clrE_of_noSuf (hwf s0 hs0)]
      exact hwf s0 hs0
    · intro s hs
      exact hall s (by simpa using hs)

/-- with the hypothesis `EolOK`, the parsed tree is well-shaped in the sense of the render / re-parse chain -/
theorem parse_ewf {name x : Bytes} {t : FileSyntax} (h : parse name x = .ok t) (hok : EolOK t) :
    EWFStmts t.stmts ∧ (∀ s ∈ t.stmts, NlOK s) ∧ t.comments = {} ∧ t.name = name := by
  obtain ⟨hwf, hall, hn, hs, ha⟩ := parse_shape h
  refine ⟨?_, ?_, ?_, hn⟩
  · intro s hs'
    exact ewfStmt_of s (hwf _ (List.mem_map_of_mem hs')) (hall s hs') (hok.stmts s hs')
  · intro s hs'
    have := hok.stmts s hs'
    cases s with
    | commentBlock x => trivial
    | line l => exact this.2
    | lineBlock b => exact fun l hl => (this.2.1 l hl).2
    | lparen x => trivial
    | rparen x => trivial
  · have hb := hok.header
    cases hc : t.comments
    rw [hc] at hb hs ha
    simp only at hb hs ha
    subst hb hs ha
    rfl

end ModVerif.Proofs.ModfileEol
