/-
  Helper lemmas for the tie of the regenerated `dirhash.DirFiles` / `HashDir`, part 4: the walk.

  * `walkChildren_spec` : `GoRt.walkChildren` (the assumed behaviour of `filepath.Walk`) over the `FsTree` of a well-formed
                     trie, with a callback that passes directories and appends `g (relative elements)` for files, visits
                     the file leaves in pre-order (`flatList`);
  * `walkFn1_dir`, `walkFn1_file` : the closure of `DirFiles` is such a callback.

  Core Lean only.
-/
import ModVerif.Generated.FnDirhash
import ModVerif.Drv.GenDirhash
import ModVerif.Proofs.TieFnDirhashDirOrder
import ModVerif.Proofs.TieFnDirhashDirPath
import ModVerif.Proofs.GoRtLemmas
namespace ModVerif.TieFnDirhashDir
open ModVerif ModVerif.GoRt ModVerif.ZipSpec ModVerif.Proofs.ZipB
open ModVerif.Generated.Dirhash (FileInfo)
open ModVerif.Drv.GenDirhash (toFs toFsList)

/-- a walk callback with a list of names as its state -/
abbrev WalkFn := Bytes → FileInfo → Option String → List Bytes → M (Option String × List Bytes)

theorem szList_pos : ∀ cs : List (Bytes × Zip.Node), 1 ≤ szList cs
  | [] => by simp [szList]
  | (_, _) :: _ => by simp only [szList]; omega

theorem walkChildren_spec (fn : WalkFn) (r : Bool) (base : List Bytes) (g : List Bytes → Bytes)
    (hdir : ∀ p st, fn p { IsDir := true } none st = .ok (none, st))
    (hfile : ∀ q st, q ≠ [] → (∀ c ∈ q, NormalElem c) →
      fn (render r (base ++ q)) { IsDir := false } none st = .ok (none, st ++ [g q])) :
    ∀ (fuel : Nat) (P : Bytes) (pre : List Bytes) (cs : List (Bytes × Zip.Node)) (st : List Bytes),
      PathClean.isRooted P = r → PathClean.comps P = base ++ pre → (∀ c ∈ pre, NormalElem c) → wfList cs →
      szList cs < fuel →
      walkChildren fn fuel P (toFsList cs) st = .ok (none, st ++ (flatList cs).map (fun q => g (pre ++ q))) := by
  intro fuel
  induction fuel using Nat.strongRecOn with
  | _ fuel ih =>
    intro P pre cs st hr hc hpre hwf hsz
    cases fuel with
    | zero => omega
    | succ fuel =>
      cases cs with
      | nil => simp [toFsList, walkChildren, flatList, pure, Except.pure]
      | cons e rest =>
        obtain ⟨n, x⟩ := e
        simp only [wfList] at hwf
        obtain ⟨⟨hn, hx⟩, _, hrest⟩ := hwf
        obtain ⟨hj, hjr, hjc⟩ := fpJoin_step P hn
        have hrestsz : szList rest < fuel := by simp only [szList] at hsz; omega
        have hpos := szList_pos rest
        have ihrest := fun st' => ih fuel (Nat.lt_succ_self _) P pre rest st' hr hc hpre hrest hrestsz
        cases x with
        | file m s ct gg =>
          obtain ⟨f, rfl⟩ : ∃ f, fuel = f + 1 := ⟨fuel - 1, by omega⟩
          have hq : fpJoin P n = render r (base ++ (pre ++ [n])) := by
            rw [hj, hr, hc, List.append_assoc]
          have hf := hfile (pre ++ [n]) st (by simp) (by
            intro c hc'
            rcases List.mem_append.1 hc' with h | h
            · exact hpre c h
            · simp at h; subst h; exact hn)
          simp only [toFsList, toFs, walkChildren, walkNode, hq, hf, bind, Except.bind]
          simp only [Option.isSome_none, Bool.false_eq_true, if_false]
          rw [ihrest]
          simp [flatList, flatNode]
        | dir sub =>
          obtain ⟨f, rfl⟩ : ∃ f, fuel = f + 1 := ⟨fuel - 1, by omega⟩
          have hsub : wfList sub := by simpa [wfNode] using hx
          have hsubsz : szList sub < f := by simp only [szList, szNode] at hsz; omega
          have ihsub := ih f (by omega) (fpJoin P n) (pre ++ [n]) sub st (by rw [hjr, hr])
            (by rw [hjc, hc, List.append_assoc]) (by
              intro c hc'
              rcases List.mem_append.1 hc' with h | h
              · exact hpre c h
              · simp at h; subst h; exact hn) hsub hsubsz
          simp only [toFsList, toFs, walkChildren, walkNode, hdir, bind, Except.bind]
          simp only [Option.isSome_none, Bool.false_eq_true, if_false]
          rw [ihsub]
          simp only [Option.isSome_none, Bool.false_eq_true, if_false]
          rw [ihrest]
          simp [flatList, flatNode, List.map_map, Function.comp_def]

/-! ### the closure of DirFiles -/

open ModVerif.Generated.Dirhash in
theorem walkFn1_err (walkRoot : Bytes → Option (FsTree FileInfo)) (fuel : Nat) (dir pfx file : Bytes)
    (info : FileInfo) (e : String) (st : List Bytes) :
    DirFiles_walkFn1 walkRoot fuel dir pfx file info (some e) st = .ok (some e, st) := by
  simp [DirFiles_walkFn1, pure, Except.pure]

open ModVerif.Generated.Dirhash in
theorem walkFn1_dir (walkRoot : Bytes → Option (FsTree FileInfo)) (fuel : Nat) (dir pfx file : Bytes)
    (st : List Bytes) :
    DirFiles_walkFn1 walkRoot fuel dir pfx file { IsDir := true } none st = .ok (none, st) := by
  simp [DirFiles_walkFn1, pure, Except.pure]

open ModVerif.Generated.Dirhash in
theorem walkFn1_rootFile (walkRoot : Bytes → Option (FsTree FileInfo)) (fuel : Nat) (dir pfx : Bytes)
    (st : List Bytes) :
    DirFiles_walkFn1 walkRoot fuel dir pfx dir { IsDir := false } none st =
      .ok (some "%s is not a directory", st) := by
  simp [DirFiles_walkFn1, pure, Except.pure]

open ModVerif.Generated.Dirhash in
/-- a regular file below the root `render r base` (the root is not `/`): the relative path is appended, joined with the
    prefix -/
theorem walkFn1_file (walkRoot : Bytes → Option (FsTree FileInfo)) (fuel : Nat) (pfx : Bytes) (r : Bool)
    (base : List Bytes) (hbase : Canon r base) (hroot : ¬ (r = true ∧ base = []))
    (q : List Bytes) (st : List Bytes) (hq : q ≠ []) (hn : ∀ c ∈ q, NormalElem c) :
    DirFiles_walkFn1 walkRoot fuel (render r base) pfx (render r (base ++ q)) { IsDir := false } none st =
      .ok (none, st ++ [fpJoin pfx (J q)]) := by
  have hcq : Canon r (base ++ q) := canon_append_normal hbase hn
  have hne : render r (base ++ q) ≠ render r base := by
    intro e
    have := render_injective hcq hbase e
    have : q = [] := List.append_right_eq_self.1 this
    exact hq this
  unfold DirFiles_walkFn1
  simp only [Option.isNone_none, Bool.not_true, Bool.false_eq_true, if_false, hne, decide_false]
  by_cases hb : base = []
  · subst hb
    have hr : r = false := by
      cases r with
      | true => exact absurd ⟨rfl, rfl⟩ hroot
      | false => rfl
    subst hr
    have hd : render false [] = [46] := rfl
    simp only [hd, decide_true, Bool.not_true, Bool.false_eq_true, if_false, id, pure, Except.pure]
    rw [render_false_nil_append hq]
  · have hd : render r base ≠ [46] := by
      cases r with
      | true => simp [render]
      | false => exact fun e => hb ((render_eq_dot_iff hbase).1 e)
    simp only [hd, decide_false, Bool.not_false, if_true]
    rw [render_append r hb hq]
    have hlen : len (render r base) + 1 = ((render r base).length + 1 : Nat) := by simp [len_eq]
    have hsl : sliceFrom (render r base ++ 47 :: J q) (len (render r base) + 1) = .ok (J q) := by
      rw [hlen, sliceFrom_natCast (by simp)]
      simp
    simp only [hsl, bind, Except.bind, id, pure, Except.pure]

end ModVerif.TieFnDirhashDir
