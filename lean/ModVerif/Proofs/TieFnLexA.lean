/-
  Helper lemmas for Tie/FnLex.lean, part A: the embedding of the hand model's lexer state (Model/Modfile/Lex.lean,
  `Modfile.Input`) into the regenerated `input` struct of read.go (Generated/FnLex.lean), and the simulation of the
  leaf methods: isIdent, eof, peekRune, peekPrefix (byte loop), readRune, startToken, endToken, peek, isComment, isEOL.

  The two sides keep the lexer state differently:
  * Go keeps `complete` (whole file), `remaining` (a suffix of it), `tokenStart` (the suffix at the start of the
    pending token) and computes texts by slicing; the model keeps the consumed bytes reversed (`consumedRev`), the
    bytes of the pending token reversed (`tokRev`), and the comments reversed (`commentsRev`);
  * Go positions / token kinds are `int`s, the model's are `Nat`s / an inductive type.
  `embK k i` is the Go state that corresponds to the model state `i`, with the pending token's kind being the `int` `k`
  (the kind is the only component of the state for which `newInput` of the two sides differ: Go's zero token has kind 0,
  which is no token kind at all; the model's default is `.eof`; every `readToken` overwrites it).  `emb i` is `embK` at
  the kind code of the model's token kind.  `WF i` is the only invariant needed: `pos.byte = len(consumed)`.
-/
import ModVerif.Generated.FnLex
import ModVerif.Model.Modfile.Lex
import ModVerif.Drv.LexOps
import ModVerif.Proofs.GoRtLemmas
import ModVerif.Proofs.GoRtLemmasStr
import ModVerif.Proofs.GoRtLemmasModfile
import ModVerif.Proofs.GoRtLemmasLex
import ModVerif.Proofs.ModfileLex
set_option linter.unusedSimpArgs false
set_option linter.unusedVariables false
namespace ModVerif.TieFnLex
open ModVerif ModVerif.GoRt ModVerif.GoRtStr ModVerif.GoRtModfile ModVerif.GoRtLex ModVerif.Modfile
open ModVerif.Drv.LexOps.G (isPrintI isSpaceI)
open ModVerif.Drv.LexOps.M (kindCode)

/-! ### the embedding -/

def embPos (p : Position) : Generated.Lex.Position :=
  { Line := (p.line : Int), LineRune := (p.lineRune : Int), Byte := (p.byte : Int) }

def embTokK (k : Int) (t : Token) : Generated.Lex.token :=
  { kind := k, pos := embPos t.pos, endPos := embPos t.endPos, text := t.text }

def embTok (t : Token) : Generated.Lex.token := embTokK (kindCode t.kind) t

def embComment (c : Comment) : Generated.Lex.Comment :=
  { Start := embPos c.start, Token := c.token, Suffix := c.suffix }

def embK (k : Int) (i : Input) : Generated.Lex.input :=
  { complete := i.consumedRev.reverse ++ i.remaining
    remaining := i.remaining
    tokenStart := i.tokRev.reverse ++ i.remaining
    token := embTokK k i.token
    pos := embPos i.pos
    comments := i.commentsRev.reverse.map embComment }

def emb (i : Input) : Generated.Lex.input := embK (kindCode i.token.kind) i

/-- the invariant of the model state that the simulation needs: the byte offset is the number of consumed bytes -/
def WF (i : Input) : Prop := i.pos.byte = i.consumedRev.length

theorem kindCode_eq_eof (kd : TokKind) : (kindCode kd = -1) ↔ kd = .eof := by
  cases kd <;> simp [kindCode]

/-! ### isIdent -/

theorem isIdent_eq0 (c : Int) (h0 : 0 ≤ c) (h1 : c < 2147483648) :
    Generated.Lex.isIdent isPrintI isSpaceI c = Modfile.isIdent c.toNat := by
  unfold Generated.Lex.isIdent Modfile.isIdent Modfile.identExcluded
  simp only [toI32_id (by omega : -2147483648 ≤ c) h1, Id.run, isPrintI, isSpaceI]
  obtain ⟨n, rfl⟩ := Int.eq_ofNat_of_zero_le h0
  simp only [Int.toNat_natCast, List.contains_cons, List.contains_nil, Bool.or_false]
  simp only [show (32 : Int) = ((32 : Nat) : Int) from rfl, show (40 : Int) = ((40 : Nat) : Int) from rfl,
      show (41 : Int) = ((41 : Nat) : Int) from rfl, show (91 : Int) = ((91 : Nat) : Int) from rfl,
      show (93 : Int) = ((93 : Nat) : Int) from rfl, show (123 : Int) = ((123 : Nat) : Int) from rfl,
      show (125 : Int) = ((125 : Nat) : Int) from rfl, show (44 : Int) = ((44 : Nat) : Int) from rfl,
      natCast_eq_lit, Bool.or_assoc]
  split <;> rfl

/-- the whole int32 range: a negative rune matches no case label and is neither space nor printable (both sides see
    `toNat = 0`) -/
theorem isIdent_eqI (c : Int) (h0 : -2147483648 ≤ c) (h1 : c < 2147483648) :
    Generated.Lex.isIdent isPrintI isSpaceI c = Modfile.isIdent c.toNat := by
  by_cases hc : 0 ≤ c
  · exact isIdent_eq0 c hc h1
  · unfold Generated.Lex.isIdent Modfile.isIdent Modfile.identExcluded
    simp only [toI32_id h0 h1, Id.run, isPrintI, isSpaceI]
    have e : c.toNat = 0 := by omega
    have hne : ∀ k : Int, 0 ≤ k → decide (c = k) = false := by intro k hk; simp; omega
    rw [e]
    simp only [hne 32 (by omega), hne 40 (by omega), hne 41 (by omega), hne 91 (by omega), hne 93 (by omega),
      hne 123 (by omega), hne 125 (by omega), hne 44 (by omega)]
    simp
    rfl

theorem isIdent_eq (n : Nat) (h : n < 2147483648) :
    Generated.Lex.isIdent isPrintI isSpaceI (n : Int) = Modfile.isIdent n := by
  have := isIdent_eq0 (n : Int) (by omega) (by omega)
  simpa using this

/-! ### eof, peekRune, peek -/

theorem len_eq_zero_iff {α : Type} (s : List α) : len s = 0 ↔ s = [] := by
  cases s with
  | nil => simp
  | cons a t => simp [len_eq]; omega

theorem eof_eq (k : Int) (i : Input) : Generated.Lex.input_eof (embK k i) = i.eof := by
  unfold Generated.Lex.input_eof Input.eof embK
  cases i.remaining with
  | nil => simp
  | cons a t =>
    have : ¬ ((t.length : Int) + 1 = 0) := by omega
    simp [len_eq, this]

theorem peekRune_eq (k : Int) (i : Input) : Generated.Lex.input_peekRune (embK k i) = (i.peekRune : Int) := by
  unfold Generated.Lex.input_peekRune Input.peekRune embK
  cases h : i.remaining with
  | nil => simp [Id.run, pure]
  | cons b t =>
    have : ¬ (len (b :: t) = 0) := by simp [len_eq]; omega
    simp only [Id.run, this, decodeRune_cons, decide_false, Bool.false_eq_true, if_false, pure]

theorem peek_eq (i : Input) : Generated.Lex.input_peek (emb i) = kindCode i.peek := rfl

theorem peekRune_le (i : Input) : i.peekRune ≤ 0x10FFFF := by
  unfold Input.peekRune
  split
  · omega
  · exact decodeRune_le _

/-! ### tokenKind.isComment / isEOL -/

theorem isComment_eq (kd : TokKind) : Generated.Lex.tokenKind_isComment (kindCode kd) = kd.isComment := by
  cases kd <;> simp [Generated.Lex.tokenKind_isComment, kindCode, TokKind.isComment]

theorem isEOL_eq (kd : TokKind) : Generated.Lex.tokenKind_isEOL (kindCode kd) = kd.isEOL := by
  cases kd with
  | punct c =>
    show ((decide (((c.toNat : Nat) : Int) = -1) || decide (((c.toNat : Nat) : Int) = -2)) ||
      decide (((c.toNat : Nat) : Int) = ((10 : Nat) : Int))) = (c == 10)
    have h1 : decide (((c.toNat : Nat) : Int) = -1) = false := by simp
    have h2 : decide (((c.toNat : Nat) : Int) = -2) = false := by simp
    rw [h1, h2]
    exact byte_eq 10 c (by decide)
  | _ => simp [Generated.Lex.tokenKind_isEOL, kindCode, TokKind.isEOL]

/-! ### peekPrefix: the byte loop is `isPrefixOfB` -/

theorem peekPrefix_loop (gi : Generated.Lex.input) (p : Bytes) : ∀ (fuel k : Nat), k ≤ p.length → p.length - k < fuel →
    Generated.Lex.input_peekPrefix_loop1 gi p fuel (k : Int) =
      .ok (if isPrefixOfB (p.drop k) (gi.remaining.drop k) then Ctl.next (p.length : Int) else Ctl.ret false) := by
  intro fuel
  induction fuel with
  | zero => intro k _ h; omega
  | succ f ih =>
    intro k hk hf
    unfold Generated.Lex.input_peekPrefix_loop1
    by_cases hlt : k < p.length
    · have h1 : decide ((k : Int) < len p) = true := by simp [len_eq]; omega
      have hp : p.drop k = p[k] :: p.drop (k + 1) := List.drop_eq_getElem_cons hlt
      simp only [h1, if_true]
      by_cases hr : k < gi.remaining.length
      · have h2 : decide ((k : Int) ≥ len gi.remaining) = false := by simp [len_eq]; omega
        have hq : gi.remaining.drop k = gi.remaining[k] :: gi.remaining.drop (k + 1) := List.drop_eq_getElem_cons hr
        simp only [h2, idx_natCast hr, idx_natCast hlt, bind_ok, pure_eq_ok, Bool.false_eq_true, if_false]
        rw [hp, hq]
        simp only [isPrefixOfB]
        by_cases he : p[k] = gi.remaining[k]
        · have h3 : decide ((((gi.remaining[k]).toNat : Nat) : Int) = (((p[k]).toNat : Nat) : Int)) = true := by
            simp [he]
          simp only [h3, Bool.not_true, Bool.false_eq_true, if_false, he, beq_self_eq_true, Bool.true_and]
          have := ih (k + 1) (by omega) (by omega)
          rw [Int.natCast_add] at this
          exact this
        · have h3 : decide ((((gi.remaining[k]).toNat : Nat) : Int) = (((p[k]).toNat : Nat) : Int)) = false := by
            simp only [decide_eq_false_iff_not, byte_toInt_inj]; exact fun e => he e.symm
          have h4 : (p[k] == gi.remaining[k]) = false := by simp [he]
          simp [h3, h4]
      · have h2 : decide ((k : Int) ≥ len gi.remaining) = true := by simp [len_eq]; omega
        have hq : gi.remaining.drop k = [] := List.drop_eq_nil_of_le (by omega)
        simp only [h2, if_true, bind_ok, pure_eq_ok]
        rw [hp, hq]
        simp [isPrefixOfB]
    · have h1 : decide ((k : Int) < len p) = false := by simp [len_eq]; omega
      have hk' : k = p.length := by omega
      have hp : p.drop k = [] := List.drop_eq_nil_of_le (by omega)
      simp only [h1, Bool.false_eq_true, if_false, pure_eq_ok, hp, isPrefixOfB, if_true]
      rw [hk']

theorem peekPrefix_gen (gi : Generated.Lex.input) (p : Bytes) (fuel : Nat) (hf : p.length + 1 ≤ fuel) :
    Generated.Lex.input_peekPrefix fuel gi p = .ok (isPrefixOfB p gi.remaining) := by
  unfold Generated.Lex.input_peekPrefix
  have := peekPrefix_loop gi p fuel 0 (by omega) (by omega)
  rw [show ((0 : Nat) : Int) = 0 from rfl] at this
  simp only [List.drop_zero] at this
  simp only [this, bind_ok]
  split <;> rename_i h
  · split at h <;> simp_all
  · split at h <;> simp_all

theorem peekPrefix_eq (k : Int) (i : Input) (p : Bytes) (fuel : Nat) (hf : p.length + 1 ≤ fuel) :
    Generated.Lex.input_peekPrefix fuel (embK k i) p = .ok (i.peekPrefix p) :=
  peekPrefix_gen (embK k i) p fuel hf

/-! ### readRune -/

theorem readRune_eof (k : Int) (i : Input) (h : i.remaining = []) :
    Generated.Lex.input_readRune (embK k i) = .error .panic := by
  unfold Generated.Lex.input_readRune embK
  simp [h]

theorem readRune_eof_model (i : Input) (h : i.remaining = []) : ∃ e, readRune i = .error e := by
  unfold readRune; rw [h]; exact ⟨_, rfl⟩

/-- one `readRune` on both sides -/
theorem readRune_eq (k : Int) (i : Input) (h : i.remaining ≠ []) (hw : WF i) :
    ∃ r i', readRune i = .ok (r, i') ∧ Generated.Lex.input_readRune (embK k i) = .ok ((r : Int), embK k i') ∧ WF i' ∧
      i'.remaining.length < i.remaining.length ∧ i'.token = i.token ∧ r = i.peekRune := by
  have hwd := decodeRune_width i.remaining h
  unfold readRune Input.peekRune
  cases hr : i.remaining with
  | nil => exact absurd hr h
  | cons b t =>
    rw [hr] at hwd
    refine ⟨_, _, rfl, ?_, ?_, ?_, rfl, rfl⟩
    · unfold Generated.Lex.input_readRune embK
      have h0 : ¬ (len (b :: t) = 0) := by simp [len_eq]; omega
      simp only [hr, h0, decide_false, Bool.false_eq_true, if_false, decodeRune_cons,
        sliceFrom_natCast hwd.2, bind_ok, pure_eq_ok, show (10 : Int) = ((10 : Nat) : Int) from rfl, natCast_eq_lit]
      cases h10 : ((Utf8.decodeRune (b :: t)).1 == 10)
      · simp [embPos, embTokK]
      · simp [embPos, embTokK]
    · unfold WF at *
      have : ((b :: t).take (Utf8.decodeRune (b :: t)).2).length = (Utf8.decodeRune (b :: t)).2 := by
        rw [List.length_take]; omega
      split <;> simp [this, hw] <;> omega
    · simp only [List.length_drop]; omega

/-! ### startToken / endToken -/

theorem startToken_eq (k : Int) (i : Input) :
    Generated.Lex.input_startToken (embK k i) = ((), embK k (startToken i)) := by
  simp [Generated.Lex.input_startToken, embK, startToken, Id.run, embTokK, pure]

theorem startToken_wf {i : Input} (h : WF i) : WF (startToken i) := h

theorem endToken_wf {i : Input} (kd : TokKind) (h : WF i) : WF (endToken kd i) := h

/-- the text `endToken` stores, with the model's pattern match on the reversed token bytes spelled out as prefix tests -/
theorem endToken_text (kd : TokKind) (i : Input) :
    (endToken kd i).token.text =
      if kd.isComment then
        (if isPrefixOfB [10, 13] i.tokRev then (i.tokRev.drop 2).reverse
         else if isPrefixOfB [10] i.tokRev then (i.tokRev.drop 1).reverse else i.tokRev.reverse)
      else i.tokRev.reverse := by
  unfold endToken
  cases hc : kd.isComment
  · simp
  · simp only [if_true]
    split
    · rename_i r heq
      simp [heq, isPrefixOfB]
    · rename_i r h heq
      have h1 : isPrefixOfB [10, 13] (10 :: r) = false := by
        cases r with
        | nil => simp [isPrefixOfB]
        | cons d t =>
          have : d ≠ 13 := fun e => h t (by rw [e])
          simp [isPrefixOfB]; exact fun e => this e.symm
      simp [heq, h1, isPrefixOfB]
    · rename_i h1 h2
      have h3 : isPrefixOfB [10] i.tokRev = false := by
        cases hr : i.tokRev with
        | nil => simp [isPrefixOfB]
        | cons c t =>
          have : c ≠ 10 := fun e => h2 t (by rw [hr, e])
          simp [isPrefixOfB]; exact fun e => this e.symm
      have h4 : isPrefixOfB [10, 13] i.tokRev = false := by
        cases hr : i.tokRev with
        | nil => simp [isPrefixOfB]
        | cons c t =>
          have : c ≠ 10 := fun e => h2 t (by rw [hr, e])
          simp [isPrefixOfB]; exact fun e => (this e.symm).elim
      simp [h3, h4]

theorem endToken_eq (k : Int) (kd : TokKind) (i : Input) :
    Generated.Lex.input_endToken (embK k i) (kindCode kd) = .ok ((), emb (endToken kd i)) := by
  have hE : emb (endToken kd i) = { (embK k i) with token :=
      { kind := kindCode kd, pos := embPos i.token.pos, endPos := embPos i.pos, text := (endToken kd i).token.text } } := rfl
  rw [hE, endToken_text]
  unfold Generated.Lex.input_endToken
  have hl : len (embK k i).tokenStart - len (embK k i).remaining = (i.tokRev.reverse.length : Int) := by
    simp [embK, len_eq]
  have hs : sliceTo (i.tokRev.reverse ++ i.remaining) (i.tokRev.reverse.length : Int) = .ok i.tokRev.reverse := by
    rw [sliceTo_natCast (by simp)]; simp
  simp only [isComment_eq]
  show (do
    let t1 ← sliceTo (i.tokRev.reverse ++ i.remaining) (len (embK k i).tokenStart - len (embK k i).remaining)
    _) = _
  rw [hl, hs]
  simp only [bind_ok]
  cases hc : kd.isComment
  · simp [embK, embTokK, pure, Except.pure]
  · simp only [if_true, hasSuffix_reverse, trimSuffix_reverse]
    simp only [show ([13, 10] : Bytes).reverse = [10, 13] from rfl, show ([10] : Bytes).reverse = [10] from rfl]
    cases h1 : isPrefixOfB [10, 13] i.tokRev
    · simp [embK, embTokK, pure, Except.pure]
    · have hlen := isPrefixOfB_length _ _ h1
      simp only [List.length_cons, List.length_nil] at hlen
      have h2 : len i.tokRev.reverse - 2 = ((i.tokRev.length - 2 : Nat) : Int) := by simp [len_eq]; omega
      have h3 : i.tokRev.reverse.take (i.tokRev.length - 2) = (i.tokRev.drop 2).reverse := by
        rw [List.reverse_drop]
      simp only [if_true, h2]
      rw [sliceTo_natCast (by simp), h3]
      simp [embK, embTokK]

/-! ### states whose `tokenStart` is arbitrary

  Before `startToken` the field `tokenStart` is dead (Go's `newInput` leaves it nil, the model's `tokRev = []` stands for
  the whole remaining input): `embKT k ts i` is `embK k i` with `tokenStart := ts`.  The methods that run before
  `startToken` (eof, peekRune, peekPrefix, readRune) carry an arbitrary `ts` along; `startToken` overwrites it. -/

def embKT (k : Int) (ts : Bytes) (i : Input) : Generated.Lex.input := { (embK k i) with tokenStart := ts }

theorem embK_eq_embKT (k : Int) (i : Input) : embK k i = embKT k (i.tokRev.reverse ++ i.remaining) i := rfl

theorem eof_eqT (k : Int) (ts : Bytes) (i : Input) : Generated.Lex.input_eof (embKT k ts i) = i.eof := eof_eq k i

theorem peekRune_eqT (k : Int) (ts : Bytes) (i : Input) :
    Generated.Lex.input_peekRune (embKT k ts i) = (i.peekRune : Int) := peekRune_eq k i

theorem peekPrefix_eqT (k : Int) (ts : Bytes) (i : Input) (p : Bytes) (fuel : Nat) (hf : p.length + 1 ≤ fuel) :
    Generated.Lex.input_peekPrefix fuel (embKT k ts i) p = .ok (i.peekPrefix p) :=
  peekPrefix_gen (embKT k ts i) p fuel hf

/-- readRune does not look at `tokenStart` and does not change it -/
theorem readRune_frame (gi : Generated.Lex.input) (ts : Bytes) :
    Generated.Lex.input_readRune { gi with tokenStart := ts } =
      match Generated.Lex.input_readRune gi with
      | .ok (r, g) => .ok (r, { g with tokenStart := ts })
      | .error e => .error e := by
  unfold Generated.Lex.input_readRune
  simp only []
  split
  · rfl
  · cases sliceFrom gi.remaining (decodeRune gi.remaining).2 with
    | error e => rfl
    | ok t => simp only [bind_ok]; split <;> rfl

theorem readRune_eofT (k : Int) (ts : Bytes) (i : Input) (h : i.remaining = []) :
    Generated.Lex.input_readRune (embKT k ts i) = .error .panic := by
  unfold embKT; rw [readRune_frame, readRune_eof k i h]

theorem readRune_eqT (k : Int) (ts : Bytes) (i : Input) (h : i.remaining ≠ []) (hw : WF i) :
    ∃ r i', readRune i = .ok (r, i') ∧ Generated.Lex.input_readRune (embKT k ts i) = .ok ((r : Int), embKT k ts i') ∧
      WF i' ∧ i'.remaining.length < i.remaining.length ∧ i'.token = i.token ∧ r = i.peekRune := by
  obtain ⟨r, i', hM, hG, rest⟩ := readRune_eq k i h hw
  refine ⟨r, i', hM, ?_, rest⟩
  unfold embKT; rw [readRune_frame, hG]

theorem startToken_eqT (k : Int) (ts : Bytes) (i : Input) :
    Generated.Lex.input_startToken (embKT k ts i) = ((), embK k (startToken i)) := by
  simp [Generated.Lex.input_startToken, embKT, embK, startToken, Id.run, embTokK, pure]

end ModVerif.TieFnLex
