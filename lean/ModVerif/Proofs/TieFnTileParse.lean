/-
  Tie proofs for sumdb/tlog/tile.go, part 3: `ParseTilePath`.
-/
import ModVerif.Proofs.TieFnTilePath
set_option linter.unusedSimpArgs false
namespace ModVerif.TieFnTile
open ModVerif ModVerif.GoRt ModVerif.GoRtTile

/-- the result of the model's parser in the result type of the generated one (`badPathError` carries the path in Go) -/
def ptpOut : Option Tile.Tile → GTile × Option String
  | some t => (toGen t, none)
  | none => ((default : GTile), some "badPathError")

theorem B_tile' : ([116, 105, 108, 101] : Bytes) = B "tile" := by decide +kernel
theorem B_dotp' : ([46, 112] : Bytes) = B ".p" := by decide +kernel
theorem B_zero' : ([48] : Bytes) = B "0" := by decide +kernel

theorem sliceTo_natCast' {α : Type} {v : List α} {k : Nat} (h : k ≤ v.length) :
    sliceTo v (k : Int) = .ok (v.take k) := by
  have h1 : (0 : Int) ≤ (k : Int) ∧ (k : Int) ≤ len v := by simp only [len, Int.ofNat_eq_natCast]; omega
  simp only [sliceTo, h1, and_self, ↓reduceIte, Int.toNat_natCast]; rfl

theorem sliceFrom_natCast' {α : Type} {v : List α} {k : Nat} (h : k ≤ v.length) :
    sliceFrom v (k : Int) = .ok (v.drop k) := by
  have h1 : (0 : Int) ≤ (k : Int) ∧ (k : Int) ≤ len v := by simp only [len, Int.ofNat_eq_natCast]; omega
  simp only [sliceFrom, h1, and_self, ↓reduceIte, Int.toNat_natCast]; rfl

theorem isPrefixOfB_length : ∀ (p s : Bytes), isPrefixOfB p s = true → p.length ≤ s.length
  | [], _, _ => Nat.zero_le _
  | _ :: _, [], h => by simp [isPrefixOfB] at h
  | a :: p, b :: s, h => by
    simp only [isPrefixOfB, Bool.and_eq_true] at h
    have := isPrefixOfB_length p s h.2
    simp only [List.length_cons]; omega

/-- a string with the suffix ".p" has at least two bytes -/
theorem hasSuffixB_dotp_len (s : Bytes) (h : hasSuffixB s (B ".p") = true) : 2 ≤ s.length := by
  have := isPrefixOfB_length _ _ h
  simp only [List.length_reverse] at this
  have e : (B ".p").length = 2 := by decide +kernel
  omega

theorem mem_splitOn_length (c : UInt8) : ∀ (s : Bytes) (e : Bytes), e ∈ splitOn c s → e.length ≤ s.length
  | [], e, h => by
    simp only [splitOn, List.mem_singleton] at h; subst h; simp
  | x :: rest, e, h => by
    unfold splitOn at h
    split at h
    · rcases List.mem_cons.mp h with h1 | h1
      · subst h1; simp
      · have := mem_splitOn_length c rest e h1
        simp only [List.length_cons]; omega
    · split at h
      · simp only [List.mem_singleton] at h; subst h; simp
      · rename_i s ss heq
        rcases List.mem_cons.mp h with h1 | h1
        · subst h1
          have := mem_splitOn_length c rest s (by rw [heq]; simp)
          simp only [List.length_cons]; omega
        · have := mem_splitOn_length c rest e (by rw [heq]; simp [h1])
          simp only [List.length_cons]; omega

theorem list_shape4 {α : Type} (f : List α) : f.length < 4 ∨ ∃ a b c d rest, f = a :: b :: c :: d :: rest := by
  match f with
  | [] => left; simp
  | [_] => left; simp
  | [_, _] => left; simp
  | [_, _, _] => left; simp
  | a :: b :: c :: d :: rest => right; exact ⟨a, b, c, d, rest, rfl⟩

theorem splitOn_length_le (c : UInt8) : ∀ s : Bytes, (splitOn c s).length ≤ s.length + 1
  | [] => by simp [splitOn]
  | x :: rest => by
    have ih := splitOn_length_le c rest
    unfold splitOn
    split
    · simp only [List.length_cons]; omega
    · split
      · simp
      · rename_i s ss heq
        rw [heq] at ih
        simp only [List.length_cons] at ih ⊢; omega

def ptpTail (path : Bytes) (h l : Int) (isData : Bool) (w : Int) (segs : List Bytes) : Option Tile.Tile :=
  match Tile.parseN segs 0 with
  | none => none
  | some n =>
    if n ≥ 2 ^ 63 then none else
    let t : Tile.Tile := { h := h.toNat, l := if isData then 0 else l.toNat, n := n, w := w.toNat, data := isData }
    if path != Tile.tilePath t then none else some t

def ptpRest (path : Bytes) (f : List Bytes) (isData : Bool) (h l : Int) : Option Tile.Tile :=
  if h < 1 || l < 0 || h > 30 then none else
  let w : Int := 2 ^ h.toNat
  let dotP := (f[f.length - 2]?).getD []
  if hasSuffixB dotP (B ".p") then
    match (f[f.length - 1]?).bind Decimal.parseInt64 with
    | none => none
    | some ww =>
      if ww ≤ 0 || ww ≥ w then none
      else ptpTail path h l isData ww (((f.set (f.length - 2) (dotP.take (dotP.length - 2))).take (f.length - 1)).drop 3)
  else ptpTail path h l isData w (f.drop 3)

theorem parseTilePath_norm (path : Bytes) :
    Tile.parseTilePath path =
      (let f := splitOn 47 path
       if f.length < 4 || f[0]? != some (B "tile") then none else
       let isData := f[2]? == some (B "data")
       let f' := if isData then f.set 2 (B "0") else f
       match (f[1]?).bind Decimal.parseInt64, (f'[2]?).bind Decimal.parseInt64 with
       | some h, some l => ptpRest path f' isData h l
       | _, _ => none) := by
  unfold Tile.parseTilePath
  simp only
  generalize splitOn 47 path = f
  by_cases h0 : (decide (f.length < 4) || f[0]? != some (B "tile")) = true
  · simp only [h0, ↓reduceIte]
  · simp only [h0, Bool.false_eq_true, ↓reduceIte]
    generalize (if (f[2]? == some (B "data")) = true then f.set 2 (B "0") else f) = f'
    cases f[1]?.bind Decimal.parseInt64 with
    | none => rfl
    | some h =>
      cases f'[2]?.bind Decimal.parseInt64 with
      | none => rfl
      | some l =>
        simp only [ptpRest]
        by_cases hr : (decide (h < 1) || decide (l < 0) || decide (h > 30)) = true
        · simp only [hr, ↓reduceIte]
        · simp only [hr, Bool.false_eq_true, ↓reduceIte]
          by_cases hs : hasSuffixB (f'[f'.length - 2]?.getD []) (B ".p") = true
          · simp only [hs, ↓reduceIte]
            cases f'[f'.length - 1]?.bind Decimal.parseInt64 with
            | none => rfl
            | some ww =>
              simp only
              by_cases hw : (decide (ww ≤ 0) || decide (ww ≥ 2 ^ h.toNat)) = true
              · simp only [hw, ↓reduceIte]
              · simp only [hw, Bool.false_eq_true, ↓reduceIte, ptpTail]
                rfl
          · simp only [hs, Bool.false_eq_true, ↓reduceIte, ptpTail]
            rfl

/-- the path elements the `n = n*pathBase + nn` loop of ParseTilePath runs over (after "data" → "0" and after removing
    the `.p/W` suffix), exactly as the model computes them -/
def nSegs (path : Bytes) : List Bytes :=
  let f := splitOn 47 path
  let f := if f[2]? == some (B "data") then f.set 2 (B "0") else f
  let dotP := (f[f.length - 2]?).getD []
  let f := if hasSuffixB dotP (B ".p") then (f.set (f.length - 2) (dotP.take (dotP.length - 2))).take (f.length - 1) else f
  f.drop 3

/-- `ParseTilePath(path)` whenever the running value of the `NNN` elements stays in the int64 range (`Fits`; otherwise the
    Go code wraps around, to be rejected by the final `path != t.Path()`, and the checked translation reports overflow);
    `len(path)` is an int (the code computes `len(f) - 2`). -/
theorem ParseTilePath_eq (fuel : Nat) (path : Bytes) (hfit : Fits (nSegs path) 0)
    (hplen : path.length + 1 < 2 ^ 63) (hfuel : path.length + 9 ≤ fuel) :
    Generated.Tile.ParseTilePath fuel path = .ok (ptpOut (Tile.parseTilePath path)) := by
  have hsl := splitOn_length_le 47 path
  rw [parseTilePath_norm]
  simp only [Generated.Tile.ParseTilePath, split_single, B_tile', B_data', B_dotp', B_zero']
  rcases list_shape4 (splitOn 47 path) with hshort | ⟨a, b, c, d, rest, hf⟩
  · have h1 : len (splitOn 47 path) < 4 := by simp only [len, Int.ofNat_eq_natCast]; omega
    simp only [h1, hshort, decide_true, ↓reduceIte, mpure, mbind_ok, Bool.true_or, ptpOut]
  have hall0 : ∀ e ∈ (a :: b :: c :: d :: rest), e.length ≤ path.length := by
    intro e he; rw [← hf] at he; exact mem_splitOn_length 47 path e he
  rw [hf]
  rw [hf] at hsl
  simp only [List.length_cons] at hsl
  have hlen : ¬ (len (a :: b :: c :: d :: rest) < 4) := by simp [len]; omega
  have hlen' : ¬ ((a :: b :: c :: d :: rest).length < 4) := by simp
  have i0 : idxL (a :: b :: c :: d :: rest) 0 = .ok a := rfl
  have i1 : idxL (a :: b :: c :: d :: rest) 1 = .ok b := rfl
  have i2 : idxL (a :: b :: c :: d :: rest) 2 = .ok c := rfl
  have g0 : (a :: b :: c :: d :: rest)[0]? = some a := rfl
  have g1 : (a :: b :: c :: d :: rest)[1]? = some b := rfl
  have g2 : (a :: b :: c :: d :: rest)[2]? = some c := rfl
  simp only [hlen, hlen', decide_false, Bool.false_eq_true, ↓reduceIte, i0, i1, i2, g0, g1, g2, mbind_ok, mpure, Bool.false_or]
  by_cases ha : a = B "tile"
  case neg =>
    have : (some a != some (B "tile")) = true := by simp [ha]
    simp only [ha, decide_false, Bool.not_false, ↓reduceIte, this, ptpOut]
  subst ha
  simp only [decide_true, Bool.not_true, Bool.false_eq_true, ↓reduceIte, bne_self_eq_false]
  by_cases hdata : c = B "data"
  · subst hdata
    have hset : setIdxL (B "tile" :: b :: B "data" :: d :: rest) 2 (B "0") = .ok (B "tile" :: b :: B "0" :: d :: rest) := by
      rw [show (2 : Int) = ((2 : Nat) : Int) from rfl, setIdxL_natCast (by simp)]; rfl
    have i2' : idxL (B "tile" :: b :: B "0" :: d :: rest) 2 = .ok (B "0") := rfl
    have g2' : (B "tile" :: b :: B "0" :: d :: rest)[2]? = some (B "0") := rfl
    have hdata2 : ((B "tile" :: b :: B "data" :: d :: rest)[2]? == some (B "data")) = true := by simp
    simp only [decide_true, ↓reduceIte, hset, mbind_ok, i2', beq_self_eq_true, List.set_cons_succ, List.set_cons_zero, g2']
    generalize hA : B "tile" = a at *
    have hs2 : (a :: b :: B "data" :: d :: rest).set 2 (B "0") = a :: b :: B "0" :: d :: rest := rfl
    have hall : ∀ e ∈ (a :: b :: B "0" :: d :: rest), e.length ≤ path.length + 1 := by
      intro e he
      have h01 : (B "0").length = 1 := by decide +kernel
      simp only [List.mem_cons] at he
      rcases he with h | h | h | h | h
      · subst h; have := hall0 e (by simp); omega
      · subst h; have := hall0 e (by simp); omega
      · subst h; omega
      · subst h; have := hall0 e (by simp); omega
      · have := hall0 e (by simp [h]); omega

    -- context: isData = true, f[2] = (B "0")
    simp only [Option.bind_some]
    cases hpb : Decimal.parseInt64 b with
    | none =>
      have hb := atoi_none b hpb
      simp only [hb, Bool.not_false, Bool.true_or, ↓reduceIte, Option.bind_none, ptpOut]
    | some h =>
      rw [atoi_some b h hpb]
      cases hpc : Decimal.parseInt64 (B "0") with
      | none =>
        have hc := atoi_none (B "0") hpc
        simp only [hc, Bool.not_false, Bool.true_or, Bool.or_true, ↓reduceIte, Option.bind_some, Option.bind_none, ptpOut]
      | some l =>
        rw [atoi_some (B "0") l hpc]
        simp only [Option.bind_some, Option.isNone_none, Bool.not_true, Bool.false_or]
        by_cases hr : (decide (h < 1) || decide (l < 0) || decide (h > 30)) = true
        · simp only [hr, ↓reduceIte, ptpRest, ptpOut]
        · have hr' := hr
          simp only [Bool.or_eq_true, decide_eq_true_eq, not_or, Int.not_lt, Int.not_lt] at hr'
          obtain ⟨⟨hh1, hl0⟩, hh30⟩ := hr'
          have hh30' : h ≤ 30 := by omega
          obtain ⟨hn, rfl⟩ : ∃ hn : Nat, h = (hn : Int) := ⟨h.toNat, by omega⟩
          have hpw : 2 ^ hn < 2 ^ 63 := Nat.pow_lt_pow_right (by omega) (by omega)
          have hlenf : len (a :: b :: (B "0") :: d :: rest) = ((rest.length + 4 : Nat) : Int) := by simp [len]; omega
          have e2 : ((rest.length + 4 : Nat) : Int) - 2 = ((rest.length + 2 : Nat) : Int) := by omega
          have e1 : ((rest.length + 4 : Nat) : Int) - 1 = ((rest.length + 3 : Nat) : Int) := by omega
          have hi2 : rest.length + 2 < (a :: b :: (B "0") :: d :: rest).length := by simp
          have hi1 : rest.length + 3 < (a :: b :: (B "0") :: d :: rest).length := by simp
          have hm2 : (a :: b :: (B "0") :: d :: rest).length - 2 = rest.length + 2 := by simp
          have hm1 : (a :: b :: (B "0") :: d :: rest).length - 1 = rest.length + 3 := by simp
          have hb2 : rest.length + 2 < 2 ^ 63 := by omega
          have hb3 : rest.length + 3 < 2 ^ 63 := by omega
          simp only [hr, Bool.false_eq_true, ↓reduceIte, toU64_natCast (show hn < 2 ^ 64 by omega), shl_one_natCast,
            mbind_ok, chk64_natCast hpw, hlenf, e2, chk64_natCast hb2,
            idxL_natCast' hi2, ptpRest, hm2, hm1, List.getElem?_eq_getElem hi2, List.getElem?_eq_getElem hi1,
            Option.getD_some, hasSuffix, Int.toNat_natCast, Option.bind_some]
          generalize hdp : (a :: b :: (B "0") :: d :: rest)[rest.length + 2] = dotP
          have hdpl : dotP.length ≤ path.length + 1 := hall dotP (by rw [← hdp]; exact List.getElem_mem _)
          by_cases hs : hasSuffixB dotP (B ".p") = true
          · -- partial tile: `.p/W`
            have hdl := hasSuffixB_dotp_len dotP hs
            generalize hlast : (a :: b :: (B "0") :: d :: rest)[rest.length + 3] = last
            simp only [hs, ↓reduceIte, e1, chk64_natCast hb3, mbind_ok, idxL_natCast' hi1, hlast]
            cases hpw2 : Decimal.parseInt64 last with
            | none =>
              have hw := atoi_none last hpw2
              simp only [hw, Bool.not_false, Bool.true_or, ↓reduceIte, ptpOut]
            | some ww =>
              rw [atoi_some last ww hpw2]
              simp only [Option.isNone_none, Bool.not_true, Bool.false_or]
              have hcast : ((2 : Int) ^ hn) = (((2 ^ hn : Nat)) : Int) := by simp
              simp only [hcast]
              by_cases hwr : (decide (ww ≤ 0) || decide (ww ≥ ((2 ^ hn : Nat) : Int))) = true
              · simp only [hwr, ↓reduceIte, ptpOut]
              · have hwr' := hwr
                simp only [Bool.or_eq_true, decide_eq_true_eq, not_or, Int.not_le, ge_iff_le] at hwr'
                obtain ⟨hw0, hw1⟩ := hwr'
                have e3 : (len dotP) - 2 = ((dotP.length - 2 : Nat) : Int) := by simp only [len, Int.ofNat_eq_natCast]; omega
                have hb4 : dotP.length - 2 < 2 ^ 63 := by omega
                have hb5 : dotP.length - 2 ≤ dotP.length := by omega
                have hlen2 : len ((a :: b :: (B "0") :: d :: rest).set (rest.length + 2) (List.take (dotP.length - 2) dotP)) =
                    ((rest.length + 4 : Nat) : Int) := by simp [len] <;> omega
                have htk : rest.length + 3 ≤ ((a :: b :: (B "0") :: d :: rest).set (rest.length + 2) (List.take (dotP.length - 2) dotP)).length := by simp <;> omega
                have hdr : (3 : Nat) ≤ (List.take (rest.length + 3) ((a :: b :: (B "0") :: d :: rest).set (rest.length + 2) (List.take (dotP.length - 2) dotP))).length := by simp <;> omega
                have e3' : (3 : Int) = ((3 : Nat) : Int) := rfl
                simp only [hwr, Bool.false_eq_true, ↓reduceIte, e3, chk64_natCast hb4,
                  mbind_ok, TieFnTile.sliceTo_natCast' hb5,
                  chk64_natCast hb2, setIdxL_natCast hi2, hlen2, e1,
                  chk64_natCast hb3, TieFnTile.sliceTo_natCast' htk, e3',
                  TieFnTile.sliceFrom_natCast' hdr]
                generalize hsegs : List.drop 3 (List.take (rest.length + 3)
                  ((a :: b :: (B "0") :: d :: rest).set (rest.length + 2) (List.take (dotP.length - 2) dotP))) = segs
                have hsl : segs.length < fuel := by
                  rw [← hsegs]; simp; omega
                have hfit' : Fits segs 0 := by
                  have := hfit
                  simp only [nSegs, hf, hdata2, hs2, Bool.false_eq_true, hm2, hm1, List.getElem?_eq_getElem hi2, Option.getD_some, hdp, hs, ↓reduceIte, hsegs] at this
                  exact this
                have hloop := ParseTilePath_loop1_eq path segs [] 0 fuel hsl hfit'
                simp only [List.nil_append, List.length_nil, Int.natCast_zero] at hloop
                simp only [hloop, mbind_ok, ptpTail]
                cases hpn : Tile.parseN segs 0 with
                | none => simp only [loopOut, ptpOut]
                | some n =>
                  have hn63 : n < 2 ^ 63 := hfit' segs.length n (by rw [List.take_length]; exact hpn)
                  have hge : ¬ (n ≥ 2 ^ 63) := by omega
                  obtain ⟨wn, rfl⟩ : ∃ wn : Nat, ww = (wn : Int) := ⟨ww.toNat, by omega⟩
                  have htile : ({ H := (hn : Int), L := -1, N := (n : Int), W := (wn : Int) } : GTile) =
                      toGen { h := hn, l := 0, n := n, w := wn, data := true } := by
                    simp [toGen]
                  have htp := Tile_Path_eq fuel { h := hn, l := 0, n := n, w := wn, data := true } (show hn ≤ 62 by omega) hn63 (by omega)
                  simp only [loopOut, hge, ↓reduceIte, Int.toNat_natCast, htile, htp, mbind_ok]
                  by_cases hpe : path = Tile.tilePath { h := hn, l := 0, n := n, w := wn, data := true }
                  · simp [← hpe, ptpOut]
                  · simp [hpe, ptpOut]
          · -- complete tile
            have e3' : (3 : Int) = ((3 : Nat) : Int) := rfl
            have hdr : (3 : Nat) ≤ (a :: b :: (B "0") :: d :: rest).length := by simp
            simp only [hs, Bool.false_eq_true, ↓reduceIte, e3', TieFnTile.sliceFrom_natCast' hdr, mbind_ok]
            generalize hsegs : List.drop 3 (a :: b :: (B "0") :: d :: rest) = segs
            have hsl : segs.length < fuel := by
              rw [← hsegs]; simp; omega
            have hfit' : Fits segs 0 := by
              have := hfit
              simp only [nSegs, hf, hdata2, hs2, Bool.false_eq_true, hm2, List.getElem?_eq_getElem hi2, Option.getD_some, hdp, hs, ↓reduceIte, hsegs] at this
              exact this
            have hloop := ParseTilePath_loop1_eq path segs [] 0 fuel hsl hfit'
            simp only [List.nil_append, List.length_nil, Int.natCast_zero] at hloop
            simp only [hloop, mbind_ok, ptpTail]
            cases hpn : Tile.parseN segs 0 with
            | none => simp only [loopOut, ptpOut]
            | some n =>
              have hn63 : n < 2 ^ 63 := hfit' segs.length n (by rw [List.take_length]; exact hpn)
              have hge : ¬ (n ≥ 2 ^ 63) := by omega
              have hcast : ((2 : Int) ^ hn) = (((2 ^ hn : Nat)) : Int) := by simp
              have htile : ({ H := (hn : Int), L := -1, N := (n : Int), W := ((2 ^ hn : Nat) : Int) } : GTile) =
                  toGen { h := hn, l := 0, n := n, w := 2 ^ hn, data := true } := by
                simp [toGen]
              have htp := Tile_Path_eq fuel { h := hn, l := 0, n := n, w := 2 ^ hn, data := true } (show hn ≤ 62 by omega) hn63 (by omega)
              simp only [loopOut, hge, ↓reduceIte, hcast, Int.toNat_natCast, htile, htp, mbind_ok]
              by_cases hpe : path = Tile.tilePath { h := hn, l := 0, n := n, w := 2 ^ hn, data := true }
              · simp [← hpe, ptpOut]
              · simp [hpe, ptpOut]

  · have hdata' : (some c == some (B "data")) = false := by simp [hdata]
    have hdata2 : ((B "tile" :: b :: c :: d :: rest)[2]? == some (B "data")) = false := by simp [hdata]
    simp only [hdata, decide_false, Bool.false_eq_true, ↓reduceIte, hdata', g2]
    generalize hA : B "tile" = a at *
    have hs2 : True := trivial
    have hall : ∀ e ∈ (a :: b :: c :: d :: rest), e.length ≤ path.length + 1 := by
      intro e he; have := hall0 e he; omega

    -- context: isData = false, f[2] = c
    simp only [Option.bind_some]
    cases hpb : Decimal.parseInt64 b with
    | none =>
      have hb := atoi_none b hpb
      simp only [hb, Bool.not_false, Bool.true_or, ↓reduceIte, Option.bind_none, ptpOut]
    | some h =>
      rw [atoi_some b h hpb]
      cases hpc : Decimal.parseInt64 c with
      | none =>
        have hc := atoi_none c hpc
        simp only [hc, Bool.not_false, Bool.true_or, Bool.or_true, ↓reduceIte, Option.bind_some, Option.bind_none, ptpOut]
      | some l =>
        rw [atoi_some c l hpc]
        simp only [Option.bind_some, Option.isNone_none, Bool.not_true, Bool.false_or]
        by_cases hr : (decide (h < 1) || decide (l < 0) || decide (h > 30)) = true
        · simp only [hr, ↓reduceIte, ptpRest, ptpOut]
        · have hr' := hr
          simp only [Bool.or_eq_true, decide_eq_true_eq, not_or, Int.not_lt, Int.not_lt] at hr'
          obtain ⟨⟨hh1, hl0⟩, hh30⟩ := hr'
          have hh30' : h ≤ 30 := by omega
          obtain ⟨hn, rfl⟩ : ∃ hn : Nat, h = (hn : Int) := ⟨h.toNat, by omega⟩
          have hpw : 2 ^ hn < 2 ^ 63 := Nat.pow_lt_pow_right (by omega) (by omega)
          have hlenf : len (a :: b :: c :: d :: rest) = ((rest.length + 4 : Nat) : Int) := by simp [len]; omega
          have e2 : ((rest.length + 4 : Nat) : Int) - 2 = ((rest.length + 2 : Nat) : Int) := by omega
          have e1 : ((rest.length + 4 : Nat) : Int) - 1 = ((rest.length + 3 : Nat) : Int) := by omega
          have hi2 : rest.length + 2 < (a :: b :: c :: d :: rest).length := by simp
          have hi1 : rest.length + 3 < (a :: b :: c :: d :: rest).length := by simp
          have hm2 : (a :: b :: c :: d :: rest).length - 2 = rest.length + 2 := by simp
          have hm1 : (a :: b :: c :: d :: rest).length - 1 = rest.length + 3 := by simp
          have hb2 : rest.length + 2 < 2 ^ 63 := by omega
          have hb3 : rest.length + 3 < 2 ^ 63 := by omega
          simp only [hr, Bool.false_eq_true, ↓reduceIte, toU64_natCast (show hn < 2 ^ 64 by omega), shl_one_natCast,
            mbind_ok, chk64_natCast hpw, hlenf, e2, chk64_natCast hb2,
            idxL_natCast' hi2, ptpRest, hm2, hm1, List.getElem?_eq_getElem hi2, List.getElem?_eq_getElem hi1,
            Option.getD_some, hasSuffix, Int.toNat_natCast, Option.bind_some]
          generalize hdp : (a :: b :: c :: d :: rest)[rest.length + 2] = dotP
          have hdpl : dotP.length ≤ path.length + 1 := hall dotP (by rw [← hdp]; exact List.getElem_mem _)
          by_cases hs : hasSuffixB dotP (B ".p") = true
          · -- partial tile: `.p/W`
            have hdl := hasSuffixB_dotp_len dotP hs
            generalize hlast : (a :: b :: c :: d :: rest)[rest.length + 3] = last
            simp only [hs, ↓reduceIte, e1, chk64_natCast hb3, mbind_ok, idxL_natCast' hi1, hlast]
            cases hpw2 : Decimal.parseInt64 last with
            | none =>
              have hw := atoi_none last hpw2
              simp only [hw, Bool.not_false, Bool.true_or, ↓reduceIte, ptpOut]
            | some ww =>
              rw [atoi_some last ww hpw2]
              simp only [Option.isNone_none, Bool.not_true, Bool.false_or]
              have hcast : ((2 : Int) ^ hn) = (((2 ^ hn : Nat)) : Int) := by simp
              simp only [hcast]
              by_cases hwr : (decide (ww ≤ 0) || decide (ww ≥ ((2 ^ hn : Nat) : Int))) = true
              · simp only [hwr, ↓reduceIte, ptpOut]
              · have hwr' := hwr
                simp only [Bool.or_eq_true, decide_eq_true_eq, not_or, Int.not_le, ge_iff_le] at hwr'
                obtain ⟨hw0, hw1⟩ := hwr'
                have e3 : (len dotP) - 2 = ((dotP.length - 2 : Nat) : Int) := by simp only [len, Int.ofNat_eq_natCast]; omega
                have hb4 : dotP.length - 2 < 2 ^ 63 := by omega
                have hb5 : dotP.length - 2 ≤ dotP.length := by omega
                have hlen2 : len ((a :: b :: c :: d :: rest).set (rest.length + 2) (List.take (dotP.length - 2) dotP)) =
                    ((rest.length + 4 : Nat) : Int) := by simp [len] <;> omega
                have htk : rest.length + 3 ≤ ((a :: b :: c :: d :: rest).set (rest.length + 2) (List.take (dotP.length - 2) dotP)).length := by simp <;> omega
                have hdr : (3 : Nat) ≤ (List.take (rest.length + 3) ((a :: b :: c :: d :: rest).set (rest.length + 2) (List.take (dotP.length - 2) dotP))).length := by simp <;> omega
                have e3' : (3 : Int) = ((3 : Nat) : Int) := rfl
                simp only [hwr, Bool.false_eq_true, ↓reduceIte, e3, chk64_natCast hb4,
                  mbind_ok, TieFnTile.sliceTo_natCast' hb5,
                  chk64_natCast hb2, setIdxL_natCast hi2, hlen2, e1,
                  chk64_natCast hb3, TieFnTile.sliceTo_natCast' htk, e3',
                  TieFnTile.sliceFrom_natCast' hdr]
                generalize hsegs : List.drop 3 (List.take (rest.length + 3)
                  ((a :: b :: c :: d :: rest).set (rest.length + 2) (List.take (dotP.length - 2) dotP))) = segs
                have hsl : segs.length < fuel := by
                  rw [← hsegs]; simp; omega
                have hfit' : Fits segs 0 := by
                  have := hfit
                  simp only [nSegs, hf, hdata2, hs2, Bool.false_eq_true, hm2, hm1, List.getElem?_eq_getElem hi2, Option.getD_some, hdp, hs, ↓reduceIte, hsegs] at this
                  exact this
                have hloop := ParseTilePath_loop1_eq path segs [] 0 fuel hsl hfit'
                simp only [List.nil_append, List.length_nil, Int.natCast_zero] at hloop
                simp only [hloop, mbind_ok, ptpTail]
                cases hpn : Tile.parseN segs 0 with
                | none => simp only [loopOut, ptpOut]
                | some n =>
                  have hn63 : n < 2 ^ 63 := hfit' segs.length n (by rw [List.take_length]; exact hpn)
                  have hge : ¬ (n ≥ 2 ^ 63) := by omega
                  obtain ⟨wn, rfl⟩ : ∃ wn : Nat, ww = (wn : Int) := ⟨ww.toNat, by omega⟩
                  have htile : ({ H := (hn : Int), L := l, N := (n : Int), W := (wn : Int) } : GTile) =
                      toGen { h := hn, l := l.toNat, n := n, w := wn, data := false } := by
                    simp [toGen]; omega
                  have htp := Tile_Path_eq fuel { h := hn, l := l.toNat, n := n, w := wn, data := false } (show hn ≤ 62 by omega) hn63 (by omega)
                  simp only [loopOut, hge, ↓reduceIte, Int.toNat_natCast, htile, htp, mbind_ok]
                  by_cases hpe : path = Tile.tilePath { h := hn, l := l.toNat, n := n, w := wn, data := false }
                  · simp [← hpe, ptpOut]
                  · simp [hpe, ptpOut]
          · -- complete tile
            have e3' : (3 : Int) = ((3 : Nat) : Int) := rfl
            have hdr : (3 : Nat) ≤ (a :: b :: c :: d :: rest).length := by simp
            simp only [hs, Bool.false_eq_true, ↓reduceIte, e3', TieFnTile.sliceFrom_natCast' hdr, mbind_ok]
            generalize hsegs : List.drop 3 (a :: b :: c :: d :: rest) = segs
            have hsl : segs.length < fuel := by
              rw [← hsegs]; simp; omega
            have hfit' : Fits segs 0 := by
              have := hfit
              simp only [nSegs, hf, hdata2, hs2, Bool.false_eq_true, hm2, List.getElem?_eq_getElem hi2, Option.getD_some, hdp, hs, ↓reduceIte, hsegs] at this
              exact this
            have hloop := ParseTilePath_loop1_eq path segs [] 0 fuel hsl hfit'
            simp only [List.nil_append, List.length_nil, Int.natCast_zero] at hloop
            simp only [hloop, mbind_ok, ptpTail]
            cases hpn : Tile.parseN segs 0 with
            | none => simp only [loopOut, ptpOut]
            | some n =>
              have hn63 : n < 2 ^ 63 := hfit' segs.length n (by rw [List.take_length]; exact hpn)
              have hge : ¬ (n ≥ 2 ^ 63) := by omega
              have hcast : ((2 : Int) ^ hn) = (((2 ^ hn : Nat)) : Int) := by simp
              have htile : ({ H := (hn : Int), L := l, N := (n : Int), W := ((2 ^ hn : Nat) : Int) } : GTile) =
                  toGen { h := hn, l := l.toNat, n := n, w := 2 ^ hn, data := false } := by
                simp [toGen]; omega
              have htp := Tile_Path_eq fuel { h := hn, l := l.toNat, n := n, w := 2 ^ hn, data := false } (show hn ≤ 62 by omega) hn63 (by omega)
              simp only [loopOut, hge, ↓reduceIte, hcast, Int.toNat_natCast, htile, htp, mbind_ok]
              by_cases hpe : path = Tile.tilePath { h := hn, l := l.toNat, n := n, w := 2 ^ hn, data := false }
              · simp [← hpe, ptpOut]
              · simp [hpe, ptpOut]


/-! ### a sufficient condition for `Fits`: at most six `NNN` elements -/

theorem parseN_bound : ∀ (segs : List Bytes) (n0 n : Nat), Tile.parseN segs n0 = some n →
    n + 1 ≤ (n0 + 1) * 1000 ^ segs.length := by
  intro segs
  induction segs with
  | nil => intro n0 n h; simp only [Tile.parseN, Option.some.injEq] at h; subst h; simp
  | cons s rest ih =>
    intro n0 n h
    unfold Tile.parseN at h
    cases hp : Decimal.parseInt64 (Tile.trimX s) with
    | none => rw [hp] at h; cases h
    | some nn =>
      rw [hp] at h
      simp only at h
      split at h
      · cases h
      · rename_i hc
        simp only [Bool.or_eq_true, decide_eq_true_eq, not_or, Int.not_lt, ge_iff_le, Int.not_le] at hc
        have := ih _ _ h
        have h2 : n0 * Tile.pathBase + nn.toNat + 1 ≤ (n0 + 1) * 1000 := by
          simp only [Tile.pathBase]; omega
        have h3 : (n0 * Tile.pathBase + nn.toNat + 1) * 1000 ^ rest.length ≤ (n0 + 1) * 1000 * 1000 ^ rest.length :=
          Nat.mul_le_mul_right _ h2
        rw [List.length_cons, Nat.pow_succ, Nat.mul_comm (1000 ^ rest.length) 1000, ← Nat.mul_assoc]
        omega

theorem nSegs_length (path : Bytes) : (nSegs path).length ≤ (splitOn 47 path).length - 3 := by
  unfold nSegs
  simp only
  split <;> split <;> simp [List.length_drop, List.length_take, List.length_set] <;> omega

/-- a path with at most 9 elements (`tile/H/L/` and at most six `NNN` elements, or five and `.p/W`) stays in int64 -/
theorem fits_of_short (path : Bytes) (h : (splitOn 47 path).length ≤ 9) : Fits (nSegs path) 0 := by
  intro j n hn
  have h1 := parseN_bound _ _ _ hn
  have h2 := nSegs_length path
  have h3 : ((nSegs path).take j).length ≤ 6 := by
    rw [List.length_take]; omega
  have h4 : (1000 : Nat) ^ ((nSegs path).take j).length ≤ 1000 ^ 6 := Nat.pow_le_pow_right (by omega) h3
  have h5 : (1000 : Nat) ^ 6 < 2 ^ 63 := by decide
  omega

end ModVerif.TieFnTile
