import ModVerif.Spec.ZipSpec
namespace ModVerif.Proofs.Zip
open ModVerif ModVerif.PathClean ModVerif.Zip ModVerif.ZipSpec

/-! ### collisionChecker -/

theorem find_append_some (cc new : CC) (k : Bytes) (h : (cc.find k).isSome) : ((cc ++ new).find k).isSome := by
  unfold CC.find at *
  rw [List.find?_append]
  cases hf : List.find? (fun e => e.fold == k) cc with
  | none => rw [hf] at h; cases h
  | some x => simp

theorem ccStep_spec (toFold : Bytes → Bytes) (cc : CC) (p : Bytes) (isDir : Bool) :
    (∃ new, (ccStep toFold cc p isDir).1 = cc ++ new) ∧
    ((ccStep toFold cc p isDir).2 = none → ((ccStep toFold cc p isDir).1.find (toFold p)).isSome) ∧
    (isDir = false → (ccStep toFold cc p isDir).2 = none → cc.find (toFold p) = none) := by
  unfold ccStep
  cases hf : cc.find (toFold p) with
  | none =>
    refine ⟨⟨_, rfl⟩, ?_, fun _ _ => rfl⟩
    intro _
    show (CC.find (cc ++ [_]) (toFold p)).isSome
    unfold CC.find
    rw [List.find?_append]
    unfold CC.find at hf
    rw [hf]
    simp
  | some other =>
    simp only
    split
    · exact ⟨⟨[], by simp⟩, fun h => (by cases h), fun _ h => (by cases h)⟩
    split
    · exact ⟨⟨[], by simp⟩, fun h => (by cases h), fun _ h => (by cases h)⟩
    split
    · exact ⟨⟨[], by simp⟩, fun h => (by cases h), fun _ h => (by cases h)⟩
    · rename_i _ _ h3
      refine ⟨⟨[], by simp⟩, fun _ => (by rw [hf]; rfl), ?_⟩
      intro hd _
      rw [hd] at h3; simp at h3

theorem ccCheck_spec (toFold : Bytes → Bytes) : ∀ (fuel : Nat) (cc : CC) (p : Bytes) (isDir : Bool),
    (∃ new, (ccCheck toFold fuel cc p isDir).1 = cc ++ new) ∧
    ((ccCheck toFold fuel cc p isDir).2 = none → ((ccCheck toFold fuel cc p isDir).1.find (toFold p)).isSome) ∧
    (isDir = false → (ccCheck toFold fuel cc p isDir).2 = none → cc.find (toFold p) = none) := by
  intro fuel
  induction fuel with
  | zero => intro cc p isDir; exact ⟨⟨[], by simp [ccCheck]⟩, fun h => (by simp [ccCheck] at h), fun _ h => (by simp [ccCheck] at h)⟩
  | succ n ih =>
    intro cc p isDir
    obtain ⟨⟨new1, hp1⟩, hs1, hf1⟩ := ccStep_spec toFold cc p isDir
    unfold ccCheck
    rcases hst : ccStep toFold cc p isDir with ⟨cc1, r1⟩
    rw [hst] at hp1 hs1 hf1
    cases r1 with
    | some e => exact ⟨⟨new1, hp1⟩, fun h => (by cases h), fun _ h => (by cases h)⟩
    | none =>
      simp only at hp1 hs1 hf1 ⊢
      by_cases hd : (pathDir p != [46]) = true
      · rw [if_pos hd]
        obtain ⟨⟨new2, hp2⟩, _, _⟩ := ih cc1 (pathDir p) true
        refine ⟨⟨new1 ++ new2, by rw [hp2, hp1]; simp⟩, ?_, ?_⟩
        · intro _; rw [hp2]; exact find_append_some _ _ _ (hs1 trivial)
        · intro hdir _; exact hf1 hdir trivial
      · rw [if_neg hd]
        exact ⟨⟨new1, hp1⟩, fun _ => hs1 trivial, fun hdir _ => hf1 hdir trivial⟩

theorem ccCheckTop_spec (toFold : Bytes → Bytes) (cc : CC) (p : Bytes) (isDir : Bool) :
    (∃ new, (ccCheckTop toFold cc p isDir).1 = cc ++ new) ∧
    ((ccCheckTop toFold cc p isDir).2 = none → ((ccCheckTop toFold cc p isDir).1.find (toFold p)).isSome) ∧
    (isDir = false → (ccCheckTop toFold cc p isDir).2 = none → cc.find (toFold p) = none) :=
  ccCheck_spec toFold _ cc p isDir

end ModVerif.Proofs.Zip
