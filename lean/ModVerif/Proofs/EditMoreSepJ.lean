/-
  EditMore, part 15 — **C16 `separate_blocks`**: when the file's requirements are one uncommented statement, after
  SetRequireSeparateIndirect and Cleanup no `require` block mixes lines with and without the `// indirect` marker.
-/
import ModVerif.Proofs.EditMoreSepI
set_option linter.unusedSimpArgs false
namespace ModVerif.Modfile.Edit
open ModVerif ModVerif.Modfile

theorem addSepNew_sep (ctx : SepCtx) (e : EFile) (w : Want) (hi : Inv e)
    (hbd : BlockAt e.f.syn.stmts ctx.directIdx) (hbi : BlockAt e.f.syn.stmts ctx.indirectIdx)
    (hsep : SepInv ctx.directIdx ctx.indirectIdx e.f.syn.stmts []) :
    SepInv ctx.directIdx ctx.indirectIdx (addSepNew ctx e w).f.syn.stmts [] := by
  rcases sepNewLine_props e.next w with ⟨l1, l2, l3, l4⟩
  have hidx : BlockAt e.f.syn.stmts (if w.indirect then ctx.indirectIdx else ctx.directIdx) := by
    split
    · exact hbi
    · exact hbd
  rcases appendToBlock_spec e.f.syn.stmts (if w.indirect then ctx.indirectIdx else ctx.directIdx) (sepNewLine e.next w)
    hi.tree.shape hidx (by rw [l2]; simp) l3 with ⟨q1, _, _, _⟩
  have hstmts : (addSepNew ctx e w).f.syn.stmts =
      appendToBlock e.f.syn.stmts (if w.indirect then ctx.indirectIdx else ctx.directIdx) (sepNewLine e.next w) := rfl
  rw [hstmts]
  have hin := InAt.append_block (sepNewLine e.next w) hidx
  intro v hv hverb
  rcases List.mem_append.1 (q1.subset hv) with hv0 | hvn
  · rcases hsep v hv0 hverb with ⟨r', hr', _⟩ | ⟨h1, h2⟩ | ⟨h1, h2⟩
    · cases hr'
    · exact Or.inr (Or.inl ⟨(hin _ _).2 (Or.inl h1), h2⟩)
    · exact Or.inr (Or.inr ⟨(hin _ _).2 (Or.inl h1), h2⟩)
  · rw [List.mem_singleton] at hvn
    subst hvn
    simp only
    cases hwi : w.indirect with
    | false =>
      rw [hwi] at l4 hin
      exact Or.inr (Or.inl ⟨(hin _ _).2 (Or.inr ⟨by simp, rfl⟩), l4⟩)
    | true =>
      rw [hwi] at l4 hin
      exact Or.inr (Or.inr ⟨(hin _ _).2 (Or.inr ⟨by simp, rfl⟩), l4⟩)

theorem foldl_addSepNew_sep (ctx : SepCtx) (ws : List Want) : ∀ e : EFile, Inv e → (∀ w ∈ ws, w.path ≠ []) →
    BlockAt e.f.syn.stmts ctx.directIdx → BlockAt e.f.syn.stmts ctx.indirectIdx →
    SepInv ctx.directIdx ctx.indirectIdx e.f.syn.stmts [] →
    SepInv ctx.directIdx ctx.indirectIdx (ws.foldl (addSepNew ctx) e).f.syn.stmts [] := by
  induction ws with
  | nil => intro e _ _ _ _ hs; exact hs
  | cons w ws ih =>
    intro e hi hne hbd hbi hs
    rcases addSepNew_inv ctx e w (hne w List.mem_cons_self) hi hbd hbi with ⟨h1, h2, h3⟩
    exact ih _ h1 (fun x hx => hne x (List.mem_cons_of_mem _ hx)) h2 h3 (addSepNew_sep ctx e w hi hbd hbi hs)

/-- with `oneFlat`, SetRequireSeparateIndirect is `SortBlocks` of a state in which every live `require` line sits in the
    direct block without the marker or in the (different) indirect block with it -/
theorem sepTail_sep (e e' : EFile) (req : List Want) (perm : List Want → List Want) (hperm : ∀ l, (perm l).Perm l)
    (hg : GoodWant req) (hi : Inv e) (hlive : ∀ r ∈ e.f.require, liveRq r = true) (hset : NoNestedIndirectMarker e)
    (ctx : SepCtx) (hof : ctx.oneFlat = true) (stmts : List Expr)
    (hgood : SepGood e.f.syn.stmts ctx.directIdx ctx.indirectIdx stmts)
    (h : sepTail e req perm ctx stmts = .ok e') :
    ∃ e1, Inv e1 ∧ e' = sortBlocks e1 ∧ SepInv ctx.directIdx ctx.indirectIdx e1.f.syn.stmts [] := by
  unfold sepTail at h
  rw [needMap_distinct false req [] (by simpa using hg.1)] at h
  simp only [bind, Except.bind, List.nil_append] at h
  cases hr : sepLoop ctx req e.f.require [] { e.f.syn with stmts := stmts } e.next with
  | error err => simp [hr] at h
  | ok res =>
    rcases res with ⟨rq, have', syn', next'⟩
    simp only [hr, pure, Except.pure, Except.ok.injEq] at h
    subst h
    have hw0 : TreeWF stmts e.next :=
      ⟨by rw [hgood.ids_eq]; exact hi.tree.nodup, by rw [hgood.ids_eq]; exact hi.tree.lt, by rw [hgood.ids_eq]; exact hi.tree.pos,
       hgood.shape.blockTok, hgood.shape.flagTop, hgood.shape.flagIn, hgood.shape.noBlockSuffix⟩
    have hm0 : Match (segA_require e.f ++ (entsOf liveRq entRq ([] ++ e.f.require) ++ segC_require e.f)) (view stmts) := by
      simp only [List.nil_append]; rw [← entries_require, hgood.view_eq]; exact hi.mtch
    have hset0 : ∀ r ∈ e.f.require, ∀ v ∈ view stmts, v.id = r.lineId → MarkerSettable v.suffix := by
      intro r hr v hv; rw [hgood.view_eq] at hv; exact hset r hr v hv
    have hsep0 : SepInv ctx.directIdx ctx.indirectIdx stmts e.f.require := by
      intro v hv hverb
      rw [hgood.view_eq] at hv
      rcases hi.require_line_entry v hv hverb with ⟨r, hr, _, hid, _⟩
      exact Or.inl ⟨r, hr, hid⟩
    rcases sepLoop_inv (A := segA_require e.f) (C := segC_require e.f) ctx req e.f.require [] [] { e.f.syn with stmts := stmts } e.next
      rq have' syn' next' hlive hw0 hi.tinv.pos hm0 hgood.direct hgood.indirect hset0 hr with ⟨hw', hle, hm', hbd', hbi'⟩
    have hsep' := sepLoop_sep (A := segA_require e.f) (C := segC_require e.f) ctx hof req e.f.require [] [] { e.f.syn with stmts := stmts } e.next
      rq have' syn' next' hlive hw0 hi.tinv.pos hm0 hgood.direct hgood.indirect hset0 hsep0 hr
    have hi1 : Inv (⟨{ e.f with require := rq, syn := syn' }, next'⟩ : EFile) := by
      refine ⟨hw', ?_, hi.tinv.of_same rfl rfl rfl hle⟩
      simp only [List.nil_append] at hm'
      rw [entries_require]; exact hm'
    have hne : ∀ w ∈ (perm req).filter (fun w => !have'.contains w.path), w.path ≠ [] :=
      fun w hw => hg.2 w ((hperm req).subset (List.mem_filter.1 hw).1)
    exact ⟨_, foldl_addSepNew_inv ctx _ _ hi1 hne hbd' hbi', rfl, foldl_addSepNew_sep ctx _ _ hi1 hne hbd' hbi' hsep'⟩

/-- **C16 `separate_blocks`.**  When the file's requirements are one uncommented statement (a single `require` line or
    block without comments of its own — the model's `oneFlat`), then after SetRequireSeparateIndirect and Cleanup no
    `require` block holds both a line with and a line without the `// indirect` marker: direct and indirect
    requirements end in two different blocks. -/
theorem separate_blocks (e e' : EFile) (req : List Want) (perm : List Want → List Want) (hperm : ∀ l, (perm l).Perm l)
    (hg : GoodWant req) (hi : Inv e) (hlive : ∀ r ∈ e.f.require, liveRq r = true) (hset : NoNestedIndirectMarker e)
    (hof : sepOneFlat e.f.syn.stmts (scanStmts e.f.syn.stmts 0 {}) = true)
    (h : setRequireSeparateIndirect e req perm = .ok e') :
    ∀ b, Expr.lineBlock b ∈ (cleanup e').f.syn.stmts → b.token = [B "require"] →
      (∀ l ∈ b.lines, isIndirect l = true) ∨ (∀ l ∈ b.lines, isIndirect l = false) := by
  rw [setRSI_eq] at h
  cases h1 : sepStage1 e.f.syn.stmts (scanStmts e.f.syn.stmts 0 {}) with
  | error err => simp [h1] at h
  | ok r1 =>
    rcases r1 with ⟨s1, dI, dO, lI, sh⟩
    simp only [h1] at h
    cases h2 : sepStage2 s1 dI lI sh with
    | error err => simp [h2] at h
    | ok r2 =>
      rcases r2 with ⟨s2, iI, iO⟩
      simp only [h2] at h
      have hgood := sepStage_spec e.f.syn.stmts hi.tree.shape hi.view2 _ (scan_inv _) h1 h2
      rcases sepTail_sep e e' req perm hperm hg hi hlive hset _ hof s2 hgood h with ⟨e1, hi1, rfl, hsep⟩
      simp only at hsep
      have hne : dI ≠ iI := hgood.ne
      -- the final statements
      have heq := sortBlocks_eq_sem e1
      have hfinal : (cleanup (sortBlocks e1)).f.syn.stmts =
          cleanupStmts (sortStmts (semOf e1.f) false (dropKilled (kill3 e1.f) e1.f.syn.stmts)) := by
        rw [heq]; rfl
      have hs1 := hi1.tree.shape
      rcases dropKilled_spec (kill3 e1.f) e1.f.syn.stmts hs1 with ⟨d1, _, d3⟩
      rcases sortStmts_spec (semOf e1.f) false _ d3 with ⟨s1', _, s3⟩
      rcases cleanupStmts_spec _ s3 with ⟨c1, _, _⟩
      have href : StmtRefines (cleanupStmts (sortStmts (semOf e1.f) false (dropKilled (kill3 e1.f) e1.f.syn.stmts))) e1.f.syn.stmts :=
        ((cleanupStmts_refines _).trans (sortStmts_refines _ _ _)).trans (dropKilled_refines _ _)
      intro b hb htok
      rw [hfinal] at hb
      have hlive' := cleanupStmts_block_live _ b hb
      -- a line of the block, seen in the pre-sort state
      have hline : ∀ l ∈ b.lines, (InAt e1.f.syn.stmts dI l.id ∧ isIndirect l = false) ∨ (InAt e1.f.syn.stmts iI l.id ∧ isIndirect l = true) := by
        intro l hl
        have hv : (⟨l.id, B "require" :: l.token, l.comments.suffix⟩ : VLine) ∈ view e1.f.syn.stmts := by
          have h0 : (⟨l.id, B "require" :: l.token, l.comments.suffix⟩ : VLine) ∈
              view (cleanupStmts (sortStmts (semOf e1.f) false (dropKilled (kill3 e1.f) e1.f.syn.stmts))) := by
            rcases List.mem_iff_getElem?.1 hb with ⟨k, hk⟩
            rw [(split_at hk).1, view_append, view_cons]
            refine List.mem_append_right _ (List.mem_append_left _ ?_)
            rw [view_block, htok]
            refine List.mem_map.2 ⟨l, List.mem_filter.2 ⟨hl, ?_⟩, rfl⟩
            have := hlive' l hl
            cases hlt : l.token with
            | nil => exact absurd hlt this
            | cons _ _ => rfl
          rw [c1] at h0
          have h1 := s1'.subset h0
          rw [d1] at h1
          exact (List.mem_filter.1 h1).1
        rcases hsep _ hv rfl with ⟨r', hr', _⟩ | ⟨q1, q2⟩ | ⟨q1, q2⟩
        · cases hr'
        · exact Or.inl ⟨q1, by rw [isIndirect_eq]; exact q2⟩
        · exact Or.inr ⟨q1, by rw [isIndirect_eq]; exact q2⟩
      have hsame : ∀ l1 ∈ b.lines, ∀ l2 ∈ b.lines, SameStmt e1.f.syn.stmts l1.id l2.id := by
        intro l1 hl1 l2 hl2
        refine href.same ⟨Expr.lineBlock b, hb, ?_, ?_⟩ <;> rw [treeIds_block]
        · exact List.mem_map.2 ⟨l1, hl1, rfl⟩
        · exact List.mem_map.2 ⟨l2, hl2, rfl⟩
      by_cases hall : ∀ l ∈ b.lines, isIndirect l = true
      · exact Or.inl hall
      · right
        have : ∃ l1 ∈ b.lines, isIndirect l1 = false := by
          apply Classical.byContradiction
          intro hcon
          apply hall
          intro l hl
          cases hx : isIndirect l with
          | true => rfl
          | false => exact absurd ⟨l, hl, hx⟩ hcon
        rcases this with ⟨l1, hl1, hx1⟩
        intro l hl
        cases hx : isIndirect l with
        | false => rfl
        | true =>
          exfalso
          rcases hline l hl with ⟨_, q⟩ | ⟨qa, _⟩
          · rw [hx] at q; cases q
          · rcases hline l1 hl1 with ⟨qb, _⟩ | ⟨_, q⟩
            · exact not_same_of_inAt hi1.tree.nodup hne.symm qa qb (hsame l hl l1 hl1)
            · rw [hx1] at q; cases q

end ModVerif.Modfile.Edit
