/-
  Helper lemmas for Tie/FnRuleAdd.lean (the regenerated `File.add` / `WorkFile.add` / `fixRetract` / `parseToFile` /
  `ParseWork` of Generated/FnRule.lean against the hand model Model/Modfile/Rule.lean, Work.lean over
  `FnRuleRep.RepRS` / `RepWS`), part A:
  * the verb literals, the error formats of `errorf`;
  * the hoisted closures `File_add_wrapError / errorf / wrapModPathError`, `WorkFile_add_wrapError / errorf`;
  * `heapSet` of the object just allocated;
  * the typed part `RepTyped` / `RepTypedW` under the heap changes `File.add` / `WorkFile.add` make (a scalar entry
    allocated and linked, an entry allocated and appended to a typed list);
  * `RepRS.step` / `RepWS.step`: a represented state after a token store on the current line followed by a change of
    the typed part and of the error list;
  * `StepPost` / `StepPostW`: what one call of `File.add` / `WorkFile.add` guarantees (used by the loops).
  Owner: rule-add.
-/
import ModVerif.Proofs.TieFnRuleRep
import ModVerif.Proofs.ModfileC20Rule
set_option linter.unusedSimpArgs false
set_option linter.unusedVariables false
namespace ModVerif.Tie.FnRuleAddA
open ModVerif ModVerif.GoRt ModVerif.Generated ModVerif.Tie.FnRuleRep
open ModVerif.Drv.GenRule (isPrintI unquoteI laxSubI deprecatedSubI fixG)

/-! ### the driver's instantiation -/

/-- `File.add` with the world parameters of the driver -/
abbrev FA := Rule.File_add deprecatedSubI Modfile.goVersionRE isPrintI laxSubI Quote.quote Modfile.toolchainRE unquoteI
/-- `WorkFile.add` with the world parameters of the driver -/
abbrev WA := Rule.WorkFile_add Modfile.goVersionRE isPrintI Quote.quote Modfile.toolchainRE unquoteI

/-! ### verb literals -/

theorem B_go : B "go" = [103, 111] := by decide +kernel
theorem B_toolchain : B "toolchain" = [116, 111, 111, 108, 99, 104, 97, 105, 110] := by decide +kernel
theorem B_module : B "module" = [109, 111, 100, 117, 108, 101] := by decide +kernel
theorem B_godebug : B "godebug" = [103, 111, 100, 101, 98, 117, 103] := by decide +kernel
theorem B_require : B "require" = [114, 101, 113, 117, 105, 114, 101] := by decide +kernel
theorem B_exclude : B "exclude" = [101, 120, 99, 108, 117, 100, 101] := by decide +kernel
theorem B_replace : B "replace" = [114, 101, 112, 108, 97, 99, 101] := by decide +kernel
theorem B_retract : B "retract" = [114, 101, 116, 114, 97, 99, 116] := by decide +kernel
theorem B_tool : B "tool" = [116, 111, 111, 108] := by decide +kernel
theorem B_use : B "use" = [117, 115, 101] := by decide +kernel

theorem bytes_beq_eq_decide (a b : Bytes) : (a == b) = decide (a = b) := by
  by_cases h : a = b
  · subst h; simp
  · simp [h]

/-- the verbs of `File.add`'s switch, as disequalities -/
theorem not_addVerbs {verb : Bytes} (hv : Modfile.verbIn verb Modfile.addVerbs = false) :
    verb ≠ [103, 111] ∧ verb ≠ [116, 111, 111, 108, 99, 104, 97, 105, 110] ∧ verb ≠ [109, 111, 100, 117, 108, 101] ∧
    verb ≠ [103, 111, 100, 101, 98, 117, 103] ∧ verb ≠ [114, 101, 113, 117, 105, 114, 101] ∧ verb ≠ [101, 120, 99, 108, 117, 100, 101] ∧
    verb ≠ [114, 101, 112, 108, 97, 99, 101] ∧ verb ≠ [114, 101, 116, 114, 97, 99, 116] ∧ verb ≠ [116, 111, 111, 108] := by
  simp only [Modfile.verbIn, Modfile.addVerbs, List.any_cons, List.any_nil, Bool.or_false, Bool.or_eq_false_iff,
    beq_eq_false_iff_ne, ne_eq, B_go, B_toolchain, B_module, B_godebug, B_require, B_exclude, B_replace, B_retract, B_tool] at hv
  obtain ⟨h1, h2, h3, h4, h5, h6, h7, h8, h9⟩ := hv
  exact ⟨Ne.symm h1, Ne.symm h2, Ne.symm h3, Ne.symm h4, Ne.symm h5, Ne.symm h6, Ne.symm h7, Ne.symm h8, Ne.symm h9⟩

theorem not_workVerbs {verb : Bytes} (hv : Modfile.verbIn verb Modfile.workVerbs = false) :
    verb ≠ [103, 111] ∧ verb ≠ [116, 111, 111, 108, 99, 104, 97, 105, 110] ∧ verb ≠ [103, 111, 100, 101, 98, 117, 103] ∧
    verb ≠ [117, 115, 101] ∧ verb ≠ [114, 101, 112, 108, 97, 99, 101] := by
  simp only [Modfile.verbIn, Modfile.workVerbs, List.any_cons, List.any_nil, Bool.or_false, Bool.or_eq_false_iff,
    beq_eq_false_iff_ne, ne_eq, B_go, B_toolchain, B_godebug, B_use, B_replace] at hv
  obtain ⟨h1, h2, h3, h4, h5⟩ := hv
  exact ⟨Ne.symm h1, Ne.symm h2, Ne.symm h3, Ne.symm h4, Ne.symm h5⟩

/-- the lax verbs -/
theorem laxVerbs_iff (verb : Bytes) : Modfile.verbIn verb Modfile.laxVerbs =
    (decide (verb = ([103, 111] : Bytes)) || decide (verb = ([109, 111, 100, 117, 108, 101] : Bytes)) ||
      decide (verb = ([114, 101, 116, 114, 97, 99, 116] : Bytes)) || decide (verb = ([114, 101, 113, 117, 105, 114, 101] : Bytes))) := by
  simp only [Modfile.verbIn, Modfile.laxVerbs, List.any_cons, List.any_nil, Bool.or_false, B_go, B_module, B_retract, B_require,
    bytes_beq_eq_decide]
  simp only [eq_comm (a := verb), Bool.or_assoc]

/-! ### heap: overwrite the object just allocated -/

theorem heapSet_alloc_new {α : Type} (l : List α) (v v' : α) :
    heapSet (l ++ [v]) ((l.length + 1 : Nat) : Int) v' = .ok (l ++ [v']) := by
  rw [heapSet_of_get v' (heapGet_alloc_new l v)]
  have : ((l.length + 1 : Nat) : Int).toNat - 1 = l.length := by omega
  rw [this, set_alloc_last]

theorem heapGet_alloc_new' {α : Type} (l : List α) (v : α) {p : Int} (hp : p = ((l.length + 1 : Nat) : Int)) :
    heapGet (l ++ [v]) p = .ok v := by subst hp; exact heapGet_alloc_new l v

/-! ### the hoisted closures of `File.add` -/

section closures
variable {h : Rule.Heap} {fp line : Int} {o : Rule.File} {F : Rule.FileSyntax} {L : Rule.Line}

/-- the `Error` value `wrapError` builds -/
def errV (F : Rule.FileSyntax) (L : Rule.Line) (e : Option String) : Rule.Error :=
  { (default : Rule.Error) with Filename := F.Name, Pos := L.Start, Err := e }

/-- the `Error` value `wrapModPathError` builds -/
def errMV (F : Rule.FileSyntax) (L : Rule.Line) (verb modPath : Bytes) (e : Option String) : Rule.Error :=
  { (default : Rule.Error) with Filename := F.Name, Pos := L.Start, ModPath := modPath, Verb := verb, Err := e }

theorem wrapError_eq (ho : heapGet h.mods fp = .ok o) (hF : heapGet h.files o.Syntax = .ok F) (hL : heapGet h.lines line = .ok L)
    (fuel : Nat) (e : Option String) (errs : List Rule.Error) :
    Rule.File_add_wrapError deprecatedSubI Modfile.goVersionRE isPrintI laxSubI Quote.quote Modfile.toolchainRE unquoteI fuel fp line h e errs =
      .ok ((), errs ++ [errV F L e]) := by
  simp [Rule.File_add_wrapError, errV, ho, hF, hL, bind, Except.bind, pure, Except.pure]

theorem errorf_eq (ho : heapGet h.mods fp = .ok o) (hF : heapGet h.files o.Syntax = .ok F) (hL : heapGet h.lines line = .ok L)
    (fuel : Nat) (fmt : Bytes) (a : List Unit) (errs : List Rule.Error) :
    Rule.File_add_errorf deprecatedSubI Modfile.goVersionRE isPrintI laxSubI Quote.quote Modfile.toolchainRE unquoteI fuel fp line h fmt a errs =
      .ok ((), errs ++ [errV F L (some (bytesToStr fmt))]) := by
  simp [Rule.File_add_errorf, wrapError_eq ho hF hL, bind, Except.bind, pure, Except.pure]

theorem wrapModPathError_eq (ho : heapGet h.mods fp = .ok o) (hF : heapGet h.files o.Syntax = .ok F) (hL : heapGet h.lines line = .ok L)
    (fuel : Nat) (verb modPath : Bytes) (e : Option String) (errs : List Rule.Error) :
    Rule.File_add_wrapModPathError deprecatedSubI Modfile.goVersionRE isPrintI laxSubI Quote.quote Modfile.toolchainRE unquoteI fuel fp line verb h
        modPath e errs = .ok ((), errs ++ [errMV F L verb modPath e]) := by
  simp [Rule.File_add_wrapModPathError, errMV, ho, hF, hL, bind, Except.bind, pure, Except.pure]

end closures

section closuresW
variable {h : Rule.Heap} {fp line : Int} {o : Rule.WorkFile} {F : Rule.FileSyntax} {L : Rule.Line}

theorem wrapErrorW_eq (ho : heapGet h.works fp = .ok o) (hF : heapGet h.files o.Syntax = .ok F) (hL : heapGet h.lines line = .ok L)
    (fuel : Nat) (e : Option String) (errs : List Rule.Error) :
    Rule.WorkFile_add_wrapError Modfile.goVersionRE isPrintI Quote.quote Modfile.toolchainRE unquoteI fuel fp line h e errs =
      .ok ((), errs ++ [errV F L e]) := by
  simp [Rule.WorkFile_add_wrapError, errV, ho, hF, hL, bind, Except.bind, pure, Except.pure]

theorem errorfW_eq (ho : heapGet h.works fp = .ok o) (hF : heapGet h.files o.Syntax = .ok F) (hL : heapGet h.lines line = .ok L)
    (fuel : Nat) (fmt : Bytes) (a : List Unit) (errs : List Rule.Error) :
    Rule.WorkFile_add_errorf Modfile.goVersionRE isPrintI Quote.quote Modfile.toolchainRE unquoteI fuel fp line h fmt a errs =
      .ok ((), errs ++ [errV F L (some (bytesToStr fmt))]) := by
  simp [Rule.WorkFile_add_errorf, wrapErrorW_eq ho hF hL, bind, Except.bind, pure, Except.pure]

end closuresW

/-- an error at the start of the represented line -/
theorem errV_rep {F : Rule.FileSyntax} {l : Modfile.Line} {e : Option String} {k : Modfile.RuleErrKind} (he : errAbs e k) :
    ErrRep (errV F (lineG l) e) ⟨l.start, k⟩ := ⟨rfl, he⟩

theorem errMV_rep {F : Rule.FileSyntax} {l : Modfile.Line} {verb mp : Bytes} {e : Option String} {k : Modfile.RuleErrKind} (he : errAbs e k) :
    ErrRep (errMV F (lineG l) verb mp e) ⟨l.start, k⟩ := ⟨rfl, he⟩

/-- the format literal of an `errorf` call is an error string of the kind -/
theorem errAbs_fmt {fmt : Bytes} {k : Modfile.RuleErrKind} (h : bytesToStr fmt ∈ errStrs k) : errAbs (some (bytesToStr fmt)) k :=
  ⟨_, rfl, h⟩



/-! ### the closures read `mods`, `files`, `lines` only -/

/-- `wrapError` / `errorf` on the three object lists they read -/
def errfL (ms : List Rule.File) (fs : List Rule.FileSyntax) (ls : List Rule.Line) (fp line : Int) (e : Option String)
    (errs : List Rule.Error) : M (Unit × List Rule.Error) := do
  let t4 ← heapGet ms fp
  let t5 ← heapGet fs t4.Syntax
  let t6 ← heapGet ls line
  pure ((), errs ++ [({ (default : Rule.Error) with Filename := t5.Name, Pos := t6.Start, Err := e } : Rule.Error)])

def errfML (ms : List Rule.File) (fs : List Rule.FileSyntax) (ls : List Rule.Line) (fp line : Int) (verb modPath : Bytes)
    (e : Option String) (errs : List Rule.Error) : M (Unit × List Rule.Error) := do
  let t4 ← heapGet ms fp
  let t5 ← heapGet fs t4.Syntax
  let t6 ← heapGet ls line
  pure ((), errs ++ [({ (default : Rule.Error) with Filename := t5.Name, Pos := t6.Start, ModPath := modPath, Verb := verb, Err := e } : Rule.Error)])

theorem wrapError_L (fuel : Nat) (fp line : Int) (w : Rule.Heap) (e : Option String) (errs : List Rule.Error) :
    Rule.File_add_wrapError deprecatedSubI Modfile.goVersionRE isPrintI laxSubI Quote.quote Modfile.toolchainRE unquoteI fuel fp line w e errs =
      errfL w.mods w.files w.lines fp line e errs := rfl

theorem errorf_L (fuel : Nat) (fp line : Int) (w : Rule.Heap) (fmt : Bytes) (a : List Unit) (errs : List Rule.Error) :
    Rule.File_add_errorf deprecatedSubI Modfile.goVersionRE isPrintI laxSubI Quote.quote Modfile.toolchainRE unquoteI fuel fp line w fmt a errs =
      errfL w.mods w.files w.lines fp line (some (bytesToStr fmt)) errs := by
  simp only [Rule.File_add_errorf, wrapError_L, errfL, bind, Except.bind, pure, Except.pure]
  cases heapGet w.mods fp with
  | error _ => rfl
  | ok t4 =>
    simp only []
    cases heapGet w.files t4.Syntax with
    | error _ => rfl
    | ok t5 =>
      simp only []
      cases heapGet w.lines line <;> rfl

theorem wrapModPathError_L (fuel : Nat) (fp line : Int) (verb : Bytes) (w : Rule.Heap) (mp : Bytes) (e : Option String) (errs : List Rule.Error) :
    Rule.File_add_wrapModPathError deprecatedSubI Modfile.goVersionRE isPrintI laxSubI Quote.quote Modfile.toolchainRE unquoteI fuel fp line verb w
        mp e errs = errfML w.mods w.files w.lines fp line verb mp e errs := rfl

theorem errfL_eq {ms : List Rule.File} {fs : List Rule.FileSyntax} {ls : List Rule.Line} {fp line : Int} {o : Rule.File}
    {F : Rule.FileSyntax} {L : Rule.Line}
    (ho : heapGet ms fp = .ok o) (hF : heapGet fs o.Syntax = .ok F) (hL : heapGet ls line = .ok L) (e : Option String) (errs : List Rule.Error) :
    errfL ms fs ls fp line e errs = .ok ((), errs ++ [errV F L e]) := by
  simp [errfL, errV, ho, hF, hL, bind, Except.bind, pure, Except.pure]

theorem errfML_eq {ms : List Rule.File} {fs : List Rule.FileSyntax} {ls : List Rule.Line} {fp line : Int} {o : Rule.File}
    {F : Rule.FileSyntax} {L : Rule.Line}
    (ho : heapGet ms fp = .ok o) (hF : heapGet fs o.Syntax = .ok F) (hL : heapGet ls line = .ok L) (verb mp : Bytes) (e : Option String)
    (errs : List Rule.Error) :
    errfML ms fs ls fp line verb mp e errs = .ok ((), errs ++ [errMV F L verb mp e]) := by
  simp [errfML, errMV, ho, hF, hL, bind, Except.bind, pure, Except.pure]

/-- an error at the start of a line object whose `Start` is the represented line's -/
theorem errV_rep' {F : Rule.FileSyntax} {L : Rule.Line} {l : Modfile.Line} (hL : L.Start = posG l.start) {e : Option String}
    {k : Modfile.RuleErrKind} (he : errAbs e k) : ErrRep (errV F L e) ⟨l.start, k⟩ := ⟨hL, he⟩

theorem errMV_rep' {F : Rule.FileSyntax} {L : Rule.Line} {l : Modfile.Line} (hL : L.Start = posG l.start) {verb mp : Bytes} {e : Option String}
    {k : Modfile.RuleErrKind} (he : errAbs e k) : ErrRep (errMV F L verb mp e) ⟨l.start, k⟩ := ⟨hL, he⟩


/-! ### `isIndirect` reads `lines` only -/

def indL (line : Int) (ls : List Rule.Line) : M Bool := do
  let r ← Rule.isIndirect line { (default : Rule.Heap) with lines := ls }
  pure r.1

theorem isIndirect_L (line : Int) (w : Rule.Heap) :
    Rule.isIndirect line w = (do let b ← indL line w.lines; pure (b, w)) := by
  simp only [indL, Rule.isIndirect, bind, Except.bind, pure, Except.pure]
  cases heapGet w.lines line with
  | error _ => rfl
  | ok t1 =>
    simp only []
    split
    · rfl
    · cases idxL t1.Comments.Suffix 0 with
      | error _ => rfl
      | ok t3 =>
        simp only []
        repeat' split
        all_goals first | rfl | (simp_all; done)

/-! ### the typed part under the heap changes of `File.add` -/

section typed
variable {ι : Int → Nat} {h : Rule.Heap} {o : Rule.File} {f : Modfile.File}
/-- `f.Module = &Module{…}`: a fresh object linked as the scalar entry -/
theorem _root_.ModVerif.Tie.FnRuleRep.RepTyped.linkModule (r : RepTyped ι h o f) {x : Rule.Module} {X : Modfile.Module} (hx : moduleR ι h.lines.length x X) (m : List Rule.File) :
    RepTyped ι { h with modules := h.modules ++ [x], mods := m } { o with Module := ((h.modules.length + 1 : Nat) : Int) } { f with module := some X } where
  module := ⟨x, heapGet_alloc_new _ _, hx⟩
  go := r.go
  toolchain := r.toolchain
  godebug := r.godebug
  require := r.require
  exclude := r.exclude
  replace := r.replace
  retract := r.retract
  tool := r.tool
/-- `f.Go = &Go{…}`: a fresh object linked as the scalar entry -/
theorem _root_.ModVerif.Tie.FnRuleRep.RepTyped.linkGo (r : RepTyped ι h o f) {x : Rule.Go} {X : Modfile.Go} (hx : goR ι h.lines.length x X) (m : List Rule.File) :
    RepTyped ι { h with gos := h.gos ++ [x], mods := m } { o with Go := ((h.gos.length + 1 : Nat) : Int) } { f with go := some X } where
  module := r.module
  go := ⟨x, heapGet_alloc_new _ _, hx⟩
  toolchain := r.toolchain
  godebug := r.godebug
  require := r.require
  exclude := r.exclude
  replace := r.replace
  retract := r.retract
  tool := r.tool
/-- `f.Toolchain = &Toolchain{…}`: a fresh object linked as the scalar entry -/
theorem _root_.ModVerif.Tie.FnRuleRep.RepTyped.linkToolchain (r : RepTyped ι h o f) {x : Rule.Toolchain} {X : Modfile.Toolchain} (hx : toolchainR ι h.lines.length x X) (m : List Rule.File) :
    RepTyped ι { h with toolchains := h.toolchains ++ [x], mods := m } { o with Toolchain := ((h.toolchains.length + 1 : Nat) : Int) } { f with toolchain := some X } where
  module := r.module
  go := r.go
  toolchain := ⟨x, heapGet_alloc_new _ _, hx⟩
  godebug := r.godebug
  require := r.require
  exclude := r.exclude
  replace := r.replace
  retract := r.retract
  tool := r.tool
/-- `f.Godebug = append(f.Godebug, &Godebug{…})` -/
theorem _root_.ModVerif.Tie.FnRuleRep.RepTyped.pushGodebug (r : RepTyped ι h o f) {x : Rule.Godebug} {X : Modfile.Godebug} (hx : godebugR ι h.lines.length x X) (m : List Rule.File) :
    RepTyped ι { h with godebugs := h.godebugs ++ [x], mods := m } { o with Godebug := o.Godebug ++ [((h.godebugs.length + 1 : Nat) : Int)] }
      { f with godebug := f.godebug ++ [X] } where
  module := r.module
  go := r.go
  toolchain := r.toolchain
  godebug := r.godebug.snocAlloc x X hx
  require := r.require
  exclude := r.exclude
  replace := r.replace
  retract := r.retract
  tool := r.tool
/-- `f.Require = append(f.Require, &Require{…})` -/
theorem _root_.ModVerif.Tie.FnRuleRep.RepTyped.pushRequire (r : RepTyped ι h o f) {x : Rule.Require} {X : Modfile.Require} (hx : requireR ι h.lines.length x X) (m : List Rule.File) :
    RepTyped ι { h with requires := h.requires ++ [x], mods := m } { o with Require := o.Require ++ [((h.requires.length + 1 : Nat) : Int)] }
      { f with require := f.require ++ [X] } where
  module := r.module
  go := r.go
  toolchain := r.toolchain
  godebug := r.godebug
  require := r.require.snocAlloc x X hx
  exclude := r.exclude
  replace := r.replace
  retract := r.retract
  tool := r.tool
/-- `f.Exclude = append(f.Exclude, &Exclude{…})` -/
theorem _root_.ModVerif.Tie.FnRuleRep.RepTyped.pushExclude (r : RepTyped ι h o f) {x : Rule.Exclude} {X : Modfile.Exclude} (hx : excludeR ι h.lines.length x X) (m : List Rule.File) :
    RepTyped ι { h with excludes := h.excludes ++ [x], mods := m } { o with Exclude := o.Exclude ++ [((h.excludes.length + 1 : Nat) : Int)] }
      { f with exclude := f.exclude ++ [X] } where
  module := r.module
  go := r.go
  toolchain := r.toolchain
  godebug := r.godebug
  require := r.require
  exclude := r.exclude.snocAlloc x X hx
  replace := r.replace
  retract := r.retract
  tool := r.tool
/-- `f.Replace = append(f.Replace, &Replace{…})` -/
theorem _root_.ModVerif.Tie.FnRuleRep.RepTyped.pushReplace (r : RepTyped ι h o f) {x : Rule.Replace} {X : Modfile.Replace} (hx : replaceR ι h.lines.length x X) (m : List Rule.File) :
    RepTyped ι { h with replaces := h.replaces ++ [x], mods := m } { o with Replace := o.Replace ++ [((h.replaces.length + 1 : Nat) : Int)] }
      { f with replace := f.replace ++ [X] } where
  module := r.module
  go := r.go
  toolchain := r.toolchain
  godebug := r.godebug
  require := r.require
  exclude := r.exclude
  replace := r.replace.snocAlloc x X hx
  retract := r.retract
  tool := r.tool
/-- `f.Retract = append(f.Retract, &Retract{…})` -/
theorem _root_.ModVerif.Tie.FnRuleRep.RepTyped.pushRetract (r : RepTyped ι h o f) {x : Rule.Retract} {X : Modfile.Retract} (hx : retractR ι h.lines.length x X) (m : List Rule.File) :
    RepTyped ι { h with retracts := h.retracts ++ [x], mods := m } { o with Retract := o.Retract ++ [((h.retracts.length + 1 : Nat) : Int)] }
      { f with retract := f.retract ++ [X] } where
  module := r.module
  go := r.go
  toolchain := r.toolchain
  godebug := r.godebug
  require := r.require
  exclude := r.exclude
  replace := r.replace
  retract := r.retract.snocAlloc x X hx
  tool := r.tool
/-- `f.Tool = append(f.Tool, &Tool{…})` -/
theorem _root_.ModVerif.Tie.FnRuleRep.RepTyped.pushTool (r : RepTyped ι h o f) {x : Rule.Tool} {X : Modfile.Tool} (hx : toolR ι h.lines.length x X) (m : List Rule.File) :
    RepTyped ι { h with tools := h.tools ++ [x], mods := m } { o with Tool := o.Tool ++ [((h.tools.length + 1 : Nat) : Int)] }
      { f with tool := f.tool ++ [X] } where
  module := r.module
  go := r.go
  toolchain := r.toolchain
  godebug := r.godebug
  require := r.require
  exclude := r.exclude
  replace := r.replace
  retract := r.retract
  tool := r.tool.snocAlloc x X hx
/-- the typed part reads only the NUMBER of lines -/
theorem _root_.ModVerif.Tie.FnRuleRep.RepTyped.withLines (r : RepTyped ι h o f) (ls : List Rule.Line) (hn : ls.length = h.lines.length) :
    RepTyped ι { h with lines := ls } o f where
  module := by have := r.module; rw [← hn] at this; exact this
  go := by have := r.go; rw [← hn] at this; exact this
  toolchain := by have := r.toolchain; rw [← hn] at this; exact this
  godebug := by have := r.godebug; rw [← hn] at this; exact this
  require := by have := r.require; rw [← hn] at this; exact this
  exclude := by have := r.exclude; rw [← hn] at this; exact this
  replace := by have := r.replace; rw [← hn] at this; exact this
  retract := by have := r.retract; rw [← hn] at this; exact this
  tool := by have := r.tool; rw [← hn] at this; exact this

/-- a change of `errors` / `mods` only -/
theorem _root_.ModVerif.Tie.FnRuleRep.RepTyped.frameEM (r : RepTyped ι h o f) (e : List Rule.Error) (m : List Rule.File) :
    RepTyped ι { h with errors := e, mods := m } o f where
  module := r.module
  go := r.go
  toolchain := r.toolchain
  godebug := r.godebug
  require := r.require
  exclude := r.exclude
  replace := r.replace
  retract := r.retract
  tool := r.tool

/-- the scalar entries: nil ↔ none -/
theorem _root_.ModVerif.Tie.FnRuleRep.ROpt.eq_zero_iff {α β : Type} {objs : List α} {R : α → β → Prop} {p : Int} {x : Option β} (r : ROpt objs R p x) :
    p = 0 ↔ x = none := by
  cases x with
  | none => exact ⟨fun _ => rfl, fun _ => r⟩
  | some x =>
    obtain ⟨o, h1, _⟩ := r
    have := heapGet_pos h1
    constructor
    · intro e; omega
    · intro e; cases e

end typed



/-! ### token views only read and write `lines` -/

def tkToks (r : Rule.TokRef) (ls : List Rule.Line) : M (List Bytes) := do
  let l ← heapGet ls r.owner
  sliceFrom l.Token r.lo
def tkLen (r : Rule.TokRef) (ls : List Rule.Line) : M Int := do
  let t ← tkToks r ls
  pure (GoRt.len t)
def tkGet (r : Rule.TokRef) (i : Int) (ls : List Rule.Line) : M Bytes := do
  let t ← tkToks r ls
  idxL t i
def tkDrop (r : Rule.TokRef) (k : Int) (ls : List Rule.Line) : M Rule.TokRef := do
  let t ← tkToks r ls
  let _ ← sliceFrom t k
  pure { r with lo := r.lo + k }
def tkSet (r : Rule.TokRef) (i : Int) (x : Bytes) (ls : List Rule.Line) : M (List Rule.Line) := do
  let l ← heapGet ls r.owner
  let t ← sliceFrom l.Token r.lo
  let _ ← idxL t i
  let t' ← setIdxL l.Token (r.lo + i) x
  heapSet ls r.owner { l with Token := t' }
def tkMake (p : Int) (k : Int) (ls : List Rule.Line) : M Rule.TokRef := do
  let l ← heapGet ls p
  let _ ← sliceFrom l.Token k
  pure { owner := p, lo := k }

theorem TokRef_len_eq (r : Rule.TokRef) (w : Rule.Heap) : r.len w = tkLen r w.lines := rfl
theorem TokRef_get_eq (r : Rule.TokRef) (i : Int) (w : Rule.Heap) : r.get i w = tkGet r i w.lines := rfl
theorem TokRef_drop_eq (r : Rule.TokRef) (k : Int) (w : Rule.Heap) : r.drop k w = tkDrop r k w.lines := rfl
theorem TokRef_make_eq (p k : Int) (w : Rule.Heap) : Rule.TokRef.make p k w = tkMake p k w.lines := rfl
theorem TokRef_set_eq (r : Rule.TokRef) (i : Int) (x : Bytes) (w : Rule.Heap) :
    r.set i x w = (do let ls ← tkSet r i x w.lines; pure { w with lines := ls }) := by
  simp only [Rule.TokRef.set, tkSet, bind_assoc]

section viewL
variable {h : Rule.Heap} {r : Rule.TokRef} {pre toks : List Bytes}

theorem _root_.ModVerif.Tie.FnRuleRep.TokView.tkLen (v : TokView h r pre toks) : tkLen r h.lines = .ok (toks.length : Int) := by
  rw [← TokRef_len_eq]; exact v.len

theorem _root_.ModVerif.Tie.FnRuleRep.TokView.tkGet (v : TokView h r pre toks) {i : Nat} {t : Bytes} (hi : toks[i]? = some t) : tkGet r (i : Int) h.lines = .ok t := by
  rw [← TokRef_get_eq]; exact v.get hi

theorem _root_.ModVerif.Tie.FnRuleRep.TokView.tkGet0 (v : TokView h r pre toks) {t : Bytes} (hi : toks[0]? = some t) : tkGet r 0 h.lines = .ok t := v.tkGet (i := 0) hi
theorem _root_.ModVerif.Tie.FnRuleRep.TokView.tkGet1 (v : TokView h r pre toks) {t : Bytes} (hi : toks[1]? = some t) : tkGet r 1 h.lines = .ok t := v.tkGet (i := 1) hi

theorem _root_.ModVerif.Tie.FnRuleRep.TokView.tkSet (v : TokView h r pre toks) {i : Nat} (hi : i < toks.length) (x : Bytes) :
    tkSet r (i : Int) x h.lines = .ok (setToksH h r.owner (pre ++ toks.set i x)).lines := by
  have h1 := (v.set hi x).1
  rw [TokRef_set_eq] at h1
  cases hs : FnRuleAddA.tkSet r (i : Int) x h.lines with
  | error e => rw [hs] at h1; cases h1
  | ok ls =>
    rw [hs] at h1
    simp only [bind, Except.bind, pure, Except.pure, Except.ok.injEq] at h1
    rw [← h1]

theorem _root_.ModVerif.Tie.FnRuleRep.TokView.tkSet0 (v : TokView h r pre toks) (hi : 0 < toks.length) (x : Bytes) :
    tkSet r 0 x h.lines = .ok (setToksH h r.owner (pre ++ toks.set 0 x)).lines := v.tkSet (i := 0) hi x
theorem _root_.ModVerif.Tie.FnRuleRep.TokView.tkSet1 (v : TokView h r pre toks) (hi : 1 < toks.length) (x : Bytes) :
    tkSet r 1 x h.lines = .ok (setToksH h r.owner (pre ++ toks.set 1 x)).lines := v.tkSet (i := 1) hi x

end viewL

/-! ### `strings.Cut` with a one-byte separator -/

theorem indexAux_one (c : UInt8) : ∀ (s : Bytes) (k : Nat),
    GoRt.indexAux [c] s k = if s.contains c then ((k + (s.takeWhile (· != c)).length : Nat) : Int) else -1
  | [], k => by simp [GoRt.indexAux]
  | x :: xs, k => by
    unfold GoRt.indexAux
    by_cases hx : x = c
    · subst hx
      simp [isPrefixOfB, List.takeWhile]
    · have h1 : isPrefixOfB [c] (x :: xs) = false := by
        simp only [isPrefixOfB, List.isPrefixOf, Bool.and_eq_false_imp, beq_iff_eq]
        intro e; exact absurd e.symm hx
      have h2 : (x != c) = true := by simp [hx]
      have h3 : (x == c) = false := by simp [hx]
      rw [h1, indexAux_one c xs (k + 1)]
      simp only [Bool.false_eq_true, if_false, List.contains_cons, List.takeWhile, h2, List.length_cons]
      have h4 : (c == x) = false := by simp; exact fun e => hx e.symm
      simp only [h4, Bool.false_or]
      split <;> simp <;> omega

theorem take_takeWhile_length {α : Type} (p : α → Bool) : ∀ s : List α, s.take (s.takeWhile p).length = s.takeWhile p
  | [] => rfl
  | x :: xs => by
    by_cases hx : p x
    · simp [List.takeWhile, hx, take_takeWhile_length p xs]
    · simp [List.takeWhile, hx]

theorem drop_takeWhile_length {α : Type} (p : α → Bool) : ∀ s : List α, s.drop (s.takeWhile p).length = s.dropWhile p
  | [] => rfl
  | x :: xs => by
    by_cases hx : p x
    · simp [List.takeWhile, List.dropWhile, hx, drop_takeWhile_length p xs]
    · simp [List.takeWhile, List.dropWhile, hx]

theorem cut_one (s : Bytes) (c : UInt8) :
    GoRt.cut s [c] = (match GoStrings.cut s c with | some (k, v) => (k, v, true) | none => (s, [], false)) := by
  unfold GoRt.cut GoStrings.cut GoRt.index
  rw [indexAux_one]
  by_cases hc : s.contains c
  · have h0 : ¬ ((((0 + (s.takeWhile (· != c)).length : Nat) : Int)) < 0) := by omega
    simp only [hc, if_true, h0, if_false]
    have h1 : (((0 + (s.takeWhile (· != c)).length : Nat) : Int)).toNat = (s.takeWhile (· != c)).length := by omega
    rw [h1, take_takeWhile_length, List.length_singleton, ← List.drop_drop, drop_takeWhile_length]
  · have hc' : s.contains c = false := by simpa using hc
    simp only [hc', Bool.false_eq_true, if_false]
    rfl

/-! ### one step of `File.add` -/

/-- **what one call of `File.add` on the line `l` (object at `lp`; `pre` = the tokens of the line before the argument view)
    guarantees**: the new heap `h'` with the new in-out list `errs'` represents the model's new state `res.1`, the syntax
    graph having the tokens of the line replaced by `pre ++ res.2`; only this line object changed among the syntax
    objects. -/
structure StepPost (ι : Int → Nat) (h : Rule.Heap) (fp : Int) (syn : Modfile.FileSyntax) (lp : Int) (l : Modfile.Line) (pre : List Bytes)
    (res : Modfile.AddState × List Bytes) (errs' : List Rule.Error) (h' : Rule.Heap) : Prop where
  rep : RepRS ι h' fp errs' res.1 (syn.updateLine l.id fun x => { x with token := pre ++ res.2 })
  lines : h'.lines = (setToksH h lp (pre ++ res.2)).lines
  blocks : h'.blocks = h.blocks
  cbs : h'.cbs = h.cbs
  files : h'.files = h.files
  fsyn : ∀ o o', heapGet h.mods fp = .ok o → heapGet h'.mods fp = .ok o' → o'.Syntax = o.Syntax

section step
variable {ι : Int → Nat} {h : Rule.Heap} {fp : Int} {errs : List Rule.Error} {st : Modfile.AddState} {syn : Modfile.FileSyntax}
  {lp : Int} {l : Modfile.Line} {pre : List Bytes}

/-- the objects `File.add` reads first -/
theorem _root_.ModVerif.Tie.FnRuleRep.RepRS.objs (R : RepRS ι h fp errs st syn) :
    ∃ o es, heapGet h.mods fp = .ok o ∧ heapGet h.files o.Syntax = .ok (fileG syn es) ∧ RepTyped ι h o st.file := by
  obtain ⟨o, ho, rt, es, rs⟩ := R.obj
  exact ⟨o, es, ho, rs.file, rt⟩

/-- assemble a `StepPost`: `h'` has the lines of the heap after the token stores and differs from `h` otherwise in typed
    objects, `mods` and `errors` only -/
theorem StepPost.build (R : RepRS ι h fp errs st syn) (hl : RLine ι h lp l) {args' : List Bytes}
    {h' : Rule.Heap} {o' : Rule.File} {errs' : List Rule.Error} {st' : Modfile.AddState}
    (ho' : heapGet h'.mods fp = .ok o')
    (hlines : h'.lines = (setToksH h lp (pre ++ args')).lines) (hb : h'.blocks = h.blocks) (hc : h'.cbs = h.cbs) (hf : h'.files = h.files)
    (ht : ∀ o, heapGet h.mods fp = .ok o → RepTyped ι h o st.file → RepTyped ι h' o' st'.file ∧ o'.Syntax = o.Syntax)
    (he : ErrsRep errs' st'.errsRev.reverse) : StepPost ι h fp syn lp l pre (st', args') errs' h' := by
  have R1 := R.setToks hl.1 (pre ++ args')
  obtain ⟨o, ho, rt, _⟩ := R.obj
  obtain ⟨o1, ho1, _, rs⟩ := R1.obj
  have : o1 = o := by simp only [setToksH_mods] at ho1; rw [ho] at ho1; cases ho1; rfl
  subst this
  obtain ⟨rt', hs⟩ := ht o1 ho rt
  refine ⟨⟨⟨o', ho', rt', ?_⟩, R1.inj.congr (by rw [hlines]), he⟩, hlines, hb, hc, hf, ?_⟩
  · rw [hs, ← hl.2]
    exact rs.congr (by rw [hf]; simp) hlines (by rw [hb]; simp) (by rw [hc]; simp)
  · intro a a' ha ha'
    rw [ho] at ha; rw [ho'] at ha'; cases ha; cases ha'; exact hs

/-- a step that stores nothing into the line: `args' = args` -/
theorem setToksH_same (hl : RLine ι h lp l) {args : List Bytes} (htok : l.token = pre ++ args) : h = setToksH h lp (pre ++ args) := by
  have := setToksH_self hl.1
  rw [lineG_Token, htok] at this
  exact this.symm

theorem lines_same (hl : RLine ι h lp l) {args : List Bytes} (htok : l.token = pre ++ args) : h.lines = (setToksH h lp (pre ++ args)).lines :=
  congrArg (·.lines) (setToksH_same hl htok)

/-- a step that changes nothing (lax mode: the verb is ignored) -/
theorem StepPost.skip (R : RepRS ι h fp errs st syn) (hl : RLine ι h lp l) {args : List Bytes} (htok : l.token = pre ++ args) :
    StepPost ι h fp syn lp l pre (st, args) errs h := by
  obtain ⟨o, ho, _, _⟩ := R.obj
  exact StepPost.build R hl ho (lines_same hl htok) rfl rfl rfl
    (fun o1 ho1 rt => by rw [ho] at ho1; cases ho1; exact ⟨rt, rfl⟩) R.errs

/-- a step that only reports an error at the start of the line -/
theorem StepPost.err (R : RepRS ι h fp errs st syn) (hl : RLine ι h lp l) {args : List Bytes} (htok : l.token = pre ++ args)
    {e : Rule.Error} {k : Modfile.RuleErrKind} (he : ErrRep e ⟨l.start, k⟩) :
    StepPost ι h fp syn lp l pre (st.err l.start k, args) (errs ++ [e]) h := by
  obtain ⟨o, ho, _, _⟩ := R.obj
  exact StepPost.build R hl ho (lines_same hl htok) rfl rfl rfl
    (fun o1 ho1 rt => by rw [ho] at ho1; cases ho1; exact ⟨rt, rfl⟩) (R.errs.snoc_rev he)

/-- a step that only rewrites tokens of the line -/
theorem StepPost.skipW (R : RepRS ι h fp errs st syn) (hl : RLine ι h lp l) (args' : List Bytes) :
    StepPost ι h fp syn lp l pre (st, args') errs { h with lines := (setToksH h lp (pre ++ args')).lines } := by
  obtain ⟨o, ho, _, _⟩ := R.obj
  exact StepPost.build R hl ho rfl rfl rfl rfl
    (fun o1 ho1 rt => by rw [ho] at ho1; cases ho1; exact ⟨rt.withLines _ (by simp), rfl⟩) R.errs

/-- a step that rewrites tokens of the line and reports an error at its start -/
theorem StepPost.errW (R : RepRS ι h fp errs st syn) (hl : RLine ι h lp l) (args' : List Bytes)
    {e : Rule.Error} {k : Modfile.RuleErrKind} (he : ErrRep e ⟨l.start, k⟩) :
    StepPost ι h fp syn lp l pre (st.err l.start k, args') (errs ++ [e]) { h with lines := (setToksH h lp (pre ++ args')).lines } := by
  obtain ⟨o, ho, _, _⟩ := R.obj
  exact StepPost.build R hl ho rfl rfl rfl rfl
    (fun o1 ho1 rt => by rw [ho] at ho1; cases ho1; exact ⟨rt.withLines _ (by simp), rfl⟩) (R.errs.snoc_rev he)

/-- the line object after a token store -/
theorem line_after (hl : RLine ι h lp l) (ts : List Bytes) :
    heapGet (setToksH h lp ts).lines lp = .ok { lineG l with Token := ts } := heapGet_setToksH_same hl.1 ts

theorem line_after' (hl : RLine ι h lp l) (ts : List Bytes) :
    heapGet (setToksH h lp ts).lines lp = .ok (lineG { l with token := ts }) := heapGet_setToksH_same hl.1 ts

/-- a token store changes `lines` only -/
theorem setToksH_eq_lines (h : Rule.Heap) (p : Int) (ts : List Bytes) : setToksH h p ts = { h with lines := (setToksH h p ts).lines } := by
  unfold setToksH; split <;> rfl

/-- … by `errorf` with a format literal -/
theorem StepPost.errf (R : RepRS ι h fp errs st syn) (hl : RLine ι h lp l) {args : List Bytes} (htok : l.token = pre ++ args)
    {F : Rule.FileSyntax} {fmt : Bytes} {k : Modfile.RuleErrKind} (hk : bytesToStr fmt ∈ errStrs k) :
    StepPost ι h fp syn lp l pre (st.err l.start k, args) (errs ++ [errV F (lineG l) (some (bytesToStr fmt))]) h :=
  StepPost.err R hl htok (errV_rep (errAbs_fmt hk))

end step

end ModVerif.Tie.FnRuleAddA
