/-
  EditMore, part 2 — `File.add` in strict mode, verb by verb (on C20's per-verb split `add_eq`): a call that reports no
  error appends exactly one typed entry, and the tokens it writes back into the line are the rendering that
  `Edit.entries` expects of that entry (`Step`).  Leaf facts: `parseString`, `parseVersion`, `parseVersionInterval`,
  `parseReplace`, `strings.Cut`.

  Without a version fixer (`fix = none`, what `sessionMod` uses): a fixer may return the empty version, which the
  replace rendering cannot tell from "no version".
-/
import ModVerif.Proofs.EditRefineInvCheck
import ModVerif.Proofs.EditMoreFlags
set_option linter.unusedSimpArgs false
namespace ModVerif.Modfile.Edit
open ModVerif ModVerif.Modfile ModVerif.Proofs.ModfileC20 ModVerif.Proofs.EditMore


theorem cut_spec (s : Bytes) (sep : UInt8) (k v : Bytes) (h : GoStrings.cut s sep = some (k, v)) : s = k ++ [sep] ++ v := by
  unfold GoStrings.cut at h
  split at h
  · rename_i hc
    simp only [Option.some.injEq, Prod.mk.injEq] at h
    obtain ⟨rfl, rfl⟩ := h

    induction s with
    | nil => simp at hc
    | cons c cs ih =>
      by_cases hcs : c = sep
      · subst hcs; simp [List.takeWhile, List.dropWhile]
      · have : cs.contains sep = true := by
          simp only [List.contains_cons, Bool.or_eq_true, beq_iff_eq] at hc
          rcases hc with h | h
          · exact absurd h.symm hcs
          · exact h
        have hne : (c != sep) = true := by simpa using hcs
        simp only [List.takeWhile, List.dropWhile, hne, List.cons_append]
        congr 1
        exact ih this
  · cases h

theorem addGodebug_spec (args : List Bytes) (k v : Bytes) (h : Modfile.addGodebug args = some (k, v)) :
    args = [k ++ [61] ++ v] := by
  unfold Modfile.addGodebug at h
  split at h
  · split at h
    · cases h
    · rw [cut_spec _ _ _ _ h]
  · cases h

theorem parseString_tok (tok t tok' : Bytes) (h : parseString tok = some (t, tok')) : tok' = autoQuote t := by
  unfold parseString at h
  split at h
  · split at h
    · cases h
    · simp only [Option.some.injEq, Prod.mk.injEq] at h; rw [← h.2, h.1]
  · split at h
    · cases h
    · simp only [Option.some.injEq, Prod.mk.injEq] at h; rw [← h.2, h.1]

theorem parseVersion_none (p tok tok' v : Bytes) (h : parseVersion p tok none = (tok', .ok v)) : tok' = v ∧ v ≠ [] := by
  unfold parseVersion at h
  split at h
  · simp at h
  · simp only at h
    split at h
    · simp at h
    · rename_i hne
      simp only [Prod.mk.injEq, Except.ok.injEq] at h
      obtain ⟨rfl, rfl⟩ := h
      refine ⟨rfl, ?_⟩
      intro e; rw [e] at hne; simp at hne

theorem parseVersion_dont (p tok tok' v : Bytes) (h : parseVersion p tok (some dontFixRetract) = (tok', .ok v)) : tok' = v := by
  unfold parseVersion at h
  split at h
  · simp at h
  · simp only [dontFixRetract] at h
    simp only [Prod.mk.injEq, Except.ok.injEq] at h
    rw [← h.1, ← h.2]

theorem pvi_spec (p : Bytes) (args args' : List Bytes) (vi : VersionInterval) (rest : List Bytes)
    (h : parseVersionInterval p args (some dontFixRetract) = (args', .ok (vi, rest))) (hr : rest = []) :
    (args' = [vi.low] ∧ vi.low = vi.high) ∨ args' = [[91], vi.low, [44], vi.high, [93]] := by
  unfold parseVersionInterval at h
  split at h
  · simp at h
  · rename_i t0 rest0
    split at h
    · simp at h
    · split at h
      · split at h
        · simp at h
        · rename_i t0' v hv
          simp only [Prod.mk.injEq, Except.ok.injEq] at h
          obtain ⟨rfl, rfl, rfl⟩ := h
          subst hr
          have := parseVersion_dont _ _ _ _ hv
          subst this
          exact Or.inl ⟨rfl, rfl⟩
      · rename_i hb
        split at h
        · simp at h
        · split at h
          · simp at h
          · rename_i t1' low hlow
            split at h
            · simp at h
            · split at h
              · simp at h
              · rename_i hc
                split at h
                · simp at h
                · split at h
                  · simp at h
                  · rename_i t2' high hhigh
                    split at h
                    · simp at h
                    · split at h
                      · simp at h
                      · rename_i hrb
                        simp only [Prod.mk.injEq, Except.ok.injEq] at h
                        obtain ⟨rfl, rfl, rfl⟩ := h
                        have e1 := parseVersion_dont _ _ _ _ hlow
                        have e2 := parseVersion_dont _ _ _ _ hhigh
                        subst e1 e2 hr
                        simp only [bne_iff_ne, ne_eq, Decidable.not_not] at hb hc hrb
                        subst hb hc hrb
                        exact Or.inr rfl

theorem parseReplace_spec (lineId : Nat) (args args' : List Bytes) (r : Replace)
    (h : parseReplace lineId args none = (args', .ok r)) : B "replace" :: args' = replaceToks r ∧ r.lineId = lineId := by
  rcases args with _ | ⟨a0, _ | ⟨a1, _ | ⟨a2, _ | ⟨a3, _ | ⟨a4, _ | ⟨a5, rr⟩⟩⟩⟩⟩⟩
  · simp [parseReplace] at h
  · simp [parseReplace] at h
  · by_cases h1 : a1 = B "=>" <;> simp [parseReplace, h1] at h
  · -- a0 => a2
    by_cases h1 : a1 = B "=>"
    · subst h1
      simp [parseReplace] at h
      split at h
      · simp at h
      · rename_i s a0' hs
        split at h
        · simp at h
        · split at h
          · simp at h
          · rename_i ns nsTok' hns
            have e0 := parseString_tok _ _ _ hs
            have e2 := parseString_tok _ _ _ hns
            subst e0 e2
            split at h
            · split at h <;> simp at h
            · split at h
              · simp at h
              · simp only [Prod.mk.injEq, Except.ok.injEq] at h
                obtain ⟨rfl, rfl⟩ := h
                exact ⟨by simp [replaceToks], rfl⟩
    · simp [parseReplace, h1] at h
  · by_cases h1 : a1 = B "=>"
    · -- a0 => a2 a3
      subst h1
      simp [parseReplace] at h
      split at h
      · simp at h
      · rename_i s a0' hs
        split at h
        · simp at h
        · split at h
          · simp at h
          · rename_i ns nsTok' hns
            have e0 := parseString_tok _ _ _ hs
            have e2 := parseString_tok _ _ _ hns
            subst e0 e2
            split at h
            · simp at h
            · rename_i nvTok' nv hnv
              obtain ⟨e3, hne⟩ := parseVersion_none _ _ _ _ hnv
              subst e3
              split at h
              · simp at h
              · simp only [Prod.mk.injEq, Except.ok.injEq] at h
                obtain ⟨rfl, rfl⟩ := h
                refine ⟨?_, rfl⟩
                have : nvTok'.isEmpty = false := by cases nvTok' with
                  | nil => exact absurd rfl hne
                  | cons _ _ => rfl
                simp [replaceToks, this]
    · -- a0 a1 => a3
      simp [parseReplace, h1] at h
      split at h
      · rename_i h2
        subst h2
        split at h
        · simp at h
        · rename_i s a0' hs
          have e0 := parseString_tok _ _ _ hs
          subst e0
          split at h
          · simp at h
          · rename_i pm hpm
            cases hv : parseVersion s a1 none with
            | mk a1' res =>
              cases res with
              | error e => simp [hv] at h
              | ok v =>
                obtain ⟨e1, hne⟩ := parseVersion_none _ _ _ _ hv
                subst e1
                have hvne : a1'.isEmpty = false := by cases a1' with
                  | nil => exact absurd rfl hne
                  | cons _ _ => rfl
                simp only [hv] at h
                by_cases hcp : Module.checkPathMajor a1' pm = false
                · simp [hcp] at h
                · have hcp' : Module.checkPathMajor a1' pm = true := by simpa using hcp
                  simp [hcp'] at h
                  split at h
                  · simp at h
                  · rename_i ns nsTok' hns
                    have e2 := parseString_tok _ _ _ hns
                    subst e2
                    split at h
                    · split at h <;> simp at h
                    · split at h
                      · simp at h
                      · simp only [Prod.mk.injEq, Except.ok.injEq] at h
                        obtain ⟨rfl, rfl⟩ := h
                        exact ⟨by simp [replaceToks, hvne], rfl⟩
      · simp at h
  · by_cases h1 : a1 = B "=>"
    · subst h1
      simp [parseReplace] at h
    · -- a0 a1 => a3 a4
      simp [parseReplace, h1] at h
      split at h
      · rename_i h2
        subst h2
        split at h
        · simp at h
        · rename_i s a0' hs
          have e0 := parseString_tok _ _ _ hs
          subst e0
          split at h
          · simp at h
          · rename_i pm hpm
            cases hv : parseVersion s a1 none with
            | mk a1' res =>
              cases res with
              | error e => simp [hv] at h
              | ok v =>
                obtain ⟨e1, hne⟩ := parseVersion_none _ _ _ _ hv
                subst e1
                have hvne : a1'.isEmpty = false := by cases a1' with
                  | nil => exact absurd rfl hne
                  | cons _ _ => rfl
                simp only [hv] at h
                by_cases hcp : Module.checkPathMajor a1' pm = false
                · simp [hcp] at h
                · have hcp' : Module.checkPathMajor a1' pm = true := by simpa using hcp
                  simp [hcp'] at h
                  split at h
                  · simp at h
                  · rename_i ns nsTok' hns
                    have e2 := parseString_tok _ _ _ hns
                    subst e2
                    split at h
                    · simp at h
                    · rename_i nvTok' nv hnv
                      obtain ⟨e3, hne3⟩ := parseVersion_none _ _ _ _ hnv
                      subst e3
                      have hnvne : nvTok'.isEmpty = false := by cases nvTok' with
                        | nil => exact absurd rfl hne3
                        | cons _ _ => rfl
                      split at h
                      · simp at h
                      · simp only [Prod.mk.injEq, Except.ok.injEq] at h
                        obtain ⟨rfl, rfl⟩ := h
                        exact ⟨by simp [replaceToks, hvne, hnvne], rfl⟩
      · simp at h
  · by_cases h1 : a1 = B "=>" <;> simp [parseReplace, h1] at h <;> omega

def segs (f : File) : List (List Ent) :=
  [f.module.toList.map entM, f.go.toList.map entGo, f.toolchain.toList.map entTc, f.godebug.map entG, f.require.map entRq,
   f.exclude.map entX, f.replace.map entRp, f.retract.map entRt, f.tool.map entT]

/-- one entry per typed entry, cleared or not -/
def entsAll (f : File) : List Ent := (segs f).flatten

theorem flatten_set_perm (en : Ent) : ∀ (L : List (List Ent)) (k : Nat), k < L.length →
    (L.set k (L.getD k [] ++ [en])).flatten.Perm (L.flatten ++ [en]) := by
  intro L
  induction L with
  | nil => intro k hk; simp at hk
  | cons x xs ih =>
    intro k hk
    cases k with
    | zero =>
      simp only [List.set_cons_zero, List.getD_cons_zero, List.flatten_cons, List.append_assoc]
      exact List.Perm.append_left _ List.perm_append_comm
    | succ k =>
      simp only [List.set_cons_succ, List.getD_cons_succ, List.flatten_cons, List.append_assoc]
      exact List.Perm.append_left _ (ih k (by simpa using hk))

/-- one successful `File.add`: no error before, exactly one new typed entry, which renders the (rewritten) line -/
structure Step (st st' : AddState) (line : Line) (toks : List Bytes) : Prop where
  errs : st.errsRev = []
  ent : ∃ (en : Ent) (k : Nat), k < 9 ∧ segs st'.file = (segs st.file).set k ((segs st.file).getD k [] ++ [en]) ∧
    en.id = line.id ∧ en.acc toks line.comments.suffix
  len : 2 ≤ toks.length

theorem err_ne (st : AddState) (p : Position) (k : RuleErrKind) : (st.err p k).errsRev ≠ [] := by simp [AddState.err]

theorem addGo_step {st st' : AddState} {line : Line} {args args' : List Bytes}
    (h : addGo st line args true = (st', args')) (he : st'.errsRev = []) : Step st st' line (B "go" :: args') := by
  unfold addGo at h
  dsimp only at h
  split at h
  · cases h; exact absurd he (err_ne _ _ _)
  · rename_i hgo
    have hgo' : st.file.go = none := by simpa using hgo
    split at h
    · rename_i a
      split at h
      · cases h
        exact ⟨he, ⟨entGo ⟨a, line.id⟩, 1, by omega, by simp [segs, hgo'], rfl, rfl⟩, by simp⟩
      · simp only [if_true] at h
        cases h; exact absurd he (err_ne _ _ _)
    · cases h; exact absurd he (err_ne _ _ _)


theorem addToolchain_step {st st' : AddState} {line : Line} {args args' : List Bytes}
    (h : addToolchain st line args = (st', args')) (he : st'.errsRev = []) : Step st st' line (B "toolchain" :: args') := by
  unfold addToolchain at h
  dsimp only at h
  split at h
  · cases h; exact absurd he (err_ne _ _ _)
  · rename_i hgo
    have hgo' : st.file.toolchain = none := by simpa using hgo
    split at h
    · rename_i a
      split at h
      · cases h; exact absurd he (err_ne _ _ _)
      · cases h
        exact ⟨he, ⟨entTc ⟨a, line.id⟩, 2, by omega, by simp [segs, hgo'], rfl, rfl⟩, by simp⟩
    · cases h; exact absurd he (err_ne _ _ _)

theorem addModule_step {st st' : AddState} {block : Option Comments} {line : Line} {args args' : List Bytes}
    (h : addModule st block line args = (st', args')) (he : st'.errsRev = []) : Step st st' line (B "module" :: args') := by
  unfold addModule at h
  dsimp only at h
  split at h
  · cases h; exact absurd he (err_ne _ _ _)
  · rename_i hgo
    have hgo' : st.file.module = none := by simpa using hgo
    split at h
    · rename_i a
      split at h
      · cases h; exact absurd he (err_ne _ _ _)
      · rename_i s a' hs
        have := parseString_tok _ _ _ hs
        subst this
        cases h
        exact ⟨he, ⟨entM { mod := { path := s }, deprecated := parseDeprecation block line.comments, lineId := line.id }, 0,
          by omega, by simp [segs, hgo'], rfl, rfl⟩, by simp⟩
    · cases h; exact absurd he (err_ne _ _ _)

theorem addGodebugV_step {st st' : AddState} {line : Line} {args args' : List Bytes}
    (h : addGodebugV st line args = (st', args')) (he : st'.errsRev = []) : Step st st' line (B "godebug" :: args') := by
  unfold addGodebugV at h
  dsimp only at h
  split at h
  · cases h; exact absurd he (err_ne _ _ _)
  · rename_i k v hkv
    have := addGodebug_spec _ _ _ hkv
    subst this
    cases h
    exact ⟨he, ⟨entG ⟨k, v, line.id⟩, 3, by omega, by simp [segs], rfl, rfl⟩, by simp⟩

theorem addReqExc_step {st st' : AddState} {line : Line} {verb : Bytes} {args args' : List Bytes}
    (hverb : verb = B "require" ∨ verb = B "exclude")
    (h : addReqExc st line verb args none = (st', args')) (he : st'.errsRev = []) : Step st st' line (verb :: args') := by
  unfold addReqExc at h
  dsimp only at h
  split at h
  · rename_i a0 a1
    split at h
    · cases h; exact absurd he (err_ne _ _ _)
    · rename_i s a0' hs
      have := parseString_tok _ _ _ hs
      subst this
      split at h
      · cases h; exact absurd he (err_ne _ _ _)
      · rename_i a1' v hv
        obtain ⟨e1, _⟩ := parseVersion_none _ _ _ _ hv
        subst e1
        split at h
        · cases h; exact absurd he (err_ne _ _ _)
        · split at h
          · cases h; exact absurd he (err_ne _ _ _)
          · split at h
            · rename_i hr
              have hr' : verb = B "require" := by simpa using hr
              subst hr'
              cases h
              exact ⟨he, ⟨entRq ⟨⟨s, a1'⟩, isIndirect line, line.id⟩, 4, by omega, by simp [segs],
                rfl, ⟨rfl, (isIndirect_eq line).symm⟩⟩, by simp⟩
            · rename_i hr
              have hx : verb = B "exclude" := by
                rcases hverb with h1 | h1
                · rw [h1] at hr; simp at hr
                · exact h1
              subst hx
              cases h
              exact ⟨he, ⟨entX ⟨⟨s, a1'⟩, line.id⟩, 5, by omega, by simp [segs], rfl, rfl⟩, by simp⟩
  · cases h; exact absurd he (err_ne _ _ _)

theorem addReplaceV_step {st st' : AddState} {line : Line} {args args' : List Bytes}
    (h : addReplaceV st line args none = (st', args')) (he : st'.errsRev = []) : Step st st' line (B "replace" :: args') := by
  unfold addReplaceV at h
  dsimp only at h
  split at h
  · cases h; exact absurd he (err_ne _ _ _)
  · rename_i a' r hr
    obtain ⟨e1, e2⟩ := parseReplace_spec _ _ _ _ hr
    cases h
    refine ⟨he, ⟨entRp r, 6, by omega, by simp [segs], e2, e1⟩, ?_⟩
    rw [e1]; simp [replaceToks]

theorem addRetractV_step {st st' : AddState} {block : Option Comments} {line : Line} {args args' : List Bytes}
    (h : addRetractV st block line args true = (st', args')) (he : st'.errsRev = []) : Step st st' line (B "retract" :: args') := by
  unfold addRetractV at h
  dsimp only at h
  split at h
  · simp only [if_true] at h
    cases h; exact absurd he (err_ne _ _ _)
  · rename_i a' vi rest hp
    split at h
    · cases h; exact absurd he (err_ne _ _ _)
    · rename_i hrest
      have hr : rest = [] := by
        cases rest with
        | nil => rfl
        | cons _ _ => simp at hrest
      cases h
      rcases pvi_spec _ _ _ _ _ hp hr with ⟨e1, e2⟩ | e1
      · refine ⟨he, ⟨entRt ⟨vi, parseDirectiveComment block line.comments, line.id⟩, 7, by omega, by simp [segs], rfl, ?_⟩, by simp [e1]⟩
        exact Or.inl ⟨vi.low, by rw [e1], Or.inl rfl, e2⟩
      · refine ⟨he, ⟨entRt ⟨vi, parseDirectiveComment block line.comments, line.id⟩, 7, by omega, by simp [segs], rfl, ?_⟩, by simp [e1]⟩
        exact Or.inr ⟨vi.low, vi.high, by rw [e1], Or.inl rfl, Or.inl rfl⟩

theorem addToolV_step {st st' : AddState} {line : Line} {args args' : List Bytes}
    (h : addToolV st line args = (st', args')) (he : st'.errsRev = []) : Step st st' line (B "tool" :: args') := by
  unfold addToolV at h
  dsimp only at h
  split at h
  · rename_i a
    split at h
    · cases h; exact absurd he (err_ne _ _ _)
    · rename_i s a' hs
      have := parseString_tok _ _ _ hs
      subst this
      cases h
      exact ⟨he, ⟨entT ⟨s, line.id⟩, 8, by omega, by simp [segs], rfl, ⟨_, rfl, Or.inr rfl⟩⟩, by simp⟩
  · cases h; exact absurd he (err_ne _ _ _)

/-- **`File.add` in strict mode without a fixer**: a call that reports no error adds exactly one typed entry, and the
    rewritten tokens of the line are the rendering `Edit.entries` expects of that entry -/
theorem add_step {st st' : AddState} {block : Option Comments} {line : Line} {verb : Bytes} {args args' : List Bytes}
    (h : File.add st block line verb args none true = (st', args')) (he : st'.errsRev = []) :
    Step st st' line (verb :: args') := by
  rw [add_eq] at h
  simp only [Bool.not_true, Bool.false_and, Bool.false_eq_true, if_false] at h
  split at h
  · rename_i hv; rw [eq_of_beq hv]; exact addGo_step h he
  split at h
  · rename_i hv; rw [eq_of_beq hv]; exact addToolchain_step h he
  split at h
  · rename_i hv; rw [eq_of_beq hv]; exact addModule_step h he
  split at h
  · rename_i hv; rw [eq_of_beq hv]; exact addGodebugV_step h he
  split at h
  · rename_i hv
    refine addReqExc_step ?_ h he
    simpa using hv
  split at h
  · rename_i hv; rw [eq_of_beq hv]; exact addReplaceV_step h he
  split at h
  · rename_i hv; rw [eq_of_beq hv]; exact addRetractV_step h he
  split at h
  · rename_i hv; rw [eq_of_beq hv]; exact addToolV_step h he
  · cases h; exact absurd he (err_ne _ _ _)

end ModVerif.Modfile.Edit
