/-
  EditRefine, part 3 — the abstraction of a go.mod / go.work file after dropping cleared placeholders
  (`absLive = absOf ∘ cleanup`), the line-id invariant the typed half of `removeDups` relies on, and
  `SortBlocks`' typed half = the specification's `removeDups`.
-/
import ModVerif.Proofs.EditRefineDups
namespace ModVerif.Modfile.Edit
open ModVerif ModVerif.Modfile ModVerif.EditSpec

def liveG (g : Godebug) : Bool := !g.key.isEmpty
def liveRq (r : Require) : Bool := !r.mod.path.isEmpty
def liveX (x : Exclude) : Bool := !x.mod.path.isEmpty
def liveRp (r : Replace) : Bool := !r.old.path.isEmpty
def liveRt (r : Retract) : Bool := !r.interval.low.isEmpty || !r.interval.high.isEmpty
def liveT (t : Tool) : Bool := !t.path.isEmpty
def liveU (u : Use) : Bool := !u.path.isEmpty

def aG (g : Godebug) : Bytes × Bytes := (g.key, g.value)
def aRq (r : Require) : Req := ⟨r.mod.path, r.mod.version, r.indirect⟩
def aX (x : Exclude) : Bytes × Bytes := (x.mod.path, x.mod.version)
def aRp (r : Replace) : Repl := ⟨r.old.path, r.old.version, r.new.path, r.new.version⟩
def aRt (r : Retract) : Retr := ⟨r.interval.low, r.interval.high, r.rationale⟩
def aT (t : Tool) : Bytes := t.path
def aU (u : Use) : Bytes := u.path

/-- the typed lists without cleared placeholders, as an abstract file: what `Cleanup` leaves -/
def absLive (f : File) : AbsFile :=
  { module := f.module.map (·.mod.path), go := f.go.map (·.version), toolchain := f.toolchain.map (·.name),
    godebug := liveAbs liveG aG f.godebug, require := liveAbs liveRq aRq f.require,
    exclude := liveAbs liveX aX f.exclude, replace := liveAbs liveRp aRp f.replace,
    retract := liveAbs liveRt aRt f.retract, tool := liveAbs liveT aT f.tool }

def absLiveWork (f : WorkFile) : AbsFile :=
  { go := f.go.map (·.version), toolchain := f.toolchain.map (·.name),
    godebug := liveAbs liveG aG f.godebug, replace := liveAbs liveRp aRp f.replace, use := liveAbs liveU aU f.use }

theorem absLive_eq_cleanup (e : EFile) : absLive e.f = absOf (cleanup e).f := rfl
theorem absLiveWork_eq_cleanup (e : EWork) : absLiveWork e.f = absOfWork (workCleanup e).f := rfl

/-- all entries live: `absLive` is `absOf` -/
theorem liveAbs_all {α β : Type} (live : α → Bool) (a : α → β) (l : List α) (h : ∀ x ∈ l, live x = true) :
    liveAbs live a l = l.map a := by
  unfold liveAbs; rw [List.filter_eq_self.2 h]

/-! ### the id invariant -/

def idsOf (f : File) : List Nat :=
  liveIds liveX (·.lineId) f.exclude ++ (liveIds liveRp (·.lineId) f.replace ++ liveIds liveT (·.lineId) f.tool)

/-- the line ids of the live exclude / replace / tool entries are pairwise different, real (≠ nil id) and below the
    fresh-id counter; cleared entries carry the nil id.  (`removeDups` filters the typed lists by line id.) -/
structure TInv (e : EFile) : Prop where
  wfX : IdWF liveX (·.lineId) e.f.exclude
  wfR : IdWF liveRp (·.lineId) e.f.replace
  wfT : IdWF liveT (·.lineId) e.f.tool
  nodup : (idsOf e.f).Nodup
  lt : ∀ i ∈ idsOf e.f, i < e.next
  pos : 0 < e.next

structure WInv (e : EWork) : Prop where
  wfR : IdWF liveRp (·.lineId) e.f.replace
  nodup : (liveIds liveRp (·.lineId) e.f.replace).Nodup
  lt : ∀ i ∈ liveIds liveRp (·.lineId) e.f.replace, i < e.next
  pos : 0 < e.next

theorem TInv.of_sublist {e e' : EFile} (h : TInv e) (wfX : IdWF liveX (·.lineId) e'.f.exclude)
    (wfR : IdWF liveRp (·.lineId) e'.f.replace) (wfT : IdWF liveT (·.lineId) e'.f.tool)
    (hs : (idsOf e'.f).Sublist (idsOf e.f)) (hn : e.next ≤ e'.next) : TInv e' :=
  ⟨wfX, wfR, wfT, List.Nodup.sublist hs h.nodup, fun i hi => Nat.lt_of_lt_of_le (h.lt i (hs.subset hi)) hn, Nat.lt_of_lt_of_le h.pos hn⟩

theorem TInv.of_sublist_fresh {e e' : EFile} (h : TInv e) (wfX : IdWF liveX (·.lineId) e'.f.exclude)
    (wfR : IdWF liveRp (·.lineId) e'.f.replace) (wfT : IdWF liveT (·.lineId) e'.f.tool)
    (m : List Nat) (hs : (idsOf e'.f).Sublist m) (hm : m.Perm (e.next :: idsOf e.f)) (hn : e.next < e'.next) : TInv e' := by
  have hnd : (e.next :: idsOf e.f).Nodup :=
    List.nodup_cons.2 ⟨fun hmem => Nat.lt_irrefl _ (h.lt _ hmem), h.nodup⟩
  refine ⟨wfX, wfR, wfT, List.Nodup.sublist hs (hm.symm.nodup hnd), ?_, Nat.lt_trans h.pos hn⟩
  intro i hi
  have := hm.subset (hs.subset hi)
  rcases List.mem_cons.1 this with rfl | h2
  · exact hn
  · exact Nat.lt_trans (h.lt i h2) hn

section idlemmas
variable {α : Type} (live : α → Bool) (id : α → Nat)

theorem liveIds_filter_sublist (p : α → Bool) (l : List α) : (liveIds live id (l.filter p)).Sublist (liveIds live id l) := by
  unfold liveIds
  exact (List.filter_sublist.filter live).map id

theorem IdWF_filter (p : α → Bool) {l : List α} (h : IdWF live id l) : IdWF live id (l.filter p) :=
  fun x hx => h x (List.mem_filter.1 hx).1

theorem liveIds_append (l1 l2 : List α) : liveIds live id (l1 ++ l2) = liveIds live id l1 ++ liveIds live id l2 := by
  simp [liveIds, List.filter_append]

theorem IdWF_append {l1 l2 : List α} (h1 : IdWF live id l1) (h2 : IdWF live id l2) : IdWF live id (l1 ++ l2) := by
  intro x hx
  rcases List.mem_append.1 hx with h | h
  · exact h1 x h
  · exact h2 x h

theorem mem_liveIds {l : List α} {i : Nat} : i ∈ liveIds live id l ↔ ∃ x ∈ l, live x = true ∧ id x = i := by
  unfold liveIds
  simp only [List.mem_map, List.mem_filter]
  constructor
  · rintro ⟨x, ⟨h1, h2⟩, h3⟩; exact ⟨x, h1, h2, h3⟩
  · rintro ⟨x, h1, h2, h3⟩; exact ⟨x, ⟨h1, h2⟩, h3⟩

end idlemmas

/-! ### `removeDups`, typed half -/

theorem modVersion_beq (x y : ModVersion) : (y == x) = ((y.path, y.version) == (x.path, x.version)) := by
  cases x; cases y
  rw [Bool.eq_iff_iff]; simp

/-- a kill list made of ids of entries of `l0` does not hit the live entries of another list whose live ids are
    disjoint from those of `l0` -/
theorem kill_disjoint {α γ : Type} {live0 : α → Bool} {id0 : α → Nat} {l0 : List α} (hwf0 : IdWF live0 id0 l0)
    {live : γ → Bool} {id : γ → Nat} {l : List γ} (hwf : IdWF live id l)
    (hdis : ∀ a ∈ liveIds live0 id0 l0, ∀ b ∈ liveIds live id l, a ≠ b)
    {K : List Nat} (hK : ∀ i ∈ K, ∃ x ∈ l0, id0 x = i) : ∀ x ∈ l, live x = true → id x ∉ K := by
  intro x hx hl hmem
  rcases hK _ hmem with ⟨y, hy, e⟩
  have hne := (hwf x hx).1 hl
  have hly : live0 y = true := by
    cases h : live0 y with
    | true => rfl
    | false => have := (hwf0 y hy).2 h; omega
  exact hdis (id0 y) ((mem_liveIds live0 id0).2 ⟨y, hy, hly, rfl⟩) (id x) ((mem_liveIds live id).2 ⟨x, hx, hl, rfl⟩) e

theorem removeDups_typed (syn : FileSyntax) (ex : List Exclude) (rp : List Replace) (tl : List Tool)
    (hX : IdWF liveX (·.lineId) ex) (hR : IdWF liveRp (·.lineId) rp) (hT : IdWF liveT (·.lineId) tl)
    (hnd : (liveIds liveX (·.lineId) ex ++ (liveIds liveRp (·.lineId) rp ++ liveIds liveT (·.lineId) tl)).Nodup) :
    ∃ syn' pX pR pT, removeDups syn (some ex) rp (some tl) = (syn', some (ex.filter pX), rp.filter pR, some (tl.filter pT)) ∧
      liveAbs liveX aX (ex.filter pX) = dedupFirst id (liveAbs liveX aX ex) ∧
      liveAbs liveRp aRp (rp.filter pR) = dedupLast (fun r : Repl => (r.oldPath, r.oldVers)) (liveAbs liveRp aRp rp) ∧
      liveAbs liveT aT (tl.filter pT) = dedupFirst id (liveAbs liveT aT tl) := by
  rcases List.nodup_append.1 hnd with ⟨ndX, ndRT, disX⟩
  rcases List.nodup_append.1 ndRT with ⟨ndR, ndT, disRT⟩
  refine ⟨_, _, _, _, rfl, ?_, ?_, ?_⟩
  · rw [dedupFirst_eq_keepFirst]
    have := killLater_abs (fun x : Exclude => x.mod) (·.lineId) liveX aX (id : Bytes × Bytes → Bytes × Bytes)
      (fun x y _ _ => modVersion_beq x.mod y.mod)
      (fun x y hx hy => by
        cases hb : (y.mod == x.mod) with
        | false => rfl
        | true =>
          have : y.mod = x.mod := eq_of_beq hb
          simp [liveX, this] at hy hx; simp [hx] at hy)
      ex [] [] [] hX ndX (fun _ _ _ => by simp) (fun _ _ => rfl)
    simpa using this
  · have hK : ∀ x ∈ rp, liveRp x = true → x.lineId ∉ killLater (fun x : Exclude => x.mod) (·.lineId) ex [] :=
      kill_disjoint hX hR (fun a ha b hb => disX a ha b (List.mem_append_left _ hb))
        (fun i hi => killLater_subset _ _ ex [] i hi)
    exact killEarlier_abs liveRp aRp (fun r : Repl => (r.oldPath, r.oldVers))
      (fun x y _ _ => modVersion_beq x.old y.old)
      (fun x y hx hy => by
        cases hb : (y.old == x.old) with
        | false => rfl
        | true =>
          have : y.old = x.old := eq_of_beq hb
          simp [liveRp, this] at hy hx; simp [hx] at hy)
      rp _ hR ndR hK
  · rw [dedupFirst_eq_keepFirst]
    have hK : ∀ x ∈ tl, liveT x = true → x.lineId ∉
        killLater (fun x : Exclude => x.mod) (·.lineId) ex [] ++ killEarlier rp := by
      intro x hx hl hmem
      rcases List.mem_append.1 hmem with h | h
      · exact kill_disjoint hX hT (fun a ha b hb => disX a ha b (List.mem_append_right _ hb))
          (fun i hi => killLater_subset _ _ ex [] i hi) x hx hl h
      · exact kill_disjoint hR hT (fun a ha b hb => disRT a ha b hb) (fun i hi => killEarlier_subset rp i hi) x hx hl h
    exact killLater_abs (fun t : Tool => t.path) (·.lineId) liveT aT (id : Bytes → Bytes)
      (fun x y _ _ => rfl)
      (fun x y hx hy => by
        cases hb : (y.path == x.path) with
        | false => rfl
        | true =>
          have : y.path = x.path := eq_of_beq hb
          simp [liveT, this] at hy hx; simp [hx] at hy)
      tl _ [] [] hT ndT hK (fun _ _ => rfl)

section loopids
variable {α : Type} (m : α → Bool) (id : α → Nat) (upd : α → α) (cleared : α) (live : α → Bool)

theorem clearAll_ids (hc : live cleared = false) (hc0 : id cleared = 0) (l : List α) :
    ∀ (l' : List α) (dead : List Nat), clearAll m id cleared l = .ok (l', dead) → IdWF live id l →
      IdWF live id l' ∧ (liveIds live id l').Sublist (liveIds live id l) := by
  induction l with
  | nil => intro l' dead h _; simp [clearAll] at h; rcases h with ⟨rfl, _⟩; exact ⟨fun _ h => (by cases h), List.Sublist.refl _⟩
  | cons x xs ih =>
    intro l' dead h hwf
    have hwf' := IdWF_tail id live hwf
    unfold clearAll at h
    by_cases hmx : m x = true
    · simp only [hmx, if_true, bind, Except.bind] at h
      cases hd : deref (id x) with
      | error e => simp [hd] at h
      | ok i =>
        cases hr : clearAll m id cleared xs with
        | error e => simp [hd, hr] at h
        | ok r =>
          rcases r with ⟨rest, dead'⟩
          simp [hd, hr, pure, Except.pure] at h
          rcases h with ⟨rfl, _⟩
          rcases ih rest dead' hr hwf' with ⟨h1, h2⟩
          constructor
          · intro y hy
            rcases List.mem_cons.1 hy with rfl | hy
            · exact ⟨fun h => (by rw [hc] at h; cases h), fun _ => hc0⟩
            · exact h1 y hy
          · rw [liveIds_cons, liveIds_cons]
            simp only [hc, Bool.false_eq_true, if_false]
            split
            · exact List.Sublist.cons _ h2
            · exact h2
    · simp only [hmx, bind, Except.bind] at h
      cases hr : clearAll m id cleared xs with
      | error e => simp [hr] at h
      | ok r =>
        rcases r with ⟨rest, dead'⟩
        simp [hr, pure, Except.pure] at h
        rcases h with ⟨rfl, _⟩
        rcases ih rest dead' hr hwf' with ⟨h1, h2⟩
        constructor
        · intro y hy
          rcases List.mem_cons.1 hy with rfl | hy
          · exact hwf y List.mem_cons_self
          · exact h1 y hy
        · rw [liveIds_cons, liveIds_cons]
          split
          · exact List.Sublist.cons_cons _ h2
          · exact h2

theorem firstRest_ids (hc : live cleared = false) (hc0 : id cleared = 0)
    (hml : ∀ x, m x = true → live x = true) (hlu : ∀ x, m x = true → live (upd x) = true)
    (hid : ∀ x, id (upd x) = id x) (l : List α) :
    ∀ (need : Bool) (l' : List α) (first : Option Nat) (dead : List Nat),
      firstRest m id upd cleared l need = .ok (l', first, dead) → IdWF live id l →
      IdWF live id l' ∧ (liveIds live id l').Sublist (liveIds live id l) := by
  induction l with
  | nil =>
    intro need l' first dead h _; simp [firstRest] at h; rcases h with ⟨rfl, _⟩
    exact ⟨fun _ h => (by cases h), List.Sublist.refl _⟩
  | cons x xs ih =>
    intro need l' first dead h hwf
    have hwf' := IdWF_tail id live hwf
    unfold firstRest at h
    by_cases hmx : m x = true
    · simp only [hmx, if_true, bind, Except.bind] at h
      cases hd : deref (id x) with
      | error e => simp [hd] at h
      | ok i =>
        cases hr : firstRest m id upd cleared xs false with
        | error e => simp [hd, hr] at h
        | ok r =>
          rcases r with ⟨rest, first', dead'⟩
          rcases ih false rest first' dead' hr hwf' with ⟨h1, h2⟩
          have hl := hml x hmx
          cases need with
          | true =>
            simp [hd, hr, pure, Except.pure] at h
            rcases h with ⟨rfl, _, _⟩
            constructor
            · intro y hy
              rcases List.mem_cons.1 hy with rfl | hy
              · have := hwf x List.mem_cons_self
                rw [hid]
                exact ⟨fun _ => this.1 hl, fun h => (by rw [hlu x hmx] at h; cases h)⟩
              · exact h1 y hy
            · rw [liveIds_cons, liveIds_cons]
              simp only [hlu x hmx, hl, if_true, hid]
              exact List.Sublist.cons_cons _ h2
          | false =>
            simp [hd, hr, pure, Except.pure] at h
            rcases h with ⟨rfl, _, _⟩
            constructor
            · intro y hy
              rcases List.mem_cons.1 hy with rfl | hy
              · exact ⟨fun h => (by rw [hc] at h; cases h), fun _ => hc0⟩
              · exact h1 y hy
            · rw [liveIds_cons, liveIds_cons]
              simp only [hc, hl, Bool.false_eq_true, if_false, if_true]
              exact List.Sublist.cons _ h2
    · simp only [hmx, bind, Except.bind] at h
      cases hr : firstRest m id upd cleared xs need with
      | error e => simp [hr] at h
      | ok r =>
        rcases r with ⟨rest, first', dead'⟩
        simp [hr, pure, Except.pure] at h
        rcases h with ⟨rfl, _, _⟩
        rcases ih need rest first' dead' hr hwf' with ⟨h1, h2⟩
        constructor
        · intro y hy
          rcases List.mem_cons.1 hy with rfl | hy
          · exact hwf y List.mem_cons_self
          · exact h1 y hy
        · rw [liveIds_cons, liveIds_cons]
          split
          · exact List.Sublist.cons_cons _ h2
          · exact h2

end loopids

/-! ### SortBlocks / Cleanup on the typed lists -/

theorem sortBlocks_abs (e : EFile) (h : TInv e) :
    absLive (sortBlocks e).f = EditSpec.removeDups (absLive e.f) ∧ TInv (sortBlocks e) := by
  rcases removeDups_typed e.f.syn e.f.exclude e.f.replace e.f.tool h.wfX h.wfR h.wfT h.nodup with
    ⟨syn', pX, pR, pT, heq, h1, h2, h3⟩
  unfold sortBlocks
  rw [heq]
  simp only [Option.getD_some]
  constructor
  · simp only [absLive, EditSpec.removeDups, h1, h2, h3]
  · refine TInv.of_sublist h (IdWF_filter _ _ _ h.wfX) (IdWF_filter _ _ _ h.wfR) (IdWF_filter _ _ _ h.wfT) ?_ (Nat.le_refl _)
    exact (liveIds_filter_sublist _ _ _ _).append ((liveIds_filter_sublist _ _ _ _).append (liveIds_filter_sublist _ _ _ _))

theorem liveAbs_filter_live {α β : Type} (live : α → Bool) (a : α → β) (l : List α) :
    liveAbs live a (l.filter live) = liveAbs live a l := by
  simp [liveAbs, List.filter_filter]

theorem cleanup_abs (e : EFile) (h : TInv e) : absLive (cleanup e).f = absLive e.f ∧ TInv (cleanup e) := by
  constructor
  · simp only [absLive, cleanup]
    congr 1 <;> exact liveAbs_filter_live _ _ _
  · refine TInv.of_sublist h (IdWF_filter _ _ _ h.wfX) (IdWF_filter _ _ _ h.wfR) (IdWF_filter _ _ _ h.wfT) ?_ (Nat.le_refl _)
    exact (liveIds_filter_sublist _ _ _ _).append ((liveIds_filter_sublist _ _ _ _).append (liveIds_filter_sublist _ _ _ _))

end ModVerif.Modfile.Edit
