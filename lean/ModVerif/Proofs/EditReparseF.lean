/-
  EditReparse, part F — readable values along a session, read off the STARTING file and the OPERATION LIST
  (C15 `typed_eq_reparse`, C08 `refines_abs`, re-parse half).

  `AbsOK` (every directive value is one the strict parser accepts and reads back unchanged) is preserved by every step of
  the specification's step table `EditSpec.step` when the arguments of the operation are readable (`ArgsOK`), and it is
  invariant under the observational equivalence `Rel`.  With C08's `sessionMod_refines` (typed lists after Cleanup `Rel` the
  prediction of the step table) this turns the condition `AbsOK o.typed` on the FINAL state into `AbsOK` of the starting
  file plus `ArgsOK` of every operation.
-/
import ModVerif.Proofs.EditReparseE
import ModVerif.Proofs.EditRefineRun
import ModVerif.Proofs.EditRefineValid
import ModVerif.Proofs.EditMoreStartC
import ModVerif.Proofs.EditRefineNoPanic
set_option linter.unusedSimpArgs false
set_option linter.unusedVariables false
namespace ModVerif.Modfile.Edit
open ModVerif ModVerif.Modfile ModVerif.EditSpec

/-! ### `AbsOK`, list by list -/

structure AbsOKF (a : AbsFile) : Prop where
  module : ∀ p, a.module = some p → ItemOK (.module p)
  go : ∀ v, a.go = some v → ItemOK (.go v)
  toolchain : ∀ n, a.toolchain = some n → ItemOK (.toolchain n)
  godebug : ∀ g ∈ a.godebug, ItemOK (.godebug g.1 g.2)
  require : ∀ r ∈ a.require, ItemOK (.require ⟨r.path, r.vers⟩ r.indirect)
  exclude : ∀ x ∈ a.exclude, ItemOK (.exclude ⟨x.1, x.2⟩)
  replace : ∀ r ∈ a.replace, ItemOK (.replace ⟨r.oldPath, r.oldVers⟩ ⟨r.newPath, r.newVers⟩)
  retract : ∀ r ∈ a.retract, ItemOK (.retract ⟨r.lo, r.hi⟩)
  tool : ∀ t ∈ a.tool, ItemOK (.tool t)

theorem absOK_iff (a : AbsFile) : AbsOK a ↔ AbsOKF a := by
  constructor
  · intro h
    refine ⟨?_, ?_, ?_, ?_, ?_, ?_, ?_, ?_, ?_⟩
    · intro p hp; apply h; simp [absItems, hp]
    · intro p hp; apply h; simp [absItems, hp]
    · intro p hp; apply h; simp [absItems, hp]
    · intro g hg; apply h
      simp only [absItems, List.mem_append, List.mem_map]
      exact Or.inr (Or.inr (Or.inr (Or.inl ⟨g, hg, rfl⟩)))
    · intro g hg; apply h
      simp only [absItems, List.mem_append, List.mem_map]
      exact Or.inr (Or.inr (Or.inr (Or.inr (Or.inl ⟨g, hg, rfl⟩))))
    · intro g hg; apply h
      simp only [absItems, List.mem_append, List.mem_map]
      exact Or.inr (Or.inr (Or.inr (Or.inr (Or.inr (Or.inl ⟨g, hg, rfl⟩)))))
    · intro g hg; apply h
      simp only [absItems, List.mem_append, List.mem_map]
      exact Or.inr (Or.inr (Or.inr (Or.inr (Or.inr (Or.inr (Or.inl ⟨g, hg, rfl⟩))))))
    · intro g hg; apply h
      simp only [absItems, List.mem_append, List.mem_map]
      exact Or.inr (Or.inr (Or.inr (Or.inr (Or.inr (Or.inr (Or.inr (Or.inl ⟨g, hg, rfl⟩)))))))
    · intro g hg; apply h
      simp only [absItems, List.mem_append, List.mem_map]
      exact Or.inr (Or.inr (Or.inr (Or.inr (Or.inr (Or.inr (Or.inr (Or.inr ⟨g, hg, rfl⟩)))))))
  · intro h it hit
    simp only [absItems, List.mem_append, List.mem_map, Option.mem_toList, Option.mem_def] at hit
    rcases hit with ⟨x, hx, rfl⟩ | ⟨x, hx, rfl⟩ | ⟨x, hx, rfl⟩ | ⟨x, hx, rfl⟩ | ⟨x, hx, rfl⟩ | ⟨x, hx, rfl⟩ |
      ⟨x, hx, rfl⟩ | ⟨x, hx, rfl⟩ | ⟨x, hx, rfl⟩
    · exact h.module x hx
    · exact h.go x hx
    · exact h.toolchain x hx
    · exact h.godebug x hx
    · exact h.require x hx
    · exact h.exclude x hx
    · exact h.replace x hx
    · exact h.retract x hx
    · exact h.tool x hx

/-! ### membership in the list algebra of the step table -/

section lists
variable {α : Type}

theorem mem_updFirstDropRest (m : α → Bool) (u : α → α) : ∀ (l : List α) (a : α), a ∈ updFirstDropRest m u l →
    a ∈ l ∨ ∃ x ∈ l, m x = true ∧ a = u x := by
  intro l
  induction l with
  | nil => intro a h; simp [updFirstDropRest] at h
  | cons x xs ih =>
    intro a h
    unfold updFirstDropRest at h
    split at h
    · rename_i hm
      rcases List.mem_cons.1 h with rfl | h
      · exact Or.inr ⟨x, by simp, hm, rfl⟩
      · exact Or.inl (List.mem_cons_of_mem _ (List.mem_filter.1 h).1)
    · rcases List.mem_cons.1 h with rfl | h
      · exact Or.inl (by simp)
      · rcases ih a h with h | ⟨y, hy, hmy, rfl⟩
        · exact Or.inl (List.mem_cons_of_mem _ h)
        · exact Or.inr ⟨y, List.mem_cons_of_mem _ hy, hmy, rfl⟩

theorem mem_setKeyed (m : α → Bool) (u : α → α) (new : α) (l : List α) (a : α) (h : a ∈ setKeyed m u new l) :
    a ∈ l ∨ (∃ x ∈ l, m x = true ∧ a = u x) ∨ a = new := by
  unfold setKeyed at h
  split at h
  · rcases mem_updFirstDropRest m u l a h with h | h
    · exact Or.inl h
    · exact Or.inr (Or.inl h)
  · rcases List.mem_append.1 h with h | h
    · exact Or.inl h
    · exact Or.inr (Or.inr (by simpa using h))

theorem mem_dropAll (m : α → Bool) (l : List α) (a : α) (h : a ∈ dropAll m l) : a ∈ l := (List.mem_filter.1 h).1

theorem mem_dedupLast {κ : Type} [BEq κ] (key : α → κ) (l : List α) (a : α) (h : a ∈ dedupLast key l) : a ∈ l :=
  (dedupLast_sublist key l).subset h

theorem mem_dedupFirst {κ : Type} [BEq κ] (key : α → κ) (l : List α) (a : α) (h : a ∈ dedupFirst key l) : a ∈ l := by
  unfold dedupFirst at h
  exact List.mem_reverse.1 (mem_dedupLast key _ a (List.mem_reverse.1 h))

theorem mem_setExact (key : α → Bytes) (want old : List α) (a : α) (h : a ∈ setExact key want old) : a ∈ want := by
  unfold setExact at h
  rcases List.mem_append.1 h with h | h
  · rcases List.mem_filterMap.1 h with ⟨e, _, hf⟩
    exact List.mem_of_find?_eq_some hf
  · exact (List.mem_filter.1 h).1

end lists

/-! ### `Rel` and `removeDups` -/

theorem AbsOKF.removeDups {a : AbsFile} (h : AbsOKF a) : AbsOKF (EditSpec.removeDups a) :=
  ⟨h.module, h.go, h.toolchain, h.godebug, h.require,
   fun x hx => h.exclude x (mem_dedupFirst _ _ _ hx), fun x hx => h.replace x (mem_dedupLast _ _ _ hx), h.retract,
   fun x hx => h.tool x (mem_dedupFirst _ _ _ hx)⟩

theorem AbsOKF.of_rel {a b : AbsFile} (hr : Rel a b) (h : AbsOKF b) : AbsOKF a := by
  refine ⟨?_, ?_, ?_, ?_, ?_, ?_, ?_, ?_, ?_⟩
  · rw [hr.module]; exact h.module
  · rw [hr.go]; exact h.go
  · rw [hr.toolchain]; exact h.toolchain
  · rw [hr.godebug]; exact h.godebug
  · intro r hrm; exact h.require r (hr.require.perm.mem_iff.1 hrm)
  · rw [hr.exclude]; exact h.exclude
  · rw [hr.replace]; exact h.replace
  · intro r hrm
    have : Retr.interval r ∈ b.retract.map Retr.interval := by
      rw [← hr.retract]; exact List.mem_map.2 ⟨r, hrm, rfl⟩
    obtain ⟨r', hr', he⟩ := List.mem_map.1 this
    have := h.retract r' hr'
    simp only [Retr.interval, Prod.mk.injEq] at he
    rw [← he.1, ← he.2]; exact this
  · rw [hr.tool]; exact h.tool

/-! ### the arguments of an operation -/

/-- the values the operation may write are readable -/
def ArgsOK : EditSpec.Op → Prop
  | .addModule p => ItemOK (.module p)
  | .addGo v => ItemOK (.go v)
  | .addToolchain n => ItemOK (.toolchain n)
  | .addGodebug k v => ItemOK (.godebug k v)
  | .addRequire p v => ModOK ⟨p, v⟩
  | .addNewRequire p v _ => ModOK ⟨p, v⟩
  | .setRequire want => ∀ w ∈ want, ModOK ⟨w.path, w.vers⟩
  | .setRequireSeparateIndirect want => ∀ w ∈ want, ModOK ⟨w.path, w.vers⟩
  | .addExclude p v => ModOK ⟨p, v⟩
  | .addReplace a b c d => ItemOK (.replace ⟨a, b⟩ ⟨c, d⟩)
  | .addRetract lo hi _ => ItemOK (.retract ⟨lo, hi⟩)
  | .addTool p => ItemOK (.tool p)
  | _ => True

def argsOKB : EditSpec.Op → Bool
  | .addModule p => itemOKB (.module p)
  | .addGo v => itemOKB (.go v)
  | .addToolchain n => itemOKB (.toolchain n)
  | .addGodebug k v => itemOKB (.godebug k v)
  | .addRequire p v => modOKB ⟨p, v⟩
  | .addNewRequire p v _ => modOKB ⟨p, v⟩
  | .setRequire want => want.all fun w => modOKB ⟨w.path, w.vers⟩
  | .setRequireSeparateIndirect want => want.all fun w => modOKB ⟨w.path, w.vers⟩
  | .addExclude p v => modOKB ⟨p, v⟩
  | .addReplace a b c d => itemOKB (.replace ⟨a, b⟩ ⟨c, d⟩)
  | .addRetract lo hi _ => itemOKB (.retract ⟨lo, hi⟩)
  | .addTool p => itemOKB (.tool p)
  | _ => true

theorem argsOKB_sound {op : EditSpec.Op} (h : argsOKB op = true) : ArgsOK op := by
  cases op <;> simp only [argsOKB, ArgsOK] at h ⊢ <;>
    first
      | trivial
      | exact itemOKB_sound h
      | exact modOKB_sound h
      | (intro w hw; exact modOKB_sound (List.all_eq_true.1 h w hw))

/-- **one step of the step table preserves readable values** -/
theorem AbsOKF.step (V : Validity) {a : AbsFile} (h : AbsOKF a) (op : EditSpec.Op) (ho : ArgsOK op) : AbsOKF (step V a op) := by
  unfold EditSpec.step
  split
  · exact h
  · cases op with
    | addModule p => exact { h with module := fun q hq => by simp only [Option.some.injEq] at hq; subst hq; exact ho }
    | addGo v => exact { h with go := fun q hq => by simp only [Option.some.injEq] at hq; subst hq; exact ho }
    | dropGo => exact { h with go := fun q hq => by cases hq }
    | addToolchain n => exact { h with toolchain := fun q hq => by simp only [Option.some.injEq] at hq; subst hq; exact ho }
    | dropToolchain => exact { h with toolchain := fun q hq => by cases hq }
    | addGodebug k v =>
      refine { h with godebug := ?_ }
      intro g hg
      rcases mem_setKeyed _ _ _ _ g hg with hg | ⟨x, _, _, rfl⟩ | rfl
      · exact h.godebug g hg
      · exact ho
      · exact ho
    | dropGodebug k => exact { h with godebug := fun g hg => h.godebug g (mem_dropAll _ _ _ hg) }
    | addRequire p v =>
      refine { h with require := ?_ }
      intro r hr
      rcases mem_setKeyed _ _ _ _ r hr with hr | ⟨x, _, hm, rfl⟩ | rfl
      · exact h.require r hr
      · have : x.path = p := by simpa using hm
        simp only [this]; exact ho
      · exact ho
    | addNewRequire p v i =>
      refine { h with require := ?_ }
      intro r hr
      rcases List.mem_append.1 hr with hr | hr
      · exact h.require r hr
      · simp only [List.mem_singleton] at hr; subst hr; exact ho
    | dropRequire p => exact { h with require := fun g hg => h.require g (mem_dropAll _ _ _ hg) }
    | setRequire want =>
      exact AbsOKF.removeDups { h with require := fun r hr => ho r (mem_setExact _ _ _ r hr) }
    | setRequireSeparateIndirect want =>
      exact AbsOKF.removeDups { h with require := fun r hr => ho r (mem_setExact _ _ _ r hr) }
    | addExclude p v =>
      dsimp only
      split
      · exact h
      · refine { h with exclude := ?_ }
        intro x hx
        rcases List.mem_append.1 hx with hx | hx
        · exact h.exclude x hx
        · simp only [List.mem_singleton] at hx; subst hx; exact ho
    | dropExclude p v => exact { h with exclude := fun g hg => h.exclude g (mem_dropAll _ _ _ hg) }
    | addReplace a1 b1 c1 d1 =>
      refine { h with replace := ?_ }
      intro r hr
      rcases mem_setKeyed _ _ _ _ r hr with hr | ⟨x, _, _, rfl⟩ | rfl
      · exact h.replace r hr
      · exact ho
      · exact ho
    | dropReplace a1 b1 => exact { h with replace := fun g hg => h.replace g (mem_dropAll _ _ _ hg) }
    | addRetract lo hi why =>
      refine { h with retract := ?_ }
      intro r hr
      rcases List.mem_append.1 hr with hr | hr
      · exact h.retract r hr
      · simp only [List.mem_singleton] at hr; subst hr; exact ho
    | dropRetract lo hi => exact { h with retract := fun g hg => h.retract g (mem_dropAll _ _ _ hg) }
    | addTool p =>
      dsimp only
      split
      · exact h
      · refine AbsOKF.removeDups { h with tool := ?_ }
        intro t ht
        rcases List.mem_append.1 ht with ht | ht
        · exact h.tool t ht
        · simp only [List.mem_singleton] at ht; subst ht; exact ho
    | dropTool p => exact { h with tool := fun g hg => h.tool g (mem_dropAll _ _ _ hg) }
    | sortBlocks => exact AbsOKF.removeDups h
    | cleanup => exact h
    | addUse d m => exact { h with }
    | addNewUse d m => exact { h with }
    | dropUse d => exact { h with }
    | setUse want => exact AbsOKF.removeDups { h with }

theorem AbsOKF.run (V : Validity) : ∀ (ops : List EditSpec.Op) (a : AbsFile), AbsOKF a → (∀ op ∈ ops, ArgsOK op) →
    AbsOKF (run V a ops) := by
  intro ops
  induction ops with
  | nil => intro a h _; exact h
  | cons op ops ih =>
    intro a h ho
    unfold EditSpec.run
    rw [List.foldl_cons]
    exact ih _ (h.step V op (ho op (by simp))) (fun o' ho' => ho o' (by simp [ho']))

/-! ### statically valid sessions have C08-valid arguments -/

theorem validArgs_of_T {op : Op} (h : ValidArgsT op) (hm : IsModOp op) : ValidArgs op := by
  cases op <;> simp only [ValidArgsT, ValidArgs, IsModOp] at h hm ⊢ <;> first | exact h | trivial | exact absurd h (by simp)

theorem StaticValid.validArgs : ∀ (ops : List Op) (c : Bool), StaticValid c ops → (∀ op ∈ ops, IsModOp op) →
    ∀ op ∈ ops, ValidArgs op := by
  intro ops
  induction ops with
  | nil => intro _ _ _ op hop; cases hop
  | cons o ops ih =>
    intro c hs hmod op hop
    rcases List.mem_cons.1 hop with rfl | hop
    · have := hs.1
      have hm := hmod op (by simp)
      cases op <;> first
        | exact this.1
        | exact validArgs_of_T this hm
    · exact ih _ hs.2 (fun o' ho' => hmod o' (by simp [ho'])) op hop

/-! ### the session-level theorem, conditions on the starting file and the operation list -/

/-- **typed_eq_reparse (partial 2), on `sessionMod`.**  As `typed_eq_reparse_session`, with the condition on the values of
    the FINAL typed lists replaced by conditions on the STARTING file (`AbsOK o.start`) and on the arguments (`ArgsOK`). -/
theorem typed_eq_reparse_session2 (file : Bytes) (ops : List Op) (o : Outcome) (f : File)
    (hf : parseStrict (B "go.mod") file none = .ok f) (hk : WellFormedKeys f) (hs : NoBlockSuffix f.syn)
    (hm : MarkersSettable f.syn.stmts) (hstart : AbsOK (absOf f)) (hv : StaticValid false ops)
    (hmod : ∀ op ∈ ops, IsModOp op) (hargs : ∀ op ∈ ops, ArgsOK op.toSpec)
    (h : sessionMod file ops = some o) (htree : finalTreeB o.tree = true) :
    ∃ r, o.reparsed = some r ∧ AbsPerm r o.typed ∧ Rel o.typed (run stdValidity o.start (ops.map Op.toSpec)) := by
  obtain ⟨h1, h2, _⟩ := sessionMod_refines file ops o f hf (parseStrict_startOK hf hk) (StaticValid.validArgs ops false hv hmod) h
  rw [mV_eq_std] at h2
  have hrun : AbsOKF (run stdValidity o.start (ops.map Op.toSpec)) := by
    apply AbsOKF.run
    · rw [h1]; exact (absOK_iff _).1 hstart
    · intro op hop
      obtain ⟨op', hop', rfl⟩ := List.mem_map.1 hop
      exact hargs op' hop'
  have hok : AbsOK o.typed := (absOK_iff _).2 (AbsOKF.of_rel h2 hrun)
  obtain ⟨r, hr, hp⟩ := typed_eq_reparse_session file ops o f hf hk hs hm hv h hok htree
  exact ⟨r, hr, hp, h2⟩

/-- `Rel` implies `AbsPerm` (requirements per path ⇒ as multisets) -/
theorem absPerm_of_rel {a b : AbsFile} (h : Rel a b) : AbsPerm a b :=
  ⟨h.module, h.go, h.toolchain, .of_eq h.godebug, h.require.perm, .of_eq h.exclude, .of_eq h.replace, .of_eq h.retract,
   .of_eq h.tool⟩

end ModVerif.Modfile.Edit
