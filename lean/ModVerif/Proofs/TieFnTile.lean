/-
  Tie proofs for sumdb/tlog/tile.go, part 1: the representation maps between the generated `Tile` (Int fields,
  `L = -1` for data tiles) and the model `Tile` (Nat fields and a `data` flag), `tileParent`, `tileForIndex`.
  The tie theorems themselves are in `Tie/FnTile.lean`.
-/
import ModVerif.Generated.FnTile
import ModVerif.Model.Tile
import ModVerif.Proofs.GoRtLemmasTile
import ModVerif.Proofs.TieFnTlogInt
import ModVerif.Proofs.TileAuthArith
import ModVerif.Proofs.TileAuthTile
namespace ModVerif.TieFnTile
open ModVerif ModVerif.GoRt ModVerif.GoRtTile

abbrev GTile := Generated.Tile.Tile

/-- the model tile as a tile of the generated code (`data` tiles have `L = -1`) -/
def toGen (t : Tile.Tile) : GTile :=
  { H := (t.h : Int), L := if t.data then -1 else (t.l : Int), N := (t.n : Int), W := (t.w : Int) }

/-- a tile of the generated code as a model tile (`L = -1` is the data flag, then `l = 0`) -/
def ofGen (t : GTile) : Tile.Tile :=
  if t.L = -1 then { h := t.H.toNat, l := 0, n := t.N.toNat, w := t.W.toNat, data := true }
  else { h := t.H.toNat, l := t.L.toNat, n := t.N.toNat, w := t.W.toNat }

theorem toGen_zero : toGen Tile.Tile.zero = (default : GTile) := rfl

theorem ofGen_toGen (t : Tile.Tile) (hd : t.data = true → t.l = 0) : ofGen (toGen t) = t := by
  obtain ⟨h, l, n, w, d⟩ := t
  cases d
  · have : ¬ ((l : Int) = -1) := by omega
    simp [toGen, ofGen, this]
  · simp only [forall_const] at hd
    subst hd
    simp [toGen, ofGen]

/-- a generated tile with non-negative fields (and `L ≥ -1`) is the image of its model tile -/
theorem toGen_ofGen (t : GTile) (hH : 0 ≤ t.H) (hL : -1 ≤ t.L) (hN : 0 ≤ t.N) (hW : 0 ≤ t.W) : toGen (ofGen t) = t := by
  obtain ⟨H, L, N, W⟩ := t
  simp only at hH hL hN hW
  by_cases h : L = -1
  · subst h
    simp [toGen, ofGen]
    omega
  · have : 0 ≤ L := by omega
    simp [toGen, ofGen, h]
    omega

/-- on ordinary (non-data) tiles the representation is injective -/
theorem toGen_inj (t u : Tile.Tile) (ht : t.data = false) (hu : u.data = false) (h : toGen t = toGen u) : t = u := by
  obtain ⟨a, b, c, d, e⟩ := t
  obtain ⟨a', b', c', d', e'⟩ := u
  simp only at ht hu
  subst ht hu
  simp only [toGen, Bool.false_eq_true, ↓reduceIte, Generated.Tile.Tile.mk.injEq] at h
  obtain ⟨h1, h2, h3, h4⟩ := h
  simp only [Tile.Tile.mk.injEq, and_true]
  omega

/-! ### tileParent -/

/-- `tileParent`, natural-number form.  The range hypotheses say exactly that no int64 intermediate overflows:
    `t.L + k`, `k * t.H`, `t.L * t.H` (new `L`), `t.N<<H + W` (new `N`, full width) and `n` are int64 values. -/
theorem tileParent_eq (t : Tile.Tile) (k n : Nat) (hd : t.data = false)
    (h1 : t.l + k < 2 ^ 63) (h2 : k * t.h < 2 ^ 63) (h3 : (t.l + k) * t.h < 2 ^ 63)
    (h4 : (t.n >>> (k * t.h) + 1) * 2 ^ t.h < 2 ^ 63) (hn : n < 2 ^ 63) :
    Generated.Tile.tileParent (toGen t) (k : Int) (n : Int) = .ok (toGen (Tile.tileParent t k n)) := by
  obtain ⟨th, tl, tn, tw, td⟩ := t
  simp only at hd h1 h2 h3 h4
  subst hd
  have e2 : (k : Int) * (th : Int) = ((k * th : Nat) : Int) := by simp
  have e3 : ((tl + k : Nat) : Int) * (th : Int) = (((tl + k) * th : Nat) : Int) := by simp
  unfold Tile.tileParent
  simp only [Nat.shiftLeft_eq]
  rw [Nat.add_mul, Nat.one_mul] at h4
  have hM63 : n >>> ((tl + k) * th) < 2 ^ 63 := by
    rw [Nat.shiftRight_eq_div_pow]
    exact Nat.lt_of_le_of_lt (Nat.div_le_self _ _) hn
  generalize hKH : k * th = KH at h2 e2 h4
  generalize hLH : (tl + k) * th = LH at h3 e3 hM63
  generalize hA : tn >>> KH = A at h4
  generalize hM : n >>> LH = M at hM63
  have hth : th < 63 := by
    apply Nat.lt_of_not_le; intro hc
    have : 2 ^ 63 ≤ 2 ^ th := Nat.pow_le_pow_right (by omega) hc
    have : 0 ≤ A * 2 ^ th := Nat.zero_le _
    omega
  have e4 : ∀ a b : Nat, (a : Int) + (b : Int) = ((a + b : Nat) : Int) := by intro a b; omega
  generalize hP : 2 ^ th = P at h4
  generalize hAP : A * P = AP at h4
  simp only [Generated.Tile.tileParent, toGen, Bool.false_eq_true, ↓reduceIte, e4, chk64_natCast h1, mbind_ok, e2,
    chk64_natCast h2, toU64_natCast (show KH < 2 ^ 64 by omega), shr_natCast, hA, hM,
    toU64_natCast (show th < 2 ^ 64 by omega), shl_one_natCast, hP, chk64_natCast (show P < 2 ^ 63 by omega), e3, chk64_natCast h3,
    toU64_natCast (show LH < 2 ^ 64 by omega), shl_natCast, hAP, chk64_natCast (show AP < 2 ^ 63 by omega),
    chk64_natCast (show AP + P < 2 ^ 63 by omega)]
  by_cases c1 : AP + P ≥ M
  · have c1' : (((AP + P : Nat) : Int) ≥ (M : Int)) := by omega
    by_cases c2 : AP ≥ M
    · have c2' : (((AP : Nat) : Int) ≥ (M : Int)) := by omega
      simp only [c1, c1', c2, c2', decide_true, ↓reduceIte, mpure, Tile.Tile.zero]
      rfl
    · have c2' : ¬ (((AP : Nat) : Int) ≥ (M : Int)) := by omega
      have e5 : (M : Int) - ((AP : Nat) : Int) = ((M - AP : Nat) : Int) := by omega
      simp only [c1, c1', c2, c2', decide_true, decide_false, Bool.false_eq_true, ↓reduceIte, e5,
        chk64_natCast (show M - AP < 2 ^ 63 by omega), mbind_ok, mpure]
  · have c1' : ¬ (((AP + P : Nat) : Int) ≥ (M : Int)) := by omega
    simp only [c1, c1', decide_false, Bool.false_eq_true, ↓reduceIte, mpure]

/-! ### tileForIndex -/

/-- the coordinates of a position `x` describe a subtree that ends at or before record `x + 1` -/
theorem split_bound (x l k : Nat) (hx : x < 2 ^ 63) (hs : Tlog.splitStoredHashIndex x = .ok (l, k)) :
    (k + 1) * 2 ^ l ≤ x + 1 := by
  have h1 := TlogStore.storedHashIndex_split x l k hx hs
  rw [Tlog.storedHashIndex_eq] at h1
  have h2 := TlogStore.le_S ((k + 1) * 2 ^ l - 1)
  omega

/-- the model's answer in the result type of the generated `tileForIndex` (byte offsets = hash offsets × HashSize);
    a model error (only `h = 0`: division by zero) is a panic -/
def tfiOut : Except Tlog.Err (Tile.Tile × Nat × Nat) → M (GTile × Int × Int)
  | .ok (t, s, e) => .ok (toGen t, ((32 * s : Nat) : Int), ((32 * e : Nat) : Int))
  | .error _ => .error .panic

/-- `tileForIndex(h, x)` for `h ≥ 0`, `0 ≤ x ≤ MaxInt64 - 1`, and `h ≤ 57` or `x < 2^57` (otherwise the byte offsets
    `… * HashSize` overflow int64: they are at most `2^h * 32` and at most `(x + 1) * 32`). -/
theorem tileForIndex_eq (fuel h x : Nat) (hx : x + 1 < 2 ^ 63) (hh : h < 2 ^ 63) (hr : h ≤ 57 ∨ x < 2 ^ 57) (hf : 64 ≤ fuel) :
    Generated.Tile.tileForIndex fuel (h : Int) (x : Int) = tfiOut (Tile.tileForIndex h x) := by
  obtain ⟨lv, k, hs⟩ := TlogStore.split_total x (by omega)
  have hb := split_bound x lv k (by omega) hs
  have hsplit := TieFnTlogInt.SplitStoredHashIndex_eq fuel x hx hf
  rw [hs] at hsplit
  simp only [TieFnTlogInt.splitOut] at hsplit
  by_cases h0 : h = 0
  · subst h0
    simp only [Generated.Tile.tileForIndex, hsplit, mbind_ok, Int.natCast_zero, quo_zero, mbind_error]
    simp [Tile.tileForIndex, tfiOut]
  · have hpos : 0 < h := by omega
    have hcl := TileAuth.tileForIndex_eq h x lv k hpos hs
    have hmod : Tile.tileForIndex h x = .ok
        ({ h := h, l := lv / h, n := (k <<< (lv - lv / h * h)) >>> h,
           w := (k - (((k <<< (lv - lv / h * h)) >>> h) <<< h) >>> (lv - lv / h * h) + 1) <<< (lv - lv / h * h) },
          (k - (((k <<< (lv - lv / h * h)) >>> h) <<< h) >>> (lv - lv / h * h)) <<< (lv - lv / h * h),
          (k - (((k <<< (lv - lv / h * h)) >>> h) <<< h) >>> (lv - lv / h * h) + 1) <<< (lv - lv / h * h)) := by
      unfold Tile.tileForIndex
      have hne : (h == 0) = false := by simp; omega
      simp only [hne, Bool.false_eq_true, ↓reduceIte, hs, bind, Except.bind, pure, Except.pure]
    rw [hmod] at hcl
    simp only [Except.ok.injEq, Prod.mk.injEq, Tile.Tile.mk.injEq, true_and, and_true] at hcl
    obtain ⟨⟨hNeq, hWeq⟩, hSeq, _⟩ := hcl
    rw [hmod]
    clear hmod
    simp only [tfiOut, toGen, Bool.false_eq_true, ↓reduceIte, Nat.shiftLeft_eq] at hNeq hWeq hSeq ⊢
    -- bounds
    have hts := TileAuth.ts_le h lv k hpos
    simp only [TileAuth.ts] at hts
    have hrlv : lv - lv / h * h ≤ lv := Nat.sub_le _ _
    have hmodr : lv - lv / h * h = lv % h := by
      have := Nat.div_add_mod lv h
      rw [Nat.mul_comm] at this
      omega
    have hLh : lv / h * h ≤ lv := by rw [Nat.mul_comm]; exact Nat.mul_div_le lv h
    have hk2 : k * 2 ^ lv < 2 ^ 63 := by
      rw [Nat.add_mul] at hb; omega
    have hlv63 : lv < 63 := by
      apply Nat.lt_of_not_le; intro hc
      have : 2 ^ 63 ≤ 2 ^ lv := Nat.pow_le_pow_right (by omega) hc
      have : 1 * 2 ^ lv ≤ (k + 1) * 2 ^ lv := Nat.mul_le_mul_right _ (by omega)
      omega
    generalize hR : lv - lv / h * h = r at *
    have hpr : 2 ^ r ≤ 2 ^ lv := Nat.pow_le_pow_right (by omega) hrlv
    have hkr : k * 2 ^ r ≤ k * 2 ^ lv := Nat.mul_le_mul_left _ hpr
    have hk1r : (k + 1) * 2 ^ r ≤ (k + 1) * 2 ^ lv := Nat.mul_le_mul_left _ hpr
    generalize hA : k * 2 ^ r = A at *
    generalize hNN : A >>> h = NN at *
    have hNNle : NN * 2 ^ h ≤ A := by
      rw [← hNN, Nat.shiftRight_eq_div_pow]; exact Nat.div_mul_le_self _ _
    generalize hB : NN * 2 ^ h = B at *
    have hCle : B >>> r ≤ k := by
      rw [Nat.shiftRight_eq_div_pow]
      have : B / 2 ^ r ≤ A / 2 ^ r := Nat.div_le_div_right hNNle
      rw [← hA, Nat.mul_div_cancel _ (Nat.two_pow_pos r)] at this
      exact this
    generalize hC : B >>> r = C at *
    have hWle : (k - C + 1) * 2 ^ r ≤ (k + 1) * 2 ^ r := Nat.mul_le_mul_right _ (by omega)
    have hSle : (k - C) * 2 ^ r ≤ (k - C + 1) * 2 ^ r := Nat.mul_le_mul_right _ (by omega)
    generalize hW : (k - C + 1) * 2 ^ r = W at *
    generalize hS : (k - C) * 2 ^ r = S at *
    have hW32 : 32 * W < 2 ^ 63 := by
      rcases hr with hr | hr
      · have : 2 ^ h ≤ 2 ^ 57 := Nat.pow_le_pow_right (by omega) hr
        rw [hWeq, Nat.add_mul, Nat.one_mul]
        omega
      · omega
    have hk63 : k + 1 < 2 ^ 63 := by
      have := Nat.le_mul_of_pos_right (k + 1) (Nat.two_pow_pos lv); omega
    have e1 : ((lv / h : Nat) : Int) * (h : Int) = ((lv / h * h : Nat) : Int) := by simp
    have e2 : (lv : Int) - ((lv / h * h : Nat) : Int) = ((lv - lv / h * h : Nat) : Int) := by omega
    have e3 : (k : Int) - (C : Int) = ((k - C : Nat) : Int) := by omega
    have e4 : ((k - C : Nat) : Int) + 1 = ((k - C + 1 : Nat) : Int) := by omega
    have e5 : (W : Int) * 32 = ((32 * W : Nat) : Int) := by omega
    have e6 : (S : Int) * 32 = ((32 * S : Nat) : Int) := by omega
    simp only [Generated.Tile.tileForIndex, hsplit, mbind_ok, quo_natCast lv h h0, e1,
      chk64_natCast (show lv / h * h < 2 ^ 63 by omega), e2, hR, chk64_natCast (show r < 2 ^ 63 by omega),
      toU64_natCast (show r < 2 ^ 64 by omega), shl_natCast, hA, chk64_natCast (show A < 2 ^ 63 by omega),
      toU64_natCast (show h < 2 ^ 64 by omega), shr_natCast, hNN, hB, chk64_natCast (show B < 2 ^ 63 by omega), hC, e3,
      chk64_natCast (show k - C < 2 ^ 63 by omega), e4, chk64_natCast (show k - C + 1 < 2 ^ 63 by omega), hW,
      chk64_natCast (show W < 2 ^ 63 by omega), hS, chk64_natCast (show S < 2 ^ 63 by omega), e5, e6,
      chk64_natCast hW32, chk64_natCast (show 32 * S < 2 ^ 63 by omega), mpure]

end ModVerif.TieFnTile
