/-
  Tie proofs for sumdb/tlog/tile.go, part 1: the representation maps between the generated `Tile` (Int fields,
  `L = -1` for data tiles) and the model `Tile` (Nat fields and a `data` flag), `tileParent`, `tileForIndex`.
  The tie theorems themselves are in `Tie/FnTile.lean`.
-/
import ModVerif.Generated.FnTile
import ModVerif.Model.Tile
import ModVerif.Proofs.GoRtLemmasTile
import ModVerif.Proofs.TieFnTlogInt
import ModVerif.Proofs.TileAuthArith
namespace ModVerif.TieFnTile
open ModVerif ModVerif.GoRt ModVerif.GoRtTile

abbrev GTile := Generated.Tile.Tile

/-- the model tile as a tile of the generated code (`data` tiles have `L = -1`) -/
def toGen (t : Tile.Tile) : GTile :=
  { H := (t.h : Int), L := if t.data then -1 else (t.l : Int), N := (t.n : Int), W := (t.w : Int) }

/-- a tile of the generated code as a model tile (`L = -1` is the data flag, then `l = 0`) -/
def ofGen (t : GTile) : Tile.Tile :=
  if t.L = -1 then { h := t.H.toNat, l := 0, n := t.N.toNat, w := t.W.toNat, data := true }
  else { h := t.H.toNat, l := t.L.toNat, n := t.N.toNat, w := t.W.toNat }

theorem toGen_zero : toGen Tile.Tile.zero = (default : GTile) := rfl

theorem ofGen_toGen (t : Tile.Tile) (hd : t.data = true → t.l = 0) : ofGen (toGen t) = t := by
  obtain ⟨h, l, n, w, d⟩ := t
  cases d
  · have : ¬ ((l : Int) = -1) := by omega
    simp [toGen, ofGen, this]
  · simp only [forall_const] at hd
    subst hd
    simp [toGen, ofGen]

/-- a generated tile with non-negative fields (and `L ≥ -1`) is the image of its model tile -/
theorem toGen_ofGen (t : GTile) (hH : 0 ≤ t.H) (hL : -1 ≤ t.L) (hN : 0 ≤ t.N) (hW : 0 ≤ t.W) : toGen (ofGen t) = t := by
  obtain ⟨H, L, N, W⟩ := t
  simp only at hH hL hN hW
  by_cases h : L = -1
  · subst h
    simp [toGen, ofGen]
    omega
  · have : 0 ≤ L := by omega
    simp [toGen, ofGen, h]
    omega

/-- on ordinary (non-data) tiles the representation is injective -/
theorem toGen_inj (t u : Tile.Tile) (ht : t.data = false) (hu : u.data = false) (h : toGen t = toGen u) : t = u := by
  obtain ⟨a, b, c, d, e⟩ := t
  obtain ⟨a', b', c', d', e'⟩ := u
  simp only at ht hu
  subst ht hu
  simp only [toGen, Bool.false_eq_true, ↓reduceIte, Generated.Tile.Tile.mk.injEq] at h
  obtain ⟨h1, h2, h3, h4⟩ := h
  simp only [Tile.Tile.mk.injEq, and_true]
  omega

/-! ### tileParent -/

/-- `tileParent`, natural-number form.  The range hypotheses say exactly that no int64 intermediate overflows:
    `t.L + k`, `k * t.H`, `t.L * t.H` (new `L`), `t.N<<H + W` (new `N`, full width) and `n` are int64 values. -/
theorem tileParent_eq (t : Tile.Tile) (k n : Nat) (hd : t.data = false)
    (h1 : t.l + k < 2 ^ 63) (h2 : k * t.h < 2 ^ 63) (h3 : (t.l + k) * t.h < 2 ^ 63)
    (h4 : (t.n >>> (k * t.h) + 1) * 2 ^ t.h < 2 ^ 63) (hn : n < 2 ^ 63) :
    Generated.Tile.tileParent (toGen t) (k : Int) (n : Int) = .ok (toGen (Tile.tileParent t k n)) := by
  obtain ⟨th, tl, tn, tw, td⟩ := t
  simp only at hd h1 h2 h3 h4
  subst hd
  have e2 : (k : Int) * (th : Int) = ((k * th : Nat) : Int) := by simp
  have e3 : ((tl + k : Nat) : Int) * (th : Int) = (((tl + k) * th : Nat) : Int) := by simp
  unfold Tile.tileParent
  simp only [Nat.shiftLeft_eq]
  rw [Nat.add_mul, Nat.one_mul] at h4
  have hM63 : n >>> ((tl + k) * th) < 2 ^ 63 := by
    rw [Nat.shiftRight_eq_div_pow]
    exact Nat.lt_of_le_of_lt (Nat.div_le_self _ _) hn
  generalize hKH : k * th = KH at h2 e2 h4
  generalize hLH : (tl + k) * th = LH at h3 e3 hM63
  generalize hA : tn >>> KH = A at h4
  generalize hM : n >>> LH = M at hM63
  have hth : th < 63 := by
    apply Nat.lt_of_not_le; intro hc
    have : 2 ^ 63 ≤ 2 ^ th := Nat.pow_le_pow_right (by omega) hc
    have : 0 ≤ A * 2 ^ th := Nat.zero_le _
    omega
  have e4 : ∀ a b : Nat, (a : Int) + (b : Int) = ((a + b : Nat) : Int) := by intro a b; omega
  generalize hP : 2 ^ th = P at h4
  generalize hAP : A * P = AP at h4
  simp only [Generated.Tile.tileParent, toGen, Bool.false_eq_true, ↓reduceIte, e4, chk64_natCast h1, mbind_ok, e2,
    chk64_natCast h2, toU64_natCast (show KH < 2 ^ 64 by omega), shr_natCast, hA, hM,
    toU64_natCast (show th < 2 ^ 64 by omega), shl_one_natCast, hP, chk64_natCast (show P < 2 ^ 63 by omega), e3, chk64_natCast h3,
    toU64_natCast (show LH < 2 ^ 64 by omega), shl_natCast, hAP, chk64_natCast (show AP < 2 ^ 63 by omega),
    chk64_natCast (show AP + P < 2 ^ 63 by omega)]
  by_cases c1 : AP + P ≥ M
  · have c1' : (((AP + P : Nat) : Int) ≥ (M : Int)) := by omega
    by_cases c2 : AP ≥ M
    · have c2' : (((AP : Nat) : Int) ≥ (M : Int)) := by omega
      simp only [c1, c1', c2, c2', decide_true, ↓reduceIte, mpure, Tile.Tile.zero]
      rfl
    · have c2' : ¬ (((AP : Nat) : Int) ≥ (M : Int)) := by omega
      have e5 : (M : Int) - ((AP : Nat) : Int) = ((M - AP : Nat) : Int) := by omega
      simp only [c1, c1', c2, c2', decide_true, decide_false, Bool.false_eq_true, ↓reduceIte, e5,
        chk64_natCast (show M - AP < 2 ^ 63 by omega), mbind_ok, mpure]
  · have c1' : ¬ (((AP + P : Nat) : Int) ≥ (M : Int)) := by omega
    simp only [c1, c1', decide_false, Bool.false_eq_true, ↓reduceIte, mpure]

end ModVerif.TieFnTile
