/-
  EditRefine, part 20 — go.work: the tree invariant, every operation preserves it (SetUse included), no panic.
-/
import ModVerif.Proofs.EditRefineInvCheck
set_option linter.unusedSimpArgs false
namespace ModVerif.Modfile.Edit
open ModVerif ModVerif.Modfile

def entriesW (f : WorkFile) : List Ent :=
  f.go.toList.map entGo ++ (f.toolchain.toList.map entTc ++ (entsOf liveG entG f.godebug ++
    (entsOf liveU entU f.use ++ entsOf liveRp entRp f.replace)))

structure InvW (e : EWork) : Prop where
  tree : TreeWF e.f.syn.stmts e.next
  mtch : Match (entriesW e.f) (view e.f.syn.stmts)
  winv : WInv e

theorem entriesW_acc2 (f : WorkFile) : ∀ en ∈ entriesW f, ∀ t s, en.acc t s → 2 ≤ t.length := by
  intro en hen t s ha
  simp only [entriesW, List.mem_append, List.mem_map, Option.mem_toList, entsOf, List.mem_filter] at hen
  rcases hen with ⟨x, _, rfl⟩ | ⟨x, _, rfl⟩ | ⟨x, _, rfl⟩ | ⟨x, _, rfl⟩ | ⟨x, _, rfl⟩
  · simp only [entGo] at ha; rw [ha]; simp
  · simp only [entTc] at ha; rw [ha]; simp
  · simp only [entG] at ha; rw [ha]; simp
  · simp only [entU] at ha; rw [ha]; simp
  · simp only [entRp, replaceToks] at ha; rw [ha]; simp

theorem InvW.view2 {e : EWork} (h : InvW e) : View2 e.f.syn.stmts := by
  intro v hv
  rcases h.mtch.surj v hv with ⟨en, hen, hid⟩
  rcases h.mtch.cover en hen with ⟨v', hv', hid', hacc⟩
  have : v' = v := view_unique h.tree.nodup hv' hv (hid'.trans hid)
  subst this
  exact entriesW_acc2 e.f en hen _ _ hacc

theorem InvW.fresh {e : EWork} (h : InvW e) : ∀ en ∈ entriesW e.f, en.id ≠ e.next := by
  intro en hen
  exact Nat.ne_of_lt (h.mtch.ids_lt h.tree en hen)

/-! ### segments -/

def wC_go (f : WorkFile) : List Ent :=
  f.toolchain.toList.map entTc ++ (entsOf liveG entG f.godebug ++ (entsOf liveU entU f.use ++ entsOf liveRp entRp f.replace))
theorem entriesW_go (f : WorkFile) : entriesW f = [] ++ (entsOf (fun _ => true) entGo f.go.toList ++ wC_go f) := by
  simp [entriesW, wC_go, entsOf_true]

def wA_tc (f : WorkFile) : List Ent := f.go.toList.map entGo
def wC_tc (f : WorkFile) : List Ent := entsOf liveG entG f.godebug ++ (entsOf liveU entU f.use ++ entsOf liveRp entRp f.replace)
theorem entriesW_tc (f : WorkFile) : entriesW f = wA_tc f ++ (entsOf (fun _ => true) entTc f.toolchain.toList ++ wC_tc f) := by
  simp [entriesW, wA_tc, wC_tc, entsOf_true]

def wA_gd (f : WorkFile) : List Ent := f.go.toList.map entGo ++ f.toolchain.toList.map entTc
def wC_gd (f : WorkFile) : List Ent := entsOf liveU entU f.use ++ entsOf liveRp entRp f.replace
theorem entriesW_gd (f : WorkFile) : entriesW f = wA_gd f ++ (entsOf liveG entG f.godebug ++ wC_gd f) := by
  simp [entriesW, wA_gd, wC_gd, List.append_assoc]

def wA_use (f : WorkFile) : List Ent := wA_gd f ++ entsOf liveG entG f.godebug
def wC_use (f : WorkFile) : List Ent := entsOf liveRp entRp f.replace
theorem entriesW_use (f : WorkFile) : entriesW f = wA_use f ++ (entsOf liveU entU f.use ++ wC_use f) := by
  simp [entriesW, wA_use, wA_gd, wC_use, List.append_assoc]

def wA_rp (f : WorkFile) : List Ent := wA_use f ++ entsOf liveU entU f.use
theorem entriesW_rp (f : WorkFile) : entriesW f = wA_rp f ++ (entsOf liveRp entRp f.replace ++ []) := by
  simp [entriesW, wA_rp, wA_use, wA_gd, List.append_assoc]

/-! ### insertAt (go.work places `go` / `toolchain` by index) -/

theorem insertAt_spec (stmts : List Expr) (i new : Nat) (tokens : List Bytes) (htok : tokens ≠ []) (hs : ShapeWF stmts) :
    (view (insertAt stmts i (Expr.line (mkLine new tokens false)))).Perm (view stmts ++ [vnew new tokens]) ∧
    (treeIds (insertAt stmts i (Expr.line (mkLine new tokens false)))).Perm (treeIds stmts ++ [new]) ∧
    ShapeWF (insertAt stmts i (Expr.line (mkLine new tokens false))) := by
  unfold insertAt
  have hsplit : stmts = stmts.take i ++ stmts.drop i := (List.take_append_drop i stmts).symm
  have hs1 : ShapeWF (stmts.take i) := hs.of_subset (fun x hx => List.mem_of_mem_take hx)
  have hs2 : ShapeWF (stmts.drop i) := hs.of_subset (fun x hx => List.mem_of_mem_drop hx)
  refine ⟨?_, ?_, hs1.append (ShapeWF.cons (ShapeWF.newLine _ _) hs2)⟩
  · rw [view_append, view_cons, view_newLine _ _ htok]
    conv => rhs; rw [hsplit, view_append]
    rw [List.append_assoc]
    exact List.Perm.append_left _ (List.perm_append_comm (l₁ := [_]))
  · rw [treeIds_append, treeIds_cons, treeIds_newLine]
    conv => rhs; rw [hsplit, treeIds_append]
    rw [List.append_assoc]
    exact List.Perm.append_left _ (List.perm_append_comm (l₁ := [_]))

/-! ### scalars -/

theorem workAddGoStmt_inv (e e' : EWork) (v : Bytes) (hi : InvW e) (h : workAddGoStmt e v = .ok e') : InvW e' := by
  have ht := ((workAddGoStmt_abs e v hi.winv).1 e' h).2.2
  have hm0 := hi.mtch
  rw [entriesW_go] at hm0
  unfold workAddGoStmt at h
  split at h
  · cases h
  · cases hg : e.f.go with
    | none =>
      simp only [hg, Except.ok.injEq] at h
      subst h
      rw [hg] at hm0
      rcases insertAt_spec e.f.syn.stmts (firstNonComment e.f.syn.stmts 0) e.next [B "go", v] (by simp) hi.tree.shape with ⟨p1, p2, p3⟩
      refine ⟨hi.tree.of_added hi.winv.pos p2 p3, ?_, ht⟩
      have := Match.appendSeg (·.lineId) (fun _ => true) entGo (fun _ => rfl) (L := [])
        (x := ({ version := v, lineId := e.next } : Go)) rfl [B "go", v] [] rfl hm0
        (by have := hi.fresh; rw [entriesW_go, hg] at this; exact this) p1
      rw [entriesW_go]; exact this
    | some g =>
      simp only [hg, Except.ok.injEq] at h
      subst h
      rw [hg] at hm0
      refine ⟨hi.tree.updateTokens _ _, ?_, ht⟩
      have := Match.updOne (en := entGo g) (en' := entGo { g with version := v }) hi.tree hm0 rfl
        (B "go") v [] (fun t0 s ha => by simp only [entGo] at ha ⊢; exact ⟨by rw [ha]; rfl, trivial⟩)
      rw [entriesW_go]; exact this

theorem workAddToolchainStmt_inv (e e' : EWork) (n : Bytes) (hi : InvW e) (h : workAddToolchainStmt e n = .ok e') : InvW e' := by
  have ht := ((workAddToolchainStmt_abs e n hi.winv).1 e' h).2.2
  have hm0 := hi.mtch
  rw [entriesW_tc] at hm0
  unfold workAddToolchainStmt at h
  split at h
  · cases h
  · cases hg : e.f.toolchain with
    | none =>
      simp only [hg, Except.ok.injEq] at h
      subst h
      rw [hg] at hm0
      rcases insertAt_spec e.f.syn.stmts (match afterGoLine e.f.syn.stmts 0 with
          | some i => i
          | none => firstNonComment e.f.syn.stmts 0) e.next [B "toolchain", n] (by simp) hi.tree.shape with ⟨p1, p2, p3⟩
      refine ⟨hi.tree.of_added hi.winv.pos p2 p3, ?_, ht⟩
      have := Match.appendSeg (·.lineId) (fun _ => true) entTc (fun _ => rfl) (L := [])
        (x := ({ name := n, lineId := e.next } : Toolchain)) rfl [B "toolchain", n] [] rfl hm0
        (by have := hi.fresh; rw [entriesW_tc, hg] at this; exact this) p1
      rw [entriesW_tc]; exact this
    | some g =>
      simp only [hg, Except.ok.injEq] at h
      subst h
      rw [hg] at hm0
      refine ⟨hi.tree.updateTokens _ _, ?_, ht⟩
      have := Match.updOne (en := entTc g) (en' := entTc { g with name := n }) hi.tree hm0 rfl
        (B "toolchain") n [] (fun t0 s ha => by simp only [entTc] at ha ⊢; exact ⟨by rw [ha]; rfl, trivial⟩)
      rw [entriesW_tc]; exact this

theorem workDropGoStmt_inv (e : EWork) (hi : InvW e) : InvW (workDropGoStmt e) := by
  have ht := (workDropGoStmt_abs e hi.winv).2
  have hm0 := hi.mtch
  rw [entriesW_go] at hm0
  unfold workDropGoStmt at ht ⊢
  cases hg : e.f.go with
  | none => simp only [hg]; exact hi
  | some g =>
    simp only [hg] at ht ⊢
    rw [hg] at hm0
    refine ⟨hi.tree.markRemoved _, ?_, ht⟩
    have := Match.dropOne (en := entGo g) hi.tree hm0
    rw [entriesW_go]; exact this

theorem workDropToolchainStmt_inv (e : EWork) (hi : InvW e) : InvW (workDropToolchainStmt e) := by
  have ht := (workDropToolchainStmt_abs e hi.winv).2
  have hm0 := hi.mtch
  rw [entriesW_tc] at hm0
  unfold workDropToolchainStmt at ht ⊢
  cases hg : e.f.toolchain with
  | none => simp only [hg]; exact hi
  | some g =>
    simp only [hg] at ht ⊢
    rw [hg] at hm0
    refine ⟨hi.tree.markRemoved _, ?_, ht⟩
    have := Match.dropOne (en := entTc g) hi.tree hm0
    rw [entriesW_tc]; exact this

/-! ### godebug, use, replace -/

theorem workAddGodebug_inv (e e' : EWork) (k v : Bytes) (hk : k ≠ []) (hi : InvW e) (h : workAddGodebug e k v = .ok e') : InvW e' := by
  have ht := (workAddGodebug_abs e e' k v hk hi.winv h).2
  unfold workAddGodebug addGodebugCore at h
  simp only [bind, Except.bind] at h
  cases hr : firstRest (fun g : Godebug => g.key == k) (·.lineId) (fun g => { g with value := v }) clearedGodebug e.f.godebug true with
  | error err => simp [hr] at h
  | ok r =>
    rcases r with ⟨l', first, dead⟩
    simp only [hr] at h
    cases first with
    | some i =>
      simp only [pure, Except.pure, Except.ok.injEq] at h
      subst h
      refine ⟨(markAll_spec dead _ e.next (hi.tree.updateTokens i _)).1, ?_, ht⟩
      have := Match.updSeg (fun g : Godebug => g.key == k) (·.lineId) (fun g => { g with value := v }) clearedGodebug
        liveG entG (fun _ => rfl) rfl
        (fun x hx => ne_nil_of_beq hk hx) (fun x hx => ne_nil_of_beq hk hx) (fun _ => rfl)
        (B "godebug") (k ++ [61] ++ v) []
        (fun x hx t0 s ha => by
          simp only [entG] at ha ⊢
          refine ⟨by rw [ha]; rfl, ?_⟩
          rw [eq_of_beq hx])
        hi.tree (by rw [← entriesW_gd]; exact hi.mtch) hr
      rw [entriesW_gd]; exact this
    | none =>
      simp only [pure, Except.pure, Except.ok.injEq] at h
      subst h
      rcases firstRest_none _ _ _ _ _ _ _ hr with ⟨_, rfl, _⟩
      rcases addLine_spec e.f.syn none e.next (B "godebug") (k ++ [61] ++ v) [] hi.tree.shape hi.view2 with ⟨p1, p2, p3⟩
      refine ⟨hi.tree.of_added hi.winv.pos p2 p3, ?_, ht⟩
      have := Match.appendSeg (·.lineId) liveG entG (fun _ => rfl)
        (x := ({ key := k, value := v, lineId := e.next } : Godebug))
        (ne_nil_live hk) [B "godebug", k ++ [61] ++ v] [] rfl
        (by rw [← entriesW_gd]; exact hi.mtch) (by rw [← entriesW_gd]; exact hi.fresh) p1
      rw [entriesW_gd]; exact this

theorem workDropGodebug_inv (e e' : EWork) (k : Bytes) (hk : k ≠ []) (hi : InvW e) (h : workDropGodebug e k = .ok e') : InvW e' := by
  have ht := (workDropGodebug_abs e e' k hi.winv h).2
  unfold workDropGodebug at h
  simp only [bind, Except.bind] at h
  cases hr : clearAll (fun g : Godebug => g.key == k) (·.lineId) clearedGodebug e.f.godebug with
  | error err => simp [hr] at h
  | ok r =>
    rcases r with ⟨gd', dead⟩
    simp only [hr, pure, Except.pure, Except.ok.injEq] at h
    subst h
    refine ⟨(markAll_spec dead e.f.syn e.next hi.tree).1, ?_, ht⟩
    have := Match.clearSeg (fun g : Godebug => g.key == k) (·.lineId) clearedGodebug liveG entG (fun _ => rfl) rfl
      (fun x hx => ne_nil_of_beq hk hx) hi.tree (by rw [← entriesW_gd]; exact hi.mtch) hr
    rw [entriesW_gd]; exact this

theorem addNewUse_inv (e : EWork) (d m : Bytes) (hd : d ≠ []) (hi : InvW e) : InvW (addNewUse e d m) := by
  rcases addLine_spec e.f.syn none e.next (B "use") (autoQuote d) [] hi.tree.shape hi.view2 with ⟨p1, p2, p3⟩
  refine ⟨hi.tree.of_added hi.winv.pos p2 p3, ?_, (addNewUse_abs e d m hd hi.winv).2⟩
  have := Match.appendSeg (·.lineId) liveU entU (fun _ => rfl)
    (x := ({ path := d, modulePath := m, lineId := e.next } : Use))
    (ne_nil_live hd) [B "use", autoQuote d] [] rfl
    (by rw [← entriesW_use]; exact hi.mtch) (by rw [← entriesW_use]; exact hi.fresh) p1
  show Match (entriesW (addNewUse e d m).f) _
  rw [entriesW_use]; exact this

theorem addUse_inv (e e' : EWork) (d m : Bytes) (hd : d ≠ []) (hi : InvW e) (h : addUse e d m = .ok e') : InvW e' := by
  have ht := (addUse_abs e e' d m hd hi.winv h).2
  unfold addUse at h
  simp only [bind, Except.bind] at h
  cases hr : firstRest (fun u : Use => u.path == d) (·.lineId) (fun u => { u with modulePath := m }) clearedUse e.f.use true with
  | error err => simp [hr] at h
  | ok r =>
    rcases r with ⟨l', first, dead⟩
    simp only [hr] at h
    cases first with
    | some i =>
      simp only [pure, Except.pure, Except.ok.injEq] at h
      subst h
      refine ⟨(markAll_spec dead _ e.next (hi.tree.updateTokens i _)).1, ?_, ht⟩
      have := Match.updSeg (fun u : Use => u.path == d) (·.lineId) (fun u => { u with modulePath := m }) clearedUse
        liveU entU (fun _ => rfl) rfl
        (fun x hx => ne_nil_of_beq hd hx) (fun x hx => ne_nil_of_beq hd hx) (fun _ => rfl)
        (B "use") (autoQuote d) []
        (fun x hx t0 s ha => by
          simp only [entU] at ha ⊢
          refine ⟨by rw [ha]; rfl, ?_⟩
          rw [eq_of_beq hx])
        hi.tree (by rw [← entriesW_use]; exact hi.mtch) hr
      rw [entriesW_use]; exact this
    | none =>
      simp only [pure, Except.pure, Except.ok.injEq] at h
      subst h
      exact addNewUse_inv e d m hd hi

theorem dropUse_inv (e e' : EWork) (d : Bytes) (hd : d ≠ []) (hi : InvW e) (h : dropUse e d = .ok e') : InvW e' := by
  have ht := (dropUse_abs e e' d hi.winv h).2
  unfold dropUse at h
  simp only [bind, Except.bind] at h
  cases hr : clearAll (fun u : Use => u.path == d) (·.lineId) clearedUse e.f.use with
  | error err => simp [hr] at h
  | ok r =>
    rcases r with ⟨l', dead⟩
    simp only [hr, pure, Except.pure, Except.ok.injEq] at h
    subst h
    refine ⟨(markAll_spec dead e.f.syn e.next hi.tree).1, ?_, ht⟩
    have := Match.clearSeg (fun u : Use => u.path == d) (·.lineId) clearedUse liveU entU (fun _ => rfl) rfl
      (fun x hx => ne_nil_of_beq hd hx) hi.tree (by rw [← entriesW_use]; exact hi.mtch) hr
    rw [entriesW_use]; exact this

theorem workAddReplace_inv (e e' : EWork) (op ov np nv : Bytes) (hop : op ≠ []) (hi : InvW e)
    (h : workAddReplace e op ov np nv = .ok e') : InvW e' := by
  have ht := (workAddReplace_abs e e' op ov np nv hop hi.winv h).2
  unfold workAddReplace addReplaceCore at h
  simp only [bind, Except.bind] at h
  rw [replaceToks_eq] at h
  cases hr : firstRest (fun r : Replace => r.old.path == op && (ov.isEmpty || r.old.version == ov)) (·.lineId)
      (fun r => { r with old := { path := op, version := ov }, new := { path := np, version := nv } }) clearedReplace e.f.replace true with
  | error err => simp [hr] at h
  | ok r =>
    rcases r with ⟨l', first, dead⟩
    simp only [hr] at h
    have hml : ∀ x : Replace, (x.old.path == op && (ov.isEmpty || x.old.version == ov)) = true → liveRp x = true := by
      intro x hx
      simp only [Bool.and_eq_true] at hx
      exact ne_nil_of_beq hop hx.1
    cases first with
    | some i =>
      simp only [pure, Except.pure, Except.ok.injEq] at h
      subst h
      refine ⟨(markAll_spec dead _ e.next (hi.tree.updateTokens i _)).1, ?_, ht⟩
      have := Match.updSeg (fun r : Replace => r.old.path == op && (ov.isEmpty || r.old.version == ov)) (·.lineId)
        (fun r => { r with old := { path := op, version := ov }, new := { path := np, version := nv } }) clearedReplace
        liveRp entRp (fun _ => rfl) rfl hml (fun x _ => ne_nil_live hop) (fun _ => rfl)
        (B "replace") (autoQuote op) ((if ov.isEmpty then [] else [ov]) ++ [B "=>", autoQuote np] ++ (if nv.isEmpty then [] else [nv]))
        (fun x hx t0 s ha => by
          simp only [entRp] at ha ⊢
          refine ⟨by rw [ha]; simp [replaceToks], ?_⟩
          simp [replaceToks])
        hi.tree (by rw [← entriesW_rp]; exact hi.mtch) hr
      rw [entriesW_rp]; exact this
    | none =>
      simp only [pure, Except.pure, Except.ok.injEq] at h
      subst h
      rcases firstRest_none _ _ _ _ _ _ _ hr with ⟨_, rfl, _⟩
      rcases addLinePtr_spec e.f.syn (lastWith (fun r : Replace => r.old.path == op) (·.lineId) e.f.replace none) e.next
        (B "replace") (autoQuote op) ((if ov.isEmpty then [] else [ov]) ++ [B "=>", autoQuote np] ++ (if nv.isEmpty then [] else [nv]))
        hi.tree.shape hi.view2 with ⟨p1, p2, p3⟩
      refine ⟨hi.tree.of_added hi.winv.pos p2 p3, ?_, ht⟩
      have := Match.appendSeg (·.lineId) liveRp entRp (fun _ => rfl)
        (x := ({ old := { path := op, version := ov }, new := { path := np, version := nv }, lineId := e.next } : Replace))
        (ne_nil_live hop) _ [] (by simp [entRp, replaceToks])
        (by rw [← entriesW_rp]; exact hi.mtch) (by rw [← entriesW_rp]; exact hi.fresh) p1
      rw [entriesW_rp]; exact this

theorem workDropReplace_inv (e e' : EWork) (op ov : Bytes) (hop : op ≠ []) (hi : InvW e)
    (h : workDropReplace e op ov = .ok e') : InvW e' := by
  have ht := (workDropReplace_abs e e' op ov hi.winv h).2
  unfold workDropReplace dropReplaceCore at h
  simp only [bind, Except.bind] at h
  cases hr : clearAll (fun r : Replace => r.old.path == op && r.old.version == ov) (·.lineId) clearedReplace e.f.replace with
  | error err => simp [hr] at h
  | ok r =>
    rcases r with ⟨l', dead⟩
    simp only [hr, pure, Except.pure, Except.ok.injEq] at h
    subst h
    refine ⟨(markAll_spec dead e.f.syn e.next hi.tree).1, ?_, ht⟩
    have := Match.clearSeg (fun r : Replace => r.old.path == op && r.old.version == ov) (·.lineId) clearedReplace liveRp entRp
      (fun _ => rfl) rfl (fun x hx => by simp only [Bool.and_eq_true] at hx; exact ne_nil_of_beq hop hx.1) hi.tree
      (by rw [← entriesW_rp]; exact hi.mtch) hr
    rw [entriesW_rp]; exact this

/-! ### Cleanup, SortBlocks -/

theorem workCleanup_inv (e : EWork) (hi : InvW e) : InvW (workCleanup e) := by
  rcases cleanupStmts_spec e.f.syn.stmts hi.tree.shape with ⟨c1, c2, c3⟩
  refine ⟨hi.tree.of_sublist c2 c3, ?_, (workCleanup_abs e hi.winv).2⟩
  show Match (entriesW (workCleanup e).f) (view (cleanupStmts e.f.syn.stmts))
  rw [c1]
  have : entriesW (workCleanup e).f = entriesW e.f := by
    simp only [entriesW, workCleanup]
    have h1 : entsOf liveG entG (e.f.godebug.filter fun x => !x.key.isEmpty) = entsOf liveG entG e.f.godebug :=
      entsOf_filter_live liveG entG e.f.godebug
    have h2 : entsOf liveU entU (e.f.use.filter fun x => !x.path.isEmpty) = entsOf liveU entU e.f.use :=
      entsOf_filter_live liveU entU e.f.use
    have h4 : entsOf liveRp entRp (e.f.replace.filter fun x => !x.old.path.isEmpty) = entsOf liveRp entRp e.f.replace :=
      entsOf_filter_live liveRp entRp e.f.replace
    rw [h1, h2, h4]
  rw [this]; exact hi.mtch

theorem workSortBlocks_inv (e : EWork) (hi : InvW e) : InvW (workSortBlocks e) := by
  have ht := (workSortBlocks_abs e hi.winv).2
  have heq : workSortBlocks e = { e with f := { e.f with
      replace := e.f.replace.filter (fun x => !(killEarlier e.f.replace).contains x.lineId),
      syn := { e.f.syn with stmts := sortStmts false true (dropKilled (killEarlier e.f.replace) e.f.syn.stmts) } } } := by
    simp [workSortBlocks, Edit.removeDups]
  rw [heq] at ht ⊢
  rcases dropKilled_spec (killEarlier e.f.replace) e.f.syn.stmts hi.tree.shape with ⟨d1, d2, d3⟩
  rcases sortStmts_spec false true _ d3 with ⟨s1, s2, s3⟩
  have hw2 := hi.tree.of_sublist d2 d3
  refine ⟨hw2.of_perm s2 s3, ?_, ht⟩
  refine Match.perm ?_ s1
  rw [d1]
  have hm := hi.mtch
  have hpos : ∀ en ∈ entriesW e.f, en.id ≠ 0 := by
    intro en hen
    rcases hm.cover en hen with ⟨v, hv, hid, _⟩
    rw [← hid]; exact hi.tree.pos _ (view_id_mem_treeIds hv)
  have hother : ∀ en ∈ wA_rp e.f, (killEarlier e.f.replace).contains en.id = false := by
    intro en hen
    have henE : en ∈ entriesW e.f := by rw [entriesW_rp]; exact List.mem_append_left _ hen
    cases hc : (killEarlier e.f.replace).contains en.id with
    | false => rfl
    | true =>
      exfalso
      have hmem : en.id ∈ killEarlier e.f.replace := by simpa using hc
      rcases killEarlier_subset _ _ hmem with ⟨z, hz, hzid⟩
      have hlz : liveRp z = true := by
        cases hl : liveRp z with
        | true => rfl
        | false => exact absurd (hzid ▸ (hi.winv.wfR z hz).2 hl) (hpos en henE)
      exact seg_disjoint (by rw [← entriesW_rp]; exact hm) (en := en) (en' := entRp z) (Or.inl hen)
        ((mem_entsOf liveRp entRp).2 ⟨z, hz, hlz, rfl⟩) hzid.symm
  have hent : entriesW { e.f with
      replace := e.f.replace.filter (fun x => !(killEarlier e.f.replace).contains x.lineId),
      syn := { e.f.syn with stmts := sortStmts false true (dropKilled (killEarlier e.f.replace) e.f.syn.stmts) } }
      = (entriesW e.f).filter (fun en => !(killEarlier e.f.replace).contains en.id) := by
    rw [entriesW_rp, entriesW_rp]
    simp only [List.filter_append, List.filter_nil, List.append_nil]
    have hA : (wA_rp e.f).filter (fun en => !(killEarlier e.f.replace).contains en.id) = wA_rp e.f := by
      apply List.filter_eq_self.2
      intro en hen; rw [hother en hen]; rfl
    have hR : entsOf liveRp entRp (e.f.replace.filter (fun x => !(killEarlier e.f.replace).contains x.lineId))
        = (entsOf liveRp entRp e.f.replace).filter (fun en => !(killEarlier e.f.replace).contains en.id) := by
      unfold entsOf
      rw [List.filter_map, List.filter_filter, List.filter_filter]
      congr 1
      apply List.filter_congr
      intro x _
      simp only [Function.comp, entRp]
      exact Bool.and_comm _ _
    rw [hA, ← hR]
    rfl
  rw [hent]
  exact hm.filter _

/-! ### SetUse -/

theorem setUseLoop_inv {A C : List Ent} (next : Nat) (us : List Use) :
    ∀ (done : List Use) (need : List (Bytes × Bytes)) (syn : FileSyntax) (us' : List Use) (need' : List (Bytes × Bytes))
      (syn' : FileSyntax), (∀ u ∈ us, liveU u = true) → TreeWF syn.stmts next →
      Match (A ++ (entsOf liveU entU (done ++ us) ++ C)) (view syn.stmts) →
      setUseLoop us need syn = .ok (us', need', syn') →
      TreeWF syn'.stmts next ∧ Match (A ++ (entsOf liveU entU (done ++ us') ++ C)) (view syn'.stmts) := by
  induction us with
  | nil =>
    intro done need syn us' need' syn' _ hw hm h
    simp only [setUseLoop, Except.ok.injEq, Prod.mk.injEq] at h
    rcases h with ⟨rfl, _, rfl⟩
    exact ⟨hw, hm⟩
  | cons d ds ih =>
    intro done need syn us' need' syn' hlive hw hm h
    have hld := hlive d List.mem_cons_self
    unfold setUseLoop at h
    cases hf : need.find? (fun a => a.1 == d.path) with
    | some w =>
      simp only [hf, bind, Except.bind] at h
      cases hr : setUseLoop ds (need.filter (fun a => a.1 != d.path)) syn with
      | error err => simp [hr] at h
      | ok res =>
        rcases res with ⟨ds'', need'', syn''⟩
        simp only [hr, pure, Except.pure, Except.ok.injEq, Prod.mk.injEq] at h
        rcases h with ⟨rfl, _, rfl⟩
        have hsame : ∀ t : List Use, entsOf liveU entU (done ++ { d with modulePath := w.2 } :: t) = entsOf liveU entU (done ++ d :: t) := by
          intro t; simp [entsOf, List.filter_append, List.filter_cons, liveU]; split <;> rfl
        have hm1 : Match (A ++ (entsOf liveU entU ((done ++ [{ d with modulePath := w.2 }]) ++ ds) ++ C)) (view syn.stmts) := by
          rw [List.append_assoc, List.singleton_append, hsame]; exact hm
        rcases ih _ _ _ _ _ _ (fun u hu => hlive u (List.mem_cons_of_mem _ hu)) hw hm1 hr with ⟨r1, r2⟩
        refine ⟨r1, ?_⟩
        rw [List.append_assoc, List.singleton_append] at r2
        exact r2
    | none =>
      simp only [hf, bind, Except.bind] at h
      cases hd : deref d.lineId with
      | error err => simp [hd] at h
      | ok i =>
        have hi : i = d.lineId := by unfold deref at hd; split at hd <;> simp at hd; exact hd.symm
        subst hi
        simp only [hd] at h
        cases hr : setUseLoop ds need (markRemoved syn d.lineId) with
        | error err => simp [hr] at h
        | ok res =>
          rcases res with ⟨ds'', need'', syn''⟩
          simp only [hr, pure, Except.pure, Except.ok.injEq, Prod.mk.injEq] at h
          rcases h with ⟨rfl, _, rfl⟩
          have hndK : (liveIds liveU (·.lineId) (done ++ d :: ds)).Nodup := by
            rw [← entsOf_ids (·.lineId) liveU entU (fun _ => rfl)]; exact seg_nodup hm
          have hne := mid_id_ne liveU (·.lineId) done ds d hndK hld
          have hview := mem_view_markRemoved syn d.lineId hw.nodup
          have hw1 := hw.markRemoved d.lineId
          have hm1 : Match (A ++ (entsOf liveU entU (done ++ clearedUse :: ds) ++ C)) (view (markRemoved syn d.lineId).stmts) := by
            refine Match.frame [d.lineId] hm ?_ ?_ ?_ ?_ ?_ ?_ ?_
            · intro v hv
              simp only [List.mem_singleton] at hv
              rw [hview v]
              exact ⟨fun a => a.1, fun a => ⟨a, hv⟩⟩
            · intro j hj
              rw [List.mem_singleton.1 hj]
              left
              rw [entsOf_ids (·.lineId) liveU entU (fun _ => rfl)]
              exact (mem_liveIds liveU (·.lineId)).2 ⟨d, List.mem_append_right _ List.mem_cons_self, hld, rfl⟩
            · rw [entsOf_ids (·.lineId) liveU entU (fun _ => rfl)]
              have hsl : (liveIds liveU (·.lineId) (done ++ clearedUse :: ds)).Sublist (liveIds liveU (·.lineId) (done ++ d :: ds)) := by
                simp only [liveIds_append, liveIds_cons, hld, if_true]
                refine List.Sublist.append (List.Sublist.refl _) ?_
                have : liveU clearedUse = false := rfl
                simp only [this, Bool.false_eq_true, if_false]
                exact List.Sublist.cons _ (List.Sublist.refl _)
              exact List.Nodup.sublist hsl hndK
            · intro en' hen'
              left
              rcases (mem_entsOf_mid liveU entU done ds _ en').1 hen' with ⟨y, hy, hly, rfl⟩ | ⟨hc, _⟩
              · exact List.mem_map.2 ⟨entU y, (mem_entsOf_mid liveU entU done ds d _).2 (Or.inl ⟨y, hy, hly, rfl⟩), rfl⟩
              · exact absurd hc (by decide)
            · intro en' hen'
              rcases (mem_entsOf_mid liveU entU done ds _ en').1 hen' with ⟨y, hy, hly, rfl⟩ | ⟨hc, _⟩
              · rcases hm.cover (entU y) (List.mem_append_right _ (List.mem_append_left _
                  ((mem_entsOf_mid liveU entU done ds d _).2 (Or.inl ⟨y, hy, hly, rfl⟩)))) with ⟨v, hv, hvid, hacc⟩
                refine ⟨v, (hview v).2 ⟨hv, ?_⟩, hvid, hacc⟩
                rw [hvid]; exact hne y hy hly
              · exact absurd hc (by decide)
            · intro v hv hs
              exact absurd (List.mem_singleton.1 hs) ((hview v).1 hv).2
            · intro en hen hs
              simp only [List.mem_singleton] at hs
              rcases (mem_entsOf_mid liveU entU done ds d en).1 hen with ⟨y, hy, hly, rfl⟩ | ⟨_, rfl⟩
              · exact ⟨entU y, (mem_entsOf_mid liveU entU done ds _ _).2 (Or.inl ⟨y, hy, hly, rfl⟩), rfl⟩
              · exact absurd rfl hs
          have hm1' : Match (A ++ (entsOf liveU entU ((done ++ [clearedUse]) ++ ds) ++ C)) (view (markRemoved syn d.lineId).stmts) := by
            rw [List.append_assoc]; exact hm1
          rcases ih _ _ _ _ _ _ (fun u hu => hlive u (List.mem_cons_of_mem _ hu)) hw1 hm1' hr with ⟨r1, r2⟩
          refine ⟨r1, ?_⟩
          rw [List.append_assoc] at r2
          exact r2

theorem foldl_addNewUse_inv (ws : List (Bytes × Bytes)) : ∀ e : EWork, InvW e → (∀ w ∈ ws, w.1 ≠ []) →
    InvW (ws.foldl (fun e w => addNewUse e w.1 w.2) e) := by
  induction ws with
  | nil => intro e hi _; exact hi
  | cons w ws ih =>
    intro e hi hne
    exact ih _ (addNewUse_inv e w.1 w.2 (hne w List.mem_cons_self) hi) (fun x hx => hne x (List.mem_cons_of_mem _ hx))

/-- **SetUse preserves the tree invariant** (every typed use live: Cleanup has just run) -/
theorem setUse_inv (e e' : EWork) (dirs : List (Bytes × Bytes)) (perm : List (Bytes × Bytes) → List (Bytes × Bytes))
    (hperm : ∀ l, (perm l).Perm l) (hg : GoodUse dirs) (hi : InvW e) (hlive : ∀ u ∈ e.f.use, liveU u = true)
    (h : setUse e dirs perm = .ok e') : InvW e' := by
  unfold setUse at h
  rw [useNeedMap_distinct dirs [] (by simpa using hg.1)] at h
  simp only [bind, Except.bind, List.nil_append] at h
  cases hr : setUseLoop e.f.use dirs e.f.syn with
  | error err => simp [hr] at h
  | ok res =>
    rcases res with ⟨us, need', syn'⟩
    simp only [hr, pure, Except.pure, Except.ok.injEq] at h
    subst h
    rcases setUseLoop_abs _ _ _ _ _ _ hg hr with ⟨_, hsub⟩
    rcases setUseLoop_inv (A := wA_use e.f) (C := wC_use e.f) e.next e.f.use [] dirs e.f.syn us need' syn'
      hlive hi.tree (by simp only [List.nil_append]; rw [← entriesW_use]; exact hi.mtch) hr with ⟨hw', hm'⟩
    have hi1 : InvW (⟨{ e.f with use := us, syn := syn' }, e.next⟩ : EWork) := by
      refine ⟨hw', ?_, hi.winv.of_same rfl (Nat.le_refl _)⟩
      simp only [List.nil_append] at hm'
      rw [entriesW_use]; exact hm'
    have hne : ∀ w ∈ perm need', w.1 ≠ [] := fun w hw => hg.2 w (hsub.subset ((hperm need').subset hw))
    exact workSortBlocks_inv _ (foldl_addNewUse_inv (perm need') _ hi1 hne)

/-! ### sessions -/

/-- arguments valid for the go.work tree-level theorem -/
def ValidArgsW : Op → Prop
  | .addGodebug k _ => k ≠ []
  | .dropGodebug k => k ≠ []
  | .addUse d _ => d ≠ []
  | .addNewUse d _ => d ≠ []
  | .dropUse d => d ≠ []
  | .setUse _ _ => False
  | .addReplace op _ _ _ => op ≠ []
  | .dropReplace op _ => op ≠ []
  | _ => True

theorem applyWork_inv (e e' : EWork) (op : Op) (hv : ValidArgsW op) (hi : InvW e) (h : applyWork e op = some (.ok e')) : InvW e' := by
  cases op with
  | addGo v => simp only [applyWork, Option.some.injEq] at h; exact workAddGoStmt_inv e e' v hi h
  | dropGo => simp only [applyWork, Option.some.injEq, Except.ok.injEq] at h; subst h; exact workDropGoStmt_inv e hi
  | addToolchain n => simp only [applyWork, Option.some.injEq] at h; exact workAddToolchainStmt_inv e e' n hi h
  | dropToolchain => simp only [applyWork, Option.some.injEq, Except.ok.injEq] at h; subst h; exact workDropToolchainStmt_inv e hi
  | addGodebug k v => simp only [applyWork, Option.some.injEq] at h; exact workAddGodebug_inv e e' k v hv hi h
  | dropGodebug k => simp only [applyWork, Option.some.injEq] at h; exact workDropGodebug_inv e e' k hv hi h
  | addUse d m => simp only [applyWork, Option.some.injEq] at h; exact addUse_inv e e' d m hv hi h
  | addNewUse d m => simp only [applyWork, Option.some.injEq, Except.ok.injEq] at h; subst h; exact addNewUse_inv e d m hv hi
  | dropUse d => simp only [applyWork, Option.some.injEq] at h; exact dropUse_inv e e' d hv hi h
  | setUse w r => exact absurd hv (by simp [ValidArgsW])
  | addReplace a b c d => simp only [applyWork, Option.some.injEq] at h; exact workAddReplace_inv e e' a b c d hv hi h
  | dropReplace a b => simp only [applyWork, Option.some.injEq] at h; exact workDropReplace_inv e e' a b hv hi h
  | sortBlocks => simp only [applyWork, Option.some.injEq, Except.ok.injEq] at h; subst h; exact workSortBlocks_inv e hi
  | cleanup => simp only [applyWork, Option.some.injEq, Except.ok.injEq] at h; subst h; exact workCleanup_inv e hi
  | addModule p => simp [applyWork] at h
  | addRequire p v => simp [applyWork] at h
  | addNewRequire p v i => simp [applyWork] at h
  | dropRequire p => simp [applyWork] at h
  | setRequire w r => simp [applyWork] at h
  | setRequireSeparateIndirect w r => simp [applyWork] at h
  | addExclude p v => simp [applyWork] at h
  | dropExclude p v => simp [applyWork] at h
  | addRetract a b c => simp [applyWork] at h
  | dropRetract a b => simp [applyWork] at h
  | addTool p => simp [applyWork] at h
  | dropTool p => simp [applyWork] at h

theorem runOpsWork_inv (ops : List Op) : ∀ (e : EWork) (res0 : List Bool) (i : Nat) (e' : EWork) (res : List Bool),
    (∀ op ∈ ops, ValidArgsW op) → InvW e → runOps applyWork e ops res0 i = .done e' res → InvW e' := by
  induction ops with
  | nil =>
    intro e res0 i e' res _ hi h
    simp only [runOps, SessionResult.done.injEq] at h
    rw [← h.1]; exact hi
  | cons op ops ih =>
    intro e res0 i e' res hv hi h
    unfold runOps at h
    cases ha : applyWork e op with
    | none => simp [ha] at h
    | some r =>
      cases r with
      | ok e1 =>
        simp only [ha] at h
        exact ih e1 _ _ e' res (fun o ho => hv o (List.mem_cons_of_mem _ ho))
          (applyWork_inv e e1 op (hv op List.mem_cons_self) hi ha) h
      | error err =>
        simp only [ha] at h
        by_cases hr : err.isReturned = true
        · simp only [hr, if_true] at h
          exact ih e _ _ e' res (fun o ho => hv o (List.mem_cons_of_mem _ ho)) hi h
        · simp only [Bool.not_eq_true] at hr
          simp [hr] at h

theorem InvW_empty : InvW (loadWork {}) := by
  refine ⟨⟨by simp [loadWork, shiftSyntax, treeIds, loc], by simp [loadWork, shiftSyntax, treeIds, loc],
      by simp [loadWork, shiftSyntax, treeIds, loc], by simp [loadWork, shiftSyntax], by simp [loadWork, shiftSyntax],
      by simp [loadWork, shiftSyntax], by simp [loadWork, shiftSyntax]⟩, ?_, ?_⟩
  · refine ⟨by simp [loadWork, entriesW, entsOf], by simp [loadWork, entriesW, entsOf], by simp [loadWork, shiftSyntax, view, loc]⟩
  · exact WInv_load {} (workStartOKb_sound {} (by decide))

/-- **go.work, tree half of C15**: any session (all operations but SetUse — see `setUse_inv`) + Cleanup -/
theorem typed_eq_tree_work (e e' : EWork) (ops : List Op) (res : List Bool) (hi : InvW e)
    (hv : ∀ op ∈ ops, ValidArgsW op) (h : runOps applyWork e ops [] 0 = .done e' res) : InvW (workCleanup e') :=
  workCleanup_inv e' (runOpsWork_inv ops e [] 0 e' res hv hi h)

/-! ### the `use` lines of the tree after SetUse -/

theorem verbs_ne_use : B "go" ≠ B "use" ∧ B "toolchain" ≠ B "use" ∧ B "godebug" ≠ B "use" ∧ B "replace" ≠ B "use" := by
  decide +kernel

theorem InvW.line_entry {e : EWork} (hi : InvW e) (v : VLine) (hv : v ∈ view e.f.syn.stmts) :
    ∃ en ∈ entriesW e.f, en.id = v.id ∧ en.acc v.toks v.suffix := by
  rcases hi.mtch.surj v hv with ⟨en, hen, hid⟩
  rcases hi.mtch.cover en hen with ⟨v', hv', hid', hacc⟩
  have : v' = v := view_unique hi.tree.nodup hv' hv (hid'.trans hid)
  subst this
  exact ⟨en, hen, hid, hacc⟩

theorem InvW.use_line {e : EWork} (hi : InvW e) (u : Use) (hu : u ∈ e.f.use) (hl : u.path ≠ []) :
    ∃ v ∈ view e.f.syn.stmts, v.id = u.lineId ∧ v.toks = [B "use", autoQuote u.path] := by
  have hen : entU u ∈ entriesW e.f := by
    rw [entriesW_use]
    exact List.mem_append_right _ (List.mem_append_left _ ((mem_entsOf liveU entU).2 ⟨u, hu, ne_nil_live hl, rfl⟩))
  rcases hi.mtch.cover _ hen with ⟨v, hv, hid, hacc⟩
  exact ⟨v, hv, hid, hacc⟩

theorem InvW.use_line_entry {e : EWork} (hi : InvW e) (v : VLine) (hv : v ∈ view e.f.syn.stmts)
    (hverb : v.toks.head? = some (B "use")) :
    ∃ u ∈ e.f.use, liveU u = true ∧ u.lineId = v.id ∧ v.toks = [B "use", autoQuote u.path] := by
  rcases hi.line_entry v hv with ⟨en, hen, hid, hacc⟩
  rcases verbs_ne_use with ⟨n1, n2, n3, n4⟩
  simp only [entriesW, List.mem_append, List.mem_map, Option.mem_toList, entsOf, List.mem_filter] at hen
  rcases hen with ⟨x, _, rfl⟩ | ⟨x, _, rfl⟩ | ⟨x, _, rfl⟩ | ⟨x, hx, rfl⟩ | ⟨x, _, rfl⟩
  · simp only [entGo] at hacc; rw [hacc] at hverb; simp at hverb; exact absurd hverb n1
  · simp only [entTc] at hacc; rw [hacc] at hverb; simp at hverb; exact absurd hverb n2
  · simp only [entG] at hacc; rw [hacc] at hverb; simp at hverb; exact absurd hverb n3
  · exact ⟨x, hx.1, hx.2, hid, hacc⟩
  · simp only [entRp, replaceToks] at hacc; rw [hacc] at hverb; simp at hverb; exact absurd hverb n4

/-- **SetUse on the tree**: after `SetUse dirs` and Cleanup the tree has a live line `use <dir>` for every requested
    directory, and every live `use` line is one of them -/
theorem setUse_tree_exact (e e' : EWork) (dirs : List (Bytes × Bytes)) (perm : List (Bytes × Bytes) → List (Bytes × Bytes))
    (hperm : ∀ l, (perm l).Perm l) (hg : GoodUse dirs) (hi : InvW e) (hlive : ∀ u ∈ e.f.use, liveU u = true)
    (h : setUse e dirs perm = .ok e') :
    InvW (workCleanup e') ∧
    (∀ d ∈ dirs, ∃ v ∈ view (workCleanup e').f.syn.stmts, v.toks = [B "use", autoQuote d.1]) ∧
    (∀ v ∈ view (workCleanup e').f.syn.stmts, v.toks.head? = some (B "use") →
      ∃ d ∈ dirs, v.toks = [B "use", autoQuote d.1]) := by
  have hi' := workCleanup_inv e' (setUse_inv e e' dirs perm hperm hg hi hlive h)
  rcases setUse_exact e e' dirs perm hperm hg hi.winv h with ⟨hp, _, hsub⟩
  refine ⟨hi', ?_, ?_⟩
  · intro d hd
    have hmem : d.1 ∈ (absOfWork (workCleanup e').f).use := hp.symm.subset (List.mem_map.2 ⟨d, hd, rfl⟩)
    simp only [absOfWork, List.mem_map] at hmem
    rcases hmem with ⟨u, hu, heq⟩
    have hl : u.path ≠ [] := by rw [heq]; exact hg.2 d hd
    rcases hi'.use_line u hu hl with ⟨v, hv, _, htoks⟩
    exact ⟨v, hv, by rw [htoks, heq]⟩
  · intro v hv hverb
    rcases hi'.use_line_entry v hv hverb with ⟨u, hu, _, _, htoks⟩
    have hmem : u.path ∈ (absOfWork (workCleanup e').f).use := by
      simp only [absOfWork, List.mem_map]; exact ⟨u, hu, rfl⟩
    rcases hsub _ hmem with ⟨d, hd, heq⟩
    exact ⟨d, hd, by rw [htoks, heq]⟩

end ModVerif.Modfile.Edit
