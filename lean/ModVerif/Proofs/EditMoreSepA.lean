/-
  EditMore, part 6 — SetRequireSeparateIndirect, the phase that locates or creates the two blocks, as two plain
  functions (`sepStage1`, `sepStage2`; the model writes them inline in the Except monad) followed by `sepTail`.
-/
import ModVerif.Proofs.EditMoreStartC
import ModVerif.Proofs.EditRefineInvBulk
set_option linter.unusedSimpArgs false
namespace ModVerif.Modfile.Edit
open ModVerif ModVerif.Modfile

def isBlockAt (stmts : List Expr) (d : Nat) : Bool :=
  match stmts[d]? with
  | some (.lineBlock _) => true
  | _ => false

/-- the direct block of SetRequireSeparateIndirect: statements, index, index during the scan, the (shifted) index of
    the last indirect-only statement, its index during the scan -/
def sepStage1 (stmts : List Expr) (sc : Scan) : Except EditErr (List Expr × Nat × Option Nat × Option Nat × Option Nat) :=
  match sc.lastDirect with
  | none =>
    match sc.lastIndirect with
    | some j => .ok (insertAt stmts j emptyRequireBlock, j, none, some (j + 1), some j)
    | none =>
      match sc.lastRequire with
      | some k => .ok (insertAt stmts (k + 1) emptyRequireBlock, k + 1, none, none, none)
      | none => .ok (stmts ++ [emptyRequireBlock], stmts.length, none, none, none)
  | some d =>
    match ensureBlock stmts d with
    | .ok s => .ok (s, d, (if isBlockAt stmts d then some d else none), sc.lastIndirect, sc.lastIndirect)
    | .error err => .error err

def sepStage2 (stmts : List Expr) (directIdx : Nat) (lastIndirect indirectShift : Option Nat) :
    Except EditErr (List Expr × Nat × Option Nat) :=
  match lastIndirect with
  | none => .ok (insertAt stmts (directIdx + 1) emptyRequireBlock, directIdx + 1, none)
  | some j =>
    match ensureBlock stmts j with
    | .ok s => .ok (s, j, (if isBlockAt stmts j then indirectShift else none))
    | .error err => .error err

def sepOneFlat (stmts : List Expr) (sc : Scan) : Bool :=
  sc.count == 1 &&
    (match sc.lastRequire with
     | some i => !hasComments ((stmts[i]?.map Expr.comments).getD {})
     | none => false)

theorem setRSI_eq (e : EFile) (req : List Want) (perm : List Want → List Want) :
    setRequireSeparateIndirect e req perm =
      match sepStage1 e.f.syn.stmts (scanStmts e.f.syn.stmts 0 {}) with
      | .error err => .error err
      | .ok (s1, dI, dO, lI, sh) =>
        match sepStage2 s1 dI lI sh with
        | .error err => .error err
        | .ok (s2, iI, iO) =>
          sepTail e req perm { oneFlat := sepOneFlat e.f.syn.stmts (scanStmts e.f.syn.stmts 0 {}), directIdx := dI, indirectIdx := iI,
                               directOrig := dO, indirectOrig := iO,
                               lineToBlock := (scanStmts e.f.syn.stmts 0 {}).lineToBlock } s2 := by
  unfold setRequireSeparateIndirect sepStage1 sepOneFlat
  dsimp only
  cases hld : (scanStmts e.f.syn.stmts 0 {}).lastDirect with
  | none =>
    dsimp only
    cases hli : (scanStmts e.f.syn.stmts 0 {}).lastIndirect with
    | some j =>
      simp only [sepStage2, bind, Except.bind, pure, Except.pure]
      cases hE : ensureBlock (insertAt e.f.syn.stmts j emptyRequireBlock) (j + 1) with
      | error err => rfl
      | ok s => rfl
    | none =>
      dsimp only
      cases hlr : (scanStmts e.f.syn.stmts 0 {}).lastRequire with
      | some k => rfl
      | none => rfl
  | some d =>
    simp only [bind, Except.bind, pure, Except.pure]
    cases hE : ensureBlock e.f.syn.stmts d with
    | error err => rfl
    | ok s =>
      simp only [sepStage2]
      cases hli : (scanStmts e.f.syn.stmts 0 {}).lastIndirect with
      | none => rfl
      | some j =>
        simp only []
        cases hE2 : ensureBlock s j with
        | error err => rfl
        | ok s2 => rfl

end ModVerif.Modfile.Edit
