/-
  Tie proofs for sumdb/tlog/tile.go, part 7: the PLANNING phase of `tileHashReader.ReadHashes`
  (loops 1–4 of the generated code = `planStx`, `walkUp`, `walkDown`, `planIndexes` of the model).

  The generated `tileOrder` map is an association list `List (Tile × Int)` read with `mapGet` and written with `mapSet`;
  the model's is a `List (Tile × Nat)` with the latest binding first.  `MapRel` relates them through the lookup function.
-/
import ModVerif.Proofs.TieFnTile
import ModVerif.Proofs.TileAuthNew
set_option linter.unusedSimpArgs false
namespace ModVerif.TieFnTile
open ModVerif ModVerif.GoRt ModVerif.GoRtTile ModVerif.TieFnTlogInt

/-- the generated map agrees with the model's on every ordinary tile -/
def MapRel (og : List (GTile × Int)) (order : List (Tile.Tile × Nat)) : Prop :=
  ∀ t : Tile.Tile, t.data = false → mapLookup og (toGen t) = (order.lookup t).map Int.ofNat

theorem mapRel_nil : MapRel [] [] := by
  intro t _; rfl

theorem mapRel_get {og : List (GTile × Int)} {order : List (Tile.Tile × Nat)} (hr : MapRel og order) (t : Tile.Tile)
    (hd : t.data = false) :
    mapGet og (toGen t) (0 : Int) = match order.lookup t with | some j => ((j : Int), true) | none => (0, false) := by
  rw [mapGet_eq, hr t hd]
  cases order.lookup t <;> rfl

theorem mapRel_set {og : List (GTile × Int)} {order : List (Tile.Tile × Nat)} (hr : MapRel og order) (p : Tile.Tile)
    (hd : p.data = false) (v : Nat) : MapRel (mapSet og (toGen p) (v : Int)) ((p, v) :: order) := by
  intro t ht
  rw [mapLookup_mapSet, List.lookup_cons]
  by_cases htp : t = p
  · subst htp
    simp
  · have hb : (t == p) = false := by simpa using htp
    have hne : ¬ toGen p = toGen t := fun e => htp (toGen_inj t p ht hd e.symm)
    rw [if_neg hne, hb]
    exact hr t ht

/-- a requested / tree-hash position inside the tree, with its coordinates -/
def ValidIdx (N x : Nat) : Prop :=
  x < Tlog.storedHashIndex 0 N ∧ ∃ c : Nat × Nat, Tlog.splitStoredHashIndex x = .ok c ∧ (c.2 + 1) * 2 ^ c.1 ≤ N

theorem validIdx_lt (N x : Nat) (hN : N < 2 ^ 62) (hv : ValidIdx N x) : x + 1 < 2 ^ 63 := by
  have h1 := hv.1
  rw [Tlog.storedHashIndex_zero_eq] at h1
  have := Tlog.S_le_two_mul N
  omega

/-- what the planning loops need to know about the tile `tileForIndex` returns -/
structure TfiOK (h N : Nat) (t0 : Tile.Tile) : Prop where
  data : t0.data = false
  hh : t0.h = h
  hl : t0.l ≤ 62
  hn : (t0.n + 1) * 2 ^ h ≤ N + 2 ^ h

theorem tfi_gen (fuel h N x : Nat) (h1 : 1 ≤ h) (h57 : h ≤ 57) (hN : N < 2 ^ 62) (hv : ValidIdx N x) (hf : 64 ≤ fuel) :
    ∃ t0 s e, Tile.tileForIndex h x = .ok (t0, s, e) ∧
      Generated.Tile.tileForIndex fuel (h : Int) (x : Int) = .ok (toGen t0, ((32 * s : Nat) : Int), ((32 * e : Nat) : Int)) ∧
      TfiOK h N t0 := by
  have hx := validIdx_lt N x hN hv
  obtain ⟨_, ⟨lv, k⟩, hs, hval⟩ := hv
  simp only at hval
  have hcl := TileAuth.tileForIndex_eq h x lv k (by omega) hs
  have hgen := tileForIndex_eq fuel h x hx (by omega) (Or.inl h57) hf
  rw [hcl] at hgen
  refine ⟨_, _, _, hcl, hgen, ⟨rfl, rfl, ?_, ?_⟩⟩
  · have := TileAuth.lv_lt_63 N lv k hval (by omega)
    have := Nat.div_le_self lv h
    show lv / h ≤ 62
    omega
  · have h2 := TileAuth.tnum_ts h lv k (by omega)
    simp only [TileAuth.tnum] at h2
    have h3 : k * 2 ^ (lv % h) ≤ k * 2 ^ lv :=
      Nat.mul_le_mul_left _ (Nat.pow_le_pow_right (by omega) (Nat.mod_le _ _))
    rw [Nat.add_mul] at hval
    show (k / 2 ^ (h - lv % h) + 1) * 2 ^ h ≤ N + 2 ^ h
    rw [Nat.add_mul, Nat.one_mul]
    have hpos := Nat.two_pow_pos lv
    omega

theorem tileParent_data (t : Tile.Tile) (k N : Nat) (hd : t.data = false) : (Tile.tileParent t k N).data = false := by
  unfold Tile.tileParent
  simp only
  split
  · split
    · rfl
    · exact hd
  · exact hd

theorem tileParent_gen (h N : Nat) (t0 : Tile.Tile) (ok : TfiOK h N t0) (kk : Nat) (hk : kk ≤ 100) (h57 : h ≤ 57)
    (hN : N < 2 ^ 62) :
    Generated.Tile.tileParent (toGen t0) (kk : Int) (N : Int) = .ok (toGen (Tile.tileParent t0 kk N)) := by
  have hp57 : 2 ^ h ≤ 2 ^ 57 := Nat.pow_le_pow_right (by omega) h57
  have hkh : kk * h ≤ 100 * 57 := Nat.mul_le_mul hk h57
  have hlh : (t0.l + kk) * h ≤ 162 * 57 := Nat.mul_le_mul (by have := ok.hl; omega) h57
  apply tileParent_eq t0 kk N ok.data
  · have := ok.hl; omega
  · rw [ok.hh]; omega
  · rw [ok.hh]; omega
  · rw [ok.hh]
    have h1 : t0.n >>> (kk * h) ≤ t0.n := by rw [Nat.shiftRight_eq_div_pow]; exact Nat.div_le_self _ _
    have h2 : (t0.n >>> (kk * h) + 1) * 2 ^ h ≤ (t0.n + 1) * 2 ^ h := Nat.mul_le_mul_right _ (by omega)
    have := ok.hn
    omega
  · omega

section
variable {H : Type} [DecidableEq H] [Inhabited H] (node : H → H → H) (ofBytes : Bytes → H)
variable (r : Generated.Tile.tileHashReader H) (effLog : List (List GTile × List Bytes))

/-! ### loop 1: the tiles of the tree hash -/

theorem loop1_eq (h N : Nat) (h1 : 1 ≤ h) (h57 : h ≤ 57) (hN : N < 2 ^ 62) (hrN : r.tree.N = (N : Int))
    (stx : List Nat) :
    ∀ (xs pre : List Nat) (tiles : List Tile.Tile) (order : List (Tile.Tile × Nat)) (sto : List Nat)
      (og : List (GTile × Int)) (fuel : Nat) (res : List Tile.Tile × List (Tile.Tile × Nat) × List Nat),
      stx = pre ++ xs → sto.length = pre.length → (∀ x ∈ xs, ValidIdx N x) → MapRel og order →
      Tile.planStx h N xs (tiles, order, sto) = .ok res → xs.length + 65 ≤ fuel →
      ∃ og', Generated.Tile.tileHashReader_ReadHashes_loop1 node ofBytes r (h : Int) (stx.map Int.ofNat) effLog fuel
          (pre.length : Int) (sto.map Int.ofNat ++ List.replicate xs.length (0 : Int)) og (tiles.map toGen) =
        .ok ((stx.length : Int), res.2.2.map Int.ofNat, og', res.1.map toGen) ∧ MapRel og' res.2.1 := by
  intro xs
  induction xs with
  | nil =>
    intro pre tiles order sto og fuel res hstx hsto _ hrel hm hf
    obtain ⟨g, rfl⟩ : ∃ g, fuel = g + 1 := ⟨fuel - 1, by omega⟩
    simp only [Tile.planStx, Except.ok.injEq] at hm
    subst hm
    simp only [List.append_nil] at hstx
    rw [hstx]
    have : ¬ ((pre.length : Int) < len (pre.map Int.ofNat)) := by simp [len]
    refine ⟨og, ?_, hrel⟩
    rw [Generated.Tile.tileHashReader_ReadHashes_loop1]
    simp only [this, decide_false, Bool.false_eq_true, ↓reduceIte, mpure, List.length_nil, List.replicate_zero,
      List.append_nil]
  | cons x xs ih =>
    intro pre tiles order sto og fuel res hstx hsto hval hrel hm hf
    obtain ⟨g, rfl⟩ : ∃ g, fuel = g + 1 := ⟨fuel - 1, by omega⟩
    simp only [List.length_cons] at hf
    have hlt : ((pre.length : Int) < len (stx.map Int.ofNat)) := by
      simp only [len, List.length_map, hstx, List.length_append, List.length_cons, Int.ofNat_eq_natCast]; omega
    have hidx : idxL (stx.map Int.ofNat) (pre.length : Int) = .ok (x : Int) := by
      rw [idxL_natCast' (by simp [hstx])]
      simp [hstx]
    obtain ⟨t0, s, e, hmt, hgt, hok⟩ := tfi_gen g h N x h1 h57 hN (hval x (by simp)) (by omega)
    have hpar := tileParent_gen h N t0 hok 0 (by omega) h57 hN
    have hpd := tileParent_data t0 0 N hok.data
    have hget := mapRel_get hrel _ hpd
    have hsetlen : pre.length < (sto.map Int.ofNat ++ List.replicate (xs.length + 1) (0 : Int)).length := by
      simp; omega
    have hset : ∀ v : Int, (sto.map Int.ofNat ++ List.replicate (xs.length + 1) (0 : Int)).set pre.length v =
        (sto ++ []).map Int.ofNat ++ [v] ++ List.replicate xs.length (0 : Int) := by
      intro v
      rw [List.set_append_right _ _ (by simp; omega)]
      simp [hsto, List.replicate_succ]
    have hstx' : stx = (pre ++ [x]) ++ xs := by rw [hstx]; simp
    have e1 : (pre.length : Int) + 1 = (((pre ++ [x]).length : Nat) : Int) := by simp
    rw [Generated.Tile.tileHashReader_ReadHashes_loop1]
    simp only [hlt, decide_true, ↓reduceIte, hidx, mbind_ok, hgt, hrN, Int.natCast_zero, List.length_cons] at hpar ⊢
    simp only [hpar, mbind_ok, hget]
    simp only [Tile.planStx, hmt, bind, Except.bind] at hm
    cases hlk : order.lookup (Tile.tileParent t0 0 N) with
    | some j =>
      rw [hlk] at hm
      simp only at hm
      obtain ⟨og', hg', hr'⟩ := ih (pre ++ [x]) tiles order (sto ++ [j]) og g res hstx' (by simp [hsto])
        (fun y hy => hval y (by simp [hy])) hrel hm (by omega)
      refine ⟨og', ?_, hr'⟩
      simp only [↓reduceIte, setIdxL_natCast hsetlen, mbind_ok, hset, e1, List.append_nil]
      rw [← hg']
      simp
    | none =>
      rw [hlk] at hm
      simp only at hm
      have hrel' := mapRel_set hrel _ hpd tiles.length
      obtain ⟨og', hg', hr'⟩ := ih (pre ++ [x]) (tiles ++ [Tile.tileParent t0 0 N])
        ((Tile.tileParent t0 0 N, tiles.length) :: order) (sto ++ [tiles.length]) _ g res hstx' (by simp [hsto])
        (fun y hy => hval y (by simp [hy])) hrel' hm (by omega)
      refine ⟨og', ?_, hr'⟩
      have hlen : len (tiles.map toGen) = ((tiles.length : Nat) : Int) := by simp [len]
      simp only [Bool.false_eq_true, ↓reduceIte, hlen, setIdxL_natCast hsetlen, mbind_ok, hset, e1, List.append_nil]
      rw [← hg']
      simp

/-! ### loop 3: walk up to a requested tile -/

theorem loop3_eq (h N : Nat) (h57 : h ≤ 57) (hN : N < 2 ^ 62) (hrN : r.tree.N = (N : Int))
    (t0 : Tile.Tile) (hok : TfiOK h N t0) (og : List (GTile × Int)) (order : List (Tile.Tile × Nat)) (hrel : MapRel og order)
    (i : Nat) (K j : Nat) :
    ∀ (f k fuel : Nat) (ito : List Int), Tile.walkUp N order t0 f k = .ok (K, j) → k + f ≤ 100 → f ≤ fuel → i < ito.length →
      Generated.Tile.tileHashReader_ReadHashes_loop3 node ofBytes r og (i : Int) (toGen t0) effLog fuel ito (k : Int) =
        .ok (if K = 0 then ito.set i (j : Int) else ito, (K : Int)) := by
  intro f
  induction f with
  | zero => intro k fuel ito hw; simp [Tile.walkUp] at hw
  | succ f ih =>
    intro k fuel ito hw hkf hf hi
    obtain ⟨g, rfl⟩ : ∃ g, fuel = g + 1 := ⟨fuel - 1, by omega⟩
    have hpar := tileParent_gen h N t0 hok k (by omega) h57 hN
    have hpd := tileParent_data t0 k N hok.data
    have hget := mapRel_get hrel _ hpd
    rw [Generated.Tile.tileHashReader_ReadHashes_loop3]
    simp only [hrN, hpar, mbind_ok, hget]
    unfold Tile.walkUp at hw
    cases hlk : order.lookup (Tile.tileParent t0 k N) with
    | some j' =>
      rw [hlk] at hw
      simp only [Except.ok.injEq, Prod.mk.injEq] at hw
      obtain ⟨rfl, rfl⟩ := hw
      by_cases hk0 : k = 0
      · subst hk0
        simp only [↓reduceIte, Int.natCast_zero, decide_true, setIdxL_natCast hi, mbind_ok, mpure]
      · have : ¬ ((k : Int) = 0) := by omega
        simp only [↓reduceIte, this, decide_false, Bool.false_eq_true, mpure, hk0]
    | none =>
      rw [hlk] at hw
      simp only at hw
      have e1 : (k : Int) + 1 = ((k + 1 : Nat) : Int) := by omega
      simp only [Bool.false_eq_true, ↓reduceIte, e1, chk64_natCast (show k + 1 < 2 ^ 63 by omega), mbind_ok]
      exact ih (k + 1) g ito hw (by omega) (by omega) hi

/-! ### loop 4: walk down recording the child tiles -/

theorem loop4_eq (h N : Nat) (h57 : h ≤ 57) (hN : N < 2 ^ 62) (hrN : r.tree.N = (N : Int))
    (t0 : Tile.Tile) (hok : TfiOK h N t0) (i x : Nat) :
    ∀ (K fuel : Nat) (tiles : List Tile.Tile) (order : List (Tile.Tile × Nat)) (pos : Option Nat)
      (og : List (GTile × Int)) (ito : List Int) (res : List Tile.Tile × List (Tile.Tile × Nat) × Option Nat),
      MapRel og order → Tile.walkDown N t0 K (tiles, order, pos) = .ok res → K ≤ 100 → K < fuel → i < ito.length →
      ∃ og' ito', Generated.Tile.tileHashReader_ReadHashes_loop4 node ofBytes r (i : Int) (x : Int) (toGen t0) effLog fuel
          og ito (tiles.map toGen) ((K : Int) - 1) = .ok (Ctl.next (og', ito', res.1.map toGen, (-1 : Int))) ∧
        MapRel og' res.2.1 ∧ (K = 0 → ito' = ito ∧ res.2.2 = pos) ∧
        (0 < K → ∃ p' : Nat, res.2.2 = some p' ∧ ito' = ito.set i (p' : Int)) := by
  intro K
  induction K with
  | zero =>
    intro fuel tiles order pos og ito res hrel hw _ hf hi
    obtain ⟨g, rfl⟩ : ∃ g, fuel = g + 1 := ⟨fuel - 1, by omega⟩
    simp only [Tile.walkDown, Except.ok.injEq] at hw
    subst hw
    refine ⟨og, ito, ?_, hrel, fun _ => ⟨rfl, rfl⟩, fun hc => by omega⟩
    rw [Generated.Tile.tileHashReader_ReadHashes_loop4]
    have : ¬ (((0 : Nat) : Int) - 1 ≥ 0) := by omega
    simp only [this, decide_false, Bool.false_eq_true, ↓reduceIte, mpure]
    rfl
  | succ K ih =>
    intro fuel tiles order pos og ito res hrel hw hK hf hi
    obtain ⟨g, rfl⟩ : ∃ g, fuel = g + 1 := ⟨fuel - 1, by omega⟩
    have e0 : ((K + 1 : Nat) : Int) - 1 = (K : Int) := by omega
    have hge : ((K : Int) ≥ 0) := by omega
    have hpar := tileParent_gen h N t0 hok K (by omega) h57 hN
    have hpd := tileParent_data t0 K N hok.data
    unfold Tile.walkDown at hw
    simp only at hw
    generalize hP : Tile.tileParent t0 K N = P at hw hpar hpd
    -- `P.h ≤ 57`: `P` is `Tile{}` or has height `h`
    have hPh : P.h ≤ 57 := by
      rw [← hP]
      unfold Tile.tileParent
      simp only
      split
      · split
        · simp [Tile.Tile.zero]
        · rw [hok.hh]; exact h57
      · rw [hok.hh]; exact h57
    have hpw : 2 ^ P.h < 2 ^ 63 := Nat.pow_lt_pow_right (by omega) (by omega)
    have hH : (toGen P).H = (P.h : Int) := rfl
    have hW : (toGen P).W = (P.w : Int) := rfl
    rw [Generated.Tile.tileHashReader_ReadHashes_loop4, e0]
    simp only [hge, decide_true, ↓reduceIte, hrN, hpar, mbind_ok, hH, hW, toU64_natCast (show P.h < 2 ^ 64 by omega),
      shl_one_natCast, chk64_natCast hpw]
    by_cases hfull : P.w = 2 ^ P.h
    · have hb : (P.w != 2 ^ P.h) = false := by simp [hfull]
      have hfull' : ((P.w : Int) = ((2 ^ P.h : Nat) : Int)) := by omega
      rw [hb] at hw
      simp only [Bool.false_eq_true, ↓reduceIte] at hw
      have hlen : len (tiles.map toGen) = ((tiles.length : Nat) : Int) := by simp [len]
      have hrel' := mapRel_set hrel P hpd tiles.length
      have e1 : (K : Int) - 1 = (K : Int) - 1 := rfl
      have hmap : tiles.map toGen ++ [toGen P] = (tiles ++ [P]).map toGen := by simp
      simp only [hfull', decide_true, Bool.not_true, Bool.false_eq_true, ↓reduceIte, hlen, hmap]
      by_cases hK0 : K = 0
      · subst hK0
        have hb0 : ((0 : Nat) == 0) = true := rfl
        rw [hb0] at hw
        simp only [↓reduceIte] at hw
        obtain ⟨og', ito', hg, hr', hz, _⟩ := ih g (tiles ++ [P]) ((P, tiles.length) :: order) (some tiles.length) _
          (ito.set i (tiles.length : Int)) res hrel' hw (by omega) (by omega) (by simp; exact hi)
        obtain ⟨hz1, hz2⟩ := hz rfl
        refine ⟨og', ito', ?_, hr', fun hc => by omega, fun _ => ⟨tiles.length, hz2, hz1⟩⟩
        have hc : chk64 (((0 : Nat) : Int) - 1) = .ok (((0 : Nat) : Int) - 1) := by
          apply chk64_ok <;> omega
        simp only [Int.natCast_zero, decide_true, ↓reduceIte, setIdxL_natCast hi, mbind_ok] at hg hc ⊢
        rw [hc]
        simp only [mbind_ok]
        exact hg
      · have hb0 : (K == 0) = false := by simp [hK0]
        rw [hb0] at hw
        simp only [Bool.false_eq_true, ↓reduceIte] at hw
        obtain ⟨og', ito', hg, hr', _, hp⟩ := ih g (tiles ++ [P]) ((P, tiles.length) :: order) pos _ ito res hrel' hw
          (by omega) (by omega) hi
        refine ⟨og', ito', ?_, hr', fun hc => by omega, fun _ => hp (by omega)⟩
        have hk0' : ¬ ((K : Int) = 0) := by omega
        have hc : chk64 ((K : Int) - 1) = .ok ((K : Int) - 1) := by
          apply chk64_ok <;> omega
        simp only [hk0', decide_false, Bool.false_eq_true, ↓reduceIte, hc, mbind_ok]
        exact hg
    · have hb : (P.w != 2 ^ P.h) = true := by simp [hfull]
      rw [hb] at hw
      simp at hw

/-! ### loop 2: the requested indexes -/

omit [DecidableEq H] [Inhabited H] in
theorem walkUp_bound (N : Nat) (order : List (Tile.Tile × Nat)) (t : Tile.Tile) (K j : Nat) :
    ∀ f k, Tile.walkUp N order t f k = .ok (K, j) → k ≤ K ∧ K < k + f := by
  intro f
  induction f with
  | zero => intro k hw; simp [Tile.walkUp] at hw
  | succ f ih =>
    intro k hw
    unfold Tile.walkUp at hw
    split at hw
    · simp only [Except.ok.injEq, Prod.mk.injEq] at hw
      omega
    · have := ih (k + 1) hw
      omega

omit [DecidableEq H] [Inhabited H] in
theorem walkUp_err (N : Nat) (order : List (Tile.Tile × Nat)) (t : Tile.Tile) (e : Tlog.Err) :
    ∀ f k, Tile.walkUp N order t f k = .error e → e = .fuel := by
  intro f
  induction f with
  | zero => intro k hw; simp only [Tile.walkUp, Except.error.injEq] at hw; exact hw.symm
  | succ f ih =>
    intro k hw
    unfold Tile.walkUp at hw
    split at hw
    · cases hw
    · exact ih (k + 1) hw

omit [DecidableEq H] [Inhabited H] in
theorem walkDown_err (N : Nat) (t : Tile.Tile) (e : Tlog.Err) :
    ∀ K st, Tile.walkDown N t K st = .error e → e = .badMath := by
  intro K
  induction K with
  | zero => intro st hw; simp [Tile.walkDown] at hw
  | succ K ih =>
    intro st hw
    obtain ⟨tiles, order, pos⟩ := st
    unfold Tile.walkDown at hw
    simp only at hw
    split at hw
    · simp only [Except.error.injEq] at hw; exact hw.symm
    · exact ih _ hw

/-- the result of the generated loop for a result of the model's `planIndexes` -/
theorem loop2_eq (h N : Nat) (h1 : 1 ≤ h) (h57 : h ≤ 57) (hN : N < 2 ^ 62) (hrN : r.tree.N = (N : Int))
    (idx : List Nat) :
    ∀ (xs pre : List Nat) (tiles : List Tile.Tile) (order : List (Tile.Tile × Nat)) (ito : List Nat)
      (og : List (GTile × Int)) (fuel : Nat),
      idx = pre ++ xs → ito.length = pre.length → MapRel og order →
      (∀ e, Tile.planIndexes h N xs (tiles, order, ito) = .error e → e = .indexRange) → xs.length + 170 ≤ fuel →
      match Tile.planIndexes h N xs (tiles, order, ito) with
      | .ok res => ∃ og', Generated.Tile.tileHashReader_ReadHashes_loop2 node ofBytes r (idx.map Int.ofNat) (h : Int) effLog fuel
            (pre.length : Int) (ito.map Int.ofNat ++ List.replicate xs.length (0 : Int)) og (tiles.map toGen) =
          .ok (Ctl.next ((idx.length : Int), res.2.2.map Int.ofNat, og', res.1.map toGen)) ∧ MapRel og' res.2.1
      | .error _ => Generated.Tile.tileHashReader_ReadHashes_loop2 node ofBytes r (idx.map Int.ofNat) (h : Int) effLog fuel
            (pre.length : Int) (ito.map Int.ofNat ++ List.replicate xs.length (0 : Int)) og (tiles.map toGen) =
          .ok (Ctl.ret ((([] : List H), some "indexes not in tree"), effLog)) := by
  intro xs
  induction xs with
  | nil =>
    intro pre tiles order ito og fuel hidx hito hrel _ hf
    obtain ⟨g, rfl⟩ : ∃ g, fuel = g + 1 := ⟨fuel - 1, by omega⟩
    simp only [List.append_nil] at hidx
    simp only [Tile.planIndexes]
    refine ⟨og, ?_, hrel⟩
    rw [hidx]
    have : ¬ ((pre.length : Int) < len (pre.map Int.ofNat)) := by simp [len]
    rw [Generated.Tile.tileHashReader_ReadHashes_loop2]
    simp only [this, decide_false, Bool.false_eq_true, ↓reduceIte, mpure, List.length_nil, List.replicate_zero,
      List.append_nil]
  | cons x xs ih =>
    intro pre tiles order ito og fuel hidx hito hrel hres hf
    obtain ⟨g, rfl⟩ : ∃ g, fuel = g + 1 := ⟨fuel - 1, by omega⟩
    simp only [List.length_cons] at hf
    have hlt : ((pre.length : Int) < len (idx.map Int.ofNat)) := by
      simp only [len, List.length_map, hidx, List.length_append, List.length_cons, Int.ofNat_eq_natCast]; omega
    have hix : idxL (idx.map Int.ofNat) (pre.length : Int) = .ok (x : Int) := by
      rw [idxL_natCast' (by simp [hidx])]
      simp [hidx]
    have hS := Tlog.S_le_two_mul N
    have hshi := StoredHashIndex_eq g 0 N (by rw [Tlog.storedHashIndex_zero_eq]; omega) (by omega)
    simp only [Int.natCast_zero] at hshi
    rw [Generated.Tile.tileHashReader_ReadHashes_loop2]
    simp only [hlt, decide_true, ↓reduceIte, hix, mbind_ok, hrN, hshi, List.length_cons]
    simp only [Tile.planIndexes, Tile.planIndex] at hres ⊢
    by_cases hx : x ≥ Tlog.storedHashIndex 0 N
    · have hx' : ((x : Int) ≥ ((Tlog.storedHashIndex 0 N : Nat) : Int)) := by omega
      simp only [hx, ↓reduceIte, bind, Except.bind, hx', decide_true, mpure]
    · have hx' : ¬ ((x : Int) ≥ ((Tlog.storedHashIndex 0 N : Nat) : Int)) := by omega
      have hv : ValidIdx N x := (TileAuth.hidx_of_lt N hN [x] (by intro y hy; simp at hy; subst hy; omega)) x (by simp)
      obtain ⟨t0, s, e, hmt, hgt, hok⟩ := tfi_gen g h N x h1 h57 hN hv (by omega)
      simp only [hx, ↓reduceIte, hmt, bind, Except.bind] at hres ⊢
      simp only [hx', decide_false, Bool.false_eq_true, ↓reduceIte, hgt, mbind_ok]
      have hlog : N.log2 < 62 := by
        by_cases h0 : N = 0
        · subst h0; simp
        · exact (Nat.log2_lt h0).mpr hN
      -- the walk up
      cases hwu : Tile.walkUp N order t0 (N.log2 + 2) 0 with
      | error e' =>
        rw [hwu] at hres
        have h2 := hres _ rfl
        have h3 := walkUp_err N order t0 e' _ _ hwu
        rw [h3] at h2
        cases h2
      | ok kj =>
        obtain ⟨K, j⟩ := kj
        rw [hwu] at hres
        simp only at hres ⊢
        obtain ⟨_, hKb⟩ := walkUp_bound N order t0 K j _ _ hwu
        have hslot : pre.length < (ito.map Int.ofNat ++ List.replicate (xs.length + 1) (0 : Int)).length := by
          simp; omega
        have hl3 := loop3_eq node ofBytes r effLog h N h57 hN hrN t0 hok og order hrel pre.length K j (N.log2 + 2) 0 g
          (ito.map Int.ofNat ++ List.replicate (xs.length + 1) (0 : Int)) hwu (by omega) (by omega) hslot
        simp only [Int.natCast_zero] at hl3
        simp only [hl3, mbind_ok]
        have hc : chk64 ((K : Int) - 1) = .ok ((K : Int) - 1) := by apply chk64_ok <;> omega
        simp only [hc, mbind_ok]
        -- the walk down
        cases hwd : Tile.walkDown N t0 K (tiles, order, if (K == 0) = true then some j else none) with
        | error e' =>
          rw [hwd] at hres
          have h2 := hres _ rfl
          have h3 := walkDown_err N t0 e' _ _ hwd
          rw [h3] at h2
          cases h2
        | ok res =>
          rw [hwd] at hres
          simp only at hres ⊢
          have hslot' : pre.length < (if K = 0 then (ito.map Int.ofNat ++ List.replicate (xs.length + 1) (0 : Int)).set pre.length (j : Int)
              else ito.map Int.ofNat ++ List.replicate (xs.length + 1) (0 : Int)).length := by
            split <;> simp <;> omega
          obtain ⟨og', ito', hg4, hr4, hz, hp⟩ := loop4_eq node ofBytes r effLog h N h57 hN hrN t0 hok pre.length x K g tiles order
            (if (K == 0) = true then some j else none) og _ res hrel hwd (by omega) (by omega) hslot'
          simp only [hg4, mbind_ok]
          -- the position of the index tile
          have hset : ∀ v : Int, (ito.map Int.ofNat ++ List.replicate (xs.length + 1) (0 : Int)).set pre.length v =
              (ito ++ []).map Int.ofNat ++ [v] ++ List.replicate xs.length (0 : Int) := by
            intro v
            rw [List.set_append_right _ _ (by simp; omega)]
            simp [hito, List.replicate_succ]
          have hpos : ∃ p : Nat, res.2.2 = some p ∧
              ito' = (ito ++ [p]).map Int.ofNat ++ List.replicate xs.length (0 : Int) := by
            by_cases hK0 : K = 0
            · obtain ⟨a, b⟩ := hz hK0
              subst hK0
              refine ⟨j, by rw [b]; rfl, ?_⟩
              rw [a]
              simp only [↓reduceIte, hset]
              simp
            · obtain ⟨p', a, b⟩ := hp (by omega)
              refine ⟨p', a, ?_⟩
              rw [b]
              simp only [hK0, ↓reduceIte, hset]
              simp
          obtain ⟨p, hp1, hp2⟩ := hpos
          obtain ⟨tiles1, order1, pos1⟩ := res
          simp only at hp1 hr4
          subst hp1
          simp only at hres ⊢
          have hidx' : idx = (pre ++ [x]) ++ xs := by rw [hidx]; simp
          have e1 : (pre.length : Int) + 1 = (((pre ++ [x]).length : Nat) : Int) := by simp
          have := ih (pre ++ [x]) tiles1 order1 (ito ++ [p]) og' g hidx' (by simp [hito]) hr4 hres (by omega)
          rw [hp2, e1]
          exact this

end
end ModVerif.TieFnTile
