/-
  C02 stage 4, part a: formatting a well-shaped tree (no end-of-line comments) and parsing the result.

  * `reparse_wf` — `parse name (format f)` succeeds and yields `f` with positions / identities erased and
    comment texts trimmed.
  * `format_idem_wf` — formatting that tree again gives the same bytes.
-/
import ModVerif.Proofs.ModfileFmtParse3
import ModVerif.Proofs.ModfileFmtRelex
namespace ModVerif.Proofs.ModfileFmtMain
open ModVerif ModVerif.Modfile ModVerif.Proofs.ModfileLex
open ModVerif.Proofs.ModfileFmtLex ModVerif.Proofs.ModfileFmtLine ModVerif.Proofs.ModfileFmtStream
open ModVerif.Proofs.ModfileFmtTree ModVerif.Proofs.ModfileFmtRender ModVerif.Proofs.ModfileFmtParse
open ModVerif.Proofs.ModfileFmtTrim

/-! ### comment assignment without end-of-line comments -/

/-- no `suffix` list of the statement is populated -/
def NoSuf : Expr → Prop
  | .commentBlock x => x.comments.suffix = []
  | .line l => l.comments.suffix = []
  | .lineBlock b => b.comments.suffix = [] ∧ b.lparen.comments.suffix = [] ∧
      (∀ l ∈ b.lines, l.comments.suffix = []) ∧ b.rparen.comments.suffix = []
  | .lparen x => x.comments.suffix = []
  | .rparen x => x.comments.suffix = []

theorem assignBefore_nil (p : Position) (cs : Comments) : assignBefore p cs [] = (cs, []) := by
  cases cs; simp [assignBefore, takeLine]

theorem preLines_nil : ∀ ls : List Line, preLines ls [] = (ls, []) := by
  intro ls
  induction ls with
  | nil => rfl
  | cons l ls ih => simp [preLines, assignBefore_nil, ih]

theorem preStmt_nil (s : Expr) : preStmt s [] = (s, []) := by
  cases s with
  | lineBlock b => simp [preStmt, assignBefore_nil, preLines_nil]
  | commentBlock x => simp [preStmt, assignBefore_nil, Expr.setComments, Expr.comments]
  | line x => simp [preStmt, assignBefore_nil, Expr.setComments, Expr.comments]
  | lparen x => simp [preStmt, assignBefore_nil, Expr.setComments, Expr.comments]
  | rparen x => simp [preStmt, assignBefore_nil, Expr.setComments, Expr.comments]

theorem preStmts_nil : ∀ ss : List Expr, preStmts ss [] = (ss, []) := by
  intro ss
  induction ss with
  | nil => rfl
  | cons s ss ih => simp [preStmts, preStmt_nil, ih]

theorem assignSuffix_nil (span : Position × Position) (cs : Comments) (h : cs.suffix = []) :
    assignSuffix span cs [] = (cs, []) := by
  cases cs
  simp only at h
  subst h
  unfold assignSuffix
  split <;> simp [takeSuffix]

theorem postLinesRev_nil : ∀ ls : List Line, (∀ l ∈ ls, l.comments.suffix = []) → postLinesRev ls [] = (ls, []) := by
  intro ls
  induction ls with
  | nil => intro _; rfl
  | cons l ls ih =>
    intro h
    simp [postLinesRev, assignSuffix_nil _ _ (h l (by simp)), ih (fun l' hl' => h l' (by simp [hl']))]

theorem postStmt_nil (s : Expr) (h : NoSuf s) : postStmt s [] = (s, []) := by
  cases s with
  | lineBlock b =>
    obtain ⟨h1, h2, h3, h4⟩ := h
    have hl := postLinesRev_nil b.lines.reverse (fun l hl => h3 l (by simpa using hl))
    simp [postStmt, assignSuffix_nil _ _ h1, assignSuffix_nil _ _ h2, assignSuffix_nil _ _ h4, hl]
  | commentBlock x => simp [postStmt, assignSuffix_nil _ _ (show x.comments.suffix = [] from h), Expr.setComments, Expr.comments]
  | line x => simp [postStmt, assignSuffix_nil _ _ (show x.comments.suffix = [] from h), Expr.setComments, Expr.comments]
  | lparen x => simp [postStmt, assignSuffix_nil _ _ (show x.comments.suffix = [] from h), Expr.setComments, Expr.comments]
  | rparen x => simp [postStmt, assignSuffix_nil _ _ (show x.comments.suffix = [] from h), Expr.setComments, Expr.comments]

theorem postStmtsRev_nil : ∀ ss : List Expr, (∀ s ∈ ss, NoSuf s) → postStmtsRev ss [] = (ss, []) := by
  intro ss
  induction ss with
  | nil => intro _; rfl
  | cons s ss ih =>
    intro h
    simp [postStmtsRev, postStmt_nil s (h s (by simp)), ih (fun s' hs' => h s' (by simp [hs']))]

/-- without end-of-line comments, comment assignment changes nothing -/
theorem assignComments_nil (name : Bytes) (ss : List Expr) (h : ∀ s ∈ ss, NoSuf s) :
    assignComments { name := name, stmts := ss } [] = { name := name, stmts := ss } := by
  have hp := postStmtsRev_nil ss.reverse (fun s hs => h s (by simpa using hs))
  simp [assignComments, assignBefore_nil, preStmts_nil, hp]

theorem wf_noSuf {s : Expr} (h : WFStmt s) : NoSuf s := by
  cases s with
  | commentBlock x => exact h.2.2.1
  | line l => exact (show WFLine l from h).suffix
  | lineBlock b =>
    have h : WFBlock b := h
    refine ⟨h.suffix, by rw [h.lparen], ?_, h.rsuffix⟩
    have : ∀ (ls : List Line) (allow : Bool), WFBlkLines allow ls → ∀ l ∈ ls, l.comments.suffix = [] := by
      intro ls
      induction ls with
      | nil => intro _ _ l hl; simp at hl
      | cons l0 ls ih =>
        intro allow hw l hl
        rcases List.mem_cons.1 hl with rfl | hl
        · exact hw.1.suffix
        · exact ih true hw.2 l hl
    exact this b.lines false h.lines
  | lparen x => exact absurd h id
  | rparen x => exact absurd h id

/-! ### erasure does not change shape or rendering -/

theorem eraseC_token (c : Comment) : (eraseC c).token = c.token := rfl
theorem eraseC_suffix (c : Comment) : (eraseC c).suffix = c.suffix := rfl

theorem rBefore_erase (m : Nat) (cs : List Comment) : rBefore m (cs.map eraseC) = rBefore m cs := by
  simp only [rBefore, List.flatMap_map, eraseC]
  rfl

theorem topBeforeOK_erase (cs : List Comment) : TopBeforeOK (cs.map eraseC) ↔ TopBeforeOK cs := by
  simp [TopBeforeOK, eraseC]

theorem blkBeforeOK_erase : ∀ (cs : List Comment) (allow : Bool), BlkBeforeOK allow (cs.map eraseC) ↔ BlkBeforeOK allow cs := by
  intro cs
  induction cs with
  | nil => intro _; simp [BlkBeforeOK]
  | cons c cs ih =>
    intro allow
    simp only [List.map_cons, BlkBeforeOK, eraseC_token, eraseC_suffix, ih]

theorem wfBlkLine_erase (allow : Bool) (l : Line) : WFBlkLine allow (eraseLine l) ↔ WFBlkLine allow l := by
  constructor
  · intro h
    exact ⟨h.ne, h.tok, h.first, (blkBeforeOK_erase _ _).1 h.before, by simpa [eraseLine, eraseCs] using h.suffix,
      by simpa [eraseLine, eraseCs] using h.after, h.inBlock⟩
  · intro h
    exact ⟨h.ne, h.tok, h.first, (blkBeforeOK_erase _ _).2 h.before, by simp [eraseLine, eraseCs, h.suffix],
      by simp [eraseLine, eraseCs, h.after], h.inBlock⟩

theorem wfBlkLines_erase : ∀ (ls : List Line) (allow : Bool), WFBlkLines allow (ls.map eraseLine) ↔ WFBlkLines allow ls := by
  intro ls
  induction ls with
  | nil => intro _; simp [WFBlkLines]
  | cons l ls ih => intro allow; simp only [List.map_cons, WFBlkLines, wfBlkLine_erase, ih]

theorem wfStmt_erase (s : Expr) : WFStmt (eraseExpr s) ↔ WFStmt s := by
  cases s with
  | commentBlock x =>
    simp only [eraseExpr, WFStmt, eraseCs, topBeforeOK_erase]
    simp
  | line l =>
    show WFLine (eraseLine l) ↔ WFLine l
    constructor
    · intro h
      exact ⟨h.ne, h.tok, h.tail, (topBeforeOK_erase _).1 h.before, by simpa [eraseLine, eraseCs] using h.suffix,
        by simpa [eraseLine, eraseCs] using h.after, h.inBlock⟩
    · intro h
      exact ⟨h.ne, h.tok, h.tail, (topBeforeOK_erase _).2 h.before, by simp [eraseLine, eraseCs, h.suffix],
        by simp [eraseLine, eraseCs, h.after], h.inBlock⟩
  | lineBlock b =>
    show WFBlock (eraseBlock b) ↔ WFBlock b
    constructor
    · intro h
      refine ⟨h.ne, h.tok, (topBeforeOK_erase _).1 h.before, by simpa [eraseBlock, eraseCs] using h.suffix,
        by simpa [eraseBlock, eraseCs] using h.after, ?_, (wfBlkLines_erase _ _).1 h.lines, ?_,
        by simpa [eraseBlock, eraseCs] using h.rsuffix, by simpa [eraseBlock, eraseCs] using h.rafter⟩
      · have := h.lparen
        simp only [eraseBlock, eraseCs] at this
        cases hc : b.lparen.comments
        rw [hc] at this
        simp_all
      · have := h.rbefore
        simp only [eraseBlock, List.isEmpty_map] at this
        exact (blkBeforeOK_erase _ _).1 this
    · intro h
      refine ⟨h.ne, h.tok, (topBeforeOK_erase _).2 h.before, by simp [eraseBlock, eraseCs, h.suffix],
        by simp [eraseBlock, eraseCs, h.after], by simp [eraseBlock, eraseCs, h.lparen],
        (wfBlkLines_erase _ _).2 h.lines, ?_, by simp [eraseBlock, eraseCs, h.rsuffix],
        by simp [eraseBlock, eraseCs, h.rafter]⟩
      simp only [eraseBlock, List.isEmpty_map]
      exact (blkBeforeOK_erase _ _).2 h.rbefore
  | lparen x => simp [eraseExpr, WFStmt]
  | rparen x => simp [eraseExpr, WFStmt]

theorem rStmt_erase (s : Expr) : rStmt (eraseExpr s) = rStmt s := by
  cases s with
  | commentBlock x => simp [eraseExpr, rStmt, eraseCs, rBefore_erase]
  | line l => simp [eraseExpr, rStmt, eraseLine, eraseCs, rBefore_erase]
  | lineBlock b =>
    have : (b.lines.map eraseLine).flatMap rLineS = b.lines.flatMap rLineS := by
      rw [List.flatMap_map]
      congr 1
      funext l
      simp [rLineS, eraseLine, eraseCs, rBefore_erase]
    simp [eraseExpr, rStmt, rBlock, eraseBlock, eraseCs, rBefore_erase, this]
  | lparen x => rfl
  | rparen x => rfl

theorem rStmts_congr : ∀ (a b : List Expr), a.map rStmt = b.map rStmt → rStmts a = rStmts b := by
  intro a
  induction a with
  | nil => intro b h; cases b <;> simp_all [rStmts]
  | cons x xs ih =>
    intro b h
    cases b with
    | nil => simp at h
    | cons y ys =>
      simp only [List.map_cons, List.cons.injEq] at h
      have := ih ys h.2
      cases xs with
      | nil =>
        cases ys with
        | nil => simp [rStmts, h.1]
        | cons _ _ => simp at h
      | cons x2 xs2 =>
        cases ys with
        | nil => simp at h
        | cons y2 ys2 => simp only [rStmts] at this ⊢; rw [h.1, this]

/-! ### normalisation -/

theorem rBefore_norm (m : Nat) (cs : List Comment) : rBefore m (cs.map normC) = rBefore m cs := by
  simp [rBefore, List.flatMap_map, normC, trimSpace_idem]

theorem rStmt_norm (s : Expr) : rStmt (normExpr s) = rStmt s := by
  cases s with
  | commentBlock x => simp [normExpr, rStmt, normCs, rBefore_norm]
  | line l => simp [normExpr, rStmt, normLine, normCs, rBefore_norm]
  | lineBlock b =>
    have : (b.lines.map normLine).flatMap rLineS = b.lines.flatMap rLineS := by
      rw [List.flatMap_map]
      congr 1
      funext l
      simp [rLineS, normLine, normCs, rBefore_norm]
    simp [normExpr, rStmt, rBlock, normBlock, normCs, rBefore_norm, this]
  | lparen x => rfl
  | rparen x => rfl

theorem normC_ok {c : Comment} (h : CommentOK c.token) : CommentOK (normC c).token := by
  obtain ⟨_, _, hok⟩ := trimSpace_comment h
  exact hok

theorem topBeforeOK_norm {cs : List Comment} (h : TopBeforeOK cs) : TopBeforeOK (cs.map normC) := by
  intro c hc
  obtain ⟨c0, hc0, rfl⟩ := List.mem_map.1 hc
  exact ⟨(h c0 hc0).1, normC_ok (h c0 hc0).2⟩

theorem blkBeforeOK_norm : ∀ (cs : List Comment) (allow : Bool), BlkBeforeOK allow cs → BlkBeforeOK allow (cs.map normC) := by
  intro cs
  induction cs with
  | nil => intro _ _; trivial
  | cons c cs ih =>
    intro allow h
    unfold BlkBeforeOK at h
    simp only [List.map_cons]
    unfold BlkBeforeOK
    by_cases he : c.token.isEmpty = true
    · simp only [he, if_true] at h
      have : c.token = [] := by simpa using he
      have hn : (normC c).token.isEmpty = true := by simp [normC, this, trimSpace_nil]
      simp only [hn, if_true]
      exact ⟨h.1, h.2.1, ih false h.2.2⟩
    · simp only [he, Bool.false_eq_true, if_false] at h
      have hok := normC_ok h.2.1
      obtain ⟨t, ht⟩ := commentOK_cons hok
      have hn : (normC c).token.isEmpty = false := by rw [ht]; rfl
      simp only [hn, Bool.false_eq_true, if_false]
      exact ⟨h.1, hok, ih true h.2.2⟩

theorem wfBlkLines_norm : ∀ (ls : List Line) (allow : Bool), WFBlkLines allow ls → WFBlkLines allow (ls.map normLine) := by
  intro ls
  induction ls with
  | nil => intro _ _; trivial
  | cons l ls ih =>
    intro allow h
    refine ⟨?_, ih true h.2⟩
    have hl := h.1
    exact ⟨hl.ne, hl.tok, hl.first, blkBeforeOK_norm _ _ hl.before, by simp [normLine, normCs, hl.suffix],
      by simp [normLine, normCs, hl.after], hl.inBlock⟩

theorem wfStmt_norm {s : Expr} (h : WFStmt s) : WFStmt (normExpr s) := by
  cases s with
  | commentBlock x =>
    obtain ⟨h1, h2, h3, h4⟩ := h
    exact ⟨by simpa [normCs] using h1, topBeforeOK_norm h2, by simp [normCs, h3], by simp [normCs, h4]⟩
  | line l =>
    have h : WFLine l := h
    exact ⟨h.ne, h.tok, h.tail, topBeforeOK_norm h.before, by simp [normLine, normCs, h.suffix],
      by simp [normLine, normCs, h.after], h.inBlock⟩
  | lineBlock b =>
    have h : WFBlock b := h
    refine ⟨h.ne, h.tok, topBeforeOK_norm h.before, by simp [normBlock, normCs, h.suffix],
      by simp [normBlock, normCs, h.after], by simp [normBlock, normCs, h.lparen],
      wfBlkLines_norm _ _ h.lines, ?_, by simp [normBlock, normCs, h.rsuffix], by simp [normBlock, normCs, h.rafter]⟩
    simp only [normBlock, List.isEmpty_map]
    exact blkBeforeOK_norm _ _ h.rbefore
  | lparen x => exact absurd h id
  | rparen x => exact absurd h id

theorem eraseC_normC (c : Comment) : eraseC (normC c) = normC c := rfl

theorem eraseExpr_norm (s : Expr) : eraseExpr (normExpr s) = normExpr s := by
  cases s with
  | commentBlock x => simp [eraseExpr, normExpr, eraseCs, normCs, eraseC_normC]
  | line l => simp [eraseExpr, normExpr, eraseLine, normLine, eraseCs, normCs, eraseC_normC]
  | lineBlock b =>
    have : ∀ l : Line, eraseLine (normLine l) = normLine l := by
      intro l; simp [eraseLine, normLine, eraseCs, normCs, eraseC_normC]
    simp [eraseExpr, normExpr, eraseBlock, normBlock, eraseCs, normCs, eraseC_normC, this]
  | lparen x => simp [eraseExpr, normExpr, eraseCs, normCs, eraseC_normC]
  | rparen x => simp [eraseExpr, normExpr, eraseCs, normCs, eraseC_normC]

/-! ### parse ∘ format on well-shaped trees -/

/-- the end-of-line comments the lexer records while parsing `x` (in reverse source order) -/
def eolComments (x : Bytes) : List Comment :=
  match parseFile x with
  | .ok (_, i) => i.commentsRev
  | .error _ => []

theorem newInput_lineStart (data : Bytes) : LineStart (newInput data) := rfl

/-- ★ Formatting a well-shaped tree without header comments and parsing the result succeeds; the new
    tree is the old one with positions and line identities erased and every comment text trimmed; and
    the lexer recorded no end-of-line comment. -/
theorem reparse_wf (name : Bytes) (f : FileSyntax) (hwf : WFStmts f.stmts) (hc : f.comments.before = []) :
    ∃ t', parse name (format f) = .ok t' ∧
      eraseFile t' = { name := name, comments := {}, stmts := f.stmts.map normExpr } ∧
      WFStmts t'.stmts ∧ t'.comments = {} ∧ eolComments (format f) = [] := by
  rw [format_eq_rStmts f hwf hc]
  have hlex := lexes_rStmts f.stmts hwf
  obtain ⟨i0, hr0, _, hc0, hS0⟩ := hlex (newInput (rStmts f.stmts)) rfl (fun _ => newInput_lineStart _)
  have hwfn : WFStmts (f.stmts.map normExpr) := by
    intro s hs
    obtain ⟨s0, hs0, rfl⟩ := List.mem_map.1 hs
    exact wfStmt_norm (hwf s0 hs0)
  -- fuel
  have hm : ModfileParse.m i0 ≤ (rStmts f.stmts).length := by
    rcases readToken_spec (newInput (rStmts f.stmts)) with ⟨i1, h1, hle, hlt, _⟩ | ⟨e, h1, _⟩
    · rw [hr0] at h1
      have : i0 = i1 := by cases h1; rfl
      subst this
      have hrem : (newInput (rStmts f.stmts)).remaining = rStmts f.stmts := rfl
      rw [hrem] at hle hlt
      unfold ModfileParse.m
      by_cases hk : i0.token.kind = .eof
      · simp only [hk, if_true]; omega
      · have := hlt hk
        simp only [hk, if_false]; omega
    · rw [hr0] at h1; cases h1
  have hlen := Stream.length_le _ _ hS0
  obtain ⟨out, i', hres, hout, hc'⟩ := parseFileLoop_stream (f.stmts.map normExpr) i0 []
    ((rStmts f.stmts).length + 2) hwfn hS0 (by omega)
  have hcr : i'.commentsRev = [] := by rw [hc', hc0]; rfl
  -- the statements returned are well-shaped (erasure-invariant)
  have hwfo : WFStmts out := by
    intro s hs
    apply (wfStmt_erase s).1
    have : eraseExpr s ∈ out.map eraseExpr := List.mem_map_of_mem hs
    rw [hout] at this
    obtain ⟨s0, hs0, heq⟩ := List.mem_map.1 this
    rw [← heq]
    exact (wfStmt_erase s0).2 (hwfn s0 hs0)
  have hassign := assignComments_nil name out (fun s hs => wf_noSuf (hwfo s hs))
  have heol : eolComments (rStmts f.stmts) = [] := by
    unfold eolComments parseFile
    simp only [hr0, bind, Except.bind, hres]
    exact hcr
  refine ⟨{ name := name, stmts := out }, ?_, ?_, hwfo, rfl, heol⟩
  · unfold parse parseFile
    simp only [hr0, bind, Except.bind, hres, List.reverse_nil, List.nil_append, hcr, hassign]
  · simp only [eraseFile, hout, List.map_map]
    congr 1
    apply List.map_congr_left
    intro s _
    exact eraseExpr_norm s

/-- ★ Formatting is idempotent on well-shaped trees: the tree obtained by parsing the formatted text
    formats to the same bytes. -/
theorem format_idem_wf (name : Bytes) (f : FileSyntax) (hwf : WFStmts f.stmts) (hc : f.comments.before = [])
    (t' : FileSyntax) (h : parse name (format f) = .ok t') : format t' = format f := by
  obtain ⟨t2, h2, he, hwf2, hc2, _⟩ := reparse_wf name f hwf hc
  rw [h] at h2
  have : t' = t2 := by cases h2; rfl
  subst this
  rw [format_eq_rStmts t' hwf2 (by rw [hc2]), format_eq_rStmts f hwf hc]
  apply rStmts_congr
  have hs : t'.stmts.map eraseExpr = f.stmts.map normExpr := by
    have := congrArg FileSyntax.stmts he
    simpa [eraseFile] using this
  have h1 : t'.stmts.map rStmt = (t'.stmts.map eraseExpr).map rStmt := by
    simp [List.map_map, Function.comp_def, rStmt_erase]
  rw [h1, hs]
  simp [List.map_map, Function.comp_def, rStmt_norm]

end ModVerif.Proofs.ModfileFmtMain
