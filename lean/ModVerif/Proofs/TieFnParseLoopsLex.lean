/-
  Helper lemmas for Tie/FnParse.lean, part "Lex": the LEXER of the parser unit (Generated/FnParse.lean, namespace
  ModVerif.Generated.Parse: input.readRune … input.lex) is the same Go code as the lexer unit (Generated/FnLex.lean,
  namespace ModVerif.Generated.Lex) whose ties are Tie/FnLex.lean; the `input` struct of the parser unit has three more
  fields (`file`, `pre`, `post`) and the unit has its own copies of `Position`, `Comment`, `token`.

  `lift f pre post li` is the parser-unit `input` that carries the lexer-unit state `li` and the three extra fields.
  Every lexer function of the parser unit commutes with `lift` and leaves the three extra fields unchanged:
      Parse.input_X (lift f pre post li) = (Lex.input_X li).map (… lift f pre post …).
  With them the ties of Tie/FnLex.lean transport to the parser unit (`readTokenP_eq`, `lexP_eq` at the end).
-/
import ModVerif.Generated.FnParse
import ModVerif.Proofs.TieFnLexC
set_option linter.unusedSimpArgs false
set_option linter.unusedVariables false
namespace ModVerif.TieFnParse
open ModVerif ModVerif.GoRt ModVerif.Modfile
open ModVerif.Drv.LexOps.G (isPrintI isSpaceI)
open ModVerif.Drv.LexOps.M (kindCode)

/-! ### the three value structs, lexer unit → parser unit -/

def posP (p : Generated.Lex.Position) : Generated.Parse.Position := { Line := p.Line, LineRune := p.LineRune, Byte := p.Byte }

def comP (c : Generated.Lex.Comment) : Generated.Parse.Comment := { Start := posP c.Start, Token := c.Token, Suffix := c.Suffix }

def tokP (t : Generated.Lex.token) : Generated.Parse.token :=
  { kind := t.kind, pos := posP t.pos, endPos := posP t.endPos, text := t.text }

/-- the parser-unit lexer state: the lexer-unit state `li` plus the three extra fields -/
def lift (f : Int) (pre post : List Generated.Parse.Expr) (li : Generated.Lex.input) : Generated.Parse.input :=
  { complete := li.complete, remaining := li.remaining, tokenStart := li.tokenStart, token := tokP li.token,
    pos := posP li.pos, comments := li.comments.map comP, file := f, pre := pre, post := post }

/-- map a result `(r, li)` of a lexer-unit method to the parser unit -/
def liftR {ρ : Type} (f : Int) (pre post : List Generated.Parse.Expr) :
    M (ρ × Generated.Lex.input) → M (ρ × Generated.Parse.input)
  | .ok (r, li) => .ok (r, lift f pre post li)
  | .error e => .error e

def liftI (f : Int) (pre post : List Generated.Parse.Expr) : M Generated.Lex.input → M Generated.Parse.input
  | .ok li => .ok (lift f pre post li)
  | .error e => .error e

def liftC {ρ : Type} (f : Int) (pre post : List Generated.Parse.Expr) :
    M (Ctl (ρ × Generated.Lex.input) Generated.Lex.input) → M (Ctl (ρ × Generated.Parse.input) Generated.Parse.input)
  | .ok (.ret (r, li)) => .ok (.ret (r, lift f pre post li))
  | .ok (.next li) => .ok (.next (lift f pre post li))
  | .error e => .error e

variable (f : Int) (pre post : List Generated.Parse.Expr)

/-! ### leaf methods -/

theorem isIdent_P (P S : Int → Bool) (c : Int) : Generated.Parse.isIdent P S c = Generated.Lex.isIdent P S c := rfl

theorem eof_lift (li : Generated.Lex.input) :
    Generated.Parse.input_eof (lift f pre post li) = Generated.Lex.input_eof li := rfl

theorem peekRune_lift (li : Generated.Lex.input) :
    Generated.Parse.input_peekRune (lift f pre post li) = Generated.Lex.input_peekRune li := rfl

theorem peek_lift (li : Generated.Lex.input) :
    Generated.Parse.input_peek (lift f pre post li) = Generated.Lex.input_peek li := rfl

theorem isComment_P (k : Int) : Generated.Parse.tokenKind_isComment k = Generated.Lex.tokenKind_isComment k := rfl

theorem isEOL_P (k : Int) : Generated.Parse.tokenKind_isEOL k = Generated.Lex.tokenKind_isEOL k := rfl

theorem peekPrefix_loop1_lift (li : Generated.Lex.input) (p : Bytes) : ∀ (fuel : Nat) (i : Int),
    Generated.Parse.input_peekPrefix_loop1 (lift f pre post li) p fuel i =
      Generated.Lex.input_peekPrefix_loop1 li p fuel i := by
  intro fuel
  induction fuel with
  | zero => intro i; rfl
  | succ n ih =>
    intro i
    unfold Generated.Parse.input_peekPrefix_loop1 Generated.Lex.input_peekPrefix_loop1
    simp only [ih]
    rfl

theorem peekPrefix_lift (li : Generated.Lex.input) (p : Bytes) (fuel : Nat) :
    Generated.Parse.input_peekPrefix fuel (lift f pre post li) p = Generated.Lex.input_peekPrefix fuel li p := by
  unfold Generated.Parse.input_peekPrefix Generated.Lex.input_peekPrefix
  simp only [peekPrefix_loop1_lift]
  rfl

theorem readRune_lift (li : Generated.Lex.input) :
    Generated.Parse.input_readRune (lift f pre post li) = liftR f pre post (Generated.Lex.input_readRune li) := by
  unfold Generated.Parse.input_readRune Generated.Lex.input_readRune
  simp only [show (lift f pre post li).remaining = li.remaining from rfl]
  split
  · rfl
  · cases sliceFrom li.remaining (decodeRune li.remaining).2 with
    | error e => rfl
    | ok t =>
      simp only [bind_ok]
      split <;> rfl

theorem startToken_lift (li : Generated.Lex.input) :
    Generated.Parse.input_startToken (lift f pre post li) = ((), lift f pre post (Generated.Lex.input_startToken li).2) := rfl

theorem endToken_lift (li : Generated.Lex.input) (k : Int) :
    Generated.Parse.input_endToken (lift f pre post li) k = liftR f pre post (Generated.Lex.input_endToken li k) := by
  unfold Generated.Parse.input_endToken Generated.Lex.input_endToken
  simp only [show (lift f pre post li).remaining = li.remaining from rfl,
    show (lift f pre post li).tokenStart = li.tokenStart from rfl, isComment_P]
  cases sliceTo li.tokenStart (len li.tokenStart - len li.remaining) with
  | error e => rfl
  | ok t =>
    simp only [bind_ok]
    split
    · split
      · cases sliceTo t (len t - 2) with
        | error e => rfl
        | ok t2 => rfl
      · rfl
    · rfl

/-! ### the lifts commute with the monad structure -/

variable {f pre post}

@[simp] theorem liftI_ok (li : Generated.Lex.input) : liftI f pre post (.ok li) = .ok (lift f pre post li) := rfl
@[simp] theorem liftI_pure (li : Generated.Lex.input) : liftI f pre post (pure li) = pure (lift f pre post li) := rfl
@[simp] theorem liftI_error (e : Err) : liftI f pre post (.error e) = .error e := rfl
@[simp] theorem liftI_throw (e : Err) : liftI f pre post (throw e) = throw e := rfl
@[simp] theorem liftR_ok {ρ : Type} (r : ρ) (li : Generated.Lex.input) :
    liftR f pre post (.ok (r, li)) = .ok (r, lift f pre post li) := rfl
@[simp] theorem liftR_pure {ρ : Type} (r : ρ) (li : Generated.Lex.input) :
    liftR f pre post (pure (r, li)) = pure (r, lift f pre post li) := rfl
@[simp] theorem liftR_error {ρ : Type} (e : Err) : liftR (ρ := ρ) f pre post (.error e) = .error e := rfl
@[simp] theorem liftR_throw {ρ : Type} (e : Err) : liftR (ρ := ρ) f pre post (throw e) = throw e := rfl
@[simp] theorem liftC_pure_ret {ρ : Type} (r : ρ) (li : Generated.Lex.input) :
    liftC f pre post (pure (Ctl.ret (r, li))) = pure (Ctl.ret (r, lift f pre post li)) := rfl
@[simp] theorem liftC_pure_next {ρ : Type} (li : Generated.Lex.input) :
    liftC (ρ := ρ) f pre post (pure (Ctl.next li)) = pure (Ctl.next (lift f pre post li)) := rfl
@[simp] theorem liftC_throw {ρ : Type} (e : Err) : liftC (ρ := ρ) f pre post (throw e) = throw e := rfl

theorem liftI_bind {α : Type} (x : M α) (k : α → M Generated.Lex.input) :
    liftI f pre post (x >>= k) = x >>= fun a => liftI f pre post (k a) := by
  cases x <;> rfl

theorem liftR_bind {α ρ : Type} (x : M α) (k : α → M (ρ × Generated.Lex.input)) :
    liftR f pre post (x >>= k) = x >>= fun a => liftR f pre post (k a) := by
  cases x <;> rfl

theorem liftC_bind {α ρ : Type} (x : M α) (k : α → M (Ctl (ρ × Generated.Lex.input) Generated.Lex.input)) :
    liftC f pre post (x >>= k) = x >>= fun a => liftC f pre post (k a) := by
  cases x <;> rfl

theorem bind_liftR {ρ β : Type} (x : M (ρ × Generated.Lex.input)) (k : ρ × Generated.Parse.input → M β) :
    liftR f pre post x >>= k = x >>= fun p => k (p.1, lift f pre post p.2) := by
  cases x with
  | error e => rfl
  | ok p => rfl

theorem bind_liftI {β : Type} (x : M Generated.Lex.input) (k : Generated.Parse.input → M β) :
    liftI f pre post x >>= k = x >>= fun p => k (lift f pre post p) := by
  cases x with
  | error e => rfl
  | ok p => rfl

/-! ### the hoisted loops of readToken -/

theorem loop2_lift (P S : Int → Bool) : ∀ (fuel : Nat) (li : Generated.Lex.input),
    Generated.Parse.input_readToken_loop2 P S fuel (lift f pre post li) =
      liftI f pre post (Generated.Lex.input_readToken_loop2 P S fuel li) := by
  intro fuel
  induction fuel with
  | zero => intro li; rfl
  | succ n ih =>
    intro li
    unfold Generated.Parse.input_readToken_loop2 Generated.Lex.input_readToken_loop2
    simp only [show (lift f pre post li).remaining = li.remaining from rfl, readRune_lift, liftI_bind, bind_liftR,
      apply_ite (liftI f pre post), liftI_pure]
    split
    · simp only [bind_assoc, pure_bind, ih]
    · simp only [pure_bind, Bool.false_eq_true, if_false]

theorem loop3_lift (P S : Int → Bool) (q : Int) : ∀ (fuel : Nat) (li : Generated.Lex.input),
    Generated.Parse.input_readToken_loop3 P S q fuel (lift f pre post li) =
      liftI f pre post (Generated.Lex.input_readToken_loop3 P S q fuel li) := by
  intro fuel
  induction fuel with
  | zero => intro li; rfl
  | succ n ih =>
    intro li
    unfold Generated.Parse.input_readToken_loop3 Generated.Lex.input_readToken_loop3
    simp only [eof_lift, peekRune_lift, readRune_lift, liftI_bind, bind_liftR,
      apply_ite (liftI f pre post), liftI_pure, liftI_throw, ih]
    rfl

theorem loop4_lift (P S : Int → Bool) : ∀ (fuel : Nat) (li : Generated.Lex.input),
    Generated.Parse.input_readToken_loop4 P S fuel (lift f pre post li) =
      liftI f pre post (Generated.Lex.input_readToken_loop4 P S fuel li) := by
  intro fuel
  induction fuel with
  | zero => intro li; rfl
  | succ n ih =>
    intro li
    unfold Generated.Parse.input_readToken_loop4 Generated.Lex.input_readToken_loop4
    simp only [peekRune_lift, peekPrefix_lift, readRune_lift, isIdent_P, liftI_bind, bind_liftR,
      apply_ite (liftI f pre post), liftI_pure, liftI_throw, ih]

@[simp] theorem lift_complete (li : Generated.Lex.input) : (lift f pre post li).complete = li.complete := rfl
@[simp] theorem lift_remaining (li : Generated.Lex.input) : (lift f pre post li).remaining = li.remaining := rfl
@[simp] theorem lift_tokenStart (li : Generated.Lex.input) : (lift f pre post li).tokenStart = li.tokenStart := rfl
@[simp] theorem lift_token (li : Generated.Lex.input) : (lift f pre post li).token = tokP li.token := rfl
@[simp] theorem lift_pos (li : Generated.Lex.input) : (lift f pre post li).pos = posP li.pos := rfl
@[simp] theorem lift_comments (li : Generated.Lex.input) : (lift f pre post li).comments = li.comments.map comP := rfl
@[simp] theorem lift_file (li : Generated.Lex.input) : (lift f pre post li).file = f := rfl
@[simp] theorem lift_pre (li : Generated.Lex.input) : (lift f pre post li).pre = pre := rfl
@[simp] theorem lift_post (li : Generated.Lex.input) : (lift f pre post li).post = post := rfl
@[simp] theorem posP_Byte (p : Generated.Lex.Position) : (posP p).Byte = p.Byte := rfl
@[simp] theorem posP_Line (p : Generated.Lex.Position) : (posP p).Line = p.Line := rfl
@[simp] theorem posP_LineRune (p : Generated.Lex.Position) : (posP p).LineRune = p.LineRune := rfl
@[simp] theorem tokP_kind (t : Generated.Lex.token) : (tokP t).kind = t.kind := rfl
@[simp] theorem tokP_pos (t : Generated.Lex.token) : (tokP t).pos = posP t.pos := rfl
@[simp] theorem tokP_endPos (t : Generated.Lex.token) : (tokP t).endPos = posP t.endPos := rfl
@[simp] theorem tokP_text (t : Generated.Lex.token) : (tokP t).text = t.text := rfl

theorem lift_addComment (li : Generated.Lex.input) (b : Bool) :
    ({ complete := li.complete, remaining := li.remaining, tokenStart := li.tokenStart, token := tokP li.token,
       pos := posP li.pos,
       comments := li.comments.map comP ++ [{ Start := posP li.token.pos, Token := li.token.text, Suffix := b }],
       file := f, pre := pre, post := post } : Generated.Parse.input) =
    lift f pre post { complete := li.complete, remaining := li.remaining, tokenStart := li.tokenStart, token := li.token,
                      pos := li.pos,
                      comments := li.comments ++ [{ Start := li.token.pos, Token := li.token.text, Suffix := b }] } := by
  simp [lift, comP]

theorem loop1_lift (P S : Int → Bool) : ∀ (fuel : Nat) (li : Generated.Lex.input),
    Generated.Parse.input_readToken_loop1 P S fuel (lift f pre post li) =
      liftC f pre post (Generated.Lex.input_readToken_loop1 P S fuel li) := by
  intro fuel
  induction fuel with
  | zero => intro li; rfl
  | succ n ih =>
    intro li
    unfold Generated.Parse.input_readToken_loop1 Generated.Lex.input_readToken_loop1
    simp only [eof_lift, peekRune_lift, peekPrefix_lift, readRune_lift, startToken_lift, endToken_lift, loop2_lift,
      liftC_bind, bind_liftR, bind_liftI, apply_ite (liftC f pre post), liftC_pure_ret, liftC_pure_next, liftC_throw, ih,
      lift_complete, lift_remaining, lift_tokenStart, lift_token, lift_pos, lift_comments, lift_file, lift_pre, lift_post,
      posP_Byte, tokP_pos, tokP_text, lift_addComment]
    rfl

theorem readToken_lift (P S : Int → Bool) (fuel : Nat) (li : Generated.Lex.input) :
    Generated.Parse.input_readToken P S fuel (lift f pre post li) =
      liftR f pre post (Generated.Lex.input_readToken P S fuel li) := by
  unfold Generated.Parse.input_readToken Generated.Lex.input_readToken
  rw [loop1_lift]
  cases Generated.Lex.input_readToken_loop1 P S fuel li with
  | error e => rfl
  | ok c =>
    cases c with
    | ret r => obtain ⟨u, l⟩ := r; rfl
    | next l =>
      simp only [liftC, bind_ok, eof_lift, peekRune_lift, readRune_lift, startToken_lift, endToken_lift, loop3_lift,
        loop4_lift, isIdent_P, liftR_bind, bind_liftR, bind_liftI, apply_ite (liftR f pre post), liftR_pure, liftR_throw]
      rfl

theorem lex_lift (P S : Int → Bool) (fuel : Nat) (li : Generated.Lex.input) :
    Generated.Parse.input_lex P S fuel (lift f pre post li) =
      (match Generated.Lex.input_lex P S fuel li with
       | .ok (t, l) => .ok (tokP t, lift f pre post l)
       | .error e => .error e) := by
  unfold Generated.Parse.input_lex Generated.Lex.input_lex
  rw [readToken_lift]
  cases Generated.Lex.input_readToken P S fuel li with
  | error e => rfl
  | ok p => rfl

end ModVerif.TieFnParse
