/-
  Tie proofs for the regenerated sumdb client (Generated/FnClient.lean), SHARED REPRESENTATION.

  * `GS σ = σ × List Client.Effect`: the state behind `ClientOps` on the generated side carries the model's state and the
    model's effect trace; `GW σ H = CW (GS σ) H` is the generated world.
  * `envOf P E : ClientEnv (GS σ) H`: the generated environment built from the model's `Params` / `Env` exactly as
    `Drv/GenClient.lean` builds its `env` (error texts "remote" / "cache" / "config", `ErrWriteConflict`); `envOf_driver`
    proves that the driver's `env` IS `envOf (shaParams …) replayEnv`.
  * `errAbs : String → Client.Err`: the abstraction of the error texts of the generated code to the model's error kinds
    (wrappers "%s@%s: %v", "initializing sumdb.Client: %v", "checking tree#…: %v" are transparent, as in the model), with
    `RepErr`, and the result relations `RepRes` (`α × Option String` against `Except Err α`), `RepUnit`, `RepCached`.
  * `toGen` (Proofs/TieFnTile.lean) embeds model tiles; it is injective on `TOk` tiles (`data → l = 0`).
  * `RepCore P E w cw`: what holds at every moment (state + trace, name, verifiers, nosumdb, the two parCache tables and
    `tileSaved` pointwise, `latest.N`, `latestMsg`); `RepRun` = core + tile height + `latest.Hash` (the running client,
    also inside `initWork` after the first assignments); `RepW` = core + `RepInit` (`initOnce`/`initErr` against `inited`;
    between two `Lookup` calls).  The tile / tree ties are stated on `RepCore` (+ `FrameG`/`FrameM`: what they leave alone).
  * `rep_init`: the initial worlds correspond (`cw0` is the driver's `w0`).
  * the six external operations: same answer, the generated world changes only in `s` (`readCache_eq`, …, `withS`).
-/
import ModVerif.Generated.FnClient
import ModVerif.Model.Client
import ModVerif.Proofs.TieFnTile
import ModVerif.Proofs.TieFnNoteUtf8
import ModVerif.Proofs.TieFnNoteOpen
import ModVerif.Proofs.GoRtLemmasTile
import ModVerif.Drv.GenModule
import ModVerif.Drv.GenClient
namespace ModVerif.TieFnClientRep
open ModVerif ModVerif.GoRt ModVerif.GoRtTile ModVerif.Generated.SumdbClient
open ModVerif.TieFnTile (toGen ofGen GTile)

/-- the state behind `ClientOps` on the generated side: the model's state and the model's effect trace -/
abbrev GS (σ : Type) := σ × List Client.Effect
/-- the generated world -/
abbrev GW (σ H : Type) := CW (GS σ) H

/-! ### error texts -/

/-- the wrappers the model does not see (`fmt.Errorf("…: %v", err)` around an error the model passes on unchanged) -/
def passLits : List String :=
  ["%s@%s: %v", "initializing sumdb.Client: %v", "checking tree#%d: %v", "checking tree#%d against tree#%d: %v"]

/-- `lit ++ "|" ++ rest` for one of the transparent wrappers: `rest` -/
def stripPass (l : List Char) : Option (List Char) :=
  passLits.findSome? fun lit => if (lit.toList ++ ['|']).isPrefixOf l then some (l.drop (lit.length + 1)) else none

/-- the error kind of an unwrapped text -/
def classify (l : List Char) : Client.Err :=
  let pre (p : String) : Bool := p.toList.isPrefixOf l
  if l = "ErrGONOSUMDB".toList then .gonosumdb
  else if l = "ErrSecurity".toList then .security
  else if l = "remote".toList then .remote
  else if l = "config".toList ∨ l = "cache".toList ∨ l = "ErrWriteConflict".toList then .config
  else if l = "errVerifierID".toList then .key .id
  else if l = "errVerifierAlg".toList then .key .alg
  else if l = "errVerifierHash".toList then .key .hash
  else if pre "InvalidPathError|" ∨ pre "InvalidVersionError|" ∨ l = "internal error: inconsistency in EscapePath".toList then .escape
  else if l = "errMalformedRecord".toList then .recordSyntax
  else if l = "cannot validate record %d in tree of size %d".toList then .recordId
  else if l = "cannot authenticate record data in server response".toList then .recordHash
  else if pre "reading tree note: %v\nnote:\n%s|" ∨ pre "reading tree: %v\ntree:\n%s|" then .note
  else if l = "TileReader returned bad result slice (%v len=%d, want %d)".toList then .tileLen
  else if l = "TileReader returned bad result slice (len=%d, want %d)".toList then .tlog .badTile
  else if l = "downloaded inconsistent tile".toList then .tlog .inconsistent
  else if l = "indexes not in tree".toList then .tlog .indexRange
  else if pre "bad math in tileHashReader" then .tlog .badMath
  else if l = "tlog: invalid inputs in ProveTree".toList ∨ l = "tlog: invalid inputs in ProveRecord".toList then .tlog .invalid
  else if l = "tlog: ReadHashes(%d indexes) = %d hashes".toList then .tlog .reader
  else .tlog .badTile

/-- strip transparent wrappers (fuel: the length of the text), then classify -/
def errAbsL : Nat → List Char → Client.Err
  | 0, l => classify l
  | f + 1, l =>
    match stripPass l with
    | some rest => errAbsL f rest
    | none => classify l

/-- the model's error kind of an error text of the generated code -/
def errAbs (s : String) : Client.Err := errAbsL s.length s.toList

/-- a Go `error` value of the generated code represents the model's error kind `e` -/
def RepErr (g : Option String) (e : Client.Err) : Prop := ∃ s, g = some s ∧ errAbs s = e

theorem stripPass_length (l r : List Char) (h : stripPass l = some r) : r.length < l.length := by
  unfold stripPass at h
  obtain ⟨lit, _, h⟩ := List.exists_of_findSome?_eq_some h
  split at h
  · rename_i hp
    cases h
    have hl := (List.isPrefixOf_iff_prefix.mp hp).length_le
    simp only [List.length_append, List.length_cons, List.length_nil, String.length_toList] at hl
    simp only [List.length_drop]
    omega
  · cases h

/-- enough fuel is as good as any -/
theorem errAbsL_fuel : ∀ (f g : Nat) (l : List Char), l.length ≤ f → l.length ≤ g → errAbsL f l = errAbsL g l := by
  intro f
  induction f with
  | zero =>
    intro g l hf hg
    have : l = [] := List.eq_nil_of_length_eq_zero (by omega)
    subst this
    cases g <;> rfl
  | succ f ih =>
    intro g l hf hg
    cases g with
    | zero =>
      have : l = [] := List.eq_nil_of_length_eq_zero (by omega)
      subst this
      rfl
    | succ g =>
      simp only [errAbsL]
      cases hs : stripPass l with
      | none => rfl
      | some r =>
        have := stripPass_length l r hs
        exact ih g r (by omega) (by omega)

theorem errAbs_eq (s : String) (f : Nat) (hf : s.length ≤ f) : errAbs s = errAbsL f s.toList :=
  errAbsL_fuel _ _ _ (by rw [String.length_toList]; exact Nat.le_refl _) (by rw [String.length_toList]; exact hf)

theorem stripPass_lit (lit : String) (hl : lit ∈ passLits) (rest : List Char) :
    stripPass (lit.toList ++ '|' :: rest) = some rest := by
  unfold passLits at hl
  simp only [List.mem_cons, List.mem_nil_iff, or_false] at hl
  rcases hl with rfl | rfl | rfl | rfl <;> rfl

/-- the transparent wrappers: `errAbs (lit ++ "|" ++ inner) = errAbs inner` -/
theorem errAbs_pass (lit : String) (hl : lit ∈ passLits) (inner : String) :
    errAbs (lit ++ "|" ++ inner) = errAbs inner := by
  rw [errAbs_eq (lit ++ "|" ++ inner) ((lit.length + inner.length) + 1)
    (by simp only [String.length_append]; have : "|".length = 1 := rfl; omega),
    errAbs_eq inner (lit.length + inner.length) (by omega)]
  have hst : stripPass (lit ++ "|" ++ inner).toList = some inner.toList := by
    have hbar : "|".toList = ['|'] := rfl
    rw [String.toList_append, String.toList_append, hbar, List.append_assoc]
    exact stripPass_lit lit hl _
  simp only [errAbsL, hst]

theorem errAbs_wrap (lit : String) (hl : lit ∈ passLits) (g : Option String) (e : Client.Err) (h : RepErr g e) :
    RepErr (wrapErr lit g) e := by
  obtain ⟨s, rfl, hs⟩ := h
  exact ⟨_, rfl, by simp only [Option.getD_some]; rw [errAbs_pass lit hl, hs]⟩

theorem errAbs_remote : errAbs "remote" = .remote := by decide
theorem errAbs_config : errAbs "config" = .config := by decide
theorem errAbs_cache : errAbs "cache" = .config := by decide
theorem errAbs_conflict : errAbs "ErrWriteConflict" = .config := by decide
theorem errAbs_gonosumdb : errAbs "ErrGONOSUMDB" = .gonosumdb := by decide
theorem errAbs_security : errAbs "ErrSecurity" = .security := by decide
theorem errAbs_recordSyntax : errAbs "errMalformedRecord" = .recordSyntax := by decide
theorem errAbs_recordId : errAbs "cannot validate record %d in tree of size %d" = .recordId := by decide
theorem errAbs_recordHash : errAbs "cannot authenticate record data in server response" = .recordHash := by decide
theorem errAbs_keyId : errAbs "errVerifierID" = .key .id := by decide
theorem errAbs_keyAlg : errAbs "errVerifierAlg" = .key .alg := by decide
theorem errAbs_keyHash : errAbs "errVerifierHash" = .key .hash := by decide
theorem errAbs_inconsistent : errAbs "downloaded inconsistent tile" = .tlog .inconsistent := by decide
theorem errAbs_indexRange : errAbs "indexes not in tree" = .tlog .indexRange := by decide
theorem errAbs_tileLen : errAbs "TileReader returned bad result slice (%v len=%d, want %d)" = .tileLen := by decide
theorem errAbs_invalidTree : errAbs "tlog: invalid inputs in ProveTree" = .tlog .invalid := by decide

/-! ### results -/

/-- a `(value, error)` result of the generated code against the model's `Except` -/
def RepResR {α β : Type} (R : α → β → Prop) (p : α × Option String) : Except Client.Err β → Prop
  | .ok b => p.2 = none ∧ R p.1 b
  | .error e => RepErr p.2 e

/-- … with equal values -/
abbrev RepRes {α : Type} (p : α × Option String) (r : Except Client.Err α) : Prop := RepResR Eq p r

/-- an `error` result against `Except Err Unit` -/
def RepUnit (g : Option String) : Except Client.Err Unit → Prop
  | .ok () => g = none
  | .error e => RepErr g e

/-- an entry of a parCache table (`cached{data, err}`) against the model's entry -/
def RepCached (c : Cached) (r : Except Client.Err Bytes) : Prop := RepRes (c.data, c.err) r

/-- a table lookup on both sides -/
def RepOpt {α β : Type} (R : α → β → Prop) : Option α → Option β → Prop
  | none, none => True
  | some a, some b => R a b
  | _, _ => False

theorem RepRes_ok {α : Type} (a : α) : RepRes (a, (none : Option String)) (.ok a) := ⟨rfl, rfl⟩

theorem RepRes_ok_iff {α : Type} (p : α × Option String) (a : α) : RepRes p (.ok a) ↔ p = (a, none) := by
  obtain ⟨x, e⟩ := p
  constructor
  · rintro ⟨h1, h2⟩; simp only at h1 h2; subst h1 h2; rfl
  · intro h; cases h; exact ⟨rfl, rfl⟩

theorem RepErr_isNone {g : Option String} {e : Client.Err} (h : RepErr g e) : g.isNone = false := by
  obtain ⟨s, rfl, _⟩ := h; rfl

/-! ### tiles -/

/-- the tiles on which `toGen` is injective (`Tile.Path` does not print `l` for data tiles) -/
def TOk (t : Tile.Tile) : Prop := t.data = true → t.l = 0

theorem TOk_of_not_data (t : Tile.Tile) (h : t.data = false) : TOk t := by intro h'; rw [h] at h'; cases h'

theorem toGen_inj (t u : Tile.Tile) (ht : TOk t) (hu : TOk u) (h : toGen t = toGen u) : t = u := by
  have := congrArg ofGen h
  rwa [TieFnTile.ofGen_toGen t ht, TieFnTile.ofGen_toGen u hu] at this

theorem toGen_eq_iff (t u : Tile.Tile) (ht : TOk t) (hu : TOk u) : toGen t = toGen u ↔ t = u :=
  ⟨toGen_inj t u ht hu, fun h => by rw [h]⟩

/-! ### the environment -/

section
variable {σ H : Type}

/-- a read operation of the model's environment as a read operation of the generated environment (as `Drv.GenClient.rd`) -/
def rdOf (f : σ → Bytes → Option Bytes × σ) (k : Client.ReadKind) (errText : String) (file : Bytes) (cw : GW σ H) :
    (Bytes × Option String) × GW σ H :=
  let r := f cw.s.1 file
  let tr := cw.s.2 ++ [Client.Effect.read k file r.1.isSome]
  match r.1 with
  | some d => ((d, none), { cw with s := (r.2, tr) })
  | none => (([], some errText), { cw with s := (r.2, tr) })

/-- the result of `WriteConfig` as a Go error -/
def writeResErr : Client.WriteRes → Option String
  | .ok => none
  | .conflict => some "ErrWriteConflict"
  | .error => some "config"

/-- the generated environment of a model `Params` / `Env` (as `Drv.GenClient.env`) -/
def envOf (P : Client.Params H) (E : Client.Env σ) : ClientEnv (GS σ) H :=
  { readRemote := rdOf E.readRemote .remote "remote"
    readCache := rdOf E.readCache .cache "cache"
    readConfig := rdOf E.readConfig .config "config"
    writeConfig := fun file old new cw =>
      let r := E.writeConfig cw.s.1 file old new
      (writeResErr r.1, { cw with s := (r.2, cw.s.2 ++ [Client.Effect.writeConfig file old new r.1]) })
    writeCache := fun file data cw =>
      ((), { cw with s := (E.writeCache cw.s.1 file data, cw.s.2 ++ [Client.Effect.writeCache file data]) })
    securityError := fun msg cw =>
      ((), { cw with s := (E.securityError cw.s.1 msg, cw.s.2 ++ [Client.Effect.securityError msg]) })
    node := P.node
    empty := P.empty
    recordHash := P.leaf
    ofBytes := P.dec
    toBytes := P.enc
    hashString := fun h => TlogNote.hashString (P.enc h)
    b64dec := TieFnNote.b64decI
    isSpace := TieFnNote.isSpaceI
    edVerify := P.edVerify
    shaSum := fun acc pre => pre ++ P.sha acc
    isLetter := fun r => P.isLetter r.toNat
    equalFold := Drv.GenModule.equalFoldI
    pathMatch := fun p n => (P.glob p n, none) }

/-! ### worlds -/

/-- the model's tree head as a `tlog.Tree` -/
def headG (h : Client.Head H) : Generated.Tile.Tree H := { N := (h.n : Int), Hash := h.hash }

/-- `c.verifiers`: nothing before `initWork`, afterwards `note.VerifierList(verifier)` -/
def verifiersOf : List Note.Verifier → (Bytes → Int → (Generated.Note.Verifier × Option String))
  | [v] => verifierList1 (TieFnNote.toGV v)
  | _ => fun _ _ => (default, some "UnknownVerifierError")

/-- The CORE of the representation: everything that holds at every moment of a run (also inside `initWork`, where the
    generated `initDone` is already set and the model's `inited` is not yet).  It does not mention `initDone`, `initErr`,
    `inited`, `didLookup`, `tileHeight`, `latest.Hash`.
    * the two parCache tables and `tileSaved` are related pointwise (the generated `mapSet` appends or replaces in place,
      the model conses), tiles through `toGen` on `TOk` tiles. -/
structure RepCore (P : Client.Params H) (E : Client.Env σ) (w : Client.World σ H) (cw : GW σ H) : Prop where
  s : cw.s = (w.s, w.tr)
  name : cw.name = w.c.name
  verifiers : cw.verifiers = verifiersOf w.c.verifiers
  vlen : w.c.verifiers.length ≤ 1
  nosumdb : cw.nosumdb = P.nosumdb
  record : ∀ k, RepOpt RepCached (mapLookup cw.record k) (w.c.record.lookup k)
  tileCache : ∀ t, TOk t → RepOpt RepCached (mapLookup cw.tileCache (toGen t)) (w.c.tileCache.lookup t)
  latestN : cw.latest.N = (w.c.latest.n : Int)
  latestMsg : cw.latestMsg = w.c.latestMsg
  tileSaved : ∀ t, TOk t → (mapGet cw.tileSaved (toGen t) false).1 = w.c.tileSaved.contains t

/-- The representation while the client RUNS (from the point in `initWork` where the tile height and the hash of the
    empty tree have been set): the core, `c.tileHeight` is the model's `tileHeight P`, and the tree heads agree. -/
structure RepRun (P : Client.Params H) (E : Client.Env σ) (w : Client.World σ H) (cw : GW σ H) : Prop
    extends RepCore P E w cw where
  tileHeight : cw.tileHeight = (Client.tileHeight P : Int)
  latestHash : cw.latest.Hash = w.c.latest.hash

/-- `initOnce` / `initErr` / the fields `initWork` sets, against `inited`:
    * not yet run: `SetTileHeight`'s raw value (0 = default); `latest` is `NewClient`'s `{0, zero hash}` where the model
      has `{0, P.empty}` from the start (nothing reads the hash before `initWork` replaces it);
    * run without error: the client runs (`RepRun`);
    * run with an error: only the error matters (every later `Lookup` returns it). -/
def RepInit (P : Client.Params H) (w : Client.World σ H) (cw : GW σ H) : Prop :=
  match w.c.inited with
  | none => cw.initDone = false ∧ cw.initErr = none ∧ cw.tileHeight = (P.height : Int) ∧
      (w.c.latest.n = 0 → w.c.latest.hash = P.empty) ∧ (w.c.latest.n ≠ 0 → cw.latest.Hash = w.c.latest.hash)
  | some none => cw.initDone = true ∧ cw.initErr = none ∧ cw.tileHeight = (Client.tileHeight P : Int) ∧
      cw.latest.Hash = w.c.latest.hash
  | some (some e) => cw.initDone = true ∧ RepErr cw.initErr e

/-- The model world `w` is represented by the generated world `cw` (between two `Lookup` calls). -/
structure RepW (P : Client.Params H) (E : Client.Env σ) (w : Client.World σ H) (cw : GW σ H) : Prop
    extends RepCore P E w cw where
  init : RepInit P w cw

theorem RepRun.latest_eq {P : Client.Params H} {E : Client.Env σ} {w : Client.World σ H} {cw : GW σ H}
    (h : RepRun P E w cw) : cw.latest = headG w.c.latest := by
  have h1 := h.latestN
  have h2 := h.latestHash
  cases hc : cw.latest
  rw [hc] at h1 h2
  simp only at h1 h2
  subst h1 h2
  rfl

/-- an initialised world without error runs -/
theorem RepW.run {P : Client.Params H} {E : Client.Env σ} {w : Client.World σ H} {cw : GW σ H}
    (h : RepW P E w cw) (hi : w.c.inited = some none) : RepRun P E w cw := by
  have := h.init
  unfold RepInit at this
  rw [hi] at this
  exact { toRepCore := h.toRepCore, tileHeight := this.2.2.1, latestHash := this.2.2.2 }

/-- … and conversely -/
theorem RepRun.toW {P : Client.Params H} {E : Client.Env σ} {w : Client.World σ H} {cw : GW σ H}
    (h : RepRun P E w cw) (hi : w.c.inited = some none) (hd : cw.initDone = true) (he : cw.initErr = none) :
    RepW P E w cw := by
  refine { toRepCore := h.toRepCore, init := ?_ }
  unfold RepInit
  rw [hi]
  exact ⟨hd, he, h.tileHeight, h.latestHash⟩

/-! ### frames: what an operation leaves alone -/

/-- the generated fields no tile operation and no external operation touches -/
structure FrameG (cw cw' : GW σ H) : Prop where
  didLookup : cw'.didLookup = cw.didLookup
  initDone : cw'.initDone = cw.initDone
  initErr : cw'.initErr = cw.initErr
  name : cw'.name = cw.name
  verifiers : cw'.verifiers = cw.verifiers
  tileHeight : cw'.tileHeight = cw.tileHeight
  nosumdb : cw'.nosumdb = cw.nosumdb
  record : cw'.record = cw.record
  latest : cw'.latest = cw.latest
  latestMsg : cw'.latestMsg = cw.latestMsg

/-- the model fields no tile operation and no external operation touches -/
structure FrameM (w w' : Client.World σ H) : Prop where
  inited : w'.c.inited = w.c.inited
  name : w'.c.name = w.c.name
  verifiers : w'.c.verifiers = w.c.verifiers
  latest : w'.c.latest = w.c.latest
  latestMsg : w'.c.latestMsg = w.c.latestMsg
  record : w'.c.record = w.c.record

theorem FrameG.refl (cw : GW σ H) : FrameG cw cw := ⟨rfl, rfl, rfl, rfl, rfl, rfl, rfl, rfl, rfl, rfl⟩
theorem FrameM.refl (w : Client.World σ H) : FrameM w w := ⟨rfl, rfl, rfl, rfl, rfl, rfl⟩

theorem FrameG.trans {a b c : GW σ H} (h1 : FrameG a b) (h2 : FrameG b c) : FrameG a c :=
  ⟨h2.didLookup.trans h1.didLookup, h2.initDone.trans h1.initDone, h2.initErr.trans h1.initErr, h2.name.trans h1.name,
    h2.verifiers.trans h1.verifiers, h2.tileHeight.trans h1.tileHeight, h2.nosumdb.trans h1.nosumdb,
    h2.record.trans h1.record, h2.latest.trans h1.latest, h2.latestMsg.trans h1.latestMsg⟩

theorem FrameM.trans {a b c : Client.World σ H} (h1 : FrameM a b) (h2 : FrameM b c) : FrameM a c :=
  ⟨h2.inited.trans h1.inited, h2.name.trans h1.name, h2.verifiers.trans h1.verifiers, h2.latest.trans h1.latest,
    h2.latestMsg.trans h1.latestMsg, h2.record.trans h1.record⟩

/-- the core after a framed step is enough to keep running -/
theorem RepRun.of_frame {P : Client.Params H} {E : Client.Env σ} {w w' : Client.World σ H} {cw cw' : GW σ H}
    (h : RepRun P E w cw) (hc : RepCore P E w' cw') (fg : FrameG cw cw') (fm : FrameM w w') : RepRun P E w' cw' :=
  { toRepCore := hc
    tileHeight := by rw [fg.tileHeight]; exact h.tileHeight
    latestHash := by rw [fg.latest, fm.latest]; exact h.latestHash }

/-- … and to stay represented -/
theorem RepW.of_frame {P : Client.Params H} {E : Client.Env σ} {w w' : Client.World σ H} {cw cw' : GW σ H}
    (h : RepW P E w cw) (hc : RepCore P E w' cw') (fg : FrameG cw cw') (fm : FrameM w w') : RepW P E w' cw' := by
  refine { toRepCore := hc, init := ?_ }
  have := h.init
  unfold RepInit at this ⊢
  rw [fm.inited, fm.latest, fg.initDone, fg.initErr, fg.tileHeight, fg.latest]
  exact this

/-- the generated world with the state and trace of a model world -/
def withS (cw : GW σ H) (w' : Client.World σ H) : GW σ H := { cw with s := (w'.s, w'.tr) }

theorem withS_frame (cw : GW σ H) (w' : Client.World σ H) : FrameG cw (withS cw w') :=
  ⟨rfl, rfl, rfl, rfl, rfl, rfl, rfl, rfl, rfl, rfl⟩

@[simp] theorem withS_tileCache (cw : GW σ H) (w' : Client.World σ H) : (withS cw w').tileCache = cw.tileCache := rfl
@[simp] theorem withS_tileSaved (cw : GW σ H) (w' : Client.World σ H) : (withS cw w').tileSaved = cw.tileSaved := rfl
@[simp] theorem withS_name (cw : GW σ H) (w' : Client.World σ H) : (withS cw w').name = cw.name := rfl
@[simp] theorem withS_s (cw : GW σ H) (w' : Client.World σ H) : (withS cw w').s = (w'.s, w'.tr) := rfl

/-- the state and the trace are the only things an external operation changes -/
theorem RepCore.withS {P : Client.Params H} {E : Client.Env σ} {w w' : Client.World σ H} {cw : GW σ H}
    (h : RepCore P E w cw) (hc : w'.c = w.c) : RepCore P E w' (withS cw w') :=
  { s := rfl, name := by rw [hc]; exact h.name, verifiers := by rw [hc]; exact h.verifiers,
    vlen := by rw [hc]; exact h.vlen, nosumdb := h.nosumdb, record := by rw [hc]; exact h.record,
    tileCache := by rw [hc]; exact h.tileCache, latestN := by rw [hc]; exact h.latestN,
    latestMsg := by rw [hc]; exact h.latestMsg, tileSaved := by rw [hc]; exact h.tileSaved }

/-- the generated initial world (`NewClient` + `SetTileHeight` + `SetGONOSUMDB`); `z` is the zero hash -/
def cw0 (P : Client.Params H) (s : σ) (z : H) : GW σ H :=
  { s := (s, []), didLookup := 0, initDone := false, initErr := none, name := [],
    verifiers := fun _ _ => (default, some "UnknownVerifierError"), tileHeight := (P.height : Int), nosumdb := P.nosumdb,
    record := [], tileCache := [], latest := { N := 0, Hash := z }, latestMsg := [], tileSaved := [] }

/-- the initial worlds correspond -/
theorem rep_init (P : Client.Params H) (E : Client.Env σ) (s : σ) (z : H) :
    RepW P E { s := s, c := Client.newClient P, tr := [] } (cw0 P s z) :=
  { s := rfl, name := rfl, verifiers := rfl, vlen := Nat.zero_le _,
    nosumdb := rfl, record := fun _ => trivial, tileCache := fun _ _ => trivial, latestN := rfl,
    latestMsg := rfl, tileSaved := fun _ _ => rfl,
    init := ⟨rfl, rfl, rfl, fun _ => rfl, fun h => absurd rfl h⟩ }

/-! ### the external operations -/

/-- the answer of a read operation as the `(data, error)` pair of the generated environment -/
def readOut (errText : String) : Option Bytes → Bytes × Option String
  | some d => (d, none)
  | none => ([], some errText)

theorem readOut_some (t : String) (d : Bytes) : readOut t (some d) = (d, none) := rfl
theorem readOut_none (t : String) : readOut t none = ([], some t) := rfl

theorem rdOf_eq (f : σ → Bytes → Option Bytes × σ) (k : Client.ReadKind) (errText : String) (file : Bytes) (cw : GW σ H) :
    rdOf f k errText file cw =
      (readOut errText (f cw.s.1 file).1,
        { cw with s := ((f cw.s.1 file).2, cw.s.2 ++ [Client.Effect.read k file (f cw.s.1 file).1.isSome]) }) := by
  unfold rdOf readOut
  generalize f cw.s.1 file = r
  obtain ⟨a, b⟩ := r
  cases a <;> rfl

variable {P : Client.Params H} {E : Client.Env σ} {w : Client.World σ H} {cw : GW σ H}

/-- `ReadCache` on both sides: same answer, the generated world changes only in `s` (`withS`) -/
theorem readCache_eq (hs : cw.s = (w.s, w.tr)) (file : Bytes) :
    (envOf P E).readCache file cw =
      (readOut "cache" (Client.readCache E w file).1, withS cw (Client.readCache E w file).2) := by
  show rdOf E.readCache .cache "cache" file cw = _
  rw [rdOf_eq, hs]; rfl

theorem readRemote_eq (hs : cw.s = (w.s, w.tr)) (file : Bytes) :
    (envOf P E).readRemote file cw =
      (readOut "remote" (Client.readRemote E w file).1, withS cw (Client.readRemote E w file).2) := by
  show rdOf E.readRemote .remote "remote" file cw = _
  rw [rdOf_eq, hs]; rfl

theorem readConfig_eq (hs : cw.s = (w.s, w.tr)) (file : Bytes) :
    (envOf P E).readConfig file cw =
      (readOut "config" (Client.readConfig E w file).1, withS cw (Client.readConfig E w file).2) := by
  show rdOf E.readConfig .config "config" file cw = _
  rw [rdOf_eq, hs]; rfl

theorem writeCache_eq (hs : cw.s = (w.s, w.tr)) (file data : Bytes) :
    (envOf P E).writeCache file data cw = ((), withS cw (Client.writeCache E w file data)) := by
  show ((), ({ cw with s := _ } : GW σ H)) = _
  rw [hs]; rfl

theorem securityError_eq (hs : cw.s = (w.s, w.tr)) (msg : Bytes) :
    (envOf P E).securityError msg cw = ((), withS cw (Client.securityError E w msg)) := by
  show ((), ({ cw with s := _ } : GW σ H)) = _
  rw [hs]; rfl

theorem writeConfig_eq (hs : cw.s = (w.s, w.tr)) (file old new : Bytes) :
    (envOf P E).writeConfig file old new cw =
      (writeResErr (Client.writeConfig E w file old new).1, withS cw (Client.writeConfig E w file old new).2) := by
  show (writeResErr _, ({ cw with s := _ } : GW σ H)) = _
  rw [hs]; rfl

/-- the external operations do not touch the client -/
theorem readCache_c (file : Bytes) : (Client.readCache E w file).2.c = w.c := rfl
theorem readRemote_c (file : Bytes) : (Client.readRemote E w file).2.c = w.c := rfl
theorem readConfig_c (file : Bytes) : (Client.readConfig E w file).2.c = w.c := rfl
theorem writeCache_c (file data : Bytes) : (Client.writeCache E w file data).c = w.c := rfl
theorem securityError_c (msg : Bytes) : (Client.securityError E w msg).c = w.c := rfl
theorem writeConfig_c (file old new : Bytes) : (Client.writeConfig E w file old new).2.c = w.c := rfl

theorem frameM_of_c {w w' : Client.World σ H} (h : w'.c = w.c) : FrameM w w' := by
  refine ⟨?_, ?_, ?_, ?_, ?_, ?_⟩ <;> rw [h]

end

/-! ### the reference instantiation of the correspondence run -/

/-- the parameters of the correspondence run (`Drv.Client.shaParams`), with the `copy(h[:], …)` of the generated side
    (`ofBytes32`: pad / cut to 32 bytes; the identity on the 32-byte strings both sides ever decode) as `dec` -/
def driverParams (h : Nat) (nosumdb pub : Bytes) (table : List (Bytes × Bytes)) : Client.Params Bytes :=
  { Drv.Client.shaParams h nosumdb pub table with dec := Drv.GenClient.ofBytes32 }

/-- the environment the regenerated client is executed with on every check (`Drv.GenClient.env`) is `envOf` of the
    parameters and the replay environment the hand model is executed with -/
theorem envOf_driver (h : Nat) (nosumdb pub : Bytes) (table : List (Bytes × Bytes)) :
    Drv.GenClient.env pub table = envOf (driverParams h nosumdb pub table) Drv.Client.replayEnv := rfl

/-- the initial world of the correspondence run (`w0` in `Drv.GenClient.handle`) is `cw0` -/
example (h : Nat) (nosumdb pub : Bytes) (table : List (Bytes × Bytes)) (reads : List (Client.ReadKind × Bytes × Option Bytes))
    (writes : List Client.WriteRes) :
    ({ s := ({ reads := reads, writes := writes }, []), didLookup := 0, initDone := false, initErr := none, name := [],
       verifiers := fun _ _ => (default, some "UnknownVerifierError"), tileHeight := h, nosumdb := nosumdb, record := [],
       tileCache := [], latest := { N := 0, Hash := List.replicate 32 0 }, latestMsg := [], tileSaved := [] } : Drv.GenClient.W) =
      cw0 (driverParams h nosumdb pub table) { reads := reads, writes := writes } (List.replicate 32 0) := rfl

end ModVerif.TieFnClientRep
