/-
  Tie proof, zip/zip.go `isVendoredPackage`: the regenerated definition (Generated/FnZip.lean) against the hand model
  (Model/Zip.lean).  The generated code takes the go version string and an abstract `versionCompare`; the model takes the
  boolean `version.Compare(vers, "go1.24") >= 0`.
-/
import ModVerif.Generated.FnZip
import ModVerif.Model.Zip
import ModVerif.Proofs.GoRtLemmasZip
namespace ModVerif.TieFnZip
open ModVerif ModVerif.GoRt ModVerif.GoRtZip

/-- "go1.24" -/
def go124 : Bytes := [103, 111, 49, 46, 50, 52]

theorem indexOf_eq (pat : Bytes) : ∀ s : Bytes, Zip.indexOf pat s = indexOpt pat s
  | [] => rfl
  | c :: rest => by
    unfold Zip.indexOf indexOpt
    rw [indexOf_eq pat rest]

theorem isVendoredPackage_eq (vc : Bytes → Bytes → Int) (name vers : Bytes) (ge124 : Bool)
    (hg : ge124 = decide (0 ≤ vc vers go124)) :
    Generated.Zip.isVendoredPackage vc name vers = .ok (Zip.isVendoredPackage name ge124) := by
  have hg' : decide (vc vers [103, 111, 49, 46, 50, 52] ≥ 0) = ge124 := by rw [hg]; rfl
  unfold Generated.Zip.isVendoredPackage Zip.isVendoredPackage
  simp only [hg']
  have e1 : (name == Zip.vendorModulesTxt) =
      decide (name = [118, 101, 110, 100, 111, 114, 47, 109, 111, 100, 117, 108, 101, 115, 46, 116, 120, 116]) := by
    rw [Bool.eq_iff_iff]; simp [Zip.vendorModulesTxt, Zip.vendorSlash]
  rw [e1]
  by_cases h1 : (ge124 && decide (name = [118, 101, 110, 100, 111, 114, 47, 109, 111, 100, 117, 108, 101, 115, 46, 116, 120, 116])) = true
  · rw [if_pos h1, if_pos h1]; rfl
  rw [if_neg h1, if_neg h1]
  show (if hasPrefix name [118, 101, 110, 100, 111, 114, 47] = true then _ else _) = _
  have e2 : hasPrefix name [118, 101, 110, 100, 111, 114, 47] = isPrefixOfB Zip.vendorSlash name := rfl
  rw [e2]
  by_cases h2 : isPrefixOfB Zip.vendorSlash name = true
  · rw [if_pos h2, if_pos h2]
    have hl := isPrefixOfB_length _ _ h2
    have : ((0 : Int) + 7) = ((7 : Nat) : Int) := rfl
    simp only [this]
    rw [sliceFrom_natCast (by simpa [Zip.vendorSlash] using hl)]
    simp only [bind, Except.bind, pure, Except.pure]
    rw [contains_single_any]; rfl
  rw [if_neg h2, if_neg h2]
  have e3 : index name [47, 118, 101, 110, 100, 111, 114, 47] =
      match indexOpt Zip.slashVendorSlash name with | some j => (j : Int) | none => -1 := index_eq name _
  simp only [e3, indexOf_eq]
  cases hi : indexOpt Zip.slashVendorSlash name with
  | none => simp
  | some j =>
    have hr := indexOpt_range _ _ _ hi
    have hlen : Zip.slashVendorSlash.length = 8 := rfl
    rw [hlen] at hr
    have hj : decide ((j : Int) ≥ 0) = true := by simp
    simp only [hj, if_true]
    cases ge124 with
    | true =>
      simp only [if_true]
      have : ((j : Int) + 8) = ((j + 8 : Nat) : Int) := by simp
      rw [this, sliceFrom_natCast hr]
      simp only [bind, Except.bind, pure, Except.pure]
      rw [contains_single_any]; rfl
    | false =>
      simp only [Bool.false_eq_true, if_false]
      have : ((0 : Int) + 8) = ((8 : Nat) : Int) := rfl
      rw [this, sliceFrom_natCast (by omega)]
      simp only [bind, Except.bind, pure, Except.pure]
      rw [contains_single_any]; rfl

end ModVerif.TieFnZip
