/-
  Tie proof, zip/zip.go `checkFiles`: the two loops put together (`checkFiles_eq`), the fuel bound, and the bridge
  between the version string the generated code extracts from the root go.mod and the model's flag `goVers`.
-/
import ModVerif.Proofs.TieFnZipCfMain
import ModVerif.Proofs.ZipSubmodule
namespace ModVerif.TieFnZipCf
open ModVerif ModVerif.GoRt ModVerif.GoRtZip ModVerif.TieFnZip
open ModVerif.Generated.Zip (pathInfo File FileError CheckedFiles)
open ModVerif.Drv.GenZip (toGFile modeBits)

/-! ### fuel -/

/-- length of the longest path of the list -/
def maxPathLen : List Zip.FileInfo → Nat
  | [] => 0
  | f :: rest => max f.path.length (maxPathLen rest)

theorem le_maxPathLen : ∀ (files : List Zip.FileInfo) (f : Zip.FileInfo), f ∈ files → f.path.length ≤ maxPathLen files
  | g :: rest, f, h => by
    rcases List.mem_cons.mp h with rfl | h
    · exact Nat.le_max_left _ _
    · exact Nat.le_trans (le_maxPathLen rest f h) (Nat.le_max_right _ _)

theorem maxPathLen_le_sum : ∀ files : List Zip.FileInfo, maxPathLen files ≤ (files.map fun f => f.path.length).sum
  | [] => Nat.le_refl _
  | f :: rest => by
    have := maxPathLen_le_sum rest
    simp only [maxPathLen, List.map_cons, List.sum_cons]
    omega

/-- fuel that is enough for `checkFiles`: one unit per file (each loop), plus — for the longest path — the collision check
    (one level of recursion per path element, `strToFold` with `K` steps of `unicode.SimpleFold` per rune) and the
    `inSubmodule` walk -/
def fuelBound (K : Nat) (files : List Zip.FileInfo) : Nat := files.length + 3 * maxPathLen files + K + 6

/-! ### the state the first loop hands to the second -/

theorem preStep_st_fields (a : Zip.Pre) (f : Zip.FileInfo) :
    (Zip.preStep a f).st.cc = a.st.cc ∧ (Zip.preStep a f).st.maxSize = a.st.maxSize ∧
      (Zip.preStep a f).st.validFiles = a.st.validFiles := by
  unfold Zip.preStep
  simp only []
  split
  · split
    · exact ⟨addError_cc _ _ _ _, addError_maxSize _ _ _ _, addError_validFiles _ _ _ _⟩
    · split
      · exact ⟨rfl, rfl, rfl⟩
      · split <;> exact ⟨rfl, rfl, rfl⟩
  · exact ⟨rfl, rfl, rfl⟩

theorem prePass_fold_fields : ∀ (files : List Zip.FileInfo) (a : Zip.Pre),
    (files.foldl Zip.preStep a).st.cc = a.st.cc ∧ (files.foldl Zip.preStep a).st.maxSize = a.st.maxSize ∧
      (files.foldl Zip.preStep a).st.validFiles = a.st.validFiles
  | [], _ => ⟨rfl, rfl, rfl⟩
  | f :: rest, a => by
    obtain ⟨h1, h2, h3⟩ := prePass_fold_fields rest (Zip.preStep a f)
    obtain ⟨g1, g2, g3⟩ := preStep_st_fields a f
    exact ⟨h1.trans g1, h2.trans g2, h3.trans g3⟩

theorem prePass_st_fields (files : List Zip.FileInfo) :
    (Zip.prePass files).st.cc = [] ∧ (Zip.prePass files).st.maxSize = 524288000 ∧
      (Zip.prePass files).st.validFiles = [] :=
  prePass_fold_fields files {}

/-! ### both loops -/

section
variable (ef : Bytes → Bytes → Bool) (pgv : Bytes → Bytes → Bytes) (sf : Int → Int)
  (tl : Bytes → Bytes) (vc : Bytes → Bytes → Int) (vl : Bytes → Bytes)

/-- `checkFiles` on the translated list is the model's `checkFilesSt` with the go-version flag the generated code derives
    itself: `version.Compare(vers, "go1.24") >= 0` for `vers = versOf …` (the root go.mod's version, "" if none). -/
theorem checkFiles_eq (E : Zip.Env) (K : Nat) (hsf : FoldsTo sf K) (hE : E.toFold = Zip.strToFold)
    (hef : ∀ s, ef s Zip.goModName = Zip.equalFoldGoMod s)
    (htl : ∀ s, decide (tl s = Zip.goModName) = Zip.toLowerIsGoMod s)
    (files : List Zip.FileInfo) (fuel : Nat) (hfuel : fuelBound K files ≤ fuel) :
    Generated.Zip.checkFiles (cfpOf E) ef pgv sf tl vc vl fuel (files.map toGFile) =
      .ok (embedCf (Zip.checkFilesSt E files (decide (0 ≤ vc (versOf pgv vl files) go124)))) := by
  unfold fuelBound at hfuel
  unfold Generated.Zip.checkFiles
  simp only []
  rw [loop1_eq (cfpOf E) ef pgv sf tl vc vl hef files fuel (by omega)]
  simp only [bind_ok]
  obtain ⟨h1, h2, h3⟩ := prePass_st_fields files
  have key := loop3_from ef pgv sf tl vc vl E K hsf hE htl (versOf pgv vl files)
    (decide (0 ≤ vc (versOf pgv vl files) go124)) rfl (Zip.prePass files).haveGoMod (3 * maxPathLen files + K + 5)
    files [] fuel (Zip.prePass files).st
    (fun f hf => by have := le_maxPathLen files f hf; omega) (by omega)
  unfold run3 at key
  rw [h1, h2, h3] at key
  simp only [List.nil_append, List.length_nil, List.map_nil] at key
  have e : ofCC [] = ([] : List (Bytes × pathInfo)) := rfl
  rw [e] at key
  have z : ((0 : Nat) : Int) = (0 : Int) := rfl
  rw [z] at key
  rw [key]
  rfl

end

/-! ### the version string and the model's flag -/

/-- a file that sets `vers` / the model's flag is the root `go.mod` -/
theorem root_goMod_path (f : Zip.FileInfo)
    (h : ((PathClean.pathSplit f.path).2 == Zip.goModName && (PathClean.pathSplit f.path).1 == []) = true) :
    f.path = Zip.goModName := by
  obtain ⟨h1, _, _⟩ := Proofs.Zip.pathSplit_spec f.path
  simp only [Bool.and_eq_true, beq_iff_eq] at h
  rw [h.1, h.2] at h1
  simpa using h1

/-- the flag of the model after the first loop is the comparison of the version string of the generated code, provided
    the empty version compares below go1.24 and the flag of every regular root `go.mod` is what its content says -/
theorem goVers_eq (pgv : Bytes → Bytes → Bytes) (vc : Bytes → Bytes → Int) (vl : Bytes → Bytes)
    (files : List Zip.FileInfo) (h0 : vc [] go124 < 0)
    (hfl : ∀ f ∈ files, f.mode = .regular → f.path = Zip.goModName →
      decide (0 ≤ vc (vl (pgv Zip.goModName f.content)) go124) = f.goGe124) :
    decide (0 ≤ vc (versOf pgv vl files) go124) = Zip.goVers files := by
  have gen : ∀ (l : List Zip.FileInfo) (a : Zip.Pre) (v : Bytes),
      (∀ f ∈ l, f.mode = .regular → f.path = Zip.goModName →
        decide (0 ≤ vc (vl (pgv Zip.goModName f.content)) go124) = f.goGe124) →
      decide (0 ≤ vc v go124) = a.ge124 →
      decide (0 ≤ vc (l.foldl (versStep pgv vl) v) go124) = (l.foldl Zip.preStep a).ge124 := by
    intro l
    induction l with
    | nil => intro a v _ h; exact h
    | cons f rest ih =>
      intro a v hl h
      simp only [List.foldl_cons]
      apply ih _ _ (fun g hg => hl g (List.mem_cons_of_mem _ hg))
      unfold versStep Zip.preStep
      simp only []
      by_cases hb : Zip.equalFoldGoMod (PathClean.pathSplit f.path).2 = true
      · simp only [hb, if_true, Bool.true_and]
        by_cases hm : f.mode = .regular
        · have hr : ((PathClean.pathSplit f.path).2 == Zip.goModName && (PathClean.pathSplit f.path).1 == []) = true →
              f.path = Zip.goModName := root_goMod_path f
          simp only [hm]
          by_cases hc : ((PathClean.pathSplit f.path).2 == Zip.goModName && (PathClean.pathSplit f.path).1 == []) = true
          · have := hl f List.mem_cons_self hm (hr hc)
            have hc' : (PathClean.pathSplit f.path).2 = Zip.goModName ∧ (PathClean.pathSplit f.path).1 = [] := by
              simpa using hc
            simp [hc', this]
          · have hc' : ¬ ((PathClean.pathSplit f.path).2 = Zip.goModName ∧ (PathClean.pathSplit f.path).1 = []) := by
              simpa using hc
            simp [hc', h]
        · have hm' : (f.mode == Zip.Mode.regular) = false := by simpa using hm
          simp only [hm', Bool.false_and, Bool.false_eq_true, if_false]
          split
          · exact h
          · have : (f.mode != Zip.Mode.regular) = true := by simp [bne, hm']
            simp only [this, if_true]
            exact h
      · simp only [hb, Bool.false_eq_true, if_false, Bool.false_and]
        exact h
  unfold versOf Zip.goVers Zip.prePass
  apply gen files {} [] hfl
  simp only [decide_eq_false_iff_not, Int.not_le]
  exact h0

end ModVerif.TieFnZipCf
