/-
  Tile paths: `parseTilePath` only accepts what `tilePath` prints, and `tilePath` round-trips.
-/
import ModVerif.Model.Tile
import ModVerif.Proofs.Decimal
namespace ModVerif.Tile
open ModVerif ModVerif.Tlog

theorem parseTilePath_sound (s : Bytes) (t : Tile) : parseTilePath s = some t → tilePath t = s := by
  intro h
  unfold parseTilePath at h
  simp only at h
  repeat' (split at h)
  all_goals
    cases h <;> (rename_i hne; simp only [bne_iff_ne, ne_eq, Decidable.not_not] at hne; exact hne.symm)

/-! ### generic list facts -/

theorem hasSuffixB_dotp (e : Bytes) (h : hasSuffixB e (B ".p") = true) : (112 : UInt8) ∈ e := by
  have hb : B ".p" = [46, 112] := by decide +kernel
  rw [hb] at h
  unfold hasSuffixB at h
  simp only [List.reverse_cons, List.reverse_nil, List.nil_append, List.cons_append] at h
  cases hr : e.reverse with
  | nil => rw [hr] at h; simp [isPrefixOfB] at h
  | cons c r =>
    rw [hr] at h
    simp only [isPrefixOfB, Bool.and_eq_true, beq_iff_eq] at h
    have : c ∈ e.reverse := by rw [hr]; simp
    rw [← h.1] at this
    simpa using this

theorem parse_eval_full (path fh L : Bytes) (segs : List Bytes) (h l n : Nat) (isData : Bool)
    (hsplit : splitOn 47 path = B "tile" :: fh :: L :: segs) (hsegs : segs ≠ [])
    (hfh : Decimal.parseInt64 fh = some (h : Int)) (hL : (L == B "data") = isData)
    (hL' : Decimal.parseInt64 (if isData then B "0" else L) = some (l : Int))
    (hh1 : 1 ≤ h) (hh2 : h ≤ 30)
    (hnop : ∀ e ∈ (B "tile" :: fh :: (if isData then B "0" else L) :: segs), (112 : UInt8) ∉ e)
    (hpn : parseN segs 0 = some n) (hn : n < 2 ^ 63)
    (hpath : path = tilePath { h := h, l := if isData then 0 else l, n := n, w := 2 ^ h, data := isData }) :
    parseTilePath path = some { h := h, l := if isData then 0 else l, n := n, w := 2 ^ h, data := isData } := by
  obtain ⟨s0, segs', rfl⟩ : ∃ s0 segs', segs = s0 :: segs' := by
    cases segs with
    | nil => exact absurd rfl hsegs
    | cons a b => exact ⟨a, b, rfl⟩
  have e2 : ((B "tile" :: fh :: L :: s0 :: segs')[2]? == some (B "data")) = isData := by
    simp [hL]
  have ef : (if isData = true then (B "tile" :: fh :: L :: s0 :: segs').set 2 (B "0")
      else B "tile" :: fh :: L :: s0 :: segs') =
      B "tile" :: fh :: (if isData = true then B "0" else L) :: s0 :: segs' := by
    cases isData <;> simp
  have hsuf : ∀ k : Nat, hasSuffixB ((B "tile" :: fh :: (if isData = true then B "0" else L) :: s0 :: segs')[k]?.getD [])
      (B ".p") = false := by
    intro k
    cases hk : (B "tile" :: fh :: (if isData = true then B "0" else L) :: s0 :: segs')[k]? with
    | none => decide +kernel
    | some e =>
      have hm := List.mem_of_getElem? hk
      cases hs : hasSuffixB e (B ".p") with
      | false => simp [hs]
      | true => exact absurd (hasSuffixB_dotp e hs) (hnop e hm)
  have hpow : ((2 : Int) ^ h).toNat = 2 ^ h := by
    have : ((2 : Int) ^ h) = ((2 ^ h : Nat) : Int) := by rw [Int.natCast_pow]; rfl
    rw [this, Int.toNat_natCast]
  unfold parseTilePath
  simp only [hsplit, e2, ef, hsuf]
  simp [hfh, hL', hpn, hpow]
  exact ⟨⟨by omega, by omega⟩, by omega, hpath⟩

theorem isPrefixOfB_append : ∀ (p x : Bytes), isPrefixOfB p (p ++ x) = true
  | [], _ => by simp [isPrefixOfB]
  | a :: p, x => by simp [isPrefixOfB, isPrefixOfB_append p x]

theorem hasSuffixB_append (x s : Bytes) : hasSuffixB (x ++ s) s = true := by
  unfold hasSuffixB
  rw [List.reverse_append]
  exact isPrefixOfB_append _ _

theorem idx2 {α : Type} (P : List α) (a b : α) : (P ++ [a, b])[(P ++ [a, b]).length - 2]? = some a := by
  rw [List.getElem?_append_right (by simp)]
  simp

theorem idx1 {α : Type} (P : List α) (a b : α) : (P ++ [a, b])[(P ++ [a, b]).length - 1]? = some b := by
  rw [List.getElem?_append_right (by simp)]
  simp

theorem settake {α : Type} (P : List α) (a b z : α) :
    ((P ++ [a, b]).set ((P ++ [a, b]).length - 2) z).take ((P ++ [a, b]).length - 1) = P ++ [z] := by
  induction P with
  | nil => simp
  | cons c P ih =>
    simp only [List.cons_append, List.length_cons, List.length_append, List.length_nil] at ih ⊢
    have h1 : P.length + (0 + 1 + 1) + 1 - 2 = (P.length + (0 + 1 + 1) - 2) + 1 := by omega
    have h2 : P.length + (0 + 1 + 1) + 1 - 1 = (P.length + (0 + 1 + 1) - 1) + 1 := by omega
    rw [h1, h2, List.set_cons_succ, List.take_succ_cons, ih]

theorem parse_eval_partial (path fh L : Bytes) (pre : List Bytes) (x fw : Bytes) (h l n w : Nat)
    (isData : Bool)
    (hsplit : splitOn 47 path = B "tile" :: fh :: L :: (pre ++ [x ++ B ".p", fw]))
    (hfh : Decimal.parseInt64 fh = some (h : Int)) (hL : (L == B "data") = isData)
    (hL' : Decimal.parseInt64 (if isData then B "0" else L) = some (l : Int))
    (hh1 : 1 ≤ h) (hh2 : h ≤ 30)
    (hfw : Decimal.parseInt64 fw = some (w : Int)) (hw1 : 1 ≤ w) (hw2 : w < 2 ^ h)
    (hpn : parseN (pre ++ [x]) 0 = some n) (hn : n < 2 ^ 63)
    (hpath : path = tilePath { h := h, l := if isData then 0 else l, n := n, w := w, data := isData }) :
    parseTilePath path = some { h := h, l := if isData then 0 else l, n := n, w := w, data := isData } := by
  have e2 : ((B "tile" :: fh :: L :: (pre ++ [x ++ B ".p", fw]))[2]? == some (B "data")) = isData := by
    simp [hL]
  have ef : (if isData = true then (B "tile" :: fh :: L :: (pre ++ [x ++ B ".p", fw])).set 2 (B "0")
      else B "tile" :: fh :: L :: (pre ++ [x ++ B ".p", fw])) =
      (B "tile" :: fh :: (if isData = true then B "0" else L) :: pre) ++ [x ++ B ".p", fw] := by
    cases isData <;> simp
  have hpow : ((2 : Int) ^ h) = ((2 ^ h : Nat) : Int) := by rw [Int.natCast_pow]; rfl
  have htk : List.take ((x ++ B ".p").length - 2) (x ++ B ".p") = x := by
    have : (B ".p").length = 2 := by decide +kernel
    simp [this]
  unfold parseTilePath
  simp only [hsplit, e2, ef, idx2, idx1, settake, Option.getD_some, hasSuffixB_append, htk]
  have hc : ¬ (w = 0 ∨ (2 : Int) ^ h ≤ (w : Int)) := by
    rw [hpow]; omega
  simp [hfh, hL', hpn, hfw, hc]
  exact ⟨⟨by omega, by omega⟩, by omega, hpath⟩

/-! ### splitting a printed path -/

theorem splitOn_sep : ∀ (a b : Bytes), (47 : UInt8) ∉ a → splitOn 47 (a ++ 47 :: b) = a :: splitOn 47 b
  | [], b, _ => by simp [splitOn]
  | c :: a, b, h => by
    have hc : (c == 47) = false := by
      have : c ≠ 47 := fun e => h (by simp [e])
      simpa using this
    have ha : (47 : UInt8) ∉ a := fun e => h (by simp [e])
    simp only [List.cons_append, splitOn, hc, Bool.false_eq_true, if_false, splitOn_sep a b ha]

theorem splitOn_nosep : ∀ (a : Bytes), (47 : UInt8) ∉ a → splitOn 47 a = [a]
  | [], _ => by simp [splitOn]
  | c :: a, h => by
    have hc : (c == 47) = false := by
      have : c ≠ 47 := fun e => h (by simp [e])
      simpa using this
    have ha : (47 : UInt8) ∉ a := fun e => h (by simp [e])
    simp only [splitOn, hc, Bool.false_eq_true, if_false, splitOn_nosep a ha]

theorem pathN_append : ∀ (f n : Nat) (acc p : Bytes), pathN f n acc ++ p = pathN f n (acc ++ p) := by
  intro f
  induction f with
  | zero => intro n acc p; rfl
  | succ f ih =>
    intro n acc p
    simp only [pathN]
    split
    · rw [ih]; simp
    · rfl

/-- the `xNNN` directory components that `pathN` prepends -/
def hi : Nat → Nat → List Bytes
  | 0, _ => []
  | f + 1, n => if n ≥ pathBase then hi f (n / pathBase) ++ [120 :: Decimal.pad3 (n / pathBase % pathBase)] else []

theorem splitOn_pathN : ∀ (f n : Nat) (acc : Bytes),
    splitOn 47 (pathN f n acc) = hi f n ++ splitOn 47 acc := by
  intro f
  induction f with
  | zero => intro n acc; simp [pathN, hi]
  | succ f ih =>
    intro n acc
    simp only [pathN, hi]
    split
    · rw [ih]
      have h47 : (47 : UInt8) ∉ (120 :: Decimal.pad3 (n / pathBase % pathBase)) := by
        simp only [List.mem_cons, not_or]
        exact ⟨by decide, Decimal.pad3_not_mem _ 47 (by decide)⟩
      have := splitOn_sep _ acc h47
      simp only [List.cons_append, List.append_assoc, List.nil_append] at this ⊢
      rw [this]
    · simp

theorem hi_no_p : ∀ (f n : Nat), ∀ e ∈ hi f n, (112 : UInt8) ∉ e := by
  intro f
  induction f with
  | zero => intro n e he; simp [hi] at he
  | succ f ih =>
    intro n e he
    simp only [hi] at he
    split at he
    · rcases List.mem_append.1 he with he | he
      · exact ih _ e he
      · simp only [List.mem_singleton] at he
        subst he
        simp only [List.mem_cons, not_or]
        exact ⟨by decide, Decimal.pad3_not_mem _ 112 (by decide)⟩
    · simp at he

theorem parseN_append : ∀ (l1 l2 : List Bytes) (a : Nat),
    parseN (l1 ++ l2) a = (parseN l1 a).bind (parseN l2) := by
  intro l1
  induction l1 with
  | nil => intro l2 a; simp [parseN]
  | cons s l1 ih =>
    intro l2 a
    simp only [List.cons_append, parseN]
    split
    · rfl
    · split
      · rfl
      · exact ih _ _

theorem trimX_pad3 (d : Nat) : trimX (Decimal.pad3 d) = Decimal.pad3 d := by
  have hne := Decimal.pad3_ne_nil d
  have hx := Decimal.pad3_not_mem d 120 (by decide)
  cases hp : Decimal.pad3 d with
  | nil => exact absurd hp hne
  | cons c r =>
    rw [hp] at hx
    have hc : c ≠ 120 := fun e => hx (by simp [e])
    unfold trimX
    split
    · rename_i heq
      simp only [List.cons.injEq] at heq
      exact absurd heq.1 hc
    · rfl

theorem parseN_single (d a : Nat) (h : d < 1000) :
    parseN [Decimal.pad3 d] a = some (a * 1000 + d) := by
  simp only [parseN, trimX_pad3, Decimal.parseInt64_pad3 d h, pathBase]
  have : ¬ ((d : Int) < 0 ∨ (d : Int) ≥ 1000) := by omega
  simp [this]

theorem parseN_single_x (d a : Nat) (h : d < 1000) :
    parseN [120 :: Decimal.pad3 d] a = some (a * 1000 + d) := by
  have := parseN_single d a h
  simp only [parseN, trimX_pad3] at this
  simp only [parseN, trimX]
  exact this

theorem parseN_hi : ∀ (f n : Nat), n ≤ f → parseN (hi f n) 0 = some (n / 1000) := by
  intro f
  induction f with
  | zero => intro n h; have : n = 0 := by omega
            subst this; simp [hi, parseN]
  | succ f ih =>
    intro n h
    have hb : pathBase = 1000 := rfl
    by_cases hge : n ≥ pathBase
    · simp only [hi, if_pos hge]
      rw [hb] at hge ⊢
      rw [parseN_append, ih (n / 1000) (by omega)]
      simp only [Option.bind_some]
      rw [parseN_single_x _ _ (Nat.mod_lt _ (by omega))]
      congr 1
      omega
    · simp only [hi, if_neg hge]
      rw [hb] at hge
      simp only [parseN]
      congr 1
      omega

/-! ### the round trip -/

theorem B_tile_slash : B "tile/" = B "tile" ++ [47] := by decide +kernel
theorem B_dotp_slash : B ".p/" = B ".p" ++ [47] := by decide +kernel

theorem splitOn_tilePath (t : Tile) :
    splitOn 47 (tilePath t) = B "tile" :: Decimal.formatNat t.h ::
      (if t.data then B "data" else Decimal.formatNat t.l) ::
      (hi t.n t.n ++ splitOn 47 (Decimal.pad3 (t.n % pathBase) ++
        (if t.w != 2 ^ t.h then B ".p/" ++ Decimal.formatNat t.w else []))) := by
  have h1 : (47 : UInt8) ∉ B "tile" := by decide +kernel
  have h2 := Decimal.formatNat_not_mem t.h 47 (by decide)
  have h3 : (47 : UInt8) ∉ (if t.data then B "data" else Decimal.formatNat t.l) := by
    split
    · decide +kernel
    · exact Decimal.formatNat_not_mem t.l 47 (by decide)
  unfold tilePath
  simp only [B_tile_slash, List.append_assoc, List.cons_append, List.nil_append]
  rw [splitOn_sep _ _ h1, splitOn_sep _ _ h2, splitOn_sep _ _ h3, pathN_append, splitOn_pathN]

/-- `ParseTilePath(t.Path()) = t` for a valid tile.  (`hl`: Go's `Tile.L` is an `int`; the model's `l` is
    an unbounded `Nat`, and `parseTilePath` reads it with `parseInt64`.) -/
theorem tilePath_roundtrip (t : Tile) (hh : 1 ≤ t.h ∧ t.h ≤ 30) (hw : 1 ≤ t.w ∧ t.w ≤ 2 ^ t.h)
    (hn : t.n < 2 ^ 63) (hl : t.l < 2 ^ 63) (hd : t.data = true → t.l = 0) :
    parseTilePath (tilePath t) = some t := by
  have hsplit := splitOn_tilePath t
  obtain ⟨h, l, n, w, data⟩ := t
  simp only at hh hw hn hl hd hsplit
  have hl0 : (if data = true then 0 else l) = l := by
    cases data with
    | false => rfl
    | true => simp [hd rfl]
  have hfh : Decimal.parseInt64 (Decimal.formatNat h) = some (h : Int) :=
    Decimal.parseInt64_formatNat h (by simp only [Decimal.int64Max]; omega)
  have hL : ((if data = true then B "data" else Decimal.formatNat l) == B "data") = data := by
    cases data with
    | true => simp
    | false =>
      have : Decimal.formatNat l ≠ B "data" := by
        intro e
        have h100 : (100 : UInt8) ∈ B "data" := by decide +kernel
        rw [← e] at h100
        exact Decimal.formatNat_not_mem l 100 (by decide) h100
      simpa using this
  have hL' : Decimal.parseInt64 (if data = true then B "0"
      else (if data = true then B "data" else Decimal.formatNat l)) = some (l : Int) := by
    cases data with
    | true =>
      have : l = 0 := hd rfl
      subst this
      decide +kernel
    | false =>
      simp only [Bool.false_eq_true, if_false]
      exact Decimal.parseInt64_formatNat l (by simp only [Decimal.int64Max]; omega)
  have hr : n % pathBase < 1000 := Nat.mod_lt _ (by decide)
  have hpn : parseN (hi n n ++ [Decimal.pad3 (n % pathBase)]) 0 = some n := by
    rw [parseN_append, parseN_hi n n (Nat.le_refl _)]
    simp only [Option.bind_some]
    rw [parseN_single _ _ hr]
    congr 1
    have hb : pathBase = 1000 := rfl
    rw [hb]; omega
  have hnop0 : ∀ e ∈ B "tile" :: Decimal.formatNat h ::
      (if data = true then B "0" else (if data = true then B "data" else Decimal.formatNat l)) ::
      hi n n, (112 : UInt8) ∉ e := by
    intro e he
    simp only [List.mem_cons] at he
    rcases he with rfl | rfl | rfl | he
    · decide +kernel
    · exact Decimal.formatNat_not_mem h 112 (by decide)
    · cases data with
      | true => simp only [if_true]; decide +kernel
      | false => exact Decimal.formatNat_not_mem l 112 (by decide)
    · exact hi_no_p n n e he
  by_cases hfull : w = 2 ^ h
  · subst hfull
    have hsp : splitOn 47 (tilePath ⟨h, l, n, 2 ^ h, data⟩) = B "tile" :: Decimal.formatNat h ::
        (if data = true then B "data" else Decimal.formatNat l) ::
        (hi n n ++ [Decimal.pad3 (n % pathBase)]) := by
      rw [hsplit]
      simp [splitOn_nosep _ (Decimal.pad3_not_mem (n % pathBase) 47 (by decide))]
    have hnop : ∀ e ∈ B "tile" :: Decimal.formatNat h ::
        (if data = true then B "0" else (if data = true then B "data" else Decimal.formatNat l)) ::
        (hi n n ++ [Decimal.pad3 (n % pathBase)]), (112 : UInt8) ∉ e := by
      intro e he
      simp only [List.mem_cons, List.mem_append, List.not_mem_nil, or_false] at he
      rcases he with he | he | he | he | he
      · exact hnop0 e (by simp [he])
      · exact hnop0 e (by simp [he])
      · exact hnop0 e (by simp [he])
      · exact hnop0 e (by simp [he])
      · subst he; exact Decimal.pad3_not_mem _ 112 (by decide)
    have := parse_eval_full _ _ _ _ h l n data hsp (by simp) hfh hL hL' hh.1 hh.2 hnop hpn hn
      (by rw [hl0])
    rw [hl0] at this
    exact this
  · have hne : (w != 2 ^ h) = true := by simpa using hfull
    have hsp : splitOn 47 (tilePath ⟨h, l, n, w, data⟩) = B "tile" :: Decimal.formatNat h ::
        (if data = true then B "data" else Decimal.formatNat l) ::
        (hi n n ++ [Decimal.pad3 (n % pathBase) ++ B ".p", Decimal.formatNat w]) := by
      rw [hsplit]
      simp only [hne, if_true, B_dotp_slash]
      have h47 : (47 : UInt8) ∉ Decimal.pad3 (n % pathBase) ++ B ".p" := by
        simp only [List.mem_append, not_or]
        exact ⟨Decimal.pad3_not_mem _ 47 (by decide), by decide +kernel⟩
      have := splitOn_sep _ (Decimal.formatNat w) h47
      simp only [List.append_assoc, List.singleton_append] at this ⊢
      rw [this, splitOn_nosep _ (Decimal.formatNat_not_mem w 47 (by decide))]
    have hfw : Decimal.parseInt64 (Decimal.formatNat w) = some (w : Int) := by
      apply Decimal.parseInt64_formatNat
      have : 2 ^ h ≤ 2 ^ 30 := Nat.pow_le_pow_right (by omega) hh.2
      simp only [Decimal.int64Max]; omega
    have := parse_eval_partial _ _ _ _ _ _ h l n w data hsp hfh hL hL' hh.1 hh.2 hfw hw.1
      (by omega) hpn hn (by rw [hl0])
    rw [hl0] at this
    exact this

end ModVerif.Tile
