/-
  Tile paths: `parseTilePath` only accepts what `tilePath` prints, and `tilePath` round-trips.
-/
import ModVerif.Model.Tile
import ModVerif.Proofs.Decimal
namespace ModVerif.Tile
open ModVerif ModVerif.Tlog

theorem parseTilePath_sound (s : Bytes) (t : Tile) : parseTilePath s = some t → tilePath t = s := by
  intro h
  unfold parseTilePath at h
  simp only at h
  repeat' (split at h)
  all_goals first
    | exact absurd h (by simp)
    | (rename_i hne
       simp only [Option.some.injEq] at h
       subst h
       simpa using hne)

end ModVerif.Tile
