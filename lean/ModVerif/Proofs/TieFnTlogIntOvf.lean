/-
  Tie proofs, part 4: the range hypotheses of the integer kernels are tight — outside them the checked
  translation reports an int64 overflow (so `StoredHashIndex … = .ok _` holds EXACTLY when the result fits in int64,
  and `SplitStoredHashIndex(MaxInt64)` overflows).
-/
import ModVerif.Proofs.TieFnTlogInt
namespace ModVerif.TieFnTlogInt
open ModVerif ModVerif.GoRt

theorem chk64_natCast_overflow {n : Nat} (h : 2 ^ 63 ≤ n) : chk64 (n : Int) = .error .overflow :=
  chk64_overflow (by omega)

/-- first loop: if the level-0 record number leaves the int64 range, the loop overflows -/
theorem StoredHashIndex_loop1_overflow : ∀ (l n fuel : Nat), l < fuel → l < 2 ^ 63 → n < 2 ^ 63 →
    2 ^ 63 ≤ Tlog.descend l n →
    Generated.Tlog.StoredHashIndex_loop1 fuel (n : Int) (l : Int) = .error .overflow := by
  intro l
  induction l with
  | zero => intro n fuel _ _ hn hd; simp [Tlog.descend] at hd; omega
  | succ l ih =>
    intro n fuel hf hl hn hd
    obtain ⟨fuel, rfl⟩ : ∃ g, fuel = g + 1 := ⟨fuel - 1, by omega⟩
    simp only [Tlog.descend] at hd
    have h1 : ((l + 1 : Nat) : Int) > 0 := by omega
    have e1 : (2 : Int) * (n : Int) = ((2 * n : Nat) : Int) := by omega
    rw [Generated.Tlog.StoredHashIndex_loop1]
    simp only [h1, decide_true, ↓reduceIte, e1]
    by_cases h2 : 2 * n < 2 ^ 63
    · have e2 : ((2 * n : Nat) : Int) + 1 = ((2 * n + 1 : Nat) : Int) := by omega
      have e3 : ((l + 1 : Nat) : Int) - 1 = (l : Int) := by omega
      simp only [chk64_natCast h2, mbind_ok, e2, chk64_natCast (show 2 * n + 1 < 2 ^ 63 by omega), e3,
        chk64_natCast (show l < 2 ^ 63 by omega)]
      exact ih (2 * n + 1) fuel (by omega) (by omega) (by omega) hd
    · simp only [chk64_natCast_overflow (show 2 ^ 63 ≤ 2 * n by omega), mbind_error]

/-- second loop: if the sum leaves the int64 range, the loop overflows -/
theorem StoredHashIndex_loop2_overflow : ∀ (fuel n i : Nat), n < 2 ^ fuel → i < 2 ^ 63 → 2 ^ 63 ≤ i + Tlog.S n →
    Generated.Tlog.StoredHashIndex_loop2 (fuel + 1) (i : Int) (n : Int) = .error .overflow := by
  intro fuel
  induction fuel with
  | zero =>
    intro n i hn hi hr
    have : n = 0 := by simpa using hn
    subst this
    simp [Tlog.S_zero] at hr; omega
  | succ fuel ih =>
    intro n i hn hi hr
    by_cases h0 : n = 0
    · subst h0; simp [Tlog.S_zero] at hr; omega
    · have hS := Tlog.S_pos n (by omega)
      have h1 : (n : Int) > 0 := by omega
      have e1 : (i : Int) + (n : Int) = ((i + n : Nat) : Int) := by omega
      rw [hS] at hr
      have hn2 : n / 2 < 2 ^ fuel := by rw [Nat.pow_succ] at hn; omega
      rw [Generated.Tlog.StoredHashIndex_loop2]
      simp only [h1, decide_true, ↓reduceIte, e1]
      by_cases h2 : i + n < 2 ^ 63
      · simp only [chk64_natCast h2, mbind_ok, shr_natCast_one]
        exact ih (n / 2) (i + n) hn2 h2 (by omega)
      · simp only [chk64_natCast_overflow (show 2 ^ 63 ≤ i + n by omega), mbind_error]

/-- `StoredHashIndex` on int64 arguments `level ≥ 0`, `n ≥ 0` whose result does NOT fit in int64: overflow
    (the converse of `StoredHashIndex_eq`) -/
theorem StoredHashIndex_overflow (fuel level n : Nat) (hl : level < 2 ^ 63) (hn : n < 2 ^ 63)
    (hr : 2 ^ 63 ≤ Tlog.storedHashIndex level n) (hf : level + 64 ≤ fuel) :
    Generated.Tlog.StoredHashIndex fuel (level : Int) (n : Int) = .error .overflow := by
  have e : Tlog.storedHashIndex level n = Tlog.S (Tlog.descend level n) + level := rfl
  by_cases hd : Tlog.descend level n < 2 ^ 63
  · obtain ⟨g, rfl⟩ : ∃ g, fuel = g + 1 := ⟨fuel - 1, by omega⟩
    have hlt : Tlog.descend level n < 2 ^ g :=
      Nat.lt_of_lt_of_le hd (Nat.pow_le_pow_right (by omega) (by omega))
    have h1 := StoredHashIndex_loop1_eq level n (g + 1) (by omega) hd
    by_cases hs : Tlog.S (Tlog.descend level n) < 2 ^ 63
    · have h2 := StoredHashIndex_loop2_eq g (Tlog.descend level n) 0 hlt (by omega)
      simp only [Int.natCast_zero, Nat.zero_add] at h2
      have e1 : ((Tlog.S (Tlog.descend level n) : Nat) : Int) + (level : Int) =
          ((Tlog.storedHashIndex level n : Nat) : Int) := by rw [e]; omega
      simp only [Generated.Tlog.StoredHashIndex, h1, mbind_ok, h2, e1, chk64_natCast_overflow hr]
    · have h2 := StoredHashIndex_loop2_overflow g (Tlog.descend level n) 0 hlt (by omega) (by omega)
      simp only [Int.natCast_zero] at h2
      simp only [Generated.Tlog.StoredHashIndex, h1, mbind_ok, h2, mbind_error]
  · have h1 := StoredHashIndex_loop1_overflow level n fuel (by omega) hl hn (by omega)
    simp only [Generated.Tlog.StoredHashIndex, h1, mbind_error]

/-! ### StoredHashCount -/

theorem StoredHashCount_loop1_overflow : ∀ (f i nh : Nat), i < 2 ^ f → i < 2 ^ 64 → nh < 2 ^ 63 →
    2 ^ 63 ≤ nh + Tlog.trailingOnes f i →
    Generated.Tlog.StoredHashCount_loop1 (f + 1) (nh : Int) (i : Int) = .error .overflow := by
  intro f
  induction f with
  | zero => intro i nh _ _ hnh hr; simp [Tlog.trailingOnes] at hr; omega
  | succ f ih =>
    intro i nh hi hi64 hnh hr
    rw [Generated.Tlog.StoredHashCount_loop1]
    simp only [band_natCast_one hi64, Tlog.trailingOnes] at hr ⊢
    by_cases hodd : i % 2 = 1
    · have hb : (i % 2 == 1) = true := by simp [hodd]
      rw [hb] at hr
      simp only [↓reduceIte] at hr
      have hne : ¬ (((i % 2 : Nat) : Int) = 0) := by omega
      have e1 : (nh : Int) + 1 = ((nh + 1 : Nat) : Int) := by omega
      have hi2 : i / 2 < 2 ^ f := by rw [Nat.pow_succ] at hi; omega
      simp only [hne, decide_false, Bool.not_false, ↓reduceIte, e1]
      by_cases h2 : nh + 1 < 2 ^ 63
      · simp only [chk64_natCast h2, mbind_ok, shr_natCast_one]
        exact ih (i / 2) (nh + 1) hi2 (by omega) h2 (by omega)
      · simp only [chk64_natCast_overflow (show 2 ^ 63 ≤ nh + 1 by omega), mbind_error]
    · have hb : (i % 2 == 1) = false := by simp; omega
      rw [hb] at hr
      simp at hr; omega

/-- `StoredHashCount` on an int64 argument `n ≥ 0` whose result does not fit in int64: overflow
    (the converse of `StoredHashCount_eq`) -/
theorem StoredHashCount_overflow (fuel n : Nat) (hn : n < 2 ^ 63) (hr : 2 ^ 63 ≤ Tlog.storedHashCount n) (hf : 65 ≤ fuel) :
    Generated.Tlog.StoredHashCount fuel (n : Int) = .error .overflow := by
  cases n with
  | zero => simp [Tlog.storedHashCount] at hr
  | succ m =>
    rw [storedHashCount_succ] at hr
    have hne : ¬ (((m + 1 : Nat) : Int) = 0) := by omega
    have e1 : ((m + 1 : Nat) : Int) - 1 = (m : Int) := by omega
    simp only [Generated.Tlog.StoredHashCount, hne, decide_false, Bool.false_eq_true, ↓reduceIte, e1,
      chk64_natCast (show m < 2 ^ 63 by omega), mbind_ok]
    by_cases hs : Tlog.S m < 2 ^ 63
    · have hshi := StoredHashIndex_eq fuel 0 m (by rw [Tlog.storedHashIndex_zero_eq]; omega) (by omega)
      rw [Tlog.storedHashIndex_zero_eq] at hshi
      simp only [Int.natCast_zero] at hshi
      have e2 : ((Tlog.S m : Nat) : Int) + 1 = ((Tlog.S m + 1 : Nat) : Int) := by omega
      simp only [hshi, mbind_ok, e2]
      by_cases hs1 : Tlog.S m + 1 < 2 ^ 63
      · obtain ⟨g, rfl⟩ : ∃ g, fuel = g + 1 := ⟨fuel - 1, by omega⟩
        have h64 : m < 2 ^ 64 := by omega
        have hpow : m < 2 ^ g := Nat.lt_of_lt_of_le h64 (Nat.pow_le_pow_right (by omega) (by omega))
        have hto : Tlog.trailingOnes g m = Tlog.trailingOnes 64 m := by
          rw [Tlog.trailingOnes_eq_tz 64 m h64, Tlog.trailingOnes_eq_tz g m hpow]
        have hl := StoredHashCount_loop1_overflow g m (Tlog.S m + 1) hpow h64 hs1 (by rw [hto]; omega)
        simp only [chk64_natCast hs1, mbind_ok, toU64_natCast h64, hl, mbind_error]
      · simp only [chk64_natCast_overflow (show 2 ^ 63 ≤ Tlog.S m + 1 by omega), mbind_error]
    · have hov := StoredHashIndex_overflow fuel 0 m (by omega) (by omega)
        (by rw [Tlog.storedHashIndex_zero_eq]; omega) (by omega)
      simp only [Int.natCast_zero] at hov
      simp only [hov, mbind_error]

/-! ### SplitStoredHashIndex(MaxInt64) -/

/-- one iteration of the loop of SplitStoredHashIndex that does not stop -/
theorem SplitStoredHashIndex_loop1_step (p n fuel : Nat) (h1 : Tlog.S (n + 1) ≤ p) (hr : Tlog.S (n + 1) < 2 ^ 63) :
    Generated.Tlog.SplitStoredHashIndex_loop1 (p : Int) (fuel + 1) (n : Int) ((Tlog.S n : Nat) : Int) =
      Generated.Tlog.SplitStoredHashIndex_loop1 (p : Int) fuel ((n + 1 : Nat) : Int) ((Tlog.S (n + 1) : Nat) : Int) := by
  have hSn := Tlog.S_succ n
  have hle := TlogStore.le_S (n + 1)
  have e1 : ((Tlog.S n : Nat) : Int) + 1 = ((Tlog.S n + 1 : Nat) : Int) := by omega
  have e2 : (n : Int) + 1 = ((n + 1 : Nat) : Int) := by omega
  have e3 : ((Tlog.S n + 1 : Nat) : Int) + ((RFC6962.tz (n + 1) : Nat) : Int) = ((Tlog.S (n + 1) : Nat) : Int) := by omega
  have hgt : ¬ (((Tlog.S (n + 1) : Nat) : Int) > (p : Int)) := by omega
  rw [Generated.Tlog.SplitStoredHashIndex_loop1]
  simp only [e1, chk64_natCast (show Tlog.S n + 1 < 2 ^ 63 by omega), mbind_ok, e2,
    chk64_natCast (show n + 1 < 2 ^ 63 by omega), toU64_natCast (show n + 1 < 2 ^ 64 by omega),
    trailingZeros64_tz (n + 1) (by omega) (by omega), e3, chk64_natCast hr, hgt, decide_false, Bool.false_eq_true, ↓reduceIte]

/-- an iteration that starts at the last int64 position overflows in `indexN + 1` -/
theorem SplitStoredHashIndex_loop1_overflow (p n fuel : Nat) (h : 2 ^ 63 ≤ Tlog.S n + 1) :
    Generated.Tlog.SplitStoredHashIndex_loop1 (p : Int) (fuel + 1) (n : Int) ((Tlog.S n : Nat) : Int) = .error .overflow := by
  have e1 : ((Tlog.S n : Nat) : Int) + 1 = ((Tlog.S n + 1 : Nat) : Int) := by omega
  rw [Generated.Tlog.SplitStoredHashIndex_loop1]
  simp only [e1, chk64_natCast_overflow h, mbind_error]

/-- `SplitStoredHashIndex(math.MaxInt64)`: `MaxInt64 = StoredHashIndex(0, 2^62)` is a valid stored-hash index, but the
    loop computes `x = indexN + 1 = 2^63` — an int64 overflow (the Go code wraps around and keeps looping). -/
theorem SplitStoredHashIndex_maxInt64 (fuel : Nat) (hf : 64 ≤ fuel) :
    Generated.Tlog.SplitStoredHashIndex fuel (((2 ^ 63 - 1 : Nat)) : Int) = .error .overflow := by
  obtain ⟨g, rfl⟩ : ∃ g, fuel = g + 2 := ⟨fuel - 2, by omega⟩
  have h62 := S_two_pow 62
  have hS1 := TlogStore.S_lt_succ (2 ^ 62 - 1)
  have e62 : 2 ^ 62 - 1 + 1 = 2 ^ 62 := by omega
  rw [e62] at hS1
  have hhalf : (2 ^ 63 - 1) / 2 = 2 ^ 62 - 1 := by omega
  have hshi := StoredHashIndex_eq (g + 2) 0 (2 ^ 62 - 1) (by rw [Tlog.storedHashIndex_zero_eq]; omega) (by omega)
  rw [Tlog.storedHashIndex_zero_eq] at hshi
  simp only [Int.natCast_zero] at hshi
  have hng : ¬ (((Tlog.S (2 ^ 62 - 1) : Nat) : Int) > ((2 ^ 63 - 1 : Nat) : Int)) := by omega
  have hstep := SplitStoredHashIndex_loop1_step (2 ^ 63 - 1) (2 ^ 62 - 1) (g + 1) (by rw [e62]; omega) (by rw [e62]; omega)
  rw [e62] at hstep
  have hov := SplitStoredHashIndex_loop1_overflow (2 ^ 63 - 1) (2 ^ 62) g (by omega)
  simp only [Generated.Tlog.SplitStoredHashIndex, quo_natCast_two, hhalf, mbind_ok, hshi, hng, decide_false, Bool.false_eq_true,
    ↓reduceIte, hstep, hov, mbind_error]

end ModVerif.TieFnTlogInt
