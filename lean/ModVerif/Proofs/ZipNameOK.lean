import ModVerif.Spec.ZipSpec
import ModVerif.Proofs.ZipValid
import ModVerif.Proofs.ZipCC
namespace ModVerif.Proofs.Zip
open ModVerif ModVerif.PathClean ModVerif.Zip ModVerif.ZipSpec

/-- everything the second loop has established about a file when it appends it to the valid list -/
structure NameOK (E : Env) (ge124 : Bool) (hg : List Bytes) (f : FileInfo) : Prop where
  clean : pathClean f.path = f.path
  notAbs : isAbs f.path = false
  notVendored : isVendoredPackage f.path ge124 = false
  notInSubmodule : inSubmodule hg f.path = false
  notHg : f.path ≠ hgArchivalName
  cfp : E.cfp f.path = true
  goModCase : toLowerIsGoMod f.path = true → f.path = goModName
  regular : f.mode = .regular
  goModSize : f.path = goModName → f.size ≤ MaxGoMod
  licenseSize : f.path = licenseName → f.size ≤ MaxLICENSE

theorem addError_cc (s : St) (p : Bytes) (om : Bool) (r : Reason) : (s.addError p om r).cc = s.cc := by
  unfold St.addError
  by_cases h : p ∈ s.errPaths
  · simp [h]
  · simp [h]; cases om <;> simp

theorem account_cc (s : St) (n : Int) : (s.account n).cc = s.cc ∧ (s.account n).validFiles = s.validFiles := by
  unfold St.account; split <;> exact ⟨rfl, rfl⟩

/-- one step of the second loop, seen from the valid list and the collision checker: either the valid
    files are unchanged (and the checker was not consulted, or it was, whatever the outcome), or the
    file passed every check, the checker accepted its path as a file, and it was appended. -/
theorem stepFile_valid_cc (E : Env) (ge124 : Bool) (hg : List Bytes) (s : St) (f : FileInfo) :
    ((stepFile E ge124 hg s f).validFiles = s.validFiles ∧
      ((stepFile E ge124 hg s f).cc = s.cc ∨
       (stepFile E ge124 hg s f).cc = (ccCheckTop E.toFold s.cc f.path (f.mode == .dir)).1)) ∨
    ((stepFile E ge124 hg s f).validFiles = s.validFiles ++ [f] ∧ NameOK E ge124 hg f ∧
      (ccCheckTop E.toFold s.cc f.path false).2 = none ∧
      (stepFile E ge124 hg s f).cc = (ccCheckTop E.toFold s.cc f.path false).1) := by
  unfold stepFile
  by_cases h1 : (f.path != pathClean f.path) = true
  · rw [if_pos h1]; left; exact ⟨(addError_valid _ _ _ _).2, Or.inl (addError_cc _ _ _ _)⟩
  rw [if_neg h1]
  by_cases h2 : isAbs f.path = true
  · rw [if_pos h2]; left; exact ⟨(addError_valid _ _ _ _).2, Or.inl (addError_cc _ _ _ _)⟩
  rw [if_neg h2]
  by_cases h3 : isVendoredPackage f.path ge124 = true
  · rw [if_pos h3]; left; exact ⟨(addError_valid _ _ _ _).2, Or.inl (addError_cc _ _ _ _)⟩
  rw [if_neg h3]
  by_cases h4 : inSubmodule hg f.path = true
  · rw [if_pos h4]; left; exact ⟨(addError_valid _ _ _ _).2, Or.inl (addError_cc _ _ _ _)⟩
  rw [if_neg h4]
  by_cases h5 : (f.path == hgArchivalName) = true
  · rw [if_pos h5]; left; exact ⟨(addError_valid _ _ _ _).2, Or.inl (addError_cc _ _ _ _)⟩
  rw [if_neg h5]
  by_cases h6 : (!E.cfp f.path) = true
  · rw [if_pos h6]; left; exact ⟨(addError_valid _ _ _ _).2, Or.inl (addError_cc _ _ _ _)⟩
  rw [if_neg h6]
  by_cases h7 : (toLowerIsGoMod f.path && f.path != goModName) = true
  · rw [if_pos h7]; left; exact ⟨(addError_valid _ _ _ _).2, Or.inl (addError_cc _ _ _ _)⟩
  rw [if_neg h7]
  unfold stepStat
  by_cases h8 : (f.mode == Mode.lstatErr) = true
  · rw [if_pos h8]; left; exact ⟨(addError_valid _ _ _ _).2, Or.inl (addError_cc _ _ _ _)⟩
  rw [if_neg h8]
  rcases hc : ccCheckTop E.toFold s.cc f.path (f.mode == Mode.dir) with ⟨cc', err⟩
  cases err with
  | some e =>
    left; exact ⟨(addError_valid _ _ _ _).2, Or.inr (by rw [addError_cc]; rfl)⟩
  | none =>
    simp only
    unfold stepMode
    by_cases h9 : (f.mode == Mode.symlink) = true
    · rw [if_pos h9]; left; exact ⟨(addError_valid _ _ _ _).2, Or.inr (by rw [addError_cc]; rfl)⟩
    rw [if_neg h9]
    by_cases h10 : (f.mode != Mode.regular) = true
    · rw [if_pos h10]; left; exact ⟨(addError_valid _ _ _ _).2, Or.inr (by rw [addError_cc]; rfl)⟩
    rw [if_neg h10]
    have hreg : f.mode = .regular := by simpa using h10
    have hnd : (f.mode == Mode.dir) = false := by rw [hreg]; rfl
    rw [hnd] at hc
    unfold stepSized
    by_cases h11 : (f.path == goModName && f.size > MaxGoMod) = true
    · rw [if_pos h11]; left
      exact ⟨by rw [(addError_valid _ _ _ _).2, (account_cc _ _).2]; rfl,
             Or.inr (by rw [addError_cc, (account_cc _ _).1]; rfl)⟩
    rw [if_neg h11]
    by_cases h12 : (f.path == licenseName && f.size > MaxLICENSE) = true
    · rw [if_pos h12]; left
      exact ⟨by rw [(addError_valid _ _ _ _).2, (account_cc _ _).2]; rfl,
             Or.inr (by rw [addError_cc, (account_cc _ _).1]; rfl)⟩
    rw [if_neg h12]
    right
    refine ⟨?_, ?_, by rw [hc], ?_⟩
    · show (St.account _ _).validFiles ++ [f] = _
      rw [(account_cc _ _).2]; rfl
    · refine ⟨?_, by simpa using h2, by simpa using h3, by simpa using h4, by simpa using h5, by simpa using h6, ?_, hreg, ?_, ?_⟩
      · have : ¬ f.path ≠ pathClean f.path := by simpa using h1
        exact (Classical.not_not.mp this).symm
      · intro ht; simp [ht] at h7; exact h7
      · intro hp; simp [hp] at h11; exact h11
      · intro hp; simp [hp] at h12; exact h12
    · show (St.account _ _).cc = _
      rw [(account_cc _ _).1, hc]; rfl


/-- invariant of the second loop about the files accepted so far -/
structure ValidInv (E : Env) (ge124 : Bool) (hg : List Bytes) (s : St) : Prop where
  nameOK : ∀ g ∈ s.validFiles, NameOK E ge124 hg g
  registered : ∀ g ∈ s.validFiles, (s.cc.find (E.toFold g.path)).isSome
  foldDistinct : s.validFiles.Pairwise (fun a b => E.toFold a.path ≠ E.toFold b.path)

theorem stepFile_validInv (E : Env) (ge124 : Bool) (hg : List Bytes) (s : St) (f : FileInfo)
    (h : ValidInv E ge124 hg s) : ValidInv E ge124 hg (stepFile E ge124 hg s f) := by
  rcases stepFile_valid_cc E ge124 hg s f with ⟨hv, hcc⟩ | ⟨hv, hok, hnone, hcc⟩
  · refine ⟨by rw [hv]; exact h.nameOK, ?_, by rw [hv]; exact h.foldDistinct⟩
    rw [hv]
    intro g hg'
    rcases hcc with hcc | hcc
    · rw [hcc]; exact h.registered g hg'
    · rw [hcc]
      obtain ⟨⟨new, hn⟩, _, _⟩ := ccCheckTop_spec E.toFold s.cc f.path (f.mode == .dir)
      rw [hn]; exact find_append_some _ _ _ (h.registered g hg')
  · obtain ⟨⟨new, hn⟩, hsome, hfresh⟩ := ccCheckTop_spec E.toFold s.cc f.path false
    have hfr := hfresh rfl hnone
    refine ⟨?_, ?_, ?_⟩
    · rw [hv]; intro g hg'
      rcases List.mem_append.mp hg' with hg' | hg'
      · exact h.nameOK g hg'
      · rw [List.mem_singleton.mp hg']; exact hok
    · rw [hv, hcc]; intro g hg'
      rcases List.mem_append.mp hg' with hg' | hg'
      · rw [hn]; exact find_append_some _ _ _ (h.registered g hg')
      · rw [List.mem_singleton.mp hg']; exact hsome hnone
    · rw [hv]
      refine List.pairwise_append.mpr ⟨h.foldDistinct, List.pairwise_singleton _ _, ?_⟩
      intro a ha b hb
      rw [List.mem_singleton.mp hb]
      intro heq
      have := h.registered a ha
      rw [heq, hfr] at this
      cases this

theorem mainPass_validInv (E : Env) (ge124 : Bool) (hg : List Bytes) : ∀ (l : List FileInfo) (s : St),
    ValidInv E ge124 hg s → ValidInv E ge124 hg (mainPass E ge124 hg s l) := by
  intro l
  induction l with
  | nil => intro s h; exact h
  | cons f t ih => intro s h; exact ih _ (stepFile_validInv E ge124 hg s f h)

theorem prePass_cc : ∀ (l : List FileInfo) (a : Pre), (l.foldl preStep a).st.cc = a.st.cc := by
  intro l
  induction l with
  | nil => intro a; rfl
  | cons f t ih =>
    intro a
    show (t.foldl preStep (preStep a f)).st.cc = _
    rw [ih, preStep_st]
    split
    · exact addError_cc _ _ _ _
    · rfl

/-- every file `Create` writes passed every name check, and no two of them have the same folded path. -/
theorem checkFilesSt_validInv (E : Env) (ge124 : Bool) (files : List FileInfo) :
    ValidInv E ge124 (prePass files).haveGoMod (checkFilesSt E files ge124) := by
  unfold checkFilesSt
  apply mainPass_validInv
  have h0 : (prePass files).st.validFiles = [] := prePass_validFiles files {} rfl
  refine ⟨?_, ?_, ?_⟩
  · rw [h0]; intro g hg; cases hg
  · rw [h0]; intro g hg; cases hg
  · rw [h0]; exact List.Pairwise.nil

end ModVerif.Proofs.Zip
