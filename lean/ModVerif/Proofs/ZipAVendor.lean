/-
  C17 `vendor_rule` (general form): `isVendoredPackage` is the documented vendoring rule, in both variants.
-/
import ModVerif.Spec.ZipSpec
namespace ModVerif.Proofs.ZipA
open ModVerif ModVerif.PathClean ModVerif.Zip ModVerif.ZipSpec

theorem isPrefixOfB_iff : ∀ (a b : Bytes), isPrefixOfB a b = true ↔ ∃ t, b = a ++ t := by
  intro a
  induction a with
  | nil => intro b; simp [isPrefixOfB]
  | cons x xs ih =>
    intro b
    cases b with
    | nil => simp [isPrefixOfB]
    | cons y ys =>
      simp only [isPrefixOfB, Bool.and_eq_true, beq_iff_eq, ih, List.cons_append, List.cons.injEq]
      constructor
      · rintro ⟨rfl, t, rfl⟩; exact ⟨t, rfl, rfl⟩
      · rintro ⟨t, rfl, rfl⟩; exact ⟨rfl, t, rfl⟩

theorem contains_iff (s : Bytes) (c : UInt8) : contains s c = true ↔ c ∈ s := by
  unfold contains
  rw [List.any_eq_true]
  constructor
  · rintro ⟨x, hx, h⟩
    have : x = c := by simpa using h
    rw [← this]; exact hx
  · intro h; exact ⟨c, h, by simp⟩

/-- `strings.Index`: the first occurrence -/
theorem indexOf_some (pat : Bytes) : ∀ (s : Bytes) (j : Nat), indexOf pat s = some j →
    ∃ a b, s = a ++ pat ++ b ∧ a.length = j ∧ ∀ a' b', s = a' ++ pat ++ b' → j ≤ a'.length := by
  intro s
  induction s with
  | nil =>
    intro j h
    unfold indexOf at h
    by_cases hp : pat.isEmpty = true
    · rw [if_pos hp] at h
      have : pat = [] := by simpa using hp
      subst this
      injection h with h; subst h
      exact ⟨[], [], rfl, rfl, fun _ _ _ => Nat.zero_le _⟩
    · rw [if_neg hp] at h; cases h
  | cons c rest ih =>
    intro j h
    unfold indexOf at h
    by_cases hp : isPrefixOfB pat (c :: rest) = true
    · rw [if_pos hp] at h
      injection h with h; subst h
      obtain ⟨t, ht⟩ := (isPrefixOfB_iff _ _).mp hp
      exact ⟨[], t, by rw [ht]; rfl, rfl, fun _ _ _ => Nat.zero_le _⟩
    · rw [if_neg hp] at h
      cases hi : indexOf pat rest with
      | none => rw [hi] at h; cases h
      | some j' =>
        rw [hi] at h
        simp only [Option.map_some, Option.some.injEq] at h
        subst h
        obtain ⟨a, b, h1, h2, h3⟩ := ih j' hi
        refine ⟨c :: a, b, by rw [h1]; rfl, by simp [h2], ?_⟩
        intro a' b' hs
        cases a' with
        | nil =>
          exfalso; apply hp
          exact (isPrefixOfB_iff _ _).mpr ⟨b', by rw [hs]; simp⟩
        | cons x a'' =>
          simp only [List.cons_append, List.cons.injEq] at hs
          have := h3 a'' b' (by rw [hs.2])
          simp; omega

theorem indexOf_none (pat : Bytes) : ∀ (s : Bytes), indexOf pat s = none → ¬ ∃ a b, s = a ++ pat ++ b := by
  intro s
  induction s with
  | nil =>
    intro h
    unfold indexOf at h
    by_cases hp : pat.isEmpty = true
    · rw [if_pos hp] at h; cases h
    · rintro ⟨a, b, hs⟩
      have : pat = [] := by
        have := congrArg List.length hs
        simp at this
        exact List.eq_nil_of_length_eq_zero (by omega)
      exact hp (by rw [this]; rfl)
  | cons c rest ih =>
    intro h
    unfold indexOf at h
    by_cases hp : isPrefixOfB pat (c :: rest) = true
    · rw [if_pos hp] at h; cases h
    · rw [if_neg hp] at h
      have hi : indexOf pat rest = none := by
        cases hi : indexOf pat rest with
        | none => rfl
        | some _ => rw [hi] at h; cases h
      rintro ⟨a, b, hs⟩
      cases a with
      | nil => exact hp ((isPrefixOfB_iff _ _).mpr ⟨b, by rw [hs]; simp⟩)
      | cons x a' =>
        simp only [List.cons_append, List.cons.injEq] at hs
        exact ih hi ⟨a', b, by rw [hs.2]⟩

theorem mem_drop_of_split (l1 l2 : Bytes) (n : Nat) (c : UInt8) (hn : n ≤ l1.length) (hc : c ∈ l2) :
    c ∈ (l1 ++ l2).drop n := by
  rw [List.drop_append_of_le_length hn]
  exact List.mem_append_right _ hc

theorem svs_eq : slashVendorSlash = 47 :: vendorSlash := rfl

theorem vendorSlash_length : vendorSlash.length = 7 := rfl

/-- the `/vendor/` the name splits at, from a `vendor/` preceded by a directory -/
theorem split_of_pre (name pre rest : Bytes) (h : name = pre ++ vendorSlash ++ rest)
    (hl : pre.getLast? = some 47) : ∃ pre', pre = pre' ++ [47] ∧ name = pre' ++ slashVendorSlash ++ rest := by
  obtain ⟨pre', hp⟩ := List.getLast?_eq_some_iff.mp hl
  exact ⟨pre', hp, by rw [h, hp, svs_eq]; simp⟩

/-- C17 `vendor_rule`, go ≥ 1.24 -/
theorem vendor_rule_ge124 (name : Bytes) : isVendoredPackage name true = true ↔ Vendored124 name := by
  unfold isVendoredPackage Vendored124
  by_cases h0 : name = vendorModulesTxt
  · simp [h0]
  have h0' : (true && name == vendorModulesTxt) = false := by simpa using h0
  rw [h0']
  simp only [Bool.false_eq_true, if_false]
  by_cases hp : isPrefixOfB vendorSlash name = true
  · rw [if_pos hp, contains_iff]
    obtain ⟨t, ht⟩ := (isPrefixOfB_iff _ _).mp hp
    have hd : name.drop 7 = t := by rw [ht]; exact List.drop_left' vendorSlash_length
    rw [hd]
    constructor
    · intro hm; exact Or.inr ⟨[], t, by rw [ht]; rfl, Or.inl rfl, hm⟩
    · rintro (h | ⟨pre, rest, h1, h2, h3⟩)
      · exact absurd h h0
      · rcases h2 with rfl | h2
        · rw [ht] at h1; simp at h1; rw [h1]; exact h3
        · rw [← hd, h1]
          have hne : pre ≠ [] := by intro e; rw [e] at h2; simp at h2
          have hl : 1 ≤ pre.length := by
            cases pre with
            | nil => exact absurd rfl hne
            | cons _ _ => simp
          have e : pre ++ vendorSlash ++ rest = (pre ++ [118, 101, 110, 100, 111, 114]) ++ (47 :: rest) := by
            simp [vendorSlash]
          rw [e]
          exact mem_drop_of_split _ _ 7 47 (by simp; omega) List.mem_cons_self
  · rw [if_neg hp]
    cases hi : indexOf slashVendorSlash name with
    | none =>
      simp only [Bool.false_eq_true, false_iff]
      rintro (h | ⟨pre, rest, h1, h2, h3⟩)
      · exact h0 h
      · rcases h2 with rfl | h2
        · exact hp ((isPrefixOfB_iff _ _).mpr ⟨rest, by rw [h1]; simp⟩)
        · obtain ⟨pre', _, hs⟩ := split_of_pre name pre rest h1 h2
          exact indexOf_none _ _ hi ⟨pre', rest, hs⟩
    | some j =>
      simp only [if_true]
      rw [contains_iff]
      obtain ⟨a, b, h1, h2, h3⟩ := indexOf_some _ _ _ hi
      have hd : name.drop (j + 8) = b := by
        rw [h1]; exact List.drop_left' (by simp [h2, svs_eq, vendorSlash_length])
      constructor
      · intro hm
        rw [hd] at hm
        exact Or.inr ⟨a ++ [47], b, by rw [h1, svs_eq]; simp, Or.inr (by simp), hm⟩
      · rintro (h | ⟨pre, rest, g1, g2, g3⟩)
        · exact absurd h h0
        · rcases g2 with rfl | g2
          · exact absurd ((isPrefixOfB_iff _ _).mpr ⟨rest, by rw [g1]; simp⟩) hp
          · obtain ⟨pre', _, hs⟩ := split_of_pre name pre rest g1 g2
            have hj := h3 pre' rest hs
            rw [hs]
            exact mem_drop_of_split _ _ _ 47 (by simp [svs_eq, vendorSlash_length]; omega) g3

/-- C17 `vendor_rule`, before go 1.24 -/
theorem vendor_rule_pre124 (name : Bytes) : isVendoredPackage name false = true ↔ VendoredPre124 name := by
  unfold isVendoredPackage VendoredPre124
  simp only [Bool.false_and, Bool.false_eq_true, if_false]
  have hpre : isPrefixOfB vendorSlash name = true ↔ vendorSlash <+: name := by
    rw [isPrefixOfB_iff]
    constructor
    · rintro ⟨t, h⟩; exact ⟨t, h.symm⟩
    · rintro ⟨t, h⟩; exact ⟨t, h.symm⟩
  by_cases hp : isPrefixOfB vendorSlash name = true
  · rw [if_pos hp, contains_iff]
    have := hpre.mp hp
    constructor
    · intro h; exact Or.inl ⟨this, h⟩
    · rintro (⟨_, h⟩ | ⟨h, _⟩)
      · exact h
      · exact absurd this h
  · rw [if_neg hp]
    have hnp : ¬ vendorSlash <+: name := fun h => hp (hpre.mpr h)
    cases hi : indexOf slashVendorSlash name with
    | none =>
      simp only [Bool.false_eq_true, false_iff]
      rintro (⟨h, _⟩ | ⟨_, h, _⟩)
      · exact hnp h
      · exact indexOf_none _ _ hi h
    | some j =>
      simp only
      rw [contains_iff]
      obtain ⟨a, b, h1, _, _⟩ := indexOf_some _ _ _ hi
      constructor
      · intro h; exact Or.inr ⟨hnp, ⟨a, b, h1⟩, h⟩
      · rintro (⟨h, _⟩ | ⟨_, _, h⟩)
        · exact absurd h hnp
        · exact h

end ModVerif.Proofs.ZipA
