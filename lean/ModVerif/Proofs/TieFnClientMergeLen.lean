/-
  Tie proofs, sumdb/client.go (merge unit): size facts about the model.
  * a proof made by `Tlog.proveTree(t, n, _)` has at most `t` hashes (needed for the range hypothesis `len(p) < 2^63` of
    the `CheckTree` tie and for the fuel of the loop over the proof lines);
  * `TlogNote.parseTree` answers sizes `≥ 0`;
  * the index lists of `TreeHash` / `ProveTree` are short (`subTreeIndex` ≤ 63 entries, `treeProofIndex` ≤ 63·63): the
    `len(indexes) < 2^56` range hypothesis of the tile tie.
-/
import ModVerif.Model.Client
import ModVerif.Proofs.TlogMerkleProve
namespace ModVerif.TieFnClientMerge
open ModVerif ModVerif.Client

section
variable {H : Type} (node : H → H → H)

theorem bind_ok_inv {ε α β : Type} {x : Except ε α} {f : α → Except ε β} {b : β} (h : (x >>= f) = .ok b) :
    ∃ a, x = .ok a ∧ f a = .ok b := by
  cases x with
  | error e => cases h
  | ok a => exact ⟨a, rfl, h⟩

theorem treeProofF_length : ∀ (f lo hi n : Nat) (hs p r : List H),
    Tlog.treeProofF node f lo hi n hs = .ok (p, r) → p.length ≤ f := by
  intro f
  induction f with
  | zero => intro lo hi n hs p r h; simp [Tlog.treeProofF] at h
  | succ f ih =>
    intro lo hi n hs p r h
    unfold Tlog.treeProofF at h
    split at h
    · cases h
    · split at h
      · split at h
        · cases h; simp
        · obtain ⟨a, _, h2⟩ := bind_ok_inv h
          obtain ⟨th, hashes⟩ := a
          simp only [pure, Except.pure] at h2
          cases h2; simp
      · simp only at h
        split at h
        · obtain ⟨a, h1, h2⟩ := bind_ok_inv h
          obtain ⟨p1, hashes1⟩ := a
          simp only at h2
          obtain ⟨b, _, h3⟩ := bind_ok_inv h2
          obtain ⟨th, hashes2⟩ := b
          simp only [pure, Except.pure] at h3
          cases h3
          have := ih _ _ _ _ _ _ h1
          simp; omega
        · obtain ⟨a, _, h2⟩ := bind_ok_inv h
          obtain ⟨th, hashes1⟩ := a
          simp only at h2
          obtain ⟨b, h3, h4⟩ := bind_ok_inv h2
          obtain ⟨p1, hashes2⟩ := b
          simp only [pure, Except.pure] at h4
          cases h4
          have := ih _ _ _ _ _ _ h3
          simp; omega

theorem proveTree_length (t n : Int) (r : Tlog.HashReader H) (p : List H)
    (h : Tlog.proveTree node t n r = .ok p) : p.length ≤ t.toNat := by
  unfold Tlog.proveTree at h
  split at h
  · cases h
  · obtain ⟨idx, _, h⟩ := bind_ok_inv h
    split at h
    · simp only [pure, Except.pure] at h; cases h; simp
    · obtain ⟨hashes, _, h⟩ := bind_ok_inv h
      obtain ⟨a, h1, h⟩ := bind_ok_inv h
      obtain ⟨p1, rest⟩ := a
      simp only at h
      split at h
      · cases h
      · simp only [pure, Except.pure] at h
        cases h
        have := treeProofF_length node _ _ _ _ _ _ _ h1
        simpa [Tlog.treeProof] using this

end

section
variable {σ H : Type} [DecidableEq H]

theorem liftTlog_ok_inv {α : Type} {x : Except Tlog.Err α} {a : α} (h : liftTlog x = .ok a) : x = .ok a := by
  cases x with
  | ok b => simpa [liftTlog] using h
  | error e => simp [liftTlog] at h

/-- the proof of `proveTreeVia(t, n, _)` has at most `t` hashes -/
theorem proveTreeVia_length (P : Params H) (E : Env σ) (w : World σ H) (t n : Nat) (tree : Head H) (p : List H)
    (h : (proveTreeVia P E w t n tree).1 = .ok p) : p.length ≤ t := by
  unfold proveTreeVia at h
  split at h
  · cases h
  · split at h
    · cases h
    · split at h
      · simp only at h; cases h; simp
      · simp only at h
        split at h
        · cases h
        · have := proveTree_length P.node _ _ _ _ (liftTlog_ok_inv h)
          simpa using this

end


/-! ### the index lists of `TreeHash` / `ProveTree` are short -/

/-- `subTreeIndex(lo, hi)` has at most `m` entries when `hi - lo < 2^m` (one per binary digit) -/
theorem subTreeIndexF_length : ∀ (f m lo hi : Nat) (l : List Nat), Tlog.subTreeIndexF f lo hi = .ok l →
    hi - lo < 2 ^ m → hi - lo < 2 ^ 63 → l.length ≤ m := by
  intro f
  induction f with
  | zero =>
    intro m lo hi l h _ _
    unfold Tlog.subTreeIndexF at h
    split at h
    · cases h
    · cases h; simp
  | succ f ih =>
    intro m lo hi l h hm h63
    unfold Tlog.subTreeIndexF at h
    split at h
    · rename_i hlt
      simp only at h
      have hs := Tlog.maxpow2_succ_spec (hi - lo) (by omega) h63
      have e : hi - lo + 1 = hi - lo + 1 := rfl
      generalize hk : Tlog.maxpow2 (hi - lo + 1) = kl at h hs
      obtain ⟨k, level⟩ := kl
      simp only at h hs
      obtain ⟨hk1, hk2, hk3⟩ := hs
      split at h
      · cases h
      · obtain ⟨rest, hr, h2⟩ := bind_ok_inv h
        simp only [pure, Except.pure] at h2
        cases h2
        have hrest := ih level (lo + k) hi rest hr (by omega) (by omega)
        have hlm : level < m := by
          apply Nat.lt_of_not_le; intro hc
          have : 2 ^ m ≤ 2 ^ level := Nat.pow_le_pow_right (by omega) hc
          omega
        simp only [List.length_cons]; omega
    · cases h; simp

theorem subTreeIndex_length (lo hi : Nat) (l : List Nat) (h : Tlog.subTreeIndex lo hi = .ok l) (h63 : hi - lo < 2 ^ 63) :
    l.length ≤ 63 :=
  subTreeIndexF_length _ 63 lo hi l h h63 h63

/-- `treeProofIndex(lo, hi, n)`: at most 63 entries per level of the recursion, at most `m + 1` levels when `hi - lo ≤ 2^m` -/
theorem treeProofIndexF_length : ∀ (f m lo hi n : Nat) (l : List Nat), Tlog.treeProofIndexF f lo hi n = .ok l →
    hi - lo ≤ 2 ^ m → m ≤ 62 → l.length ≤ 63 * (m + 1) := by
  intro f
  induction f with
  | zero => intro m lo hi n l h; simp [Tlog.treeProofIndexF] at h
  | succ f ih =>
    intro m lo hi n l h hm h62
    have hpow : 2 ^ m ≤ 2 ^ 62 := Nat.pow_le_pow_right (by omega) h62
    unfold Tlog.treeProofIndexF at h
    split at h
    · cases h
    · rename_i hcond
      simp only [Bool.not_eq_true, Bool.not_eq_false', Bool.and_eq_true, decide_eq_true_eq] at hcond
      split at h
      · split at h
        · cases h; simp
        · have := subTreeIndex_length lo hi l h (by omega)
          omega
      · rename_i hne
        simp only [beq_iff_eq] at hne
        have hs := Tlog.maxpow2_split_spec (hi - lo) (by omega) (by omega)
        generalize hk : Tlog.maxpow2 (hi - lo) = kl at h hs
        obtain ⟨k, j⟩ := kl
        simp only at h hs
        obtain ⟨hk1, hk2, hk3, _⟩ := hs
        have hjm : j < m := by
          apply Nat.lt_of_not_le; intro hc
          have : 2 ^ m ≤ 2 ^ j := Nat.pow_le_pow_right (by omega) hc
          omega
        have hj1 : 2 ^ j ≤ 2 ^ (m - 1) := Nat.pow_le_pow_right (by omega) (by omega)
        split at h
        · obtain ⟨a, ha, h2⟩ := bind_ok_inv h
          obtain ⟨b, hb, h3⟩ := bind_ok_inv h2
          simp only [pure, Except.pure] at h3
          cases h3
          have h1 := ih (m - 1) lo (lo + k) n a ha (by omega) (by omega)
          have h2' := subTreeIndex_length (lo + k) hi b hb (by omega)
          have : 63 * (m - 1 + 1) + 63 ≤ 63 * (m + 1) := by
            have : m - 1 + 1 = m := by omega
            rw [this]; omega
          simp only [List.length_append]; omega
        · obtain ⟨a, ha, h2⟩ := bind_ok_inv h
          obtain ⟨b, hb, h3⟩ := bind_ok_inv h2
          simp only [pure, Except.pure] at h3
          cases h3
          have h1 := subTreeIndex_length lo (lo + k) a ha (by omega)
          have h2' := ih (m - 1) (lo + k) hi n b hb (by omega) (by omega)
          have : 63 * (m - 1 + 1) + 63 ≤ 63 * (m + 1) := by
            have : m - 1 + 1 = m := by omega
            rw [this]; omega
          simp only [List.length_append]; omega

theorem treeProofIndex_length (t n : Nat) (l : List Nat) (h : Tlog.treeProofIndex 0 t n = .ok l) (ht : t ≤ 2 ^ 62) :
    l.length ≤ 63 * 63 :=
  treeProofIndexF_length _ 62 0 t n l h (by omega) (Nat.le_refl _)

/-- `ParseTree` rejects negative sizes -/
theorem parseTree_nonneg (text : Bytes) (t : TlogNote.Tree) (h : TlogNote.parseTree text = some t) : 0 ≤ t.n := by
  unfold TlogNote.parseTree at h
  split at h
  · cases h
  · split at h
    · split at h
      · cases h
      · split at h
        · cases h
        · split at h
          · cases h
          · split at h
            · cases h
            · rename_i n _ hneg _ _ _ _
              cases h
              simp only [Bool.or_eq_true, decide_eq_true_eq, not_or, Int.not_lt] at hneg
              exact hneg.1
    · cases h

end ModVerif.TieFnClientMerge
