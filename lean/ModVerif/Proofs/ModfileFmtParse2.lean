/-
  C02 stage 3, part d: the parser on a token stream (block bodies, statements, the file loop).

  Main result: `parseFileLoop_stream` — on the token stream `fileToks u` of a well-shaped statement list
  `u`, `parseFileLoop` returns a statement list that equals `u` up to positions and line identities, and
  records no end-of-line comment.
-/
import ModVerif.Proofs.ModfileFmtParse
namespace ModVerif.Proofs.ModfileFmtParse
open ModVerif ModVerif.Modfile
open ModVerif.Proofs.ModfileFmtLex ModVerif.Proofs.ModfileFmtLine ModVerif.Proofs.ModfileFmtStream
open ModVerif.Proofs.ModfileFmtTree

/-! ### more on kinds -/

theorem tokText_kind_cases {t : Bytes} (h : TokText t) :
    kindOf t = .ident ∨ kindOf t = .string ∨ ∃ c, c ∈ punctBytes ∧ kindOf t = .punct c ∧ t = [c] := by
  unfold TokText at h
  generalize hk : kindOf t = k at h
  cases h with
  | punct c hc => exact Or.inr (Or.inr ⟨c, hc, rfl, rfl⟩)
  | string q a hq hb => exact Or.inr (Or.inl rfl)
  | ident _ hne hb hnq => exact Or.inl rfl

/-- the kind of a line token that is not `)` selects the default branch of the block loop -/
theorem tokText_blk_default {t : Bytes} (h : TokText t) (h41 : t ≠ [41]) :
    kindOf t ≠ .eolComment ∧ kindOf t ≠ .punct 10 ∧ kindOf t ≠ .comment ∧ kindOf t ≠ .eof ∧ kindOf t ≠ .punct 41 := by
  rcases tokText_kind_cases h with hk | hk | ⟨c, hc, hk, ht⟩
  · rw [hk]; simp
  · rw [hk]; simp
  · rw [hk]
    refine ⟨by simp, ?_, by simp, by simp, ?_⟩
    · intro h10
      simp only [TokKind.punct.injEq] at h10
      subst h10
      revert hc; decide
    · intro h41'
      simp only [TokKind.punct.injEq] at h41'
      subst h41'
      exact h41 ht

/-- … and of the file loop -/
theorem tokText_file_default {t : Bytes} (h : TokText t) :
    kindOf t ≠ .punct 10 ∧ kindOf t ≠ .comment ∧ kindOf t ≠ .eof := by
  rcases tokText_kind_cases h with hk | hk | ⟨c, hc, hk, ht⟩
  · rw [hk]; simp
  · rw [hk]; simp
  · rw [hk]
    refine ⟨?_, by simp, by simp⟩
    intro h10
    simp only [TokKind.punct.injEq] at h10
    subst h10
    revert hc; decide

/-! ### comments and blank lines inside a block -/

/-- the parser's rule for keeping a blank line inside a block -/
def allowOf (linesRev : List Line) (crev : List Comment) : Bool :=
  match crev with
  | [] => !linesRev.isEmpty
  | c :: _ => !c.token.isEmpty

theorem eraseC_placeholder {c : Comment} (ht : c.token.isEmpty = true) (hs : c.suffix = false) :
    eraseC c = eraseC {} := by
  have : c.token = [] := by simpa using ht
  cases c
  simp_all [eraseC]

theorem blk_step_blank (i i1 : Input) (x : LineBlock) (linesRev : List Line) (crev : List Comment) (m : Nat)
    (hk : i.token.kind = .punct 10) (hl : lex i = .ok (i.token, i1)) :
    parseLineBlockLoop (m + 1) i x linesRev crev =
      parseLineBlockLoop m i1 x linesRev (if allowOf linesRev crev then ({} : Comment) :: crev else crev) := by
  conv => lhs; unfold parseLineBlockLoop
  simp only [Input.peek, hk, hl, bind, Except.bind]
  rfl

theorem blk_step_comment (i i1 : Input) (x : LineBlock) (linesRev : List Line) (crev : List Comment) (m : Nat)
    (hk : i.token.kind = .comment) (hl : lex i = .ok (i.token, i1)) :
    parseLineBlockLoop (m + 1) i x linesRev crev =
      parseLineBlockLoop m i1 x linesRev (({ start := i.token.pos, token := i.token.text } : Comment) :: crev) := by
  conv => lhs; unfold parseLineBlockLoop
  simp only [Input.peek, hk, hl, bind, Except.bind]

theorem blk_comments : ∀ (cs : List Comment) (crev : List Comment) (i : Input) (x : LineBlock)
    (linesRev : List Line) (fuel : Nat) (U : List Tk),
    BlkBeforeOK (allowOf linesRev crev) cs → Stream (blkBeforeToks cs ++ U) i → cs.length + 1 ≤ fuel →
    ∃ crev' i' fuel', parseLineBlockLoop fuel i x linesRev crev = parseLineBlockLoop fuel' i' x linesRev crev' ∧
      crev'.reverse.map eraseC = crev.reverse.map eraseC ++ cs.map eraseC ∧ Stream U i' ∧
      i'.commentsRev = i.commentsRev ∧ fuel ≤ fuel' + cs.length := by
  intro cs
  induction cs with
  | nil =>
    intro crev i x linesRev fuel U _ hS _
    exact ⟨crev, i, fuel, rfl, by simp, by simpa [blkBeforeToks] using hS, rfl, by simp⟩
  | cons c cs ih =>
    intro crev i x linesRev fuel U hok hS hf
    obtain ⟨m, rfl⟩ : ∃ m, fuel = m + 1 := ⟨fuel - 1, by omega⟩
    simp only [List.length_cons] at hf
    unfold BlkBeforeOK at hok
    by_cases hemp : c.token.isEmpty = true
    · -- a blank line that is kept
      simp only [hemp, if_true] at hok
      obtain ⟨hallow, hsuf, hok'⟩ := hok
      have hemp' : c.token = [] := by simpa using hemp
      have hS0 : Stream (nl :: (blkBeforeToks cs ++ U)) i := by
        simpa [blkBeforeToks, hemp'] using hS
      obtain ⟨i1, hl, hn, hc, hS1⟩ := Stream.lex hS0 nl_ne_eof
      have hk : i.token.kind = .punct 10 := hS0.kind
      have hallow1 : allowOf linesRev (({} : Comment) :: crev) = false := rfl
      obtain ⟨crev', i', fuel', heq, hcs, hS', hc', hfu⟩ := ih (({} : Comment) :: crev) i1 x linesRev m U
        (by rw [hallow1]; exact hok') hS1 (by omega)
      refine ⟨crev', i', fuel', ?_, ?_, hS', by rw [hc', hc], by simp only [List.length_cons]; omega⟩
      · rw [← heq, blk_step_blank i i1 x linesRev crev m hk hl, hallow]
        rfl
      · rw [hcs]
        simp [eraseC_placeholder hemp hsuf]
    · -- a whole-line comment
      simp only [hemp, Bool.false_eq_true, if_false] at hok
      obtain ⟨hsuf, _, hok'⟩ := hok
      have hemp' : c.token ≠ [] := by simpa using hemp
      have hS0 : Stream ((TokKind.comment, c.token) :: (blkBeforeToks cs ++ U)) i := by
        simpa [blkBeforeToks, hemp'] using hS
      obtain ⟨i1, hl, hn, hc, hS1⟩ := Stream.lex hS0 (by simp)
      have hk : i.token.kind = .comment := hS0.kind
      have htx : i.token.text = c.token := hS0.text
      have hallow1 : allowOf linesRev (({ start := i.token.pos, token := i.token.text } : Comment) :: crev) = true := by
        simp only [allowOf, htx]
        simpa using hemp
      obtain ⟨crev', i', fuel', heq, hcs, hS', hc', hfu⟩ := ih
        (({ start := i.token.pos, token := i.token.text } : Comment) :: crev) i1 x linesRev m U
        (by rw [hallow1]; exact hok') hS1 (by omega)
      refine ⟨crev', i', fuel', ?_, ?_, hS', by rw [hc', hc], by simp only [List.length_cons]; omega⟩
      · rw [← heq, blk_step_comment i i1 x linesRev crev m hk hl]
      · rw [hcs]
        have : eraseC ({ start := i.token.pos, token := i.token.text } : Comment) = eraseC c := by
          cases c
          simp_all [eraseC]
        simp [this]

/-! ### the lines of a block and its closing parenthesis -/

theorem eraseCs_before (cs : List Comment) :
    eraseCs { before := cs, suffix := [], after := [] } = { before := cs.map eraseC, suffix := [], after := [] } := by
  simp [eraseCs]

theorem blk_lines : ∀ (ls : List Line) (linesRev : List Line) (i : Input) (x : LineBlock) (fuel : Nat)
    (rb : List Comment) (T : List Tk),
    WFBlkLines (!linesRev.isEmpty) ls → BlkBeforeOK (!(linesRev.isEmpty && ls.isEmpty)) rb →
    Stream (ls.flatMap blkLineToks ++ (blkBeforeToks rb ++ rp :: nl :: T)) i →
    (ls.flatMap blkLineToks ++ (blkBeforeToks rb ++ rp :: nl :: T)).length ≤ fuel →
    ∃ b i', parseLineBlockLoop fuel i x linesRev [] = .ok (b, i') ∧
      b.lines.map eraseLine = linesRev.reverse.map eraseLine ++ ls.map eraseLine ∧
      b.rparen.comments.before.map eraseC = rb.map eraseC ∧ b.rparen.comments.suffix = [] ∧
      b.rparen.comments.after = [] ∧ b.token = x.token ∧ b.comments = x.comments ∧ b.lparen = x.lparen ∧
      Stream T i' ∧ i'.commentsRev = i.commentsRev := by
  intro ls
  induction ls with
  | nil =>
    intro linesRev i x fuel rb T _ hrb hS hf
    simp only [List.flatMap_nil, List.nil_append, List.length_append, List.length_cons] at hS hf
    have hallow : allowOf linesRev [] = !(linesRev.isEmpty && ([] : List Line).isEmpty) := by
      simp [allowOf]
    obtain ⟨crev', i1, fuel1, heq, hcs, hS1, hc1, hfu⟩ := blk_comments rb [] i x linesRev fuel (rp :: nl :: T)
      (by rw [hallow]; exact hrb) hS (by simp [blkBeforeToks] at hf; omega)
    have hlen : rb.length = (blkBeforeToks rb).length := by simp [blkBeforeToks]
    obtain ⟨m, rfl⟩ : ∃ m, fuel1 = m + 1 := ⟨fuel1 - 1, by omega⟩
    obtain ⟨i2, hl2, hn2, hc2, hS2⟩ := Stream.lex hS1 (by simp [rp])
    have hk1 : i1.token.kind = .punct 41 := hS1.kind
    obtain ⟨i3, hl3, hn3, hc3, hS3⟩ := Stream.lex hS2 nl_ne_eof
    have hk2 : i2.token.kind = .punct 10 := hS2.kind
    rw [heq]
    unfold parseLineBlockLoop
    simp only [Input.peek, hk1, hl2, bind, Except.bind, hk2, TokKind.isEOL, beq_self_eq_true, Bool.not_true,
      Bool.false_eq_true, if_false, hl3]
    refine ⟨_, i3, rfl, by simp, ?_, rfl, rfl, rfl, rfl, rfl, hS3, by rw [hc3, hc2, hc1]⟩
    simpa using hcs
  | cons l ls ih =>
    intro linesRev i x fuel rb T hls hrb hS hf
    obtain ⟨hl, hls'⟩ := hls
    have hallow : allowOf linesRev [] = !linesRev.isEmpty := rfl
    obtain ⟨t0, ts, htok⟩ : ∃ t0 ts, l.token = t0 :: ts := by
      cases h : l.token with
      | nil => exact absurd h hl.ne
      | cons a b => exact ⟨a, b, rfl⟩
    have hS0 : Stream (blkBeforeToks l.comments.before ++
        ((t0 :: ts).map tk ++ nl :: (ls.flatMap blkLineToks ++ (blkBeforeToks rb ++ rp :: nl :: T)))) i := by
      simpa [blkLineToks, htok, List.append_assoc] using hS
    have hlenb : l.comments.before.length = (blkBeforeToks l.comments.before).length := by simp [blkBeforeToks]
    have hf0 : l.comments.before.length + (ts.length + 1) + 1 +
        (ls.flatMap blkLineToks ++ (blkBeforeToks rb ++ rp :: nl :: T)).length ≤ fuel := by
      simp only [List.flatMap_cons, blkLineToks, htok, List.length_append, List.length_map, List.length_cons,
        List.length_nil] at hf ⊢
      rw [hlenb]
      omega
    obtain ⟨crev', i1, fuel1, heq, hcs, hS1, hc1, hfu⟩ := blk_comments l.comments.before [] i x linesRev fuel _
      (by rw [hallow]; exact hl.before) hS0 (by omega)
    obtain ⟨m, rfl⟩ : ∃ m, fuel1 = m + 1 := ⟨fuel1 - 1, by omega⟩
    have htt : ∀ t ∈ t0 :: ts, TokText t := by rw [← htok]; exact hl.tok
    have ht0 : TokText t0 := htt t0 (by simp)
    have h41 : t0 ≠ [41] := by
      intro h
      apply hl.first
      rw [htok, h]; rfl
    have hk1 : i1.token.kind = kindOf t0 := by
      simp only [List.map_cons, List.cons_append, tk] at hS1
      exact hS1.kind
    obtain ⟨d1, d2, d3, d4, d5⟩ := tokText_blk_default ht0 h41
    obtain ⟨l0, i2, hpl, hl0tok, hl0c, hl0b, hS2, hc2⟩ := parseLine_stream t0 ts i1 (m + 1) _ htt hS1 (by omega)
    -- the line with its comments attached
    let l1 : Line := { l0 with comments := { l0.comments with before := crev'.reverse } }
    have hl1 : eraseLine l1 = eraseLine l := by
      have hlc : l.comments = { before := l.comments.before, suffix := [], after := [] } := by
        have h1 := hl.suffix
        have h2 := hl.after
        cases hc : l.comments
        simp_all
      simp only [eraseLine, l1, hl0c, hl0tok, htok, hl0b, hl.inBlock]
      rw [hlc, eraseCs_before, eraseCs_before]
      have : crev'.reverse.map eraseC = l.comments.before.map eraseC := by simpa using hcs
      rw [this]
    obtain ⟨b, i3, hres, hlines, hrbe, hrs, hra, hbt, hbc, hbl, hS3, hc3⟩ := ih (l1 :: linesRev) i2 x m rb T
      (by simpa using hls') (by simpa using hrb) hS2 (by omega)
    refine ⟨b, i3, ?_, ?_, hrbe, hrs, hra, hbt, hbc, hbl, hS3, by rw [hc3, hc2, hc1]⟩
    · rw [heq]
      unfold parseLineBlockLoop
      simp only [Input.peek]
      split
      · rename_i h; exact absurd (hk1 ▸ h) d1
      · rename_i h; exact absurd (hk1 ▸ h) d2
      · rename_i h; exact absurd (hk1 ▸ h) d3
      · rename_i h; exact absurd (hk1 ▸ h) d4
      · rename_i h; exact absurd (hk1 ▸ h) d5
      · simp only [hpl, bind, Except.bind]
        exact hres
    · rw [hlines]
      simp [hl1]

/-! ### statements -/

/-- a block statement -/
theorem parseStmt_block (h0 : Bytes) (hs : List Bytes) (ls : List Line) (rb : List Comment) (i : Input)
    (fuel : Nat) (T : List Tk) (hts : ∀ t ∈ h0 :: hs, TokText t) (hls : WFBlkLines false ls)
    (hrb : BlkBeforeOK (!ls.isEmpty) rb)
    (hS : Stream ((h0 :: hs).map tk ++ lp :: nl :: (ls.flatMap blkLineToks ++ (blkBeforeToks rb ++ rp :: nl :: T))) i)
    (hf : ((h0 :: hs).map tk ++ lp :: nl :: (ls.flatMap blkLineToks ++ (blkBeforeToks rb ++ rp :: nl :: T))).length ≤ fuel) :
    ∃ b i', parseStmt fuel i = .ok (.lineBlock b, i') ∧ b.token = h0 :: hs ∧ b.comments = {} ∧
      b.lparen.comments = {} ∧ b.lines.map eraseLine = ls.map eraseLine ∧
      b.rparen.comments.before.map eraseC = rb.map eraseC ∧ b.rparen.comments.suffix = [] ∧
      b.rparen.comments.after = [] ∧ Stream T i' ∧ i'.commentsRev = i.commentsRev := by
  have ht0 : TokText h0 := hts h0 (by simp)
  simp only [List.map_cons, List.cons_append, tk] at hS
  obtain ⟨i1, hl, hn, hc, hS1⟩ := Stream.lex hS (tokText_ne_eof ht0)
  have htx : i.token.text = h0 := hS.text
  simp only [List.map_cons, List.cons_append, List.length_cons, List.length_append, List.length_map] at hf
  obtain ⟨i2, lpTok, fuel1, hS2, hc2, hfu, _, hres⟩ := parseStmtLoop_hdr hs.length hs (Nat.le_refl _) [h0] i1
    i.token.pos i.token.endPos fuel _ (fun t h => hts t (by simp [h])) hS1 (by omega)
  -- the newline after `(` is dropped, then the body
  obtain ⟨i3, hl3, hn3, hc3, hS3⟩ := Stream.lex hS2 nl_ne_eof
  have hk2 : i2.token.kind = .punct 10 := hS2.kind
  obtain ⟨b, i4, hb, hlines, hrbe, hrs, hra, hbt, hbc, hbl, hS4, hc4⟩ := blk_lines ls [] i3
    { start := i.token.pos, token := [h0].reverse ++ hs, lparen := { pos := lpTok.pos } } fuel1 rb T
    (by simpa using hls) (by simpa using hrb) hS3 (by simp only [List.length_append, List.length_cons] at hf ⊢; omega)
  refine ⟨b, i4, ?_, by rw [hbt]; simp, hbc, by rw [hbl], by simpa using hlines, hrbe, hrs, hra, hS4,
    by rw [hc4, hc3, hc2, hc]⟩
  unfold parseStmt
  simp only [hl, bind, Except.bind, htx]
  apply hres
  unfold parseLineBlock
  rw [blk_step_blank i2 i3 _ [] [] fuel1 hk2 hl3]
  exact hb

/-- a top-level line statement -/
theorem parseStmt_line (t0 : Bytes) (ts : List Bytes) (i : Input) (fuel : Nat) (T : List Tk)
    (hts : ∀ t ∈ t0 :: ts, TokText t) (hok : lineTailOK ts = true)
    (hS : Stream ((t0 :: ts).map tk ++ nl :: T) i) (hf : ts.length + 1 ≤ fuel) :
    ∃ l i', parseStmt fuel i = .ok (.line l, i') ∧ l.token = t0 :: ts ∧ l.comments = {} ∧ l.inBlock = false ∧
      Stream T i' ∧ i'.commentsRev = i.commentsRev := by
  have ht0 : TokText t0 := hts t0 (by simp)
  simp only [List.map_cons, List.cons_append, tk] at hS
  obtain ⟨i1, hl, hn, hc, hS1⟩ := Stream.lex hS (tokText_ne_eof ht0)
  have htx : i.token.text = t0 := hS.text
  obtain ⟨l, i', hr, htok, hcm, hib, hS', hc'⟩ := parseStmtLoop_line ts.length ts (Nat.le_refl _) [t0] i1
    i.token.pos i.token.endPos fuel T (fun t h => hts t (by simp [h])) hok hS1 hf
  unfold parseStmt
  simp only [hl, bind, Except.bind, htx]
  exact ⟨l, i', hr, by rw [htok]; simp, hcm, hib, hS', by rw [hc', hc]⟩

end ModVerif.Proofs.ModfileFmtParse
